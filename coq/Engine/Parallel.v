(** Parallel — model of happysimulator/parallel (ParallelSimulation,
    WindowedCoordinator, the event router) over the engine model: each partition
    is an engine world; a window runs every partition with
    [_execute_until(window_end, stop_at_boundary=True)], routing produced events
    to the local heap or to the partition's outbox; the barrier validates the
    declared minimum latency and schedules the outbox events into their
    destination partitions.  Partitions share no state during a window, so they
    are executed one after the other here (thread interleaving is not
    observable).  No proofs in this file. *)
From HS Require Import Base.Prelude Engine.Engine.
Local Open Scope Z_scope.

Section Parallel.
  Variables P U : Type.
  Variable invoke : U -> Z -> @ev P -> Z -> option (@inv_result P U).
  Variable part_of : @ev P -> Z.              (* partition owning the event's target *)
  Variable link : Z -> Z -> option Z.         (* declared min latency (ns) of the link src -> dst *)
  Notation ev := (@ev P).
  Notation st := (@st P U).

  Record pstate := mkPS {
    ps_st : st;
    ps_out : list (ev * Z);     (* outbox: (event, send time), oldest first *)
    ps_recv : list (ev * Z);    (* ghost: cross-partition events received, with the clock at the barrier *)
  }.

  (** [_set_active_context]: continue the per-heap counter above every sort
      index already pushed (cross-partition events carry foreign indices). *)
  Definition max_sort (l : list (ev * Z)) : Z := fold_right (fun x m => Z.max (ev_sort (fst x)) m) (-1) l.
  Definition reseed (s : st) : st :=
    let m := max_sort (pushed s) in
    if ctr s <=? m then mkSt (clock s) (heap s) (primary s) (m + 1) (cancelled s) (user s)
                             (processed s) (ncancelled s) (log s) (pushed s)
    else s.

  Inductive wout := WRunning (p : pstate) | WStopped (p : pstate) | WRaised (p : pstate).

  (** The router: local events stay, events for linked partitions go to the
      outbox with the send time, anything else raises. *)
  Definition routable (me : Z) (x : ev) : bool :=
    (part_of x =? me) || match link me (part_of x) with Some _ => true | None => false end.

  (** One iteration of the windowed loop of partition [me]. *)
  Definition wstep (me end_ns : Z) (p : pstate) : wout :=
    let s := ps_st p in
    match heap s with
    | [] => WStopped p
    | e :: h =>
        if negb (clock s <=? end_ns) then WStopped p
        else if end_ns <? ev_time e then WStopped p            (* stop_at_boundary *)
        else
          let prim := if ev_daemon e then primary s else primary s - 1 in
          if is_cancelled s e then
            WRunning (mkPS (mkSt (clock s) h prim (ctr s) (cancelled s) (user s) (processed s)
                                 (ncancelled s + 1) ((e, clock s, SkippedCancelled) :: log s) (pushed s)) (ps_out p) (ps_recv p))
          else if ev_time e <? clock s then
            WRunning (mkPS (mkSt (clock s) h prim (ctr s) (cancelled s) (user s) (processed s)
                                 (ncancelled s) ((e, clock s, SkippedPast) :: log s) (pushed s)) (ps_out p) (ps_recv p))
          else
            let now := ev_time e in
            match invoke (user s) now e (ctr s) with
            | None => WRaised (mkPS (mkSt now h prim (ctr s) (cancelled s) (user s) (processed s + 1)
                                          (ncancelled s) ((e, now, Delivered) :: log s) (pushed s)) (ps_out p) (ps_recv p))
            | Some r =>
                let s1 := mkSt now h prim (r_ctr r) (r_cancel r ++ cancelled s) (r_user r)
                               (processed s + 1) (ncancelled s) ((e, now, Delivered) :: log s) (pushed s) in
                if forallb (routable me) (r_new r) then
                  let loc := filter (fun x => part_of x =? me) (r_new r) in
                  let crs := filter (fun x => negb (part_of x =? me)) (r_new r) in
                  WRunning (mkPS (push_all s1 loc) (ps_out p ++ map (fun x => (x, now)) crs) (ps_recv p))
                else WRaised (mkPS s1 (ps_out p) (ps_recv p))
            end
    end.

  Fixpoint witerate (fuel : nat) (me end_ns : Z) (p : pstate) : wout :=
    match fuel with
    | O => WRunning p
    | S f => match wstep me end_ns p with
             | WRunning p' => witerate f me end_ns p'
             | o => o
             end
    end.

  (** [_run_window]: enter the context (reseed), run to the boundary. *)
  Definition run_window (fuel : nat) (me end_ns : Z) (p : pstate) : wout :=
    witerate fuel me end_ns (mkPS (reseed (ps_st p)) (ps_out p) (ps_recv p)).

  Fixpoint run_windows (fuel : nat) (end_ns : Z) (i : Z) (ps : list pstate) : option (list pstate) :=
    match ps with
    | [] => Some []
    | p :: r => match run_window fuel i end_ns p with
                | WStopped p' => match run_windows fuel end_ns (i + 1) r with
                                 | Some r' => Some (p' :: r')
                                 | None => None
                                 end
                | _ => None
                end
    end.

  Fixpoint upd_nth {A} (n : nat) (f : A -> A) (l : list A) : list A :=
    match l, n with
    | [], _ => []
    | x :: r, O => f x :: r
    | x :: r, S n' => x :: upd_nth n' f r
    end.

  (** Barrier: deliver one outbox entry of partition [src]. *)
  Definition deliver_one (src : Z) (ps : option (list pstate)) (x : ev * Z) : option (list pstate) :=
    match ps with
    | None => None
    | Some ps =>
        let '(e, sent) := x in
        match link src (part_of e) with
        | None => None                                   (* no PartitionLink: RuntimeError *)
        | Some lmin =>
            if ev_time e - sent <? lmin then None        (* violates min_latency: RuntimeError *)
            else Some (upd_nth (Z.to_nat (part_of e))
                               (fun d => mkPS (push_all (ps_st d) [e]) (ps_out d) ((e, clock (ps_st d)) :: ps_recv d)) ps)
        end
    end.

  Fixpoint exchange_from (i : Z) (todo : list pstate) (ps : option (list pstate)) : option (list pstate) :=
    match todo with
    | [] => ps
    | p :: r => exchange_from (i + 1) r (fold_left (deliver_one i) (ps_out p) ps)
    end.

  Definition clear_out (p : pstate) : pstate := mkPS (ps_st p) [] (ps_recv p).

  (** [_exchange_events]: sources in order, outbox entries in order, then clear. *)
  Definition exchange (ps : list pstate) : option (list pstate) :=
    match exchange_from 0 ps (Some ps) with
    | None => None
    | Some ps' => Some (map clear_out ps')
    end.

  Inductive presult := PFinished (ps : list pstate) | PRaised | POutOfFuel.

  (** The coordinator loop over the (float-computed) sequence of window ends. *)
  Fixpoint par_loop (fuel : nat) (wends : list Z) (ps : list pstate) : presult :=
    match wends with
    | [] => PFinished ps
    | w :: r =>
        match run_windows fuel w 0 ps with
        | None => PRaised
        | Some ps1 =>
            match exchange ps1 with
            | None => PRaised
            | Some ps2 =>
                if forallb (fun p => match heap (ps_st p) with [] => true | _ => false end) ps2
                then PFinished ps2 else par_loop fuel r ps2
            end
        end
    end.
End Parallel.

Arguments mkPS {P U}. Arguments ps_st {P U}. Arguments ps_out {P U}. Arguments ps_recv {P U}.
Arguments reseed {P U}. Arguments wstep {P U}. Arguments witerate {P U}. Arguments run_window {P U}.
Arguments run_windows {P U}. Arguments exchange {P U}. Arguments par_loop {P U}.
Arguments WRunning {P U}. Arguments WStopped {P U}. Arguments WRaised {P U}.
Arguments PFinished {P U}. Arguments PRaised {P U}. Arguments POutOfFuel {P U}.
Arguments deliver_one {P U}. Arguments exchange_from {P U}. Arguments clear_out {P U}. Arguments upd_nth {A}.
Arguments max_sort {P}.
