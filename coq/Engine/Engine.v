(** Engine — executable model of happysimulator/core/{simulation,event_heap,event}.py:
    the event heap (abstract priority queue: a list kept sorted by (time, sort
    index), the order of [Event.__lt__]), the sort-index counter, lazy
    cancellation, the "time travel" discard, the two run loops
    ([_execute_until], the fast path, and [_run_loop], the instrumented path with
    auto-termination), generic in the handler semantics.

    The handler semantics is a parameter [invoke] (instantiated by
    Engine/Script.v with an interpreter of scripted entities, generators and
    futures).  No proofs in this file. *)
From HS Require Import Base.Prelude.
Local Open Scope Z_scope.

Section Engine.
  (** [P]: event payload (type, target, process continuation ...);
      [U]: everything else in the world (entities, generators, futures). *)
  Variables P U : Type.

  Record ev := mkEv {
    ev_time : Z;          (* nanoseconds *)
    ev_sort : Z;          (* _sort_index (also the event's identity, _id) *)
    ev_daemon : bool;
    ev_pay : P;
  }.

  (** [Event.__lt__]: time first, then sort index. *)
  Definition ev_ltb (a b : ev) : bool :=
    if ev_time a =? ev_time b then ev_sort a <? ev_sort b else ev_time a <? ev_time b.

  (** heapq as an abstract priority queue: insertion into a sorted list. *)
  Fixpoint insert (e : ev) (h : list ev) : list ev :=
    match h with
    | [] => [e]
    | x :: r => if ev_ltb e x then e :: h else x :: insert e r
    end.
  Definition insert_all (es : list ev) (h : list ev) : list ev := fold_left (fun h e => insert e h) es h.

  (** Result of invoking an event: new world, events to push (those returned by
      the handler and those pushed directly by future resolution), identities
      of events cancelled by the handler, next free sort index; [None] = the
      handler raised. *)
  Record inv_result := mkRes {
    r_user : U;
    r_new : list ev;
    r_cancel : list Z;
    r_ctr : Z;
  }.
  Variable invoke : U -> Z (*clock*) -> ev -> Z (*ctr*) -> option inv_result.

  Inductive disposition := Delivered | SkippedCancelled | SkippedPast.

  Record st := mkSt {
    clock : Z;
    heap : list ev;
    primary : Z;                 (* EventHeap._primary_event_count *)
    ctr : Z;                     (* next sort index *)
    cancelled : list Z;          (* identities with _cancelled = True *)
    user : U;
    processed : Z;               (* _events_processed *)
    ncancelled : Z;              (* _events_cancelled *)
    (* observation / ghost history, newest first *)
    log : list (ev * Z * disposition);      (* popped event, clock after the pop was handled *)
    pushed : list (ev * Z);                 (* every event ever pushed, with the clock at push *)
  }.

  Definition count_primary (h : list ev) : Z :=
    fold_right (fun e n => if ev_daemon e then n else n + 1) 0 h.

  Definition is_cancelled (s : st) (e : ev) : bool := existsb (Z.eqb (ev_sort e)) (cancelled s).

  Definition push_all (s : st) (es : list ev) : st :=
    mkSt (clock s) (insert_all es (heap s))
         (primary s + count_primary es) (ctr s) (cancelled s) (user s)
         (processed s) (ncancelled s) (log s)
         (rev (map (fun e => (e, clock s)) es) ++ pushed s).

  Inductive outcome := Running (s : st) | Stopped (s : st) | Raised (s : st).

  (** The body of one loop iteration after the guards: pop, skip or deliver. *)
  Definition pop_and_handle (s : st) (e : ev) (h : list ev) : outcome :=
    let prim := if ev_daemon e then primary s else primary s - 1 in
    if is_cancelled s e then
      Running (mkSt (clock s) h prim (ctr s) (cancelled s) (user s) (processed s)
                    (ncancelled s + 1) ((e, clock s, SkippedCancelled) :: log s) (pushed s))
    else if ev_time e <? clock s then
      Running (mkSt (clock s) h prim (ctr s) (cancelled s) (user s) (processed s)
                    (ncancelled s) ((e, clock s, SkippedPast) :: log s) (pushed s))
    else
      let now := ev_time e in
      match invoke (user s) now e (ctr s) with
      | None =>
          Raised (mkSt now h prim (ctr s) (cancelled s) (user s) (processed s + 1)
                       (ncancelled s) ((e, now, Delivered) :: log s) (pushed s))
      | Some r =>
          let s1 := mkSt now h prim (r_ctr r) (r_cancel r ++ cancelled s) (r_user r)
                         (processed s + 1) (ncancelled s) ((e, now, Delivered) :: log s) (pushed s) in
          Running (push_all s1 (r_new r))
      end.

  (** [_execute_until end_ns]: while heap and clock <= end_ns. *)
  Definition step_fast (end_ns : Z) (s : st) : outcome :=
    match heap s with
    | [] => Stopped s
    | e :: h => if clock s <=? end_ns then pop_and_handle s e h else Stopped s
    end.

  (** [_run_loop] without a control surface: while heap and end_time >= clock;
      auto-termination (only when end_time is Infinity) before the pop. *)
  Definition step_slow (end_ns : option Z) (s : st) : outcome :=
    match heap s with
    | [] => Stopped s
    | e :: h =>
        let guard := match end_ns with None => true | Some t => t >=? clock s end in
        if negb guard then Stopped s
        else
          let auto := match end_ns with None => true | Some _ => false end in
          if auto && negb (0 <? primary s) then Stopped s
          else pop_and_handle s e h
    end.

  Fixpoint iterate (step : st -> outcome) (fuel : nat) (s : st) : outcome :=
    match fuel with
    | O => Running s                      (* out of fuel: still running *)
    | S f => match step s with
             | Running s' => iterate step f s'
             | o => o
             end
    end.

  Definition run_fast (fuel : nat) (end_ns : Z) (s : st) : outcome := iterate (step_fast end_ns) fuel s.
  Definition run_slow (fuel : nat) (end_ns : option Z) (s : st) : outcome := iterate (step_slow end_ns) fuel s.

  (** [Simulation.run()] dispatch: the fast path needs an explicit end_time
      (and no control, tracing or router, which this entry point does not have). *)
  Definition run (fuel : nat) (end_ns : option Z) (s : st) : outcome :=
    match end_ns with
    | Some t => run_fast fuel t s
    | None => run_slow fuel None s
    end.

  Definition step (end_ns : option Z) : st -> outcome :=
    match end_ns with Some t => step_fast t | None => step_slow None end.

  (** A run that used up its fuel but whose next loop test would end it has
      in fact ended (the implementation's watchdog only fires on a further pop). *)
  Definition settle (end_ns : option Z) (o : outcome) : outcome :=
    match o with
    | Running s => match step end_ns s with Stopped s' => Stopped s' | _ => Running s end
    | _ => o
    end.

  Definition out_state (o : outcome) : st :=
    match o with Running s | Stopped s | Raised s => s end.

  (** Initial state: the pre-run events (created after the constructor, sort
      indices from the global counter) are pushed at the start clock; the
      per-heap counter continues above them (see [_set_active_context]). *)
  Definition init_state (start : Z) (u : U) (pre : list ev) (ctr0 : Z) : st :=
    push_all (mkSt start [] 0 ctr0 [] u 0 0 [] []) pre.

  Definition delivered (s : st) : list ev :=
    rev (map (fun x => fst (fst x))
             (filter (fun x => match snd x with Delivered => true | _ => false end) (log s))).
End Engine.

Arguments mkEv {P}. Arguments ev_time {P}. Arguments ev_sort {P}. Arguments ev_daemon {P}. Arguments ev_pay {P}.
Arguments ev_ltb {P}. Arguments insert {P}. Arguments insert_all {P}.
Arguments mkRes {P U}. Arguments r_user {P U}. Arguments r_new {P U}. Arguments r_cancel {P U}. Arguments r_ctr {P U}.
Arguments mkSt {P U}. Arguments clock {P U}. Arguments heap {P U}. Arguments primary {P U}. Arguments ctr {P U}.
Arguments cancelled {P U}. Arguments user {P U}. Arguments processed {P U}. Arguments ncancelled {P U}.
Arguments log {P U}. Arguments pushed {P U}.
Arguments count_primary {P}. Arguments is_cancelled {P U}. Arguments push_all {P U}.
Arguments Running {P U}. Arguments Stopped {P U}. Arguments Raised {P U}.
Arguments pop_and_handle {P U}. Arguments step_fast {P U}. Arguments step_slow {P U}.
Arguments iterate {P U}. Arguments run_fast {P U}. Arguments run_slow {P U}. Arguments run {P U}.
Arguments step {P U}. Arguments settle {P U}.
Arguments out_state {P U}. Arguments init_state {P U}. Arguments delivered {P U}.
