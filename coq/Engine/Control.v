(** Control — model of the instrumented loop [_run_loop] with a control surface
    attached (core/control/control.py, breakpoints.py): pause requests, step(n),
    resume, Time/EventCount/EventType breakpoints (one-shot or not), driven by a
    *session*: a list of commands issued between the re-entrant calls of
    [Simulation.run()].  No proofs in this file. *)
From HS Require Import Base.Prelude Engine.Engine.
Local Open Scope Z_scope.

Section Control.
  Variables P U : Type.
  Variable invoke : U -> Z -> @ev P -> Z -> option (@inv_result P U).
  Variable etype : P -> Z.              (* event_type of a payload *)
  Variable metric : U -> Z -> option Z. (* MetricBreakpoint: attribute value of entity [ent]; None = no such entity/attribute *)
  Notation st := (@st P U).

  Inductive bp :=
  | BTime (t : Z) (one : bool) | BCount (n : Z) (one : bool) | BType (ty : Z) (one : bool)
  | BMetric (ent op thr : Z) (one : bool).   (* op: 0 gt, 1 ge, 2 lt, 3 le, 4 eq, 5 ne *)

  Definition cmp_op (op v thr : Z) : bool :=
    if op =? 0 then v >? thr else if op =? 1 then v >=? thr else if op =? 2 then v <? thr
    else if op =? 3 then v <=? thr else if op =? 4 then v =? thr else negb (v =? thr).

  Record ctl := mkCtl { pause_req : bool; steps : option Z; bps : list bp }.

  Definition bp_one (b : bp) : bool := match b with BTime _ o | BCount _ o | BType _ o | BMetric _ _ _ o => o end.

  (** [should_break] on the context after a delivery of [e]. *)
  Definition should_break (s : st) (e : @ev P) (b : bp) : bool :=
    match b with
    | BTime t _ => clock s >=? t
    | BCount n _ => processed s >=? n
    | BType ty _ => etype (ev_pay e) =? ty
    | BMetric ent op thr _ => match metric (user s) ent with Some v => cmp_op op v thr | None => false end
    end.

  (** [_should_pause]. *)
  Definition should_pause (c : ctl) : bool :=
    pause_req c || match steps c with Some k => k <=? 0 | None => false end.

  Inductive coutcome :=
  | CRunning (c : ctl) (s : st) | CPaused (c : ctl) (s : st)
  | CStopped (c : ctl) (s : st) | CRaised (c : ctl) (s : st).

  (** One iteration of [_run_loop] with [control is not None]. *)
  Definition cstep (end_ns : option Z) (c : ctl) (s : st) : coutcome :=
    match heap s with
    | [] => CStopped c s
    | e :: h =>
        let guard := match end_ns with None => true | Some t => t >=? clock s end in
        if negb guard then CStopped c s
        else if should_pause c then CPaused c s
        else
          let auto := match end_ns with None => true | Some _ => false end in
          if auto && negb (0 <? primary s) then CStopped c s
          else
            let skipped := is_cancelled s e || (ev_time e <? clock s) in
            match pop_and_handle invoke s e h with
            | Raised s' => CRaised c s'
            | Stopped s' => CStopped c s'
            | Running s' =>
                if skipped then CRunning c s'          (* `continue`: no notification, no breakpoint check *)
                else
                  (* _notify_event_processed: decrement the step budget; _check_breakpoints *)
                  let st' := match steps c with Some k => Some (k - 1) | None => None end in
                  let trig := existsb (should_break s' e) (bps c) in
                  let keep := filter (fun b => negb (should_break s' e b && bp_one b)) (bps c) in
                  let c' := mkCtl (pause_req c) st' keep in
                  if trig then CPaused c' s' else CRunning c' s'
            end
    end.

  Fixpoint citerate (fuel : nat) (end_ns : option Z) (c : ctl) (s : st) : coutcome :=
    match fuel with
    | O => CRunning c s
    | S f => match cstep end_ns c s with
             | CRunning c' s' => citerate f end_ns c' s'
             | o => o
             end
    end.

  (** Commands issued to the control surface between runs. *)
  Inductive cmd :=
  | CmdPause                  (* control.pause() *)
  | CmdStart                  (* sim.run(), first call *)
  | CmdStep (n : Z)           (* control.step(n) *)
  | CmdResume                 (* control.resume() *)
  | CmdAddBp (b : bp)
  | CmdClearBps.

  Inductive phase := NotStarted | IsPaused | Done | Failed | OutOfFuel.

  Record session := mkSess { s_phase : phase; s_ctl : ctl; s_st : st }.

  Definition after_run (o : coutcome) : session :=
    match o with
    | CPaused c s => mkSess IsPaused c s
    | CStopped c s => mkSess Done c s
    | CRaised c s => mkSess Failed c s
    | CRunning c s => mkSess OutOfFuel c s
    end.

  (** Calls that the implementation rejects with an exception (step before the
      run started or after it completed, resume when not paused, step(n<1))
      leave everything unchanged. *)
  Definition do_cmd (fuel : nat) (end_ns : option Z) (x : session) (k : cmd) : session :=
    let c := s_ctl x in
    match k, s_phase x with
    | CmdPause, _ => mkSess (s_phase x) (mkCtl true (steps c) (bps c)) (s_st x)
    | CmdAddBp b, _ => mkSess (s_phase x) (mkCtl (pause_req c) (steps c) (bps c ++ [b])) (s_st x)
    | CmdClearBps, _ => mkSess (s_phase x) (mkCtl (pause_req c) (steps c) []) (s_st x)
    | CmdStart, NotStarted => after_run (citerate fuel end_ns c (s_st x))
    | CmdStep n, IsPaused =>
        if n <? 1 then x else after_run (citerate fuel end_ns (mkCtl false (Some n) (bps c)) (s_st x))
    | CmdResume, IsPaused => after_run (citerate fuel end_ns (mkCtl false None (bps c)) (s_st x))
    | _, _ => x
    end.

  Definition run_session (fuel : nat) (end_ns : option Z) (s0 : st) (ks : list cmd) : session :=
    fold_left (do_cmd fuel end_ns) ks (mkSess NotStarted (mkCtl false None []) s0).
End Control.

Arguments CRunning {P U}. Arguments CPaused {P U}. Arguments CStopped {P U}. Arguments CRaised {P U}.
Arguments cstep {P U}. Arguments citerate {P U}.
Arguments mkSess {P U}. Arguments s_phase {P U}. Arguments s_ctl {P U}. Arguments s_st {P U}.
Arguments do_cmd {P U}. Arguments run_session {P U}. Arguments after_run {P U}.
Arguments should_break {P U}.
