(** ControlProofs — a run driven through the control surface visits exactly the
    states of the uninterrupted instrumented loop (pausing only cuts the
    iteration), the instrumented loop equals the fast loop, step(n) delivers
    exactly n events, breakpoints pause right after the first delivery that
    satisfies them. *)
From HS Require Import Base.Prelude Engine.Engine Engine.Control.
Local Open Scope Z_scope.

Section CP.
  Variables P U : Type.
  Variable invoke : U -> Z -> @ev P -> Z -> option (@inv_result P U).
  Variable etype : P -> Z.
  Variable metric : U -> Z -> option Z.
  Notation st := (@st P U).
  Notation cstep := (cstep invoke etype metric).
  Notation citerate := (citerate invoke etype metric).
  Notation coutcome := (@coutcome P U).
  Notation session := (@session P U).

  (** Paths of the uninterrupted loop. *)
  Inductive steps_to (end_ns : option Z) : st -> st -> Prop :=
  | st_refl s : steps_to end_ns s s
  | st_step s s1 s' : step_slow invoke end_ns s = Running s1 -> steps_to end_ns s1 s' -> steps_to end_ns s s'.

  Lemma steps_to_trans end_ns a b c : steps_to end_ns a b -> steps_to end_ns b c -> steps_to end_ns a c.
  Proof. induction 1; [auto|]. intros H2. econstructor; eauto. Qed.

  Lemma steps_to_snoc end_ns a b c : steps_to end_ns a b -> step_slow invoke end_ns b = Running c -> steps_to end_ns a c.
  Proof. intros H1 H2. eapply steps_to_trans; [exact H1|]. econstructor; [exact H2|constructor]. Qed.

  (** The instrumented loop equals the fast loop when an end_time is given. *)
  Theorem step_slow_eq_fast t s : step_slow invoke (Some t) s = step_fast invoke t s.
  Proof.
    unfold step_slow, step_fast. destruct (heap s) as [|e h]; [reflexivity|].
    rewrite Z.geb_leb. destruct (clock s <=? t); reflexivity.
  Qed.

  Theorem run_slow_eq_fast fuel t s : run_slow invoke fuel (Some t) s = run_fast invoke fuel t s.
  Proof.
    unfold run_slow, run_fast. revert s; induction fuel as [|f IH]; intros s; cbn; [reflexivity|].
    rewrite step_slow_eq_fast. destruct (step_fast invoke t s); auto.
  Qed.

  (** One controlled iteration is one iteration of the uninterrupted loop, or a
      pause that changes nothing. *)
  Lemma cstep_cases end_ns c s :
    match cstep end_ns c s with
    | CRunning c' s' => step_slow invoke end_ns s = Running s'
    | CPaused c' s' => s' = s \/ step_slow invoke end_ns s = Running s'
    | CStopped c' s' => step_slow invoke end_ns s = Stopped s' /\ s' = s
    | CRaised c' s' => step_slow invoke end_ns s = Raised s'
    end.
  Proof.
    unfold Control.cstep, step_slow. destruct (heap s) as [|e h] eqn:Hh; [auto|].
    destruct (negb _) eqn:Eg; [auto|].
    destruct (should_pause c); [left; reflexivity|].
    destruct (_ && negb (0 <? primary s)) eqn:Ea; [auto|].
    destruct (pop_and_handle invoke s e h) as [s'|s'|s'] eqn:Ep.
    - destruct (is_cancelled s e || (ev_time e <? clock s)); [reflexivity|].
      destruct (existsb _ _); [right; reflexivity|reflexivity].
    - exfalso. unfold pop_and_handle in Ep. destruct (is_cancelled s e); [discriminate|].
      destruct (ev_time e <? clock s); [discriminate|]. destruct (invoke _ _ _ _); discriminate.
    - reflexivity.
  Qed.

  Definition cstate (o : coutcome) : st :=
    match o with CRunning _ s | CPaused _ s | CStopped _ s | CRaised _ s => s end.

  Lemma citerate_path fuel end_ns : forall c s,
    match citerate fuel end_ns c s with
    | CRaised c' s' => exists s1, steps_to end_ns s s1 /\ step_slow invoke end_ns s1 = Raised s'
    | CStopped c' s' => steps_to end_ns s s' /\ step_slow invoke end_ns s' = Stopped s'
    | o => steps_to end_ns s (cstate o)
    end.
  Proof.
    induction fuel as [|f IH]; intros c s; cbn; [constructor|].
    pose proof (cstep_cases end_ns c s) as Hc.
    destruct (cstep end_ns c s) as [c1 s1|c1 s1|c1 s1|c1 s1].
    - specialize (IH c1 s1). destruct (citerate f end_ns c1 s1) as [c2 s2|c2 s2|c2 s2|c2 s2]; cbn in *.
      + econstructor; eauto.
      + econstructor; eauto.
      + destruct IH as [I1 I2]. split; [econstructor; eauto|exact I2].
      + destruct IH as [s3 [I1 I2]]. exists s3. split; [econstructor; eauto|exact I2].
    - cbn. destruct Hc as [->|Hc]; [constructor|econstructor; [exact Hc|constructor]].
    - destruct Hc as [Hc ->]. split; [constructor|exact Hc].
    - exists s. split; [constructor|exact Hc].
  Qed.

  (** Every state reached by any control session is a state of the
      uninterrupted run; a completed session ends where the loop stops. *)
  Definition sess_ok (end_ns : option Z) (s0 : st) (x : session) : Prop :=
    match s_phase x with
    | Failed => exists s1, steps_to end_ns s0 s1 /\ step_slow invoke end_ns s1 = Raised (s_st x)
    | Done => steps_to end_ns s0 (s_st x) /\ step_slow invoke end_ns (s_st x) = Stopped (s_st x)
    | _ => steps_to end_ns s0 (s_st x)
    end.

  Lemma after_run_ok end_ns s0 fuel c s :
    steps_to end_ns s0 s -> sess_ok end_ns s0 (after_run (citerate fuel end_ns c s)).
  Proof.
    intros H0. pose proof (citerate_path fuel end_ns c s) as Hp.
    destruct (citerate fuel end_ns c s) as [c1 s1|c1 s1|c1 s1|c1 s1]; unfold sess_ok; cbn in *.
    - eapply steps_to_trans; eauto.
    - eapply steps_to_trans; eauto.
    - destruct Hp as [H1 H2]. split; [eapply steps_to_trans; eauto|exact H2].
    - destruct Hp as [s2 [H1 H2]]. exists s2. split; [eapply steps_to_trans; eauto|exact H2].
  Qed.

  Lemma do_cmd_ok fuel end_ns s0 x k :
    sess_ok end_ns s0 x -> sess_ok end_ns s0 (do_cmd invoke etype metric fuel end_ns x k).
  Proof.
    intros H. destruct k as [| |n| |b|]; unfold do_cmd.
    - destruct (s_phase x) eqn:E; unfold sess_ok in *; cbn; rewrite ?E in *; exact H.
    - destruct (s_phase x) eqn:E; try exact H. apply after_run_ok. unfold sess_ok in H; rewrite E in H; exact H.
    - destruct (s_phase x) eqn:E; try exact H. destruct (n <? 1); [exact H|].
      apply after_run_ok. unfold sess_ok in H; rewrite E in H; exact H.
    - destruct (s_phase x) eqn:E; try exact H. apply after_run_ok. unfold sess_ok in H; rewrite E in H; exact H.
    - destruct (s_phase x) eqn:E; unfold sess_ok in *; cbn; rewrite ?E in *; exact H.
    - destruct (s_phase x) eqn:E; unfold sess_ok in *; cbn; rewrite ?E in *; exact H.
  Qed.

  Theorem session_ok fuel end_ns s0 ks : sess_ok end_ns s0 (run_session invoke etype metric fuel end_ns s0 ks).
  Proof.
    unfold run_session.
    assert (H0 : sess_ok end_ns s0 (mkSess NotStarted (mkCtl false None []) s0)) by (unfold sess_ok; cbn; constructor).
    revert H0. generalize (mkSess NotStarted (mkCtl false None []) s0) as x.
    induction ks as [|k ks IH]; intros x H; cbn; [exact H|]. apply IH. apply do_cmd_ok. exact H.
  Qed.

  (** A path that ends in a stopping state is what the uninterrupted run
      computes, for every sufficiently large fuel. *)
  Lemma path_stopped_run end_ns s s' :
    steps_to end_ns s s' -> step_slow invoke end_ns s' = Stopped s' ->
    exists n, forall fuel, (n <= fuel)%nat -> run_slow invoke fuel end_ns s = Stopped s'.
  Proof.
    unfold run_slow. induction 1 as [s|s s1 s' Hs _ IH]; intros Hstop.
    - exists 1%nat. intros [|f] Hf; [lia|]. cbn. rewrite Hstop. reflexivity.
    - destruct (IH Hstop) as [n Hn]. exists (S n). intros [|f] Hf; [lia|]. cbn. rewrite Hs. apply Hn. lia.
  Qed.

  Theorem session_completes_like_uninterrupted fuel end_ns s0 ks :
    let x := run_session invoke etype metric fuel end_ns s0 ks in
    s_phase x = Done ->
    exists n, forall fuel', (n <= fuel')%nat -> run_slow invoke fuel' end_ns s0 = Stopped (s_st x).
  Proof.
    intros x Hd. pose proof (session_ok fuel end_ns s0 ks) as H. fold x in H.
    unfold sess_ok in H. rewrite Hd in H. destruct H as [H1 H2]. eapply path_stopped_run; eauto.
  Qed.

  (** step(n): exactly n deliveries, unless the run ends first. *)
  Lemma pop_and_handle_processed s e h s' :
    pop_and_handle invoke s e h = Running s' ->
    processed s' = processed s + (if is_cancelled s e || (ev_time e <? clock s) then 0 else 1).
  Proof.
    unfold pop_and_handle. destruct (is_cancelled s e); cbn; [intros H; inversion H; subst; cbn; lia|].
    destruct (ev_time e <? clock s); cbn; [intros H; inversion H; subst; cbn; lia|].
    destruct (invoke _ _ _ _); [|discriminate]. intros H; inversion H; subst. unfold push_all; cbn. lia.
  Qed.

  Theorem step_n_exact fuel end_ns : forall k s, 0 <= k ->
    match citerate fuel end_ns (mkCtl false (Some k) []) s with
    | CPaused c' s' => processed s' = processed s + k
    | CStopped c' s' => exists j, 0 <= j <= k /\ processed s' = processed s + (k - j)
    | _ => True
    end.
  Proof.
    induction fuel as [|f IH]; intros k s Hk; cbn; [exact I|].
    unfold Control.cstep. destruct (heap s) as [|e h] eqn:Hh.
    { exists k. split; lia. }
    destruct (negb _); [exists k; split; lia|].
    unfold should_pause; cbn [pause_req steps orb].
    destruct (k <=? 0) eqn:Ek; [lia|].
    destruct (_ && negb (0 <? primary s)); [exists k; split; lia|].
    destruct (pop_and_handle invoke s e h) as [s1|s1|s1] eqn:Ep; [| |exact I].
    - pose proof (pop_and_handle_processed _ _ _ _ Ep) as Hpr.
      destruct (is_cancelled s e || (ev_time e <? clock s)).
      + specialize (IH k s1 Hk). destruct (citerate f end_ns _ s1) as [c2 s2|c2 s2|c2 s2|c2 s2]; auto.
        * lia.
        * destruct IH as [j [Hj E]]. exists j. split; [exact Hj|lia].
      + cbn [bps existsb filter]. specialize (IH (k - 1) s1 ltac:(lia)).
        destruct (citerate f end_ns _ s1) as [c2 s2|c2 s2|c2 s2|c2 s2]; auto.
        * lia.
        * destruct IH as [j [Hj E]]. exists j. split; [lia|lia].
    - exfalso. unfold pop_and_handle in Ep. destruct (is_cancelled s e); [discriminate|].
      destruct (ev_time e <? clock s); [discriminate|]. destruct (invoke _ _ _ _); discriminate.
  Qed.

  (** A breakpoint pauses the run right after the first delivery whose
      post-state satisfies it; one-shot breakpoints that fired are removed. *)
  Theorem breakpoint_pauses_after_first_hit end_ns c s e h s' :
    heap s = e :: h ->
    match end_ns with None => true | Some t => t >=? clock s end = true ->
    should_pause c = false ->
    (match end_ns with None => true | Some _ => false end) && negb (0 <? primary s) = false ->
    is_cancelled s e || (ev_time e <? clock s) = false ->
    pop_and_handle invoke s e h = Running s' ->
    let c' := mkCtl (pause_req c) (match steps c with Some k => Some (k - 1) | None => None end)
                    (filter (fun b => negb (should_break etype metric s' e b && bp_one b)) (bps c)) in
    cstep end_ns c s = if existsb (should_break etype metric s' e) (bps c) then CPaused c' s' else CRunning c' s'.
  Proof.
    intros Hh Hg Hp Ha Hs Hpop. unfold Control.cstep. rewrite Hh, Hg, Hp, Ha, Hpop, Hs. cbn. reflexivity.
  Qed.
End CP.
