(** ParallelScript — partitioned scripted simulations and the comparison
    function of the C05 correspondence (per partition, up to permutation of
    entries carrying the same timestamp). *)
From HS Require Import Base.Prelude Engine.Engine Engine.Script Engine.Parallel.
Local Open Scope Z_scope.

Definition part_of_script (pmap : list Z) (e : sev) : Z := nth (Z.to_nat (p_target (ev_pay e))) pmap 0.

Definition link_of (links : list (Z * Z * Z)) (a b : Z) : option Z :=
  match find (fun l => (fst (fst l) =? a) && (snd (fst l) =? b)) links with
  | Some l => Some (snd l)
  | None => None
  end.

(** Partition [i] of a script: the whole program is visible (entities are
    addressed globally); the pre-run events are those scheduled into [i]. *)
Definition par_init (start : Z) (p : program) (pres : list (list prespec)) : list (@pstate pay ustate) :=
  map (fun pre => mkPS (script_init start p pre) [] []) pres.

(** With no links every partition simply runs its own [Simulation.run()]
    ([_run_independent]); otherwise the windowed coordinator runs. *)
Definition par_run (fuel : nat) (start end_ns : Z) (p : program) (pmap : list Z) (links : list (Z * Z * Z))
                   (pres : list (list prespec)) (wends : list Z) : @presult pay ustate :=
  match links with
  | [] =>
      let outs := map (fun x => run invoke_script fuel (Some end_ns) (ps_st x)) (par_init start p pres) in
      if forallb (fun o => match o with Stopped _ => true | _ => false end) outs
      then PFinished (map (fun o => mkPS (out_state o) [] []) outs)
      else if existsb (fun o => match o with Raised _ => true | _ => false end) outs then PRaised else POutOfFuel
  | _ => par_loop invoke_script (part_of_script pmap) (link_of links) fuel wends (par_init start p pres)
  end.

(** Sorting 4-tuples lexicographically (insertion sort). *)
Definition q4 := (Z * Z * Z * Z)%type.
Definition q4_leb (a b : q4) : bool :=
  let '(a1, a2, a3, a4) := a in let '(b1, b2, b3, b4) := b in
  (a1 <? b1) || ((a1 =? b1) && ((a2 <? b2) || ((a2 =? b2) && ((a3 <? b3) || ((a3 =? b3) && (a4 <=? b4)))))).
Fixpoint q4_ins (x : q4) (l : list q4) : list q4 :=
  match l with [] => [x] | y :: r => if q4_leb x y then x :: l else y :: q4_ins x r end.
Definition q4_sort (l : list q4) : list q4 := fold_right q4_ins [] l.
Definition q4_eqb (a b : q4) : bool :=
  let '(a1, a2, a3, a4) := a in let '(b1, b2, b3, b4) := b in (a1 =? b1) && (a2 =? b2) && (a3 =? b3) && (a4 =? b4).

Definition uentry_key (u : uentry) : q4 :=
  match u with
  | UResume n _ _ => (n, 1, 0, 0)
  | UHook n h i => (n, 2, h, i)
  | UFinish n _ => (n, 3, 0, 0)
  | UHandle n g y => (n, 4, g, y)
  end.

(** Observation of one partition: deliveries, entity-side log keys, final clock, heap size. *)
Definition part_obs := (list q4 * list q4 * Z * Z)%type.

Definition ok_part (p : @pstate pay ustate) (o : part_obs) : bool :=
  let '(dels, ul, clk, hp) := o in
  list_eqb q4_eqb (q4_sort (deliveries_of (ps_st p))) (q4_sort dels)
  && list_eqb q4_eqb (q4_sort (map uentry_key (ulog (user (ps_st p))))) (q4_sort ul)
  && (clock (ps_st p) =? clk) && (Z.of_nat (length (heap (ps_st p))) =? hp).

(** status: 0 finished, 1 raised. *)
Definition ok_par (c : nat * (Z * Z * program * list Z * list (Z * Z * Z) * list (list prespec) * list Z * (Z * list part_obs))) : bool :=
  let '(fuel, (start, end_ns, p, pmap, links, pres, wends, (status, obs))) := c in
  match par_run fuel start end_ns p pmap links pres wends with
  | PFinished ps => (status =? 0) && forallb2 ok_part ps obs
  | PRaised => status =? 1
  | POutOfFuel => false
  end.
