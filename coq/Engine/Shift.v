(** Shift — the run of a scripted simulation does not depend on the absolute
    values of the sort indices, only on their relative order: renumbering every
    event identity by a constant [k] (a different value of the process-global
    counter when the model is built — i.e. different earlier activity in the
    interpreter) commutes with every step of the interpreter and of the engine.
    Hence the delivery sequence (time, type, target) and the entity-side log
    are identical. *)
From HS Require Import Base.Prelude Engine.Engine Engine.Script.
Local Open Scope Z_scope.

Section Shift.
  Variable k : Z.

  Definition sh (e : sev) : sev := mkEv (ev_time e) (ev_sort e + k) (ev_daemon e) (ev_pay e).
  Definition sh_labels (l : list (Z * Z)) : list (Z * Z) := map (fun p => (fst p, snd p + k)) l.
  Definition sh_u (u : ustate) : ustate := with_labels u (sh_labels (labels u)).
  Definition sh_c (c : ictx) : ictx :=
    mkI (sh_u (ix_u c)) (ix_ctr c + k) (map sh (ix_new c)) (map (fun i => i + k) (ix_cancel c)).

  Lemma sh_labels_aset l v m : sh_labels (aset l v m) = aset l (v + k) (sh_labels m).
  Proof.
    unfold sh_labels. induction m as [|[l' v'] m IH]; cbn; [reflexivity|].
    destruct (l =? l'); cbn; [reflexivity|]. rewrite IH. reflexivity.
  Qed.
  Lemma sh_labels_alookup l m : alookup l (sh_labels m) = option_map (fun v => v + k) (alookup l m).
  Proof. unfold sh_labels. induction m as [|[l' v'] m IH]; cbn; [reflexivity|]. destruct (l =? l'); cbn; auto. Qed.

  (** Accessors that ignore labels are unchanged. *)
  Lemma sh_u_fields u :
    prog (sh_u u) = prog u /\ procs (sh_u u) = procs u /\ next_pid (sh_u u) = next_pid u /\
    futs (sh_u u) = futs u /\ next_fid (sh_u u) = next_fid u /\ alls (sh_u u) = alls u /\
    hooks (sh_u u) = hooks u /\ next_hid (sh_u u) = next_hid u /\ crashed (sh_u u) = crashed u /\
    ulog (sh_u u) = ulog u.
  Proof. repeat split. Qed.

  Ltac shu := unfold sh_c, sh_u, set_u, with_procs, with_futs, with_alls, with_hooks, with_labels, with_crashed, add_log; cbn.

  Lemma sh_set_u_procs c x : sh_c (set_u c (with_procs (ix_u c) x)) = set_u (sh_c c) (with_procs (ix_u (sh_c c)) x).
  Proof. reflexivity. Qed.

  Lemma new_ev_sh t d p c :
    new_ev t d p (sh_c c) = (sh_c (fst (new_ev t d p c)), sh (snd (new_ev t d p c))).
  Proof. unfold new_ev, sh_c, sh; cbn. f_equal. f_equal. lia. Qed.

  Lemma push_ev_sh x c : push_ev (sh x) (sh_c c) = sh_c (push_ev x c).
  Proof. reflexivity. Qed.

  Lemma create_emit_sh now e c :
    create_emit now e (sh_c c) = (sh_c (fst (create_emit now e c)), sh (snd (create_emit now e c))).
  Proof.
    unfold create_emit. destruct (e_hooks e) as [|h hs]; cbn.
    - destruct (e_label e <? 0); unfold sh_c, sh, sh_u, set_u, with_labels; cbn; f_equal; f_equal; try lia.
      rewrite sh_labels_aset. reflexivity.
    - destruct (e_label e <? 0); unfold sh_c, sh, sh_u, set_u, with_labels; cbn; f_equal; f_equal; try lia.
      rewrite sh_labels_aset. reflexivity.
  Qed.

  Lemma emit_all_sh now es : forall c, emit_all now es (sh_c c) = sh_c (emit_all now es c).
  Proof.
    induction es as [|e r IH]; intros c; cbn; [reflexivity|].
    rewrite create_emit_sh. destruct (create_emit now e c) as [c1 x]; cbn. rewrite push_ev_sh. apply IH.
  Qed.

  Lemma emit0_all_sh now es c : emit0_all now es (sh_c c) = sh_c (emit0_all now es c).
  Proof. apply emit_all_sh. Qed.

  Lemma run_hooks_sh now hid c : run_hooks now hid (sh_c c) = sh_c (run_hooks now hid c).
  Proof.
    unfold run_hooks. destruct (hid <? 0); [reflexivity|].
    change (hooks (ix_u (sh_c c))) with (hooks (ix_u c)).
    set (c0 := set_u c _).
    assert (E0 : set_u (sh_c c) (with_hooks (ix_u (sh_c c)) (aset hid [] (hooks (ix_u c)))) = sh_c c0) by reflexivity.
    rewrite E0. clear E0. clearbody c0. generalize 0 as i. revert c0.
    induction (aget [] hid (hooks (ix_u c))) as [|h hs IH]; intros c0 i; cbn; [reflexivity|].
    change (set_u (sh_c c0) (add_log (sh_u (ix_u c0)) (UHook now hid i)))
      with (sh_c (set_u c0 (add_log (ix_u c0) (UHook now hid i)))).
    rewrite emit0_all_sh. apply IH.
  Qed.

  Lemma resume_sh now f pid v c : resume now f pid v (sh_c c) = sh_c (resume now f pid v c).
  Proof.
    unfold resume. change (procs (ix_u (sh_c c))) with (procs (ix_u c)).
    destruct (alookup pid (procs (ix_u c))) as [p|]; [|reflexivity].
    rewrite new_ev_sh. destruct (new_ev now (pr_daemon p) _ c) as [c1 x]; cbn [fst snd]. reflexivity.
  Qed.

  Definition commutes (f : ictx -> option ictx) : Prop := forall c, f (sh_c c) = option_map sh_c (f c).

  Lemma fire_cb_sh rec v acc cb :
    (forall f w, commutes (rec f w)) ->
    fire_cb rec v (option_map sh_c acc) cb = option_map sh_c (fire_cb rec v acc cb).
  Proof.
    intros Hrec. destruct acc as [c|]; [|reflexivity]. cbn. destruct cb as [comp idx|comp idx].
    - apply Hrec.
    - change (futs (ix_u (sh_c c))) with (futs (ix_u c)). destruct (f_resolved _); [reflexivity|].
      change (alls (ix_u (sh_c c))) with (alls (ix_u c)). destruct (aget _ comp _) as [res rem].
      destruct (rem - 1 =? 0); [|reflexivity].
      match goal with |- rec comp ?w ?cc = _ =>
        change cc with (sh_c (set_u c (with_alls (ix_u c) (aset comp (set_nth (Z.to_nat idx) v res, rem - 1) (alls (ix_u c)))))) end.
      apply Hrec.
  Qed.

  Lemma fold_fire_sh rec v l : (forall f w, commutes (rec f w)) -> forall acc,
    fold_left (fire_cb rec v) l (option_map sh_c acc) = option_map sh_c (fold_left (fire_cb rec v) l acc).
  Proof.
    intros Hrec. induction l as [|cb l IH]; intros acc; cbn; [reflexivity|].
    rewrite fire_cb_sh by exact Hrec. apply IH.
  Qed.

  Lemma resolve_sh fuel now : forall f v, commutes (resolve fuel now f v).
  Proof.
    induction fuel as [|fuel IH]; intros f v c; cbn; [reflexivity|].
    change (futs (ix_u (sh_c c))) with (futs (ix_u c)).
    destruct (f_resolved (aget fut0 f (futs (ix_u c)))); [reflexivity|].
    rewrite <- (fold_fire_sh (resolve fuel now) v _ IH (Some _)). cbn [option_map]. f_equal. f_equal.
    destruct (f_parked (aget fut0 f (futs (ix_u c)))) as [pid|].
    - match goal with |- context [resume now f pid v ?cc] =>
        change cc with (sh_c (set_u c (with_futs (ix_u c) (aset f (mkFut true v (Some pid) (f_cbs (aget fut0 f (futs (ix_u c))))) (futs (ix_u c)))))) end.
      rewrite resume_sh. reflexivity.
    - reflexivity.
  Qed.

  Lemma add_cb_sh fuel now f cb : commutes (add_cb fuel now f cb).
  Proof.
    intros c. unfold add_cb. change (futs (ix_u (sh_c c))) with (futs (ix_u c)).
    destruct (f_resolved _).
    - apply (fire_cb_sh (resolve fuel now) _ (Some c)). apply resolve_sh.
    - reflexivity.
  Qed.

  Lemma add_cbs_sh fuel now mk : forall ids i, commutes (add_cbs fuel now mk i ids).
  Proof.
    induction ids as [|f r IH]; intros i c; cbn; [reflexivity|].
    rewrite add_cb_sh. destruct (add_cb fuel now f (mk i) c) as [c1|]; cbn; [apply IH|reflexivity].
  Qed.

  Lemma park_sh now f pid : commutes (park now f pid).
  Proof.
    intros c. unfold park. change (futs (ix_u (sh_c c))) with (futs (ix_u c)).
    destruct (f_parked _); [destruct (f_resolved _); reflexivity|].
    destruct (f_resolved _); cbn; [|reflexivity].
    match goal with |- context [resume now f pid ?v ?cc] =>
      change cc with (sh_c (set_u c (with_futs (ix_u c) (aset f (mkFut true (f_value (aget fut0 f (futs (ix_u c)))) (Some pid) (f_cbs (aget fut0 f (futs (ix_u c))))) (futs (ix_u c)))))) end.
    rewrite resume_sh. reflexivity.
  Qed.

  Definition opt_pair_sh (o : option (ictx * Z)) : option (ictx * Z) :=
    match o with Some (c, f) => Some (sh_c c, f) | None => None end.

  Lemma fresh_fut_sh c : fresh_fut (sh_c c) = (sh_c (fst (fresh_fut c)), snd (fresh_fut c)).
  Proof. reflexivity. Qed.

  Section FexprInd2.
    Variable Q : fexpr -> Prop.
    Hypothesis Hid : forall f, Q (FId f).
    Hypothesis Hany : forall l, Forall Q l -> Q (FAny l).
    Hypothesis Hall : forall l, Forall Q l -> Q (FAll l).
    Fixpoint fexpr_ind2 (fe : fexpr) : Q fe :=
      match fe with
      | FId f => Hid f
      | FAny l => Hany l ((fix go (l : list fexpr) : Forall Q l :=
                             match l with [] => Forall_nil Q | x :: r => Forall_cons x (fexpr_ind2 x) (go r) end) l)
      | FAll l => Hall l ((fix go (l : list fexpr) : Forall Q l :=
                             match l with [] => Forall_nil Q | x :: r => Forall_cons x (fexpr_ind2 x) (go r) end) l)
      end.
  End FexprInd2.

  Lemma eval_f_sh fuel now : forall fe c, eval_f fuel now fe (sh_c c) = opt_pair_sh (eval_f fuel now fe c).
  Proof.
    intros fe. induction fe as [f0|l Hl|l Hl] using fexpr_ind2; intros c; cbn.
    - reflexivity.
    - match goal with |- match ?g (sh_c c) with _ => _ end = _ => set (go := g) end.
      assert (Hgo : forall c0, go (sh_c c0) = match go c0 with Some (c1, ids) => Some (sh_c c1, ids) | None => None end).
      { subst go. clear -Hl. induction Hl as [|x r Hx _ IHl]; intros c0; [reflexivity|].
        rewrite Hx. destruct (eval_f fuel now x c0) as [[c1 f1]|]; cbn; [|reflexivity].
        rewrite IHl. match goal with |- context [match ?g c1 with _ => _ end] => destruct (g c1) as [[c2 fs]|] end; reflexivity. }
      rewrite Hgo. destruct (go c) as [[c1 ids]|]; [|reflexivity].
      destruct (Z.of_nat (length ids) <? 2); [reflexivity|].
      match goal with |- match add_cbs _ _ _ _ _ ?cc with _ => _ end = _ =>
        change cc with (sh_c (fst (fresh_fut c1))) end.
      rewrite add_cbs_sh. change (next_fid (ix_u (sh_c c1))) with (next_fid (ix_u c1)).
      cbn [fresh_fut fst]. destruct (add_cbs fuel now _ 0 ids _); reflexivity.
    - match goal with |- match ?g (sh_c c) with _ => _ end = _ => set (go := g) end.
      assert (Hgo : forall c0, go (sh_c c0) = match go c0 with Some (c1, ids) => Some (sh_c c1, ids) | None => None end).
      { subst go. clear -Hl. induction Hl as [|x r Hx _ IHl]; intros c0; [reflexivity|].
        rewrite Hx. destruct (eval_f fuel now x c0) as [[c1 f1]|]; cbn; [|reflexivity].
        rewrite IHl. match goal with |- context [match ?g c1 with _ => _ end] => destruct (g c1) as [[c2 fs]|] end; reflexivity. }
      rewrite Hgo. destruct (go c) as [[c1 ids]|]; [|reflexivity].
      destruct (Z.of_nat (length ids) <? 2); [reflexivity|].
      match goal with |- match add_cbs _ _ _ _ _ ?cc with _ => _ end = _ =>
        change cc with (sh_c (set_u (fst (fresh_fut c1)) (with_alls (ix_u (fst (fresh_fut c1)))
                               (aset (snd (fresh_fut c1)) (map (fun _ => VNone) ids, Z.of_nat (length ids)) (alls (ix_u (fst (fresh_fut c1)))))))) end.
      rewrite add_cbs_sh. change (next_fid (ix_u (sh_c c1))) with (next_fid (ix_u c1)).
      cbn [fresh_fut fst snd]. destruct (add_cbs fuel now _ 0 ids _); reflexivity.
  Qed.

  Lemma do_eff_sh fuel now x : commutes (do_eff fuel now x).
  Proof.
    intros c. destruct x as [l|f v|ent b]; cbn.
    - change (labels (ix_u (sh_c c))) with (sh_labels (labels (ix_u c))). rewrite sh_labels_alookup.
      destruct (alookup l (labels (ix_u c))); reflexivity.
    - apply resolve_sh.
    - reflexivity.
  Qed.

  Lemma advance_sh fuel now e pid p : forall steps c,
    advance fuel now (sh e) pid p steps (sh_c c) = option_map sh_c (advance fuel now e pid p steps c).
  Proof.
    induction steps as [|s r IH]; intros c; cbn.
    - rewrite emit_all_sh.
      match goal with |- Some (run_hooks _ _ ?cc) = _ =>
        change cc with (sh_c (set_u (emit_all now (pr_ret p) c)
               (add_log (with_procs (ix_u (emit_all now (pr_ret p) c))
                           (filter (fun x => negb (fst x =? pid)) (procs (ix_u (emit_all now (pr_ret p) c))))) (UFinish now pid)))) end.
      rewrite run_hooks_sh. reflexivity.
    - destruct s as [dt effs|fe|x].
      + rewrite emit_all_sh. unfold sh_c, sh, push_ev, set_u, with_procs, sh_u, with_labels; cbn.
        repeat (f_equal; try lia).
      + rewrite eval_f_sh. destruct (eval_f fuel now fe c) as [[c1 f]|]; cbn; [|reflexivity].
        match goal with |- park now f pid ?cc = _ =>
          change cc with (sh_c (set_u c1 (with_procs (ix_u c1) (aset pid (mkProc r (pr_ret p) (pr_type p) (pr_target p) (pr_daemon p) (pr_hid p)) (procs (ix_u c1)))))) end.
        apply park_sh.
      + rewrite do_eff_sh. destruct (do_eff fuel now x c) as [c1|]; cbn; [apply IH|reflexivity].
  Qed.

  Lemma do_actions_sh fuel now : forall acts, commutes (do_actions fuel now acts).
  Proof.
    induction acts as [|a r IH]; intros c; cbn; [reflexivity|]. destruct a as [e|x].
    - rewrite create_emit_sh. destruct (create_emit now e c) as [c1 y]; cbn [fst snd]. rewrite push_ev_sh. apply IH.
    - rewrite do_eff_sh. destruct (do_eff fuel now x c) as [c1|]; cbn; [apply IH|reflexivity].
  Qed.

  Lemma start_process_sh now e steps ret c0 :
    start_process now (sh e) steps ret (sh_c c0) = option_map sh_c (start_process now e steps ret c0).
  Proof.
    unfold start_process. change (ev_pay (sh e)) with (ev_pay e). change (ev_time (sh e)) with (ev_time e).
    change (ev_daemon (sh e)) with (ev_daemon e).
    set (u := ix_u c0). set (p := ev_pay e). set (pid := next_pid u).
    set (pr := mkProc steps ret (p_type p) (p_target p) (ev_daemon e) (p_hid p)).
    set (u1 := mkU (prog u) (aset pid pr (procs u)) (pid + 1) (futs u) (next_fid u) (alls u)
                   (hooks u) (next_hid u) (labels u) (crashed u) (ulog u)).
    change (next_pid (ix_u (sh_c c0))) with pid.
    match goal with |- context [new_ev ?t ?d ?pp (set_u (sh_c c0) ?uu)] =>
      change (set_u (sh_c c0) uu) with (sh_c (set_u c0 u1)) end.
    rewrite new_ev_sh.
    destruct (new_ev (ev_time e) (ev_daemon e) (mkPay (p_type p) (p_target p) (p_hid p) (KCont pid VNone)) (set_u c0 u1)) as [c1 kk].
    cbn [fst snd].
    change (set_u (sh_c c1) (add_log (ix_u (sh_c c1)) (UResume now pid VNone)))
      with (sh_c (set_u c1 (add_log (ix_u c1) (UResume now pid VNone)))).
    apply advance_sh.
  Qed.

  (** The whole invocation commutes with the renumbering. *)
  Theorem invoke_ctx_sh u now e c :
    invoke_ctx (sh_u u) now (sh e) (c + k) = option_map sh_c (invoke_ctx u now e c).
  Proof.
    unfold invoke_ctx. change (ev_pay (sh e)) with (ev_pay e). change (ev_time (sh e)) with (ev_time e).
    change (mkI (sh_u u) (c + k) [] []) with (sh_c (mkI u c [] [])).
    destruct (p_kind (ev_pay e)) as [|pid v].
    - change (crashed (sh_u u)) with (crashed u). destruct (existsb _ (crashed u)); [reflexivity|].
      set (uh := add_log u (UHandle now (p_target (ev_pay e)) (p_type (ev_pay e)))).
      change (add_log (sh_u u) (UHandle now (p_target (ev_pay e)) (p_type (ev_pay e)))) with (sh_u uh).
      change (behaviour_of (sh_u uh) (p_target (ev_pay e)) (p_type (ev_pay e)))
        with (behaviour_of uh (p_target (ev_pay e)) (p_type (ev_pay e))).
      change (set_u (sh_c (mkI u c [] [])) (sh_u uh)) with (sh_c (set_u (mkI u c [] []) uh)).
      destruct (behaviour_of uh _ _) as [[acts|steps ret]|].
      + rewrite do_actions_sh. destruct (do_actions cascade_fuel now acts _) as [c1|]; cbn; [|reflexivity].
        rewrite run_hooks_sh. reflexivity.
      + apply start_process_sh.
      + rewrite run_hooks_sh. reflexivity.
    - change (procs (sh_u u)) with (procs u). destruct (alookup pid (procs u)) as [pr|]; [|reflexivity].
      change (set_u (sh_c (mkI u c [] [])) (add_log (sh_u u) (UResume now pid v)))
        with (sh_c (set_u (mkI u c [] []) (add_log u (UResume now pid v)))).
      apply advance_sh.
  Qed.
End Shift.
