(** ScriptProofs — the script interpreter satisfies the engine's handler
    interface ([invoke_ok]: every event it creates takes a fresh sort index from
    the counter), and a scripted simulation starts in a state satisfying the
    engine invariant.  Hence every theorem of EngineProofs.v holds for every
    script (every program, pre-run schedule, end_time and fuel). *)
From HS Require Import Base.Prelude Engine.Engine Engine.Script Engine.EngineProofs.
Local Open Scope Z_scope.

(** [good b c]: relative to the counter value [b] at the start of the
    invocation, all events accumulated so far carry distinct indices in
    [b, ix_ctr c). *)
Definition good (b : Z) (c : ictx) : Prop :=
  b <= ix_ctr c /\
  (forall x, In x (ix_new c) -> b <= ev_sort x < ix_ctr c) /\
  NoDup (map ev_sort (ix_new c)).

Lemma good_set_u b c u : good b c -> good b (set_u c u).
Proof. intros H; exact H. Qed.

Lemma good_cancel b c l : good b c -> good b (mkI (ix_u c) (ix_ctr c) (ix_new c) l).
Proof. intros H; exact H. Qed.

Lemma good_new b t d p c : good b c ->
  good b (fst (new_ev t d p c)) /\ ev_sort (snd (new_ev t d p c)) = ix_ctr c /\
  ix_ctr (fst (new_ev t d p c)) = ix_ctr c + 1 /\ ix_new (fst (new_ev t d p c)) = ix_new c.
Proof.
  intros (H1 & H2 & H3). unfold new_ev; cbn. split; [|auto].
  unfold good; cbn. split; [lia|]. split; [|exact H3]. intros x Hx. specialize (H2 x Hx). lia.
Qed.

Lemma good_new_push b t d p c : good b c ->
  good b (push_ev (snd (new_ev t d p c)) (fst (new_ev t d p c))).
Proof.
  intros (H1 & H2 & H3). unfold new_ev, push_ev, good; cbn. split; [lia|]. split.
  - intros x [<-|Hx]; cbn; [lia|]. specialize (H2 x Hx). lia.
  - constructor; [|exact H3]. intros Hin. apply in_map_iff in Hin as [y [E Hy]]. specialize (H2 y Hy). lia.
Qed.

Lemma create_emit_good b now e c : good b c ->
  good b (push_ev (snd (create_emit now e c)) (fst (create_emit now e c))) /\ good b (fst (create_emit now e c)).
Proof.
  intros H. unfold create_emit.
  set (u1h := match e_hooks e with [] => _ | _ => _ end). destruct u1h as [u1 hid].
  pose proof (good_new_push b (now + e_dt (em e)) (e_daemon (em e)) (mkPay (e_type (em e)) (e_target (em e)) hid KPlain)
                            (set_u c u1) (good_set_u _ _ _ H)) as Hp.
  pose proof (good_new b (now + e_dt (em e)) (e_daemon (em e)) (mkPay (e_type (em e)) (e_target (em e)) hid KPlain)
                       (set_u c u1) (good_set_u _ _ _ H)) as (Hn & _).
  destruct (new_ev _ _ _ (set_u c u1)) as [c1 x]; cbn [fst snd] in *.
  split; exact Hp || exact Hn.
Qed.

Lemma emit_all_good b now es c : good b c -> good b (emit_all now es c).
Proof.
  revert c; induction es as [|e r IH]; intros c H; cbn; [exact H|].
  pose proof (create_emit_good b now e c H) as [Hp _].
  destruct (create_emit now e c) as [c1 x]; cbn [fst snd] in *. apply IH. exact Hp.
Qed.

Lemma run_hooks_good b now hid c : good b c -> good b (run_hooks now hid c).
Proof.
  intros H. unfold run_hooks. destruct (hid <? 0); [exact H|].
  set (c0 := set_u c _). assert (H0 : good b c0) by exact H. clearbody c0.
  generalize 0 as i. revert c0 H0.
  induction (aget [] hid (hooks (ix_u c))) as [|h hs IH]; intros c0 H0 i; cbn; [exact H0|].
  apply IH. unfold emit0_all. apply emit_all_good. exact H0.
Qed.

Lemma resume_good b now f pid v c : good b c -> good b (resume now f pid v c).
Proof.
  intros H. unfold resume. destruct (alookup pid (procs (ix_u c))) as [p|]; [|exact H].
  pose proof (good_new_push b now (pr_daemon p) (mkPay (pr_type p) (pr_target p) (pr_hid p) (KCont pid v)) c H) as Hp.
  destruct (new_ev _ _ _ c) as [c1 x]; cbn [fst snd] in *. exact Hp.
Qed.

Definition preserves (b : Z) (f : ictx -> option ictx) : Prop :=
  forall c c', f c = Some c' -> good b c -> good b c'.

Lemma fire_cb_good b rec v acc k c' :
  (forall f w, preserves b (rec f w)) ->
  fire_cb rec v acc k = Some c' -> (forall c, acc = Some c -> good b c) -> good b c'.
Proof.
  intros Hrec H Hacc. unfold fire_cb in H. destruct acc as [c|]; [|discriminate].
  specialize (Hacc c eq_refl). destruct k as [comp idx|comp idx].
  - eapply Hrec; eauto.
  - destruct (f_resolved _); [inversion H; subst; exact Hacc|].
    destruct (aget _ comp _) as [res rem].
    destruct (rem - 1 =? 0); [eapply Hrec; eauto|inversion H; subst; exact Hacc].
Qed.

Lemma fold_fire_good b rec v l acc c' :
  (forall f w, preserves b (rec f w)) ->
  fold_left (fire_cb rec v) l acc = Some c' -> (forall c, acc = Some c -> good b c) -> good b c'.
Proof.
  intros Hrec. revert acc; induction l as [|k l IH]; intros acc H Hacc; cbn in H.
  - apply Hacc; exact H.
  - eapply IH; [exact H|]. intros c E. eapply fire_cb_good; eauto.
Qed.

Lemma resolve_good b fuel now : forall f v, preserves b (resolve fuel now f v).
Proof.
  induction fuel as [|fuel IH]; intros f v c c' H G; cbn in H; [discriminate|].
  destruct (f_resolved _); [inversion H; subst; exact G|].
  eapply fold_fire_good; [exact IH|exact H|].
  intros c0 E. inversion E; subst. apply good_set_u.
  destruct (f_parked _); [apply resume_good|]; apply good_set_u; exact G.
Qed.

Lemma add_cb_good b fuel now f k : preserves b (add_cb fuel now f k).
Proof.
  intros c c' H G. unfold add_cb in H. destruct (f_resolved _).
  - eapply fire_cb_good; [apply resolve_good|exact H|]. intros c0 E; inversion E; subst; exact G.
  - inversion H; subst. exact G.
Qed.

Lemma add_cbs_good b fuel now mk : forall ids i, preserves b (add_cbs fuel now mk i ids).
Proof.
  induction ids as [|f r IH]; intros i c c' H G; cbn in H; [inversion H; subst; exact G|].
  destruct (add_cb fuel now f (mk i) c) as [c1|] eqn:E; [|discriminate].
  eapply IH; [exact H|]. eapply add_cb_good; eauto.
Qed.

Lemma fresh_fut_good b c : good b c -> good b (fst (fresh_fut c)).
Proof. intros H; exact H. Qed.

Section FexprInd.
  Variable Q : fexpr -> Prop.
  Hypothesis Hid : forall f, Q (FId f).
  Hypothesis Hany : forall l, Forall Q l -> Q (FAny l).
  Hypothesis Hall : forall l, Forall Q l -> Q (FAll l).
  Fixpoint fexpr_ind' (fe : fexpr) : Q fe :=
    match fe with
    | FId f => Hid f
    | FAny l => Hany l ((fix go (l : list fexpr) : Forall Q l :=
                           match l with
                           | [] => Forall_nil Q
                           | x :: r => Forall_cons x (fexpr_ind' x) (go r)
                           end) l)
    | FAll l => Hall l ((fix go (l : list fexpr) : Forall Q l :=
                           match l with
                           | [] => Forall_nil Q
                           | x :: r => Forall_cons x (fexpr_ind' x) (go r)
                           end) l)
    end.
End FexprInd.

Lemma eval_f_good b fuel now : forall fe c c' f, eval_f fuel now fe c = Some (c', f) -> good b c -> good b c'.
Proof.
  intros fe.
  induction fe as [f0|l Hl|l Hl] using fexpr_ind'; intros c c' f H G; cbn in H.
  - inversion H; subst; exact G.
  - match type of H with context [match ?g with _ => _ end] => destruct g as [[c1 ids]|] eqn:E1 end; [|discriminate].
    destruct (Z.of_nat (length ids) <? 2); [discriminate|].
    assert (G1 : good b c1).
    { clear H. revert c c1 ids E1 G. induction Hl as [|x r Hx Hr IHl]; intros c c1 ids E1 G.
      - inversion E1; subst; exact G.
      - destruct (eval_f fuel now x c) as [[cx fx]|] eqn:Ex; [|discriminate].
        match type of E1 with context [match ?g with _ => _ end] => destruct g as [[c2 fs2]|] eqn:E2 end; [|discriminate].
        inversion E1; subst. eapply IHl; [exact E2|]. eapply Hx; eauto. }
    match type of H with context [add_cbs ?a1 ?a2 ?a3 ?a4 ?a5 ?cc] =>
      destruct (add_cbs a1 a2 a3 a4 a5 cc) as [c3|] eqn:E3 end; [|discriminate].
    inversion H; subst. eapply add_cbs_good; [exact E3|]. exact G1.
  - match type of H with context [match ?g with _ => _ end] => destruct g as [[c1 ids]|] eqn:E1 end; [|discriminate].
    destruct (Z.of_nat (length ids) <? 2); [discriminate|].
    assert (G1 : good b c1).
    { clear H. revert c c1 ids E1 G. induction Hl as [|x r Hx Hr IHl]; intros c c1 ids E1 G.
      - inversion E1; subst; exact G.
      - destruct (eval_f fuel now x c) as [[cx fx]|] eqn:Ex; [|discriminate].
        match type of E1 with context [match ?g with _ => _ end] => destruct g as [[c2 fs2]|] eqn:E2 end; [|discriminate].
        inversion E1; subst. eapply IHl; [exact E2|]. eapply Hx; eauto. }
    match type of H with context [add_cbs ?a1 ?a2 ?a3 ?a4 ?a5 ?cc] =>
      destruct (add_cbs a1 a2 a3 a4 a5 cc) as [c3|] eqn:E3 end; [|discriminate].
    inversion H; subst. eapply add_cbs_good; [exact E3|]. exact G1.
Qed.

Lemma park_good b now f pid : preserves b (park now f pid).
Proof.
  intros c c' H G. unfold park in H. destruct (f_parked _); [destruct (f_resolved _); discriminate|].
  destruct (f_resolved _); inversion H; subst; [apply resume_good|]; apply good_set_u; exact G.
Qed.

Lemma do_eff_good b fuel now x : preserves b (do_eff fuel now x).
Proof.
  intros c c' H G. destruct x as [l|f v|ent bb]; cbn in H.
  - destruct (alookup l _); inversion H; subst; [apply good_cancel|]; exact G.
  - eapply resolve_good; eauto.
  - inversion H; subst. apply good_set_u; exact G.
Qed.

Lemma advance_good b fuel now e pid p : forall steps, preserves b (advance fuel now e pid p steps).
Proof.
  induction steps as [|s r IH]; intros c c' H G; cbn in H.
  - inversion H; subst. apply run_hooks_good. apply good_set_u. apply emit_all_good. exact G.
  - destruct s as [dt effs|fe|x].
    + pose proof (good_new_push b (ev_time e + dt) (pr_daemon p)
                                (mkPay (pr_type p) (pr_target p) (pr_hid p) (KCont pid VNone))
                                (emit_all now effs c) (emit_all_good _ _ _ _ G)) as Hp.
      inversion H; subst. unfold good, push_ev, new_ev, set_u in *; cbn in *. exact Hp.
    + destruct (eval_f fuel now fe c) as [[c1 f]|] eqn:E; [|discriminate].
      eapply park_good; [exact H|]. apply good_set_u. eapply eval_f_good; eauto.
    + destruct (do_eff fuel now x c) as [c1|] eqn:E; [|discriminate].
      eapply IH; [exact H|]. eapply do_eff_good; eauto.
Qed.

Lemma do_actions_good b fuel now : forall acts, preserves b (do_actions fuel now acts).
Proof.
  induction acts as [|a r IH]; intros c c' H G; cbn in H; [inversion H; subst; exact G|].
  destruct a as [e|x].
  - pose proof (create_emit_good b now e c G) as [Hp _].
    destruct (create_emit now e c) as [c1 y]; cbn [fst snd] in *. eapply IH; eauto.
  - destruct (do_eff fuel now x c) as [c1|] eqn:E; [|discriminate]. eapply IH; eauto. eapply do_eff_good; eauto.
Qed.

Lemma good_result b c : good b c ->
  b <= ix_ctr c /\ (forall x, In x (rev (ix_new c)) -> b <= ev_sort x < ix_ctr c) /\
  NoDup (map ev_sort (rev (ix_new c))).
Proof.
  intros (H1 & H2 & H3). split; [exact H1|]. split.
  - intros x Hx. apply H2. apply in_rev. exact Hx.
  - rewrite map_rev. apply NoDup_rev. exact H3.
Qed.

Lemma invoke_ctx_good u now e c c' : invoke_ctx u now e c = Some c' -> good c c'.
Proof.
  assert (G0 : forall u', good c (mkI u' c [] [])).
  { intros u'. unfold good; cbn. split; [lia|]. split; [intros x []|constructor]. }
  unfold invoke_ctx. destruct (p_kind (ev_pay e)) as [|pid v].
  - destruct (existsb _ (crashed u)); [intros H; inversion H; subst; apply G0|].
    destruct (behaviour_of _ _ _) as [[acts|steps ret]|].
    + destruct (do_actions _ _ _ _) as [c1|] eqn:E1; [|discriminate].
      intros H; inversion H; subst. apply run_hooks_good.
      eapply do_actions_good; [exact E1|]. apply good_set_u, G0.
    + intros H. unfold start_process in H. eapply advance_good; [exact H|]. apply good_set_u.
      apply good_new. apply good_set_u. apply good_set_u, G0.
    + intros H; inversion H; subst. apply run_hooks_good. apply good_set_u, G0.
  - destruct (alookup pid (procs u)) as [pr|].
    + intros H. eapply advance_good; [exact H|]. apply good_set_u, G0.
    + intros H; inversion H; subst. apply G0.
Qed.

Theorem invoke_script_ok : invoke_ok pay ustate invoke_script.
Proof.
  intros u now e c r H. unfold invoke_script, finish in H.
  destruct (invoke_ctx u now e c) as [c0|] eqn:E; [|discriminate].
  inversion H; subst; cbn. apply good_result. eapply invoke_ctx_good; eauto.
Qed.

(** The initial state of every scripted simulation satisfies the invariant. *)
Lemma script_init_inv start p pre : Inv pay ustate (script_init start p pre).
Proof.
  unfold script_init.
  set (F := fun c ps => _).
  assert (Hg : forall l c, good 0 c -> good 0 (fold_left F l c)).
  { induction l as [|ps l IH]; intros c G; cbn; [exact G|]. apply IH. unfold F.
    match goal with |- context [create_emit ?n ?e c] => pose proof (create_emit_good 0 n e c G) as [Hp _];
      destruct (create_emit n e c) as [c1 x] end.
    cbn [fst snd] in *. destruct (ps_cancel ps); [apply good_cancel|]; exact Hp. }
  assert (G0 : good 0 (mkI (u_init p) 0 [] [])).
  { unfold good; cbn. split; [lia|]. split; [intros x []|constructor]. }
  specialize (Hg pre _ G0). set (c := fold_left F pre _) in *. clearbody c.
  destruct (good_result _ _ Hg) as (H1 & H2 & H3).
  assert (I : Inv pay ustate (init_state start (ix_u c) (rev (ix_new c)) (ix_ctr c))).
  { apply init_inv; [exact H3|]. intros x Hx. specialize (H2 x Hx). lia. }
  destruct I. constructor; cbn in *; auto.
Qed.

(** Hence: every run of every script ends in a state satisfying the invariant. *)
Theorem script_run_inv fuel start end_ns p pre :
  Inv pay ustate (out_state (script_run fuel start end_ns p pre)).
Proof. apply run_inv; [exact invoke_script_ok|apply script_init_inv]. Qed.
