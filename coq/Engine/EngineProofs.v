(** EngineProofs — invariants of the run loops of Engine.v, for EVERY handler
    semantics [invoke] that allocates fresh sort indices (the interface
    [invoke_ok], discharged for the script interpreter in ScriptProofs.v). *)
From HS Require Import Base.Prelude Engine.Engine.
From Coq Require Import Sorting.Sorted Sorting.Permutation.
Local Open Scope Z_scope.

Section Proofs.
  Variables P U : Type.
  Notation ev := (@ev P).
  Notation st := (@st P U).
  Notation outcome := (@outcome P U).
  Variable invoke : U -> Z -> ev -> Z -> option (@inv_result P U).

  Definition ev_lt (a b : ev) : Prop := ev_ltb a b = true.

  Lemma ev_lt_trans a b c : ev_lt a b -> ev_lt b c -> ev_lt a c.
  Proof. unfold ev_lt, ev_ltb. intros. destruct (ev_time a =? ev_time b) eqn:?, (ev_time b =? ev_time c) eqn:?, (ev_time a =? ev_time c) eqn:?; lia. Qed.
  Lemma ev_lt_irrefl a : ~ ev_lt a a.
  Proof. unfold ev_lt, ev_ltb. rewrite Z.eqb_refl. lia. Qed.
  Lemma ev_ltb_total a b : ev_ltb a b = false -> ev_sort a <> ev_sort b -> ev_lt b a.
  Proof. unfold ev_lt, ev_ltb. intros. destruct (ev_time a =? ev_time b) eqn:?, (ev_time b =? ev_time a) eqn:?; lia. Qed.
  Lemma ev_lt_time a b : ev_lt a b -> ev_time a <= ev_time b.
  Proof. unfold ev_lt, ev_ltb. destruct (ev_time a =? ev_time b) eqn:?; lia. Qed.
  Lemma ev_lt_intro a b : ev_time a <= ev_time b -> ev_sort a < ev_sort b -> ev_lt a b.
  Proof. unfold ev_lt, ev_ltb. destruct (ev_time a =? ev_time b) eqn:?; lia. Qed.

  (** The handler interface: new events carry fresh, pairwise distinct sort
      indices taken from the counter. *)
  Definition invoke_ok : Prop :=
    forall u now e c r, invoke u now e c = Some r ->
      c <= r_ctr r /\
      (forall x, In x (r_new r) -> c <= ev_sort x < r_ctr r) /\
      NoDup (map ev_sort (r_new r)).
  Hypothesis Hinv : invoke_ok.

  (* ---------------------------------------------------------------- *)
  (** ** Sorted insertion *)

  Lemma insert_In (e : ev) h x : In x (insert e h) <-> e = x \/ In x h.
  Proof.
    induction h as [|y r IH]; cbn; [tauto|].
    destruct (ev_ltb e y); cbn; [tauto|]. rewrite IH. tauto.
  Qed.

  Lemma insert_all_In (es : list ev) h x : In x (insert_all es h) <-> In x es \/ In x h.
  Proof.
    unfold insert_all. revert h; induction es as [|e r IH]; intros h; cbn; [tauto|].
    rewrite IH, insert_In. tauto.
  Qed.

  Lemma insert_perm (e : ev) h : Permutation (insert e h) (e :: h).
  Proof.
    induction h as [|y r IH]; cbn; [reflexivity|].
    destruct (ev_ltb e y); [reflexivity|].
    rewrite IH. apply perm_swap.
  Qed.

  Lemma insert_all_perm (es : list ev) h : Permutation (insert_all es h) (es ++ h).
  Proof.
    unfold insert_all. revert h; induction es as [|e r IH]; intros h; cbn; [reflexivity|].
    rewrite IH, insert_perm. symmetry. apply Permutation_middle.
  Qed.

  Lemma insert_sorted (e : ev) h :
    StronglySorted ev_lt h -> (forall x, In x h -> ev_sort x <> ev_sort e) ->
    StronglySorted ev_lt (insert e h).
  Proof.
    induction 1 as [|y r Hs IH Hall]; intros Hne; cbn.
    - constructor; constructor.
    - destruct (ev_ltb e y) eqn:E.
      + constructor; [constructor; assumption|]. constructor; [exact E|].
        rewrite Forall_forall in *. intros x Hx. eapply ev_lt_trans; [exact E|auto].
      + constructor.
        * apply IH. intros x Hx. apply Hne. right; exact Hx.
        * rewrite Forall_forall in *. intros x Hx. apply insert_In in Hx as [<-|Hx]; [|auto].
          apply ev_ltb_total; [exact E|]. intros Heq. apply (Hne y); [left; reflexivity|congruence].
  Qed.

  Lemma insert_all_sorted (es : list ev) h :
    StronglySorted ev_lt h ->
    NoDup (map ev_sort es) ->
    (forall x y, In x h -> In y es -> ev_sort x <> ev_sort y) ->
    StronglySorted ev_lt (insert_all es h).
  Proof.
    unfold insert_all. revert h; induction es as [|e r IH]; intros h Hs Hnd Hne; cbn; [exact Hs|].
    inversion Hnd as [|? ? Hnotin Hnd']; subst.
    apply IH; [apply insert_sorted; [exact Hs|] | exact Hnd' |].
    - intros x Hx. apply Hne; [exact Hx|left; reflexivity].
    - intros x y Hx Hy. apply insert_In in Hx as [<-|Hx].
      + intros Heq. apply Hnotin. rewrite Heq. apply in_map. exact Hy.
      + apply Hne; [exact Hx|right; exact Hy].
  Qed.

  Lemma NoDup_app_intro {A} (a b : list A) :
    NoDup a -> NoDup b -> (forall k, In k a -> In k b -> False) -> NoDup (a ++ b).
  Proof.
    induction 1 as [|x a Hx Hnd IH]; intros Hb Hdis; cbn; [exact Hb|].
    constructor.
    - intros Hin. apply in_app_or in Hin as [Hin|Hin]; [auto|]. apply (Hdis x); [left; reflexivity|exact Hin].
    - apply IH; [exact Hb|]. intros k Hk1 Hk2. apply (Hdis k); [right; exact Hk1|exact Hk2].
  Qed.

  Lemma count_primary_app (a b : list ev) : count_primary (a ++ b) = count_primary a + count_primary b.
  Proof. unfold count_primary. induction a as [|x a IH]; cbn; [lia|]. destruct (ev_daemon x); lia. Qed.

  Lemma count_primary_perm (a b : list ev) : Permutation a b -> count_primary a = count_primary b.
  Proof.
    induction 1 as [|x a b _ IH|x y a|a b c _ IH1 _ IH2]; unfold count_primary in *; cbn; try lia.
    - destruct (ev_daemon x); lia.
    - destruct (ev_daemon x), (ev_daemon y); lia.
  Qed.

  Lemma count_primary_nonneg (a : list ev) : 0 <= count_primary a.
  Proof. induction a as [|x a IH]; unfold count_primary in *; cbn; [lia|]. destruct (ev_daemon x); lia. Qed.

  (* ---------------------------------------------------------------- *)
  (** ** The state invariant *)

  Definition popped (s : st) : list ev := map (fun x => fst (fst x)) (log s).
  Definition is_delivered (x : ev * Z * disposition) : bool :=
    match snd x with Delivered => true | _ => false end.
  Definition dlog (s : st) : list ev := map (fun x => fst (fst x)) (filter is_delivered (log s)).

  Lemma delivered_rev s : delivered s = rev (dlog s).
  Proof. reflexivity. Qed.

  Record Inv (s : st) : Prop := {
    i_sorted : StronglySorted ev_lt (heap s);
    i_fresh : forall x, In x (map fst (pushed s)) -> ev_sort x < ctr s;
    i_nodup : NoDup (map ev_sort (map fst (pushed s)));
    i_perm : Permutation (map fst (pushed s)) (heap s ++ popped s);
    i_primary : primary s = count_primary (heap s);
    (* delivered events, newest first, strictly decrease in (time, sort) *)
    i_dsorted : StronglySorted (fun a b => ev_lt b a) (dlog s);
    i_dclock : forall p, In p (dlog s) -> ev_time p <= clock s;
    i_ahead : forall p x, In p (dlog s) -> In x (heap s) -> clock s <= ev_time x -> ev_lt p x;
    (* events scheduled at or after the clock of their scheduling are never in the past *)
    i_live : forall x at_, In (x, at_) (pushed s) -> In x (heap s) -> at_ <= ev_time x -> clock s <= ev_time x;
    i_logclock : forall e c, In (e, c, Delivered) (log s) -> c = ev_time e;
    i_past : forall e c, In (e, c, SkippedPast) (log s) -> exists at_, In (e, at_) (pushed s) /\ ev_time e < at_;
    i_pushclock : forall x at_, In (x, at_) (pushed s) -> at_ <= clock s;
    i_skipc : forall e c, In (e, c, SkippedCancelled) (log s) -> is_cancelled s e = true;
  }.

  Lemma heap_in_pushed s x : Inv s -> In x (heap s) -> In x (map fst (pushed s)).
  Proof.
    intros I Hx. eapply Permutation_in; [symmetry; apply (i_perm _ I)|]. apply in_or_app; left; exact Hx.
  Qed.
  Lemma popped_in_pushed s x : Inv s -> In x (popped s) -> In x (map fst (pushed s)).
  Proof.
    intros I Hx. eapply Permutation_in; [symmetry; apply (i_perm _ I)|]. apply in_or_app; right; exact Hx.
  Qed.
  Lemma dlog_in_popped s x : In x (dlog s) -> In x (popped s).
  Proof.
    unfold dlog, popped. rewrite !in_map_iff. intros [y [E Hy]]. apply filter_In in Hy as [Hy _]. eauto.
  Qed.

  Lemma head_min s e h : Inv s -> heap s = e :: h -> forall x, In x h -> ev_lt e x.
  Proof.
    intros I Hh x Hx. pose proof (i_sorted _ I) as Hs. rewrite Hh in Hs.
    inversion Hs as [|? ? _ Hall]; subst. rewrite Forall_forall in Hall. auto.
  Qed.

  Lemma head_not_in_tail s e h : Inv s -> heap s = e :: h -> ~ In e h.
  Proof. intros I Hh Hin. eapply ev_lt_irrefl. eapply head_min; eauto. Qed.

  (** Popping the head keeps the invariant, for a skipped event ... *)
  Lemma pop_skip_inv s e h d n :
    Inv s -> heap s = e :: h -> d <> Delivered ->
    (d = SkippedPast -> ev_time e < clock s) ->
    (d = SkippedCancelled -> is_cancelled s e = true) ->
    Inv (mkSt (clock s) h (if ev_daemon e then primary s else primary s - 1) (ctr s) (cancelled s) (user s)
              (processed s) n ((e, clock s, d) :: log s) (pushed s)).
  Proof.
    intros I Hh Hd Hpast Hcanc.
    assert (Hdl : forall s', log s' = (e, clock s, d) :: log s -> dlog s' = dlog s).
    { intros s' E. unfold dlog. rewrite E. cbn. destruct d; [congruence|reflexivity|reflexivity]. }
    constructor; cbn [clock heap primary ctr cancelled user processed ncancelled log pushed].
    - pose proof (i_sorted _ I) as Hs. rewrite Hh in Hs. inversion Hs; assumption.
    - apply (i_fresh _ I).
    - apply (i_nodup _ I).
    - unfold popped; cbn. rewrite (i_perm _ I), Hh. cbn. apply Permutation_middle.
    - rewrite (i_primary _ I), Hh. unfold count_primary; cbn. destruct (ev_daemon e); lia.
    - unfold dlog; cbn. destruct d; [congruence| |]; apply (i_dsorted _ I).
    - unfold dlog; cbn. destruct d; [congruence| |]; apply (i_dclock _ I).
    - unfold dlog; cbn. intros p x Hp Hx. assert (Hx' : In x (heap s)) by (rewrite Hh; right; exact Hx).
      destruct d; [congruence| |]; intros; eapply (i_ahead _ I); eauto.
    - intros x a Hp Hx. apply (i_live _ I); [exact Hp|rewrite Hh; right; exact Hx].
    - intros e0 c [E|Hin]; [inversion E; subst; congruence|]. eapply (i_logclock _ I); eauto.
    - intros e0 c [E|Hin].
      + inversion E; subst. specialize (Hpast eq_refl).
        assert (He : In e0 (map fst (pushed s))) by (apply heap_in_pushed; [exact I|rewrite Hh; left; reflexivity]).
        apply in_map_iff in He as [[x a] [E1 Hin]]. cbn in E1; subst x.
        exists a. split; [exact Hin|].
        destruct (Z_lt_le_dec (ev_time e0) a) as [L|L]; [exact L|].
        pose proof (i_live _ I _ _ Hin) as HL. rewrite Hh in HL. specialize (HL (or_introl eq_refl) L). lia.
      + eapply (i_past _ I); eauto.
    - apply (i_pushclock _ I).
    - intros e0 c [E|Hin]; [inversion E; subst; auto|]. unfold is_cancelled; cbn. apply (i_skipc _ I _ _ Hin).
  Qed.

  (** ... and for a delivered one, with the handler's new events pushed. *)
  Lemma deliver_inv s e h r :
    Inv s -> heap s = e :: h -> clock s <= ev_time e ->
    invoke (user s) (ev_time e) e (ctr s) = Some r ->
    Inv (push_all (mkSt (ev_time e) h (if ev_daemon e then primary s else primary s - 1) (r_ctr r)
                        (r_cancel r ++ cancelled s) (r_user r) (processed s + 1) (ncancelled s)
                        ((e, ev_time e, Delivered) :: log s) (pushed s)) (r_new r)).
  Proof.
    intros I Hh Hge Hr. destruct (Hinv _ _ _ _ _ Hr) as (Hc & Hnew & Hnd).
    assert (Hs : StronglySorted ev_lt h).
    { pose proof (i_sorted _ I) as Hs. rewrite Hh in Hs. inversion Hs; assumption. }
    assert (Hold : forall x, In x (map fst (pushed s)) -> ev_sort x < ctr s) by apply (i_fresh _ I).
    assert (Hmapfst : forall (l : list ev) (c : Z), map fst (rev (map (fun e0 => (e0, c)) l)) = rev l).
    { intros l c. rewrite <- map_rev, map_map. cbn. apply map_id. }
    constructor; unfold push_all; cbn [clock heap primary ctr cancelled user processed ncancelled log pushed].
    - apply insert_all_sorted; [exact Hs|exact Hnd|].
      intros x y Hx Hy. specialize (Hnew y Hy).
      assert (ev_sort x < ctr s); [|lia]. apply Hold, heap_in_pushed; [exact I|rewrite Hh; right; exact Hx].
    - intros x Hx. rewrite map_app, Hmapfst in Hx. apply in_app_or in Hx as [Hx|Hx].
      + apply in_rev in Hx. specialize (Hnew x Hx). lia.
      + specialize (Hold x Hx). lia.
    - rewrite map_app, Hmapfst, map_app. apply NoDup_app_intro.
      + rewrite map_rev. apply NoDup_rev. exact Hnd.
      + apply (i_nodup _ I).
      + intros k Hk1 Hk2. rewrite map_rev in Hk1. apply in_rev in Hk1.
        apply in_map_iff in Hk1 as [x [E1 Hx]]. apply in_map_iff in Hk2 as [y [E2 Hy]].
        specialize (Hnew x Hx). specialize (Hold y Hy). lia.
    - rewrite map_app, Hmapfst. unfold popped; cbn.
      rewrite insert_all_perm, (i_perm _ I), Hh. cbn.
      rewrite <- Permutation_rev.
      change (Permutation (r_new r ++ e :: h ++ popped s) ((r_new r ++ h) ++ e :: popped s)).
      rewrite <- app_assoc. apply Permutation_app_head. apply Permutation_middle.
    - rewrite (count_primary_perm _ _ (insert_all_perm _ _)), count_primary_app, (i_primary _ I), Hh.
      unfold count_primary at 1; cbn. fold (count_primary h). destruct (ev_daemon e); lia.
    - unfold dlog; cbn. constructor; [apply (i_dsorted _ I)|].
      rewrite Forall_forall. intros p Hp. apply (i_ahead _ I); [exact Hp|rewrite Hh; left; reflexivity|exact Hge].
    - unfold dlog; cbn. intros p [<-|Hp]; [lia|]. pose proof (i_dclock _ I p Hp). lia.
    - unfold dlog; cbn. intros p x [<-|Hp] Hx Hcl.
      + apply insert_all_In in Hx as [Hx|Hx].
        * specialize (Hnew x Hx). apply ev_lt_intro; [exact Hcl|].
          assert (ev_sort e < ctr s); [|lia]. apply Hold, heap_in_pushed; [exact I|rewrite Hh; left; reflexivity].
        * eapply head_min; eauto.
      + apply insert_all_In in Hx as [Hx|Hx].
        * specialize (Hnew x Hx). pose proof (i_dclock _ I p Hp).
          apply ev_lt_intro; [lia|].
          assert (ev_sort p < ctr s); [|lia]. apply Hold, popped_in_pushed; [exact I|apply dlog_in_popped; exact Hp].
        * apply (i_ahead _ I); [exact Hp|rewrite Hh; right; exact Hx|lia].
    - intros x a Hp Hx Hle. apply in_app_or in Hp as [Hp|Hp].
      + apply in_rev in Hp. apply in_map_iff in Hp as [y [E _]]. inversion E; subst. exact Hle.
      + apply insert_all_In in Hx as [Hx|Hx].
        * exfalso. specialize (Hnew x Hx).
          assert (ev_sort x < ctr s); [|lia]. apply Hold. apply in_map_iff. exists (x, a). split; [reflexivity|exact Hp].
        * assert (Hl : ev_lt e x) by (eapply head_min; eauto). apply ev_lt_time in Hl. exact Hl.
    - intros e0 c [E|Hin]; [inversion E; subst; reflexivity|]. eapply (i_logclock _ I); eauto.
    - intros e0 c [E|Hin]; [inversion E|].
      destruct (i_past _ I _ _ Hin) as [a [Ha Hlt]]. exists a. split; [apply in_or_app; right; exact Ha|exact Hlt].
    - intros x a Hp. apply in_app_or in Hp as [Hp|Hp].
      + apply in_rev in Hp. apply in_map_iff in Hp as [y [E _]]. inversion E; subst. lia.
      + pose proof (i_pushclock _ I _ _ Hp). lia.
    - intros e0 c [E|Hin]; [inversion E|]. pose proof (i_skipc _ I _ _ Hin) as Hsk.
      unfold is_cancelled in *; cbn. rewrite existsb_app, Hsk. apply orb_true_r.
  Qed.

  Lemma raise_inv s e h :
    Inv s -> heap s = e :: h -> clock s <= ev_time e ->
    Inv (mkSt (ev_time e) h (if ev_daemon e then primary s else primary s - 1) (ctr s) (cancelled s) (user s)
              (processed s + 1) (ncancelled s) ((e, ev_time e, Delivered) :: log s) (pushed s)).
  Proof.
    intros I Hh Hge.
    constructor; cbn [clock heap primary ctr cancelled user processed ncancelled log pushed].
    - pose proof (i_sorted _ I) as Hs. rewrite Hh in Hs. inversion Hs; assumption.
    - apply (i_fresh _ I).
    - apply (i_nodup _ I).
    - unfold popped; cbn. rewrite (i_perm _ I), Hh. cbn. apply Permutation_middle.
    - rewrite (i_primary _ I), Hh. unfold count_primary; cbn. destruct (ev_daemon e); lia.
    - unfold dlog; cbn. constructor; [apply (i_dsorted _ I)|].
      rewrite Forall_forall. intros p Hp. apply (i_ahead _ I); [exact Hp|rewrite Hh; left; reflexivity|exact Hge].
    - unfold dlog; cbn. intros p [<-|Hp]; [lia|]. pose proof (i_dclock _ I p Hp). lia.
    - unfold dlog; cbn. intros p x [<-|Hp] Hx Hcl.
      + eapply head_min; eauto.
      + apply (i_ahead _ I); [exact Hp|rewrite Hh; right; exact Hx|lia].
    - intros x a Hp Hx Hle. assert (Hl : ev_lt e x) by (eapply head_min; eauto). apply ev_lt_time in Hl. exact Hl.
    - intros e0 c [E|Hin]; [inversion E; subst; reflexivity|]. eapply (i_logclock _ I); eauto.
    - intros e0 c [E|Hin]; [inversion E|]. eapply (i_past _ I); eauto.
    - intros x a Hp. pose proof (i_pushclock _ I _ _ Hp). lia.
    - intros e0 c [E|Hin]; [inversion E|]. unfold is_cancelled; cbn. apply (i_skipc _ I _ _ Hin).
  Qed.

  Lemma pop_and_handle_inv s e h :
    Inv s -> heap s = e :: h -> Inv (out_state (pop_and_handle invoke s e h)).
  Proof.
    intros I Hh. unfold pop_and_handle.
    destruct (is_cancelled s e) eqn:Ec; [apply pop_skip_inv; auto; discriminate|].
    destruct (ev_time e <? clock s) eqn:Ep.
    - apply pop_skip_inv; auto; [discriminate| |discriminate]. intros _. lia.
    - destruct (invoke (user s) (ev_time e) e (ctr s)) as [r|] eqn:Er; cbn [out_state].
      + apply deliver_inv; auto. lia.
      + apply raise_inv; auto. lia.
  Qed.

  Lemma step_fast_inv end_ns s : Inv s -> Inv (out_state (step_fast invoke end_ns s)).
  Proof.
    intros I. unfold step_fast. destruct (heap s) as [|e h] eqn:Hh; [exact I|].
    destruct (clock s <=? end_ns); [apply pop_and_handle_inv; auto|exact I].
  Qed.

  Lemma step_slow_inv end_ns s : Inv s -> Inv (out_state (step_slow invoke end_ns s)).
  Proof.
    intros I. unfold step_slow. destruct (heap s) as [|e h] eqn:Hh; [exact I|].
    destruct (negb _); [exact I|]. destruct (_ && _); [exact I|apply pop_and_handle_inv; auto].
  Qed.

  Lemma iterate_inv (stepf : st -> outcome) :
    (forall s, Inv s -> Inv (out_state (stepf s))) ->
    forall fuel s, Inv s -> Inv (out_state (iterate stepf fuel s)).
  Proof.
    intros Hstep. induction fuel as [|f IH]; intros s I; cbn; [exact I|].
    specialize (Hstep s I). destruct (stepf s) as [s'|s'|s']; cbn in *; auto.
  Qed.

  Theorem run_inv fuel end_ns s : Inv s -> Inv (out_state (run invoke fuel end_ns s)).
  Proof.
    intros I. unfold run. destruct end_ns as [t|].
    - apply iterate_inv; [apply step_fast_inv|exact I].
    - apply iterate_inv; [apply step_slow_inv|exact I].
  Qed.

  (** The initial state satisfies the invariant when the pre-run events have
      distinct sort indices below the in-run counter. *)
  Lemma init_inv start u pre ctr0 :
    NoDup (map ev_sort pre) -> (forall x, In x pre -> ev_sort x < ctr0) ->
    Inv (init_state start u pre ctr0).
  Proof.
    intros Hnd Hlt.
    assert (Hmapfst : forall (l : list ev) (c : Z), map fst (rev (map (fun e0 => (e0, c)) l)) = rev l).
    { intros l c. rewrite <- map_rev, map_map. cbn. apply map_id. }
    unfold init_state, push_all; constructor; cbn [clock heap primary ctr cancelled user processed ncancelled log pushed].
    - apply insert_all_sorted; [constructor|exact Hnd|intros x y []].
    - intros x Hx. rewrite app_nil_r, Hmapfst in Hx. apply in_rev in Hx. auto.
    - rewrite app_nil_r, Hmapfst, map_rev. apply NoDup_rev. exact Hnd.
    - rewrite app_nil_r, Hmapfst. unfold popped; cbn. rewrite app_nil_r, insert_all_perm, app_nil_r.
      symmetry. apply Permutation_rev.
    - rewrite (count_primary_perm _ _ (insert_all_perm _ _)), app_nil_r. lia.
    - constructor.
    - intros p [].
    - intros p x [].
    - intros x a Hp Hx Hle. rewrite app_nil_r in Hp. apply in_rev in Hp.
      apply in_map_iff in Hp as [y [E _]]. inversion E; subst. exact Hle.
    - intros e c [].
    - intros e c [].
    - intros x a Hp. rewrite app_nil_r in Hp. apply in_rev in Hp.
      apply in_map_iff in Hp as [y [E _]]. inversion E; subst. lia.
    - intros e c [].
  Qed.

  (* ---------------------------------------------------------------- *)
  (** ** Consequences (the clauses of C01) *)

  Lemma sorted_snoc {A} (R : A -> A -> Prop) m a :
    StronglySorted R m -> Forall (fun x => R x a) m -> StronglySorted R (m ++ [a]).
  Proof.
    induction 1 as [|b m Hs IH Hall]; intros Hf; cbn; [constructor; constructor|].
    inversion Hf; subst. constructor; [apply IH; assumption|].
    rewrite Forall_forall in *. intros x Hx. apply in_app_or in Hx as [Hx|[<-|[]]]; auto.
  Qed.

  Lemma sorted_rev {A} (R : A -> A -> Prop) l :
    StronglySorted (fun a b => R b a) l -> StronglySorted R (rev l).
  Proof.
    induction 1 as [|a l Hs IH Hall]; cbn; [constructor|].
    apply sorted_snoc; [exact IH|]. rewrite Forall_forall in *. intros x Hx. apply in_rev in Hx. auto.
  Qed.

  (** Deliveries are strictly increasing in (time, sort index): non-decreasing
      timestamps, FIFO by sort index on equal timestamps, no event twice. *)
  Theorem delivered_strictly_sorted s : Inv s -> StronglySorted ev_lt (delivered s).
  Proof. intros I. rewrite delivered_rev. apply sorted_rev. apply (i_dsorted _ I). Qed.

  Lemma sorted_nodup (l : list ev) : StronglySorted ev_lt l -> NoDup l.
  Proof.
    induction 1 as [|a l Hs IH Hall]; constructor; [|exact IH].
    intros Hin. rewrite Forall_forall in Hall. exact (ev_lt_irrefl _ (Hall _ Hin)).
  Qed.

  (** No event is delivered twice. *)
  Theorem delivered_once s : Inv s -> NoDup (delivered s).
  Proof. intros I. apply sorted_nodup, delivered_strictly_sorted, I. Qed.

  (** Pairwise form: of two deliveries the earlier one has the smaller
      timestamp, or the same timestamp and the smaller sort index. *)
  Theorem delivered_order s l1 a l2 b l3 : Inv s -> delivered s = l1 ++ a :: l2 ++ b :: l3 ->
    ev_time a < ev_time b \/ (ev_time a = ev_time b /\ ev_sort a < ev_sort b).
  Proof.
    intros I E. pose proof (delivered_strictly_sorted s I) as H. rewrite E in H.
    assert (Hab : ev_lt a b).
    { clear E. induction l1 as [|x l1 IH]; cbn in H.
      - inversion H as [|? ? _ Hall]; subst. rewrite Forall_forall in Hall. apply Hall.
        apply in_or_app; right; left; reflexivity.
      - inversion H; subst; auto. }
    unfold ev_lt, ev_ltb in Hab. destruct (ev_time a =? ev_time b) eqn:Et; lia.
  Qed.

  (** At each delivery the clock equals the event's timestamp. *)
  Theorem delivered_clock s e c : Inv s -> In (e, c, Delivered) (log s) -> c = ev_time e.
  Proof. intros I. apply (i_logclock _ I). Qed.

  (** Only an event scheduled earlier than the clock at its scheduling is ever
      discarded as being in the past. *)
  Theorem past_only_if_scheduled_in_past s e c : Inv s -> In (e, c, SkippedPast) (log s) ->
    exists at_, In (e, at_) (pushed s) /\ ev_time e < at_.
  Proof. intros I. apply (i_past _ I). Qed.

  Lemma pushed_clock_unique s x a b : Inv s -> In (x, a) (pushed s) -> In (x, b) (pushed s) -> a = b.
  Proof.
    intros I. pose proof (i_nodup _ I) as Hnd. rewrite map_map in Hnd. revert Hnd.
    generalize (pushed s) as l. induction l as [|[y c] l IH]; cbn; intros Hnd Ha Hb; [contradiction|].
    inversion Hnd as [|? ? Hnotin Hnd']; subst.
    destruct Ha as [Ea|Ha], Hb as [Eb|Hb].
    - congruence.
    - inversion Ea; subst. exfalso. apply Hnotin. apply in_map_iff. exists (x, b). auto.
    - inversion Eb; subst. exfalso. apply Hnotin. apply in_map_iff. exists (x, a). auto.
    - auto.
  Qed.

  Lemma iterate_stopped (stepf : st -> outcome) fuel s s' :
    iterate stepf fuel s = Stopped s' -> exists s0, stepf s0 = Stopped s'.
  Proof.
    revert s; induction fuel as [|f IH]; intros s; cbn; [discriminate|].
    destruct (stepf s) as [s1|s1|s1] eqn:E; [apply IH| |discriminate].
    intros H; inversion H; subst. eauto.
  Qed.

  Lemma pop_and_handle_not_stopped s e h s' : pop_and_handle invoke s e h <> Stopped s'.
  Proof.
    unfold pop_and_handle. destruct (is_cancelled s e); [discriminate|].
    destruct (ev_time e <? clock s); [discriminate|].
    destruct (invoke _ _ _ _); discriminate.
  Qed.

  Lemma step_fast_stopped end_ns s s' : step_fast invoke end_ns s = Stopped s' ->
    s' = s /\ (heap s = [] \/ end_ns < clock s).
  Proof.
    unfold step_fast. destruct (heap s) as [|e h]; [intros H; inversion H; auto|].
    destruct (clock s <=? end_ns) eqn:E.
    - intros H. exfalso. eapply pop_and_handle_not_stopped; eauto.
    - intros H; inversion H; subst. split; [reflexivity|right; lia].
  Qed.

  (** Exactly-once, the "at least once" half: when a run with an end_time ends,
      every event that was scheduled not earlier than the clock of its
      scheduling and not later than end_time has been popped and was either
      delivered or found cancelled -- never discarded as past, never left behind. *)
  Theorem live_events_handled fuel end_ns s s' :
    Inv s -> run_fast invoke fuel end_ns s = Stopped s' ->
    forall x at_, In (x, at_) (pushed s') -> at_ <= ev_time x -> ev_time x <= end_ns ->
    exists c, In (x, c, Delivered) (log s') \/ (In (x, c, SkippedCancelled) (log s') /\ is_cancelled s' x = true).
  Proof.
    intros I Hrun x a Hp Hle Hend.
    assert (I' : Inv s').
    { change s' with (out_state (Stopped s')). rewrite <- Hrun. apply iterate_inv; [apply step_fast_inv|exact I]. }
    apply iterate_stopped in Hrun as [s0 Hs0]. apply step_fast_stopped in Hs0 as [-> Hstop].
    assert (Hin : In x (heap s0 ++ popped s0)).
    { eapply Permutation_in; [apply (i_perm _ I')|]. apply in_map_iff. exists (x, a). auto. }
    apply in_app_or in Hin as [Hin|Hin].
    - exfalso. destruct Hstop as [E|Hlt]; [rewrite E in Hin; contradiction|].
      pose proof (i_live _ I' _ _ Hp Hin Hle). lia.
    - unfold popped in Hin. apply in_map_iff in Hin as [[[y c] d] [E Hin]]. cbn in E; subst y.
      exists c. destruct d.
      + left; exact Hin.
      + right. split; [exact Hin|apply (i_skipc _ I' _ _ Hin)].
      + exfalso. destruct (i_past _ I' _ _ Hin) as [b [Hb Hlt]].
        rewrite (pushed_clock_unique _ _ _ _ I' Hp Hb) in Hle. lia.
  Qed.

  (** A cancelled event is never delivered: once an identity is in the
      cancelled set and not yet delivered, no run delivers it. *)
  Definition undelivered (id : Z) (s : st) : Prop :=
    In id (cancelled s) /\ ~ In id (map ev_sort (dlog s)).

  Lemma pop_and_handle_undelivered id s e h :
    undelivered id s -> undelivered id (out_state (pop_and_handle invoke s e h)).
  Proof.
    intros [Hc Hd]. unfold pop_and_handle.
    destruct (is_cancelled s e) eqn:Ec; [split; cbn; auto|].
    destruct (ev_time e <? clock s); [split; cbn; auto|].
    assert (Hne : ev_sort e <> id).
    { intros <-. unfold is_cancelled in Ec. rewrite <- not_true_iff_false in Ec. apply Ec.
      apply existsb_exists. exists (ev_sort e). split; [exact Hc|apply Z.eqb_refl]. }
    destruct (invoke _ _ _ _) as [r|]; cbn [out_state]; split;
      unfold push_all, dlog; cbn; try (apply in_or_app; right; exact Hc); try exact Hc;
      intros [E|Hin]; auto.
  Qed.

  Theorem cancelled_never_delivered fuel end_ns id s :
    undelivered id s -> undelivered id (out_state (run invoke fuel end_ns s)).
  Proof.
    assert (Hit : forall stepf, (forall s, undelivered id s -> undelivered id (out_state (stepf s))) ->
                  forall fuel s, undelivered id s -> undelivered id (out_state (iterate stepf fuel s))).
    { intros stepf Hstep. induction fuel0 as [|f IH]; intros s0 H0; cbn; [exact H0|].
      specialize (Hstep s0 H0). destruct (stepf s0) as [s1|s1|s1]; cbn in *; auto. }
    intros H. unfold run. destruct end_ns as [t|]; apply Hit; auto; intros s0 H0.
    - unfold step_fast. destruct (heap s0) as [|e h]; [exact H0|].
      destruct (clock s0 <=? t); [apply pop_and_handle_undelivered; exact H0|exact H0].
    - unfold step_slow. destruct (heap s0) as [|e h]; [exact H0|].
      destruct (negb _); [exact H0|]. destruct (_ && _); [exact H0|apply pop_and_handle_undelivered; exact H0].
  Qed.

  (** Auto-termination (end_time = Infinity). *)
  Theorem auto_stops_without_primary s :
    Inv s -> count_primary (heap s) = 0 -> step_slow invoke None s = Stopped s.
  Proof.
    intros I H0. unfold step_slow. destruct (heap s) as [|e h] eqn:Hh; [reflexivity|].
    cbn. rewrite (i_primary _ I), Hh, H0. reflexivity.
  Qed.

  Theorem auto_continues_with_primary s :
    Inv s -> 0 < count_primary (heap s) -> forall s', step_slow invoke None s <> Stopped s'.
  Proof.
    intros I H0 s'. unfold step_slow. destruct (heap s) as [|e h] eqn:Hh.
    - unfold count_primary in H0; cbn in H0. lia.
    - cbn. rewrite (i_primary _ I), Hh. destruct (0 <? count_primary (e :: h)) eqn:E; [|lia].
      cbn. apply pop_and_handle_not_stopped.
  Qed.

  Theorem auto_final_state fuel s s' :
    Inv s -> run_slow invoke fuel None s = Stopped s' ->
    heap s' = [] \/ count_primary (heap s') = 0.
  Proof.
    intros I Hrun.
    assert (I' : Inv s').
    { change s' with (out_state (Stopped s')). rewrite <- Hrun. apply iterate_inv; [apply step_slow_inv|exact I]. }
    apply iterate_stopped in Hrun as [s0 Hs0]. unfold step_slow in Hs0.
    destruct (heap s0) as [|e h] eqn:Hh; [inversion Hs0; subst; auto|].
    cbn in Hs0. destruct (0 <? primary s0) eqn:E; cbn in Hs0.
    - exfalso. eapply pop_and_handle_not_stopped; eauto.
    - inversion Hs0; subst. right. rewrite <- (i_primary _ I').
      pose proof (count_primary_nonneg (heap s')). rewrite <- (i_primary _ I') in H. lia.
  Qed.

  (** The primary-event counter is exact. *)
  Theorem primary_count_exact s : Inv s -> primary s = count_primary (heap s).
  Proof. intros I. apply (i_primary _ I). Qed.

End Proofs.
