(** ControlScript — control sessions over scripted simulations, and the
    comparison function used by the C04 correspondence. *)
From HS Require Import Base.Prelude Engine.Engine Engine.Script Engine.Control.
Local Open Scope Z_scope.

Definition etype_of (p : pay) : Z := p_type p.

(** The metric of a scripted entity: how many events it has handled so far
    (attribute `count` of the harness' ScriptEntity); no such entity -> None. *)
Definition metric_of (u : ustate) (ent : Z) : option Z :=
  if (0 <=? ent) && (ent <? Z.of_nat (length (prog u))) then
    Some (Z.of_nat (length (filter (fun x => match x with UHandle _ g _ => g =? ent | _ => false end) (ulog u))))
  else None.

Definition sdo_cmd fuel end_ns := do_cmd invoke_script etype_of metric_of fuel end_ns.

Definition phase_code (p : phase) : Z :=
  match p with NotStarted => 0 | IsPaused => 1 | Done => 2 | Failed => 3 | OutOfFuel => 4 end.

(** Snapshot after each command: phase, clock, events processed, heap size,
    number of breakpoints still registered. *)
Definition snap (x : @session pay ustate) : Z * Z * Z * Z * Z :=
  (phase_code (s_phase x), clock (s_st x), processed (s_st x), Z.of_nat (length (heap (s_st x))),
   Z.of_nat (length (bps (s_ctl x)))).

Fixpoint scan_session fuel end_ns (x : @session pay ustate) (ks : list cmd) : list (Z * Z * Z * Z * Z) * @session pay ustate :=
  match ks with
  | [] => ([], x)
  | k :: r => let x' := sdo_cmd fuel end_ns x k in
              let '(l, xf) := scan_session fuel end_ns x' r in (snap x' :: l, xf)
  end.

Definition snap_eqb (a b : Z * Z * Z * Z * Z) : bool :=
  let '(p, c, n, h, k) := a in let '(p', c', n', h', k') := b in
  (p =? p') && (c =? c') && (n =? n') && (h =? h') && (k =? k').

Definition ok_session (c : nat * (Z * option Z * program * list prespec * list cmd *
                                  (list (Z * Z * Z * Z * Z) * list obs_delivery * list uentry))) : bool :=
  let '(fuel, (start, end_ns, p, pre, ks, (snaps, dels, ul))) := c in
  let x0 := mkSess NotStarted (mkCtl false None []) (script_init start p pre) in
  let '(l, xf) := scan_session fuel end_ns x0 ks in
  list_eqb snap_eqb l snaps
  && list_eqb del_eqb (deliveries_of (s_st xf)) dels
  && ((phase_code (s_phase xf) =? 3) || list_eqb uentry_eqb (rev (ulog (user (s_st xf)))) ul).
