(** ShiftRun — whole runs commute with a renumbering of the event identities:
    a scripted simulation whose events are numbered from any value [k] of the
    process-global counter (whatever ran earlier in the interpreter) delivers the
    same (time, type, target) sequence, logs the same entity-side observations
    and ends with the same clock and counters as the one numbered from 0. *)
From HS Require Import Base.Prelude Engine.Engine Engine.Script Engine.Shift.
Local Open Scope Z_scope.

Section ShiftRun.
  Variable k : Z.
  Notation sh := (sh k).
  Notation sh_u := (sh_u k).

  Definition sh_log (x : sev * Z * disposition) : sev * Z * disposition := (sh (fst (fst x)), snd (fst x), snd x).
  Definition sh_push (x : sev * Z) : sev * Z := (sh (fst x), snd x).

  Definition sh_st (s : sst) : sst :=
    mkSt (clock s) (map sh (heap s)) (primary s) (ctr s + k) (map (fun i => i + k) (cancelled s)) (sh_u (user s))
         (processed s) (ncancelled s) (map sh_log (log s)) (map sh_push (pushed s)).

  Definition sh_out (o : @outcome pay ustate) : @outcome pay ustate :=
    match o with Running s => Running (sh_st s) | Stopped s => Stopped (sh_st s) | Raised s => Raised (sh_st s) end.

  Lemma ev_ltb_sh a b : ev_ltb (sh a) (sh b) = ev_ltb a b.
  Proof.
    unfold ev_ltb, Shift.sh; cbn. destruct (ev_time a =? ev_time b); [|reflexivity].
    destruct (Z.ltb_spec (ev_sort a + k) (ev_sort b + k)), (Z.ltb_spec (ev_sort a) (ev_sort b)); auto; lia.
  Qed.

  Lemma insert_sh e h : insert (sh e) (map sh h) = map sh (insert e h).
  Proof.
    induction h as [|x r IH]; cbn; [reflexivity|]. rewrite ev_ltb_sh. destruct (ev_ltb e x); cbn; [reflexivity|].
    rewrite IH. reflexivity.
  Qed.

  Lemma insert_all_sh es h : insert_all (map sh es) (map sh h) = map sh (insert_all es h).
  Proof.
    unfold insert_all. revert h; induction es as [|e r IH]; intros h; cbn; [reflexivity|]. rewrite insert_sh. apply IH.
  Qed.

  Lemma count_primary_sh (es : list sev) : count_primary (map sh es) = count_primary es.
  Proof. unfold count_primary. induction es as [|e r IH]; cbn; [reflexivity|]. rewrite IH. reflexivity. Qed.

  Lemma is_cancelled_sh s e : is_cancelled (sh_st s) (sh e) = is_cancelled s e.
  Proof.
    unfold is_cancelled; cbn. induction (cancelled s) as [|i l IH]; cbn; [reflexivity|]. rewrite IH. f_equal.
    destruct (Z.eqb_spec (ev_sort e + k) (i + k)), (Z.eqb_spec (ev_sort e) i); auto; lia.
  Qed.

  Lemma push_all_sh s es : push_all (sh_st s) (map sh es) = sh_st (push_all s es).
  Proof.
    unfold push_all, sh_st; cbn. f_equal.
    - apply insert_all_sh.
    - rewrite count_primary_sh. reflexivity.
    - rewrite map_app, map_rev, !map_map. reflexivity.
  Qed.

  Lemma invoke_script_sh u now e c :
    invoke_script (sh_u u) now (sh e) (c + k) =
      option_map (fun r => mkRes (sh_u (r_user r)) (map sh (r_new r)) (map (fun i => i + k) (r_cancel r)) (r_ctr r + k))
                 (invoke_script u now e c).
  Proof.
    unfold invoke_script. rewrite invoke_ctx_sh. destruct (invoke_ctx u now e c) as [c1|]; cbn; [|reflexivity].
    rewrite map_rev. reflexivity.
  Qed.

  Lemma pop_and_handle_sh s e h :
    pop_and_handle invoke_script (sh_st s) (sh e) (map sh h) = sh_out (pop_and_handle invoke_script s e h).
  Proof.
    unfold pop_and_handle. rewrite is_cancelled_sh.
    destruct (is_cancelled s e); [reflexivity|].
    change (ev_time (sh e)) with (ev_time e). change (clock (sh_st s)) with (clock s).
    destruct (ev_time e <? clock s); [reflexivity|].
    change (user (sh_st s)) with (sh_u (user s)). change (ctr (sh_st s)) with (ctr s + k).
    rewrite invoke_script_sh. destruct (invoke_script (user s) (ev_time e) e (ctr s)) as [r|]; cbn [option_map sh_out]; [|reflexivity].
    f_equal. cbn [r_user r_new r_cancel r_ctr]. change (cancelled (sh_st s)) with (map (fun i => i + k) (cancelled s)).
    rewrite <- map_app.
    match goal with |- push_all ?a (map sh (r_new r)) = sh_st (push_all ?b (r_new r)) =>
      change a with (sh_st b) end.
    apply push_all_sh.
  Qed.

  Lemma step_fast_sh t s : step_fast invoke_script t (sh_st s) = sh_out (step_fast invoke_script t s).
  Proof.
    unfold step_fast. change (heap (sh_st s)) with (map sh (heap s)). destruct (heap s) as [|e h]; [reflexivity|]. cbn [map].
    change (clock (sh_st s)) with (clock s). destruct (clock s <=? t); [apply pop_and_handle_sh|reflexivity].
  Qed.

  Lemma step_slow_sh t s : step_slow invoke_script t (sh_st s) = sh_out (step_slow invoke_script t s).
  Proof.
    unfold step_slow. change (heap (sh_st s)) with (map sh (heap s)). destruct (heap s) as [|e h]; [reflexivity|]. cbn [map].
    change (clock (sh_st s)) with (clock s). change (primary (sh_st s)) with (primary s).
    destruct (negb _); [reflexivity|]. destruct (_ && _); [reflexivity|apply pop_and_handle_sh].
  Qed.

  Lemma iterate_sh stepf : (forall s, stepf (sh_st s) = sh_out (stepf s)) ->
    forall fuel s, iterate stepf fuel (sh_st s) = sh_out (iterate stepf fuel s).
  Proof.
    intros Hs. induction fuel as [|f IH]; intros s; cbn; [reflexivity|].
    rewrite Hs. destruct (stepf s) as [s1|s1|s1]; cbn; [apply IH|reflexivity|reflexivity].
  Qed.

  Theorem run_sh fuel end_ns s : run invoke_script fuel end_ns (sh_st s) = sh_out (run invoke_script fuel end_ns s).
  Proof.
    unfold run. destruct end_ns as [t|]; apply iterate_sh; intros s0; [apply step_fast_sh|apply step_slow_sh].
  Qed.

  (** What an observer sees does not mention sort indices. *)
  Lemma deliveries_of_sh s : deliveries_of (sh_st s) = deliveries_of s.
  Proof.
    unfold deliveries_of, delivered. change (log (sh_st s)) with (map sh_log (log s)).
    assert (Hf : forall l, filter (fun x : sev * Z * disposition => match snd x with Delivered => true | _ => false end) (map sh_log l)
                         = map sh_log (filter (fun x => match snd x with Delivered => true | _ => false end) l)).
    { induction l as [|[[e c] d] l IH]; cbn; [reflexivity|]. destruct d; cbn; rewrite IH; reflexivity. }
    rewrite Hf, map_map.
    change (fun x : sev * Z * disposition => fst (fst (sh_log x))) with (fun x : sev * Z * disposition => sh (fst (fst x))).
    rewrite <- (map_map (fun x : sev * Z * disposition => fst (fst x)) sh), <- map_rev, map_map. reflexivity.
  Qed.

  Lemma out_state_sh o : out_state (sh_out o) = sh_st (out_state o).
  Proof. destruct o; reflexivity. Qed.

  (** Scripted simulation whose pre-run events are numbered from [k]. *)
  Definition script_init_from (start : Z) (p : program) (pre : list prespec) : sst :=
    let c := fold_left (fun c ps =>
                          let '(c1, x) := create_emit 0 (mkEmit (mkEmit0 (ps_time ps) (e_target (em (ps_emit ps)))
                                                                    (e_type (em (ps_emit ps))) (e_daemon (em (ps_emit ps))))
                                                             (e_label (ps_emit ps)) (e_hooks (ps_emit ps))) c in
                          let c2 := push_ev x c1 in
                          if ps_cancel ps then mkI (ix_u c2) (ix_ctr c2) (ix_new c2) (ev_sort x :: ix_cancel c2) else c2)
                       pre (mkI (u_init p) k [] []) in
    let evs := rev (ix_new c) in
    let s := init_state start (ix_u c) evs (ix_ctr c) in
    mkSt (clock s) (heap s) (primary s) (ctr s) (ix_cancel c) (user s) (processed s) (ncancelled s) (log s) (pushed s).

  Lemma script_init_from_sh start p pre : script_init_from start p pre = sh_st (script_init start p pre).
  Proof.
    unfold script_init_from, script_init.
    set (F := fun c ps => _).
    assert (HF : forall l c, fold_left F l (sh_c k c) = sh_c k (fold_left F l c)).
    { induction l as [|ps l IH]; intros c; cbn; [reflexivity|]. rewrite <- IH. f_equal. unfold F.
      rewrite create_emit_sh. destruct (create_emit 0 _ c) as [c1 x]; cbn [fst snd].
      destruct (ps_cancel ps); reflexivity. }
    change (mkI (u_init p) k [] []) with (sh_c k (mkI (u_init p) 0 [] [])). rewrite HF.
    set (c := fold_left F pre _). clearbody c.
    unfold init_state, sh_st, push_all; cbn.
    rewrite <- map_rev. f_equal.
    - apply (insert_all_sh (rev (ix_new c)) []).
    - change (0 + count_primary (map sh (rev (ix_new c))) = 0 + count_primary (rev (ix_new c))).
      rewrite count_primary_sh. reflexivity.
    - rewrite !app_nil_r, <- !map_rev, !map_map. reflexivity.
  Qed.

  (** MAIN THEOREM: the observable run is independent of the counter offset. *)
  Theorem run_independent_of_counter_offset fuel start end_ns p pre :
    let o0 := script_run fuel start end_ns p pre in
    let ok := run invoke_script fuel end_ns (script_init_from start p pre) in
    deliveries_of (out_state ok) = deliveries_of (out_state o0) /\
    ulog (user (out_state ok)) = ulog (user (out_state o0)) /\
    clock (out_state ok) = clock (out_state o0) /\
    processed (out_state ok) = processed (out_state o0) /\
    ncancelled (out_state ok) = ncancelled (out_state o0) /\
    length (heap (out_state ok)) = length (heap (out_state o0)).
  Proof.
    intros o0 ok. unfold ok, o0, script_run. rewrite script_init_from_sh, run_sh, out_state_sh.
    set (s := out_state _). repeat split.
    - apply deliveries_of_sh.
    - cbn. apply map_length.
  Qed.
End ShiftRun.
