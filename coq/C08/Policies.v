(** C08 — lemmas about the queue policies of C08/Model.v: the ledger of held ids
    ([pol_ids]) under push and pop, well-formedness, capacity, conservation and
    the order each policy defines. *)
From HS Require Import Base.Prelude C08.Model.
Local Open Scope Z_scope.

(* ------------------------------------------------------------------ *)
(** * Counting *)

Definition ind (x y : Z) : Z := if x =? y then 1 else 0.

Lemma cnt_app x a b : cnt x (a ++ b) = cnt x a + cnt x b.
Proof. induction a as [|y a IH]; cbn; [reflexivity|]. rewrite IH. lia. Qed.

Lemma cnt_nonneg x l : 0 <= cnt x l.
Proof. induction l as [|y l IH]; cbn; [lia|]. destruct (x =? y); lia. Qed.

Lemma cnt_cons x y l : cnt x (y :: l) = ind x y + cnt x l.
Proof. reflexivity. Qed.

Lemma cnt_in x l : 0 < cnt x l <-> In x l.
Proof.
  induction l as [|y l IH]; cbn; [split; [lia|tauto]|].
  destruct (x =? y) eqn:E.
  - apply Z.eqb_eq in E. subst. pose proof (cnt_nonneg y l). split; [auto|lia].
  - apply Z.eqb_neq in E. rewrite Z.add_0_l, IH. split; [auto|]. intros [H|H]; [congruence|auto].
Qed.

Lemma cnt_nodup x l : NoDup l -> cnt x l <= 1.
Proof.
  induction 1 as [|y l Hn _ IH]; cbn; [lia|].
  destruct (x =? y) eqn:E; [|lia].
  apply Z.eqb_eq in E. subst.
  assert (~ 0 < cnt y l) by (rewrite cnt_in; exact Hn).
  pose proof (cnt_nonneg y l). lia.
Qed.

Lemma zlen_app {A} (a b : list A) : zlen (a ++ b) = zlen a + zlen b.
Proof. unfold zlen. rewrite app_length. lia. Qed.

Lemma zlen_cons {A} (a : A) l : zlen (a :: l) = 1 + zlen l.
Proof. unfold zlen. cbn [length]. lia. Qed.

Lemma zlen_nonneg {A} (l : list A) : 0 <= zlen l.
Proof. unfold zlen. lia. Qed.

Lemma zlen_map {A B} (f : A -> B) l : zlen (map f l) = zlen l.
Proof. unfold zlen. now rewrite map_length. Qed.

Lemma zlen_nil_iff {A} (l : list A) : zlen l = 0 <-> l = [].
Proof. destruct l; unfold zlen; cbn; split; intros; try reflexivity; try discriminate; lia. Qed.

(* ------------------------------------------------------------------ *)
(** * Sorted-list heaps *)

Definition eids (h : list entry) : list Z := map (fun e : entry => iid (snd e)) h.

Lemma cnt_ins x k o it h : cnt x (eids (ins k o it h)) = ind x (iid it) + cnt x (eids h).
Proof.
  unfold eids. induction h as [|e h IH]; cbn [ins map]; [reflexivity|].
  destruct (entry_ltb k o e); cbn [map]; [reflexivity|]. rewrite !cnt_cons, IH. lia.
Qed.

Lemma zlen_ins k o it h : zlen (ins k o it h) = 1 + zlen h.
Proof.
  induction h as [|e h IH]; cbn [ins]; [reflexivity|].
  destruct (entry_ltb k o e); [now rewrite zlen_cons|]. rewrite !zlen_cons, IH. lia.
Qed.

Lemma dl_pop_cnt x now h h' res ex :
  dl_pop now h = (h', res, ex) ->
  cnt x (eids h) = cnt x (eids h') + cnt x (map iid ex)
                   + match res with Some it => ind x (iid it) | None => 0 end.
Proof.
  unfold eids. revert h' res ex. induction h as [|[[k o] it] h IH]; cbn; intros h' res ex H.
  - inversion H; subst. reflexivity.
  - destruct (k <? now).
    + destruct (dl_pop now h) as [[h1 r1] e1] eqn:E. inversion H; subst.
      specialize (IH _ _ _ eq_refl). cbn. unfold ind in *. lia.
    + inversion H; subst. cbn. unfold ind. lia.
Qed.

Lemma dl_pop_len now h h' res ex :
  dl_pop now h = (h', res, ex) ->
  zlen h = zlen h' + zlen ex + match res with Some _ => 1 | None => 0 end.
Proof.
  revert h' res ex. induction h as [|[[k o] it] h IH]; cbn [dl_pop]; intros h' res ex H.
  - inversion H; subst. reflexivity.
  - destruct (k <? now).
    + destruct (dl_pop now h) as [[h1 r1] e1] eqn:E. inversion H; subst.
      specialize (IH _ _ _ eq_refl). rewrite !zlen_cons. lia.
    + inversion H; subst. rewrite zlen_cons. change (zlen (@nil item)) with 0. lia.
Qed.

Lemma dl_pop_none now h h' ex : dl_pop now h = (h', None, ex) -> h' = [].
Proof.
  revert h' ex. induction h as [|[[k o] it] h IH]; cbn; intros h' ex H.
  - now inversion H.
  - destruct (k <? now); [|discriminate].
    destruct (dl_pop now h) as [[h1 r1] e1] eqn:E. inversion H; subst. eauto.
Qed.

(* ------------------------------------------------------------------ *)
(** * Fair queue flows *)

Definition fids (fl : flows) : list Z := flat_map (fun p : Z * list item => map iid (snd p)) fl.

Lemma fids_app a b : fids (a ++ b) = fids a ++ fids b.
Proof. unfold fids. apply flat_map_app. Qed.

Lemma fl_append_cnt x f it fl l :
  fl_find f fl = Some l -> cnt x (fids (fl_append f it fl)) = ind x (iid it) + cnt x (fids fl).
Proof.
  unfold fids. induction fl as [|[g l'] fl IH]; cbn [fl_find fl_append]; [discriminate|].
  destruct (f =? g); intros H; cbn [flat_map snd].
  - rewrite map_app, !cnt_app. cbn. unfold ind. lia.
  - rewrite !cnt_app, (IH H). lia.
Qed.

Lemma fair_pop_cnt x fl rm fl' res rm' :
  fair_pop fl rm = (fl', res, rm') ->
  cnt x (fids fl) = cnt x (fids fl') + match res with Some it => ind x (iid it) | None => 0 end.
Proof.
  revert rm fl' res rm'. induction fl as [|[g l] fl IH]; cbn [fair_pop]; intros rm fl' res rm' H.
  - inversion H; subst. reflexivity.
  - destruct l as [|it l].
    + apply IH in H. exact H.
    + destruct l as [|it2 l]; inversion H; subst.
      * unfold fids. cbn. unfold ind. lia.
      * rewrite fids_app. unfold fids. cbn [flat_map snd map]. rewrite !cnt_app. cbn [cnt]. unfold ind. lia.
Qed.

(* ------------------------------------------------------------------ *)
(** * Weighted fair queue flows *)

Definition wids (fl : list wflow) : list Z := flat_map (fun w => map iid (wf_q w)) fl.

Lemma wids_app a b : wids (a ++ b) = wids a ++ wids b.
Proof. unfold wids. apply flat_map_app. Qed.

Lemma wf_append_cnt x f it fl :
  wf_find f fl = true -> cnt x (wids (wf_append f it fl)) = ind x (iid it) + cnt x (wids fl).
Proof.
  unfold wids. induction fl as [|w fl IH]; cbn [wf_find wf_append]; [discriminate|].
  destruct (f =? wf_id w); cbn [orb flat_map wf_q]; intros H.
  - rewrite map_app, !cnt_app. cbn. unfold ind. lia.
  - rewrite !cnt_app, (IH H). lia.
Qed.

Lemma wf_find_app f a b : wf_find f (a ++ b) = wf_find f a || wf_find f b.
Proof. induction a as [|w a IH]; cbn; [reflexivity|]. rewrite IH. now rewrite orb_assoc. Qed.

Lemma wids_cons w r : wids (w :: r) = map iid (wf_q w) ++ wids r.
Proof. reflexivity. Qed.

Lemma wfq_pop_cnt x fuel : forall fl rm fl' res rm',
  wfq_pop fuel fl rm = (fl', res, rm') ->
  cnt x (wids fl) = cnt x (wids fl') + match res with Some it => ind x (iid it) | None => 0 end.
Proof.
  induction fuel as [|fuel IH]; cbn [wfq_pop]; intros fl rm fl' res rm' H.
  - inversion H; subst. lia.
  - destruct fl as [|w r]; [inversion H; subst; reflexivity|].
    destruct (wf_q w) as [|it l] eqn:Eq.
    + destruct r as [|w2 r2].
      * inversion H; subst. rewrite wids_cons, Eq. reflexivity.
      * apply IH in H. rewrite wids_cons, Eq. exact H.
    + destruct (0 <? wf_cr w).
      * destruct l as [|it2 l].
        -- inversion H; subst. rewrite wids_cons, Eq. cbn [map app cnt]. unfold ind. lia.
        -- destruct (wf_cr w - 1 <=? 0); inversion H; subst; rewrite wids_cons, Eq.
           ++ rewrite wids_app, wids_cons. cbn [wf_q]. rewrite !cnt_app. cbn [map cnt wids flat_map]. unfold ind. lia.
           ++ rewrite wids_cons. cbn [wf_q]. rewrite !cnt_app. cbn [map cnt]. unfold ind. lia.
      * apply IH in H. rewrite <- H. rewrite wids_app, !wids_cons, Eq. cbn [wf_q]. rewrite !cnt_app.
        cbn [wids flat_map cnt]. lia.
Qed.

(* ------------------------------------------------------------------ *)
(** * Ledger lemmas for every policy *)


Lemma removelast_last_cnt x (l : list item) d : l <> [] ->
  cnt x (map iid l) = cnt x (map iid (removelast l)) + ind x (iid (last l d)).
Proof.
  intros H. rewrite (app_removelast_last d H) at 1. rewrite map_app, cnt_app. cbn. unfold ind. lia.
Qed.

Lemma removelast_last_len (l : list item) : l <> [] -> zlen l = zlen (removelast l) + 1.
Proof.
  intros H. rewrite (app_removelast_last (MkItem 0 0 0 0 0) H) at 1. rewrite zlen_app, zlen_cons.
  change (zlen (@nil item)) with 0. lia.
Qed.

Lemma firstn_skipn_cnt x n (r : list item) :
  cnt x (map iid r) = cnt x (map iid (skipn n r)) + cnt x (map iid (firstn n r)).
Proof. rewrite <- (firstn_skipn n r) at 1. rewrite map_app, cnt_app. lia. Qed.

Lemma firstn_skipn_len n (r : list item) : zlen r = zlen (skipn n r) + zlen (firstn n r).
Proof. rewrite <- (firstn_skipn n r) at 1. rewrite zlen_app. lia. Qed.

Lemma pol_ids_eids_prio cap ctr h : pol_ids (PPrio cap ctr h) = eids h.
Proof. reflexivity. Qed.

Lemma push_accept_cnt x balk it : forall s s',
  pol_push balk it s = (s', true) ->
  cnt x (pol_ids s') = ind x (iid it) + cnt x (pol_ids s).
Proof.
  induction s as [cap l|cap l|cap ctr h|cap ctr h st|maxf pfc fl total st|cap pfc fl total st|thr b i IH|rcap l st|cap l sched st|athr cap l wasc st];
    cbn [pol_push]; intros s' H.
  - destruct (cap_full cap (zlen l)); inversion H; subst. cbn. rewrite map_app, cnt_app. cbn. unfold ind. lia.
  - destruct (cap_full cap (zlen l)); inversion H; subst. reflexivity.
  - destruct (cap_full cap (zlen h)); inversion H; subst. apply cnt_ins.
  - destruct (cap_full cap (zlen h)); inversion H; subst. apply cnt_ins.
  - destruct (fl_find (iflow it) fl) as [l|] eqn:Ef.
    + destruct (cap_full pfc (zlen l)); inversion H; subst. cbn [pol_ids]. eapply fl_append_cnt; eauto.
    + destruct (cap_full maxf (zlen fl)); [inversion H|].
      destruct (cap_full pfc 0); inversion H; subst. cbn [pol_ids].
      change (cnt x (fids (fl ++ [(iflow it, [it])])) = ind x (iid it) + cnt x (fids fl)).
      rewrite fids_app, cnt_app. cbn. unfold ind. lia.
  - destruct (cap_full cap total); [inversion H|].
    set (fl1 := if negb (wf_find (iflow it) fl) then _ else fl) in *.
    destruct (cap_full pfc (wf_qlen (iflow it) fl1)); inversion H; subst. cbn [pol_ids].
    change (cnt x (wids (wf_append (iflow it) it fl1)) = ind x (iid it) + cnt x (wids fl)).
    assert (Hf : wf_find (iflow it) fl1 = true).
    { subst fl1. destruct (wf_find (iflow it) fl) eqn:E; cbn; [exact E|].
      rewrite wf_find_app, E. cbn. now rewrite Z.eqb_refl. }
    rewrite (wf_append_cnt _ _ _ _ Hf). f_equal.
    subst fl1. destruct (negb (wf_find (iflow it) fl)); [|reflexivity].
    rewrite wids_app, cnt_app. cbn. lia.
  - destruct ((thr <=? pol_len i) && balk); [inversion H|].
    destruct (pol_push balk it i) as [i' ok] eqn:E. inversion H; subst. cbn [pol_ids]. eauto.
  - destruct (rcap <=? zlen l); [inversion H|]. destruct balk; inversion H; subst. cbn. rewrite map_app, cnt_app. cbn. unfold ind. lia.
  - destruct (cap_full cap (zlen l)); inversion H; subst. cbn. rewrite map_app, cnt_app. cbn. unfold ind. lia.
  - destruct (cap_full cap (zlen l)); inversion H; subst. cbn. rewrite map_app, cnt_app. cbn. unfold ind. lia.
Qed.

Lemma push_reject_cnt x balk it : forall s s',
  pol_push balk it s = (s', false) -> cnt x (pol_ids s') = cnt x (pol_ids s).
Proof.
  induction s as [cap l|cap l|cap ctr h|cap ctr h st|maxf pfc fl total st|cap pfc fl total st|thr b i IH|rcap l st|cap l sched st|athr cap l wasc st];
    cbn [pol_push]; intros s' H.
  - destruct (cap_full cap (zlen l)); inversion H; subst. reflexivity.
  - destruct (cap_full cap (zlen l)); inversion H; subst. reflexivity.
  - destruct (cap_full cap (zlen h)); inversion H; subst. reflexivity.
  - destruct (cap_full cap (zlen h)); inversion H; subst. reflexivity.
  - destruct (fl_find (iflow it) fl) as [l|] eqn:Ef.
    + destruct (cap_full pfc (zlen l)); inversion H; subst. reflexivity.
    + destruct (cap_full maxf (zlen fl)); [inversion H; subst; reflexivity|].
      destruct (cap_full pfc 0); inversion H; subst. cbn [pol_ids].
      change (cnt x (fids (fl ++ [(iflow it, [])])) = cnt x (fids fl)).
      rewrite fids_app, cnt_app. cbn. lia.
  - destruct (cap_full cap total); [inversion H; subst; reflexivity|].
    set (fl1 := if negb (wf_find (iflow it) fl) then _ else fl) in *.
    destruct (cap_full pfc (wf_qlen (iflow it) fl1)); inversion H; subst. cbn [pol_ids].
    change (cnt x (wids fl1) = cnt x (wids fl)).
    subst fl1. destruct (negb (wf_find (iflow it) fl)); [|reflexivity].
    rewrite wids_app, cnt_app. cbn. lia.
  - destruct ((thr <=? pol_len i) && balk); [inversion H; subst; reflexivity|].
    destruct (pol_push balk it i) as [i' ok] eqn:E. inversion H; subst. cbn [pol_ids]. eauto.
  - destruct (rcap <=? zlen l); [inversion H; subst; reflexivity|]. destruct balk; inversion H; subst. reflexivity.
  - destruct (cap_full cap (zlen l)); inversion H; subst. reflexivity.
  - destruct (cap_full cap (zlen l)); inversion H; subst. reflexivity.
Qed.

Lemma pop_cnt x now : forall s s' res ex,
  pol_pop now s = (s', res, ex) ->
  cnt x (pol_ids s) = cnt x (pol_ids s') + cnt x (map iid ex)
                      + match res with Some it => ind x (iid it) | None => 0 end.
Proof.
  induction s as [cap l|cap l|cap ctr h|cap ctr h st|maxf pfc fl total st|cap pfc fl total st|thr b i IH|rcap l st|cap l sched st|athr cap l wasc st];
    cbn [pol_pop]; intros s' res ex H.
  - destruct l as [|it l]; inversion H; subst; cbn; unfold ind; lia.
  - destruct l as [|it l]; inversion H; subst; cbn; unfold ind; lia.
  - destruct h as [|[[k o] it] h]; inversion H; subst; cbn; unfold ind; lia.
  - destruct (dl_pop now h) as [[h' r] e] eqn:E. inversion H; subst. cbn [pol_ids].
    apply (dl_pop_cnt x) in E. exact E.
  - destruct (fair_pop fl 0) as [[fl' r] rm] eqn:E. apply (fair_pop_cnt x) in E.
    destruct r; inversion H; subst; cbn [pol_ids map cnt]; change (flat_map _ fl) with (fids fl);
      change (flat_map _ fl') with (fids fl'); lia.
  - destruct fl as [|w0 fl0]; [inversion H; subst; cbn; lia|].
    destruct (wfq_pop (2 * length (w0 :: fl0)) (w0 :: fl0) 0) as [[fl' r] rm] eqn:E.
    apply (wfq_pop_cnt x) in E.
    destruct r; inversion H; subst; cbn [pol_ids map cnt];
      change (flat_map (fun w => map iid (wf_q w)) fl') with (wids fl');
      change (flat_map (fun w => map iid (wf_q w)) (w0 :: fl0)) with (wids (w0 :: fl0)); lia.
  - destruct (pol_pop now i) as [[i' r] e] eqn:E. inversion H; subst. cbn [pol_ids]. eauto.
  - destruct l as [|it l]; inversion H; subst; cbn; unfold ind; lia.
  - destruct l as [|it l]; inversion H; subst; [cbn; lia|]. cbn [pol_ids map cnt].
    rewrite (firstn_skipn_cnt x (Z.to_nat (hd 0 sched)) l). unfold ind. lia.
  - destruct l as [|it0 l0]; [inversion H; subst; cbn; lia|].
    pose proof (removelast_last_cnt x (it0 :: l0) it0 ltac:(discriminate)) as Hl.
    destruct (athr <=? zlen (it0 :: l0)); inversion H; subst; cbn in Hl |- *; unfold ind in *; lia.
Qed.

(* ------------------------------------------------------------------ *)
(** * Lengths *)

Lemma fids_cons g l fl : fids ((g, l) :: fl) = map iid l ++ fids fl.
Proof. reflexivity. Qed.

Lemma fl_append_len f it fl l :
  fl_find f fl = Some l -> zlen (fids (fl_append f it fl)) = 1 + zlen (fids fl).
Proof.
  induction fl as [|[g l'] fl IH]; cbn [fl_find fl_append]; [discriminate|].
  destruct (f =? g); intros H; rewrite !fids_cons, !zlen_app.
  - rewrite map_app, zlen_app. cbn [map]. rewrite zlen_cons. change (zlen (@nil Z)) with 0. lia.
  - rewrite (IH H). lia.
Qed.

Lemma fair_pop_len fl : forall rm fl' res rm',
  fair_pop fl rm = (fl', res, rm') ->
  zlen (fids fl) = zlen (fids fl') + match res with Some _ => 1 | None => 0 end.
Proof.
  induction fl as [|[g l] fl IH]; cbn [fair_pop]; intros rm fl' res rm' H.
  - inversion H; subst. reflexivity.
  - destruct l as [|it l].
    + apply IH in H. rewrite fids_cons. exact H.
    + destruct l as [|it2 l]; inversion H; subst; rewrite fids_cons.
      * cbn [map app]. rewrite zlen_cons. lia.
      * rewrite fids_app, fids_cons, !zlen_app. cbn [map fids flat_map]. rewrite !zlen_cons.
        change (zlen (@nil Z)) with 0. lia.
Qed.

Lemma fair_pop_none fl : forall rm fl' rm', fair_pop fl rm = (fl', None, rm') -> fids fl = [] /\ fl' = [].
Proof.
  induction fl as [|[g l] fl IH]; cbn [fair_pop]; intros rm fl' rm' H.
  - inversion H; subst. split; reflexivity.
  - destruct l as [|it l].
    + apply IH in H. rewrite fids_cons. exact H.
    + destruct l; discriminate.
Qed.

Lemma wf_append_len f it fl :
  wf_find f fl = true -> zlen (wids (wf_append f it fl)) = 1 + zlen (wids fl).
Proof.
  induction fl as [|w fl IH]; cbn [wf_find wf_append]; [discriminate|].
  destruct (f =? wf_id w); cbn [orb]; intros H; rewrite !wids_cons, !zlen_app.
  - cbn [wf_q]. rewrite map_app, zlen_app. cbn [map]. rewrite zlen_cons. change (zlen (@nil Z)) with 0. lia.
  - rewrite (IH H). lia.
Qed.

Definition wf_ok (w : wflow) : Prop := 1 <= wf_cr w /\ 1 <= wf_w w.

Lemma wf_append_ok f it fl : Forall wf_ok fl -> Forall wf_ok (wf_append f it fl).
Proof.
  induction 1 as [|w fl Hw Hf IH]; cbn [wf_append]; [constructor|].
  destruct (f =? wf_id w); constructor; auto.
Qed.

Lemma wfq_pop_len fuel : forall fl rm fl' res rm',
  wfq_pop fuel fl rm = (fl', res, rm') ->
  zlen (wids fl) = zlen (wids fl') + match res with Some _ => 1 | None => 0 end.
Proof.
  induction fuel as [|fuel IH]; cbn [wfq_pop]; intros fl rm fl' res rm' H.
  - inversion H; subst. lia.
  - destruct fl as [|w r]; [inversion H; subst; reflexivity|].
    destruct (wf_q w) as [|it l] eqn:Eq.
    + destruct r as [|w2 r2].
      * inversion H; subst. rewrite wids_cons, Eq. reflexivity.
      * apply IH in H. rewrite wids_cons, Eq. exact H.
    + destruct (0 <? wf_cr w).
      * destruct l as [|it2 l].
        -- inversion H; subst. rewrite wids_cons, Eq. cbn [map app]. rewrite zlen_cons. lia.
        -- destruct (wf_cr w - 1 <=? 0); inversion H; subst; rewrite wids_cons, Eq.
           ++ rewrite wids_app, wids_cons. cbn [wf_q]. rewrite !zlen_app. cbn [map wids flat_map]. rewrite !zlen_cons.
              change (zlen (@nil Z)) with 0. lia.
           ++ rewrite wids_cons. cbn [wf_q]. rewrite !zlen_app. cbn [map]. rewrite !zlen_cons. lia.
      * apply IH in H. rewrite <- H. rewrite wids_app, !wids_cons, Eq. cbn [wf_q]. rewrite !zlen_app.
        cbn [wids flat_map]. change (zlen (@nil Z)) with 0. lia.
Qed.

Lemma wfq_pop_ok fuel : forall fl rm fl' res rm',
  wfq_pop fuel fl rm = (fl', res, rm') -> Forall wf_ok fl -> Forall wf_ok fl'.
Proof.
  induction fuel as [|fuel IH]; cbn [wfq_pop]; intros fl rm fl' res rm' H Hok.
  - inversion H; subst. exact Hok.
  - destruct fl as [|w r]; [inversion H; subst; constructor|].
    inversion Hok as [|? ? Hw Hr]; subst.
    destruct (wf_q w) as [|it l] eqn:Eq.
    + destruct r as [|w2 r2]; [inversion H; subst; constructor|]. eapply IH; eauto.
    + destruct (0 <? wf_cr w) eqn:Ec.
      * destruct l as [|it2 l]; [inversion H; subst; exact Hr|].
        destruct Hw as [Hc Hwt].
        destruct (wf_cr w - 1 <=? 0) eqn:Em; inversion H; subst.
        -- apply Forall_app. split; [exact Hr|]. constructor; [|constructor]. unfold wf_ok. cbn. lia.
        -- constructor; [|exact Hr]. unfold wf_ok. cbn. lia.
      * eapply IH; eauto. apply Forall_app. split; [exact Hr|]. constructor; [|constructor].
        destruct Hw. unfold wf_ok. cbn. lia.
Qed.

Lemma wfq_pop_none fuel : forall fl rm fl' rm',
  wfq_pop fuel fl rm = (fl', None, rm') -> Forall wf_ok fl -> (length fl <= fuel)%nat ->
  wids fl = [].
Proof.
  induction fuel as [|fuel IH]; cbn [wfq_pop]; intros fl rm fl' rm' H Hok Hlen.
  - destruct fl; [reflexivity|cbn in Hlen; lia].
  - destruct fl as [|w r]; [reflexivity|].
    inversion Hok as [|? ? Hw Hr]; subst.
    destruct (wf_q w) as [|it l] eqn:Eq.
    + rewrite wids_cons, Eq. cbn [map app].
      destruct r as [|w2 r2]; [reflexivity|]. eapply IH; eauto. cbn in *. lia.
    + destruct Hw as [Hc _]. assert (E : 0 <? wf_cr w = true) by (apply Z.ltb_lt; lia).
      rewrite E in H. destruct l; [discriminate|]. destruct (wf_cr w - 1 <=? 0); discriminate.
Qed.

(* ------------------------------------------------------------------ *)
(** * Well-formed policy states *)

Fixpoint pol_wf (s : pol) : Prop :=
  match s with
  | PFair _ _ fl total _ => total = zlen (fids fl)
  | PWfq _ _ fl total _ => total = zlen (wids fl) /\ Forall wf_ok fl
  | PBalk _ _ i => pol_wf i
  | _ => True
  end.

Lemma push_wf balk it : forall s s' ok, pol_wf s -> pol_push balk it s = (s', ok) -> pol_wf s'.
Proof.
  induction s as [cap l|cap l|cap ctr h|cap ctr h st|maxf pfc fl total st|cap pfc fl total st|thr b i IH|rcap l st|cap l sched st|athr cap l wasc st];
    cbn [pol_push pol_wf]; intros s' ok Hw H.
  - destruct (cap_full cap (zlen l)); inversion H; subst; exact I.
  - destruct (cap_full cap (zlen l)); inversion H; subst; exact I.
  - destruct (cap_full cap (zlen h)); inversion H; subst; exact I.
  - destruct (cap_full cap (zlen h)); inversion H; subst; exact I.
  - destruct (fl_find (iflow it) fl) as [l|] eqn:Ef.
    + destruct (cap_full pfc (zlen l)); inversion H; subst; cbn [pol_wf]; [reflexivity|].
      erewrite fl_append_len; eauto. lia.
    + destruct (cap_full maxf (zlen fl)); [inversion H; subst; cbn [pol_wf]; reflexivity|].
      destruct (cap_full pfc 0); inversion H; subst; cbn [pol_wf]; rewrite fids_app, zlen_app, fids_cons;
        cbn [map app fids flat_map]; rewrite ?zlen_cons; change (zlen (@nil Z)) with 0; lia.
  - destruct Hw as [Ht Hok].
    destruct (cap_full cap total); [inversion H; subst; cbn [pol_wf]; auto|].
    set (fl1 := if negb (wf_find (iflow it) fl) then _ else fl) in *.
    assert (Hf : wf_find (iflow it) fl1 = true).
    { subst fl1. destruct (wf_find (iflow it) fl) eqn:E; cbn; [exact E|].
      rewrite wf_find_app, E. cbn. now rewrite Z.eqb_refl. }
    assert (Hl : zlen (wids fl1) = zlen (wids fl)).
    { subst fl1. destruct (negb (wf_find (iflow it) fl)); [|reflexivity].
      rewrite wids_app, zlen_app. cbn. lia. }
    assert (Hok1 : Forall wf_ok fl1).
    { subst fl1. destruct (negb (wf_find (iflow it) fl)); [|exact Hok].
      apply Forall_app. split; [exact Hok|]. constructor; [|constructor].
      unfold wf_ok. cbn. destruct (iw it <? 1) eqn:E; lia. }
    destruct (cap_full pfc (wf_qlen (iflow it) fl1)); inversion H; subst; cbn [pol_wf].
    + split; [lia|exact Hok1].
    + split; [rewrite wf_append_len by exact Hf; lia|apply wf_append_ok; exact Hok1].
  - destruct ((thr <=? pol_len i) && balk); [inversion H; subst; exact Hw|].
    destruct (pol_push balk it i) as [i' ok'] eqn:E. inversion H; subst. cbn [pol_wf]. eauto.
  - destruct (rcap <=? zlen l); [inversion H; subst; exact I|]. destruct balk; inversion H; subst; exact I.
  - destruct (cap_full cap (zlen l)); inversion H; subst; exact I.
  - destruct (cap_full cap (zlen l)); inversion H; subst; exact I.
Qed.

Lemma pop_wf now : forall s s' r ex, pol_wf s -> pol_pop now s = (s', r, ex) -> pol_wf s'.
Proof.
  induction s as [cap l|cap l|cap ctr h|cap ctr h st|maxf pfc fl total st|cap pfc fl total st|thr b i IH|rcap l st|cap l sched st|athr cap l wasc st];
    cbn [pol_pop pol_wf]; intros s' r ex Hw H.
  - destruct l; inversion H; subst; exact I.
  - destruct l; inversion H; subst; exact I.
  - destruct h as [|[[k o] it] h]; inversion H; subst; exact I.
  - destruct (dl_pop now h) as [[h' r'] e']. inversion H; subst; exact I.
  - destruct (fair_pop fl 0) as [[fl' r'] rm] eqn:E. pose proof (fair_pop_len _ _ _ _ _ E) as Hl.
    destruct r'; inversion H; subst; cbn [pol_wf]; lia.
  - destruct Hw as [Ht Hok].
    destruct fl as [|w0 fl0]; [inversion H; subst; cbn [pol_wf]; auto|].
    destruct (wfq_pop (2 * length (w0 :: fl0)) (w0 :: fl0) 0) as [[fl' r'] rm] eqn:E.
    pose proof (wfq_pop_len _ _ _ _ _ _ E) as Hl. pose proof (wfq_pop_ok _ _ _ _ _ _ E Hok) as Hok'.
    destruct r'; inversion H; subst; cbn [pol_wf]; split; auto; lia.
  - destruct (pol_pop now i) as [[i' r'] e'] eqn:E. inversion H; subst. cbn [pol_wf]. eauto.
  - destruct l; inversion H; subst; exact I.
  - destruct l; inversion H; subst; exact I.
  - destruct l as [|it0 l0]; [inversion H; subst; exact I|]. destruct (athr <=? zlen (it0 :: l0)); inversion H; subst; exact I.
Qed.

Lemma pop_none_len now : forall s s' ex, pol_wf s -> pol_pop now s = (s', None, ex) -> pol_len s' = 0.
Proof.
  induction s as [cap l|cap l|cap ctr h|cap ctr h st|maxf pfc fl total st|cap pfc fl total st|thr b i IH|rcap l st|cap l sched st|athr cap l wasc st];
    cbn [pol_pop pol_wf]; intros s' ex Hw H.
  - destruct l; inversion H; subst; reflexivity.
  - destruct l; inversion H; subst; reflexivity.
  - destruct h as [|[[k o] it] h]; inversion H; subst; reflexivity.
  - destruct (dl_pop now h) as [[h' r'] e'] eqn:E. inversion H; subst. apply dl_pop_none in E. subst. reflexivity.
  - destruct (fair_pop fl 0) as [[fl' r'] rm] eqn:E.
    destruct r'; inversion H; subst. apply fair_pop_none in E. destruct E as [E _]. cbn [pol_len]. rewrite E. reflexivity.
  - destruct Hw as [Ht Hok].
    destruct fl as [|w0 fl0]; [inversion H; subst; cbn [pol_len]; try rewrite Ht; reflexivity|].
    destruct (wfq_pop (2 * length (w0 :: fl0)) (w0 :: fl0) 0) as [[fl' r'] rm] eqn:E.
    destruct r'; inversion H; subst. apply wfq_pop_none in E; [|exact Hok|lia].
    cbn [pol_len]. rewrite E. reflexivity.
  - destruct (pol_pop now i) as [[i' r'] e'] eqn:E. inversion H; subst. cbn [pol_len]. eauto.
  - destruct l; inversion H; subst; reflexivity.
  - destruct l; inversion H; subst; reflexivity.
  - destruct l as [|it0 l0]; [inversion H; subst; reflexivity|]. destruct (athr <=? zlen (it0 :: l0)); inversion H.
Qed.

Lemma push_accept_len balk it : forall s s', pol_push balk it s = (s', true) -> pol_len s' = pol_len s + 1.
Proof.
  induction s as [cap l|cap l|cap ctr h|cap ctr h st|maxf pfc fl total st|cap pfc fl total st|thr b i IH|rcap l st|cap l sched st|athr cap l wasc st];
    cbn [pol_push]; intros s' H.
  - destruct (cap_full cap (zlen l)); inversion H; subst. cbn [pol_len]. rewrite zlen_app, zlen_cons. change (zlen (@nil item)) with 0. lia.
  - destruct (cap_full cap (zlen l)); inversion H; subst. cbn [pol_len]. rewrite zlen_cons. lia.
  - destruct (cap_full cap (zlen h)); inversion H; subst. cbn [pol_len]. rewrite zlen_ins. lia.
  - destruct (cap_full cap (zlen h)); inversion H; subst. cbn [pol_len]. rewrite zlen_ins. lia.
  - destruct (fl_find (iflow it) fl) as [l|] eqn:Ef.
    + destruct (cap_full pfc (zlen l)); inversion H; subst. reflexivity.
    + destruct (cap_full maxf (zlen fl)); [inversion H|].
      destruct (cap_full pfc 0); inversion H; subst. reflexivity.
  - destruct (cap_full cap total); [inversion H|].
    match type of H with (if ?c then _ else _) = _ => destruct c end; inversion H; subst. reflexivity.
  - destruct ((thr <=? pol_len i) && balk); [inversion H|].
    destruct (pol_push balk it i) as [i' ok] eqn:E. inversion H; subst. cbn [pol_len]. eauto.
  - destruct (rcap <=? zlen l); [inversion H|]. destruct balk; inversion H; subst. cbn [pol_len]. rewrite zlen_app, zlen_cons. change (zlen (@nil item)) with 0. lia.
  - destruct (cap_full cap (zlen l)); inversion H; subst. cbn [pol_len]. rewrite zlen_app, zlen_cons. change (zlen (@nil item)) with 0. lia.
  - destruct (cap_full cap (zlen l)); inversion H; subst. cbn [pol_len]. rewrite zlen_app, zlen_cons. change (zlen (@nil item)) with 0. lia.
Qed.

Lemma push_reject_len balk it : forall s s', pol_push balk it s = (s', false) -> pol_len s' = pol_len s.
Proof.
  induction s as [cap l|cap l|cap ctr h|cap ctr h st|maxf pfc fl total st|cap pfc fl total st|thr b i IH|rcap l st|cap l sched st|athr cap l wasc st];
    cbn [pol_push]; intros s' H.
  - destruct (cap_full cap (zlen l)); inversion H; subst. reflexivity.
  - destruct (cap_full cap (zlen l)); inversion H; subst. reflexivity.
  - destruct (cap_full cap (zlen h)); inversion H; subst. reflexivity.
  - destruct (cap_full cap (zlen h)); inversion H; subst. reflexivity.
  - destruct (fl_find (iflow it) fl) as [l|] eqn:Ef.
    + destruct (cap_full pfc (zlen l)); inversion H; subst. reflexivity.
    + destruct (cap_full maxf (zlen fl)); [inversion H; subst; reflexivity|].
      destruct (cap_full pfc 0); inversion H; subst. reflexivity.
  - destruct (cap_full cap total); [inversion H; subst; reflexivity|].
    match type of H with (if ?c then _ else _) = _ => destruct c end; inversion H; subst. reflexivity.
  - destruct ((thr <=? pol_len i) && balk); [inversion H; subst; reflexivity|].
    destruct (pol_push balk it i) as [i' ok] eqn:E. inversion H; subst. cbn [pol_len]. eauto.
  - destruct (rcap <=? zlen l); [inversion H; subst; reflexivity|]. destruct balk; inversion H; subst. reflexivity.
  - destruct (cap_full cap (zlen l)); inversion H; subst. reflexivity.
  - destruct (cap_full cap (zlen l)); inversion H; subst. reflexivity.
Qed.

Lemma pop_len now : forall s s' r ex, pol_pop now s = (s', r, ex) ->
  pol_len s = pol_len s' + zlen ex + match r with Some _ => 1 | None => 0 end.
Proof.
  induction s as [cap l|cap l|cap ctr h|cap ctr h st|maxf pfc fl total st|cap pfc fl total st|thr b i IH|rcap l st|cap l sched st|athr cap l wasc st];
    cbn [pol_pop]; intros s' r ex H.
  - destruct l; inversion H; subst; cbn [pol_len]; rewrite ?zlen_cons; change (zlen (@nil item)) with 0; lia.
  - destruct l; inversion H; subst; cbn [pol_len]; rewrite ?zlen_cons; change (zlen (@nil item)) with 0; lia.
  - destruct h as [|[[k o] it] h]; inversion H; subst; cbn [pol_len]; rewrite ?zlen_cons; change (zlen (@nil item)) with 0; lia.
  - destruct (dl_pop now h) as [[h' r'] e'] eqn:E. inversion H; subst. cbn [pol_len]. apply dl_pop_len in E. exact E.
  - destruct (fair_pop fl 0) as [[fl' r'] rm] eqn:E.
    destruct r'; inversion H; subst; cbn [pol_len]; change (zlen (@nil item)) with 0; lia.
  - destruct fl as [|w0 fl0]; [inversion H; subst; cbn [pol_len]; change (zlen (@nil item)) with 0; lia|].
    destruct (wfq_pop (2 * length (w0 :: fl0)) (w0 :: fl0) 0) as [[fl' r'] rm] eqn:E.
    destruct r'; inversion H; subst; cbn [pol_len]; change (zlen (@nil item)) with 0; lia.
  - destruct (pol_pop now i) as [[i' r'] e'] eqn:E. inversion H; subst. cbn [pol_len]. eauto.
  - destruct l; inversion H; subst; cbn [pol_len]; rewrite ?zlen_cons; change (zlen (@nil item)) with 0; lia.
  - destruct l as [|it l]; inversion H; subst; cbn [pol_len]; [change (zlen (@nil item)) with 0; lia|].
    rewrite zlen_cons, (firstn_skipn_len (Z.to_nat (hd 0 sched)) l). lia.
  - destruct l as [|it0 l0]; [inversion H; subst; cbn [pol_len]; change (zlen (@nil item)) with 0; lia|].
    pose proof (removelast_last_len (it0 :: l0) ltac:(discriminate)) as Hl.
    destruct (athr <=? zlen (it0 :: l0)); inversion H; subst; cbn [pol_len tl]; change (zlen (@nil item)) with 0.
    + cbn [removelast] in Hl |- *. lia.
    + rewrite zlen_cons. lia.
Qed.

Lemma len_nonneg : forall s, pol_wf s -> 0 <= pol_len s.
Proof.
  induction s; cbn [pol_len pol_wf]; intros Hw; try apply zlen_nonneg; auto.
  - subst. apply zlen_nonneg.
  - destruct Hw as [-> _]. apply zlen_nonneg.
Qed.
