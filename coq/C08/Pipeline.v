(** C08 — the pipeline world: conservation of offered items, counters,
    in-service bound, stranding; over ALL schedules (any pending event may fire
    next, arrivals at any moment). *)
From HS Require Import Base.Prelude C08.Model C08.Policies.
Local Open Scope Z_scope.

(* ------------------------------------------------------------------ *)
(** * Pending bag *)

Definition tr_ind (x : Z) (e : pev) : Z :=
  match e with PDeliver y | PPayload y => ind x y | _ => 0 end.
Definition sv_ind (x : Z) (e : pev) : Z :=
  match e with PCont y => ind x y | _ => 0 end.

Lemma pev_eqb_eq a b : pev_eqb a b = true -> a = b.
Proof.
  destruct a, b; cbn; intros H; try discriminate; try reflexivity;
    apply Z.eqb_eq in H; now subst.
Qed.

Lemma transit_cons x e l : cnt x (transit_ids (e :: l)) = tr_ind x e + cnt x (transit_ids l).
Proof. destruct e; cbn; unfold ind; lia. Qed.

Lemma service_cons x e l : cnt x (service_ids (e :: l)) = sv_ind x e + cnt x (service_ids l).
Proof. destruct e; cbn; unfold ind; lia. Qed.

Lemma transit_app x a b : cnt x (transit_ids (a ++ b)) = cnt x (transit_ids a) + cnt x (transit_ids b).
Proof.
  induction a as [|e a IH]; [cbn; lia|].
  rewrite <- app_comm_cons, !transit_cons, IH. lia.
Qed.

Lemma service_app x a b : cnt x (service_ids (a ++ b)) = cnt x (service_ids a) + cnt x (service_ids b).
Proof.
  induction a as [|e a IH]; [cbn; lia|].
  rewrite <- app_comm_cons, !service_cons, IH. lia.
Qed.

Lemma remove_one_transit x e : forall l rest, remove_one e l = Some rest ->
  cnt x (transit_ids l) = tr_ind x e + cnt x (transit_ids rest).
Proof.
  induction l as [|f l IH]; cbn [remove_one]; intros rest H; [discriminate|].
  destruct (pev_eqb e f) eqn:E.
  - apply pev_eqb_eq in E. inversion H; subst. apply transit_cons.
  - destruct (remove_one e l) as [r'|]; [|discriminate]. inversion H; subst.
    rewrite !transit_cons, (IH _ eq_refl). lia.
Qed.

Lemma remove_one_service x e : forall l rest, remove_one e l = Some rest ->
  cnt x (service_ids l) = sv_ind x e + cnt x (service_ids rest).
Proof.
  induction l as [|f l IH]; cbn [remove_one]; intros rest H; [discriminate|].
  destruct (pev_eqb e f) eqn:E.
  - apply pev_eqb_eq in E. inversion H; subst. apply service_cons.
  - destruct (remove_one e l) as [r'|]; [|discriminate]. inversion H; subst.
    rewrite !service_cons, (IH _ eq_refl). lia.
Qed.

Lemma remove_one_in e : forall l rest, remove_one e l = Some rest -> In e l.
Proof.
  induction l as [|f l IH]; cbn [remove_one]; intros rest H; [discriminate|].
  destruct (pev_eqb e f) eqn:E.
  - apply pev_eqb_eq in E. subst. now left.
  - destruct (remove_one e l) as [r'|]; [|discriminate]. right. eauto.
Qed.

Lemma remove_one_incl e : forall l rest, remove_one e l = Some rest -> forall f, In f rest -> In f l.
Proof.
  induction l as [|g l IH]; cbn [remove_one]; intros rest H f Hf; [discriminate|].
  destruct (pev_eqb e g) eqn:E.
  - inversion H; subst. now right.
  - destruct (remove_one e l) as [r'|] eqn:Er; [|discriminate]. inversion H; subst.
    destruct Hf as [->|Hf]; [now left|right; eauto].
Qed.

(* ------------------------------------------------------------------ *)
(** * One step changes the ledger by exactly the arriving item *)

Definition arrival_ind (x : Z) (l : wlabel) : Z :=
  match l with LArrive _ it => ind x (iid it) | _ => 0 end.

Fixpoint arrivals (ls : list wlabel) : list Z :=
  match ls with
  | [] => []
  | LArrive _ it :: r => iid it :: arrivals r
  | _ :: r => arrivals r
  end.

Lemma wstep_places x w l w' out :
  wstep w l = Some (w', out) -> places w' x = places w x + arrival_ind x l.
Proof.
  unfold wstep. destruct l as [balk it|now e|n].
  - (* arrival *)
    cbn [pstep]. destruct (pol_push balk it (q (ps w))) as [q' ok] eqn:Ep.
    destruct ok; intros H; inversion H; subst; clear H; unfold places; cbn [ps q drp pend l_drop l_exp l_done l_disc arrival_ind].
    + apply (push_accept_cnt x) in Ep. rewrite Ep.
      replace (drp (ps w) =? drp (ps w) + 1) with false by (symmetry; apply Z.eqb_neq; lia).
      rewrite transit_app, service_app.
      destruct (pol_len (q (ps w)) =? 0); cbn; lia.
    + apply (push_reject_cnt x) in Ep. rewrite Ep.
      rewrite Z.eqb_refl. rewrite app_nil_r. cbn [cnt]. unfold ind. lia.
  - (* fire *)
    destruct (remove_one e (pend w)) as [rest|] eqn:Er; [|discriminate].
    pose proof (remove_one_transit x _ _ _ Er) as Ht.
    pose proof (remove_one_service x _ _ _ Er) as Hs.
    destruct e as [| |y|y|y]; cbn [pstep tr_ind sv_ind] in *.
    + intros H; inversion H; subst; clear H. unfold places; cbn [ps q pend l_drop l_exp l_done l_disc arrival_ind].
      rewrite transit_app, service_app. destruct (has_capacity (ps w)); cbn; lia.
    + destruct (pol_pop now (q (ps w))) as [[q' r] ex] eqn:Ep.
      intros H; inversion H; subst; clear H. unfold places; cbn [ps q set_q pend l_drop l_exp l_done l_disc arrival_ind].
      apply (pop_cnt x) in Ep. rewrite transit_app, service_app, cnt_app.
      destruct r; cbn; unfold ind in *; lia.
    + intros H; inversion H; subst; clear H. unfold places; cbn [ps q pend l_drop l_exp l_done l_disc arrival_ind].
      rewrite transit_app, service_app. cbn. unfold ind in *. lia.
    + destruct (kind (ps w)).
      * destruct (lim (ps w) <=? act (ps w)); cbn [existsb is_cont orb app];
          intros H; inversion H; subst; clear H; unfold places;
          cbn [ps q pend l_drop l_exp l_done l_disc arrival_ind];
          rewrite ?transit_app, ?service_app.
        -- destruct (has_capacity _); cbn; unfold ind in *; lia.
        -- cbn. unfold ind in *. lia.
      * cbn [existsb is_cont orb app];
          intros H; inversion H; subst; clear H; unfold places;
          cbn [ps q pend l_drop l_exp l_done l_disc arrival_ind];
          rewrite ?transit_app, ?service_app. cbn. unfold ind in *. lia.
      * destruct (zget y (dls (ps w)) <? now); cbn [existsb is_cont orb app];
          intros H; inversion H; subst; clear H; unfold places;
          cbn [ps q pend l_drop l_exp l_done l_disc arrival_ind];
          rewrite ?transit_app, ?service_app.
        -- destruct (has_capacity _); cbn; unfold ind in *; lia.
        -- cbn. unfold ind in *. lia.
    + intros H; inversion H; subst; clear H; unfold places;
        cbn [ps q pend l_drop l_exp l_done l_disc arrival_ind app];
        rewrite ?transit_app, ?service_app.
      destruct (has_capacity _); cbn; unfold ind in *; lia.
  - cbn [pstep]. intros H; inversion H; subst; clear H. unfold places; cbn. lia.
Qed.

Lemma wrun_places x : forall ls w w',
  wrun w ls = Some w' -> places w' x = places w x + cnt x (arrivals ls).
Proof.
  induction ls as [|l ls IH]; cbn [wrun]; intros w w' H.
  - inversion H; subst. cbn. lia.
  - destruct (wstep w l) as [[w1 out]|] eqn:E; [|discriminate].
    apply (wstep_places x) in E. rewrite (IH _ _ H), E.
    destruct l; cbn [arrivals arrival_ind cnt]; unfold ind; lia.
Qed.

Lemma places_w0 k p limit x : places (w0 k p limit) x = cnt x (pol_ids p).
Proof. unfold places, w0, ps0. cbn. lia. Qed.

(** Conservation: from an empty policy, after ANY schedule, every offered id is
    in exactly one class of the ledger, exactly once; an id that was never
    offered is nowhere. *)
Theorem conservation : forall k p limit ls w x,
  pol_ids p = [] -> wrun (w0 k p limit) ls = Some w -> NoDup (arrivals ls) ->
  (In x (arrivals ls) -> places w x = 1) /\ (~ In x (arrivals ls) -> places w x = 0).
Proof.
  intros k p limit ls w x Hp Hr Hnd.
  rewrite (wrun_places x _ _ _ Hr), places_w0, Hp. cbn [cnt].
  pose proof (cnt_nodup x _ Hnd). pose proof (cnt_in x (arrivals ls)). pose proof (cnt_nonneg x (arrivals ls)).
  split; intros Hin.
  - apply H0 in Hin. lia.
  - assert (~ 0 < cnt x (arrivals ls)) by tauto. lia.
Qed.

(* ------------------------------------------------------------------ *)
(** * Counters agree with the ledger; in-service bound *)

Lemma service_ids_app a b : service_ids (a ++ b) = service_ids a ++ service_ids b.
Proof.
  induction a as [|e a IH]; [reflexivity|].
  rewrite <- app_comm_cons. destruct e; cbn [service_ids]; rewrite IH; reflexivity.
Qed.

Lemma remove_one_service_len e : forall l rest, remove_one e l = Some rest ->
  zlen (service_ids l) = (if is_cont e then 1 else 0) + zlen (service_ids rest).
Proof.
  induction l as [|f l IH]; cbn [remove_one]; intros rest H; [discriminate|].
  destruct (pev_eqb e f) eqn:E.
  - apply pev_eqb_eq in E. inversion H; subst. destruct f; cbn [service_ids is_cont]; rewrite ?zlen_cons; lia.
  - destruct (remove_one e l) as [r'|]; [|discriminate]. inversion H; subst.
    specialize (IH _ eq_refl). destruct f; cbn [service_ids]; rewrite ?zlen_cons; lia.
Qed.

Fixpoint no_setlimit (ls : list wlabel) : Prop :=
  match ls with
  | [] => True
  | LSetLimit _ :: _ => False
  | _ :: r => no_setlimit r
  end.

(** Counter invariant. *)
Definition counted (w : world) : Prop :=
  let s := ps w in
  acc s = zlen (l_off w) - zlen (l_drop w) /\ drp s = zlen (l_drop w) /\
  fin s = zlen (l_done w) /\ rej s = zlen (l_disc w) /\
  act s = zlen (service_ids (pend w)).

Lemma wstep_counted w l w' out : wstep w l = Some (w', out) -> counted w -> counted w'.
Proof.
  unfold wstep, counted. destruct l as [balk it|now e|n].
  - cbn [pstep]. destruct (pol_push balk it (q (ps w))) as [q' ok] eqn:Ep.
    destruct ok; intros H; inversion H; subst; clear H; cbn [ps acc drp fin rej act pend l_off l_drop l_done l_disc]; intros (Ha & Hd & Hf & Hr & Hs).
    + replace (drp (ps w) =? drp (ps w) + 1) with false by (symmetry; apply Z.eqb_neq; lia).
      rewrite service_ids_app, zlen_app, !zlen_cons.
      destruct (pol_len (q (ps w)) =? 0); cbn [service_ids]; change (zlen (@nil Z)) with 0; lia.
    + rewrite Z.eqb_refl, app_nil_r, !zlen_cons. lia.
  - destruct (remove_one e (pend w)) as [rest|] eqn:Er; [|discriminate].
    pose proof (remove_one_service_len _ _ _ Er) as Hl.
    destruct e as [| |y|y|y]; cbn [pstep is_cont] in *.
    + intros H; inversion H; subst; clear H; cbn [ps acc drp fin rej act pend l_off l_drop l_done l_disc]; intros (Ha & Hd & Hf & Hr & Hs).
      rewrite service_ids_app, zlen_app. destruct (has_capacity (ps w)); cbn [service_ids]; change (zlen (@nil Z)) with 0; lia.
    + destruct (pol_pop now (q (ps w))) as [[q' r] ex] eqn:Ep.
      intros H; inversion H; subst; clear H; cbn [ps set_q acc drp fin rej act pend l_off l_drop l_done l_disc]; intros (Ha & Hd & Hf & Hr & Hs).
      rewrite service_ids_app, zlen_app. destruct r; cbn [service_ids]; change (zlen (@nil Z)) with 0; lia.
    + intros H; inversion H; subst; clear H; cbn [ps acc drp fin rej act pend l_off l_drop l_done l_disc]; intros (Ha & Hd & Hf & Hr & Hs).
      rewrite service_ids_app, zlen_app. cbn [service_ids]; change (zlen (@nil Z)) with 0; lia.
    + destruct (kind (ps w)).
      * destruct (lim (ps w) <=? act (ps w)); cbn [existsb is_cont orb app];
          intros H; inversion H; subst; clear H;
          cbn [ps acc drp fin rej act pend l_off l_drop l_done l_disc]; intros (Ha & Hd & Hf & Hr & Hs);
          rewrite ?service_ids_app, ?zlen_app, ?zlen_cons.
        -- destruct (has_capacity _); cbn [service_ids]; change (zlen (@nil Z)) with 0; lia.
        -- cbn [service_ids]. rewrite zlen_cons. change (zlen (@nil Z)) with 0; lia.
      * cbn [existsb is_cont orb app];
          intros H; inversion H; subst; clear H;
          cbn [ps acc drp fin rej act pend l_off l_drop l_done l_disc]; intros (Ha & Hd & Hf & Hr & Hs);
          rewrite ?service_ids_app, ?zlen_app, ?zlen_cons.
        cbn [service_ids]. rewrite zlen_cons. change (zlen (@nil Z)) with 0; lia.
      * destruct (zget y (dls (ps w)) <? now); cbn [existsb is_cont orb app];
          intros H; inversion H; subst; clear H;
          cbn [ps acc drp fin rej act pend l_off l_drop l_done l_disc]; intros (Ha & Hd & Hf & Hr & Hs);
          rewrite ?service_ids_app, ?zlen_app, ?zlen_cons.
        -- destruct (has_capacity _); cbn [service_ids]; change (zlen (@nil Z)) with 0; lia.
        -- cbn [service_ids]. rewrite zlen_cons. change (zlen (@nil Z)) with 0; lia.
    + intros H; inversion H; subst; clear H;
        cbn [ps acc drp fin rej act pend l_off l_drop l_done l_disc app]; intros (Ha & Hd & Hf & Hr & Hs);
        rewrite ?service_ids_app, ?zlen_app, ?zlen_cons.
      pose proof (zlen_nonneg (service_ids rest)).
      destruct (kind (ps w)); destruct (has_capacity _); cbn [service_ids]; change (zlen (@nil Z)) with 0; lia.
  - cbn [pstep]. intros H; inversion H; subst; clear H. cbn. tauto.
Qed.

Lemma counted_w0 k p limit : counted (w0 k p limit).
Proof. unfold counted, w0, ps0. cbn. repeat split; reflexivity. Qed.

Lemma wrun_counted : forall ls w w', wrun w ls = Some w' -> counted w -> counted w'.
Proof.
  induction ls as [|l ls IH]; cbn [wrun]; intros w w' H Hc.
  - now inversion H; subst.
  - destruct (wstep w l) as [[w1 out]|] eqn:E; [|discriminate].
    eapply IH; eauto. eapply wstep_counted; eauto.
Qed.

(** The guarded worker (Server + FixedConcurrency) never has more than [lim]
    items in service, whatever the schedule. *)
Definition bounded (w : world) : Prop := (0 <= lim (ps w) /\ act (ps w) <= lim (ps w)) /\ kind (ps w) = WServer.

Lemma wstep_bounded w l w' out :
  wstep w l = Some (w', out) -> (match l with LSetLimit _ => False | _ => True end) ->
  bounded w -> bounded w'.
Proof.
  unfold wstep, bounded. destruct l as [balk it|now e|n]; intros H Hl; [| |contradiction].
  - cbn [pstep] in H. destruct (pol_push balk it (q (ps w))) as [q' ok] eqn:Ep.
    destruct ok; inversion H; subst; clear H; cbn [ps act lim kind]; tauto.
  - destruct (remove_one e (pend w)) as [rest|] eqn:Er; [|discriminate].
    destruct e as [| |y|y|y]; cbn [pstep] in H.
    + inversion H; subst; cbn [ps act lim kind]; tauto.
    + destruct (pol_pop now (q (ps w))) as [[q' r] ex] eqn:Ep.
      inversion H; subst; cbn [ps set_q act lim kind]; tauto.
    + inversion H; subst; cbn [ps act lim kind]; tauto.
    + intros [Hb Hk]. rewrite Hk in H.
      destruct (lim (ps w) <=? act (ps w)) eqn:E; cbn [existsb is_cont orb app] in H;
        inversion H; subst; clear H; cbn [ps act lim kind]; split; auto; lia.
    + intros [Hb Hk]. rewrite Hk in H. inversion H; subst; clear H; cbn [ps act lim kind]; split; auto; lia.
Qed.

Lemma wrun_bounded : forall ls w w', wrun w ls = Some w' -> no_setlimit ls -> bounded w -> bounded w'.
Proof.
  induction ls as [|l ls IH]; cbn [wrun]; intros w w' H Hn Hb.
  - now inversion H; subst.
  - destruct (wstep w l) as [[w1 out]|] eqn:E; [|discriminate].
    eapply IH; eauto.
    + destruct l; cbn in Hn; tauto.
    + eapply wstep_bounded; eauto. destruct l; cbn in Hn; tauto.
Qed.

Theorem concurrency_bound : forall p limit ls w,
  0 <= limit -> no_setlimit ls -> wrun (w0 WServer p limit) ls = Some w ->
  zlen (service_ids (pend w)) <= limit /\ act (ps w) = zlen (service_ids (pend w)) /\ lim (ps w) = limit.
Proof.
  intros p limit ls w Hl Hn Hr.
  pose proof (wrun_counted _ _ _ Hr (counted_w0 _ _ _)) as (_ & _ & _ & _ & Ha).
  assert (Hb : bounded (w0 WServer p limit)) by (unfold bounded, w0, ps0; cbn; split; [lia|reflexivity]).
  pose proof (wrun_bounded _ _ _ Hr Hn Hb) as [[_ Hb'] _].
  assert (Hlim : forall ls w w', wrun w ls = Some w' -> no_setlimit ls -> lim (ps w') = lim (ps w)).
  { clear. induction ls as [|l ls IH]; cbn [wrun]; intros w w' H Hn; [now inversion H|].
    destruct (wstep w l) as [[w1 out]|] eqn:E; [|discriminate].
    assert (lim (ps w1) = lim (ps w)).
    { unfold wstep in E. destruct l as [balk it|now e|n]; [| |cbn in Hn; contradiction].
      - cbn [pstep] in E. destruct (pol_push balk it (q (ps w))) as [q' ok]. destruct ok; inversion E; reflexivity.
      - destruct (remove_one e (pend w)); [|discriminate].
        destruct e; cbn [pstep] in E.
        + inversion E; reflexivity.
        + destruct (pol_pop now (q (ps w))) as [[q' r] ex]. inversion E; reflexivity.
        + inversion E; reflexivity.
        + destruct (kind (ps w)); [destruct (lim (ps w) <=? act (ps w))| |destruct (zget x (dls (ps w)) <? now)]; cbn [existsb is_cont orb] in E; inversion E; reflexivity.
        + inversion E; reflexivity. }
    rewrite <- H0. apply IH; auto. destruct l; cbn in Hn; tauto. }
  specialize (Hlim _ _ _ Hr Hn). cbn in Hlim. lia.
Qed.

(* ------------------------------------------------------------------ *)
(** * Refuted clauses (witness schedules recorded from real Simulation runs;
      corpus/C08/pipeline.overpoll_discard.json, pipeline.strand_partial.json) *)

Definition it0 (i : Z) : item := MkItem i 0 100 0 1.

(** "Accepted work is never discarded": FALSE.  Two polls (one from the
    completion hook of the previous item, one from a pending notify) are in
    flight while the single slot is free; both dequeue; the second payload
    finds the slot taken and Server.handle_queued_event drops it. *)
Definition no_discard_statement : Prop :=
  forall limit ls w, 1 <= limit -> no_setlimit ls ->
    wrun (w0 WServer (PFifo None []) limit) ls = Some w -> l_disc w = [].

Definition overpoll_witness : list wlabel :=
  [LArrive false (it0 2); LFire 0 PNotify; LFire 0 PPoll; LFire 0 (PDeliver 2); LFire 0 (PPayload 2);
   LArrive false (it0 0); LArrive false (it0 1); LFire 10 (PCont 2); LFire 10 PNotify;
   LFire 10 PPoll; LFire 10 PPoll; LFire 10 (PDeliver 0); LFire 10 (PPayload 0);
   LFire 10 (PDeliver 1); LFire 10 (PPayload 1)].

Lemma no_discard_refuted : ~ no_discard_statement.
Proof.
  intros H. specialize (H 1 overpoll_witness).
  destruct (wrun (w0 WServer (PFifo None []) 1) overpoll_witness) as [w|] eqn:E; [|vm_compute in E; discriminate].
  specialize (H w ltac:(lia) ltac:(cbn; exact I) eq_refl).
  vm_compute in E. inversion E; subst. discriminate.
Qed.

(** "No simulated time passes while an item waits and the worker has free
    capacity": FALSE with 2 slots — two arrivals at the same instant, only the
    first notifies, one poll, one dispatch; the second waits with a slot free
    until the first completes. *)
Definition no_stranding_statement : Prop :=
  forall limit ls w, 1 <= limit -> no_setlimit ls ->
    wrun (w0 WServer (PFifo None []) limit) ls = Some w ->
    quiescent w = true -> 0 < pol_len (q (ps w)) -> lim (ps w) <= act (ps w).

Definition strand_witness : list wlabel :=
  [LArrive false (it0 0); LArrive false (it0 1); LFire 0 PNotify; LFire 0 PPoll;
   LFire 0 (PDeliver 0); LFire 0 (PPayload 0)].

Lemma no_stranding_refuted : ~ no_stranding_statement.
Proof.
  intros H. specialize (H 2 strand_witness).
  destruct (wrun (w0 WServer (PFifo None []) 2) strand_witness) as [w|] eqn:E; [|vm_compute in E; discriminate].
  specialize (H w ltac:(lia) ltac:(cbn; exact I) eq_refl).
  vm_compute in E. inversion E; subst. cbn in H. specialize (H eq_refl ltac:(lia)). lia.
Qed.

(* ------------------------------------------------------------------ *)
(** * Partial no-stranding: an item never waits with a completely idle worker *)

Definition busy_or_pending (w : world) : Prop :=
  0 < pol_len (q (ps w)) -> 1 <= act (ps w) \/ exists e, In e (pend w) /\ is_cont e = false.

Definition live_inv (w : world) : Prop :=
  pol_wf (q (ps w)) /\ 1 <= lim (ps w) /\ counted w /\ busy_or_pending w.

Lemma has_capacity_false s : has_capacity s = false -> lim s <= act s.
Proof. unfold has_capacity. intros H. apply Z.ltb_ge in H. exact H. Qed.

Lemma wstep_live w l w' out :
  wstep w l = Some (w', out) -> (match l with LSetLimit _ => False | _ => True end) ->
  live_inv w -> live_inv w'.
Proof.
  intros Hstep Hl (Hwf & Hlim & Hc & Hb).
  pose proof (wstep_counted _ _ _ _ Hstep Hc) as Hc'.
  unfold live_inv. cut (pol_wf (q (ps w')) /\ 1 <= lim (ps w') /\ busy_or_pending w'); [tauto|].
  destruct Hc as (_ & _ & _ & _ & Hact).
  pose proof (zlen_nonneg (service_ids (pend w))) as Hnn.
  unfold busy_or_pending in *. unfold wstep in Hstep.
  destruct l as [balk it|now e|n]; [| |contradiction].
  - cbn [pstep] in Hstep. destruct (pol_push balk it (q (ps w))) as [q' ok] eqn:Ep.
    pose proof (push_wf _ _ _ _ _ Hwf Ep) as Hwf'. pose proof (len_nonneg _ Hwf) as Hn.
    destruct ok; inversion Hstep; subst; clear Hstep; cbn [ps q lim act pend]; repeat split; auto.
    + intros _. destruct (pol_len (q (ps w)) =? 0) eqn:E0.
      * right. exists PNotify. split; [apply in_or_app; right; now left|reflexivity].
      * apply Z.eqb_neq in E0. destruct Hb as [Hb|[e [Hin He]]]; [lia|now left|].
        right. exists e. split; [apply in_or_app; now left|exact He].
    + apply push_reject_len in Ep. rewrite Ep, app_nil_r. exact Hb.
  - destruct (remove_one e (pend w)) as [rest|] eqn:Er; [|discriminate].
    pose proof (remove_one_service_len _ _ _ Er) as Hsl.
    pose proof (zlen_nonneg (service_ids rest)) as Hnr.
    destruct e as [| |y|y|y]; cbn [pstep is_cont] in *.
    + inversion Hstep; subst; clear Hstep; cbn [ps q lim act pend]. repeat split; auto.
      intros Hq. destruct (has_capacity (ps w)) eqn:Ecap.
      * right. exists PPoll. split; [apply in_or_app; right; now left|reflexivity].
      * apply has_capacity_false in Ecap. left. lia.
    + destruct (pol_pop now (q (ps w))) as [[q' r] ex] eqn:Ep.
      pose proof (pop_wf _ _ _ _ _ Hwf Ep) as Hwf'.
      inversion Hstep; subst; clear Hstep; cbn [ps q set_q lim act pend]. repeat split; auto.
      intros Hq. destruct r as [it|].
      * right. exists (PDeliver (iid it)). split; [apply in_or_app; right; now left|reflexivity].
      * apply pop_none_len in Ep; [lia|exact Hwf].
    + inversion Hstep; subst; clear Hstep; cbn [ps q lim act pend]. repeat split; auto.
      intros _. right. exists (PPayload y). split; [apply in_or_app; right; now left|reflexivity].
    + destruct (kind (ps w)).
      * destruct (lim (ps w) <=? act (ps w)) eqn:E; cbn [existsb is_cont orb app] in Hstep;
          inversion Hstep; subst; clear Hstep; cbn [ps q lim act pend]; repeat split; auto; intros _; left.
        -- apply Z.leb_le in E. lia.
        -- lia.
      * cbn [existsb is_cont orb app] in Hstep.
        inversion Hstep; subst; clear Hstep; cbn [ps q lim act pend]; repeat split; auto; intros _; left. lia.
      * destruct (zget y (dls (ps w)) <? now); cbn [existsb is_cont orb app] in Hstep.
        -- match type of Hstep with context [if has_capacity ?s then _ else _] => destruct (has_capacity s) eqn:Ecap end;
             inversion Hstep; subst; clear Hstep; cbn [ps q lim act pend app]; repeat split; auto; intros _.
           ++ right. exists PPoll. split; [apply in_or_app; right; now left|reflexivity].
           ++ apply has_capacity_false in Ecap. cbn [lim act] in Ecap. left. lia.
        -- inversion Hstep; subst; clear Hstep; cbn [ps q lim act pend]; repeat split; auto; intros _; left. lia.
    + match type of Hstep with context [if has_capacity ?s then _ else _] => destruct (has_capacity s) eqn:Ecap end;
        inversion Hstep; subst; clear Hstep; cbn [ps q lim act pend app]; repeat split; auto; intros _.
      * right. exists PPoll. split; [apply in_or_app; right; now left|reflexivity].
      * apply has_capacity_false in Ecap. cbn [lim act] in Ecap. left. lia.
Qed.

Lemma wrun_live : forall ls w w', wrun w ls = Some w' -> no_setlimit ls -> live_inv w -> live_inv w'.
Proof.
  induction ls as [|l ls IH]; cbn [wrun]; intros w w' H Hn Hb.
  - now inversion H; subst.
  - destruct (wstep w l) as [[w1 out]|] eqn:E; [|discriminate].
    eapply IH; eauto.
    + destruct l; cbn in Hn; tauto.
    + eapply wstep_live; eauto. destruct l; cbn in Hn; tauto.
Qed.

Lemma quiescent_no_pending w e : quiescent w = true -> In e (pend w) -> is_cont e = true.
Proof. unfold quiescent. rewrite forallb_forall. auto. Qed.

(** PARTIAL no-stranding, every policy, both worker kinds, every schedule: when
    nothing of the pipeline is pending at the current instant (only service
    completions are outstanding) and an item waits, at least one item is in
    service — so the next completion polls.  With one slot this is the full
    clause. *)
Theorem no_stranding_partial : forall k p limit ls w,
  pol_wf p -> pol_len p = 0 -> 1 <= limit -> no_setlimit ls -> wrun (w0 k p limit) ls = Some w ->
  quiescent w = true -> 0 < pol_len (q (ps w)) -> 1 <= act (ps w).
Proof.
  intros k p limit ls w Hwf Hp Hl Hn Hr Hq Hd.
  assert (H0 : live_inv (w0 k p limit)).
  { split; [exact Hwf|]. split; [exact Hl|]. split; [apply counted_w0|].
    unfold busy_or_pending, w0, ps0. cbn. lia. }
  pose proof (wrun_live _ _ _ Hr Hn H0) as (_ & _ & _ & Hb).
  destruct (Hb Hd) as [Ha|[e [Hin He]]]; [exact Ha|].
  rewrite (quiescent_no_pending _ _ Hq Hin) in He. discriminate.
Qed.

(** One slot (Server): the full no-stranding clause holds. *)
Corollary no_stranding_single_slot : forall p ls w,
  pol_wf p -> pol_len p = 0 -> no_setlimit ls -> wrun (w0 WServer p 1) ls = Some w ->
  quiescent w = true -> 0 < pol_len (q (ps w)) -> lim (ps w) <= act (ps w).
Proof.
  intros p ls w Hwf Hp Hn Hr Hq Hd.
  assert (H1 : 1 <= 1) by lia. pose proof (no_stranding_partial WServer p 1 ls w Hwf Hp H1 Hn Hr Hq Hd).
  assert (H2 : 0 <= 1) by lia. pose proof (concurrency_bound p 1 ls w H2 Hn Hr) as (_ & _ & Hlim). lia.
Qed.

(** "Work in service never exceeds the concurrency limit" for EVERY worker
    kind: FALSE for the unguarded workers (ShiftedServer increments [_active]
    without a check), by the same double poll
    (corpus/C08/pipeline.unguarded_over_dispatch.json). *)
Definition unguarded_bound_statement : Prop :=
  forall k limit ls w, 1 <= limit -> no_setlimit ls ->
    wrun (w0 k (PFifo None []) limit) ls = Some w -> act (ps w) <= lim (ps w).

Lemma unguarded_bound_refuted : ~ unguarded_bound_statement.
Proof.
  intros H. specialize (H WShift 1 overpoll_witness).
  destruct (wrun (w0 WShift (PFifo None []) 1) overpoll_witness) as [w|] eqn:E; [|vm_compute in E; discriminate].
  specialize (H w ltac:(lia) ltac:(cbn; exact I) eq_refl).
  vm_compute in E. inversion E; subst. cbn in H. lia.
Qed.

(** The partial no-stranding theorem does NOT extend to schedules that change
    the limit: an item that arrived while the capacity was 0 stays in the queue
    with an idle worker after the capacity is raised — nothing polls
    (corpus/C08/pipeline.strand_capacity_raised.json). *)
Definition capacity_change_statement : Prop :=
  forall limit ls w, 0 <= limit -> wrun (w0 WShift (PFifo None []) limit) ls = Some w ->
    quiescent w = true -> 0 < pol_len (q (ps w)) -> 1 <= lim (ps w) -> 1 <= act (ps w).

Definition raise_witness : list wlabel := [LArrive false (it0 0); LFire 0 PNotify; LSetLimit 2].

Lemma capacity_change_refuted : ~ capacity_change_statement.
Proof.
  intros H. specialize (H 0 raise_witness).
  destruct (wrun (w0 WShift (PFifo None []) 0) raise_witness) as [w|] eqn:E; [|vm_compute in E; discriminate].
  specialize (H w ltac:(lia) eq_refl).
  vm_compute in E. inversion E; subst. cbn in H. specialize (H eq_refl ltac:(lia) ltac:(lia)). lia.
Qed.

(* ------------------------------------------------------------------ *)
(** * The hypotheses of the conditional theorems are satisfiable *)

Example conservation_hyps : exists w,
  pol_ids (PFifo None []) = [] /\ wrun (w0 WServer (PFifo None []) 1) overpoll_witness = Some w /\
  NoDup (arrivals overpoll_witness) /\ places w 1 = 1 /\ l_disc w = [1].
Proof.
  eexists. split; [reflexivity|]. split; [vm_compute; reflexivity|]. split.
  - cbn. repeat constructor; cbn; intuition discriminate.
  - vm_compute. split; reflexivity.
Qed.

Example stranding_hyps : exists w,
  pol_wf (PFifo None []) /\ pol_len (PFifo None []) = 0 /\ no_setlimit strand_witness /\
  wrun (w0 WServer (PFifo None []) 2) strand_witness = Some w /\
  quiescent w = true /\ 0 < pol_len (q (ps w)) /\ act (ps w) = 1.
Proof.
  eexists. split; [exact I|]. split; [reflexivity|]. split; [cbn; exact I|].
  split; [vm_compute; reflexivity|]. vm_compute. repeat split; congruence.
Qed.
