(** C08 — theorems about the queue policies over ALL push/pop sequences:
    capacity, conservation (ledger and the policies' own statistics), and the
    order each policy defines. *)
From HS Require Import Base.Prelude C08.Model C08.Policies.
Local Open Scope Z_scope.

(* ------------------------------------------------------------------ *)
(** * Running operation sequences *)

Lemma pol_run_cons s o r :
  pol_run s (o :: r) =
  let '(s1, ob) := pol_step s o in let '(s2, obs) := pol_run s1 r in (s2, ob :: obs).
Proof. reflexivity. Qed.

(** Generic induction principle: an invariant preserved by push and pop holds
    after every operation sequence. *)
Lemma pol_run_inv (P : pol -> Prop) :
  (forall balk it s s' ok, P s -> pol_push balk it s = (s', ok) -> P s') ->
  (forall now s s' r ex, P s -> pol_pop now s = (s', r, ex) -> P s') ->
  forall ops s s' obs, P s -> pol_run s ops = (s', obs) -> P s'.
Proof.
  intros Hpush Hpop. induction ops as [|o ops IH]; intros s s' obs Hs H.
  - cbn in H. now inversion H; subst.
  - rewrite pol_run_cons in H. destruct (pol_step s o) as [s1 ob] eqn:E1.
    destruct (pol_run s1 ops) as [s2 obs2] eqn:E2. inversion H; subst.
    eapply IH; [|exact E2]. destruct o as [balk it|now]; cbn [pol_step] in E1.
    + destruct (pol_push balk it s) as [sa ok] eqn:Ep. inversion E1; subst. eauto.
    + destruct (pol_pop now s) as [[sa r] ex] eqn:Ep. inversion E1; subst. eauto.
Qed.

(* ------------------------------------------------------------------ *)
(** * Conservation: enqueued = dequeued + dropped(expired) + held, at all times *)

Theorem policy_conservation : forall ops s s' obs,
  pol_run s ops = (s', obs) ->
  n_accepted ops obs + pol_len s = n_popped ops obs + n_expired ops obs + pol_len s'.
Proof.
  induction ops as [|o ops IH]; intros s s' obs H.
  - cbn in H. inversion H; subst. cbn. lia.
  - rewrite pol_run_cons in H. destruct (pol_step s o) as [s1 ob] eqn:E1.
    destruct (pol_run s1 ops) as [s2 obs2] eqn:E2. inversion H; subst. specialize (IH _ _ _ E2).
    destruct o as [balk it|now]; cbn [pol_step] in E1.
    + destruct (pol_push balk it s) as [sa ok] eqn:Ep. inversion E1; subst.
      cbn [n_accepted n_popped n_expired].
      destruct ok; [apply push_accept_len in Ep|apply push_reject_len in Ep]; lia.
    + destruct (pol_pop now s) as [[sa r] ex] eqn:Ep. inversion E1; subst.
      cbn [n_accepted n_popped n_expired]. apply pop_len in Ep. rewrite zlen_map.
      destruct r; cbn [option_map]; lia.
Qed.

(** Every push is either accepted or refused (and the refusal is observable). *)
Lemma offered_split : forall ops s s' obs,
  pol_run s ops = (s', obs) ->
  n_accepted ops obs + n_refused ops obs = zlen (filter is_push ops).
Proof.
  induction ops as [|o ops IH]; intros s s' obs H.
  - cbn in H. inversion H; subst. reflexivity.
  - rewrite pol_run_cons in H. destruct (pol_step s o) as [s1 ob] eqn:E1.
    destruct (pol_run s1 ops) as [s2 obs2] eqn:E2. inversion H; subst. specialize (IH _ _ _ E2).
    destruct o as [balk it|now]; cbn [pol_step] in E1.
    + destruct (pol_push balk it s) as [sa ok]. inversion E1; subst.
      cbn [n_accepted n_refused filter is_push]. rewrite zlen_cons. destruct ok; lia.
    + destruct (pol_pop now s) as [[sa r] ex]. inversion E1; subst.
      cbn [n_accepted n_refused filter is_push]. exact IH.
Qed.

(** The policies' own statistics satisfy the same equation. *)
Fixpoint stats_ok (s : pol) : Prop :=
  match s with
  | PDead _ ctr h st => ds_enq st = ds_deq st + ds_exp st + zlen h /\ ctr = ds_enq st
  | PFair _ _ fl total st => fs_enq st = fs_deq st + total
  | PWfq _ _ fl total st => ws_enq st = ws_deq st + total
  | PBalk _ _ i => stats_ok i
  | PRed _ l st => rs_enq st = rs_deq st + zlen l
  | PCodel _ l _ st => cs_enq st = cs_deq st + cs_drop st + zlen l
  | PAdapt _ _ l _ st => as_enq st = as_df st + as_dl st + zlen l
  | _ => True
  end.

Lemma push_stats balk it : forall s s' ok, stats_ok s -> pol_push balk it s = (s', ok) -> stats_ok s'.
Proof.
  induction s as [cap l|cap l|cap ctr h|cap ctr h st|maxf pfc fl total st|cap pfc fl total st|thr b i IH|rcap l st|cap l sched st|athr cap l wasc st];
    cbn [pol_push stats_ok]; intros s' ok Hw H.
  - destruct (cap_full cap (zlen l)); inversion H; subst; exact I.
  - destruct (cap_full cap (zlen l)); inversion H; subst; exact I.
  - destruct (cap_full cap (zlen h)); inversion H; subst; exact I.
  - destruct (cap_full cap (zlen h)); inversion H; subst; cbn [stats_ok ds_enq ds_deq ds_exp]; rewrite ?zlen_ins; lia.
  - destruct (fl_find (iflow it) fl) as [l|].
    + destruct (cap_full pfc (zlen l)); inversion H; subst; cbn [stats_ok fs_enq fs_deq]; lia.
    + destruct (cap_full maxf (zlen fl)); [inversion H; subst; cbn [stats_ok fs_enq fs_deq]; lia|].
      destruct (cap_full pfc 0); inversion H; subst; cbn [stats_ok fs_enq fs_deq]; lia.
  - destruct (cap_full cap total); [inversion H; subst; cbn [stats_ok ws_enq ws_deq]; lia|].
    destruct (negb (wf_find (iflow it) fl));
      match type of H with (if ?c then _ else _) = _ => destruct c end; inversion H; subst;
      cbn [stats_ok ws_enq ws_deq]; lia.
  - destruct ((thr <=? pol_len i) && balk); [inversion H; subst; exact Hw|].
    destruct (pol_push balk it i) as [i' ok'] eqn:E. inversion H; subst. cbn [stats_ok]. eauto.
  - destruct (rcap <=? zlen l); [inversion H; subst; cbn [stats_ok rs_enq rs_deq]; lia|].
    destruct balk; inversion H; subst; cbn [stats_ok rs_enq rs_deq]; rewrite ?zlen_app, ?zlen_cons; change (zlen (@nil item)) with 0; lia.
  - destruct (cap_full cap (zlen l)); inversion H; subst; cbn [stats_ok cs_enq cs_deq cs_drop]; rewrite ?zlen_app, ?zlen_cons; change (zlen (@nil item)) with 0; lia.
  - destruct (cap_full cap (zlen l)); inversion H; subst; cbn [stats_ok as_enq as_df as_dl]; rewrite ?zlen_app, ?zlen_cons; change (zlen (@nil item)) with 0; lia.
Qed.

Lemma pop_stats now : forall s s' r ex, stats_ok s -> pol_pop now s = (s', r, ex) -> stats_ok s'.
Proof.
  induction s as [cap l|cap l|cap ctr h|cap ctr h st|maxf pfc fl total st|cap pfc fl total st|thr b i IH|rcap l st|cap l sched st|athr cap l wasc st];
    cbn [pol_pop stats_ok]; intros s' r ex Hw H.
  - destruct l; inversion H; subst; exact I.
  - destruct l; inversion H; subst; exact I.
  - destruct h as [|[[k o] it] h]; inversion H; subst; exact I.
  - destruct (dl_pop now h) as [[h' r'] e'] eqn:E. inversion H; subst. apply dl_pop_len in E.
    cbn [stats_ok ds_enq ds_deq ds_exp]. destruct r; lia.
  - destruct (fair_pop fl 0) as [[fl' r'] rm].
    destruct r'; inversion H; subst; cbn [stats_ok fs_enq fs_deq]; lia.
  - destruct fl as [|w0 fl0]; [inversion H; subst; exact Hw|].
    destruct (wfq_pop (2 * length (w0 :: fl0)) (w0 :: fl0) 0) as [[fl' r'] rm].
    destruct r'; inversion H; subst; cbn [stats_ok ws_enq ws_deq]; lia.
  - destruct (pol_pop now i) as [[i' r'] e'] eqn:E. inversion H; subst. cbn [stats_ok]. eauto.
  - destruct l; inversion H; subst; cbn [stats_ok rs_enq rs_deq] in *; rewrite ?zlen_cons in *; lia.
  - destruct l as [|it l]; inversion H; subst; cbn [stats_ok cs_enq cs_deq cs_drop] in *; [lia|].
    rewrite zlen_cons, (firstn_skipn_len (Z.to_nat (hd 0 sched)) l) in Hw. lia.
  - destruct l as [|it0 l0]; [inversion H; subst; exact Hw|].
    pose proof (removelast_last_len (it0 :: l0) ltac:(discriminate)) as Hl.
    destruct (athr <=? zlen (it0 :: l0)); inversion H; subst; cbn [stats_ok as_enq as_df as_dl tl] in *.
    + cbn [removelast] in Hl |- *. lia.
    + rewrite zlen_cons in Hw. lia.
Qed.

Theorem policy_stats_conservation : forall ops s s' obs,
  stats_ok s -> pol_run s ops = (s', obs) -> stats_ok s'.
Proof. intros ops. apply pol_run_inv; [apply push_stats|apply pop_stats]. Qed.

(* ------------------------------------------------------------------ *)
(** * Capacity *)

Definition le_cap (n : Z) (cap : option Z) : Prop :=
  match cap with None => True | Some c => n <= Z.max 0 c end.

Fixpoint within_cap (s : pol) : Prop :=
  match s with
  | PFifo cap l | PLifo cap l => le_cap (zlen l) cap
  | PPrio cap _ h | PDead cap _ h _ => le_cap (zlen h) cap
  | PFair maxf pfc fl _ _ => le_cap (zlen fl) maxf /\ Forall (fun p => le_cap (zlen (snd p)) pfc) fl
  | PWfq cap pfc fl total _ => le_cap total cap /\ Forall (fun w => le_cap (zlen (wf_q w)) pfc) fl
  | PBalk _ _ i => within_cap i
  | PRed cap l _ => zlen l <= Z.max 0 cap
  | PCodel cap l _ _ | PAdapt _ cap l _ _ => le_cap (zlen l) cap
  end.

Lemma cap_not_full cap n : cap_full cap n = false -> le_cap (n + 1) cap.
Proof. destruct cap as [c|]; cbn; [|auto]. intros H. apply Z.leb_gt in H. lia. Qed.

Lemma fl_append_cap f it pfc : forall fl l,
  fl_find f fl = Some l -> cap_full pfc (zlen l) = false ->
  Forall (fun p : Z * list item => le_cap (zlen (snd p)) pfc) fl ->
  Forall (fun p : Z * list item => le_cap (zlen (snd p)) pfc) (fl_append f it fl).
Proof.
  induction fl as [|[g l'] fl IH]; cbn [fl_find fl_append]; intros l Hf Hc Hall; [constructor|].
  inversion Hall as [|? ? Hh Ht]; subst. destruct (f =? g).
  - inversion Hf; subst. constructor; [|exact Ht]. cbn [snd]. rewrite zlen_app, zlen_cons.
    change (zlen (@nil item)) with 0. replace (zlen l + (1 + 0)) with (zlen l + 1) by lia. now apply cap_not_full.
  - constructor; [exact Hh|]. eauto.
Qed.

Lemma wf_append_cap f it pfc : forall fl,
  cap_full pfc (wf_qlen f fl) = false ->
  Forall (fun w => le_cap (zlen (wf_q w)) pfc) fl ->
  Forall (fun w => le_cap (zlen (wf_q w)) pfc) (wf_append f it fl).
Proof.
  induction fl as [|w fl IH]; cbn [wf_qlen wf_append]; intros Hc Hall; [constructor|].
  inversion Hall as [|? ? Hh Ht]; subst. destruct (f =? wf_id w).
  - constructor; [|exact Ht]. cbn [wf_q]. rewrite zlen_app, zlen_cons.
    change (zlen (@nil item)) with 0. replace (zlen (wf_q w) + (1 + 0)) with (zlen (wf_q w) + 1) by lia. now apply cap_not_full.
  - constructor; [exact Hh|]. eauto.
Qed.

Lemma le_cap_mono n m cap : n <= m -> le_cap m cap -> le_cap n cap.
Proof. destruct cap; cbn; [lia|auto]. Qed.

Lemma fair_pop_cap pfc : forall fl rm fl' res rm',
  fair_pop fl rm = (fl', res, rm') ->
  Forall (fun p : Z * list item => le_cap (zlen (snd p)) pfc) fl ->
  Forall (fun p : Z * list item => le_cap (zlen (snd p)) pfc) fl' /\ zlen fl' <= zlen fl.
Proof.
  induction fl as [|[g l] fl IH]; cbn [fair_pop]; intros rm fl' res rm' H Hall.
  - inversion H; subst. split; [constructor|lia].
  - inversion Hall as [|? ? Hh Ht]; subst. destruct l as [|it l].
    + destruct (IH _ _ _ _ H Ht). split; [auto|rewrite zlen_cons; lia].
    + destruct l as [|it2 l]; inversion H; subst.
      * split; [exact Ht|rewrite zlen_cons; lia].
      * split.
        -- apply Forall_app. split; [exact Ht|]. constructor; [|constructor]. cbn [snd] in *.
           eapply le_cap_mono; [|exact Hh]. rewrite !zlen_cons. lia.
        -- rewrite zlen_app, !zlen_cons. change (zlen (@nil (Z * list item))) with 0. lia.
Qed.

Lemma wfq_pop_cap pfc fuel : forall fl rm fl' res rm',
  wfq_pop fuel fl rm = (fl', res, rm') ->
  Forall (fun w => le_cap (zlen (wf_q w)) pfc) fl ->
  Forall (fun w => le_cap (zlen (wf_q w)) pfc) fl'.
Proof.
  induction fuel as [|fuel IH]; cbn [wfq_pop]; intros fl rm fl' res rm' H Hall.
  - inversion H; subst. exact Hall.
  - destruct fl as [|w r]; [inversion H; subst; constructor|].
    inversion Hall as [|? ? Hh Ht]; subst.
    destruct (wf_q w) as [|it l] eqn:Eq.
    + destruct r as [|w2 r2]; [inversion H; subst; constructor|]. eapply IH; eauto.
    + destruct (0 <? wf_cr w).
      * destruct l as [|it2 l]; [inversion H; subst; exact Ht|].
        assert (Hl : le_cap (zlen (it2 :: l)) pfc) by (eapply le_cap_mono; [|exact Hh]; rewrite !zlen_cons; lia).
        destruct (wf_cr w - 1 <=? 0); inversion H; subst.
        -- apply Forall_app. split; [exact Ht|]. constructor; [exact Hl|constructor].
        -- constructor; [exact Hl|exact Ht].
      * eapply IH; eauto. apply Forall_app. split; [exact Ht|]. constructor; [|constructor]. cbn [wf_q]. try rewrite Eq in Hh. exact Hh.
Qed.

Lemma push_cap balk it : forall s s' ok, within_cap s -> pol_push balk it s = (s', ok) -> within_cap s'.
Proof.
  induction s as [cap l|cap l|cap ctr h|cap ctr h st|maxf pfc fl total st|cap pfc fl total st|thr b i IH|rcap l st|cap l sched st|athr cap l wasc st];
    cbn [pol_push within_cap]; intros s' ok Hw H.
  - destruct (cap_full cap (zlen l)) eqn:E; inversion H; subst; cbn [within_cap]; [exact Hw|].
    rewrite zlen_app, zlen_cons. change (zlen (@nil item)) with 0. replace (zlen l + (1 + 0)) with (zlen l + 1) by lia. now apply cap_not_full.
  - destruct (cap_full cap (zlen l)) eqn:E; inversion H; subst; cbn [within_cap]; [exact Hw|].
    rewrite zlen_cons. replace (1 + zlen l) with (zlen l + 1) by lia. now apply cap_not_full.
  - destruct (cap_full cap (zlen h)) eqn:E; inversion H; subst; cbn [within_cap]; [exact Hw|].
    rewrite zlen_ins. replace (1 + zlen h) with (zlen h + 1) by lia. now apply cap_not_full.
  - destruct (cap_full cap (zlen h)) eqn:E; inversion H; subst; cbn [within_cap]; [exact Hw|].
    rewrite zlen_ins. replace (1 + zlen h) with (zlen h + 1) by lia. now apply cap_not_full.
  - destruct Hw as [Hm Hall]. destruct (fl_find (iflow it) fl) as [l|] eqn:Ef.
    + destruct (cap_full pfc (zlen l)) eqn:E; inversion H; subst; cbn [within_cap]; [auto|].
      split; [|eapply fl_append_cap; eauto].
      assert (zlen (fl_append (iflow it) it fl) = zlen fl).
      { clear. induction fl as [|[g l'] fl IH]; cbn [fl_append]; [reflexivity|].
        destruct (iflow it =? g); rewrite !zlen_cons; [reflexivity|]. now rewrite IH. }
      now rewrite H0.
    + destruct (cap_full maxf (zlen fl)) eqn:Em; [inversion H; subst; cbn [within_cap]; auto|].
      apply cap_not_full in Em.
      destruct (cap_full pfc 0) eqn:Ec; inversion H; subst; cbn [within_cap];
        (split; [rewrite zlen_app, zlen_cons; change (zlen (@nil (Z * list item))) with 0;
                 replace (zlen fl + (1 + 0)) with (zlen fl + 1) by lia; exact Em|]);
        apply Forall_app; (split; [exact Hall|]); constructor; try constructor; cbn [snd].
      * destruct pfc; cbn; [unfold zlen; cbn; lia|auto].
      * apply cap_not_full in Ec. exact Ec.
  - destruct Hw as [Hm Hall].
    destruct (cap_full cap total) eqn:E; [inversion H; subst; cbn [within_cap]; auto|].
    apply cap_not_full in E.
    set (fl1 := if negb (wf_find (iflow it) fl) then _ else fl) in *.
    assert (Hall1 : Forall (fun w => le_cap (zlen (wf_q w)) pfc) fl1).
    { subst fl1. destruct (negb (wf_find (iflow it) fl)); [|exact Hall].
      apply Forall_app. split; [exact Hall|]. constructor; [|constructor]. cbn [wf_q].
      destruct pfc; cbn; [unfold zlen; cbn; lia|auto]. }
    destruct (cap_full pfc (wf_qlen (iflow it) fl1)) eqn:Ec; inversion H; subst; cbn [within_cap].
    + auto.
    + split; [exact E|]. apply wf_append_cap; auto.
  - destruct ((thr <=? pol_len i) && balk); [inversion H; subst; exact Hw|].
    destruct (pol_push balk it i) as [i' ok'] eqn:E. inversion H; subst. cbn [within_cap]. eauto.
  - destruct (rcap <=? zlen l) eqn:E; [inversion H; subst; exact Hw|].
    destruct balk; inversion H; subst; cbn [within_cap]; [exact Hw|].
    rewrite zlen_app, zlen_cons. change (zlen (@nil item)) with 0. apply Z.leb_gt in E. lia.
  - destruct (cap_full cap (zlen l)) eqn:E; inversion H; subst; cbn [within_cap]; [exact Hw|].
    rewrite zlen_app, zlen_cons. change (zlen (@nil item)) with 0. replace (zlen l + (1 + 0)) with (zlen l + 1) by lia. now apply cap_not_full.
  - destruct (cap_full cap (zlen l)) eqn:E; inversion H; subst; cbn [within_cap]; [exact Hw|].
    rewrite zlen_app, zlen_cons. change (zlen (@nil item)) with 0. replace (zlen l + (1 + 0)) with (zlen l + 1) by lia. now apply cap_not_full.
Qed.

Lemma pop_cap now : forall s s' r ex, within_cap s -> pol_pop now s = (s', r, ex) -> within_cap s'.
Proof.
  induction s as [cap l|cap l|cap ctr h|cap ctr h st|maxf pfc fl total st|cap pfc fl total st|thr b i IH|rcap l st|cap l sched st|athr cap l wasc st];
    cbn [pol_pop within_cap]; intros s' r ex Hw H.
  - destruct l; inversion H; subst; cbn [within_cap]; [exact Hw|]. eapply le_cap_mono; [|exact Hw]. rewrite zlen_cons. lia.
  - destruct l; inversion H; subst; cbn [within_cap]; [exact Hw|]. eapply le_cap_mono; [|exact Hw]. rewrite zlen_cons. lia.
  - destruct h as [|[[k o] it] h]; inversion H; subst; cbn [within_cap]; [exact Hw|]. eapply le_cap_mono; [|exact Hw]. rewrite zlen_cons. lia.
  - destruct (dl_pop now h) as [[h' r'] e'] eqn:E. inversion H; subst. cbn [within_cap]. apply dl_pop_len in E.
    eapply le_cap_mono; [|exact Hw]. pose proof (zlen_nonneg ex). destruct r; lia.
  - destruct Hw as [Hm Hall]. destruct (fair_pop fl 0) as [[fl' r'] rm] eqn:E.
    destruct (fair_pop_cap pfc _ _ _ _ _ E Hall) as [Hall' Hlen].
    destruct r'; inversion H; subst; cbn [within_cap]; (split; [eapply le_cap_mono; eauto|exact Hall']).
  - destruct Hw as [Hm Hall].
    destruct fl as [|w0 fl0]; [inversion H; subst; cbn [within_cap]; auto|].
    destruct (wfq_pop (2 * length (w0 :: fl0)) (w0 :: fl0) 0) as [[fl' r'] rm] eqn:E.
    pose proof (wfq_pop_cap pfc _ _ _ _ _ _ E Hall) as Hall'.
    destruct r'; inversion H; subst; cbn [within_cap]; (split; [|exact Hall']); [|exact Hm].
    eapply le_cap_mono; [|exact Hm]. lia.
  - destruct (pol_pop now i) as [[i' r'] e'] eqn:E. inversion H; subst. cbn [within_cap]. eauto.
  - destruct l; inversion H; subst; cbn [within_cap] in *; [exact Hw|]. rewrite zlen_cons in Hw. lia.
  - destruct l as [|it l]; inversion H; subst; cbn [within_cap] in *; [exact Hw|].
    eapply le_cap_mono; [|exact Hw]. rewrite zlen_cons, (firstn_skipn_len (Z.to_nat (hd 0 sched)) l).
    pose proof (zlen_nonneg (firstn (Z.to_nat (hd 0 sched)) l)). lia.
  - destruct l as [|it0 l0]; [inversion H; subst; exact Hw|].
    pose proof (removelast_last_len (it0 :: l0) ltac:(discriminate)) as Hl.
    destruct (athr <=? zlen (it0 :: l0)); inversion H; subst; cbn [within_cap tl] in *; (eapply le_cap_mono; [|exact Hw]).
    + cbn [removelast] in Hl |- *. lia.
    + rewrite zlen_cons. lia.
Qed.

Theorem policy_capacity : forall ops s s' obs,
  within_cap s -> pol_run s ops = (s', obs) -> within_cap s'.
Proof. intros ops. apply pol_run_inv; [apply push_cap|apply pop_cap]. Qed.

(** Numeric reading of [within_cap] for the single-capacity policies. *)
Lemma within_cap_len : forall s, within_cap s ->
  match s with
  | PFifo cap _ | PLifo cap _ | PPrio cap _ _ | PDead cap _ _ _ | PWfq cap _ _ _ _ => le_cap (pol_len s) cap
  | _ => True
  end.
Proof. destruct s; cbn; tauto. Qed.

(** Fair queue: at most max_flows flows of at most per_flow_capacity items. *)
Lemma fids_bound c : forall fl, 0 <= c ->
  Forall (fun p : Z * list item => zlen (snd p) <= c) fl -> zlen (fids fl) <= zlen fl * c.
Proof.
  induction fl as [|[g l] fl IH]; intros Hc Hall; [cbn; lia|].
  inversion Hall as [|? ? Hh Ht]; subst. rewrite fids_cons, zlen_app, zlen_map, zlen_cons. cbn [snd] in Hh.
  specialize (IH Hc Ht). nia.
Qed.

Theorem fair_capacity : forall m c fl total st,
  within_cap (PFair (Some m) (Some c) fl total st) -> pol_wf (PFair (Some m) (Some c) fl total st) ->
  total <= Z.max 0 m * Z.max 0 c.
Proof.
  cbn. intros m c fl total st [Hm Hall] ->.
  assert (zlen (fids fl) <= zlen fl * Z.max 0 c) by (apply fids_bound; [lia|exact Hall]).
  pose proof (zlen_nonneg fl). nia.
Qed.

(* ------------------------------------------------------------------ *)
(** * FIFO order *)

Theorem fifo_order : forall ops cap l s' obs,
  pol_run (PFifo cap l) ops = (s', obs) ->
  map iid l ++ accepted_ids ops obs = popped_ids ops obs ++ pol_ids s'.
Proof.
  induction ops as [|o ops IH]; intros cap l s' obs H.
  - cbn in H. inversion H; subst. cbn. now rewrite app_nil_r.
  - rewrite pol_run_cons in H. destruct (pol_step (PFifo cap l) o) as [s1 ob] eqn:E1.
    destruct (pol_run s1 ops) as [s2 obs2] eqn:E2. inversion H; subst.
    destruct o as [balk it|now]; cbn [pol_step pol_push pol_pop] in E1.
    + destruct (cap_full cap (zlen l)); inversion E1; subst; cbn [accepted_ids popped_ids].
      * eauto.
      * rewrite <- (IH _ _ _ _ E2). rewrite map_app, <- app_assoc. reflexivity.
    + destruct l as [|it l]; inversion E1; subst; cbn [accepted_ids popped_ids option_map].
      * eauto.
      * cbn [map app]. f_equal. eauto.
Qed.

(* ------------------------------------------------------------------ *)
(** * LIFO order: every pop returns the most recently accepted item not yet popped *)

Fixpoint lifo_ok (ops : list pop_op) (obs : list pobs) (stack : list Z) : Prop :=
  match ops, obs with
  | [], [] => True
  | OPush _ it :: r, (ok, _, _) :: r' => lifo_ok r r' (if ok then iid it :: stack else stack)
  | OPop _ :: r, (_, res, _) :: r' => res = hd_error stack /\ lifo_ok r r' (tl stack)
  | _, _ => False
  end.

Theorem lifo_order : forall ops cap l s' obs,
  pol_run (PLifo cap l) ops = (s', obs) -> lifo_ok ops obs (map iid l).
Proof.
  induction ops as [|o ops IH]; intros cap l s' obs H.
  - cbn in H. inversion H; subst. exact I.
  - rewrite pol_run_cons in H. destruct (pol_step (PLifo cap l) o) as [s1 ob] eqn:E1.
    destruct (pol_run s1 ops) as [s2 obs2] eqn:E2. inversion H; subst.
    destruct o as [balk it|now]; cbn [pol_step pol_push pol_pop] in E1.
    + destruct (cap_full cap (zlen l)); inversion E1; subst; cbn [lifo_ok]; [eauto|].
      change (iid it :: map iid l) with (map iid (it :: l)). eauto.
    + destruct l as [|it l]; inversion E1; subst; cbn [lifo_ok option_map map hd_error tl]; split; eauto.
      change (@nil Z) with (map iid []). eauto.
Qed.

(* ------------------------------------------------------------------ *)
(** * Priority and deadline order *)

Definition ekey (e : entry) : Z := fst (fst e).
Definition eord (e : entry) : Z := snd (fst e).

(** (key, order) of [a] strictly below (key, order) of [b]. *)
Definition elt (a b : entry) : Prop :=
  ekey a < ekey b \/ (ekey a = ekey b /\ eord a < eord b).

Fixpoint sorted (h : list entry) : Prop :=
  match h with [] => True | e :: r => Forall (elt e) r /\ sorted r end.

Lemma entry_ltb_spec k o it e : entry_ltb k o e = true <-> elt (k, o, it) e.
Proof.
  destruct e as [[k' o'] it']. unfold entry_ltb, elt, ekey, eord. cbn.
  rewrite orb_true_iff, andb_true_iff, !Z.ltb_lt, Z.eqb_eq. tauto.
Qed.

Lemma elt_trans a b c : elt a b -> elt b c -> elt a c.
Proof. unfold elt. lia. Qed.

Lemma Forall_ins (P : entry -> Prop) k o it : forall h, P (k, o, it) -> Forall P h -> Forall P (ins k o it h).
Proof.
  induction h as [|e h IH]; cbn [ins]; intros Hn Hall; [constructor; auto|].
  destruct (entry_ltb k o e); [constructor; auto|].
  inversion Hall; subst. constructor; auto.
Qed.

Lemma ins_sorted k o it : forall h,
  sorted h -> Forall (fun e => eord e < o) h -> sorted (ins k o it h).
Proof.
  induction h as [|e h IH]; cbn [ins sorted]; intros Hs Hf; [split; [constructor|exact I]|].
  destruct Hs as [He Hs]. inversion Hf as [|? ? Ho Hf']; subst.
  destruct (entry_ltb k o e) eqn:E.
  - apply (entry_ltb_spec k o it) in E. cbn [sorted]. split; [|split; assumption].
    constructor; [exact E|]. eapply Forall_impl; [|exact He]. intros x Hx. eapply elt_trans; eauto.
  - cbn [sorted]. split; [|apply IH; assumption].
    apply Forall_ins; [|exact He].
    assert (Hn : ~ elt (k, o, it) e) by (rewrite <- entry_ltb_spec; congruence).
    unfold elt, ekey, eord in *. cbn [fst snd] in *. lia.
Qed.

(** Invariant of the heap policies: sorted by (key, insertion number), every
    insertion number below the counter (so a later push sorts after every held
    entry of the same key: stable), keys are the items' keys. *)
Definition heap_inv (keyf : item -> Z) (ctr : Z) (h : list entry) : Prop :=
  sorted h /\ Forall (fun e => eord e < ctr /\ ekey e = keyf (snd e)) h.

Lemma heap_inv_ins keyf ctr h it :
  heap_inv keyf ctr h -> heap_inv keyf (ctr + 1) (ins (keyf it) ctr it h).
Proof.
  intros [Hs Hf]. split.
  - apply ins_sorted; [exact Hs|]. eapply Forall_impl; [|exact Hf]. cbn. tauto.
  - apply Forall_ins; [cbn; lia|]. eapply Forall_impl; [|exact Hf]. cbn. intros e [? ?]. split; [lia|auto].
Qed.

Lemma heap_inv_tl keyf ctr e h : heap_inv keyf ctr (e :: h) -> heap_inv keyf ctr h.
Proof. intros [[_ Hs] Hf]. inversion Hf; subst. split; assumption. Qed.

Definition prio_inv (s : pol) : Prop :=
  match s with PPrio _ ctr h => heap_inv iprio ctr h | PDead _ ctr h _ => heap_inv idl ctr h | _ => True end.

Lemma dl_pop_sorted keyf ctr now : forall h h' r ex,
  dl_pop now h = (h', r, ex) -> heap_inv keyf ctr h -> heap_inv keyf ctr h'.
Proof.
  induction h as [|[[k o] it] h IH]; cbn [dl_pop]; intros h' r ex H Hi.
  - inversion H; subst. exact Hi.
  - apply heap_inv_tl in Hi. destruct (k <? now).
    + destruct (dl_pop now h) as [[h1 r1] e1] eqn:E. inversion H; subst. eauto.
    + inversion H; subst. exact Hi.
Qed.

Theorem heap_order_inv : forall ops s s' obs,
  prio_inv s -> pol_run s ops = (s', obs) -> prio_inv s'.
Proof.
  intros ops. apply pol_run_inv.
  - intros balk it s s' ok Hs H. destruct s; cbn [pol_push] in H; try (destruct s'; exact I).
    + destruct (cap_full cap (zlen l)); inversion H; subst; exact I.
    + destruct (cap_full cap (zlen l)); inversion H; subst; exact I.
    + destruct (cap_full cap (zlen h)); inversion H; subst; cbn [prio_inv] in *; [exact Hs|]. now apply heap_inv_ins.
    + destruct (cap_full cap (zlen h)); inversion H; subst; cbn [prio_inv] in *; [exact Hs|]. now apply heap_inv_ins.
    + destruct (fl_find (iflow it) fl) as [l|];
        [destruct (cap_full pfc (zlen l))|destruct (cap_full maxf (zlen fl)); [|destruct (cap_full pfc 0)]];
        inversion H; subst; exact I.
    + destruct (cap_full cap total); [inversion H; subst; exact I|].
      match type of H with (if ?c then _ else _) = _ => destruct c end; inversion H; subst; exact I.
    + destruct ((thr <=? pol_len s) && balk); [inversion H; subst; exact I|].
      destruct (pol_push balk it s); inversion H; subst; exact I.
    + destruct (cap <=? zlen l); [inversion H; subst; exact I|]. destruct balk; inversion H; subst; exact I.
    + destruct (cap_full cap (zlen l)); inversion H; subst; exact I.
    + destruct (cap_full cap (zlen l)); inversion H; subst; exact I.
  - intros now s s' r ex Hs H. destruct s; cbn [pol_pop] in H.
    + destruct l; inversion H; subst; exact I.
    + destruct l; inversion H; subst; exact I.
    + destruct h as [|[[k o] it] h]; inversion H; subst; cbn [prio_inv] in *; [exact Hs|]. eapply heap_inv_tl; eauto.
    + destruct (dl_pop now h) as [[h' r'] e'] eqn:E. inversion H; subst. cbn [prio_inv] in *. eapply dl_pop_sorted; eauto.
    + destruct (fair_pop fl 0) as [[fl' r'] rm]. destruct r'; inversion H; subst; exact I.
    + destruct fl as [|w0 fl0]; [inversion H; subst; exact I|].
      destruct (wfq_pop (2 * length (w0 :: fl0)) (w0 :: fl0) 0) as [[fl' r'] rm].
      destruct r'; inversion H; subst; exact I.
    + destruct (pol_pop now s) as [[i' r'] e']. inversion H; subst; exact I.
    + destruct l; inversion H; subst; exact I.
    + destruct l; inversion H; subst; exact I.
    + destruct l as [|it0 l0]; [inversion H; subst; exact I|]. destruct (thr <=? zlen (it0 :: l0)); inversion H; subst; exact I.
Qed.

(** PriorityQueue: pop returns the held item with the least (priority,
    insertion number); equal priorities leave in insertion order. *)
Theorem priority_order : forall ops cap ctr h obs now it s2 ex,
  pol_run (PPrio cap 0 []) ops = (PPrio cap ctr h, obs) ->
  pol_pop now (PPrio cap ctr h) = (s2, Some it, ex) ->
  exists o h', h = (iprio it, o, it) :: h' /\ s2 = PPrio cap ctr h' /\ ex = [] /\
    Forall (fun e => iprio it < iprio (snd e) \/ (iprio it = iprio (snd e) /\ o < eord e)) h'.
Proof.
  intros ops cap ctr h obs now it s2 ex Hr Hp.
  assert (Hi : prio_inv (PPrio cap ctr h)).
  { eapply heap_order_inv; [|exact Hr]. cbn. split; [exact I|constructor]. }
  cbn [prio_inv] in Hi. cbn [pol_pop] in Hp.
  destruct h as [|[[k o] it'] h']; inversion Hp; subst.
  destruct Hi as [[Hlt _] Hf]. inversion Hf as [|? ? [_ Hk] Hf']; subst. cbn in Hk. subst k.
  exists o, h'. repeat split; auto.
  rewrite Forall_forall in *. intros e He. specialize (Hlt e He). specialize (Hf' e He).
  destruct Hf' as [_ Hke]. unfold elt, ekey, eord in *. cbn [fst snd] in *. lia.
Qed.

(** DeadlineQueue: a pop at clock [now] drops exactly the held items whose
    deadline is before [now] that precede the result, returns the unexpired
    item with the least (deadline, insertion number); nothing unexpired is
    dropped and nothing expired is returned. *)
Lemma dl_pop_spec keyf ctr now : forall h h' r ex,
  heap_inv keyf ctr h -> dl_pop now h = (h', r, ex) ->
  Forall (fun it => keyf it < now) ex /\
  match r with
  | Some it => now <= keyf it /\ exists o, Forall (elt (keyf it, o, it)) h'
  | None => h' = []
  end.
Proof.
  induction h as [|[[k o] it] h IH]; cbn [dl_pop]; intros h' r ex Hi H.
  - inversion H; subst. split; [constructor|reflexivity].
  - pose proof Hi as [[Hlt _] Hf]. inversion Hf as [|? ? [_ Hk] _]; subst. cbn in Hk. subst k.
    apply heap_inv_tl in Hi. destruct (keyf it <? now) eqn:E.
    + destruct (dl_pop now h) as [[h1 r1] e1] eqn:E1. inversion H; subst.
      destruct (IH _ _ _ Hi eq_refl) as [Hex Hr]. split; [|exact Hr].
      constructor; [apply Z.ltb_lt in E; exact E|exact Hex].
    + inversion H; subst. split; [constructor|]. split; [apply Z.ltb_ge in E; exact E|].
      exists o. exact Hlt.
Qed.

Theorem deadline_order : forall ops cap ctr h st obs now s2 r ex,
  pol_run (PDead cap 0 [] ds0) ops = (PDead cap ctr h st, obs) ->
  pol_pop now (PDead cap ctr h st) = (s2, r, ex) ->
  Forall (fun it => idl it < now) ex /\
  match r with
  | Some it => now <= idl it /\
      exists o h' st', s2 = PDead cap ctr h' st' /\
        Forall (fun e => idl it < idl (snd e) \/ (idl it = idl (snd e) /\ o < eord e)) h'
  | None => pol_len s2 = 0
  end.
Proof.
  intros ops cap ctr h st obs now s2 r ex Hr Hp.
  assert (Hi : prio_inv (PDead cap ctr h st)).
  { eapply heap_order_inv; [|exact Hr]. cbn. split; [exact I|constructor]. }
  cbn [prio_inv] in Hi. cbn [pol_pop] in Hp.
  destruct (dl_pop now h) as [[h' r'] e'] eqn:E. inversion Hp; subst.
  pose proof (dl_pop_sorted _ _ _ _ _ _ _ E Hi) as [_ Hf'].
  destruct (dl_pop_spec _ _ _ _ _ _ _ Hi E) as [Hex Hres]. split; [exact Hex|].
  destruct r as [it|].
  - destruct Hres as [Hn [o Hlt]]. split; [exact Hn|]. eexists o, h', _. split; [reflexivity|].
    rewrite Forall_forall in *. intros e He. specialize (Hlt e He). destruct (Hf' e He) as [_ Hke].
    unfold elt, ekey, eord in *. cbn [fst snd] in *. lia.
  - subst h'. reflexivity.
Qed.

(* ------------------------------------------------------------------ *)
(** * Fair share: round robin over flows *)

(** A pop serves the first flow that has items, takes its oldest item, moves
    the flow behind all others (or removes it when emptied); the relative
    order of the other flows is unchanged. *)
Theorem fair_round_robin : forall fl rm fl' it rm',
  fair_pop fl rm = (fl', Some it, rm') ->
  exists pre g l post,
    fl = pre ++ (g, it :: l) :: post /\ Forall (fun p => snd p = []) pre /\
    fl' = post ++ (match l with [] => [] | _ => [(g, l)] end).
Proof.
  induction fl as [|[g l] fl IH]; cbn [fair_pop]; intros rm fl' it rm' H; [discriminate|].
  destruct l as [|it1 l].
  - destruct (IH _ _ _ _ H) as (pre & g' & l' & post & -> & Hpre & ->).
    exists ((g, []) :: pre), g', l', post. repeat split; auto.
  - destruct l as [|it2 l]; inversion H; subst.
    + exists [], g, []. eexists. split; [reflexivity|]. split; [constructor|now rewrite app_nil_r].
    + exists [], g, (it2 :: l). eexists. split; [reflexivity|]. split; [constructor|reflexivity].
Qed.

(** Items of one flow leave in arrival order (each flow is a FIFO deque): an
    accepted push appends at the end of its flow. *)
Lemma fl_append_tail f it : forall fl l, fl_find f fl = Some l -> fl_find f (fl_append f it fl) = Some (l ++ [it]).
Proof.
  induction fl as [|[g l'] fl IH]; cbn [fl_find fl_append]; intros l H; [discriminate|].
  destruct (f =? g) eqn:E; cbn [fl_find]; rewrite E; [inversion H; subst; reflexivity|eauto].
Qed.

(* ------------------------------------------------------------------ *)
(** * The hypotheses of the conditional theorems are satisfiable *)

Definition ex_item (i p d f : Z) : item := MkItem i p d f 1.

Example priority_order_hyps :
  let ops := [OPush false (ex_item 0 2 0 0); OPush false (ex_item 1 1 0 0); OPush false (ex_item 2 1 0 0)] in
  exists ctr h obs s2, pol_run (PPrio None 0 []) ops = (PPrio None ctr h, obs) /\
    pol_pop 0 (PPrio None ctr h) = (s2, Some (ex_item 1 1 0 0), []).
Proof. cbv zeta. do 4 eexists. split; vm_compute; reflexivity. Qed.

Example deadline_order_hyps :
  let ops := [OPush false (ex_item 0 0 5 0); OPush false (ex_item 1 0 20 0); OPush false (ex_item 2 0 9 0)] in
  exists ctr h st obs s2, pol_run (PDead None 0 [] ds0) ops = (PDead None ctr h st, obs) /\
    pol_pop 7 (PDead None ctr h st) = (s2, Some (ex_item 2 0 9 0), [ex_item 0 0 5 0]).
Proof. cbv zeta. do 5 eexists. split; vm_compute; reflexivity. Qed.

Example capacity_hyps : within_cap (PFair (Some 2) (Some 1) [] 0 fs0) /\ within_cap (PWfq (Some 3) None [] 0 ws0)
  /\ within_cap (PBalk 1 0 (PFifo (Some 2) [])) /\ stats_ok (PDead None 0 [] ds0) /\ stats_ok (PCodel None [] [1; 0] cs0).
Proof. cbn. repeat split; try constructor; try (unfold zlen; cbn; lia). Qed.

Example fair_round_robin_hyps :
  fair_pop [(0, []); (1, [ex_item 5 0 0 1; ex_item 6 0 0 1]); (2, [ex_item 7 0 0 2])] 0
  = ([(2, [ex_item 7 0 0 2]); (1, [ex_item 6 0 0 1])], Some (ex_item 5 0 0 1), 1).
Proof. reflexivity. Qed.
