(** C08 — DeadlineQueue, tied to the code: [push] and [pop] (which drains the
    expired entries: a [while heap: entry = heappop(heap)] loop with [continue]
    and [return]) of components/queue_policies/deadline_queue.py, as REGENERATED
    on every run ([Gen/DeadlineGen.v], py2coq), are the model's [PDead] policy:
    same heap, same counters (enqueued, dequeued, expired, rejected), same result.
    [_get_deadline(item)] is the item's deadline, [_now()] the clock reading. *)
From HS Require Import Base.Prelude Base.PyLib C08.Model C08.Policies C08.PolicyThms Gen.DeadlineGen.
Local Open Scope Z_scope.

Definition denc (e : entry) : _DeadlineEntry := mk_DeadlineEntry (ekey e) (eord e) (iid (snd e)) (ekey e).

Definition dq_obj (cap : option Z) (ctr : Z) (h : list entry) (st : dstats) : DeadlineQueue :=
  mkDeadlineQueue cap (map denc h) ctr (ds_enq st) (ds_deq st) (ds_exp st) (ds_rej st).

Lemma tie_dentry_lt k o it e : _DeadlineEntry___lt__ (denc (k, o, it)) (denc e) = entry_ltb k o e.
Proof.
  destruct e as [[k' o'] it']. unfold _DeadlineEntry___lt__, denc, entry_ltb, ekey, eord. cbn.
  destruct (k <? k') eqn:?, (k =? k') eqn:?, (o <? o') eqn:?, (o =? o') eqn:?; cbn; try reflexivity; lia.
Qed.

Lemma tie_dheappush k o it h :
  py_heappush _DeadlineEntry___lt__ (map denc h) (denc (k, o, it)) = map denc (ins k o it h).
Proof.
  induction h as [|e h IH]; cbn [map py_heappush ins]; [reflexivity|].
  rewrite tie_dentry_lt. destruct (entry_ltb k o e); cbn [map]; [reflexivity|]. now rewrite IH.
Qed.

Lemma tie_dq_push cap ctr h st it balk :
  let '(s', ok) := pol_push balk it (PDead cap ctr h st) in
  exists ctr' h' st', s' = PDead cap ctr' h' st' /\
  DeadlineQueue_push (dq_obj cap ctr h st) (iid it) (idl it) = (dq_obj cap ctr' h' st', ok).
Proof.
  cbn [pol_push]. unfold DeadlineQueue_push, dq_obj. cbn [DeadlineQueue__capacity DeadlineQueue__heap].
  change py_cap_le with cap_full. rewrite map_length. fold (zlen h).
  destruct (cap_full cap (zlen h)); do 3 eexists; (split; [reflexivity|]).
  - reflexivity.
  - cbn. change (mk_DeadlineEntry (idl it) ctr (iid it) (idl it)) with (denc (idl it, ctr, it)).
    now rewrite tie_dheappush.
Qed.

Lemma tie_dq_pop cap ctr h st t :
  let '(s', r, ex) := pol_pop t (PDead cap ctr h st) in
  exists h' st', s' = PDead cap ctr h' st' /\
  DeadlineQueue_pop (dq_obj cap ctr h st) (Some t) = (dq_obj cap ctr h' st', option_map iid r).
Proof.
  cbn [pol_pop]. unfold DeadlineQueue_pop. cbn zeta.
  match goal with |- context [fold_left ?F _ _] => set (F0 := F) end.
  assert (HB : forall l q r, fold_left F0 l (q, r, true) = (q, r, true)).
  { induction l as [|x l IH]; intros q r; cbn [fold_left]; [reflexivity|]. apply IH. }
  assert (HL : forall l enq deq exp rej,
    fold_left F0 (map denc l) (mkDeadlineQueue cap (map denc l) ctr enq deq exp rej, None, false)
    = let '(h', res, ex) := dl_pop t l in
      (mkDeadlineQueue cap (map denc h') ctr enq (deq + match res with Some _ => 1 | None => 0 end) (exp + zlen ex) rej,
       option_map (fun it => Some (iid it)) res, match res with Some _ => true | None => false end)).
  { induction l as [|[[k o] it] l IH]; intros enq deq exp rej; cbn [map fold_left dl_pop].
    - cbn. now rewrite !Z.add_0_r.
    - unfold F0 at 2. cbn. destruct (k <? t) eqn:E.
      + unfold set_DeadlineQueue__expired, set_DeadlineQueue__heap. cbn. rewrite IH.
        destruct (dl_pop t l) as [[h' res] ex]. rewrite zlen_cons. f_equal. f_equal. f_equal. lia.
      + unfold set_DeadlineQueue__dequeued, set_DeadlineQueue__heap. cbn. rewrite HB. cbn. now rewrite Z.add_0_r. }
  unfold dq_obj at 1. cbn [DeadlineQueue__heap]. unfold dq_obj at 1. rewrite HL.
  destruct (dl_pop t h) as [[h' res] ex]. do 2 eexists. split; [reflexivity|].
  unfold dq_obj. cbn. destruct res; reflexivity.
Qed.

Lemma tie_dq_reads cap ctr h st :
  DeadlineQueue___len__ (dq_obj cap ctr h st) = pol_len (PDead cap ctr h st)
  /\ DeadlineQueue_is_empty (dq_obj cap ctr h st) = (pol_len (PDead cap ctr h st) =? 0).
Proof. unfold DeadlineQueue___len__, DeadlineQueue_is_empty, dq_obj. cbn. rewrite map_length. split; reflexivity. Qed.
