(** C08 — executable models of the self-contained industrial components
    (definitions only):
      industrial/pooled_cycle.py   PooledCycleResource
      industrial/gate_controller.py GateController
      industrial/conveyor.py       ConveyorBelt
      industrial/batch_processor.py BatchProcessor
    Each is a step function per handler invocation plus a world with the bag
    of the component's own pending events (any of them may fire next). Items
    are identified by the harness tag carried in the event context. *)
From HS Require Import Base.Prelude C08.Model.
Local Open Scope Z_scope.

(* ------------------------------------------------------------------ *)
(** * PooledCycleResource *)

Record pcs := MkPC {
  pc_cap : Z;          (* queue_capacity, 0 = unlimited *)
  pc_avail : Z;        (* _available *)
  pc_act : Z;          (* _active *)
  pc_q : list Z;       (* _queue *)
  pc_done : Z;         (* _completed *)
  pc_rej : Z;          (* _rejected *)
}.

Inductive pcev :=
| CCont (x : Z)        (* continuation of _start_cycle for x *)
| CRetry (x : Z).      (* dequeued item re-emitted to the resource itself *)

Definition pcev_eqb (a b : pcev) : bool :=
  match a, b with
  | CCont x, CCont y | CRetry x, CRetry y => x =? y
  | _, _ => false
  end.

(** handle_event(x): a fresh arrival and a re-emitted item take the same path. *)
Definition pc_arrive (s : pcs) (x : Z) : pcs * list pcev :=
  if 0 <? pc_avail s then
    (MkPC (pc_cap s) (pc_avail s - 1) (pc_act s + 1) (pc_q s) (pc_done s) (pc_rej s), [CCont x])
  else if (0 <? pc_cap s) && (pc_cap s <=? zlen (pc_q s)) then
    (MkPC (pc_cap s) (pc_avail s) (pc_act s) (pc_q s) (pc_done s) (pc_rej s + 1), [])
  else
    (MkPC (pc_cap s) (pc_avail s) (pc_act s) (pc_q s ++ [x]) (pc_done s) (pc_rej s), []).

(** _start_cycle after the yield. *)
Definition pc_resume (s : pcs) : pcs * list pcev :=
  let av := pc_avail s + 1 in
  match pc_q s with
  | y :: r =>
      if 0 <? av
      then (MkPC (pc_cap s) av (pc_act s - 1) r (pc_done s + 1) (pc_rej s), [CRetry y])
      else (MkPC (pc_cap s) av (pc_act s - 1) (pc_q s) (pc_done s + 1) (pc_rej s), [])
  | [] => (MkPC (pc_cap s) av (pc_act s - 1) [] (pc_done s + 1) (pc_rej s), [])
  end.

Record pcw := MkPW {
  pw_s : pcs;
  pw_pend : list pcev;
  pw_rej : list Z;       (* rejected and counted *)
  pw_done : list Z;      (* completed *)
}.

Inductive pclabel :=
| CArrive (x : Z)
| CFire (e : pcev).

Fixpoint pc_remove (e : pcev) (l : list pcev) : option (list pcev) :=
  match l with
  | [] => None
  | f :: r => if pcev_eqb e f then Some r
              else match pc_remove e r with Some r' => Some (f :: r') | None => None end
  end.

Definition pc_rejected (s s' : pcs) : bool := pc_rej s' =? pc_rej s + 1.

Definition pcw_step (w : pcw) (l : pclabel) : option (pcw * list pcev) :=
  match l with
  | CArrive x =>
      let '(s', out) := pc_arrive (pw_s w) x in
      Some (MkPW s' (pw_pend w ++ out)
              (if pc_rejected (pw_s w) s' then x :: pw_rej w else pw_rej w) (pw_done w), out)
  | CFire e =>
      match pc_remove e (pw_pend w) with
      | None => None
      | Some rest =>
          match e with
          | CRetry x =>
              let '(s', out) := pc_arrive (pw_s w) x in
              Some (MkPW s' (rest ++ out)
                      (if pc_rejected (pw_s w) s' then x :: pw_rej w else pw_rej w) (pw_done w), out)
          | CCont x =>
              let '(s', out) := pc_resume (pw_s w) in
              Some (MkPW s' (rest ++ out) (pw_rej w) (x :: pw_done w), out)
          end
      end
  end.

Fixpoint pcw_run (w : pcw) (ls : list pclabel) : option pcw :=
  match ls with
  | [] => Some w
  | l :: r => match pcw_step w l with Some (w', _) => pcw_run w' r | None => None end
  end.

Definition pcw0 (size cap : Z) : pcw := MkPW (MkPC cap size 0 [] 0 0) [] [] [].

Fixpoint pc_service (l : list pcev) : list Z :=
  match l with [] => [] | CCont x :: r => x :: pc_service r | _ :: r => pc_service r end.
Fixpoint pc_retry (l : list pcev) : list Z :=
  match l with [] => [] | CRetry x :: r => x :: pc_retry r | _ :: r => pc_retry r end.

Definition pc_places (w : pcw) (x : Z) : Z :=
  cnt x (pw_rej w) + cnt x (pc_q (pw_s w)) + cnt x (pc_retry (pw_pend w))
  + cnt x (pc_service (pw_pend w)) + cnt x (pw_done w).

Fixpoint pc_arrivals (ls : list pclabel) : list Z :=
  match ls with [] => [] | CArrive x :: r => x :: pc_arrivals r | _ :: r => pc_arrivals r end.

(** snapshot: available, active, completed, rejected, queue *)
Definition pc_snap (s : pcs) : list Z * list Z :=
  ([pc_avail s; pc_act s; pc_done s; pc_rej s], pc_q s).

Definition pcevl_eqb := list_eqb pcev_eqb.

Fixpoint ok_pc_from (w : pcw) (tr : list (pclabel * list pcev * (list Z * list Z))) : bool :=
  match tr with
  | [] => true
  | (l, out, (cs, qs)) :: r =>
      match pcw_step w l with
      | None => false
      | Some (w', out') =>
          pcevl_eqb out out' && zl_eqb cs (fst (pc_snap (pw_s w'))) && zl_eqb qs (snd (pc_snap (pw_s w')))
          && ok_pc_from w' r
      end
  end.

(* ------------------------------------------------------------------ *)
(** * GateController *)

Record gts := MkGT {
  g_cap : Z;            (* queue_capacity, 0 = unlimited *)
  g_open : bool;
  g_q : list Z;
  g_passed : Z;
  g_queued : Z;         (* _queued_while_closed *)
  g_rej : Z;
  g_cycles : Z;
}.

Inductive gin := GArr (x : Z) | GOpen | GClose.

(** Returns the ids forwarded downstream, in order. *)
Definition g_step (s : gts) (i : gin) : gts * list Z :=
  match i with
  | GArr x =>
      if g_open s then
        (MkGT (g_cap s) true (g_q s) (g_passed s + 1) (g_queued s) (g_rej s) (g_cycles s), [x])
      else if (0 <? g_cap s) && (g_cap s <=? zlen (g_q s)) then
        (MkGT (g_cap s) false (g_q s) (g_passed s) (g_queued s) (g_rej s + 1) (g_cycles s), [])
      else
        (MkGT (g_cap s) false (g_q s ++ [x]) (g_passed s) (g_queued s + 1) (g_rej s) (g_cycles s), [])
  | GOpen =>
      if g_open s then (s, [])
      else (MkGT (g_cap s) true [] (g_passed s + zlen (g_q s)) (g_queued s) (g_rej s) (g_cycles s + 1), g_q s)
  | GClose =>
      if g_open s then (MkGT (g_cap s) false (g_q s) (g_passed s) (g_queued s) (g_rej s) (g_cycles s), [])
      else (s, [])
  end.

(** Run with ledger: forwarded ids (in order), rejected ids, and the arrivals
    that were not rejected (in arrival order). *)
Definition g_rejected (s s1 : gts) : bool := g_rej s1 =? g_rej s + 1.

Fixpoint g_run (s : gts) (ins : list gin) : gts * list Z * list Z * list Z :=
  match ins with
  | [] => (s, [], [], [])
  | i :: r =>
      let '(s1, out) := g_step s i in
      let '(s2, outs, rejs, accs) := g_run s1 r in
      match i with
      | GArr x => if g_rejected s s1 then (s2, out ++ outs, x :: rejs, accs)
                  else (s2, out ++ outs, rejs, x :: accs)
      | _ => (s2, out ++ outs, rejs, accs)
      end
  end.

Fixpoint g_arrivals (ins : list gin) : list Z :=
  match ins with [] => [] | GArr x :: r => x :: g_arrivals r | _ :: r => g_arrivals r end.

Definition g0 (cap : Z) (opened : bool) : gts := MkGT cap opened [] 0 0 0 0.

Definition g_snap (s : gts) : list Z * list Z :=
  ([if g_open s then 1 else 0; g_passed s; g_queued s; g_rej s; g_cycles s], g_q s).

Fixpoint ok_gate_from (s : gts) (tr : list (gin * list Z * (list Z * list Z))) : bool :=
  match tr with
  | [] => true
  | (i, out, (cs, qs)) :: r =>
      let '(s', out') := g_step s i in
      zl_eqb out out' && zl_eqb cs (fst (g_snap s')) && zl_eqb qs (snd (g_snap s')) && ok_gate_from s' r
  end.

(* ------------------------------------------------------------------ *)
(** * ConveyorBelt *)

Record cvs := MkCV { cv_cap : Z; cv_transit : Z; cv_done : Z; cv_rej : Z }.

Inductive cvin := VArr (x : Z) | VRes (x : Z).

(** Output: [inl x] = continuation scheduled for x, [inr x] = x forwarded. *)
Definition cv_step (s : cvs) (i : cvin) : cvs * list (Z + Z) :=
  match i with
  | VArr x =>
      if (0 <? cv_cap s) && (cv_cap s <=? cv_transit s)
      then (MkCV (cv_cap s) (cv_transit s) (cv_done s) (cv_rej s + 1), [])
      else (MkCV (cv_cap s) (cv_transit s + 1) (cv_done s) (cv_rej s), [inl x])
  | VRes x => (MkCV (cv_cap s) (cv_transit s - 1) (cv_done s + 1) (cv_rej s), [inr x])
  end.

Record cvw := MkVW { vw_s : cvs; vw_pend : list Z; vw_rej : list Z; vw_done : list Z }.

Fixpoint z_remove (x : Z) (l : list Z) : option (list Z) :=
  match l with
  | [] => None
  | y :: r => if x =? y then Some r
              else match z_remove x r with Some r' => Some (y :: r') | None => None end
  end.

Definition cvw_step (w : cvw) (i : cvin) : option (cvw * list (Z + Z)) :=
  match i with
  | VArr x =>
      let '(s', out) := cv_step (vw_s w) i in
      match out with
      | [] => Some (MkVW s' (vw_pend w) (x :: vw_rej w) (vw_done w), out)
      | _ => Some (MkVW s' (vw_pend w ++ [x]) (vw_rej w) (vw_done w), out)
      end
  | VRes x =>
      match z_remove x (vw_pend w) with
      | None => None
      | Some rest =>
          let '(s', out) := cv_step (vw_s w) i in
          Some (MkVW s' rest (vw_rej w) (x :: vw_done w), out)
      end
  end.

Fixpoint cvw_run (w : cvw) (ins : list cvin) : option cvw :=
  match ins with
  | [] => Some w
  | i :: r => match cvw_step w i with Some (w', _) => cvw_run w' r | None => None end
  end.

Definition cvw0 (cap : Z) : cvw := MkVW (MkCV cap 0 0 0) [] [] [].

Fixpoint cv_arrivals (ins : list cvin) : list Z :=
  match ins with [] => [] | VArr x :: r => x :: cv_arrivals r | _ :: r => cv_arrivals r end.

Definition cv_places (w : cvw) (x : Z) : Z := cnt x (vw_rej w) + cnt x (vw_pend w) + cnt x (vw_done w).

Definition sum_eqb (a b : Z + Z) : bool :=
  match a, b with inl x, inl y | inr x, inr y => x =? y | _, _ => false end.

Fixpoint ok_conv_from (w : cvw) (tr : list (cvin * list (Z + Z) * list Z)) : bool :=
  match tr with
  | [] => true
  | (i, out, cs) :: r =>
      match cvw_step w i with
      | None => false
      | Some (w', out') =>
          list_eqb sum_eqb out out'
          && zl_eqb cs [cv_transit (vw_s w'); cv_done (vw_s w'); cv_rej (vw_s w')]
          && ok_conv_from w' r
      end
  end.

(* ------------------------------------------------------------------ *)
(** * BatchProcessor *)

Record bts := MkBT {
  b_size : Z;             (* batch_size *)
  b_timeout_on : bool;    (* timeout_s > 0 *)
  b_buf : list Z;         (* _buffer *)
  b_tpending : bool;      (* _timeout_event is not None *)
  b_batches : Z; b_items : Z; b_timeouts : Z;
}.

Inductive bev :=
| BTimeout                (* the timeout event *)
| BCont (batch : list Z). (* continuation of _process_batch for this batch *)

Definition bev_eqb (a b : bev) : bool :=
  match a, b with
  | BTimeout, BTimeout => true
  | BCont x, BCont y => zl_eqb x y
  | _, _ => false
  end.

Inductive bout :=
| BSched (e : bev)        (* event scheduled *)
| BCancel                 (* pending timeout event cancelled *)
| BFwd (x : Z).           (* item forwarded downstream *)

Definition bout_eqb (a b : bout) : bool :=
  match a, b with
  | BSched x, BSched y => bev_eqb x y
  | BCancel, BCancel => true
  | BFwd x, BFwd y => x =? y
  | _, _ => false
  end.

(** _process_batch up to the yield. *)
Definition b_process (s : bts) (timeouts' : Z) : bts * list bout :=
  (MkBT (b_size s) (b_timeout_on s) [] false (b_batches s) (b_items s) timeouts',
   (if b_tpending s then [BCancel] else []) ++ [BSched (BCont (b_buf s))]).

Inductive bin := BArr (x : Z) | BFireTimeout | BRes (batch : list Z).

Definition b_step (s : bts) (i : bin) : bts * list bout :=
  match i with
  | BArr x =>
      let buf := b_buf s ++ [x] in
      let s1 := MkBT (b_size s) (b_timeout_on s) buf (b_tpending s) (b_batches s) (b_items s) (b_timeouts s) in
      if b_size s <=? zlen buf then b_process s1 (b_timeouts s)
      else if (zlen buf =? 1) && b_timeout_on s then
        (MkBT (b_size s) (b_timeout_on s) buf true (b_batches s) (b_items s) (b_timeouts s), [BSched BTimeout])
      else (s1, [])
  | BFireTimeout =>
      let s1 := MkBT (b_size s) (b_timeout_on s) (b_buf s) false (b_batches s) (b_items s) (b_timeouts s) in
      match b_buf s with
      | [] => (s1, [])
      | _ => b_process s1 (b_timeouts s + 1)
      end
  | BRes batch =>
      (MkBT (b_size s) (b_timeout_on s) (b_buf s) (b_tpending s) (b_batches s + 1) (b_items s + zlen batch) (b_timeouts s),
       map BFwd batch)
  end.

Record btw := MkBW { bw_s : bts; bw_pend : list bev; bw_done : list Z }.

Fixpoint b_remove (e : bev) (l : list bev) : option (list bev) :=
  match l with
  | [] => None
  | f :: r => if bev_eqb e f then Some r
              else match b_remove e r with Some r' => Some (f :: r') | None => None end
  end.

(** Apply the outputs of a step to the pending bag. *)
Fixpoint b_apply (pend : list bev) (outs : list bout) : list bev :=
  match outs with
  | [] => pend
  | BSched e :: r => b_apply (pend ++ [e]) r
  | BCancel :: r => b_apply (match b_remove BTimeout pend with Some p => p | None => pend end) r
  | BFwd _ :: r => b_apply pend r
  end.

Fixpoint fwd_ids (outs : list bout) : list Z :=
  match outs with [] => [] | BFwd x :: r => x :: fwd_ids r | _ :: r => fwd_ids r end.

Definition bw_step (w : btw) (i : bin) : option (btw * list bout) :=
  match i with
  | BArr x =>
      let '(s', out) := b_step (bw_s w) i in
      Some (MkBW s' (b_apply (bw_pend w) out) (bw_done w), out)
  | BFireTimeout =>
      match b_remove BTimeout (bw_pend w) with
      | None => None
      | Some rest =>
          let '(s', out) := b_step (bw_s w) i in
          Some (MkBW s' (b_apply rest out) (bw_done w), out)
      end
  | BRes batch =>
      match b_remove (BCont batch) (bw_pend w) with
      | None => None
      | Some rest =>
          let '(s', out) := b_step (bw_s w) i in
          Some (MkBW s' (b_apply rest out) (bw_done w ++ fwd_ids out), out)
      end
  end.

Fixpoint bw_run (w : btw) (ins : list bin) : option btw :=
  match ins with
  | [] => Some w
  | i :: r => match bw_step w i with Some (w', _) => bw_run w' r | None => None end
  end.

Definition bw0 (size : Z) (timeout_on : bool) : btw := MkBW (MkBT size timeout_on [] false 0 0 0) [] [].

Fixpoint b_arrivals (ins : list bin) : list Z :=
  match ins with [] => [] | BArr x :: r => x :: b_arrivals r | _ :: r => b_arrivals r end.

Fixpoint b_inbatch (l : list bev) : list Z :=
  match l with [] => [] | BCont b :: r => b ++ b_inbatch r | _ :: r => b_inbatch r end.

Definition b_places (w : btw) (x : Z) : Z :=
  cnt x (b_buf (bw_s w)) + cnt x (b_inbatch (bw_pend w)) + cnt x (bw_done w).

Fixpoint ok_batch_from (w : btw) (tr : list (bin * list bout * (list Z * list Z))) : bool :=
  match tr with
  | [] => true
  | (i, out, (cs, buf)) :: r =>
      match bw_step w i with
      | None => false
      | Some (w', out') =>
          let s := bw_s w' in
          list_eqb bout_eqb out out'
          && zl_eqb cs [if b_tpending s then 1 else 0; b_batches s; b_items s; b_timeouts s]
          && zl_eqb buf (b_buf s) && ok_batch_from w' r
      end
  end.

(* ------------------------------------------------------------------ *)
(** * server/concurrency.py: FixedConcurrency, DynamicConcurrency, WeightedConcurrency *)

Inductive cmodel :=
| CFixed (mx act : Z)
| CDyn (cur mn : Z) (mx : option Z) (act : Z)
| CWeighted (total used : Z).

Inductive cop :=
| CAcquire (w : Z)
| CRelease (w : Z)
| CHasCap (w : Z)
| CSetLimit (n : Z).      (* DynamicConcurrency.set_limit; scale_up/down are set_limit (current +- amount) *)

Definition cm_active (m : cmodel) : Z :=
  match m with CFixed _ a => a | CDyn _ _ _ a => a | CWeighted _ u => u end.
Definition cm_limit (m : cmodel) : Z :=
  match m with CFixed mx _ => mx | CDyn cur _ _ _ => cur | CWeighted t _ => t end.

(** Result: 1 = True, 0 = False / None, 2 = ValueError (weight < 1 in WeightedConcurrency). *)
Definition cm_step (m : cmodel) (o : cop) : cmodel * Z :=
  match m, o with
  | CFixed mx a, CAcquire _ => if mx <=? a then (m, 0) else (CFixed mx (a + 1), 1)
  | CFixed mx a, CRelease _ => (CFixed mx (Z.max 0 (a - 1)), 0)
  | CFixed mx a, CHasCap _ => (m, if a <? mx then 1 else 0)
  | CFixed _ _, CSetLimit _ => (m, 0)
  | CDyn cur mn mx a, CAcquire _ => if cur <=? a then (m, 0) else (CDyn cur mn mx (a + 1), 1)
  | CDyn cur mn mx a, CRelease _ => (CDyn cur mn mx (Z.max 0 (a - 1)), 0)
  | CDyn cur mn mx a, CHasCap _ => (m, if a <? cur then 1 else 0)
  | CDyn cur mn mx a, CSetLimit n =>
      let c1 := Z.max mn n in
      let c2 := match mx with Some x => Z.min x c1 | None => c1 end in
      (CDyn c2 mn mx a, 0)
  | CWeighted t u, CAcquire w =>
      if w <? 1 then (m, 2) else if t <? u + w then (m, 0) else (CWeighted t (u + w), 1)
  | CWeighted t u, CRelease w =>
      if w <? 1 then (m, 2) else (CWeighted t (Z.max 0 (u - w)), 0)
  | CWeighted t u, CHasCap w => (m, if u + w <=? t then 1 else 0)
  | CWeighted _ _, CSetLimit _ => (m, 0)
  end.

Fixpoint cm_run (m : cmodel) (ops : list cop) : cmodel :=
  match ops with [] => m | o :: r => cm_run (fst (cm_step m o)) r end.

(** per operation: result, active, limit *)
Fixpoint ok_conc_from (m : cmodel) (tr : list (cop * (Z * Z * Z))) : bool :=
  match tr with
  | [] => true
  | (o, (res, a, l)) :: r =>
      let '(m', res') := cm_step m o in
      (res =? res') && (a =? cm_active m') && (l =? cm_limit m') && ok_conc_from m' r
  end.

(* ------------------------------------------------------------------ *)
(** * One case type for the correspondence family *)

Inductive icase :=
| IPooled (size cap : Z) (tr : list (pclabel * list pcev * (list Z * list Z)))
| IGate (cap : Z) (opened : bool) (tr : list (gin * list Z * (list Z * list Z)))
| IConv (cap : Z) (tr : list (cvin * list (Z + Z) * list Z))
| IBatch (size : Z) (timeout_on : bool) (tr : list (bin * list bout * (list Z * list Z)))
| IConc (m : cmodel) (tr : list (cop * (Z * Z * Z))).

Definition ok_ind (c : icase) : bool :=
  match c with
  | IPooled size cap tr => ok_pc_from (pcw0 size cap) tr
  | IGate cap opened tr => ok_gate_from (g0 cap opened) tr
  | IConv cap tr => ok_conv_from (cvw0 cap) tr
  | IBatch size ton tr => ok_batch_from (bw0 size ton) tr
  | IConc m tr => ok_conc_from m tr
  end.
