(** C08 — executable models of the queueing pipeline of /repo:

    - queue policies: happysimulator/components/queue_policy.py (FIFOQueue,
      LIFOQueue, PriorityQueue), queue_policies/deadline_queue.py,
      queue_policies/fair_queue.py, queue_policies/weighted_fair_queue.py,
      industrial/balking.py (wrapper, RNG draw is an explicit input);
    - the Queue / QueueDriver / worker handlers of queue.py, queue_driver.py,
      queued_resource.py, server/server.py (+ server/concurrency.py
      FixedConcurrency) and the unguarded worker of
      industrial/shift_schedule.py (ShiftedServer), as ONE step function per
      handler invocation ([pstep]);
    - a "world": the handler state plus the bag of events that are pending in
      the simulator's heap.  The world does NOT model the heap order: any
      pending event may fire next ([wstep] takes the event to fire as a
      label), so every theorem over all label sequences covers every
      schedule the real engine can produce.  The correspondence check replays
      the handler sequence of real [Simulation] runs through [wstep], so a
      real run is checked to be one of the world's schedules.

    No proofs in this file. Items are records of integers; item identity is
    [iid].  Times are integer nanoseconds. *)
From HS Require Import Base.Prelude.
Local Open Scope Z_scope.

(* ------------------------------------------------------------------ *)
(** * Items *)

Record item := MkItem {
  iid : Z;      (* identity (harness tag) *)
  iprio : Z;    (* priority key (PriorityQueue key function) *)
  idl : Z;      (* deadline, ns (DeadlineQueue get_deadline) *)
  iflow : Z;    (* flow id (FairQueue / WeightedFairQueue get_flow_id) *)
  iw : Z;       (* flow weight as returned by get_weight(flow) *)
}.

Definition item_eqb (a b : item) : bool :=
  (iid a =? iid b) && (iprio a =? iprio b) && (idl a =? idl b) && (iflow a =? iflow b) && (iw a =? iw b).

(** [len >= capacity] with capacity [None] = float("inf"). *)
Definition cap_full (cap : option Z) (n : Z) : bool :=
  match cap with None => false | Some c => c <=? n end.

Definition zlen {A} (l : list A) : Z := Z.of_nat (length l).

(** Number of occurrences of an id in a list of ids. *)
Fixpoint cnt (x : Z) (l : list Z) : Z :=
  match l with
  | [] => 0
  | y :: r => (if x =? y then 1 else 0) + cnt x r
  end.

(* ------------------------------------------------------------------ *)
(** * Heap-ordered policies: entries sorted by (key, insert_order).

    [heapq] with entries compared on (key, insert_order), insert_order unique:
    the pop sequence of a binary heap equals the pop sequence of a sorted
    list (CPython's heapq is outside /repo and trusted to pop a minimum). *)

Definition entry := (Z * Z * item)%type.   (* key, insert_order, item *)

Definition entry_ltb (k o : Z) (e : entry) : bool :=
  let '(k', o', _) := e in (k <? k') || ((k =? k') && (o <? o')).

Fixpoint ins (k o : Z) (it : item) (h : list entry) : list entry :=
  match h with
  | [] => [(k, o, it)]
  | e :: r => if entry_ltb k o e then (k, o, it) :: h else e :: ins k o it r
  end.

(** DeadlineQueue.pop: pop entries until one is not expired
    ([entry.deadline < now] = expired).  Returns remaining heap, result,
    expired items in pop order. *)
Fixpoint dl_pop (now : Z) (h : list entry) : list entry * option item * list item :=
  match h with
  | [] => ([], None, [])
  | (k, _, it) :: r =>
      if k <? now then
        let '(h', res, ex) := dl_pop now r in (h', res, it :: ex)
      else (r, Some it, [])
  end.

(* ------------------------------------------------------------------ *)
(** * Fair queue (OrderedDict flow -> deque) *)

Definition flows := list (Z * list item).

Fixpoint fl_find (f : Z) (fl : flows) : option (list item) :=
  match fl with
  | [] => None
  | (g, l) :: r => if f =? g then Some l else fl_find f r
  end.

(** Append an item to flow [f]'s deque (flow must exist). *)
Fixpoint fl_append (f : Z) (it : item) (fl : flows) : flows :=
  match fl with
  | [] => []
  | (g, l) :: r => if f =? g then (g, l ++ [it]) :: r else (g, l) :: fl_append f it r
  end.

(** FairQueue.pop.  The recursion [return self.pop()] after removing an empty
    first flow is bounded by the number of flows. *)
Fixpoint fair_pop (fl : flows) (removed : Z) : flows * option item * Z :=
  match fl with
  | [] => ([], None, removed)
  | (g, []) :: r => fair_pop r (removed + 1)
  | (g, it :: l) :: r =>
      match l with
      | [] => (r, Some it, removed + 1)            (* move_to_end then _remove_flow *)
      | _ => (r ++ [(g, l)], Some it, removed)     (* move_to_end *)
      end
  end.

(* fair statistics: enqueued dequeued rej_flow_cap rej_max_flows created removed *)
Record fstats := MkFS { fs_enq : Z; fs_deq : Z; fs_rfc : Z; fs_rmf : Z; fs_cr : Z; fs_rm : Z }.
Definition fs0 := MkFS 0 0 0 0 0 0.

(* ------------------------------------------------------------------ *)
(** * Weighted fair queue *)

Record wflow := MkWF { wf_id : Z; wf_q : list item; wf_w : Z; wf_cr : Z }.

Fixpoint wf_find (f : Z) (fl : list wflow) : bool :=
  match fl with
  | [] => false
  | w :: r => (f =? wf_id w) || wf_find f r
  end.

Fixpoint wf_qlen (f : Z) (fl : list wflow) : Z :=
  match fl with
  | [] => 0
  | w :: r => if f =? wf_id w then zlen (wf_q w) else wf_qlen f r
  end.

Fixpoint wf_append (f : Z) (it : item) (fl : list wflow) : list wflow :=
  match fl with
  | [] => []
  | w :: r => if f =? wf_id w then MkWF (wf_id w) (wf_q w ++ [it]) (wf_w w) (wf_cr w) :: r
              else w :: wf_append f it r
  end.

(* enqueued dequeued rejected_capacity created removed *)
Record wstats := MkWS { ws_enq : Z; ws_deq : Z; ws_rej : Z; ws_cr : Z; ws_rm : Z }.
Definition ws0 := MkWS 0 0 0 0 0.

(** WeightedFairQueue.pop: the [while attempts < max_attempts] loop, [fuel] =
    max_attempts = 2 * len(flows) evaluated before the loop. *)
Fixpoint wfq_pop (fuel : nat) (fl : list wflow) (removed : Z) : list wflow * option item * Z :=
  match fuel with
  | O => (fl, None, removed)
  | S fuel' =>
      match fl with
      | [] => ([], None, removed)
      | w :: r =>
          match wf_q w with
          | [] => match r with
                  | [] => ([], None, removed + 1)
                  | _ => wfq_pop fuel' r (removed + 1)
                  end
          | it :: l =>
              if 0 <? wf_cr w then
                let c := wf_cr w - 1 in
                (* credits exhausted: move to end, reset credits *)
                let moved := c <=? 0 in
                let w' := MkWF (wf_id w) l (wf_w w) (if moved then wf_w w else c) in
                match l with
                | [] => (r, Some it, removed + 1)
                | _ => (if moved then r ++ [w'] else w' :: r, Some it, removed)
                end
              else
                wfq_pop fuel' (r ++ [MkWF (wf_id w) (wf_q w) (wf_w w) (wf_w w)]) removed
          end
      end
  end.

(* ------------------------------------------------------------------ *)
(** * Policies *)

(* deadline statistics: enqueued dequeued expired capacity_rejected *)
Record dstats := MkDS { ds_enq : Z; ds_deq : Z; ds_exp : Z; ds_rej : Z }.
Definition ds0 := MkDS 0 0 0 0.

(* RED statistics: enqueued dequeued dropped(probabilistic+forced) capacity_rejected *)
Record rstats := MkRS { rs_enq : Z; rs_deq : Z; rs_drop : Z; rs_rej : Z }.
Definition rs0 := MkRS 0 0 0 0.
(* CoDel statistics: enqueued dequeued dropped capacity_rejected *)
Record cstats := MkCS { cs_enq : Z; cs_deq : Z; cs_drop : Z; cs_rej : Z }.
Definition cs0 := MkCS 0 0 0 0.
(* AdaptiveLIFO statistics: enqueued dequeued_fifo dequeued_lifo capacity_rejected mode_switches *)
Record astats := MkAS { as_enq : Z; as_df : Z; as_dl : Z; as_rej : Z; as_sw : Z }.
Definition as0 := MkAS 0 0 0 0 0.

Inductive pol :=
| PFifo (cap : option Z) (l : list item)                      (* deque, oldest first *)
| PLifo (cap : option Z) (l : list item)                      (* deque, NEWEST first *)
| PPrio (cap : option Z) (ctr : Z) (h : list entry)
| PDead (cap : option Z) (ctr : Z) (h : list entry) (st : dstats)
| PFair (maxf pfc : option Z) (fl : flows) (total : Z) (st : fstats)
| PWfq (cap pfc : option Z) (fl : list wflow) (total : Z) (st : wstats)
| PBalk (thr : Z) (balked : Z) (inner : pol)                   (* BalkingQueue *)
(** queue_policies/red.py: the early-drop decision (EWMA of the depth in
    floats + random draw) is an explicit input of push, like the balking draw. *)
| PRed (cap : Z) (l : list item) (st : rstats)
(** queue_policies/codel.py: the number of items the control law (floats,
    sqrt) drops after each successful pop is read from a schedule held in the
    state (an oracle stream, like an RNG stream; theorems hold for every
    schedule). *)
| PCodel (cap : option Z) (l : list item) (sched : list Z) (st : cstats)
(** queue_policies/adaptive_lifo.py *)
| PAdapt (thr : Z) (cap : option Z) (l : list item) (wasc : bool) (st : astats).

Fixpoint pol_len (s : pol) : Z :=
  match s with
  | PFifo _ l | PLifo _ l => zlen l
  | PPrio _ _ h | PDead _ _ h _ => zlen h
  | PFair _ _ _ total _ | PWfq _ _ _ total _ => total
  | PBalk _ _ i => pol_len i
  | PRed _ l _ | PCodel _ l _ _ | PAdapt _ _ l _ _ => zlen l
  end.

(** Items held, as ids (for the conservation ledger). *)
Fixpoint pol_ids (s : pol) : list Z :=
  match s with
  | PFifo _ l | PLifo _ l => map iid l
  | PPrio _ _ h | PDead _ _ h _ => map (fun e : entry => iid (snd e)) h
  | PFair _ _ fl _ _ => flat_map (fun p : Z * list item => map iid (snd p)) fl
  | PWfq _ _ fl _ _ => flat_map (fun w => map iid (wf_q w)) fl
  | PBalk _ _ i => pol_ids i
  | PRed _ l _ | PCodel _ l _ _ | PAdapt _ _ l _ _ => map iid l
  end.

(** [push].  [balk] is the outcome of [random.random() < balk_probability]
    (only read by BalkingQueue when the depth is at/above the threshold). *)
Fixpoint pol_push (balk : bool) (it : item) (s : pol) : pol * bool :=
  match s with
  | PFifo cap l =>
      if cap_full cap (zlen l) then (s, false) else (PFifo cap (l ++ [it]), true)
  | PLifo cap l =>
      if cap_full cap (zlen l) then (s, false) else (PLifo cap (it :: l), true)
  | PPrio cap ctr h =>
      if cap_full cap (zlen h) then (s, false)
      else (PPrio cap (ctr + 1) (ins (iprio it) ctr it h), true)
  | PDead cap ctr h st =>
      if cap_full cap (zlen h)
      then (PDead cap ctr h (MkDS (ds_enq st) (ds_deq st) (ds_exp st) (ds_rej st + 1)), false)
      else (PDead cap (ctr + 1) (ins (idl it) ctr it h)
              (MkDS (ds_enq st + 1) (ds_deq st) (ds_exp st) (ds_rej st)), true)
  | PFair maxf pfc fl total st =>
      let f := iflow it in
      match fl_find f fl with
      | None =>
          if cap_full maxf (zlen fl)
          then (PFair maxf pfc fl total
                  (MkFS (fs_enq st) (fs_deq st) (fs_rfc st) (fs_rmf st + 1) (fs_cr st) (fs_rm st)), false)
          else
            (* new flow queue, created at the end of the OrderedDict *)
            if cap_full pfc 0
            then (PFair maxf pfc (fl ++ [(f, [])]) total
                    (MkFS (fs_enq st) (fs_deq st) (fs_rfc st + 1) (fs_rmf st) (fs_cr st + 1) (fs_rm st)), false)
            else (PFair maxf pfc (fl ++ [(f, [it])]) (total + 1)
                    (MkFS (fs_enq st + 1) (fs_deq st) (fs_rfc st) (fs_rmf st) (fs_cr st + 1) (fs_rm st)), true)
      | Some l =>
          if cap_full pfc (zlen l)
          then (PFair maxf pfc fl total
                  (MkFS (fs_enq st) (fs_deq st) (fs_rfc st + 1) (fs_rmf st) (fs_cr st) (fs_rm st)), false)
          else (PFair maxf pfc (fl_append f it fl) (total + 1)
                  (MkFS (fs_enq st + 1) (fs_deq st) (fs_rfc st) (fs_rmf st) (fs_cr st) (fs_rm st)), true)
      end
  | PWfq cap pfc fl total st =>
      if cap_full cap total
      then (PWfq cap pfc fl total (MkWS (ws_enq st) (ws_deq st) (ws_rej st + 1) (ws_cr st) (ws_rm st)), false)
      else
        let f := iflow it in
        let created := negb (wf_find f fl) in
        let w := if iw it <? 1 then 1 else iw it in
        let fl1 := if created then fl ++ [MkWF f [] w w] else fl in
        let st1 := if created then MkWS (ws_enq st) (ws_deq st) (ws_rej st) (ws_cr st + 1) (ws_rm st) else st in
        if cap_full pfc (wf_qlen f fl1)
        then (PWfq cap pfc fl1 total (MkWS (ws_enq st1) (ws_deq st1) (ws_rej st1 + 1) (ws_cr st1) (ws_rm st1)), false)
        else (PWfq cap pfc (wf_append f it fl1) (total + 1)
                (MkWS (ws_enq st1 + 1) (ws_deq st1) (ws_rej st1) (ws_cr st1) (ws_rm st1)), true)
  | PBalk thr balked i =>
      if (thr <=? pol_len i) && balk then (PBalk thr (balked + 1) i, false)
      else let '(i', ok) := pol_push balk it i in (PBalk thr balked i', ok)
  | PRed cap l st =>
      if cap <=? zlen l
      then (PRed cap l (MkRS (rs_enq st) (rs_deq st) (rs_drop st) (rs_rej st + 1)), false)
      else if balk
      then (PRed cap l (MkRS (rs_enq st) (rs_deq st) (rs_drop st + 1) (rs_rej st)), false)
      else (PRed cap (l ++ [it]) (MkRS (rs_enq st + 1) (rs_deq st) (rs_drop st) (rs_rej st)), true)
  | PCodel cap l sched st =>
      if cap_full cap (zlen l)
      then (PCodel cap l sched (MkCS (cs_enq st) (cs_deq st) (cs_drop st) (cs_rej st + 1)), false)
      else (PCodel cap (l ++ [it]) sched (MkCS (cs_enq st + 1) (cs_deq st) (cs_drop st) (cs_rej st)), true)
  | PAdapt thr cap l wasc st =>
      if cap_full cap (zlen l)
      then (PAdapt thr cap l wasc (MkAS (as_enq st) (as_df st) (as_dl st) (as_rej st + 1) (as_sw st)), false)
      else (PAdapt thr cap (l ++ [it]) wasc (MkAS (as_enq st + 1) (as_df st) (as_dl st) (as_rej st) (as_sw st)), true)
  end.

(** [pop] at clock [now]: new state, result, items expired (DeadlineQueue). *)
Fixpoint pol_pop (now : Z) (s : pol) : pol * option item * list item :=
  match s with
  | PFifo cap l =>
      match l with [] => (s, None, []) | it :: r => (PFifo cap r, Some it, []) end
  | PLifo cap l =>
      match l with [] => (s, None, []) | it :: r => (PLifo cap r, Some it, []) end
  | PPrio cap ctr h =>
      match h with [] => (s, None, []) | (_, _, it) :: r => (PPrio cap ctr r, Some it, []) end
  | PDead cap ctr h st =>
      let '(h', res, ex) := dl_pop now h in
      let st' := MkDS (ds_enq st) (ds_deq st + match res with Some _ => 1 | None => 0 end)
                      (ds_exp st + zlen ex) (ds_rej st) in
      (PDead cap ctr h' st', res, ex)
  | PFair maxf pfc fl total st =>
      let '(fl', res, rm) := fair_pop fl 0 in
      match res with
      | None => (PFair maxf pfc fl' total
                   (MkFS (fs_enq st) (fs_deq st) (fs_rfc st) (fs_rmf st) (fs_cr st) (fs_rm st + rm)), None, [])
      | Some it => (PFair maxf pfc fl' (total - 1)
                   (MkFS (fs_enq st) (fs_deq st + 1) (fs_rfc st) (fs_rmf st) (fs_cr st) (fs_rm st + rm)), Some it, [])
      end
  | PWfq cap pfc fl total st =>
      match fl with
      | [] => (s, None, [])
      | _ =>
        let '(fl', res, rm) := wfq_pop (2 * length fl) fl 0 in
        match res with
        | None => (PWfq cap pfc fl' total (MkWS (ws_enq st) (ws_deq st) (ws_rej st) (ws_cr st) (ws_rm st + rm)), None, [])
        | Some it => (PWfq cap pfc fl' (total - 1)
                        (MkWS (ws_enq st) (ws_deq st + 1) (ws_rej st) (ws_cr st) (ws_rm st + rm)), Some it, [])
        end
      end
  | PBalk thr balked i =>
      let '(i', res, ex) := pol_pop now i in (PBalk thr balked i', res, ex)
  | PRed cap l st =>
      match l with
      | [] => (s, None, [])
      | it :: r => (PRed cap r (MkRS (rs_enq st) (rs_deq st + 1) (rs_drop st) (rs_rej st)), Some it, [])
      end
  | PCodel cap l sched st =>
      match l with
      | [] => (s, None, [])
      | it :: r =>
          let nd := Z.to_nat (hd 0 sched) in
          let dropped := firstn nd r in
          (PCodel cap (skipn nd r) (tl sched)
             (MkCS (cs_enq st) (cs_deq st + 1) (cs_drop st + zlen dropped) (cs_rej st)), Some it, dropped)
      end
  | PAdapt thr cap l wasc st =>
      match l with
      | [] => (s, None, [])
      | it0 :: _ =>
          let cong := thr <=? zlen l in
          let sw := if Bool.eqb cong wasc then as_sw st else as_sw st + 1 in
          if cong
          then (PAdapt thr cap (removelast l) cong
                  (MkAS (as_enq st) (as_df st) (as_dl st + 1) (as_rej st) sw), Some (last l it0), [])
          else (PAdapt thr cap (tl l) cong
                  (MkAS (as_enq st) (as_df st + 1) (as_dl st) (as_rej st) sw), Some it0, [])
      end
  end.

(** Capacity as reported by the [capacity] property (None = inf). *)
Fixpoint pol_cap (s : pol) : option Z :=
  match s with
  | PFifo cap _ | PLifo cap _ | PPrio cap _ _ | PDead cap _ _ _ | PWfq cap _ _ _ _ => cap
  | PFair maxf pfc _ _ _ =>
      match maxf, pfc with Some m, Some c => Some (m * c) | _, _ => None end
  | PBalk _ _ i => pol_cap i
  | PRed cap _ _ => Some cap
  | PCodel cap _ _ _ | PAdapt _ cap _ _ _ => cap
  end.

(* ------------------------------------------------------------------ *)
(** * Direct operation sequences on a policy (correspondence + theorems) *)

Inductive pop_op :=
| OPush (balk : bool) (it : item)
| OPop (now : Z).

(** Observation of one operation: push -> (accepted, None, []);
    pop -> (true, result id, expired ids). *)
Definition pobs := (bool * option Z * list Z)%type.

Definition pol_step (s : pol) (o : pop_op) : pol * pobs :=
  match o with
  | OPush balk it => let '(s', ok) := pol_push balk it s in (s', (ok, None, []))
  | OPop now => let '(s', r, ex) := pol_pop now s in
                (s', (true, option_map iid r, map iid ex))
  end.

Fixpoint pol_run (s : pol) (ops : list pop_op) : pol * list pobs :=
  match ops with
  | [] => (s, [])
  | o :: r => let '(s1, ob) := pol_step s o in
              let '(s2, obs) := pol_run s1 r in (s2, ob :: obs)
  end.

(** Ledger of an observed run. *)
Definition is_push (o : pop_op) : bool := match o with OPush _ _ => true | _ => false end.

Fixpoint n_accepted (ops : list pop_op) (obs : list pobs) : Z :=
  match ops, obs with
  | OPush _ _ :: r, (ok, _, _) :: r' => (if ok then 1 else 0) + n_accepted r r'
  | _ :: r, _ :: r' => n_accepted r r'
  | _, _ => 0
  end.
Fixpoint n_refused (ops : list pop_op) (obs : list pobs) : Z :=
  match ops, obs with
  | OPush _ _ :: r, (ok, _, _) :: r' => (if ok then 0 else 1) + n_refused r r'
  | _ :: r, _ :: r' => n_refused r r'
  | _, _ => 0
  end.
Fixpoint n_popped (ops : list pop_op) (obs : list pobs) : Z :=
  match ops, obs with
  | OPop _ :: r, (_, res, _) :: r' => (match res with Some _ => 1 | None => 0 end) + n_popped r r'
  | _ :: r, _ :: r' => n_popped r r'
  | _, _ => 0
  end.
Fixpoint n_expired (ops : list pop_op) (obs : list pobs) : Z :=
  match ops, obs with
  | OPop _ :: r, (_, _, ex) :: r' => zlen ex + n_expired r r'
  | _ :: r, _ :: r' => n_expired r r'
  | _, _ => 0
  end.

(** Ids accepted, in push order; ids popped, in pop order. *)
Fixpoint accepted_ids (ops : list pop_op) (obs : list pobs) : list Z :=
  match ops, obs with
  | OPush _ it :: r, (ok, _, _) :: r' => if ok then iid it :: accepted_ids r r' else accepted_ids r r'
  | _ :: r, _ :: r' => accepted_ids r r'
  | _, _ => []
  end.
Fixpoint popped_ids (ops : list pop_op) (obs : list pobs) : list Z :=
  match ops, obs with
  | OPop _ :: r, (_, res, _) :: r' =>
      match res with Some x => x :: popped_ids r r' | None => popped_ids r r' end
  | _ :: r, _ :: r' => popped_ids r r'
  | _, _ => []
  end.

(* ------------------------------------------------------------------ *)
(** * The pipeline handlers *)

(** Events of the pipeline that can be pending in the simulator's heap. *)
Inductive pev :=
| PNotify                 (* QueueNotifyEvent  queue  -> driver *)
| PPoll                   (* QueuePollEvent    driver -> queue  *)
| PDeliver (x : Z)        (* QueueDeliverEvent queue  -> driver, payload x *)
| PPayload (x : Z)        (* payload x retargeted to the worker *)
| PCont (x : Z).          (* ProcessContinuation of the worker's generator for x (after the service yield) *)

Definition pev_eqb (a b : pev) : bool :=
  match a, b with
  | PNotify, PNotify | PPoll, PPoll => true
  | PDeliver x, PDeliver y | PPayload x, PPayload y | PCont x, PCont y => x =? y
  | _, _ => false
  end.

(** Worker kinds.
    [WServer]: server/server.py — [acquire] guarded by the concurrency model,
       failure counts [requests_rejected] and discards the item.
    [WShift]: industrial/shift_schedule.py ShiftedServer — [_active += 1]
       without a guard; [has_capacity] is [_active < _current_capacity].
    [WReneg]: industrial/reneging.py RenegingQueuedResource with the harness
       subclass (unguarded [_active] counter like ShiftedServer): a dequeued
       item whose waiting time exceeds its patience is counted in [_reneged]
       and routed to [reneged_target] instead of being served.  The patience
       deadline [created_at + patience] of an item is its [idl] field. *)
Inductive wkind := WServer | WShift | WReneg.

Record pstate := MkPS {
  kind : wkind;
  q : pol;
  acc : Z;        (* Queue.stats_accepted *)
  drp : Z;        (* Queue.stats_dropped *)
  act : Z;        (* concurrency model _active / ShiftedServer._active *)
  lim : Z;        (* FixedConcurrency._max_concurrent / DynamicConcurrency._current_limit / _current_capacity *)
  fin : Z;        (* _requests_completed / _processed *)
  rej : Z;        (* _requests_rejected / RenegingQueuedResource._reneged *)
  dls : list (Z * Z);   (* id -> patience deadline (context created_at + patience_s), recorded at enqueue *)
}.

Definition has_capacity (s : pstate) : bool := act s <? lim s.

(** Handler invocations. *)
Inductive pin :=
| IEnq (balk : bool) (it : item)   (* Queue.handle_event(work)  -> _handle_enqueue *)
| IPoll (now : Z)                  (* Queue.handle_event(QueuePollEvent) -> _handle_poll *)
| INotify                          (* QueueDriver._handle_notify *)
| IDeliver (x : Z)                 (* QueueDriver._handle_delivery -> _handle_work_payload *)
| IStart (now : Z) (x : Z)         (* worker generator, up to the service yield (or early return) *)
| IResume (x : Z)                  (* worker generator, after the service yield *)
| IHook                            (* completion hook schedule_poll *)
| ISetLimit (n : Z).               (* DynamicConcurrency.set_limit / shift change: new limit (already clamped) *)

Definition set_q (s : pstate) (q' : pol) : pstate :=
  MkPS (kind s) q' (acc s) (drp s) (act s) (lim s) (fin s) (rej s) (dls s).

(** One handler invocation: new state, events returned, items expired by the policy. *)
Definition pstep (s : pstate) (i : pin) : pstate * list pev * list Z :=
  match i with
  | IEnq balk it =>
      let was_empty := pol_len (q s) =? 0 in
      let '(q', ok) := pol_push balk it (q s) in
      if ok then
        (MkPS (kind s) q' (acc s + 1) (drp s) (act s) (lim s) (fin s) (rej s) ((iid it, idl it) :: dls s),
         if was_empty then [PNotify] else [], [])
      else
        (MkPS (kind s) q' (acc s) (drp s + 1) (act s) (lim s) (fin s) (rej s) (dls s), [], [])
  | IPoll now =>
      let '(q', r, ex) := pol_pop now (q s) in
      (set_q s q', match r with Some it => [PDeliver (iid it)] | None => [] end, map iid ex)
  | INotify => (s, if has_capacity s then [PPoll] else [], [])
  | IDeliver x => (s, [PPayload x], [])
  | IStart now x =>
      match kind s with
      | WServer =>
          if lim s <=? act s
          then (MkPS (kind s) (q s) (acc s) (drp s) (act s) (lim s) (fin s) (rej s + 1) (dls s), [], [])
          else (MkPS (kind s) (q s) (acc s) (drp s) (act s + 1) (lim s) (fin s) (rej s) (dls s), [PCont x], [])
      | WShift =>
          (MkPS (kind s) (q s) (acc s) (drp s) (act s + 1) (lim s) (fin s) (rej s) (dls s), [PCont x], [])
      | WReneg =>
          (* wait_time > patience  <=>  now > created_at + patience *)
          if zget x (dls s) <? now
          then (MkPS (kind s) (q s) (acc s) (drp s) (act s) (lim s) (fin s) (rej s + 1) (dls s), [], [])
          else (MkPS (kind s) (q s) (acc s) (drp s) (act s + 1) (lim s) (fin s) (rej s) (dls s), [PCont x], [])
      end
  | IResume x =>
      let a := match kind s with
               | WServer => Z.max 0 (act s - 1)
               | WShift | WReneg => act s - 1
               end in
      (MkPS (kind s) (q s) (acc s) (drp s) a (lim s) (fin s + 1) (rej s) (dls s), [], [])
  | IHook => (s, if has_capacity s then [PPoll] else [], [])
  | ISetLimit n =>
      (MkPS (kind s) (q s) (acc s) (drp s) (act s) n (fin s) (rej s) (dls s), [], [])
  end.

(* ------------------------------------------------------------------ *)
(** * The world: handler state + pending events + ledger *)

Record world := MkW {
  ps : pstate;
  pend : list pev;        (* events of the pipeline pending in the heap (a bag) *)
  l_off : list Z;         (* ids offered so far *)
  l_drop : list Z;        (* refused by the queue (stats_dropped) *)
  l_exp : list Z;         (* expired inside the policy (DeadlineQueue, counted) *)
  l_done : list Z;        (* completed *)
  l_disc : list Z;        (* accepted, dequeued, then discarded by the worker (requests_rejected) *)
}.

Fixpoint remove_one (e : pev) (l : list pev) : option (list pev) :=
  match l with
  | [] => None
  | f :: r => if pev_eqb e f then Some r
              else match remove_one e r with Some r' => Some (f :: r') | None => None end
  end.

Inductive wlabel :=
| LArrive (balk : bool) (it : item)     (* an arrival is handled by the queue *)
| LFire (now : Z) (e : pev)             (* the engine delivers a pending event *)
| LSetLimit (n : Z).

Definition is_cont (e : pev) : bool := match e with PCont _ => true | _ => false end.

(** One world step; [None] = the label is not enabled (event not pending). The
    second component is the list of events emitted (for the comparison with
    the implementation's handler outputs). *)
Definition wstep (w : world) (l : wlabel) : option (world * list pev) :=
  match l with
  | LArrive balk it =>
      let '(s', out, _) := pstep (ps w) (IEnq balk it) in
      let refused := drp s' =? drp (ps w) + 1 in
      Some (MkW s' (pend w ++ out) (iid it :: l_off w)
              (if refused then iid it :: l_drop w else l_drop w)
              (l_exp w) (l_done w) (l_disc w), out)
  | LSetLimit n =>
      let '(s', out, _) := pstep (ps w) (ISetLimit n) in
      Some (MkW s' (pend w) (l_off w) (l_drop w) (l_exp w) (l_done w) (l_disc w), out)
  | LFire now e =>
      match remove_one e (pend w) with
      | None => None
      | Some rest =>
          match e with
          | PNotify =>
              let '(s', out, _) := pstep (ps w) INotify in
              Some (MkW s' (rest ++ out) (l_off w) (l_drop w) (l_exp w) (l_done w) (l_disc w), out)
          | PPoll =>
              let '(s', out, ex) := pstep (ps w) (IPoll now) in
              Some (MkW s' (rest ++ out) (l_off w) (l_drop w) (ex ++ l_exp w) (l_done w) (l_disc w), out)
          | PDeliver x =>
              let '(s', out, _) := pstep (ps w) (IDeliver x) in
              Some (MkW s' (rest ++ out) (l_off w) (l_drop w) (l_exp w) (l_done w) (l_disc w), out)
          | PPayload x =>
              let '(s1, out1, _) := pstep (ps w) (IStart now x) in
              if existsb is_cont out1 then
                Some (MkW s1 (rest ++ out1) (l_off w) (l_drop w) (l_exp w) (l_done w) (l_disc w), out1)
              else
                (* the generator returned at once: completion hooks run now *)
                let '(s2, out2, _) := pstep s1 IHook in
                Some (MkW s2 (rest ++ out1 ++ out2) (l_off w) (l_drop w) (l_exp w) (l_done w)
                        (x :: l_disc w), out1 ++ out2)
          | PCont x =>
              let '(s1, out1, _) := pstep (ps w) (IResume x) in
              let '(s2, out2, _) := pstep s1 IHook in
              Some (MkW s2 (rest ++ out1 ++ out2) (l_off w) (l_drop w) (l_exp w)
                      (x :: l_done w) (l_disc w), out1 ++ out2)
          end
      end
  end.

Fixpoint wrun (w : world) (ls : list wlabel) : option world :=
  match ls with
  | [] => Some w
  | l :: r => match wstep w l with Some (w', _) => wrun w' r | None => None end
  end.

Definition ps0 (k : wkind) (p : pol) (limit : Z) : pstate := MkPS k p 0 0 0 limit 0 0 [].
Definition w0 (k : wkind) (p : pol) (limit : Z) : world := MkW (ps0 k p limit) [] [] [] [] [] [].

(** Classes of the ledger that are read off the state. *)
Fixpoint transit_ids (l : list pev) : list Z :=     (* dequeued, not yet started *)
  match l with
  | [] => []
  | PDeliver x :: r | PPayload x :: r => x :: transit_ids r
  | _ :: r => transit_ids r
  end.
Fixpoint service_ids (l : list pev) : list Z :=     (* in service *)
  match l with
  | [] => []
  | PCont x :: r => x :: service_ids r
  | _ :: r => service_ids r
  end.

(** How many ledger classes hold id [x] (with multiplicity). *)
Definition places (w : world) (x : Z) : Z :=
  cnt x (l_drop w) + cnt x (l_exp w) + cnt x (pol_ids (q (ps w))) + cnt x (transit_ids (pend w))
  + cnt x (service_ids (pend w)) + cnt x (l_done w) + cnt x (l_disc w).

(** No pipeline event other than service completions is pending: simulated
    time can only advance in such states. *)
Definition quiescent (w : world) : bool := forallb is_cont (pend w).

(* ------------------------------------------------------------------ *)
(** * Comparison functions used by the correspondence check *)

Definition oz_eqb := option_eqb Z.eqb.
Definition zl_eqb := list_eqb Z.eqb.

Definition pobs_eqb (a b : pobs) : bool :=
  let '(o1, r1, e1) := a in let '(o2, r2, e2) := b in
  Bool.eqb o1 o2 && oz_eqb r1 r2 && zl_eqb e1 e2.

(** Snapshot of a policy as the harness reads it from the implementation:
    (len, ids in internal order, counters). Heap policies: entries sorted by
    (key, order); fair queues: flows in OrderedDict order. *)
Fixpoint pol_counters (s : pol) : list Z :=
  match s with
  | PFifo _ _ | PLifo _ _ => []
  | PPrio _ ctr _ => [ctr]
  | PDead _ ctr _ st => [ctr; ds_enq st; ds_deq st; ds_exp st; ds_rej st]
  | PFair _ _ fl _ st => [zlen fl; fs_enq st; fs_deq st; fs_rfc st; fs_rmf st; fs_cr st; fs_rm st]
  | PWfq _ _ fl _ st => [zlen fl; ws_enq st; ws_deq st; ws_rej st; ws_cr st; ws_rm st]
                        ++ flat_map (fun w => [wf_id w; wf_w w; wf_cr w]) fl
  | PBalk _ b i => b :: pol_counters i
  | PRed _ _ st => [rs_enq st; rs_deq st; rs_drop st; rs_rej st]
  | PCodel _ _ _ st => [cs_enq st; cs_deq st; cs_drop st; cs_rej st]
  | PAdapt _ _ _ wasc st => [if wasc then 1 else 0; as_enq st; as_df st; as_dl st; as_rej st; as_sw st]
  end.

Definition psnap := (Z * list Z * list Z)%type.
Definition pol_snap (s : pol) : psnap := (pol_len s, pol_ids s, pol_counters s).
Definition psnap_eqb (a b : psnap) : bool :=
  let '(n1, i1, c1) := a in let '(n2, i2, c2) := b in
  (n1 =? n2) && zl_eqb i1 i2 && zl_eqb c1 c2.

(** Policy family: initial policy, operations, and for every operation the
    implementation's observation and snapshot afterwards. *)
Fixpoint ok_pol_from (s : pol) (ops : list pop_op) (obs : list (pobs * psnap)) : bool :=
  match ops, obs with
  | [], [] => true
  | o :: r, (ob, sn) :: r' =>
      let '(s', ob') := pol_step s o in
      pobs_eqb ob ob' && psnap_eqb sn (pol_snap s') && ok_pol_from s' r r'
  | _, _ => false
  end.

Definition ok_policy (c : pol * list pop_op * list (pobs * psnap)) : bool :=
  let '(s, ops, obs) := c in ok_pol_from s ops obs.

(** Pipeline family: per handler invocation the label, the events the
    implementation returned and its state afterwards
    (depth, accepted, dropped, active, limit, completed, rejected). *)
Definition wsnap := list Z.
Definition w_snap (w : world) : wsnap :=
  let s := ps w in [pol_len (q s); acc s; drp s; act s; lim s; fin s; rej s].

Definition pevl_eqb := list_eqb pev_eqb.

Fixpoint ok_pipe_from (w : world) (tr : list (wlabel * list pev * wsnap * psnap)) : bool :=
  match tr with
  | [] => true
  | (l, out, sn, qsn) :: r =>
      match wstep w l with
      | None => false
      | Some (w', out') =>
          pevl_eqb out out' && zl_eqb sn (w_snap w') && psnap_eqb qsn (pol_snap (q (ps w')))
          && ok_pipe_from w' r
      end
  end.

Definition ok_pipeline (c : wkind * pol * Z * list (wlabel * list pev * wsnap * psnap)) : bool :=
  let '(k, p, limit, tr) := c in ok_pipe_from (w0 k p limit) tr.

(** Several resources of one run (servers feeding one another). *)
Definition ok_pipelines (cs : list (wkind * pol * Z * list (wlabel * list pev * wsnap * psnap))) : bool :=
  forallb ok_pipeline cs.
