(** C08 — tie between components/server/concurrency.py and the concurrency
    model [cmodel] of C08/IndModel.v, through the REGENERATED translation
    [Gen/ConcurrencyGen.v] (py2coq): FixedConcurrency, DynamicConcurrency
    (set_limit / scale_up / scale_down included) and WeightedConcurrency.
    Logging calls are no-ops; a ValueError is result 2, as in the model. *)
From HS Require Import Base.Prelude Base.PyLib C08.Model C08.IndModel C08.IndThms Gen.ConcurrencyGen.
Local Open Scope Z_scope.

Inductive cobj :=
| OFixed (c : FixedConcurrency)
| ODyn (c : DynamicConcurrency)
| OWeighted (c : WeightedConcurrency).

Definition cm_of (c : cobj) : cmodel :=
  match c with
  | OFixed c => CFixed (FixedConcurrency__max_concurrent c) (FixedConcurrency__active c)
  | ODyn c => CDyn (DynamicConcurrency__current_limit c) (DynamicConcurrency__min_limit c)
                   (DynamicConcurrency__max_limit c) (DynamicConcurrency__active c)
  | OWeighted c => CWeighted (WeightedConcurrency__total_capacity c) (WeightedConcurrency__used_capacity c)
  end.

Definition b2z (b : bool) : Z := if b then 1 else 0.

(** One operation on a code object, through the translated methods only. *)
Definition code_cm_step (c : cobj) (o : cop) : cobj * Z :=
  match c, o with
  | OFixed c, CAcquire w => let '(c', r) := FixedConcurrency_acquire c w in (OFixed c', b2z r)
  | OFixed c, CRelease w => (OFixed (fst (FixedConcurrency_release c w)), 0)
  | OFixed c, CHasCap w => (OFixed c, b2z (FixedConcurrency_has_capacity c w))
  | OFixed c, CSetLimit _ => (OFixed c, 0)
  | ODyn c, CAcquire w => let '(c', r) := DynamicConcurrency_acquire c w in (ODyn c', b2z r)
  | ODyn c, CRelease w => (ODyn (fst (DynamicConcurrency_release c w)), 0)
  | ODyn c, CHasCap w => (ODyn c, b2z (DynamicConcurrency_has_capacity c w))
  | ODyn c, CSetLimit n => (ODyn (fst (DynamicConcurrency_set_limit c n)), 0)
  | OWeighted c, CAcquire w =>
      match WeightedConcurrency_acquire c w with Some (c', r) => (OWeighted c', b2z r) | None => (OWeighted c, 2) end
  | OWeighted c, CRelease w =>
      match WeightedConcurrency_release c w with Some (c', _) => (OWeighted c', 0) | None => (OWeighted c, 2) end
  | OWeighted c, CHasCap w => (OWeighted c, b2z (WeightedConcurrency_has_capacity c w))
  | OWeighted c, CSetLimit _ => (OWeighted c, 0)
  end.

Fixpoint code_cm_run (c : cobj) (ops : list cop) : cobj :=
  match ops with [] => c | o :: r => code_cm_run (fst (code_cm_step c o)) r end.

Ltac conc_close :=
  cbn; tie_split; cbn; try reflexivity; try lia;
  try (f_equal; first [reflexivity | lia | (f_equal; lia)]).

(** Every operation of the translated classes is the model's operation. *)
Lemma tie_cm_step c o :
  cm_of (fst (code_cm_step c o)) = fst (cm_step (cm_of c) o) /\ snd (code_cm_step c o) = snd (cm_step (cm_of c) o).
Proof.
  destruct c as [[mx a]|[cur mn mx a]|[t u]], o as [w|w|w|n];
    unfold code_cm_step, cm_of, cm_step,
      FixedConcurrency_acquire, FixedConcurrency_release, FixedConcurrency_has_capacity,
      DynamicConcurrency_acquire, DynamicConcurrency_release, DynamicConcurrency_has_capacity, DynamicConcurrency_set_limit,
      WeightedConcurrency_acquire, WeightedConcurrency_release, WeightedConcurrency_has_capacity, b2z;
    cbn; try (destruct mx as [x|]); cbn; split; conc_close.
Qed.

(** scale_up / scale_down are set_limit (current +- amount); the read-only
    properties are the model's projections. *)
Lemma tie_cm_scale c k :
  cm_of (ODyn (fst (DynamicConcurrency_scale_up c k)))
    = fst (cm_step (cm_of (ODyn c)) (CSetLimit (DynamicConcurrency__current_limit c + k)))
  /\ cm_of (ODyn (fst (DynamicConcurrency_scale_down c k)))
    = fst (cm_step (cm_of (ODyn c)) (CSetLimit (DynamicConcurrency__current_limit c - k))).
Proof.
  destruct c as [cur mn mx a]. unfold DynamicConcurrency_scale_up, DynamicConcurrency_scale_down, DynamicConcurrency_set_limit.
  cbn. destruct mx as [x|]; cbn; split; reflexivity.
Qed.

Lemma tie_cm_reads cf cd cw :
  FixedConcurrency_active cf = cm_active (cm_of (OFixed cf)) /\ FixedConcurrency_limit cf = cm_limit (cm_of (OFixed cf))
  /\ FixedConcurrency_available cf = cm_limit (cm_of (OFixed cf)) - cm_active (cm_of (OFixed cf))
  /\ DynamicConcurrency_active cd = cm_active (cm_of (ODyn cd)) /\ DynamicConcurrency_limit cd = cm_limit (cm_of (ODyn cd))
  /\ DynamicConcurrency_available cd = Z.max 0 (cm_limit (cm_of (ODyn cd)) - cm_active (cm_of (ODyn cd)))
  /\ WeightedConcurrency_active cw = cm_active (cm_of (OWeighted cw)) /\ WeightedConcurrency_limit cw = cm_limit (cm_of (OWeighted cw))
  /\ WeightedConcurrency_available cw = cm_limit (cm_of (OWeighted cw)) - cm_active (cm_of (OWeighted cw)).
Proof. repeat split. Qed.

Lemma tie_cm_run ops : forall c, cm_of (code_cm_run c ops) = cm_run (cm_of c) ops.
Proof.
  induction ops as [|o ops IH]; intros c; [reflexivity|]. cbn [code_cm_run cm_run].
  rewrite IH. f_equal. apply tie_cm_step.
Qed.

(* ------------------------------------------------------------------ *)
(** * Code-level theorems *)

(** The concurrency classes AS TRANSLATED: for every sequence of acquire /
    release / has_capacity (any weights), the in-service count stays within
    [0, limit]; ... *)
Theorem code_concurrency_bound : forall ops c,
  Forall (fun o => match o with CSetLimit _ => False | _ => True end) ops ->
  cm_ok (cm_of c) -> cm_ok (cm_of (code_cm_run c ops)).
Proof. intros ops c Hall Hc. rewrite tie_cm_run. now apply concurrency_models_bound. Qed.

(** ... and, also across limit changes: a successful acquire never takes the
    count above the limit in force and strictly increases it; a refused acquire
    changes nothing; has_capacity(w) answers exactly whether acquire(w) would
    succeed (w >= 1). *)
Theorem code_acquire_respects_limit : forall c w,
  let '(c', r) := code_cm_step c (CAcquire w) in
  (r = 1 -> cm_active (cm_of c') <= cm_limit (cm_of c') /\ cm_active (cm_of c) < cm_active (cm_of c')) /\
  (r <> 1 -> cm_of c' = cm_of c) /\
  (1 <= w -> (snd (code_cm_step c (CHasCap w)) = 1 <-> r = 1)).
Proof.
  intros c w. destruct (code_cm_step c (CAcquire w)) as [c' r] eqn:E.
  pose proof (tie_cm_step c (CAcquire w)) as [T1 T2]. rewrite E in T1, T2. cbn [fst snd] in T1, T2.
  pose proof (tie_cm_step c (CHasCap w)) as [_ T3].
  destruct (cm_step (cm_of c) (CAcquire w)) as [m' r'] eqn:Em. cbn [fst snd] in T1, T2. subst r'.
  pose proof (acquire_respects_limit _ _ _ _ Em) as (A & B & C). rewrite T1, T3. repeat split.
  - apply A; assumption.
  - apply A; assumption.
  - intros Hr. rewrite (B Hr). reflexivity.
  - apply C; assumption.
  - apply C; assumption.
Qed.

Example code_conc_hyps :
  cm_ok (cm_of (OFixed (mkFixedConcurrency 2 0))) /\ cm_ok (cm_of (OWeighted (mkWeightedConcurrency 5 0)))
  /\ cm_ok (cm_of (ODyn (mkDynamicConcurrency 2 1 (Some 4) 0))).
Proof. unfold cm_ok. cbn. lia. Qed.
