(** C08 — tie between components/queue_policy.py and the policy model, through
    the REGENERATED translation [Gen/QueuePolicyGen.v] (py2coq): FIFOQueue,
    LIFOQueue, _PriorityEntry (its dataclass order) and PriorityQueue.

    Code objects hold item ids (the policies never look inside an item);
    [fifo_obj] / [lifo_obj] / [prio_obj] build the code object of a model state
    (the model keeps a LIFO stack newest first, the code appends on the right;
    the model heap is a list sorted by (key, insert order), which is what the
    translation renders [heapq] as).  Every tie lemma says: one operation of the
    translated class on the object of a model state yields the object of the
    model's next state and the model's observation, and never raises. *)
From HS Require Import Base.Prelude Base.PyLib C08.Model C08.Policies C08.PolicyThms Gen.QueuePolicyGen.
Local Open Scope Z_scope.

(* ------------------------------------------------------------------ *)
(** * Objects of model states *)

Definition fifo_obj (cap : option Z) (l : list item) : FIFOQueue := mkFIFOQueue cap (map iid l).
Definition lifo_obj (cap : option Z) (l : list item) : LIFOQueue := mkLIFOQueue cap (rev (map iid l)).
Definition enc (e : entry) : _PriorityEntry := mk_PriorityEntry (ekey e) (eord e) (iid (snd e)).
Definition prio_obj (cap : option Z) (ctr : Z) (h : list entry) : PriorityQueue :=
  mkPriorityQueue cap (map enc h) ctr.

Lemma cap_le_full cap n : py_cap_le cap n = cap_full cap n.
Proof. reflexivity. Qed.

Lemma zlen_len {A} (l : list A) : Z.of_nat (length l) = zlen l.
Proof. reflexivity. Qed.

Lemma nonempty_test {A} (l : list A) :
  negb (match l with [] => true | _ => false end) = match l with [] => false | _ => true end.
Proof. destruct l; reflexivity. Qed.

(* ------------------------------------------------------------------ *)
(** * FIFOQueue *)

Lemma tie_fifo_push cap l it balk :
  let '(s', ok) := pol_push balk it (PFifo cap l) in
  exists l', s' = PFifo cap l' /\ FIFOQueue_push (fifo_obj cap l) (iid it) = (fifo_obj cap l', ok).
Proof.
  cbn [pol_push]. unfold FIFOQueue_push, FIFOQueue_capacity, fifo_obj. cbn.
  change py_cap_le with cap_full; rewrite map_length. fold (zlen l).
  destruct (cap_full cap (zlen l)); eexists; split; try reflexivity.
  cbn. now rewrite map_app.
Qed.

Lemma tie_fifo_pop cap l now :
  let '(s', r, ex) := pol_pop now (PFifo cap l) in
  ex = [] /\ exists l', s' = PFifo cap l' /\
  FIFOQueue_pop (fifo_obj cap l) = Some (fifo_obj cap l', option_map iid r).
Proof.
  cbn [pol_pop]. unfold FIFOQueue_pop, fifo_obj. destruct l as [|it l]; cbn; split; try reflexivity; eexists; split; reflexivity.
Qed.

Lemma tie_fifo_read cap l :
  FIFOQueue_peek (fifo_obj cap l) = Some (option_map iid (hd_error l))
  /\ FIFOQueue___len__ (fifo_obj cap l) = pol_len (PFifo cap l)
  /\ FIFOQueue_is_empty (fifo_obj cap l) = (pol_len (PFifo cap l) =? 0)
  /\ FIFOQueue_capacity (fifo_obj cap l) = cap.
Proof.
  unfold FIFOQueue_peek, FIFOQueue___len__, FIFOQueue_is_empty, FIFOQueue_capacity, fifo_obj. cbn [FIFOQueue__queue FIFOQueue__capacity pol_len].
  rewrite map_length. repeat split. destruct l as [|it l]; reflexivity.
Qed.

(* ------------------------------------------------------------------ *)
(** * LIFOQueue *)

Lemma tie_lifo_push cap l it balk :
  let '(s', ok) := pol_push balk it (PLifo cap l) in
  exists l', s' = PLifo cap l' /\ LIFOQueue_push (lifo_obj cap l) (iid it) = (lifo_obj cap l', ok).
Proof.
  cbn [pol_push]. unfold LIFOQueue_push, LIFOQueue_capacity, lifo_obj. cbn [LIFOQueue__queue LIFOQueue__capacity].
  change py_cap_le with cap_full; rewrite rev_length, map_length. fold (zlen l).
  destruct (cap_full cap (zlen l)); eexists; split; try reflexivity.
Qed.

Lemma tie_lifo_pop cap l now :
  let '(s', r, ex) := pol_pop now (PLifo cap l) in
  ex = [] /\ exists l', s' = PLifo cap l' /\
  LIFOQueue_pop (lifo_obj cap l) = Some (lifo_obj cap l', option_map iid r).
Proof.
  cbn [pol_pop]. unfold LIFOQueue_pop, lifo_obj. cbn [LIFOQueue__queue].
  rewrite py_pop_last_rev.
  destruct l as [|it l]; cbn [map]; split; try reflexivity; eexists; (split; [reflexivity|]).
  - reflexivity.
  - cbn [rev]. destruct (rev (map iid l) ++ [iid it]) eqn:E; [destruct (rev (map iid l)); discriminate|]. reflexivity.
Qed.

Lemma tie_lifo_read cap l :
  LIFOQueue_peek (lifo_obj cap l) = Some (option_map iid (hd_error l))
  /\ LIFOQueue___len__ (lifo_obj cap l) = pol_len (PLifo cap l)
  /\ LIFOQueue_is_empty (lifo_obj cap l) = (pol_len (PLifo cap l) =? 0)
  /\ LIFOQueue_capacity (lifo_obj cap l) = cap.
Proof.
  unfold LIFOQueue_peek, LIFOQueue___len__, LIFOQueue_is_empty, LIFOQueue_capacity, lifo_obj. cbn [LIFOQueue__queue LIFOQueue__capacity pol_len].
  rewrite rev_length, map_length. repeat split. destruct l as [|it l]; [reflexivity|].
  cbn [map rev]. destruct (rev (map iid l) ++ [iid it]) eqn:E; [destruct (rev (map iid l)); discriminate|].
  rewrite <- E. unfold py_index. rewrite app_length. cbn [length].
  replace (-1 <? 0) with true by reflexivity.
  set (n := length (rev (map iid l))).
  replace ((-1 + Z.of_nat (n + 1) <? 0) || (-1 + Z.of_nat (n + 1) >=? Z.of_nat (n + 1))) with false by lia.
  replace (Z.to_nat (-1 + Z.of_nat (n + 1))) with n by lia.
  rewrite nth_error_app2 by (unfold n; lia). unfold n. rewrite Nat.sub_diag. reflexivity.
Qed.

(* ------------------------------------------------------------------ *)
(** * _PriorityEntry (dataclass order) and PriorityQueue *)

(** The order [@dataclass(order=True)] generates for _PriorityEntry is the
    model's heap order on (key, insert order); the item takes no part. *)
Lemma tie_entry_lt k o it e :
  _PriorityEntry___lt__ (enc (k, o, it)) (enc e) = entry_ltb k o e.
Proof.
  destruct e as [[k' o'] it']. unfold _PriorityEntry___lt__, enc, entry_ltb, ekey, eord. cbn.
  destruct (k <? k') eqn:?, (k =? k') eqn:?, (o <? o') eqn:?, (o =? o') eqn:?; cbn; try reflexivity; lia.
Qed.

Lemma tie_heappush k o it h :
  py_heappush _PriorityEntry___lt__ (map enc h) (enc (k, o, it)) = map enc (ins k o it h).
Proof.
  induction h as [|e h IH]; cbn [map py_heappush ins]; [reflexivity|].
  rewrite tie_entry_lt. destruct (entry_ltb k o e); cbn [map]; [reflexivity|]. now rewrite IH.
Qed.

(** [push]: the code's [_get_priority(item)] is the item's priority key. *)
Lemma tie_prio_push cap ctr h it balk :
  let '(s', ok) := pol_push balk it (PPrio cap ctr h) in
  exists ctr' h', s' = PPrio cap ctr' h' /\
  PriorityQueue_push (prio_obj cap ctr h) (iid it) (iprio it) = (prio_obj cap ctr' h', ok).
Proof.
  cbn [pol_push]. unfold PriorityQueue_push, PriorityQueue_capacity, prio_obj.
  cbn [PriorityQueue__heap PriorityQueue__capacity PriorityQueue__insert_counter].
  change py_cap_le with cap_full; rewrite map_length. fold (zlen h).
  destruct (cap_full cap (zlen h)); do 2 eexists; split; try reflexivity.
  cbn. change (mk_PriorityEntry (iprio it) ctr (iid it)) with (enc (iprio it, ctr, it)).
  now rewrite tie_heappush.
Qed.

Lemma tie_prio_pop cap ctr h now :
  let '(s', r, ex) := pol_pop now (PPrio cap ctr h) in
  ex = [] /\ exists h', s' = PPrio cap ctr h' /\
  PriorityQueue_pop (prio_obj cap ctr h) = Some (prio_obj cap ctr h', option_map iid r).
Proof.
  cbn [pol_pop]. unfold PriorityQueue_pop, prio_obj. destruct h as [|[[k o] it] h]; cbn; split; try reflexivity; eexists; split; reflexivity.
Qed.

Lemma tie_prio_read cap ctr h :
  PriorityQueue_peek (prio_obj cap ctr h) = Some (option_map (fun e : entry => iid (snd e)) (hd_error h))
  /\ PriorityQueue___len__ (prio_obj cap ctr h) = pol_len (PPrio cap ctr h)
  /\ PriorityQueue_is_empty (prio_obj cap ctr h) = (pol_len (PPrio cap ctr h) =? 0)
  /\ PriorityQueue_capacity (prio_obj cap ctr h) = cap.
Proof.
  unfold PriorityQueue_peek, PriorityQueue___len__, PriorityQueue_is_empty, PriorityQueue_capacity, prio_obj.
  cbn [PriorityQueue__heap PriorityQueue__capacity pol_len]. rewrite map_length. repeat split.
  destruct h as [|[[k o] it] h]; reflexivity.
Qed.

(* ------------------------------------------------------------------ *)
(** * Runs of the translated classes

    One step of a code object under a model operation ([OPush _ it]: push the
    item's id, for PriorityQueue with [_get_priority] returning [iprio it];
    [OPop _]: pop), [None] when the translated method raises. *)

Definition fifo_code_step (q : FIFOQueue) (o : pop_op) : option (FIFOQueue * pobs) :=
  match o with
  | OPush _ it => let '(q', ok) := FIFOQueue_push q (iid it) in Some (q', (ok, None, []))
  | OPop _ => match FIFOQueue_pop q with Some (q', r) => Some (q', (true, r, [])) | None => None end
  end.

Definition lifo_code_step (q : LIFOQueue) (o : pop_op) : option (LIFOQueue * pobs) :=
  match o with
  | OPush _ it => let '(q', ok) := LIFOQueue_push q (iid it) in Some (q', (ok, None, []))
  | OPop _ => match LIFOQueue_pop q with Some (q', r) => Some (q', (true, r, [])) | None => None end
  end.

Definition prio_code_step (q : PriorityQueue) (o : pop_op) : option (PriorityQueue * pobs) :=
  match o with
  | OPush _ it => let '(q', ok) := PriorityQueue_push q (iid it) (iprio it) in Some (q', (ok, None, []))
  | OPop _ => match PriorityQueue_pop q with Some (q', r) => Some (q', (true, r, [])) | None => None end
  end.

Fixpoint code_run {Q} (step : Q -> pop_op -> option (Q * pobs)) (q : Q) (ops : list pop_op) : option (Q * list pobs) :=
  match ops with
  | [] => Some (q, [])
  | o :: r => match step q o with
              | None => None
              | Some (q1, ob) => match code_run step q1 r with
                                 | None => None
                                 | Some (q2, obs) => Some (q2, ob :: obs)
                                 end
              end
  end.

Lemma fifo_step_sim cap l o :
  exists l', pol_step (PFifo cap l) o = (PFifo cap l', snd (pol_step (PFifo cap l) o))
  /\ fifo_code_step (fifo_obj cap l) o = Some (fifo_obj cap l', snd (pol_step (PFifo cap l) o)).
Proof.
  destruct o as [balk it|now]; cbn [pol_step fifo_code_step].
  - pose proof (tie_fifo_push cap l it balk) as T. destruct (pol_push balk it (PFifo cap l)) as [s' ok].
    destruct T as (l' & -> & E). exists l'. rewrite E. split; reflexivity.
  - pose proof (tie_fifo_pop cap l now) as T. destruct (pol_pop now (PFifo cap l)) as [[s' r] ex].
    destruct T as (-> & l' & -> & E). exists l'. rewrite E. split; reflexivity.
Qed.

Lemma lifo_step_sim cap l o :
  exists l', pol_step (PLifo cap l) o = (PLifo cap l', snd (pol_step (PLifo cap l) o))
  /\ lifo_code_step (lifo_obj cap l) o = Some (lifo_obj cap l', snd (pol_step (PLifo cap l) o)).
Proof.
  destruct o as [balk it|now]; cbn [pol_step lifo_code_step].
  - pose proof (tie_lifo_push cap l it balk) as T. destruct (pol_push balk it (PLifo cap l)) as [s' ok].
    destruct T as (l' & -> & E). exists l'. rewrite E. split; reflexivity.
  - pose proof (tie_lifo_pop cap l now) as T. destruct (pol_pop now (PLifo cap l)) as [[s' r] ex].
    destruct T as (-> & l' & -> & E). exists l'. rewrite E. split; reflexivity.
Qed.

Lemma prio_step_sim cap ctr h o :
  exists ctr' h', pol_step (PPrio cap ctr h) o = (PPrio cap ctr' h', snd (pol_step (PPrio cap ctr h) o))
  /\ prio_code_step (prio_obj cap ctr h) o = Some (prio_obj cap ctr' h', snd (pol_step (PPrio cap ctr h) o)).
Proof.
  destruct o as [balk it|now]; cbn [pol_step prio_code_step].
  - pose proof (tie_prio_push cap ctr h it balk) as T. destruct (pol_push balk it (PPrio cap ctr h)) as [s' ok].
    destruct T as (ctr' & h' & -> & E). exists ctr', h'. rewrite E. split; reflexivity.
  - pose proof (tie_prio_pop cap ctr h now) as T. destruct (pol_pop now (PPrio cap ctr h)) as [[s' r] ex].
    destruct T as (-> & h' & -> & E). exists ctr, h'. rewrite E. split; reflexivity.
Qed.

(** The translated classes simulate the model on every operation sequence, and never raise. *)
Lemma fifo_run_sim ops : forall cap l,
  exists l', pol_run (PFifo cap l) ops = (PFifo cap l', snd (pol_run (PFifo cap l) ops))
  /\ code_run fifo_code_step (fifo_obj cap l) ops = Some (fifo_obj cap l', snd (pol_run (PFifo cap l) ops)).
Proof.
  induction ops as [|o ops IH]; intros cap l; [exists l; split; reflexivity|].
  destruct (fifo_step_sim cap l o) as (l1 & E1 & C1).
  cbn [pol_run code_run]. rewrite C1. destruct (pol_step (PFifo cap l) o) as [s1 ob] eqn:Es.
  cbn [snd] in *. inversion E1; subst s1.
  destruct (IH cap l1) as (l2 & E2 & C2). rewrite C2.
  destruct (pol_run (PFifo cap l1) ops) as [s2 obs] eqn:Er. cbn [snd] in *. inversion E2; subst s2.
  exists l2. split; reflexivity.
Qed.

Lemma lifo_run_sim ops : forall cap l,
  exists l', pol_run (PLifo cap l) ops = (PLifo cap l', snd (pol_run (PLifo cap l) ops))
  /\ code_run lifo_code_step (lifo_obj cap l) ops = Some (lifo_obj cap l', snd (pol_run (PLifo cap l) ops)).
Proof.
  induction ops as [|o ops IH]; intros cap l; [exists l; split; reflexivity|].
  destruct (lifo_step_sim cap l o) as (l1 & E1 & C1).
  cbn [pol_run code_run]. rewrite C1. destruct (pol_step (PLifo cap l) o) as [s1 ob] eqn:Es.
  cbn [snd] in *. inversion E1; subst s1.
  destruct (IH cap l1) as (l2 & E2 & C2). rewrite C2.
  destruct (pol_run (PLifo cap l1) ops) as [s2 obs] eqn:Er. cbn [snd] in *. inversion E2; subst s2.
  exists l2. split; reflexivity.
Qed.

Lemma prio_run_sim ops : forall cap ctr h,
  exists ctr' h', pol_run (PPrio cap ctr h) ops = (PPrio cap ctr' h', snd (pol_run (PPrio cap ctr h) ops))
  /\ code_run prio_code_step (prio_obj cap ctr h) ops = Some (prio_obj cap ctr' h', snd (pol_run (PPrio cap ctr h) ops)).
Proof.
  induction ops as [|o ops IH]; intros cap ctr h; [exists ctr, h; split; reflexivity|].
  destruct (prio_step_sim cap ctr h o) as (c1 & h1 & E1 & C1).
  cbn [pol_run code_run]. rewrite C1. destruct (pol_step (PPrio cap ctr h) o) as [s1 ob] eqn:Es.
  cbn [snd] in *. inversion E1; subst s1.
  destruct (IH cap c1 h1) as (c2 & h2 & E2 & C2). rewrite C2.
  destruct (pol_run (PPrio cap c1 h1) ops) as [s2 obs] eqn:Er. cbn [snd] in *. inversion E2; subst s2.
  exists c2, h2. split; reflexivity.
Qed.

(* ------------------------------------------------------------------ *)
(** * Code-level theorems (about the translated classes themselves) *)

Definition mkit (i : Z) : item := MkItem i 0 0 0 0.

Lemma map_iid_mkit ids : map iid (map mkit ids) = ids.
Proof. induction ids as [|i r IH]; cbn; [reflexivity|]. now rewrite IH. Qed.

(** FIFOQueue as translated: from ANY object (capacity, held ids), every
    sequence of push / pop runs without raising; the ids held at the start
    followed by the accepted ones are exactly the popped ones followed by the
    ones still held, in order; the number held never exceeds a capacity it
    respected at the start. *)
Theorem code_fifo_order : forall ops cap ids,
  exists q' obs, code_run fifo_code_step (mkFIFOQueue cap ids) ops = Some (q', obs)
  /\ ids ++ accepted_ids ops obs = popped_ids ops obs ++ FIFOQueue__queue q'
  /\ FIFOQueue__capacity q' = cap
  /\ (le_cap (zlen ids) cap -> le_cap (FIFOQueue___len__ q') cap).
Proof.
  intros ops cap ids. destruct (fifo_run_sim ops cap (map mkit ids)) as (l' & E & C).
  unfold fifo_obj in C. rewrite map_iid_mkit in C. do 2 eexists. split; [exact C|].
  destruct (pol_run (PFifo cap (map mkit ids)) ops) as [s' obs] eqn:Er. cbn [snd] in *. inversion E; subst s'.
  pose proof (fifo_order _ _ _ _ _ Er) as F. rewrite map_iid_mkit in F. cbn [pol_ids] in F.
  repeat split; [exact F|].
  intros Hc.
  assert (W0 : within_cap (PFifo cap (map mkit ids))) by (cbn [within_cap]; unfold zlen in *; rewrite map_length; exact Hc).
  pose proof (policy_capacity _ _ _ _ W0 Er) as W. cbn [within_cap] in W.
  unfold FIFOQueue___len__. cbn [FIFOQueue__queue]. unfold zlen in W. rewrite map_length. exact W.
Qed.

(** LIFOQueue as translated: every pop returns the most recently accepted id
    not yet popped (the held ids, newest LAST in the code's deque). *)
Theorem code_lifo_order : forall ops cap ids,
  exists q' obs, code_run lifo_code_step (mkLIFOQueue cap ids) ops = Some (q', obs)
  /\ lifo_ok ops obs (rev ids)
  /\ LIFOQueue__capacity q' = cap
  /\ (le_cap (zlen ids) cap -> le_cap (LIFOQueue___len__ q') cap).
Proof.
  intros ops cap ids. destruct (lifo_run_sim ops cap (map mkit (rev ids))) as (l' & E & C).
  unfold lifo_obj in C. rewrite map_iid_mkit, rev_involutive in C. do 2 eexists. split; [exact C|].
  destruct (pol_run (PLifo cap (map mkit (rev ids))) ops) as [s' obs] eqn:Er. cbn [snd] in *. inversion E; subst s'.
  pose proof (lifo_order _ _ _ _ _ Er) as F. rewrite map_iid_mkit in F.
  repeat split; [exact F|].
  intros Hc.
  assert (W0 : within_cap (PLifo cap (map mkit (rev ids)))) by (cbn [within_cap]; unfold zlen in *; rewrite map_length, rev_length; exact Hc).
  pose proof (policy_capacity _ _ _ _ W0 Er) as W. cbn [within_cap] in W.
  unfold LIFOQueue___len__. cbn [LIFOQueue__queue]. unfold zlen in W. rewrite rev_length, map_length. exact W.
Qed.

(** PriorityQueue as translated, started empty: after any sequence of
    operations a successful pop returns the item of an entry that is strictly
    below every entry left in the heap in (priority, insertion order) — lowest
    priority value first, FIFO among equal priorities; nothing raises. *)
Theorem code_priority_order : forall ops cap,
  exists q' obs, code_run prio_code_step (mkPriorityQueue cap [] 0) ops = Some (q', obs)
  /\ PriorityQueue__capacity q' = cap
  /\ (le_cap 0 cap -> le_cap (PriorityQueue___len__ q') cap)
  /\ forall q'' x, PriorityQueue_pop q' = Some (q'', Some x) ->
       exists e, PriorityQueue__heap q' = e :: PriorityQueue__heap q'' /\ _PriorityEntry_item e = x
         /\ Forall (fun e' => _PriorityEntry___lt__ e e' = true) (PriorityQueue__heap q'').
Proof.
  intros ops cap. destruct (prio_run_sim ops cap 0 []) as (ctr & h & E & C).
  change (prio_obj cap 0 []) with (mkPriorityQueue cap [] 0) in C. do 2 eexists. split; [exact C|].
  destruct (pol_run (PPrio cap 0 []) ops) as [s' obs] eqn:Er. cbn [snd] in *. inversion E; subst s'.
  split; [reflexivity|]. split.
  { intros Hc. assert (W0 : within_cap (PPrio cap 0 [])) by exact Hc.
    pose proof (policy_capacity _ _ _ _ W0 Er) as W. cbn [within_cap] in W.
    unfold PriorityQueue___len__, prio_obj. cbn [PriorityQueue__heap]. unfold zlen in W. rewrite map_length. exact W. }
  intros q'' x Hp.
  assert (Hi : prio_inv (PPrio cap ctr h)).
  { eapply heap_order_inv; [|exact Er]. cbn. split; [exact I|constructor]. }
  cbn [prio_inv] in Hi. unfold PriorityQueue_pop, prio_obj in Hp. cbn [PriorityQueue__heap] in Hp.
  destruct h as [|[[k o] it] h']; cbn in Hp; [discriminate|]. inversion Hp; subst q'' x. clear Hp.
  destruct Hi as [[Hlt _] _]. unfold prio_obj. cbn [PriorityQueue__heap map].
  eexists. split; [reflexivity|]. split; [reflexivity|].
  apply Forall_map. apply Forall_forall. intros e He. rewrite Forall_forall in Hlt. specialize (Hlt e He).
  rewrite tie_entry_lt. apply (entry_ltb_spec _ _ it). exact Hlt.
Qed.
