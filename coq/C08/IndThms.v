(** C08 — theorems about the self-contained industrial components, over all
    schedules of their own pending events. *)
From HS Require Import Base.Prelude C08.Model C08.Policies C08.IndModel.
Local Open Scope Z_scope.

(* ================================================================== *)
(** * PooledCycleResource *)

Definition rt_ind (x : Z) (e : pcev) : Z := match e with CRetry y => ind x y | _ => 0 end.
Definition sc_ind (x : Z) (e : pcev) : Z := match e with CCont y => ind x y | _ => 0 end.

Lemma pcev_eqb_eq a b : pcev_eqb a b = true -> a = b.
Proof. destruct a, b; cbn; intros H; try discriminate; apply Z.eqb_eq in H; now subst. Qed.

Lemma pc_retry_cons x e l : cnt x (pc_retry (e :: l)) = rt_ind x e + cnt x (pc_retry l).
Proof. destruct e; cbn; unfold ind; lia. Qed.
Lemma pc_service_cons x e l : cnt x (pc_service (e :: l)) = sc_ind x e + cnt x (pc_service l).
Proof. destruct e; cbn; unfold ind; lia. Qed.

Lemma pc_retry_app x a b : cnt x (pc_retry (a ++ b)) = cnt x (pc_retry a) + cnt x (pc_retry b).
Proof. induction a as [|e a IH]; [cbn; lia|]. rewrite <- app_comm_cons, !pc_retry_cons, IH. lia. Qed.
Lemma pc_service_app x a b : cnt x (pc_service (a ++ b)) = cnt x (pc_service a) + cnt x (pc_service b).
Proof. induction a as [|e a IH]; [cbn; lia|]. rewrite <- app_comm_cons, !pc_service_cons, IH. lia. Qed.

Lemma pc_remove_cnt x e : forall l rest, pc_remove e l = Some rest ->
  cnt x (pc_retry l) = rt_ind x e + cnt x (pc_retry rest) /\
  cnt x (pc_service l) = sc_ind x e + cnt x (pc_service rest).
Proof.
  induction l as [|f l IH]; cbn [pc_remove]; intros rest H; [discriminate|].
  destruct (pcev_eqb e f) eqn:E.
  - apply pcev_eqb_eq in E. inversion H; subst. split; [apply pc_retry_cons|apply pc_service_cons].
  - destruct (pc_remove e l) as [r'|]; [|discriminate]. inversion H; subst.
    destruct (IH _ eq_refl) as [H1 H2]. rewrite !pc_retry_cons, !pc_service_cons. lia.
Qed.

Definition pc_arr_ind (x : Z) (l : pclabel) : Z := match l with CArrive y => ind x y | _ => 0 end.

(** [pc_arrive] puts the item in exactly one of: service, queue, rejected. *)
Lemma pc_arrive_spec s y s' out : pc_arrive s y = (s', out) ->
  forall x,
  cnt x (pc_q s') + cnt x (pc_service out) + (if pc_rejected s s' then ind x y else 0) = cnt x (pc_q s) + ind x y
  /\ cnt x (pc_retry out) = 0.
Proof.
  unfold pc_arrive, pc_rejected. intros H x.
  destruct (0 <? pc_avail s).
  - inversion H; subst; cbn. replace (pc_rej s =? pc_rej s + 1) with false by (symmetry; apply Z.eqb_neq; lia).
    unfold ind. lia.
  - destruct ((0 <? pc_cap s) && (pc_cap s <=? zlen (pc_q s))); inversion H; subst; cbn.
    + rewrite Z.eqb_refl. lia.
    + replace (pc_rej s =? pc_rej s + 1) with false by (symmetry; apply Z.eqb_neq; lia).
      rewrite cnt_app. cbn. unfold ind. lia.
Qed.

Lemma pc_resume_spec s s' out : pc_resume s = (s', out) ->
  forall x, cnt x (pc_q s') + cnt x (pc_retry out) = cnt x (pc_q s) /\ cnt x (pc_service out) = 0.
Proof.
  unfold pc_resume. intros H x. destruct (pc_q s) as [|y r] eqn:Eq.
  - inversion H; subst. cbn. lia.
  - destruct (0 <? pc_avail s + 1); inversion H; subst; cbn; rewrite ?Eq; cbn; unfold ind; lia.
Qed.

Lemma pcw_step_places x w l w' out :
  pcw_step w l = Some (w', out) -> pc_places w' x = pc_places w x + pc_arr_ind x l.
Proof.
  unfold pcw_step. destruct l as [y|e].
  - destruct (pc_arrive (pw_s w) y) as [s' o] eqn:E. intros H; inversion H; subst; clear H.
    destruct (pc_arrive_spec _ _ _ _ E x) as [H1 H2].
    unfold pc_places; cbn [pw_s pw_pend pw_rej pw_done pc_arr_ind]. rewrite pc_retry_app, pc_service_app.
    destruct (pc_rejected (pw_s w) s'); cbn [cnt]; unfold ind in *; lia.
  - destruct (pc_remove e (pw_pend w)) as [rest|] eqn:Er; [|discriminate].
    destruct (pc_remove_cnt x _ _ _ Er) as [Hr Hs].
    destruct e as [y|y]; cbn [rt_ind sc_ind] in *.
    + destruct (pc_resume (pw_s w)) as [s' o] eqn:E. intros H; inversion H; subst; clear H.
      destruct (pc_resume_spec _ _ _ E x) as [H1 H2].
      unfold pc_places; cbn [pw_s pw_pend pw_rej pw_done pc_arr_ind]. rewrite pc_retry_app, pc_service_app.
      cbn [cnt]. unfold ind in *. lia.
    + destruct (pc_arrive (pw_s w) y) as [s' o] eqn:E. intros H; inversion H; subst; clear H.
      destruct (pc_arrive_spec _ _ _ _ E x) as [H1 H2].
      unfold pc_places; cbn [pw_s pw_pend pw_rej pw_done pc_arr_ind]. rewrite pc_retry_app, pc_service_app.
      destruct (pc_rejected (pw_s w) s'); cbn [cnt]; unfold ind in *; lia.
Qed.

Lemma pcw_run_places x : forall ls w w',
  pcw_run w ls = Some w' -> pc_places w' x = pc_places w x + cnt x (pc_arrivals ls).
Proof.
  induction ls as [|l ls IH]; cbn [pcw_run]; intros w w' H.
  - inversion H; subst. cbn. lia.
  - destruct (pcw_step w l) as [[w1 out]|] eqn:E; [|discriminate].
    apply (pcw_step_places x) in E. rewrite (IH _ _ H), E.
    destruct l; cbn [pc_arrivals pc_arr_ind cnt]; unfold ind; lia.
Qed.

Theorem pooled_conservation : forall size cap ls w x,
  pcw_run (pcw0 size cap) ls = Some w -> NoDup (pc_arrivals ls) ->
  (In x (pc_arrivals ls) -> pc_places w x = 1) /\ (~ In x (pc_arrivals ls) -> pc_places w x = 0).
Proof.
  intros size cap ls w x Hr Hnd. rewrite (pcw_run_places x _ _ _ Hr).
  replace (pc_places (pcw0 size cap) x) with 0 by (unfold pc_places, pcw0; cbn; lia).
  pose proof (cnt_nodup x _ Hnd). pose proof (cnt_in x (pc_arrivals ls)). pose proof (cnt_nonneg x (pc_arrivals ls)).
  split; intros Hin; [apply H0 in Hin; lia|]. assert (~ 0 < cnt x (pc_arrivals ls)) by tauto. lia.
Qed.

(** Units: active + available = pool size, available never negative, and an
    item waits only while every unit is busy or promised to a re-emitted item. *)
Fixpoint zl_retry (l : list pcev) : Z :=
  match l with [] => 0 | CRetry _ :: r => 1 + zl_retry r | _ :: r => zl_retry r end.

Lemma zl_retry_app a b : zl_retry (a ++ b) = zl_retry a + zl_retry b.
Proof. induction a as [|e a IH]; [reflexivity|]. rewrite <- app_comm_cons. destruct e; cbn [zl_retry]; rewrite IH; lia. Qed.

Lemma zl_retry_nonneg l : 0 <= zl_retry l.
Proof. induction l as [|e l IH]; cbn [zl_retry]; [lia|destruct e; lia]. Qed.

Lemma pc_remove_retry e : forall l rest, pc_remove e l = Some rest ->
  zl_retry l = (match e with CRetry _ => 1 | _ => 0 end) + zl_retry rest.
Proof.
  induction l as [|f l IH]; cbn [pc_remove]; intros rest H; [discriminate|].
  destruct (pcev_eqb e f) eqn:E.
  - apply pcev_eqb_eq in E. inversion H; subst. destruct f; cbn; lia.
  - destruct (pc_remove e l) as [r'|]; [|discriminate]. inversion H; subst.
    specialize (IH _ eq_refl). destruct f; cbn [zl_retry]; lia.
Qed.

Definition pc_inv (size : Z) (w : pcw) : Prop :=
  let s := pw_s w in
  pc_act s + pc_avail s = size /\ 0 <= pc_avail s /\
  (pc_q s <> [] -> pc_avail s <= zl_retry (pw_pend w)).

Lemma pcw_step_inv size w l w' out : pcw_step w l = Some (w', out) -> pc_inv size w -> pc_inv size w'.
Proof.
  unfold pcw_step, pc_inv. intros H (Hsum & Hnn & Hq).
  pose proof (zl_retry_nonneg (pw_pend w)) as Hr0.
  destruct l as [y|e].
  - unfold pc_arrive in H. destruct (0 <? pc_avail (pw_s w)) eqn:Ea.
    + inversion H; subst; clear H; cbn [pw_s pw_pend pc_act pc_avail pc_q]. apply Z.ltb_lt in Ea.
      rewrite zl_retry_app. cbn [zl_retry]. repeat split; try lia; try (intros Hne; specialize (Hq Hne); lia).
    + apply Z.ltb_ge in Ea.
      destruct ((0 <? pc_cap (pw_s w)) && (pc_cap (pw_s w) <=? zlen (pc_q (pw_s w))));
        inversion H; subst; clear H; cbn [pw_s pw_pend pc_act pc_avail pc_q]; rewrite app_nil_r;
        repeat split; try lia; try (intros _; lia).
  - destruct (pc_remove e (pw_pend w)) as [rest|] eqn:Er; [|discriminate].
    pose proof (pc_remove_retry _ _ _ Er) as Hrr. pose proof (zl_retry_nonneg rest) as Hr1.
    destruct e as [y|y].
    + unfold pc_resume in H. destruct (pc_q (pw_s w)) as [|z r] eqn:Eq.
      * inversion H; subst; clear H; cbn [pw_s pw_pend pc_act pc_avail pc_q]. repeat split; try lia; try (intros C; now elim C).
      * assert (Hq' : pc_avail (pw_s w) <= zl_retry (pw_pend w)) by (apply Hq; discriminate).
        destruct (0 <? pc_avail (pw_s w) + 1) eqn:Eb; [apply Z.ltb_lt in Eb|apply Z.ltb_ge in Eb];
          inversion H; subst; clear H; cbn [pw_s pw_pend pc_act pc_avail pc_q];
          rewrite zl_retry_app; cbn [zl_retry]; repeat split; try lia; try (intros _; lia).
    + unfold pc_arrive in H. destruct (0 <? pc_avail (pw_s w)) eqn:Ea.
      * inversion H; subst; clear H; cbn [pw_s pw_pend pc_act pc_avail pc_q]. apply Z.ltb_lt in Ea.
        rewrite zl_retry_app. cbn [zl_retry]. repeat split; try lia; try (intros Hne; specialize (Hq Hne); lia).
      * apply Z.ltb_ge in Ea.
        destruct ((0 <? pc_cap (pw_s w)) && (pc_cap (pw_s w) <=? zlen (pc_q (pw_s w))));
          inversion H; subst; clear H; cbn [pw_s pw_pend pc_act pc_avail pc_q]; rewrite app_nil_r;
          repeat split; try lia; try (intros _; lia).
Qed.

Lemma pcw_run_inv size : forall ls w w', pcw_run w ls = Some w' -> pc_inv size w -> pc_inv size w'.
Proof.
  induction ls as [|l ls IH]; cbn [pcw_run]; intros w w' H Hi; [now inversion H; subst|].
  destruct (pcw_step w l) as [[w1 out]|] eqn:E; [|discriminate]. eapply IH; eauto. eapply pcw_step_inv; eauto.
Qed.

(** Bound and (full) no-stranding for the pool: never more than [size] cycles
    running; when no re-emitted item is in flight and an item waits, no unit is
    free. *)
Theorem pooled_bound_no_stranding : forall size cap ls w,
  0 <= size -> pcw_run (pcw0 size cap) ls = Some w ->
  pc_act (pw_s w) <= size /\ 0 <= pc_avail (pw_s w) /\
  (zl_retry (pw_pend w) = 0 -> pc_q (pw_s w) <> [] -> pc_avail (pw_s w) = 0).
Proof.
  intros size cap ls w Hs Hr.
  assert (H0 : pc_inv size (pcw0 size cap)).
  { unfold pc_inv, pcw0. cbn. repeat split; try lia; try (intros C; now elim C). }
  destruct (pcw_run_inv size _ _ _ Hr H0) as (Hsum & Hnn & Hq).
  repeat split; try lia; try (intros Hz Hne; specialize (Hq Hne); lia).
Qed.

(** The waiting line is NOT first-come-first-served: a dequeued item travels
    as a new event; an arrival handled before it takes the freed unit and the
    dequeued item is re-queued BEHIND items that arrived after it (or rejected
    when the queue is full).  Witness recorded from a real run
    (corpus/C08/industrial.pooled_retry_loses_slot.json). *)
Fixpoint subseqb (a b : list Z) : bool :=
  match a, b with
  | [], _ => true
  | _ :: _, [] => false
  | x :: a', y :: b' => if x =? y then subseqb a' b' else subseqb a b'
  end.

Definition pooled_fifo_statement : Prop :=
  forall size cap ls w, pcw_run (pcw0 size cap) ls = Some w -> NoDup (pc_arrivals ls) ->
    subseqb (pc_q (pw_s w)) (pc_arrivals ls) = true.

Definition pooled_witness : list pclabel :=
  [CArrive 0; CArrive 1; CArrive 2; CFire (CCont 0); CArrive 3; CFire (CRetry 1)].

Lemma pooled_fifo_refuted : ~ pooled_fifo_statement.
Proof.
  intros H. specialize (H 1 0 pooled_witness).
  destruct (pcw_run (pcw0 1 0) pooled_witness) as [w|] eqn:E; [|vm_compute in E; discriminate].
  assert (Hnd : NoDup (pc_arrivals pooled_witness)) by (cbn; repeat constructor; cbn; intuition discriminate).
  specialize (H w eq_refl Hnd). vm_compute in E. inversion E; subst. vm_compute in H. discriminate.
Qed.

(* ================================================================== *)
(** * GateController *)

Definition g_inv (s : gts) : Prop :=
  (g_open s = true -> g_q s = []) /\ (0 < g_cap s -> zlen (g_q s) <= g_cap s).

Lemma g_step_inv s i s' out : g_step s i = (s', out) -> g_inv s -> g_inv s'.
Proof.
  unfold g_step, g_inv. intros H [Ho Hc]. destruct i as [x| |].
  - destruct (g_open s) eqn:Eo.
    + inversion H; subst; cbn. split; auto.
    + destruct ((0 <? g_cap s) && (g_cap s <=? zlen (g_q s))) eqn:Ec; inversion H; subst; cbn.
      * split; [discriminate|auto].
      * split; [discriminate|]. intros Hp. rewrite zlen_app, zlen_cons. change (zlen (@nil Z)) with 0.
        apply andb_false_iff in Ec. destruct Ec as [Ec|Ec]; [apply Z.ltb_ge in Ec; lia|apply Z.leb_gt in Ec; lia].
  - destruct (g_open s) eqn:Eo; inversion H; subst; cbn; [rewrite Eo; auto|].
    split; [reflexivity|]. intros Hp. change (zlen (@nil Z)) with 0. lia.
  - destruct (g_open s) eqn:Eo; inversion H; subst; cbn; [|rewrite Eo; auto].
    split; [discriminate|auto].
Qed.

(** Conservation and FIFO in one: what was forwarded, followed by what is
    queued, is exactly the sequence of non-rejected arrivals, in arrival order. *)
Lemma gate_fifo_gen : forall ins s s' outs rejs accs,
  g_inv s -> g_run s ins = (s', outs, rejs, accs) ->
  outs ++ g_q s' = g_q s ++ accs /\ g_inv s'.
Proof.
  induction ins as [|i ins IH]; cbn [g_run]; intros s s' outs rejs accs Hi H.
  - inversion H; subst. rewrite app_nil_r. auto.
  - destruct (g_step s i) as [s1 out] eqn:E1. destruct (g_run s1 ins) as [[[s2 o2] r2] a2] eqn:E2.
    pose proof (g_step_inv _ _ _ _ E1 Hi) as Hi1.
    destruct (IH _ _ _ _ _ Hi1 E2) as [Heq Hi2].
    destruct Hi as [Ho Hc]. unfold g_step, g_rejected in *.
    destruct i as [x| |].
    + destruct (g_open s) eqn:Eo.
      * inversion E1; subst; cbn [g_rej g_q] in *.
        replace (g_rej s =? g_rej s + 1) with false in H by (symmetry; apply Z.eqb_neq; lia).
        inversion H; subst. rewrite (Ho eq_refl) in *. cbn in *. split; [now rewrite Heq|auto].
      * destruct ((0 <? g_cap s) && (g_cap s <=? zlen (g_q s))); inversion E1; subst; cbn [g_rej g_q] in *.
        -- rewrite Z.eqb_refl in H. inversion H; subst. cbn. auto.
        -- replace (g_rej s =? g_rej s + 1) with false in H by (symmetry; apply Z.eqb_neq; lia).
           inversion H; subst. cbn. rewrite Heq, <- app_assoc. auto.
    + destruct (g_open s) eqn:Eo; inversion E1; subst; inversion H; subst; cbn [g_q] in *.
      * cbn. auto.
      * rewrite <- app_assoc, Heq. cbn. auto.
    + destruct (g_open s) eqn:Eo; inversion E1; subst; inversion H; subst; cbn [g_q] in *; cbn; auto.
Qed.

Theorem gate_fifo_conservation : forall cap opened ins s' outs rejs accs,
  g_run (g0 cap opened) ins = (s', outs, rejs, accs) ->
  outs ++ g_q s' = accs /\ (0 < cap -> zlen (g_q s') <= cap) /\ (g_open s' = true -> g_q s' = []).
Proof.
  intros cap opened ins s' outs rejs accs H.
  assert (Hi : g_inv (g0 cap opened)) by (unfold g_inv, g0; cbn; split; [auto|intros; change (zlen (@nil Z)) with 0; lia]).
  destruct (gate_fifo_gen _ _ _ _ _ _ Hi H) as [Heq [Ho Hc]]. cbn in Heq.
  assert (Hcap : forall ins s s' o r a, g_run s ins = (s', o, r, a) -> g_cap s' = g_cap s).
  { clear. induction ins as [|i ins IH]; cbn [g_run]; intros s s' o r a H; [now inversion H|].
    destruct (g_step s i) as [s1 out] eqn:E1. destruct (g_run s1 ins) as [[[s2 o2] r2] a2] eqn:E2.
    assert (g_cap s1 = g_cap s).
    { unfold g_step in E1. destruct i; [destruct (g_open s); [|destruct ((0 <? g_cap s) && (g_cap s <=? zlen (g_q s)))]
                                        |destruct (g_open s)|destruct (g_open s)]; inversion E1; reflexivity. }
    rewrite <- H0. rewrite <- (IH _ _ _ _ _ E2).
    destruct i; [destruct (g_rejected s s1)| |]; inversion H; reflexivity. }
  rewrite (Hcap _ _ _ _ _ _ H) in Hc. cbn in Hc. auto.
Qed.

(** Every arrival is either rejected (and counted) or accepted. *)
Lemma gate_split : forall ins s s' outs rejs accs x,
  g_run s ins = (s', outs, rejs, accs) -> cnt x rejs + cnt x accs = cnt x (g_arrivals ins).
Proof.
  induction ins as [|i ins IH]; cbn [g_run]; intros s s' outs rejs accs x H.
  - inversion H; subst. reflexivity.
  - destruct (g_step s i) as [s1 out] eqn:E1. destruct (g_run s1 ins) as [[[s2 o2] r2] a2] eqn:E2.
    specialize (IH _ _ _ _ _ x E2).
    destruct i; [destruct (g_rejected s s1)| |]; inversion H; subst; cbn [g_arrivals cnt]; lia.
Qed.

(* ================================================================== *)
(** * ConveyorBelt *)

Lemma z_remove_cnt x y : forall l rest, z_remove y l = Some rest -> cnt x l = ind x y + cnt x rest.
Proof.
  induction l as [|z l IH]; cbn [z_remove]; intros rest H; [discriminate|].
  destruct (y =? z) eqn:E.
  - apply Z.eqb_eq in E. inversion H; subst. reflexivity.
  - destruct (z_remove y l) as [r'|]; [|discriminate]. inversion H; subst. cbn [cnt]. rewrite (IH _ eq_refl). unfold ind. lia.
Qed.

Lemma z_remove_len y : forall l rest, z_remove y l = Some rest -> zlen l = 1 + zlen rest.
Proof.
  induction l as [|z l IH]; cbn [z_remove]; intros rest H; [discriminate|].
  destruct (y =? z); [inversion H; subst; now rewrite zlen_cons|].
  destruct (z_remove y l) as [r'|]; [|discriminate]. inversion H; subst. rewrite !zlen_cons, (IH _ eq_refl). lia.
Qed.

Definition cv_inv (w : cvw) : Prop :=
  cv_transit (vw_s w) = zlen (vw_pend w) /\ (0 < cv_cap (vw_s w) -> cv_transit (vw_s w) <= cv_cap (vw_s w)) /\
  cv_done (vw_s w) = zlen (vw_done w) /\ cv_rej (vw_s w) = zlen (vw_rej w).

Lemma cvw_step_spec x w i w' out : cvw_step w i = Some (w', out) ->
  cv_places w' x = cv_places w x + (match i with VArr y => ind x y | _ => 0 end) /\
  (cv_inv w -> cv_inv w') /\ cv_cap (vw_s w') = cv_cap (vw_s w).
Proof.
  unfold cvw_step, cv_step, cv_places, cv_inv. destruct i as [y|y].
  - destruct ((0 <? cv_cap (vw_s w)) && (cv_cap (vw_s w) <=? cv_transit (vw_s w))) eqn:Ec;
      intros H; inversion H; subst; clear H; cbn [vw_s vw_pend vw_rej vw_done cv_transit cv_cap cv_done cv_rej cnt].
    + split; [unfold ind; lia|]. split; [|reflexivity]. intros (H1 & H2 & H3 & H4). rewrite zlen_cons. repeat split; auto; lia.
    + split; [rewrite cnt_app; cbn; unfold ind; lia|]. split; [|reflexivity].
      intros (H1 & H2 & H3 & H4). rewrite zlen_app, zlen_cons. change (zlen (@nil Z)) with 0.
      repeat split; auto; try lia.
  - destruct (z_remove y (vw_pend w)) as [rest|] eqn:Er; [|discriminate].
    intros H; inversion H; subst; clear H; cbn [vw_s vw_pend vw_rej vw_done cv_transit cv_cap cv_done cv_rej cnt].
    pose proof (z_remove_cnt x _ _ _ Er). pose proof (z_remove_len _ _ _ Er).
    split; [unfold ind in *; lia|]. split; [|reflexivity].
    intros (H1 & H2 & H3 & H4). rewrite zlen_cons. repeat split; auto; try lia.
Qed.

Theorem conveyor_conservation_bound : forall cap ins w x,
  cvw_run (cvw0 cap) ins = Some w -> NoDup (cv_arrivals ins) ->
  ((In x (cv_arrivals ins) -> cv_places w x = 1) /\ (~ In x (cv_arrivals ins) -> cv_places w x = 0)) /\
  cv_transit (vw_s w) = zlen (vw_pend w) /\ (0 < cap -> cv_transit (vw_s w) <= cap).
Proof.
  intros cap ins w x Hr Hnd.
  assert (G : forall ins w0 w, cvw_run w0 ins = Some w ->
              cv_places w x = cv_places w0 x + cnt x (cv_arrivals ins) /\ (cv_inv w0 -> cv_inv w) /\
              cv_cap (vw_s w) = cv_cap (vw_s w0)).
  { clear. induction ins as [|i ins IH]; cbn [cvw_run]; intros w0 w H.
    - inversion H; subst. cbn [cv_arrivals cnt]. split; [lia|]. split; [auto|reflexivity].
    - destruct (cvw_step w0 i) as [[w1 out]|] eqn:E; [|discriminate].
      destruct (cvw_step_spec x _ _ _ _ E) as (H1 & H2 & H3). destruct (IH _ _ H) as (H4 & H5 & H6).
      split; [|split; [auto|congruence]]. rewrite H4, H1. destruct i; cbn [cv_arrivals cnt]; unfold ind; lia. }
  destruct (G _ _ _ Hr) as (Hp & Hi & Hc).
  assert (H0 : cv_inv (cvw0 cap)) by (unfold cv_inv, cvw0; cbn; repeat split; auto; intros; change (zlen (@nil Z)) with 0; lia).
  destruct (Hi H0) as (H1 & H2 & _ & _). cbn in Hc. rewrite Hc in H2.
  replace (cv_places (cvw0 cap) x) with 0 in Hp by (unfold cv_places, cvw0; cbn; lia).
  pose proof (cnt_nodup x _ Hnd). pose proof (cnt_in x (cv_arrivals ins)). pose proof (cnt_nonneg x (cv_arrivals ins)).
  repeat split; auto.
  - intros Hin. apply H3 in Hin. lia.
  - intros Hin. assert (~ 0 < cnt x (cv_arrivals ins)) by tauto. lia.
Qed.

(* ================================================================== *)
(** * BatchProcessor *)

Lemma bev_eqb_eq a b : bev_eqb a b = true -> a = b.
Proof.
  destruct a, b; cbn; intros H; try discriminate; [reflexivity|].
  f_equal. apply (list_eqb_spec Z.eqb); [apply Z.eqb_eq|exact H].
Qed.

Lemma b_inbatch_app x a b : cnt x (b_inbatch (a ++ b)) = cnt x (b_inbatch a) + cnt x (b_inbatch b).
Proof.
  induction a as [|e a IH]; [cbn; lia|]. rewrite <- app_comm_cons. destruct e; cbn [b_inbatch]; rewrite ?cnt_app, IH; lia.
Qed.

Lemma b_remove_cnt x e : forall l rest, b_remove e l = Some rest ->
  cnt x (b_inbatch l) = (match e with BCont b => cnt x b | _ => 0 end) + cnt x (b_inbatch rest).
Proof.
  induction l as [|f l IH]; cbn [b_remove]; intros rest H; [discriminate|].
  destruct (bev_eqb e f) eqn:E.
  - apply bev_eqb_eq in E. inversion H; subst. destruct f; cbn [b_inbatch]; rewrite ?cnt_app; lia.
  - destruct (b_remove e l) as [r'|]; [|discriminate]. inversion H; subst.
    specialize (IH _ eq_refl). destruct f; cbn [b_inbatch]; rewrite ?cnt_app; lia.
Qed.

Lemma b_remove_timeout_cnt x pend : cnt x (b_inbatch (match b_remove BTimeout pend with Some p => p | None => pend end)) = cnt x (b_inbatch pend).
Proof.
  destruct (b_remove BTimeout pend) as [p|] eqn:E; [|reflexivity]. apply (b_remove_cnt x) in E. lia.
Qed.

Lemma fwd_ids_map b : fwd_ids (map BFwd b) = b.
Proof. induction b as [|y b IH]; cbn; [reflexivity|now rewrite IH]. Qed.

Lemma b_apply_fwd x b : forall pend, cnt x (b_inbatch (b_apply pend (map BFwd b))) = cnt x (b_inbatch pend).
Proof. induction b as [|y b IH]; cbn; auto. Qed.

(** Effect of the outputs of [b_process] on the pending bag. *)
Lemma b_apply_process x s t pend s' out : b_process s t = (s', out) ->
  cnt x (b_inbatch (b_apply pend out)) = cnt x (b_inbatch pend) + cnt x (b_buf s) /\ b_buf s' = [] /\ fwd_ids out = [].
Proof.
  unfold b_process. intros H; inversion H; subst; clear H. cbn [b_buf]. split; [|split; [reflexivity|]].
  - destruct (b_tpending s); cbn [app b_apply].
    + rewrite b_inbatch_app. cbn [b_inbatch]. rewrite app_nil_r, b_remove_timeout_cnt. lia.
    + rewrite b_inbatch_app. cbn [b_inbatch]. rewrite app_nil_r. lia.
  - destruct (b_tpending s); reflexivity.
Qed.

Lemma bw_step_places x w i w' out : bw_step w i = Some (w', out) ->
  b_places w' x = b_places w x + (match i with BArr y => ind x y | _ => 0 end).
Proof.
  unfold bw_step, b_places. destruct i as [y| |batch].
  - cbn [b_step].
    set (buf := b_buf (bw_s w) ++ [y]).
    assert (Hbuf : cnt x buf = cnt x (b_buf (bw_s w)) + ind x y) by (subst buf; rewrite cnt_app; cbn; unfold ind; lia).
    destruct (b_size (bw_s w) <=? zlen buf).
    + destruct (b_process _ _) as [s' o] eqn:E. intros H; inversion H; subst; clear H. cbn [bw_s bw_pend bw_done].
      destruct (b_apply_process x _ _ (bw_pend w) _ _ E) as (H1 & H2 & _). cbn [b_buf] in H1. rewrite H1, H2. cbn [cnt]. lia.
    + destruct ((zlen buf =? 1) && b_timeout_on (bw_s w)); intros H; inversion H; subst; clear H; cbn [bw_s bw_pend bw_done b_buf b_apply].
      * rewrite b_inbatch_app. cbn. lia.
      * lia.
  - destruct (b_remove BTimeout (bw_pend w)) as [rest|] eqn:Er; [|discriminate].
    apply (b_remove_cnt x) in Er. cbn [b_step].
    destruct (b_buf (bw_s w)) as [|z r] eqn:Eb.
    + intros H; inversion H; subst; clear H. cbn [bw_s bw_pend bw_done b_buf b_apply]. lia.
    + destruct (b_process _ _) as [s' o] eqn:E. intros H; inversion H; subst; clear H. cbn [bw_s bw_pend bw_done].
      destruct (b_apply_process x _ _ rest _ _ E) as (H1 & H2 & _). cbn [b_buf] in H1. rewrite H1, H2. cbn [cnt] in *. lia.
  - destruct (b_remove (BCont batch) (bw_pend w)) as [rest|] eqn:Er; [|discriminate].
    apply (b_remove_cnt x) in Er. cbn [b_step].
    intros H; inversion H; subst; clear H. cbn [bw_s bw_pend bw_done b_buf].
    rewrite b_apply_fwd, fwd_ids_map, cnt_app. lia.
Qed.

Lemma bw_step_size w i w' out : bw_step w i = Some (w', out) ->
  b_size (bw_s w') = b_size (bw_s w) /\
  (1 <= b_size (bw_s w) -> zlen (b_buf (bw_s w)) < b_size (bw_s w) -> zlen (b_buf (bw_s w')) < b_size (bw_s w')).
Proof.
  unfold bw_step. destruct i as [y| |batch].
  - cbn [b_step]. set (buf := b_buf (bw_s w) ++ [y]).
    destruct (b_size (bw_s w) <=? zlen buf) eqn:Es.
    + unfold b_process. intros H; inversion H; subst; clear H. cbn. split; [reflexivity|]. intros. change (zlen (@nil Z)) with 0. lia.
    + apply Z.leb_gt in Es.
      destruct ((zlen buf =? 1) && b_timeout_on (bw_s w)); intros H; inversion H; subst; clear H; cbn; split; auto.
  - destruct (b_remove BTimeout (bw_pend w)) as [rest|]; [|discriminate]. cbn [b_step].
    destruct (b_buf (bw_s w)) as [|z r] eqn:Eb.
    + intros H; inversion H; subst; clear H. cbn. split; auto.
    + unfold b_process. intros H; inversion H; subst; clear H. cbn. split; [reflexivity|]. intros. change (zlen (@nil Z)) with 0. lia.
  - destruct (b_remove (BCont batch) (bw_pend w)) as [rest|]; [|discriminate]. cbn [b_step].
    intros H; inversion H; subst; clear H. cbn. split; auto.
Qed.

(** Conservation (buffered / in a batch being processed / forwarded) and: a
    full batch never waits (after the fix of BatchProcessor.handle_event). *)
Theorem batch_conservation_no_full_wait : forall size ton ins w x,
  bw_run (bw0 size ton) ins = Some w -> NoDup (b_arrivals ins) ->
  ((In x (b_arrivals ins) -> b_places w x = 1) /\ (~ In x (b_arrivals ins) -> b_places w x = 0)) /\
  (1 <= size -> zlen (b_buf (bw_s w)) < size).
Proof.
  intros size ton ins w x Hr Hnd.
  assert (G : forall ins w0 w, bw_run w0 ins = Some w ->
              b_places w x = b_places w0 x + cnt x (b_arrivals ins) /\ b_size (bw_s w) = b_size (bw_s w0) /\
              (1 <= b_size (bw_s w0) -> zlen (b_buf (bw_s w0)) < b_size (bw_s w0) -> zlen (b_buf (bw_s w)) < b_size (bw_s w))).
  { clear. induction ins as [|i ins IH]; cbn [bw_run]; intros w0 w H.
    - inversion H; subst. cbn. repeat split; auto; lia.
    - destruct (bw_step w0 i) as [[w1 out]|] eqn:E; [|discriminate].
      pose proof (bw_step_places x _ _ _ _ E) as H1. destruct (bw_step_size _ _ _ _ E) as [H2 H3].
      destruct (IH _ _ H) as (H4 & H5 & H6). repeat split.
      + rewrite H4, H1. destruct i; cbn [b_arrivals cnt]; unfold ind; lia.
      + congruence.
      + intros Ha Hb. apply H6; [lia|]. apply H3; auto. }
  destruct (G _ _ _ Hr) as (Hp & Hs & Hb). cbn in Hs, Hb.
  replace (b_places (bw0 size ton) x) with 0 in Hp by (unfold b_places, bw0; cbn; lia).
  pose proof (cnt_nodup x _ Hnd). pose proof (cnt_in x (b_arrivals ins)). pose proof (cnt_nonneg x (b_arrivals ins)).
  split; [split|].
  - intros Hin. apply H0 in Hin. lia.
  - intros Hin. assert (~ 0 < cnt x (b_arrivals ins)) by tauto. lia.
  - intros H1s. rewrite Hs in Hb. apply Hb; [exact H1s|]. change (zlen (@nil Z)) with 0. lia.
Qed.

(* ================================================================== *)
(** * Concurrency models *)

(** The invariant "0 <= active <= limit" (Fixed, Weighted; Dynamic as long as
    the limit is not lowered below the active count — a scale-down lets running
    requests finish, which is intended). *)
Definition cm_ok (m : cmodel) : Prop := 0 <= cm_active m <= cm_limit m.

Lemma cm_step_bound m o m' r : cm_step m o = (m', r) ->
  (match o with CSetLimit _ => False | _ => True end) -> cm_ok m -> cm_ok m'.
Proof.
  unfold cm_ok. destruct m as [mx a|cur mn mx a|t u], o as [w|w|w|n]; cbn; intros H Ho; try contradiction;
    repeat match type of H with context [if ?c then _ else _] => destruct c eqn:? end;
    inversion H; subst; cbn; lia.
Qed.

Theorem concurrency_models_bound : forall ops m,
  Forall (fun o => match o with CSetLimit _ => False | _ => True end) ops ->
  cm_ok m -> cm_ok (cm_run m ops).
Proof.
  induction ops as [|o ops IH]; intros m Hall Hm; [exact Hm|].
  inversion Hall; subst. cbn [cm_run]. destruct (cm_step m o) as [m' r] eqn:E. cbn [fst].
  apply IH; [assumption|]. eapply cm_step_bound; eauto.
Qed.

(** For every model, also across limit changes: a successful acquire never
    takes the active count above the limit in force, has_capacity(w) answers
    exactly whether acquire(w) would succeed, and a failed acquire changes
    nothing. *)
Theorem acquire_respects_limit : forall m w m' r,
  cm_step m (CAcquire w) = (m', r) ->
  (r = 1 -> cm_active m' <= cm_limit m' /\ cm_active m < cm_active m') /\
  (r <> 1 -> m' = m) /\
  (1 <= w -> (snd (cm_step m (CHasCap w)) = 1 <-> r = 1)).
Proof.
  intros m w m' r H. destruct m as [mx a|cur mn mx a|t u]; cbn in *.
  - destruct (mx <=? a) eqn:E; inversion H; subst; cbn; repeat split; intros; try discriminate; try congruence; try lia;
      destruct (a <? mx) eqn:E2; try lia; try discriminate; try reflexivity.
  - destruct (cur <=? a) eqn:E; inversion H; subst; cbn; repeat split; intros; try discriminate; try congruence; try lia;
      destruct (a <? cur) eqn:E2; try lia; try discriminate; try reflexivity.
  - destruct (w <? 1) eqn:E0; [inversion H; subst; cbn; repeat split; intros; try discriminate; try congruence; try lia|].
    destruct (t <? u + w) eqn:E; inversion H; subst; cbn; repeat split; intros; try discriminate; try congruence; try lia;
      destruct (u + w <=? t) eqn:E2; try lia; try discriminate; try reflexivity.
Qed.

(* ================================================================== *)
(** * The hypotheses of the conditional theorems are satisfiable *)

Example pooled_hyps : exists w,
  pcw_run (pcw0 1 0) pooled_witness = Some w /\ NoDup (pc_arrivals pooled_witness) /\
  zl_retry (pw_pend w) = 0 /\ pc_q (pw_s w) = [2; 1] /\ pc_avail (pw_s w) = 0.
Proof.
  eexists. split; [vm_compute; reflexivity|]. split; [cbn; repeat constructor; cbn; intuition discriminate|].
  vm_compute. repeat split; reflexivity.
Qed.

Example gate_hyps : exists s' outs rejs accs,
  g_run (g0 1 false) [GArr 0; GArr 1; GOpen; GArr 2; GClose; GArr 3] = (s', outs, rejs, accs) /\
  outs = [0; 2] /\ rejs = [1] /\ g_q s' = [3].
Proof. do 4 eexists. split; [vm_compute; reflexivity|]. repeat split; reflexivity. Qed.

Example conveyor_hyps : exists w,
  cvw_run (cvw0 1) [VArr 0; VArr 1; VRes 0; VArr 2] = Some w /\ NoDup (cv_arrivals [VArr 0; VArr 1; VRes 0; VArr 2])
  /\ vw_rej w = [1] /\ vw_done w = [0] /\ vw_pend w = [2].
Proof.
  eexists. split; [vm_compute; reflexivity|]. split; [cbn; repeat constructor; cbn; intuition discriminate|].
  vm_compute. repeat split; reflexivity.
Qed.

Example batch_hyps : exists w,
  bw_run (bw0 2 true) [BArr 0; BArr 1; BArr 2; BFireTimeout; BRes [0; 1]] = Some w /\
  bw_done w = [0; 1] /\ b_inbatch (bw_pend w) = [2].
Proof. eexists. split; [vm_compute; reflexivity|]. vm_compute. split; reflexivity. Qed.

Example conc_hyps : cm_ok (CFixed 2 0) /\ cm_ok (CWeighted 5 0) /\ cm_ok (CDyn 2 1 (Some 4) 0).
Proof. unfold cm_ok. cbn. lia. Qed.
