(** Property C08 — the theorems the check counts as obligations.  Nothing but
    statements closed by [exact] and [Print Assumptions]. *)
From HS Require Import Base.Prelude C08.Model C08.Policies C08.PolicyThms C08.Pipeline C08.IndModel C08.IndThms.
Local Open Scope Z_scope.

(** Conservation, every policy, every worker kind, EVERY schedule (any pending
    event may fire next; arrivals at any moment): each offered item is in
    exactly one of {refused and counted, expired in the policy and counted,
    waiting in the policy, dequeued and on its way to the worker, in service,
    completed, discarded by the worker and counted}, exactly once. *)
Theorem c08_conservation : forall k p limit ls w x,
  pol_ids p = [] -> wrun (w0 k p limit) ls = Some w -> NoDup (arrivals ls) ->
  (In x (arrivals ls) -> places w x = 1) /\ (~ In x (arrivals ls) -> places w x = 0).
Proof. exact conservation. Qed.
Print Assumptions c08_conservation.

(** Every counter of the pipeline equals the size of its ledger class. *)
Theorem c08_counters : forall k p limit ls w,
  wrun (w0 k p limit) ls = Some w -> counted w.
Proof. intros k p limit ls w H. exact (wrun_counted _ _ _ H (counted_w0 _ _ _)). Qed.
Print Assumptions c08_counters.

(** Work in service never exceeds the concurrency limit (Server with a fixed limit). *)
Theorem c08_concurrency_bound : forall p limit ls w,
  0 <= limit -> no_setlimit ls -> wrun (w0 WServer p limit) ls = Some w ->
  zlen (service_ids (pend w)) <= limit /\ act (ps w) = zlen (service_ids (pend w)) /\ lim (ps w) = limit.
Proof. exact concurrency_bound. Qed.
Print Assumptions c08_concurrency_bound.

(** REFUTED on the faithful model (known finding C08-overpoll-discard). *)
Theorem c08_no_discard_refuted : ~ no_discard_statement.
Proof. exact no_discard_refuted. Qed.
Print Assumptions c08_no_discard_refuted.

(** REFUTED on the faithful model (known finding C08-strand-partial-capacity). *)
Theorem c08_no_stranding_refuted : ~ no_stranding_statement.
Proof. exact no_stranding_refuted. Qed.
Print Assumptions c08_no_stranding_refuted.

(** PARTIAL no-stranding (every policy, both worker kinds, every schedule): when
    only service completions are pending and an item waits, at least one item is
    in service. With a single slot this is the full clause. *)
Theorem c08_no_stranding_partial : forall k p limit ls w,
  pol_wf p -> pol_len p = 0 -> 1 <= limit -> no_setlimit ls -> wrun (w0 k p limit) ls = Some w ->
  quiescent w = true -> 0 < pol_len (q (ps w)) -> 1 <= act (ps w).
Proof. exact no_stranding_partial. Qed.
Print Assumptions c08_no_stranding_partial.

Theorem c08_no_stranding_single_slot : forall p ls w,
  pol_wf p -> pol_len p = 0 -> no_setlimit ls -> wrun (w0 WServer p 1) ls = Some w ->
  quiescent w = true -> 0 < pol_len (q (ps w)) -> lim (ps w) <= act (ps w).
Proof. exact no_stranding_single_slot. Qed.
Print Assumptions c08_no_stranding_single_slot.

(* ---------------- policies, over all push/pop sequences ---------------- *)

(** enqueued = dequeued + dropped + held at all times (ledger of the observed run). *)
Theorem c08_policy_conservation : forall ops s s' obs,
  pol_run s ops = (s', obs) ->
  n_accepted ops obs + pol_len s = n_popped ops obs + n_expired ops obs + pol_len s'.
Proof. exact policy_conservation. Qed.
Print Assumptions c08_policy_conservation.

(** ... and the same equation for the statistics the policies keep themselves. *)
Theorem c08_policy_stats_conservation : forall ops s s' obs,
  stats_ok s -> pol_run s ops = (s', obs) -> stats_ok s'.
Proof. exact policy_stats_conservation. Qed.
Print Assumptions c08_policy_stats_conservation.

(** A policy never holds more than its capacity (per-flow and flow-count limits for the fair queues). *)
Theorem c08_policy_capacity : forall ops s s' obs,
  within_cap s -> pol_run s ops = (s', obs) -> within_cap s'.
Proof. exact policy_capacity. Qed.
Print Assumptions c08_policy_capacity.

Theorem c08_fair_capacity : forall m c fl total st,
  within_cap (PFair (Some m) (Some c) fl total st) -> pol_wf (PFair (Some m) (Some c) fl total st) ->
  total <= Z.max 0 m * Z.max 0 c.
Proof. exact fair_capacity. Qed.
Print Assumptions c08_fair_capacity.

(** FIFO: the accepted items are exactly the popped items followed by the held ones, in order. *)
Theorem c08_fifo_order : forall ops cap l s' obs,
  pol_run (PFifo cap l) ops = (s', obs) ->
  map iid l ++ accepted_ids ops obs = popped_ids ops obs ++ pol_ids s'.
Proof. exact fifo_order. Qed.
Print Assumptions c08_fifo_order.

(** LIFO: every pop returns the most recently accepted item not yet popped. *)
Theorem c08_lifo_order : forall ops cap l s' obs,
  pol_run (PLifo cap l) ops = (s', obs) -> lifo_ok ops obs (map iid l).
Proof. exact lifo_order. Qed.
Print Assumptions c08_lifo_order.

(** Stable priority. *)
Theorem c08_priority_order : forall ops cap ctr h obs now it s2 ex,
  pol_run (PPrio cap 0 []) ops = (PPrio cap ctr h, obs) ->
  pol_pop now (PPrio cap ctr h) = (s2, Some it, ex) ->
  exists o h', h = (iprio it, o, it) :: h' /\ s2 = PPrio cap ctr h' /\ ex = [] /\
    Forall (fun e => iprio it < iprio (snd e) \/ (iprio it = iprio (snd e) /\ o < eord e)) h'.
Proof. exact priority_order. Qed.
Print Assumptions c08_priority_order.

(** Deadline. *)
Theorem c08_deadline_order : forall ops cap ctr h st obs now s2 r ex,
  pol_run (PDead cap 0 [] ds0) ops = (PDead cap ctr h st, obs) ->
  pol_pop now (PDead cap ctr h st) = (s2, r, ex) ->
  Forall (fun it => idl it < now) ex /\
  match r with
  | Some it => now <= idl it /\
      exists o h' st', s2 = PDead cap ctr h' st' /\
        Forall (fun e => idl it < idl (snd e) \/ (idl it = idl (snd e) /\ o < eord e)) h'
  | None => pol_len s2 = 0
  end.
Proof. exact deadline_order. Qed.
Print Assumptions c08_deadline_order.

(** Fair share (round robin over flows). *)
Theorem c08_fair_round_robin : forall fl rm fl' it rm',
  fair_pop fl rm = (fl', Some it, rm') ->
  exists pre g l post,
    fl = pre ++ (g, it :: l) :: post /\ Forall (fun p => snd p = []) pre /\
    fl' = post ++ (match l with [] => [] | _ => [(g, l)] end).
Proof. exact fair_round_robin. Qed.
Print Assumptions c08_fair_round_robin.

(** REFUTED for the unguarded workers (known finding C08-unguarded-over-dispatch). *)
Theorem c08_unguarded_bound_refuted : ~ unguarded_bound_statement.
Proof. exact unguarded_bound_refuted. Qed.
Print Assumptions c08_unguarded_bound_refuted.

(** REFUTED: raising the capacity does not poll the queue (known finding C08-strand-capacity-raised). *)
Theorem c08_capacity_change_refuted : ~ capacity_change_statement.
Proof. exact capacity_change_refuted. Qed.
Print Assumptions c08_capacity_change_refuted.

(* ---------------- industrial components ---------------- *)

Theorem c08_pooled_conservation : forall size cap ls w x,
  pcw_run (pcw0 size cap) ls = Some w -> NoDup (pc_arrivals ls) ->
  (In x (pc_arrivals ls) -> pc_places w x = 1) /\ (~ In x (pc_arrivals ls) -> pc_places w x = 0).
Proof. exact pooled_conservation. Qed.
Print Assumptions c08_pooled_conservation.

Theorem c08_pooled_bound_no_stranding : forall size cap ls w,
  0 <= size -> pcw_run (pcw0 size cap) ls = Some w ->
  pc_act (pw_s w) <= size /\ 0 <= pc_avail (pw_s w) /\
  (zl_retry (pw_pend w) = 0 -> pc_q (pw_s w) <> [] -> pc_avail (pw_s w) = 0).
Proof. exact pooled_bound_no_stranding. Qed.
Print Assumptions c08_pooled_bound_no_stranding.

(** REFUTED (known finding C08-pooled-retry-loses-slot). *)
Theorem c08_pooled_fifo_refuted : ~ pooled_fifo_statement.
Proof. exact pooled_fifo_refuted. Qed.
Print Assumptions c08_pooled_fifo_refuted.

Theorem c08_gate_fifo_conservation : forall cap opened ins s' outs rejs accs,
  g_run (g0 cap opened) ins = (s', outs, rejs, accs) ->
  outs ++ g_q s' = accs /\ (0 < cap -> zlen (g_q s') <= cap) /\ (g_open s' = true -> g_q s' = []).
Proof. exact gate_fifo_conservation. Qed.
Print Assumptions c08_gate_fifo_conservation.

Theorem c08_conveyor_conservation_bound : forall cap ins w x,
  cvw_run (cvw0 cap) ins = Some w -> NoDup (cv_arrivals ins) ->
  ((In x (cv_arrivals ins) -> cv_places w x = 1) /\ (~ In x (cv_arrivals ins) -> cv_places w x = 0)) /\
  cv_transit (vw_s w) = zlen (vw_pend w) /\ (0 < cap -> cv_transit (vw_s w) <= cap).
Proof. exact conveyor_conservation_bound. Qed.
Print Assumptions c08_conveyor_conservation_bound.

Theorem c08_batch_conservation_no_full_wait : forall size ton ins w x,
  bw_run (bw0 size ton) ins = Some w -> NoDup (b_arrivals ins) ->
  ((In x (b_arrivals ins) -> b_places w x = 1) /\ (~ In x (b_arrivals ins) -> b_places w x = 0)) /\
  (1 <= size -> zlen (b_buf (bw_s w)) < size).
Proof. exact batch_conservation_no_full_wait. Qed.
Print Assumptions c08_batch_conservation_no_full_wait.

Theorem c08_concurrency_models_bound : forall ops m,
  Forall (fun o => match o with CSetLimit _ => False | _ => True end) ops ->
  cm_ok m -> cm_ok (cm_run m ops).
Proof. exact concurrency_models_bound. Qed.
Print Assumptions c08_concurrency_models_bound.

Theorem c08_acquire_respects_limit : forall m w m' r,
  cm_step m (CAcquire w) = (m', r) ->
  (r = 1 -> cm_active m' <= cm_limit m' /\ cm_active m < cm_active m') /\
  (r <> 1 -> m' = m) /\
  (1 <= w -> (snd (cm_step m (CHasCap w)) = 1 <-> r = 1)).
Proof. exact acquire_respects_limit. Qed.
Print Assumptions c08_acquire_respects_limit.
