(** Property C08 — the theorems the check counts as obligations.  Nothing but
    statements closed by [exact] and [Print Assumptions]. *)
From HS Require Import Base.Prelude Base.PyLib C08.Model C08.Policies C08.PolicyThms C08.Pipeline C08.IndModel C08.IndThms
  Gen.QueuePolicyGen C08.GenTie Gen.ConcurrencyGen C08.ConcTie Gen.DeadlineGen C08.DeadlineTie.
Local Open Scope Z_scope.

(** Conservation, every policy, every worker kind, EVERY schedule (any pending
    event may fire next; arrivals at any moment): each offered item is in
    exactly one of {refused and counted, expired in the policy and counted,
    waiting in the policy, dequeued and on its way to the worker, in service,
    completed, discarded by the worker and counted}, exactly once. *)
Theorem c08_conservation : forall k p limit ls w x,
  pol_ids p = [] -> wrun (w0 k p limit) ls = Some w -> NoDup (arrivals ls) ->
  (In x (arrivals ls) -> places w x = 1) /\ (~ In x (arrivals ls) -> places w x = 0).
Proof. exact conservation. Qed.
Print Assumptions c08_conservation.

(** Every counter of the pipeline equals the size of its ledger class. *)
Theorem c08_counters : forall k p limit ls w,
  wrun (w0 k p limit) ls = Some w -> counted w.
Proof. intros k p limit ls w H. exact (wrun_counted _ _ _ H (counted_w0 _ _ _)). Qed.
Print Assumptions c08_counters.

(** Work in service never exceeds the concurrency limit (Server with a fixed limit). *)
Theorem c08_concurrency_bound : forall p limit ls w,
  0 <= limit -> no_setlimit ls -> wrun (w0 WServer p limit) ls = Some w ->
  zlen (service_ids (pend w)) <= limit /\ act (ps w) = zlen (service_ids (pend w)) /\ lim (ps w) = limit.
Proof. exact concurrency_bound. Qed.
Print Assumptions c08_concurrency_bound.

(** REFUTED on the faithful model (known finding C08-overpoll-discard). *)
Theorem c08_no_discard_refuted : ~ no_discard_statement.
Proof. exact no_discard_refuted. Qed.
Print Assumptions c08_no_discard_refuted.

(** REFUTED on the faithful model (known finding C08-strand-partial-capacity). *)
Theorem c08_no_stranding_refuted : ~ no_stranding_statement.
Proof. exact no_stranding_refuted. Qed.
Print Assumptions c08_no_stranding_refuted.

(** PARTIAL no-stranding (every policy, both worker kinds, every schedule): when
    only service completions are pending and an item waits, at least one item is
    in service. With a single slot this is the full clause. *)
Theorem c08_no_stranding_partial : forall k p limit ls w,
  pol_wf p -> pol_len p = 0 -> 1 <= limit -> no_setlimit ls -> wrun (w0 k p limit) ls = Some w ->
  quiescent w = true -> 0 < pol_len (q (ps w)) -> 1 <= act (ps w).
Proof. exact no_stranding_partial. Qed.
Print Assumptions c08_no_stranding_partial.

Theorem c08_no_stranding_single_slot : forall p ls w,
  pol_wf p -> pol_len p = 0 -> no_setlimit ls -> wrun (w0 WServer p 1) ls = Some w ->
  quiescent w = true -> 0 < pol_len (q (ps w)) -> lim (ps w) <= act (ps w).
Proof. exact no_stranding_single_slot. Qed.
Print Assumptions c08_no_stranding_single_slot.

(* ---------------- policies, over all push/pop sequences ---------------- *)

(** enqueued = dequeued + dropped + held at all times (ledger of the observed run). *)
Theorem c08_policy_conservation : forall ops s s' obs,
  pol_run s ops = (s', obs) ->
  n_accepted ops obs + pol_len s = n_popped ops obs + n_expired ops obs + pol_len s'.
Proof. exact policy_conservation. Qed.
Print Assumptions c08_policy_conservation.

(** ... and the same equation for the statistics the policies keep themselves. *)
Theorem c08_policy_stats_conservation : forall ops s s' obs,
  stats_ok s -> pol_run s ops = (s', obs) -> stats_ok s'.
Proof. exact policy_stats_conservation. Qed.
Print Assumptions c08_policy_stats_conservation.

(** A policy never holds more than its capacity (per-flow and flow-count limits for the fair queues). *)
Theorem c08_policy_capacity : forall ops s s' obs,
  within_cap s -> pol_run s ops = (s', obs) -> within_cap s'.
Proof. exact policy_capacity. Qed.
Print Assumptions c08_policy_capacity.

Theorem c08_fair_capacity : forall m c fl total st,
  within_cap (PFair (Some m) (Some c) fl total st) -> pol_wf (PFair (Some m) (Some c) fl total st) ->
  total <= Z.max 0 m * Z.max 0 c.
Proof. exact fair_capacity. Qed.
Print Assumptions c08_fair_capacity.

(** FIFO: the accepted items are exactly the popped items followed by the held ones, in order. *)
Theorem c08_fifo_order : forall ops cap l s' obs,
  pol_run (PFifo cap l) ops = (s', obs) ->
  map iid l ++ accepted_ids ops obs = popped_ids ops obs ++ pol_ids s'.
Proof. exact fifo_order. Qed.
Print Assumptions c08_fifo_order.

(** LIFO: every pop returns the most recently accepted item not yet popped. *)
Theorem c08_lifo_order : forall ops cap l s' obs,
  pol_run (PLifo cap l) ops = (s', obs) -> lifo_ok ops obs (map iid l).
Proof. exact lifo_order. Qed.
Print Assumptions c08_lifo_order.

(** Stable priority. *)
Theorem c08_priority_order : forall ops cap ctr h obs now it s2 ex,
  pol_run (PPrio cap 0 []) ops = (PPrio cap ctr h, obs) ->
  pol_pop now (PPrio cap ctr h) = (s2, Some it, ex) ->
  exists o h', h = (iprio it, o, it) :: h' /\ s2 = PPrio cap ctr h' /\ ex = [] /\
    Forall (fun e => iprio it < iprio (snd e) \/ (iprio it = iprio (snd e) /\ o < eord e)) h'.
Proof. exact priority_order. Qed.
Print Assumptions c08_priority_order.

(** Deadline. *)
Theorem c08_deadline_order : forall ops cap ctr h st obs now s2 r ex,
  pol_run (PDead cap 0 [] ds0) ops = (PDead cap ctr h st, obs) ->
  pol_pop now (PDead cap ctr h st) = (s2, r, ex) ->
  Forall (fun it => idl it < now) ex /\
  match r with
  | Some it => now <= idl it /\
      exists o h' st', s2 = PDead cap ctr h' st' /\
        Forall (fun e => idl it < idl (snd e) \/ (idl it = idl (snd e) /\ o < eord e)) h'
  | None => pol_len s2 = 0
  end.
Proof. exact deadline_order. Qed.
Print Assumptions c08_deadline_order.

(** Fair share (round robin over flows). *)
Theorem c08_fair_round_robin : forall fl rm fl' it rm',
  fair_pop fl rm = (fl', Some it, rm') ->
  exists pre g l post,
    fl = pre ++ (g, it :: l) :: post /\ Forall (fun p => snd p = []) pre /\
    fl' = post ++ (match l with [] => [] | _ => [(g, l)] end).
Proof. exact fair_round_robin. Qed.
Print Assumptions c08_fair_round_robin.

(** REFUTED for the unguarded workers (known finding C08-unguarded-over-dispatch). *)
Theorem c08_unguarded_bound_refuted : ~ unguarded_bound_statement.
Proof. exact unguarded_bound_refuted. Qed.
Print Assumptions c08_unguarded_bound_refuted.

(** REFUTED: raising the capacity does not poll the queue (known finding C08-strand-capacity-raised). *)
Theorem c08_capacity_change_refuted : ~ capacity_change_statement.
Proof. exact capacity_change_refuted. Qed.
Print Assumptions c08_capacity_change_refuted.

(* ---------------- industrial components ---------------- *)

Theorem c08_pooled_conservation : forall size cap ls w x,
  pcw_run (pcw0 size cap) ls = Some w -> NoDup (pc_arrivals ls) ->
  (In x (pc_arrivals ls) -> pc_places w x = 1) /\ (~ In x (pc_arrivals ls) -> pc_places w x = 0).
Proof. exact pooled_conservation. Qed.
Print Assumptions c08_pooled_conservation.

Theorem c08_pooled_bound_no_stranding : forall size cap ls w,
  0 <= size -> pcw_run (pcw0 size cap) ls = Some w ->
  pc_act (pw_s w) <= size /\ 0 <= pc_avail (pw_s w) /\
  (zl_retry (pw_pend w) = 0 -> pc_q (pw_s w) <> [] -> pc_avail (pw_s w) = 0).
Proof. exact pooled_bound_no_stranding. Qed.
Print Assumptions c08_pooled_bound_no_stranding.

(** REFUTED (known finding C08-pooled-retry-loses-slot). *)
Theorem c08_pooled_fifo_refuted : ~ pooled_fifo_statement.
Proof. exact pooled_fifo_refuted. Qed.
Print Assumptions c08_pooled_fifo_refuted.

Theorem c08_gate_fifo_conservation : forall cap opened ins s' outs rejs accs,
  g_run (g0 cap opened) ins = (s', outs, rejs, accs) ->
  outs ++ g_q s' = accs /\ (0 < cap -> zlen (g_q s') <= cap) /\ (g_open s' = true -> g_q s' = []).
Proof. exact gate_fifo_conservation. Qed.
Print Assumptions c08_gate_fifo_conservation.

Theorem c08_conveyor_conservation_bound : forall cap ins w x,
  cvw_run (cvw0 cap) ins = Some w -> NoDup (cv_arrivals ins) ->
  ((In x (cv_arrivals ins) -> cv_places w x = 1) /\ (~ In x (cv_arrivals ins) -> cv_places w x = 0)) /\
  cv_transit (vw_s w) = zlen (vw_pend w) /\ (0 < cap -> cv_transit (vw_s w) <= cap).
Proof. exact conveyor_conservation_bound. Qed.
Print Assumptions c08_conveyor_conservation_bound.

Theorem c08_batch_conservation_no_full_wait : forall size ton ins w x,
  bw_run (bw0 size ton) ins = Some w -> NoDup (b_arrivals ins) ->
  ((In x (b_arrivals ins) -> b_places w x = 1) /\ (~ In x (b_arrivals ins) -> b_places w x = 0)) /\
  (1 <= size -> zlen (b_buf (bw_s w)) < size).
Proof. exact batch_conservation_no_full_wait. Qed.
Print Assumptions c08_batch_conservation_no_full_wait.

Theorem c08_concurrency_models_bound : forall ops m,
  Forall (fun o => match o with CSetLimit _ => False | _ => True end) ops ->
  cm_ok m -> cm_ok (cm_run m ops).
Proof. exact concurrency_models_bound. Qed.
Print Assumptions c08_concurrency_models_bound.

Theorem c08_acquire_respects_limit : forall m w m' r,
  cm_step m (CAcquire w) = (m', r) ->
  (r = 1 -> cm_active m' <= cm_limit m' /\ cm_active m < cm_active m') /\
  (r <> 1 -> m' = m) /\
  (1 <= w -> (snd (cm_step m (CHasCap w)) = 1 <-> r = 1)).
Proof. exact acquire_respects_limit. Qed.
Print Assumptions c08_acquire_respects_limit.

(* ---------------- code level: queue_policy.py as regenerated by py2coq ---------------- *)

(** FIFOQueue / LIFOQueue / PriorityQueue of components/queue_policy.py, as
    REGENERATED from the source on every run (Gen/QueuePolicyGen.v), refine the
    policy model: on the code object of a model state ([fifo_obj], [lifo_obj]:
    the held ids, LIFO newest last; [prio_obj]: heap entries (priority, insert
    order, id) with the insert counter), every operation returns what the
    model returns, leaves the object of the model's next state, and does not
    raise; the order @dataclass(order=True) gives _PriorityEntry is the model's
    heap order, and heappush keeps the model's sorted list. *)
Theorem c08_code_policies_refine_model : forall cap l ctr h it balk now,
  (let '(s', ok) := pol_push balk it (PFifo cap l) in
   exists l', s' = PFifo cap l' /\ FIFOQueue_push (fifo_obj cap l) (iid it) = (fifo_obj cap l', ok))
  /\ (let '(s', r, ex) := pol_pop now (PFifo cap l) in
      ex = [] /\ exists l', s' = PFifo cap l' /\ FIFOQueue_pop (fifo_obj cap l) = Some (fifo_obj cap l', option_map iid r))
  /\ (FIFOQueue_peek (fifo_obj cap l) = Some (option_map iid (hd_error l))
      /\ FIFOQueue___len__ (fifo_obj cap l) = pol_len (PFifo cap l)
      /\ FIFOQueue_is_empty (fifo_obj cap l) = (pol_len (PFifo cap l) =? 0)
      /\ FIFOQueue_capacity (fifo_obj cap l) = cap)
  /\ (let '(s', ok) := pol_push balk it (PLifo cap l) in
      exists l', s' = PLifo cap l' /\ LIFOQueue_push (lifo_obj cap l) (iid it) = (lifo_obj cap l', ok))
  /\ (let '(s', r, ex) := pol_pop now (PLifo cap l) in
      ex = [] /\ exists l', s' = PLifo cap l' /\ LIFOQueue_pop (lifo_obj cap l) = Some (lifo_obj cap l', option_map iid r))
  /\ (LIFOQueue_peek (lifo_obj cap l) = Some (option_map iid (hd_error l))
      /\ LIFOQueue___len__ (lifo_obj cap l) = pol_len (PLifo cap l)
      /\ LIFOQueue_is_empty (lifo_obj cap l) = (pol_len (PLifo cap l) =? 0)
      /\ LIFOQueue_capacity (lifo_obj cap l) = cap)
  /\ (forall k o e, _PriorityEntry___lt__ (enc (k, o, it)) (enc e) = entry_ltb k o e)
  /\ (let '(s', ok) := pol_push balk it (PPrio cap ctr h) in
      exists ctr' h', s' = PPrio cap ctr' h' /\
      PriorityQueue_push (prio_obj cap ctr h) (iid it) (iprio it) = (prio_obj cap ctr' h', ok))
  /\ (let '(s', r, ex) := pol_pop now (PPrio cap ctr h) in
      ex = [] /\ exists h', s' = PPrio cap ctr h' /\
      PriorityQueue_pop (prio_obj cap ctr h) = Some (prio_obj cap ctr h', option_map iid r))
  /\ (PriorityQueue_peek (prio_obj cap ctr h) = Some (option_map (fun e : entry => iid (snd e)) (hd_error h))
      /\ PriorityQueue___len__ (prio_obj cap ctr h) = pol_len (PPrio cap ctr h)
      /\ PriorityQueue_is_empty (prio_obj cap ctr h) = (pol_len (PPrio cap ctr h) =? 0)
      /\ PriorityQueue_capacity (prio_obj cap ctr h) = cap).
Proof.
  intros cap l ctr h it balk now.
  exact (conj (tie_fifo_push cap l it balk) (conj (tie_fifo_pop cap l now) (conj (tie_fifo_read cap l)
        (conj (tie_lifo_push cap l it balk) (conj (tie_lifo_pop cap l now) (conj (tie_lifo_read cap l)
        (conj (fun k o e => tie_entry_lt k o it e)
        (conj (tie_prio_push cap ctr h it balk) (conj (tie_prio_pop cap ctr h now) (tie_prio_read cap ctr h)))))))))).
Qed.
Print Assumptions c08_code_policies_refine_model.

(** FIFOQueue AS TRANSLATED, from any object (any capacity, any held ids), for
    EVERY sequence of push / pop: nothing raises; the ids held at the start
    followed by the accepted ones are exactly the popped ones followed by the
    ones still held, in that order (no loss, no duplication, arrival order);
    the capacity field is never written and a capacity respected at the start
    is respected at the end. *)
Theorem c08_code_fifo_order : forall ops cap ids,
  exists q' obs, code_run fifo_code_step (mkFIFOQueue cap ids) ops = Some (q', obs)
  /\ ids ++ accepted_ids ops obs = popped_ids ops obs ++ FIFOQueue__queue q'
  /\ FIFOQueue__capacity q' = cap
  /\ (le_cap (zlen ids) cap -> le_cap (FIFOQueue___len__ q') cap).
Proof. exact code_fifo_order. Qed.
Print Assumptions c08_code_fifo_order.

(** LIFOQueue AS TRANSLATED: every pop returns the most recently accepted id
    not yet popped ([None] exactly when nothing is held). *)
Theorem c08_code_lifo_order : forall ops cap ids,
  exists q' obs, code_run lifo_code_step (mkLIFOQueue cap ids) ops = Some (q', obs)
  /\ lifo_ok ops obs (rev ids)
  /\ LIFOQueue__capacity q' = cap
  /\ (le_cap (zlen ids) cap -> le_cap (LIFOQueue___len__ q') cap).
Proof. exact code_lifo_order. Qed.
Print Assumptions c08_code_lifo_order.

(** PriorityQueue AS TRANSLATED, started empty, for every operation sequence
    and every priority [_get_priority] reports: a successful pop returns the
    item of the entry that the generated dataclass order puts strictly before
    every entry left in the heap — lowest priority value first, insertion order
    among equal priorities (stable). *)
Theorem c08_code_priority_order : forall ops cap,
  exists q' obs, code_run prio_code_step (mkPriorityQueue cap [] 0) ops = Some (q', obs)
  /\ PriorityQueue__capacity q' = cap
  /\ (le_cap 0 cap -> le_cap (PriorityQueue___len__ q') cap)
  /\ forall q'' x, PriorityQueue_pop q' = Some (q'', Some x) ->
       exists e, PriorityQueue__heap q' = e :: PriorityQueue__heap q'' /\ _PriorityEntry_item e = x
         /\ Forall (fun e' => _PriorityEntry___lt__ e e' = true) (PriorityQueue__heap q'').
Proof. exact code_priority_order. Qed.
Print Assumptions c08_code_priority_order.

(** The premises are satisfiable and the statements not vacuous: a concrete run. *)
Example c08_code_fifo_example :
  code_run fifo_code_step (mkFIFOQueue (Some 2) []) [OPush false (mkit 7); OPush false (mkit 8); OPush false (mkit 9); OPop 0; OPop 0; OPop 0]
  = Some (mkFIFOQueue (Some 2) [], [(true, None, []); (true, None, []); (false, None, []); (true, Some 7, []); (true, Some 8, []); (true, None, [])]).
Proof. vm_compute. reflexivity. Qed.
Example c08_code_priority_example :
  option_map snd (code_run prio_code_step (mkPriorityQueue None [] 0)
    [OPush false (MkItem 1 5 0 0 0); OPush false (MkItem 2 3 0 0 0); OPush false (MkItem 3 5 0 0 0); OPush false (MkItem 4 3 0 0 0); OPop 0; OPop 0; OPop 0; OPop 0])
  = Some [(true, None, []); (true, None, []); (true, None, []); (true, None, []); (true, Some 2, []); (true, Some 4, []); (true, Some 1, []); (true, Some 3, [])].
Proof. vm_compute. reflexivity. Qed.

(* ---------------- code level: server/concurrency.py as regenerated by py2coq ---------------- *)

(** FixedConcurrency, DynamicConcurrency and WeightedConcurrency of
    components/server/concurrency.py, as REGENERATED from the source on every run
    (Gen/ConcurrencyGen.v): every operation (acquire / release / has_capacity with any
    weight, set_limit; scale_up / scale_down as set_limit) acts on the object exactly as
    the model's [cm_step] acts on its abstraction [cm_of], with the same result (1 = True,
    0 = False/None, 2 = ValueError). *)
Theorem c08_code_concurrency_refines_model : forall c o cd k,
  (cm_of (fst (code_cm_step c o)) = fst (cm_step (cm_of c) o) /\ snd (code_cm_step c o) = snd (cm_step (cm_of c) o))
  /\ (cm_of (ODyn (fst (DynamicConcurrency_scale_up cd k)))
        = fst (cm_step (cm_of (ODyn cd)) (CSetLimit (DynamicConcurrency__current_limit cd + k)))
      /\ cm_of (ODyn (fst (DynamicConcurrency_scale_down cd k)))
        = fst (cm_step (cm_of (ODyn cd)) (CSetLimit (DynamicConcurrency__current_limit cd - k)))).
Proof. intros c o cd k. exact (conj (tie_cm_step c o) (tie_cm_scale cd k)). Qed.
Print Assumptions c08_code_concurrency_refines_model.

(** Work in service never exceeds the concurrency limit — for the classes AS TRANSLATED,
    every sequence of acquire / release / has_capacity with any weights. *)
Theorem c08_code_concurrency_bound : forall ops c,
  Forall (fun o => match o with CSetLimit _ => False | _ => True end) ops ->
  cm_ok (cm_of c) -> cm_ok (cm_of (code_cm_run c ops)).
Proof. exact code_concurrency_bound. Qed.
Print Assumptions c08_code_concurrency_bound.

(** ... and across limit changes: a successful acquire of the translated classes never takes
    the count above the limit in force and strictly increases it, a refused acquire changes
    nothing, and has_capacity(w) answers exactly whether acquire(w) would succeed. *)
Theorem c08_code_acquire_respects_limit : forall c w,
  let '(c', r) := code_cm_step c (CAcquire w) in
  (r = 1 -> cm_active (cm_of c') <= cm_limit (cm_of c') /\ cm_active (cm_of c) < cm_active (cm_of c')) /\
  (r <> 1 -> cm_of c' = cm_of c) /\
  (1 <= w -> (snd (code_cm_step c (CHasCap w)) = 1 <-> r = 1)).
Proof. exact code_acquire_respects_limit. Qed.
Print Assumptions c08_code_acquire_respects_limit.

(* ---------------- code level: queue_policies/deadline_queue.py as regenerated by py2coq ---------------- *)

(** DeadlineQueue.push / pop / is_empty / __len__, regenerated from the source on every run
    (Gen/DeadlineGen.v; pop's `while heap: entry = heappop(heap)` drain loop with continue / return is a
    fold over the current heap), on the code object of a model state: push is the model's push
    (_get_deadline(item) = the item's deadline), pop at clock t drops exactly what the model's [dl_pop]
    drops, returns what it returns, and leaves the model's heap and counters (enqueued, dequeued,
    expired, rejected) — so [c08_deadline_order], conservation and capacity above speak about the code. *)
Theorem c08_code_deadline_refines_model : forall cap ctr h st it balk t,
  (let '(s', ok) := pol_push balk it (PDead cap ctr h st) in
   exists ctr' h' st', s' = PDead cap ctr' h' st' /\
   DeadlineQueue_push (dq_obj cap ctr h st) (iid it) (idl it) = (dq_obj cap ctr' h' st', ok))
  /\ (let '(s', r, ex) := pol_pop t (PDead cap ctr h st) in
      exists h' st', s' = PDead cap ctr h' st' /\
      DeadlineQueue_pop (dq_obj cap ctr h st) (Some t) = (dq_obj cap ctr h' st', option_map iid r))
  /\ (DeadlineQueue___len__ (dq_obj cap ctr h st) = pol_len (PDead cap ctr h st)
      /\ DeadlineQueue_is_empty (dq_obj cap ctr h st) = (pol_len (PDead cap ctr h st) =? 0))
  /\ (forall k o e, _DeadlineEntry___lt__ (denc (k, o, it)) (denc e) = entry_ltb k o e).
Proof.
  intros cap ctr h st it balk t.
  exact (conj (tie_dq_push cap ctr h st it balk) (conj (tie_dq_pop cap ctr h st t) (conj (tie_dq_reads cap ctr h st)
        (fun k o e => tie_dentry_lt k o it e)))).
Qed.
Print Assumptions c08_code_deadline_refines_model.
