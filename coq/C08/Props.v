(** Property C08 — the theorems the check counts as obligations.  Nothing but
    statements closed by [exact] and [Print Assumptions]. *)
From HS Require Import Base.Prelude C08.Model C08.Policies C08.Pipeline.
Local Open Scope Z_scope.

(** Conservation, every policy, every worker kind, EVERY schedule (any pending
    event may fire next; arrivals at any moment): each offered item is in
    exactly one of {refused and counted, expired in the policy and counted,
    waiting in the policy, dequeued and on its way to the worker, in service,
    completed, discarded by the worker and counted}, exactly once. *)
Theorem c08_conservation : forall k p limit ls w x,
  pol_ids p = [] -> wrun (w0 k p limit) ls = Some w -> NoDup (arrivals ls) ->
  (In x (arrivals ls) -> places w x = 1) /\ (~ In x (arrivals ls) -> places w x = 0).
Proof. exact conservation. Qed.
Print Assumptions c08_conservation.

(** Every counter of the pipeline equals the size of its ledger class. *)
Theorem c08_counters : forall k p limit ls w,
  wrun (w0 k p limit) ls = Some w -> counted w.
Proof. intros k p limit ls w H. exact (wrun_counted _ _ _ H (counted_w0 _ _ _)). Qed.
Print Assumptions c08_counters.

(** Work in service never exceeds the concurrency limit (Server with a fixed limit). *)
Theorem c08_concurrency_bound : forall p limit ls w,
  0 <= limit -> no_setlimit ls -> wrun (w0 WServer p limit) ls = Some w ->
  zlen (service_ids (pend w)) <= limit /\ act (ps w) = zlen (service_ids (pend w)) /\ lim (ps w) = limit.
Proof. exact concurrency_bound. Qed.
Print Assumptions c08_concurrency_bound.

(** REFUTED on the faithful model (known finding C08-overpoll-discard). *)
Theorem c08_no_discard_refuted : ~ no_discard_statement.
Proof. exact no_discard_refuted. Qed.
Print Assumptions c08_no_discard_refuted.

(** REFUTED on the faithful model (known finding C08-strand-partial-capacity). *)
Theorem c08_no_stranding_refuted : ~ no_stranding_statement.
Proof. exact no_stranding_refuted. Qed.
Print Assumptions c08_no_stranding_refuted.
