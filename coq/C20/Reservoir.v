(** C20 — reservoir sampler: size = min(k, n), holdings are stream items,
    distinct stream positions stay distinct under add; merge keeps the size but
    samples with replacement (refuted: distinctness). *)
From HS Require Import Base.Prelude C20.Model C20.Bloom C20.Counting.
Local Open Scope Z_scope.

Lemma set_nth_length n x l : length (set_nth n x l) = length l.
Proof. revert n. induction l as [|a l IH]; intros [|n]; cbn; auto. Qed.

Lemma set_nth_in n x l y : In y (set_nth n x l) -> y = x \/ In y l.
Proof.
  revert n. induction l as [|a l IH]; intros [|n]; cbn; try tauto.
  - intros [H|H]; auto.
  - intros [H|H]; auto. destruct (IH _ H); auto.
Qed.

Lemma set_nth_nodup n x l : NoDup l -> ~ In x l -> NoDup (set_nth n x l).
Proof.
  revert n. induction l as [|a l IH]; intros n Hnd Hx.
  - destruct n; cbn; constructor.
  - inversion Hnd; subst. destruct n as [|n]; cbn.
    + constructor; [cbn in Hx; tauto|assumption].
    + constructor.
      * intros H. apply set_nth_in in H. cbn in Hx. destruct H; [subst; tauto|tauto].
      * apply IH; [assumption|cbn in Hx; tauto].
Qed.

Lemma firstn_In' {A} n (l : list A) y : In y (firstn n l) -> In y l.
Proof. revert n. induction l as [|a l IH]; intros [|n]; cbn; try tauto. intros [H|H]; [auto|right; eauto]. Qed.

Section Reservoir.
Variable k : Z.
Hypothesis Hk : 0 < k.

Definition rinv (s : resv) : Prop :=
  Z.of_nat (length (r_items s)) = Z.min k (r_total s) /\ 0 <= r_total s.

Lemma add_one_inv s ds x : rinv s ->
  rinv (fst (r_add_one k (s, ds) x)) /\ r_total (fst (r_add_one k (s, ds) x)) = r_total s + 1.
Proof.
  intros [H1 H2]. unfold r_add_one. destruct (_ <? k) eqn:L; cbn.
  - unfold rinv. cbn. rewrite app_length. cbn [length]. lia.
  - destruct (draw ds) as [j ds']. cbn. unfold rinv. cbn.
    destruct (j <? k); [rewrite set_nth_length|]; lia.
Qed.

Lemma add_ones_inv n : forall s ds x, rinv s ->
  let r := fold_left (fun st _ => r_add_one k st x) (repeat tt n) (s, ds) in
  rinv (fst r) /\ r_total (fst r) = r_total s + Z.of_nat n.
Proof.
  induction n as [|n IH]; intros s ds x H; cbn [repeat fold_left]; cbn zeta.
  - cbn [fst]. split; [exact H|lia].
  - destruct (add_one_inv s ds x H) as [A B].
    destruct (r_add_one k (s, ds) x) as [s1 ds1] eqn:E. cbn in A, B.
    destruct (IH s1 ds1 x A) as [C D]. cbn in C, D. split; [exact C|]. rewrite D, B. lia.
Qed.

Lemma r_add_inv s ds x c : rinv s ->
  rinv (fst (fst (r_add k (s, ds) x c))) /\
  r_total (fst (fst (r_add k (s, ds) x c))) = r_total s + (if 0 <? c then c else 0).
Proof.
  intros H. unfold r_add. destruct (c <? 0) eqn:E; cbn [fst].
  - replace (0 <? c) with false by lia. split; [exact H|lia].
  - destruct (add_ones_inv (Z.to_nat c) s ds x H) as [A B]. split; [exact A|].
    rewrite B. destruct (0 <? c) eqn:E2; lia.
Qed.

Lemma r_stream_inv s : forall st ds, rinv st ->
  rinv (fst (r_stream k s (st, ds))) /\
  r_total (fst (r_stream k s (st, ds))) = r_total st + stream_total s.
Proof.
  induction s as [|[x c] s IH]; intros st ds H; cbn.
  - split; [exact H|lia].
  - unfold r_stream in *. cbn [fold_left fst snd].
    destruct (r_add_inv st ds x c H) as [A B].
    destruct (r_add k (st, ds) x c) as [[s1 ds1] r1]. cbn [fst] in *.
    destruct (IH s1 ds1 A) as [C D]. split; [exact C|]. rewrite D, B. lia.
Qed.

Lemma rinv_empty : rinv resv_empty.
Proof. unfold rinv. cbn. lia. Qed.

(** A reservoir fed any stream with any RNG draws holds exactly min(k, n)
    items, n = number of occurrences added. *)
Theorem reservoir_size : forall s ds,
  let st := fst (r_stream k s (resv_empty, ds)) in
  Z.of_nat (length (r_items st)) = Z.min k (stream_total s) /\ r_total st = stream_total s.
Proof.
  intros s ds. destruct (r_stream_inv s resv_empty ds rinv_empty) as [[A _] B]. cbn in B.
  cbn zeta. rewrite B in A. split; [exact A|exact B].
Qed.

(** ** the holdings are stream items *)
Definition within (P : Z -> Prop) (s : resv) : Prop := forall y, In y (r_items s) -> P y.

Lemma add_one_within (P : Z -> Prop) s ds x : P x -> within P s -> within P (fst (r_add_one k (s, ds) x)).
Proof.
  intros Hx H. unfold r_add_one. destruct (_ <? k); cbn.
  - intros y Hy. apply in_app_iff in Hy. destruct Hy as [Hy|[<-|[]]]; auto.
  - destruct (draw ds) as [j ds']. cbn. destruct (j <? k); [|exact H].
    intros y Hy. apply set_nth_in in Hy. destruct Hy; [subst; auto|auto].
Qed.

Lemma add_ones_within (P : Z -> Prop) n : forall s ds x, P x -> within P s ->
  within P (fst (fold_left (fun st _ => r_add_one k st x) (repeat tt n) (s, ds))).
Proof.
  induction n as [|n IH]; intros s ds x Hx H; cbn [repeat fold_left]; [exact H|].
  pose proof (add_one_within P s ds x Hx H) as A.
  destruct (r_add_one k (s, ds) x) as [s1 ds1]. now apply IH.
Qed.

Lemma r_stream_within (P : Z -> Prop) s : forall st ds,
  (forall x c, In (x, c) s -> 0 < c -> P x) -> within P st -> within P (fst (r_stream k s (st, ds))).
Proof.
  induction s as [|[x c] s IH]; intros st ds HP H; cbn; [exact H|].
  unfold r_stream in *. cbn [fold_left fst snd].
  assert (A : within P (fst (fst (r_add k (st, ds) x c)))).
  { unfold r_add. destruct (c <? 0) eqn:E; cbn [fst]; [exact H|].
    destruct (Z.to_nat c) eqn:En; [cbn; exact H|]. rewrite <- En.
    apply add_ones_within; [|exact H]. apply (HP x c); [now left|lia]. }
  destruct (r_add k (st, ds) x c) as [[s1 ds1] r1]. cbn [fst] in *.
  apply IH; [|exact A]. intros x' c' Hin. apply HP. now right.
Qed.

Theorem reservoir_holds_stream_items : forall s ds y,
  In y (r_items (fst (r_stream k s (resv_empty, ds)))) -> exists c, In (y, c) s /\ 0 < c.
Proof.
  intros s ds y Hy.
  apply (r_stream_within (fun y => exists c, In (y, c) s /\ 0 < c) s resv_empty ds); [| |exact Hy].
  - intros x c Hin Hc. eauto.
  - intros z [].
Qed.

(** ** distinct stream occurrences stay distinct (no occurrence is held twice) *)
Definition singles (xs : list Z) : list (Z * Z) := map (fun x => (x, 1)) xs.

Lemma singles_step x st ds :
  fst (r_add k (st, ds) x 1) = r_add_one k (st, ds) x.
Proof. reflexivity. Qed.

Lemma r_stream_cons x c s st : r_stream k ((x, c) :: s) st = r_stream k s (fst (r_add k st x c)).
Proof. reflexivity. Qed.

Lemma r_stream_nodup xs : forall st ds (seen : list Z),
  NoDup (seen ++ xs) -> NoDup (r_items st) -> (forall y, In y (r_items st) -> In y seen) ->
  NoDup (r_items (fst (r_stream k (singles xs) (st, ds)))).
Proof.
  induction xs as [|x xs IH]; intros st ds seen Hnd Hst Hsub; [exact Hst|].
  cbn [singles map]. rewrite r_stream_cons, singles_step. fold (singles xs).
  assert (Hx : ~ In x seen).
  { apply NoDup_remove_2 in Hnd. intros H. apply Hnd. apply in_app_iff. now left. }
  assert (Hx' : ~ In x (r_items st)) by (intros H; apply Hx; auto).
  destruct (r_add_one k (st, ds) x) as [s1 ds1] eqn:E.
  apply (IH s1 ds1 (seen ++ [x])).
  - rewrite <- app_assoc. exact Hnd.
  - unfold r_add_one in E. destruct (_ <? k).
    + inversion E; subst. cbn. clear -Hst Hx'.
      induction (r_items st) as [|a l IHl]; cbn; [constructor; [tauto|constructor]|].
      inversion Hst; subst. constructor.
      * rewrite in_app_iff. cbn. cbn in Hx'. intros [H|[H|[]]]; [tauto|subst; tauto].
      * apply IHl; [assumption|cbn in Hx'; tauto].
    + destruct (draw ds) as [j ds']. inversion E; subst. cbn.
      destruct (j <? k); [apply set_nth_nodup; assumption|assumption].
  - intros y Hy. apply in_app_iff. unfold r_add_one in E. destruct (_ <? k).
    + inversion E; subst. cbn in Hy. apply in_app_iff in Hy. destruct Hy as [Hy|[<-|[]]]; [left; auto|right; now left].
    + destruct (draw ds) as [j ds']. inversion E; subst. cbn in Hy.
      destruct (j <? k); [|left; auto]. apply set_nth_in in Hy. destruct Hy; [subst; right; now left|left; auto].
Qed.

Theorem reservoir_distinct_occurrences : forall xs ds,
  NoDup xs -> NoDup (r_items (fst (r_stream k (singles xs) (resv_empty, ds)))).
Proof.
  intros xs ds H. apply (r_stream_nodup xs resv_empty ds []); [exact H|constructor|intros y []].
Qed.

(** ** merge *)
Definition valid_draws (ds : list Z) : Prop := Forall (fun d => 0 <= d < two53) ds.

Lemma draw_valid ds : valid_draws ds -> 0 <= fst (draw ds) < two53 /\ valid_draws (snd (draw ds)).
Proof.
  intros H. destruct ds as [|d r]; cbn; [split; [unfold two53; lia|constructor]|].
  inversion H; subst. split; assumption.
Qed.

Lemma pick_one a b new ds : rinv a -> rinv b -> 0 < r_total a + r_total b -> valid_draws ds ->
  length (fst (r_pick a b (new, ds))) = S (length new) /\ valid_draws (snd (r_pick a b (new, ds))) /\
  (forall y, In y (fst (r_pick a b (new, ds))) -> In y new \/ In y (r_items a) \/ In y (r_items b)).
Proof.
  intros [A1 A2] [B1 B2] Hc Hv. unfold r_pick.
  destruct (draw_valid ds Hv) as [Hu Hv1]. destruct (draw ds) as [u ds1]. cbn [fst snd] in *.
  destruct (draw_valid ds1 Hv1) as [_ Hv2].
  destruct (_ <? _) eqn:P.
  - destruct (r_items a) as [|h t] eqn:Ea.
    + exfalso. cbn in A1. assert (r_total a = 0) by lia. unfold two53 in *. nia.
    + destruct (draw ds1) as [i ds2]. cbn [fst snd] in *. rewrite app_length. cbn [length].
      split; [lia|]. split; [exact Hv2|]. intros y Hy. apply in_app_iff in Hy. destruct Hy as [Hy|[<-|[]]]; [auto|].
      right. left. destruct (nth_in_or_default (Z.to_nat i) (h :: t) h) as [Hn|Hn]; [exact Hn|rewrite Hn; now left].
  - destruct (r_items b) as [|h t] eqn:Eb.
    + exfalso. cbn in B1. assert (r_total b = 0) by lia. unfold two53 in *. nia.
    + destruct (draw ds1) as [i ds2]. cbn [fst snd] in *. rewrite app_length. cbn [length].
      split; [lia|]. split; [exact Hv2|]. intros y Hy. apply in_app_iff in Hy. destruct Hy as [Hy|[<-|[]]]; [auto|].
      right. right. destruct (nth_in_or_default (Z.to_nat i) (h :: t) h) as [Hn|Hn]; [exact Hn|rewrite Hn; now left].
Qed.

Lemma picks a b n : forall new ds, rinv a -> rinv b -> 0 < r_total a + r_total b -> valid_draws ds ->
  let r := fold_left (fun acc _ => r_pick a b acc) (repeat tt n) (new, ds) in
  length (fst r) = (n + length new)%nat /\
  (forall y, In y (fst r) -> In y new \/ In y (r_items a) \/ In y (r_items b)).
Proof.
  induction n as [|n IH]; intros new ds Ha Hb Hc Hv; cbn [repeat fold_left]; cbn zeta.
  - cbn [fst]. split; [reflexivity|auto].
  - destruct (pick_one a b new ds Ha Hb Hc Hv) as (L & V & I).
    destruct (r_pick a b (new, ds)) as [new1 ds1]. cbn [fst snd] in *.
    destruct (IH new1 ds1 Ha Hb Hc V) as [L2 I2]. cbn in L2, I2. split; [rewrite L2, L; lia|].
    intros y Hy. destruct (I2 y Hy) as [H|H]; [apply I; exact H|auto].
Qed.

(** Merging two reservoirs (RNG draws in their ranges) gives min(k, n1 + n2)
    entries, every one of them an entry of one of the inputs. *)
Theorem reservoir_merge_size : forall a b ds, rinv a -> rinv b -> valid_draws ds ->
  let m := fst (r_merge k a b ds) in
  rinv m /\ r_total m = r_total a + r_total b /\
  (forall y, In y (r_items m) -> In y (r_items a) \/ In y (r_items b)).
Proof.
  intros a b ds Ha Hb Hv. unfold r_merge. destruct (_ =? 0) eqn:E; cbn zeta.
  - cbn [fst]. destruct Ha as [A1 A2], Hb as [B1 B2]. repeat split; auto; lia.
  - assert (Hc : 0 < r_total a + r_total b) by (destruct Ha, Hb; lia).
    destruct (picks a b (Z.to_nat (Z.min k (r_total a + r_total b))) [] ds Ha Hb Hc Hv) as [L I].
    destruct (fold_left _ _ _) as [new ds']. cbn [fst snd] in *. cbn in L.
    unfold rinv. cbn [r_items r_total]. rewrite firstn_length. repeat split; try lia.
    intros y Hy. apply firstn_In' in Hy. destruct (I y Hy) as [[]|H]; exact H.
Qed.

End Reservoir.

(** The merged reservoir can hold ONE stream occurrence twice (sampling with
    replacement): streams [1] and [2], k = 2, draws 0. *)
Definition reservoir_merge_distinct_statement : Prop :=
  forall k a b ds, 0 < k -> rinv k a -> rinv k b -> valid_draws ds ->
  NoDup (r_items a ++ r_items b) -> NoDup (r_items (fst (r_merge k a b ds))).

Theorem reservoir_merge_distinct_refuted : ~ reservoir_merge_distinct_statement.
Proof.
  intros H.
  specialize (H 2 {| r_items := [1]; r_total := 1 |} {| r_items := [2]; r_total := 1 |} [0; 0; 0; 0]).
  assert (N : NoDup (r_items (fst (r_merge 2 {| r_items := [1]; r_total := 1 |} {| r_items := [2]; r_total := 1 |} [0; 0; 0; 0])))).
  { apply H; try (unfold rinv; cbn; lia).
    - repeat constructor; unfold two53; lia.
    - cbn. repeat constructor; cbn; intuition lia. }
  vm_compute in N. inversion N as [|? ? Hin _]; subst. apply Hin. now left.
Qed.

(** Hypotheses satisfiable: reservoirs satisfying the invariant and in-range draws. *)
Example reservoir_hypotheses_satisfiable :
  rinv 2 {| r_items := [1]; r_total := 1 |} /\ rinv 2 {| r_items := [2; 3]; r_total := 7 |} /\
  valid_draws [0; 5; 1] /\
  r_items (fst (r_stream 2 (singles [5; 6; 7]) (resv_empty, [1]))) = [5; 7].
Proof.
  split; [unfold rinv; cbn; lia|]. split; [unfold rinv; cbn; lia|]. split.
  - unfold valid_draws, two53. repeat constructor; lia.
  - vm_compute. reflexivity.
Qed.
