(** C20 — t-digest.  On binary64 (the arithmetic the code runs on) both
    clauses are REFUTED by concrete witnesses; over exact rationals the same
    definitions satisfy the range clause (PARTIAL). *)
From HS Require Import Base.Prelude C20.Model.
From Coq Require Import Floats QArith Lqa Sorting.Sorted.
Local Open Scope Z_scope.

(** The clauses, for an arbitrary arithmetic. [adds] is a stream of (value, count). *)
Definition td_of (A : arith) msz bs (adds : list (Model.num A * Z)) : tdig A :=
  fold_left (fun s vc => fst (td_add A msz bs s (fst vc) (snd vc))) adds (td_empty A).

Definition td_range_statement (A : arith) (msz : Z -> Model.num A -> Model.num A) (bs : Z) : Prop :=
  forall adds q v mn mx,
    let r := td_quantile A msz (td_of A msz bs adds) q in
    snd r = Some v -> td_min (fst r) = Some mn -> td_max (fst r) = Some mx ->
    a_leb A mn v = true /\ a_leb A v mx = true.

Definition td_monotone_statement (A : arith) (msz : Z -> Model.num A -> Model.num A) (bs : Z) : Prop :=
  forall adds q1 q2 v1 v2,
    a_leb A q1 q2 = true ->
    snd (td_quantile A msz (td_of A msz bs adds) q1) = Some v1 ->
    snd (td_quantile A msz (td_of A msz bs adds) q2) = Some v2 ->
    a_leb A v1 v2 = true.

(** ** binary64 witness: add(2.7, count=3) into TDigest(compression=1) *)
Definition w_adds : list (float * Z) := [(0x1.599999999999ap+1%float, 3)].
Definition w_q1 : float := 0x1.f8p-1%float.                    (* 0.984375 *)
Definition w_q2 : float := 1%float.
Definition w_max : float := 0x1.599999999999ap+1%float.        (* 2.7 = min = max *)
Definition w_v1 : float := 0x1.599999999999bp+1%float.         (* 2.7000000000000006 = quantile(0.984375) *)

Theorem td_float_range_refuted : ~ td_range_statement FA (f_msz 1%float) 2.
Proof.
  intros H. specialize (H w_adds w_q1 w_v1 w_max w_max). cbv zeta in H.
  assert (C : a_leb FA w_v1 w_max = true).
  { apply H; vm_compute; reflexivity. }
  vm_compute in C. discriminate.
Qed.

Theorem td_float_monotone_refuted : ~ td_monotone_statement FA (f_msz 1%float) 2.
Proof.
  intros H. specialize (H w_adds w_q1 w_q2 w_v1 w_max).
  assert (C : a_leb FA w_v1 w_max = true).
  { apply H; vm_compute; reflexivity. }
  vm_compute in C. discriminate.
Qed.

(** ** exact rationals: the range clause holds (PARTIAL: exact arithmetic) *)
Definition QA : arith :=
  Model.Build_arith Q Qplus Qminus Qmult Qdiv inject_Z (fun a b => negb (Qle_bool b a)) Qle_bool Qeq_bool.

Local Open Scope Q_scope.

Lemma ltb_lt a b : a_ltb QA a b = true -> a < b.
Proof. cbn. intros H. apply Qnot_le_lt. intros L. apply Qle_bool_iff in L. rewrite L in H. discriminate. Qed.
Lemma ltb_false_le a b : a_ltb QA a b = false -> b <= a.
Proof. cbn. intros H. apply Qle_bool_iff. destruct (Qle_bool b a); [reflexivity|discriminate]. Qed.
Lemma leb_le a b : a_leb QA a b = true -> a <= b.
Proof. cbn. apply Qle_bool_iff. Qed.
Lemma le_leb a b : a <= b -> a_leb QA a b = true.
Proof. cbn. apply Qle_bool_iff. Qed.

Lemma injZ_pos c : (0 < c)%Z -> 0 < inject_Z c.
Proof. intros H. unfold Qlt, inject_Z. cbn. lia. Qed.

Lemma div01 a b : 0 <= a -> a <= b -> 0 < b -> 0 <= a / b /\ a / b <= 1.
Proof.
  intros Ha Hab Hb. split.
  - apply Qle_shift_div_l; [exact Hb|]. lra.
  - apply Qle_shift_div_r; [exact Hb|]. lra.
Qed.

Lemma conv1 lo hi m t : lo <= m -> m <= hi -> 0 <= t -> t <= 1 -> lo <= lo + t * (m - lo) /\ lo + t * (m - lo) <= hi.
Proof. intros. split; nra. Qed.
Lemma conv2 lo hi m t : lo <= m -> m <= hi -> 0 <= t -> t <= 1 -> lo <= m + t * (hi - m) /\ m + t * (hi - m) <= hi.
Proof. intros. split; nra. Qed.
Lemma conv3 lo hi pm m f : lo <= pm -> pm <= hi -> lo <= m -> m <= hi -> 0 <= f -> f <= 1 ->
  lo <= pm + (m - pm) * f /\ pm + (m - pm) * f <= hi.
Proof. intros. split; nra. Qed.

Lemma wmean lo hi m1 m2 c1 c2 : lo <= m1 -> m1 <= hi -> lo <= m2 -> m2 <= hi -> 0 < c1 -> 0 < c2 ->
  lo <= (m1 * c1 + m2 * c2) / (c1 + c2) /\ (m1 * c1 + m2 * c2) / (c1 + c2) <= hi.
Proof.
  intros. assert (0 < c1 + c2) by lra. split.
  - apply Qle_shift_div_l; [assumption|]. nra.
  - apply Qle_shift_div_r; [assumption|]. nra.
Qed.

Definition okc (lo hi : Q) (c : Q * Z) : Prop := lo <= fst c /\ fst c <= hi /\ (0 < snd c)%Z.
Definition okv (lo hi : Q) (v : Q) : Prop := lo <= v /\ v <= hi.
Fixpoint csum (cs : list (Q * Z)) : Z := match cs with [] => 0%Z | c :: r => (snd c + csum r)%Z end.

Lemma half_eq : inject_Z 1 / inject_Z 2 == 1 # 2.
Proof. reflexivity. Qed.

(** The centroid walk stays inside [lo, hi]. *)
Lemma walk_range lo hi total target : lo <= hi -> forall cs prev running rz,
  (forall pm, prev = Some pm -> lo <= pm /\ pm <= hi) ->
  Forall (okc lo hi) cs -> running == inject_Z rz -> (0 <= rz)%Z -> (rz + csum cs = total)%Z ->
  lo <= td_walk QA lo hi total target prev running cs /\
  td_walk QA lo hi total target prev running cs <= hi.
Proof.
  intros Hlh. induction cs as [|[m c] rest IH]; intros prev running rz Hp Hcs Hr Hrz Hsum.
  - cbn. destruct prev as [pm|]; [apply Hp; reflexivity|lra].
  - apply Forall_cons_iff in Hcs. destruct Hcs as [[Hm1 [Hm2 Hc]] Hrest]. cbn [fst snd] in *.
    pose proof (injZ_pos c Hc) as Hcq.
    assert (Hrq : 0 <= running) by (rewrite Hr; unfold Qle, inject_Z; cbn; lia).
    cbn [td_walk].
    destruct (a_leb QA running target && a_leb QA target _) eqn:B.
    2:{ apply (IH (Some m) (a_add QA running (a_ofZ QA c)) (rz + c)%Z).
        - intros pm E. inversion E; subst. auto.
        - exact Hrest.
        - cbn. rewrite Hr, inject_Z_plus. reflexivity.
        - lia.
        - cbn in Hsum. lia. }
    apply andb_true_iff in B. destruct B as [B1 B2]. apply leb_le in B1.
    destruct prev as [pm|].
    + destruct (Hp pm eq_refl) as [Hp1 Hp2]. destruct rest as [|r1 rest'].
      * (* last centroid *)
        apply leb_le in B2. cbn in B2. cbn in Hsum.
        assert (Hrem : inject_Z total - running == inject_Z c).
        { rewrite Hr. replace total with (rz + c)%Z by lia. rewrite inject_Z_plus. ring. }
        destruct (a_ltb QA _ target) eqn:L.
        -- apply ltb_lt in L. cbn in L. cbn [a_add a_sub a_mul a_div a_ofZ QA].
           set (rem := inject_Z total - running) in *.
           assert (Hrem2 : 0 < rem / inject_Z 2).
           { apply Qlt_shift_div_l; [reflexivity|]. rewrite Hrem. lra. }
           assert (T : 0 <= (target - running - rem / inject_Z 2) / (rem / inject_Z 2) /\
                       (target - running - rem / inject_Z 2) / (rem / inject_Z 2) <= 1).
           { apply div01; [lra| |exact Hrem2].
             assert (rem / inject_Z 2 + rem / inject_Z 2 == rem) by (field).
             assert (target <= running + rem) by (unfold rem; lra). lra. }
           destruct T as [T1 T2]. apply conv2; assumption.
        -- split; assumption.
      * (* middle centroid *)
        destruct (a_ltb QA _ _) eqn:L.
        -- apply ltb_lt in L. cbn in L. cbn [a_add a_sub a_mul a_div a_ofZ QA].
           rewrite half_eq in *.
           assert (T : 0 <= (target - running) / inject_Z c).
           { apply Qle_shift_div_l; [exact Hcq|]. lra. }
           apply conv3; try assumption; lra.
        -- split; assumption.
    + (* first centroid *)
      destruct (a_ltb QA target _) eqn:L.
      * apply ltb_lt in L. cbn in L. cbn [a_add a_sub a_mul a_div a_ofZ QA].
        assert (Hc2 : 0 < inject_Z c / inject_Z 2).
        { apply Qlt_shift_div_l; [reflexivity|]. lra. }
        assert (T : 0 <= target / (inject_Z c / inject_Z 2) /\ target / (inject_Z c / inject_Z 2) <= 1).
        { apply div01; [lra|lra|exact Hc2]. }
        destruct T. apply conv1; assumption.
      * split; assumption.
Qed.

(** ** monotonicity of the centroid walk over a sorted centroid list (exact arithmetic) *)
Definition csorted (cs : list (Q * Z)) : Prop := StronglySorted (fun a b => fst a <= fst b) cs.

Lemma div_mono a b d : a <= b -> 0 < d -> a / d <= b / d.
Proof. intros H Hd. unfold Qdiv. apply Qmult_le_compat_r; [exact H|]. apply Qlt_le_weak, Qinv_lt_0_compat, Hd. Qed.
Lemma div_nonneg a d : 0 <= a -> 0 < d -> 0 <= a / d.
Proof. intros. apply Qle_shift_div_l; [assumption|lra]. Qed.
Lemma div_le1 a d : a <= d -> 0 < d -> a / d <= 1.
Proof. intros. apply Qle_shift_div_r; [assumption|lra]. Qed.

Lemma ramp_mono lo m d t1 t2 : lo <= m -> 0 < d -> t1 <= t2 ->
  lo + t1 / d * (m - lo) <= lo + t2 / d * (m - lo).
Proof. intros H Hd Ht. pose proof (div_mono t1 t2 d Ht Hd). nra. Qed.
Lemma ramp_le lo m d t : lo <= m -> 0 < d -> t <= d -> lo + t / d * (m - lo) <= m.
Proof. intros H Hd Ht. pose proof (div_le1 t d Ht Hd). nra. Qed.
Lemma mid_mono pm m c a1 a2 : pm <= m -> 0 < c -> a1 <= a2 ->
  pm + (m - pm) * ((1 # 2) + a1 / c) <= pm + (m - pm) * ((1 # 2) + a2 / c).
Proof. intros H Hc Ha. pose proof (div_mono a1 a2 c Ha Hc). nra. Qed.
Lemma mid_le pm m f : pm <= m -> f <= 1 -> pm + (m - pm) * f <= m.
Proof. intros. nra. Qed.
Lemma mid_ge pm m f : pm <= m -> 0 <= f -> pm <= pm + (m - pm) * f.
Proof. intros. nra. Qed.
Lemma last_mono m hi d a1 a2 : m <= hi -> 0 < d -> a1 <= a2 ->
  m + a1 / d * (hi - m) <= m + a2 / d * (hi - m).
Proof. intros H Hd Ha. pose proof (div_mono a1 a2 d Ha Hd). nra. Qed.
Lemma last_ge m hi d a : m <= hi -> 0 < d -> 0 <= a -> m <= m + a / d * (hi - m).
Proof. intros H Hd Ha. pose proof (div_nonneg a d Ha Hd). nra. Qed.

Lemma range_false running t right : running <= t ->
  a_leb QA running t && a_leb QA t right = false -> right < t.
Proof.
  intros H B. apply Qnot_le_lt. intros L. apply le_leb in H. apply le_leb in L. rewrite H, L in B. discriminate.
Qed.
Lemma range_true running t right : a_leb QA running t && a_leb QA t right = true -> running <= t /\ t <= right.
Proof. intros B. apply andb_true_iff in B. destruct B as [B1 B2]. split; apply leb_le; assumption. Qed.

Lemma csorted_inv c rest : csorted (c :: rest) -> csorted rest /\ forall c', In c' rest -> fst c <= fst c'.
Proof. intros H. apply StronglySorted_inv in H. destruct H as [H1 H2]. split; [exact H1|]. now apply Forall_forall. Qed.

(** The walk never returns less than the previous centroid's mean. *)
Lemma walk_ge_prev lo hi total target : forall cs pm running rz,
  Forall (okc lo hi) cs -> csorted cs -> (forall c, In c cs -> pm <= fst c) ->
  running == inject_Z rz -> (rz + csum cs = total)%Z -> running <= target ->
  pm <= td_walk QA lo hi total target (Some pm) running cs.
Proof.
  induction cs as [|[m c] rest IH]; intros pm running rz Hcs Hso Hge Hr Hsum Ht.
  - cbn. lra.
  - apply Forall_cons_iff in Hcs. destruct Hcs as [[Hm1 [Hm2 Hc]] Hrest]. cbn [fst snd] in *.
    pose proof (injZ_pos c Hc) as Hcq. pose proof (Hge (m, c) (or_introl eq_refl)) as Hpm. cbn in Hpm.
    destruct (csorted_inv _ _ Hso) as [Hso' Hle]. cbn [fst] in Hle.
    cbn [td_walk]. destruct (a_leb QA running target && a_leb QA target _) eqn:B.
    2:{ apply Qle_trans with m; [exact Hpm|].
        apply (IH m (a_add QA running (a_ofZ QA c)) (rz + c)%Z); try assumption.
        - cbn. rewrite Hr, inject_Z_plus. reflexivity.
        - cbn in Hsum. lia.
        - apply range_false in B; [|exact Ht]. destruct rest; cbn in *; [|lra].
          assert (E : inject_Z total == running + inject_Z c) by (rewrite Hr, <- inject_Z_plus; replace total with (rz + c)%Z by lia; reflexivity).
          lra. }
    apply range_true in B. destruct B as [B1 B2].
    destruct rest as [|r1 rest'].
    + destruct (a_ltb QA _ target) eqn:L; [|exact Hpm].
      apply ltb_lt in L. cbn in L. cbn [a_add a_sub a_mul a_div a_ofZ QA]. cbn in Hsum.
      assert (Hrem : inject_Z total - running == inject_Z c).
      { rewrite Hr. replace total with (rz + c)%Z by lia. rewrite inject_Z_plus. ring. }
      set (rem := inject_Z total - running) in *.
      assert (P : 0 < rem / inject_Z 2) by (apply Qlt_shift_div_l; [reflexivity|rewrite Hrem; lra]).
      apply Qle_trans with m; [exact Hpm|]. apply last_ge; [exact Hm2|exact P|lra].
    + destruct (a_ltb QA _ _) eqn:L; [|exact Hpm].
      apply ltb_lt in L. cbn in L. cbn [a_add a_sub a_mul a_div a_ofZ QA]. rewrite half_eq in *.
      apply mid_ge; [exact Hpm|]. pose proof (div_nonneg (target - running) (inject_Z c) ltac:(lra) Hcq). lra.
Qed.

(** Non-decreasing in the target (= q * total), over any sorted centroid list. *)
Lemma walk_mono lo hi total : lo <= hi -> forall cs prev running rz t1 t2,
  (forall pm, prev = Some pm -> forall c, In c cs -> pm <= fst c) ->
  Forall (okc lo hi) cs -> csorted cs -> running == inject_Z rz -> (rz + csum cs = total)%Z ->
  running <= t1 -> t1 <= t2 -> t2 <= inject_Z total ->
  td_walk QA lo hi total t1 prev running cs <= td_walk QA lo hi total t2 prev running cs.
Proof.
  intros Hlh. induction cs as [|[m c] rest IH]; intros prev running rz t1 t2 Hp Hcs Hso Hr Hsum H1 H12 H2.
  - cbn. destruct prev; lra.
  - apply Forall_cons_iff in Hcs. destruct Hcs as [[Hm1 [Hm2 Hc]] Hrest]. cbn [fst snd] in *.
    pose proof (injZ_pos c Hc) as Hcq.
    destruct (csorted_inv _ _ Hso) as [Hso' Hle]. cbn [fst] in Hle.
    assert (Hrun' : a_add QA running (a_ofZ QA c) == inject_Z (rz + c)) by (cbn; rewrite Hr, inject_Z_plus; reflexivity).
    assert (Hsum' : (rz + c + csum rest = total)%Z) by (cbn in Hsum; lia).
    cbn [td_walk].
    destruct (a_leb QA running t1 && a_leb QA t1 _) eqn:B1.
    2:{ (* t1 beyond this centroid: so is t2 *)
        apply range_false in B1; [|exact H1].
        destruct (a_leb QA running t2 && a_leb QA t2 _) eqn:B2.
        { apply range_true in B2. destruct B2 as [_ B2]. lra. }
        apply (IH (Some m) _ (rz + c)%Z); try assumption.
        - intros pm E. injection E as <-. exact Hle.
        - destruct rest; cbn in *; [|lra].
          assert (E : inject_Z total == running + inject_Z c) by (rewrite Hr, <- inject_Z_plus; replace total with (rz + c)%Z by lia; reflexivity).
          lra. }
    apply range_true in B1. destruct B1 as [B1a B1b].
    destruct (a_leb QA running t2 && a_leb QA t2 _) eqn:B2.
    2:{ (* t1 on this centroid, t2 beyond it *)
        apply range_false in B2; [|lra].
        destruct rest as [|r1 rest']; [cbn in B2; lra|].
        apply Qle_trans with m.
        - destruct prev as [pm|].
          + destruct (a_ltb QA _ _) eqn:L; [|lra]. apply ltb_lt in L. cbn in L.
            cbn [a_add a_sub a_mul a_div a_ofZ QA]. rewrite half_eq in *.
            apply mid_le; [apply (Hp pm eq_refl (m, c)); now left|lra].
          + destruct (a_ltb QA t1 _) eqn:L; [|lra]. apply ltb_lt in L. cbn in L.
            cbn [a_add a_sub a_mul a_div a_ofZ QA].
            assert (D : 0 < inject_Z c / inject_Z 2) by (apply Qlt_shift_div_l; [reflexivity|lra]).
            apply ramp_le; [exact Hm1|exact D|lra].
        - apply (walk_ge_prev lo hi total t2 (r1 :: rest') m _ (rz + c)%Z); try assumption. cbn in *; lra. }
    apply range_true in B2. destruct B2 as [B2a B2b].
    (* both on this centroid *)
    destruct prev as [pm|].
    + assert (Hpm : pm <= m) by (apply (Hp pm eq_refl (m, c)); now left).
      destruct rest as [|r1 rest'].
      * cbn in Hsum.
        assert (Hrem : inject_Z total - running == inject_Z c).
        { rewrite Hr. replace total with (rz + c)%Z by lia. rewrite inject_Z_plus. ring. }
        cbn [a_add a_sub a_mul a_div a_ofZ QA]. set (rem := inject_Z total - running) in *.
        assert (P : 0 < rem / inject_Z 2) by (apply Qlt_shift_div_l; [reflexivity|rewrite Hrem; lra]).
        destruct (a_ltb QA _ t1) eqn:L1; destruct (a_ltb QA _ t2) eqn:L2;
          try apply ltb_lt in L1; try apply ltb_lt in L2; try apply ltb_false_le in L1; try apply ltb_false_le in L2;
          cbn in L1, L2.
        -- apply last_mono; [exact Hm2|exact P|lra].
        -- lra.
        -- apply last_ge; [exact Hm2|exact P|lra].
        -- lra.
      * cbn [a_add a_sub a_mul a_div a_ofZ QA]. change (inject_Z 1 / inject_Z 2) with (1 # 2) in *.
        destruct (a_ltb QA ((t1 - running) / inject_Z c) _) eqn:L1; destruct (a_ltb QA ((t2 - running) / inject_Z c) _) eqn:L2;
          try apply ltb_lt in L1; try apply ltb_lt in L2; try apply ltb_false_le in L1; try apply ltb_false_le in L2;
          cbn in L1, L2.
        -- apply mid_mono; [exact Hpm|exact Hcq|lra].
        -- apply mid_le; [exact Hpm|lra].
        -- pose proof (div_mono (t1 - running) (t2 - running) (inject_Z c) ltac:(lra) Hcq). lra.
        -- lra.
    + cbn [a_add a_sub a_mul a_div a_ofZ QA].
      assert (D : 0 < inject_Z c / inject_Z 2) by (apply Qlt_shift_div_l; [reflexivity|lra]).
      destruct (a_ltb QA t1 _) eqn:L1; destruct (a_ltb QA t2 _) eqn:L2;
        try apply ltb_lt in L1; try apply ltb_lt in L2; try apply ltb_false_le in L1; try apply ltb_false_le in L2;
        cbn in L1, L2.
      * apply ramp_mono; [exact Hm1|exact D|exact H12].
      * apply ramp_le; [exact Hm1|exact D|lra].
      * lra.
      * lra.
Qed.

(** ** invariants of add / flush / compress / merge over Q *)
Section QInv.
Variable msz : Z -> Q -> Q.
Variable bs : Z.

Lemma ins_by_forall {X} (P : X -> Prop) key x l :
  P x -> Forall P l -> Forall P (ins_by QA key x l).
Proof.
  intros Hx Hl. induction l as [|y r IH]; cbn [ins_by]; [constructor; auto|].
  apply Forall_cons_iff in Hl. destruct Hl as [Hy Hr]. destruct (a_ltb QA _ _); constructor; auto.
Qed.
Lemma sort_by_forall {X} (P : X -> Prop) key l : Forall P l -> Forall P (sort_by QA key l).
Proof.
  unfold sort_by. assert (G : forall acc, Forall P acc -> Forall P l -> Forall P (fold_left (fun acc x => ins_by QA key x acc) l acc)).
  { induction l as [|x l IH]; intros acc Ha Hl; cbn; [exact Ha|].
    apply Forall_cons_iff in Hl. destruct Hl. apply IH; [apply ins_by_forall; assumption|assumption]. }
  intros. apply G; [constructor|assumption].
Qed.
Lemma ins_by_csum key x l : csum (ins_by QA key x l) = (snd x + csum l)%Z.
Proof. induction l as [|y r IH]; cbn [ins_by]; [reflexivity|]. destruct (a_ltb QA _ _); cbn [csum]; [reflexivity|]. rewrite IH. lia. Qed.
Lemma sort_by_csum key l : csum (sort_by QA key l) = csum l.
Proof.
  unfold sort_by. assert (G : forall acc, csum (fold_left (fun acc x => ins_by QA key x acc) l acc) = (csum acc + csum l)%Z).
  { induction l as [|x l IH]; intros acc; cbn [fold_left csum]; [lia|]. rewrite IH, ins_by_csum. lia. }
  rewrite G. reflexivity.
Qed.
Lemma ins_by_length {X} key (x : X) l : length (ins_by QA key x l) = S (length l).
Proof. induction l as [|y r IH]; cbn [ins_by]; [reflexivity|]. destruct (a_ltb QA _ _); cbn [length]; [reflexivity|]. now rewrite IH. Qed.
Lemma sort_by_length {X} key (l : list X) : length (sort_by QA key l) = length l.
Proof.
  unfold sort_by. assert (G : forall acc, length (fold_left (fun acc x => ins_by QA key x acc) l acc) = (length acc + length l)%nat).
  { induction l as [|x l IH]; intros acc; cbn [fold_left length]; [lia|]. rewrite IH, ins_by_length. lia. }
  rewrite G. reflexivity.
Qed.

Lemma merge2_ok lo hi a b : okc lo hi a -> okc lo hi b -> okc lo hi (c_merge2 QA a b).
Proof.
  intros (A1 & A2 & A3) (B1 & B2 & B3). unfold c_merge2, okc. cbn [fst snd a_add a_mul a_div a_ofZ QA].
  pose proof (injZ_pos _ A3). pose proof (injZ_pos _ B3).
  destruct (wmean lo hi (fst a) (fst b) (inject_Z (snd a)) (inject_Z (snd b))) as [W1 W2]; try assumption.
  rewrite inject_Z_plus. split; [exact W1|]. split; [exact W2|]. apply Z.add_pos_pos; assumption.
Qed.

Lemma cloop_ok lo hi total cs : forall acc running, Forall (okc lo hi) acc -> Forall (okc lo hi) cs ->
  Forall (okc lo hi) (td_cloop QA msz total acc running cs) /\
  csum (td_cloop QA msz total acc running cs) = (csum acc + csum cs)%Z.
Proof.
  induction cs as [|c rest IH]; intros acc running Ha Hc.
  - cbn [td_cloop]. split; [apply Forall_rev; exact Ha|].
    cbn [csum]. assert (G : forall l, csum (rev l) = csum l).
    { induction l as [|x l IHl]; cbn; [reflexivity|].
      assert (A : forall a b, csum (a ++ b) = (csum a + csum b)%Z) by (induction a; intros; cbn; [reflexivity|rewrite IHa; lia]).
      rewrite A, IHl. cbn. lia. }
    rewrite G. lia.
  - apply Forall_cons_iff in Hc. destruct Hc as [Hc Hrest]. destruct acc as [|last acc']; cbn [td_cloop].
    + destruct (IH [c] (snd c)) as [F HS]; [constructor; [exact Hc|constructor]|exact Hrest|].
      split; [exact F|]. etransitivity; [exact HS|]. cbn [csum]. clear. lia.
    + apply Forall_cons_iff in Ha. destruct Ha as [Hl Ha'].
      destruct (a_leb QA _ _).
      * destruct (IH (c_merge2 QA last c :: acc') (running + snd c)%Z) as [F HS];
          [constructor; [apply merge2_ok; assumption|exact Ha']|exact Hrest|].
        split; [exact F|]. etransitivity; [exact HS|]. unfold c_merge2; cbn [csum snd]. change (Model.num QA) with Q. ring.
      * destruct (IH (c :: last :: acc') (running + snd c)%Z) as [F HS];
          [constructor; [exact Hc|constructor; assumption]|exact Hrest|].
        split; [exact F|]. etransitivity; [exact HS|]. cbn [csum]. clear. lia.
Qed.

Lemma compress_ok lo hi total cs : Forall (okc lo hi) cs ->
  Forall (okc lo hi) (td_compress QA msz total cs) /\ csum (td_compress QA msz total cs) = csum cs.
Proof.
  intros H. unfold td_compress. destruct cs as [|c1 [|c2 r]]; [auto|auto|].
  destruct (cloop_ok lo hi total (sort_by QA fst (c1 :: c2 :: r)) [] 0%Z) as [F HS];
    [constructor|apply sort_by_forall; exact H|].
  split; [exact F|]. etransitivity; [exact HS|]. etransitivity; [|apply (sort_by_csum fst (c1 :: c2 :: r))]. reflexivity.
Qed.

(** ** [_compress] leaves the centroid list sorted by mean *)
Lemma ss_app {X} (R : X -> X -> Prop) l1 l2 :
  StronglySorted R (l1 ++ l2) <->
  StronglySorted R l1 /\ StronglySorted R l2 /\ forall a b, In a l1 -> In b l2 -> R a b.
Proof.
  induction l1 as [|x l1 IH]; cbn.
  - split; [intros H; repeat split; [constructor|exact H|intros a b []]|intros (_ & H & _); exact H].
  - split.
    + intros H. apply StronglySorted_inv in H. destruct H as [H1 H2]. apply IH in H1. destruct H1 as (A & B & C).
      rewrite Forall_app in H2. destruct H2 as [F1 F2]. repeat split; [constructor; assumption|exact B|].
      intros a b [<-|Ha] Hb; [rewrite Forall_forall in F2; auto|auto].
    + intros (A & B & C). apply StronglySorted_inv in A. destruct A as [A1 A2]. constructor.
      * apply IH. repeat split; [exact A1|exact B|intros a b Ha Hb; apply C; [now right|exact Hb]].
      * apply Forall_app. split; [exact A2|]. apply Forall_forall. intros b Hb. apply C; [now left|exact Hb].
Qed.

Lemma ins_sorted (x : Q * Z) l : csorted l -> csorted (ins_by QA fst x l).
Proof.
  induction l as [|y r IH]; intros H; cbn [ins_by].
  - constructor; constructor.
  - apply StronglySorted_inv in H. destruct H as [H1 H2].
    destruct (a_ltb QA _ _) eqn:L.
    + apply ltb_lt in L. cbn in L. constructor; [constructor; assumption|]. constructor; [lra|].
      eapply Forall_impl; [|exact H2]. intros a Ha. cbn in *. lra.
    + apply ltb_false_le in L. cbn in L. constructor; [apply IH; exact H1|].
      apply ins_by_forall; [exact L|exact H2].
Qed.

Lemma sort_sorted (l : list (Q * Z)) : csorted (sort_by QA fst l).
Proof.
  unfold sort_by. assert (G : forall acc, csorted acc -> csorted (fold_left (fun acc x => ins_by QA fst x acc) l acc)).
  { induction l as [|x l IH]; intros acc H; cbn [fold_left]; [exact H|]. apply IH. now apply ins_sorted. }
  apply G. constructor.
Qed.

Lemma cloop_sorted lo hi total cs : forall acc running,
  Forall (okc lo hi) acc -> Forall (okc lo hi) cs -> csorted (rev acc ++ cs) ->
  csorted (td_cloop QA msz total acc running cs).
Proof.
  induction cs as [|c rest IH]; intros acc running Ha Hc Hs.
  - cbn [td_cloop]. now rewrite app_nil_r in Hs.
  - apply Forall_cons_iff in Hc. destruct Hc as [Hc Hrest]. destruct acc as [|last acc']; cbn [td_cloop].
    + apply IH; [constructor; [exact Hc|constructor]|exact Hrest|exact Hs].
    + apply Forall_cons_iff in Ha. destruct Ha as [Hl Ha'].
      destruct (a_leb QA _ _).
      * apply IH; [constructor; [apply merge2_ok; assumption|exact Ha']|exact Hrest|].
        cbn [rev] in *. rewrite <- app_assoc in Hs. cbn [app] in Hs. rewrite <- app_assoc. cbn [app].
        apply ss_app in Hs. destruct Hs as (S1 & S2 & Cross). apply ss_app.
        apply StronglySorted_inv in S2. destruct S2 as [S2 F2]. apply Forall_cons_iff in F2. destruct F2 as [Hlc F2].
        apply StronglySorted_inv in S2. destruct S2 as [S3 F3].
        destruct Hl as (L1 & L2 & L3), Hc as (C1 & C2 & C3).
        pose proof (injZ_pos _ L3). pose proof (injZ_pos _ C3).
        destruct (wmean (fst last) (fst c) (fst last) (fst c) (inject_Z (snd last)) (inject_Z (snd c))) as [W1 W2]; try assumption; try lra.
        assert (M : fst last <= fst (c_merge2 QA last c) /\ fst (c_merge2 QA last c) <= fst c).
        { unfold c_merge2. cbn [fst snd a_add a_mul a_div a_ofZ QA]. rewrite inject_Z_plus. split; assumption. }
        destruct M as [M1 M2]. repeat split; [exact S1| |].
        -- constructor; [exact S3|]. eapply Forall_impl; [|exact F3]. intros a Ha. cbn in *. lra.
        -- intros a b Ha [<-|Hb].
           ++ specialize (Cross a last Ha (or_introl eq_refl)). cbn in *. lra.
           ++ apply Cross; [exact Ha|right; right; exact Hb].
      * apply IH; [constructor; [exact Hc|constructor; assumption]|exact Hrest|].
        cbn [rev] in *. rewrite <- !app_assoc in *. cbn [app] in *. exact Hs.
Qed.

Lemma compress_sorted lo hi total cs : Forall (okc lo hi) cs -> csorted cs -> csorted (td_compress QA msz total cs).
Proof.
  intros F H. unfold td_compress. destruct cs as [|c1 [|c2 r]]; [exact H|exact H|].
  apply (cloop_sorted lo hi); [constructor|apply sort_by_forall; exact F|cbn [rev app]; apply sort_sorted].
Qed.
Lemma compress_sorted' lo hi total cs : Forall (okc lo hi) cs -> csorted (td_compress QA msz total cs) \/ (length cs <= 1)%nat.
Proof.
  intros F. unfold td_compress. destruct cs as [|c1 [|c2 r]]; [right; cbn; lia|right; cbn; lia|left].
  apply (cloop_sorted lo hi); [constructor|apply sort_by_forall; exact F|cbn [rev app]; apply sort_sorted].
Qed.
Lemma short_sorted (cs : list (Q * Z)) : (length cs <= 1)%nat -> csorted cs.
Proof. destruct cs as [|a [|b r]]; cbn; intros; try lia; repeat constructor. Qed.
Lemma compress_sorted_any lo hi total cs : Forall (okc lo hi) cs -> csorted (td_compress QA msz total cs).
Proof.
  intros F. destruct (compress_sorted' lo hi total cs F) as [H|H]; [exact H|].
  unfold td_compress. destruct cs as [|c1 [|c2 r]]; try (cbn in H; lia); apply short_sorted; cbn; lia.
Qed.

Definition binv (lo hi : Q) (s : tdig QA) : Prop :=
  Forall (okc lo hi) (td_cs s) /\ Forall (okv lo hi) (td_buf s) /\
  (csum (td_cs s) + Z.of_nat (length (td_buf s)) = td_total s)%Z.

Definition tinv (s : tdig QA) : Prop :=
  match td_min s, td_max s with
  | Some lo, Some hi => lo <= hi /\ binv lo hi s
  | None, None => td_cs s = [] /\ td_buf s = [] /\ td_total s = 0%Z
  | _, _ => False
  end.

Lemma csum_singles (l : list Q) : csum (map (fun v => (v, 1%Z)) l) = Z.of_nat (length l).
Proof. induction l as [|v l IH]; cbn [map csum length snd]; [reflexivity|]. rewrite IH. lia. Qed.
Lemma csum_app a b : csum (a ++ b) = (csum a + csum b)%Z.
Proof. induction a as [|x a IH]; cbn; [reflexivity|]. rewrite IH. lia. Qed.

Lemma flush_binv lo hi s : binv lo hi s -> binv lo hi (td_flush QA msz s) /\
  td_min (td_flush QA msz s) = td_min s /\ td_max (td_flush QA msz s) = td_max s /\
  td_buf (td_flush QA msz s) = [].
Proof.
  intros (Hc & Hb & Hs). unfold td_flush. destruct (td_buf s) as [|b0 br] eqn:E.
  - repeat split; auto. rewrite E. exact Hb. rewrite E. exact Hs.
  - rewrite <- E in *. cbn [td_cs td_buf td_min td_max td_total].
    assert (F : Forall (okc lo hi) (td_cs s ++ map (fun v => (v, 1%Z)) (sort_by QA (fun v => v) (td_buf s)))).
    { apply Forall_app. split; [exact Hc|]. apply Forall_map. apply sort_by_forall.
      eapply Forall_impl; [|exact Hb]. intros v [V1 V2]. unfold okc. cbn. repeat split; auto; reflexivity. }
    destruct (compress_ok lo hi (td_total s) _ F) as [F2 HS2].
    split; [|auto]. unfold binv. cbn [td_cs td_buf td_total]. split; [exact F2|]. split; [constructor|].
    cbn [length]. etransitivity; [apply f_equal2; [exact HS2|reflexivity]|].
    rewrite csum_app, csum_singles, sort_by_length. change (Model.num QA) with Q in *. lia.
Qed.

Lemma flush_tinv s : tinv s -> tinv (td_flush QA msz s).
Proof.
  unfold tinv. destruct (td_min s) as [lo|] eqn:E1, (td_max s) as [hi|] eqn:E2; try tauto.
  - intros [L B]. destruct (flush_binv lo hi s B) as (B' & M1 & M2 & _). rewrite M1, M2, E1, E2. auto.
  - intros (C & B & T). unfold td_flush. rewrite B, E1, E2. auto.
Qed.

Lemma binv_widen lo hi lo' hi' s : lo' <= lo -> hi <= hi' -> binv lo hi s -> binv lo' hi' s.
Proof.
  intros L H (A & B & C). repeat split; [| |exact C].
  - eapply Forall_impl; [|exact A]. intros c (X & Y & Z). unfold okc. repeat split; try assumption; lra.
  - eapply Forall_impl; [|exact B]. intros v (X & Y). unfold okv. split; lra.
Qed.

Definition add_pre (s : tdig QA) (v : Q) (c : Z) : tdig QA :=
  {| td_cs := td_cs s; td_total := (td_total s + c)%Z; td_min := opt_min QA (td_min s) v;
     td_max := opt_max QA (td_max s) v; td_buf := td_buf s ++ repeat v (Z.to_nat c) |}.

Lemma add_pre_tinv s v c : (0 <= c)%Z -> tinv s -> tinv (add_pre s v c).
Proof.
  intros C0 H. set (s1 := add_pre s v c).
  assert (H1 : tinv s1).
  { unfold tinv in *. unfold s1, add_pre. cbn [td_min td_max td_cs td_buf td_total].
    destruct (td_min s) as [lo|] eqn:E1, (td_max s) as [hi|] eqn:E2; try tauto.
    - destruct H as [L B]. cbn [opt_min opt_max].
      set (lo' := if a_ltb QA v lo then v else lo). set (hi' := if a_ltb QA hi v then v else hi).
      assert (X : lo' <= lo /\ lo' <= v /\ hi <= hi' /\ v <= hi').
      { unfold lo', hi'. destruct (a_ltb QA v lo) eqn:A1; [apply ltb_lt in A1|apply ltb_false_le in A1];
          (destruct (a_ltb QA hi v) eqn:A2; [apply ltb_lt in A2|apply ltb_false_le in A2]); repeat split; lra. }
      destruct X as (X1 & X2 & X3 & X4).
      assert (Emin : (if a_ltb QA v lo then Some v else Some lo) = Some lo') by (unfold lo'; destruct (a_ltb QA v lo); reflexivity).
      assert (Emax : (if a_ltb QA hi v then Some v else Some hi) = Some hi') by (unfold hi'; destruct (a_ltb QA hi v); reflexivity).
      change (Model.num QA) with Q in *. rewrite Emin, Emax.
      split; [lra|]. destruct (binv_widen lo hi lo' hi' s X1 X3 B) as (A & B2 & C).
      unfold binv. cbn [td_cs td_buf td_total]. repeat split; [exact A| |].
      + apply Forall_app. split; [exact B2|]. apply Forall_forall. intros x Hx. apply repeat_spec in Hx. subst x. split; assumption.
      + rewrite app_length, repeat_length. change (Model.num QA) with Q in *. lia.
    - destruct H as (A & B & C). cbn [opt_min opt_max]. split; [lra|]. unfold binv. cbn [td_cs td_buf td_total].
      rewrite A, B, C. repeat split; [constructor| |].
      + cbn [app]. apply Forall_forall. intros x Hx. apply repeat_spec in Hx. subst x. split; lra.
      + cbn [app csum]. rewrite repeat_length. lia. }
  exact H1.
Qed.

Lemma add_tinv s v c : tinv s -> tinv (fst (td_add QA msz bs s v c)).
Proof.
  intros H. unfold td_add. destruct (c <? 0)%Z eqn:C1; [exact H|]. destruct (c =? 0)%Z eqn:C2; [exact H|].
  cbn [fst]. fold (add_pre s v c). pose proof (add_pre_tinv s v c ltac:(lia) H) as H1.
  destruct (bs <=? _)%Z; [apply flush_tinv; exact H1|exact H1].
Qed.

Lemma td_of_tinv adds : tinv (td_of QA msz bs adds).
Proof.
  unfold td_of. assert (G : forall s, tinv s -> tinv (fold_left (fun s vc => fst (td_add QA msz bs s (fst vc) (snd vc))) adds s)).
  { induction adds as [|[v c] r IH]; intros s H; cbn [fold_left]; [exact H|]. apply IH. now apply add_tinv. }
  apply G. unfold tinv. cbn. auto.
Qed.

Lemma merge_tinv a b : tinv a -> tinv b -> tinv (fst (td_merge QA msz a b)).
Proof.
  intros Ha Hb. apply flush_tinv in Ha. apply flush_tinv in Hb. unfold td_merge. cbn [fst].
  set (a1 := td_flush QA msz a) in *. set (b1 := td_flush QA msz b) in *.
  assert (Ea : td_buf a1 = []) by (unfold a1, td_flush; destruct (td_buf a) eqn:E; [exact E|reflexivity]).
  assert (Eb : td_buf b1 = []) by (unfold b1, td_flush; destruct (td_buf b) eqn:E; [exact E|reflexivity]).
  unfold tinv in *.
  destruct (td_min a1) as [la|] eqn:A1, (td_max a1) as [ha|] eqn:A2; try tauto;
  destruct (td_min b1) as [lb|] eqn:B1, (td_max b1) as [hb|] eqn:B2; try tauto; cbn [td_min td_max td_cs td_buf td_total opt_min opt_max].
  - destruct Ha as [La Ba], Hb as [Lb Bb].
    set (lo := if a_ltb QA lb la then lb else la). set (hi := if a_ltb QA ha hb then hb else ha).
    assert (X : lo <= la /\ lo <= lb /\ ha <= hi /\ hb <= hi).
    { unfold lo, hi. destruct (a_ltb QA lb la) eqn:Q1; [apply ltb_lt in Q1|apply ltb_false_le in Q1];
        (destruct (a_ltb QA ha hb) eqn:Q2; [apply ltb_lt in Q2|apply ltb_false_le in Q2]); repeat split; lra. }
    destruct X as (X1 & X2 & X3 & X4).
    replace (if a_ltb QA lb la then Some lb else Some la) with (Some lo) by (unfold lo; destruct (a_ltb QA lb la); reflexivity).
    replace (if a_ltb QA ha hb then Some hb else Some ha) with (Some hi) by (unfold hi; destruct (a_ltb QA ha hb); reflexivity).
    split; [lra|].
    destruct (binv_widen la ha lo hi a1 X1 X3 Ba) as (Fa & _ & Sa).
    destruct (binv_widen lb hb lo hi b1 X2 X4 Bb) as (Fb & _ & Sb).
    destruct (compress_ok lo hi (td_total a1 + td_total b1) (td_cs a1 ++ td_cs b1)) as [F HS]; [apply Forall_app; split; assumption|].
    unfold binv. cbn [td_cs td_buf td_total]. repeat split; [exact F|constructor|].
    rewrite HS, csum_app. rewrite Ea in Sa. rewrite Eb in Sb. cbn in Sa, Sb. cbn. lia.
  - destruct Ha as [La Ba], Hb as (Cb & _ & Tb). split; [exact La|].
    destruct Ba as (Fa & _ & Sa).
    destruct (compress_ok la ha (td_total a1 + td_total b1) (td_cs a1 ++ td_cs b1)) as [F HS]; [rewrite Cb, app_nil_r; exact Fa|].
    unfold binv. cbn [td_cs td_buf td_total]. repeat split; [exact F|constructor|].
    rewrite HS, Cb, app_nil_r. rewrite Ea in Sa. cbn in Sa. cbn. lia.
  - destruct Ha as (Ca & _ & Ta), Hb as [Lb Bb]. split; [exact Lb|].
    destruct Bb as (Fb & _ & Sb).
    destruct (compress_ok lb hb (td_total a1 + td_total b1) (td_cs a1 ++ td_cs b1)) as [F HS]; [rewrite Ca; exact Fb|].
    unfold binv. cbn [td_cs td_buf td_total]. repeat split; [exact F|constructor|].
    rewrite HS, Ca. rewrite Eb in Sb. cbn in Sb. cbn. lia.
  - destruct Ha as (Ca & _ & Ta), Hb as (Cb & _ & Tb). rewrite Ca, Cb, Ta, Tb. cbn. auto.
Qed.

(** Every digest built by adds and merges. *)
Inductive reach : tdig QA -> Prop :=
| reach_empty : reach (td_empty QA)
| reach_add s v c : reach s -> reach (fst (td_add QA msz bs s v c))
| reach_flush s : reach s -> reach (td_flush QA msz s)
| reach_merge a b : reach a -> reach b -> reach (fst (td_merge QA msz a b)).

Lemma reach_tinv s : reach s -> tinv s.
Proof.
  induction 1; [unfold tinv; cbn; auto|now apply add_tinv|now apply flush_tinv|now apply merge_tinv].
Qed.

(** Range clause in exact arithmetic: for every digest built by adds and
    merges (any compression / max-size function), every quantile with
    0 <= q <= 1 lies within [min, max]. *)
Theorem td_exact_quantile_in_range : forall s q v mn mx, reach s ->
  snd (td_quantile QA msz s q) = Some v ->
  td_min (fst (td_quantile QA msz s q)) = Some mn -> td_max (fst (td_quantile QA msz s q)) = Some mx ->
  mn <= v /\ v <= mx.
Proof.
  intros s q v mn mx R. apply reach_tinv, flush_tinv in R. unfold td_quantile.
  destruct (negb _) eqn:G; cbn [fst snd]; [discriminate|].
  set (s1 := td_flush QA msz s) in *. unfold tinv in R.
  destruct (td_cs s1) as [|c0 cr] eqn:Ec; [destruct (td_min s1), (td_max s1); discriminate|].
  destruct (td_min s1) as [lo|] eqn:E1; destruct (td_max s1) as [hi|] eqn:E2; try tauto; try discriminate.
  destruct R as [L (Fc & _ & HS)].
  assert (Eb : td_buf s1 = []) by (unfold s1, td_flush; destruct (td_buf s) eqn:E; [exact E|reflexivity]).
  destruct (a_eqb QA q (a_ofZ QA 0)); cbn [fst snd].
  { intros V M1 M2. rewrite E1 in M1. rewrite E2 in M2. inversion V; inversion M1; inversion M2; subst. lra. }
  destruct (a_eqb QA q (a_ofZ QA 1)); cbn [fst snd].
  { intros V M1 M2. rewrite E1 in M1. rewrite E2 in M2. inversion V; inversion M1; inversion M2; subst. lra. }
  intros V M1 M2. rewrite E1 in M1. rewrite E2 in M2. injection M1 as <-. injection M2 as <-. injection V as <-.
  set (tgt := a_mul QA q (a_ofZ QA (td_total s1))).
  change (lo <= td_walk QA lo hi (td_total s1) tgt None (a_ofZ QA 0) (c0 :: cr) /\
          td_walk QA lo hi (td_total s1) tgt None (a_ofZ QA 0) (c0 :: cr) <= hi).
  rewrite <- Ec. apply (walk_range lo hi (td_total s1) tgt L (td_cs s1) None (a_ofZ QA 0) 0%Z).
  - intros pm E; discriminate.
  - exact Fc.
  - reflexivity.
  - lia.
  - rewrite Eb in HS. cbn in HS. lia.
Qed.

(** Monotonicity clause in exact arithmetic, for a flushed digest whose
    centroid list is sorted by mean (what [_compress] leaves behind). *)
Ltac nz := change (inject_Z 0) with 0 in *; change (inject_Z 1) with 1 in *.

Theorem td_exact_quantile_monotone_sorted : forall s q1 q2 v1 v2,
  tinv s -> td_buf s = [] -> csorted (td_cs s) -> q1 <= q2 ->
  snd (td_quantile QA msz s q1) = Some v1 -> snd (td_quantile QA msz s q2) = Some v2 -> v1 <= v2.
Proof.
  intros s q1 q2 v1 v2 Hinv Hbuf Hso Hq.
  assert (Hfl : td_flush QA msz s = s) by (unfold td_flush; rewrite Hbuf; reflexivity).
  unfold td_quantile. rewrite Hfl.
  destruct (negb (a_leb QA (a_ofZ QA 0) q1 && a_leb QA q1 (a_ofZ QA 1))) eqn:G1; cbn [fst snd]; [discriminate|].
  destruct (negb (a_leb QA (a_ofZ QA 0) q2 && a_leb QA q2 (a_ofZ QA 1))) eqn:G2; cbn [fst snd]; [discriminate|].
  apply negb_false_iff, range_true in G1. apply negb_false_iff, range_true in G2.
  cbn in G1, G2. destruct G1 as [G1a G1b], G2 as [G2a G2b].
  unfold tinv in Hinv.
  destruct (td_cs s) as [|c0 cr] eqn:Ec; [destruct (td_min s), (td_max s); discriminate|].
  destruct (td_min s) as [lo|] eqn:E1; destruct (td_max s) as [hi|] eqn:E2; try tauto; try discriminate.
  destruct Hinv as [L (Fc & _ & HS)]. rewrite Hbuf in HS. cbn [length] in HS. rewrite Ec in Fc, HS.
  set (tot := td_total s) in *.
  assert (Htot : 0 < inject_Z tot).
  { apply injZ_pos. apply Forall_cons_iff in Fc. destruct Fc as [(_ & _ & P) Fr].
    assert (forall l, Forall (okc lo hi) l -> (0 <= csum l)%Z).
    { induction l as [|x l IHl]; intros Fl; cbn; [lia|]. apply Forall_cons_iff in Fl. destruct Fl as [(_ & _ & Px) Fl]. specialize (IHl Fl). lia. }
    specialize (H cr Fr). cbn [csum] in HS. change (Model.num QA) with Q in *. lia. }
  assert (WR : forall t, lo <= td_walk QA lo hi tot t None (a_ofZ QA 0) (c0 :: cr) /\
                         td_walk QA lo hi tot t None (a_ofZ QA 0) (c0 :: cr) <= hi).
  { intros t. apply (walk_range lo hi tot t L (c0 :: cr) None (a_ofZ QA 0) 0%Z); try assumption; try reflexivity; try lia.
    intros pm E; discriminate. }
  destruct (a_eqb QA q1 (a_ofZ QA 0)) eqn:Z1; cbn [fst snd].
  - intros V1. injection V1 as <-.
    destruct (a_eqb QA q2 (a_ofZ QA 0)); cbn [fst snd]; [intros V2; injection V2 as <-; (nz; lra)|].
    destruct (a_eqb QA q2 (a_ofZ QA 1)); cbn [fst snd]; [intros V2; injection V2 as <-; (nz; lra)|].
    intros V2. injection V2 as <-. apply WR.
  - assert (N1 : ~ q1 == 0).
    { intros E. cbn in Z1. assert (T : Qeq_bool q1 (inject_Z 0) = true) by (apply Qeq_bool_iff; exact E). congruence. }
    destruct (a_eqb QA q1 (a_ofZ QA 1)) eqn:O1; cbn [fst snd].
    + apply Qeq_bool_iff in O1. cbn in O1. intros V1. injection V1 as <-.
      assert (Eq2 : q2 == 1) by (cbn in *; (nz; lra)).
      assert (Z2 : a_eqb QA q2 (a_ofZ QA 0) = false).
      { cbn. destruct (Qeq_bool q2 (inject_Z 0)) eqn:T; [|reflexivity]. apply Qeq_bool_iff in T. cbn in T. (nz; lra). }
      assert (O2 : a_eqb QA q2 (a_ofZ QA 1) = true) by (cbn; apply Qeq_bool_iff; exact Eq2).
      rewrite Z2, O2. cbn [fst snd]. intros V2. injection V2 as <-. (nz; lra).
    + intros V1. injection V1 as <-.
      assert (Z2 : a_eqb QA q2 (a_ofZ QA 0) = false).
      { cbn. destruct (Qeq_bool q2 (inject_Z 0)) eqn:T; [|reflexivity]. apply Qeq_bool_iff in T. cbn in *. (nz; lra). }
      rewrite Z2. destruct (a_eqb QA q2 (a_ofZ QA 1)); cbn [fst snd].
      * intros V2. injection V2 as <-. apply WR.
      * intros V2. injection V2 as <-.
        apply (walk_mono lo hi tot L (c0 :: cr) None (a_ofZ QA 0) 0%Z); try assumption; try reflexivity; try lia.
        -- intros pm E; discriminate.
        -- cbn in *. (nz; nra).
        -- cbn in *. (nz; nra).
        -- cbn in *. (nz; nra).
Qed.

(** ** every reachable digest keeps its centroid list sorted; monotonicity for all of them *)
Lemma flush_sorted s : tinv s -> csorted (td_cs s) -> csorted (td_cs (td_flush QA msz s)).
Proof.
  intros Hi Hs. unfold td_flush. destruct (td_buf s) as [|b0 br] eqn:E; [exact Hs|]. cbn [td_cs].
  unfold tinv in Hi. destruct (td_min s) as [lo|], (td_max s) as [hi|]; try tauto.
  - destruct Hi as [_ (Hc & Hb & _)]. apply (compress_sorted_any lo hi).
    apply Forall_app. split; [exact Hc|]. apply Forall_map. apply sort_by_forall. rewrite E in Hb.
    eapply Forall_impl; [|exact Hb]. intros v [V1 V2]. unfold okc. cbn. repeat split; auto; reflexivity.
  - destruct Hi as (_ & B & _). rewrite B in E. discriminate.
Qed.

Lemma add_sorted s v c : tinv s -> csorted (td_cs s) -> csorted (td_cs (fst (td_add QA msz bs s v c))).
Proof.
  intros Hi Hs. unfold td_add.
  destruct (c <? 0)%Z eqn:C1; [exact Hs|]. destruct (c =? 0)%Z; [exact Hs|]. cbn [fst].
  fold (add_pre s v c). destruct (bs <=? _)%Z; [|exact Hs].
  apply flush_sorted; [apply add_pre_tinv; [lia|exact Hi]|exact Hs].
Qed.

Lemma merge_sorted a b : tinv a -> tinv b -> csorted (td_cs (fst (td_merge QA msz a b))).
Proof.
  intros Ha Hb. apply flush_tinv in Ha. apply flush_tinv in Hb. unfold td_merge. cbn [fst td_cs].
  set (a1 := td_flush QA msz a) in *. set (b1 := td_flush QA msz b) in *.
  unfold tinv in *.
  destruct (td_min a1) as [la|], (td_max a1) as [ha|]; try tauto;
  destruct (td_min b1) as [lb|], (td_max b1) as [hb|]; try tauto.
  - destruct Ha as [La (Fa & _)], Hb as [Lb (Fb & _)].
    set (lo := if a_ltb QA lb la then lb else la). set (hi := if a_ltb QA ha hb then hb else ha).
    assert (X : lo <= la /\ lo <= lb /\ ha <= hi /\ hb <= hi).
    { unfold lo, hi. destruct (a_ltb QA lb la) eqn:Q1; [apply ltb_lt in Q1|apply ltb_false_le in Q1];
        (destruct (a_ltb QA ha hb) eqn:Q2; [apply ltb_lt in Q2|apply ltb_false_le in Q2]); repeat split; lra. }
    destruct X as (X1 & X2 & X3 & X4).
    apply (compress_sorted_any lo hi). apply Forall_app. split.
    + eapply Forall_impl; [|exact Fa]. intros c (P & Q0 & R). unfold okc. repeat split; try assumption; lra.
    + eapply Forall_impl; [|exact Fb]. intros c (P & Q0 & R). unfold okc. repeat split; try assumption; lra.
  - destruct Ha as [La (Fa & _)], Hb as (Cb & _). apply (compress_sorted_any la ha). rewrite Cb, app_nil_r. exact Fa.
  - destruct Ha as (Ca & _), Hb as [Lb (Fb & _)]. apply (compress_sorted_any lb hb). rewrite Ca. exact Fb.
  - destruct Ha as (Ca & _), Hb as (Cb & _). rewrite Ca, Cb. cbn. constructor.
Qed.

Lemma reach_sorted s : reach s -> csorted (td_cs s).
Proof.
  induction 1.
  - cbn. constructor.
  - apply add_sorted; [now apply reach_tinv|assumption].
  - apply flush_sorted; [now apply reach_tinv|assumption].
  - apply merge_sorted; now apply reach_tinv.
Qed.

Lemma flush_idem s : td_flush QA msz (td_flush QA msz s) = td_flush QA msz s.
Proof. unfold td_flush at 1. destruct (td_buf (td_flush QA msz s)) eqn:E; [reflexivity|]. unfold td_flush in E. destruct (td_buf s) eqn:E2; cbn in E; [rewrite E2 in E|]; discriminate. Qed.

Lemma quantile_flush s q : snd (td_quantile QA msz s q) = snd (td_quantile QA msz (td_flush QA msz s) q).
Proof. unfold td_quantile. rewrite flush_idem. destruct (negb _); reflexivity. Qed.

(** Monotonicity clause in exact arithmetic: for every digest built by adds,
    flushes and merges, quantile is non-decreasing in q. *)
Theorem td_exact_quantile_monotone : forall s q1 q2 v1 v2, reach s -> q1 <= q2 ->
  snd (td_quantile QA msz s q1) = Some v1 -> snd (td_quantile QA msz s q2) = Some v2 -> v1 <= v2.
Proof.
  intros s q1 q2 v1 v2 R Hq. rewrite (quantile_flush s q1), (quantile_flush s q2).
  apply td_exact_quantile_monotone_sorted; try assumption.
  - apply flush_tinv, reach_tinv, R.
  - unfold td_flush. destruct (td_buf s) eqn:E; [exact E|reflexivity].
  - apply reach_sorted. now constructor.
Qed.

End QInv.

(** The exact-arithmetic theorem is not vacuous: a reachable digest whose
    quantile is defined. *)
Example td_exact_example :
  let msz := fun (_ : Z) (_ : Q) => 1%Q in
  let s := fst (td_add QA msz 2 (fst (td_add QA msz 2 (td_empty QA) (1 # 2) 1)) (3 # 2) 1) in
  reach msz 2 s /\ snd (td_quantile QA msz s (1 # 4)) = Some (1 # 2).
Proof.
  cbv zeta. split; [repeat constructor|]. vm_compute. reflexivity.
Qed.
