(** C20 — t-digest.  On binary64 (the arithmetic the code runs on) both
    clauses are REFUTED by concrete witnesses; over exact rationals the same
    definitions satisfy the range clause (PARTIAL). *)
From HS Require Import Base.Prelude C20.Model.
From Coq Require Import Floats QArith Lqa.
Local Open Scope Z_scope.

(** The clauses, for an arbitrary arithmetic. [adds] is a stream of (value, count). *)
Definition td_of (A : arith) msz bs (adds : list (Model.num A * Z)) : tdig A :=
  fold_left (fun s vc => fst (td_add A msz bs s (fst vc) (snd vc))) adds (td_empty A).

Definition td_range_statement (A : arith) (msz : Z -> Model.num A -> Model.num A) (bs : Z) : Prop :=
  forall adds q v mn mx,
    let r := td_quantile A msz (td_of A msz bs adds) q in
    snd r = Some v -> td_min (fst r) = Some mn -> td_max (fst r) = Some mx ->
    a_leb A mn v = true /\ a_leb A v mx = true.

Definition td_monotone_statement (A : arith) (msz : Z -> Model.num A -> Model.num A) (bs : Z) : Prop :=
  forall adds q1 q2 v1 v2,
    a_leb A q1 q2 = true ->
    snd (td_quantile A msz (td_of A msz bs adds) q1) = Some v1 ->
    snd (td_quantile A msz (td_of A msz bs adds) q2) = Some v2 ->
    a_leb A v1 v2 = true.

(** ** binary64 witness: add(2.7, count=3) into TDigest(compression=1) *)
Definition w_adds : list (float * Z) := [(0x1.599999999999ap+1%float, 3)].
Definition w_q1 : float := 0x1.f8p-1%float.                    (* 0.984375 *)
Definition w_q2 : float := 1%float.
Definition w_max : float := 0x1.599999999999ap+1%float.        (* 2.7 = min = max *)
Definition w_v1 : float := 0x1.599999999999bp+1%float.         (* 2.7000000000000006 = quantile(0.984375) *)

Theorem td_float_range_refuted : ~ td_range_statement FA (f_msz 1%float) 2.
Proof.
  intros H. specialize (H w_adds w_q1 w_v1 w_max w_max). cbv zeta in H.
  assert (C : a_leb FA w_v1 w_max = true).
  { apply H; vm_compute; reflexivity. }
  vm_compute in C. discriminate.
Qed.

Theorem td_float_monotone_refuted : ~ td_monotone_statement FA (f_msz 1%float) 2.
Proof.
  intros H. specialize (H w_adds w_q1 w_q2 w_v1 w_max).
  assert (C : a_leb FA w_v1 w_max = true).
  { apply H; vm_compute; reflexivity. }
  vm_compute in C. discriminate.
Qed.

(** ** exact rationals: the range clause holds (PARTIAL: exact arithmetic) *)
Definition QA : arith :=
  Model.Build_arith Q Qplus Qminus Qmult Qdiv inject_Z (fun a b => negb (Qle_bool b a)) Qle_bool Qeq_bool.

Local Open Scope Q_scope.

Lemma ltb_lt a b : a_ltb QA a b = true -> a < b.
Proof. cbn. intros H. apply Qnot_le_lt. intros L. apply Qle_bool_iff in L. rewrite L in H. discriminate. Qed.
Lemma ltb_false_le a b : a_ltb QA a b = false -> b <= a.
Proof. cbn. intros H. apply Qle_bool_iff. destruct (Qle_bool b a); [reflexivity|discriminate]. Qed.
Lemma leb_le a b : a_leb QA a b = true -> a <= b.
Proof. cbn. apply Qle_bool_iff. Qed.
Lemma le_leb a b : a <= b -> a_leb QA a b = true.
Proof. cbn. apply Qle_bool_iff. Qed.

Lemma injZ_pos c : (0 < c)%Z -> 0 < inject_Z c.
Proof. intros H. unfold Qlt, inject_Z. cbn. lia. Qed.

Lemma div01 a b : 0 <= a -> a <= b -> 0 < b -> 0 <= a / b /\ a / b <= 1.
Proof.
  intros Ha Hab Hb. split.
  - apply Qle_shift_div_l; [exact Hb|]. lra.
  - apply Qle_shift_div_r; [exact Hb|]. lra.
Qed.

Lemma conv1 lo hi m t : lo <= m -> m <= hi -> 0 <= t -> t <= 1 -> lo <= lo + t * (m - lo) /\ lo + t * (m - lo) <= hi.
Proof. intros. split; nra. Qed.
Lemma conv2 lo hi m t : lo <= m -> m <= hi -> 0 <= t -> t <= 1 -> lo <= m + t * (hi - m) /\ m + t * (hi - m) <= hi.
Proof. intros. split; nra. Qed.
Lemma conv3 lo hi pm m f : lo <= pm -> pm <= hi -> lo <= m -> m <= hi -> 0 <= f -> f <= 1 ->
  lo <= pm + (m - pm) * f /\ pm + (m - pm) * f <= hi.
Proof. intros. split; nra. Qed.

Lemma wmean lo hi m1 m2 c1 c2 : lo <= m1 -> m1 <= hi -> lo <= m2 -> m2 <= hi -> 0 < c1 -> 0 < c2 ->
  lo <= (m1 * c1 + m2 * c2) / (c1 + c2) /\ (m1 * c1 + m2 * c2) / (c1 + c2) <= hi.
Proof.
  intros. assert (0 < c1 + c2) by lra. split.
  - apply Qle_shift_div_l; [assumption|]. nra.
  - apply Qle_shift_div_r; [assumption|]. nra.
Qed.

Definition okc (lo hi : Q) (c : Q * Z) : Prop := lo <= fst c /\ fst c <= hi /\ (0 < snd c)%Z.
Definition okv (lo hi : Q) (v : Q) : Prop := lo <= v /\ v <= hi.
Fixpoint csum (cs : list (Q * Z)) : Z := match cs with [] => 0%Z | c :: r => (snd c + csum r)%Z end.

Lemma half_eq : inject_Z 1 / inject_Z 2 == 1 # 2.
Proof. reflexivity. Qed.

(** The centroid walk stays inside [lo, hi]. *)
Lemma walk_range lo hi total target : lo <= hi -> forall cs prev running rz,
  (forall pm, prev = Some pm -> lo <= pm /\ pm <= hi) ->
  Forall (okc lo hi) cs -> running == inject_Z rz -> (0 <= rz)%Z -> (rz + csum cs = total)%Z ->
  lo <= td_walk QA lo hi total target prev running cs /\
  td_walk QA lo hi total target prev running cs <= hi.
Proof.
  intros Hlh. induction cs as [|[m c] rest IH]; intros prev running rz Hp Hcs Hr Hrz Hsum.
  - cbn. destruct prev as [pm|]; [apply Hp; reflexivity|lra].
  - apply Forall_cons_iff in Hcs. destruct Hcs as [[Hm1 [Hm2 Hc]] Hrest]. cbn [fst snd] in *.
    pose proof (injZ_pos c Hc) as Hcq.
    assert (Hrq : 0 <= running) by (rewrite Hr; unfold Qle, inject_Z; cbn; lia).
    cbn [td_walk].
    destruct (a_leb QA running target && a_leb QA target _) eqn:B.
    2:{ apply (IH (Some m) (a_add QA running (a_ofZ QA c)) (rz + c)%Z).
        - intros pm E. inversion E; subst. auto.
        - exact Hrest.
        - cbn. rewrite Hr, inject_Z_plus. reflexivity.
        - lia.
        - cbn in Hsum. lia. }
    apply andb_true_iff in B. destruct B as [B1 B2]. apply leb_le in B1.
    destruct prev as [pm|].
    + destruct (Hp pm eq_refl) as [Hp1 Hp2]. destruct rest as [|r1 rest'].
      * (* last centroid *)
        apply leb_le in B2. cbn in B2. cbn in Hsum.
        assert (Hrem : inject_Z total - running == inject_Z c).
        { rewrite Hr. replace total with (rz + c)%Z by lia. rewrite inject_Z_plus. ring. }
        destruct (a_ltb QA _ target) eqn:L.
        -- apply ltb_lt in L. cbn in L. cbn [a_add a_sub a_mul a_div a_ofZ QA].
           set (rem := inject_Z total - running) in *.
           assert (Hrem2 : 0 < rem / inject_Z 2).
           { apply Qlt_shift_div_l; [reflexivity|]. rewrite Hrem. lra. }
           assert (T : 0 <= (target - running - rem / inject_Z 2) / (rem / inject_Z 2) /\
                       (target - running - rem / inject_Z 2) / (rem / inject_Z 2) <= 1).
           { apply div01; [lra| |exact Hrem2].
             assert (rem / inject_Z 2 + rem / inject_Z 2 == rem) by (field).
             assert (target <= running + rem) by (unfold rem; lra). lra. }
           destruct T as [T1 T2]. apply conv2; assumption.
        -- split; assumption.
      * (* middle centroid *)
        destruct (a_ltb QA _ _) eqn:L.
        -- apply ltb_lt in L. cbn in L. cbn [a_add a_sub a_mul a_div a_ofZ QA].
           rewrite half_eq in *.
           assert (T : 0 <= (target - running) / inject_Z c).
           { apply Qle_shift_div_l; [exact Hcq|]. lra. }
           apply conv3; try assumption; lra.
        -- split; assumption.
    + (* first centroid *)
      destruct (a_ltb QA target _) eqn:L.
      * apply ltb_lt in L. cbn in L. cbn [a_add a_sub a_mul a_div a_ofZ QA].
        assert (Hc2 : 0 < inject_Z c / inject_Z 2).
        { apply Qlt_shift_div_l; [reflexivity|]. lra. }
        assert (T : 0 <= target / (inject_Z c / inject_Z 2) /\ target / (inject_Z c / inject_Z 2) <= 1).
        { apply div01; [lra|lra|exact Hc2]. }
        destruct T. apply conv1; assumption.
      * split; assumption.
Qed.

(** ** invariants of add / flush / compress / merge over Q *)
Section QInv.
Variable msz : Z -> Q -> Q.
Variable bs : Z.

Lemma ins_by_forall {X} (P : X -> Prop) key x l :
  P x -> Forall P l -> Forall P (ins_by QA key x l).
Proof.
  intros Hx Hl. induction l as [|y r IH]; cbn [ins_by]; [constructor; auto|].
  apply Forall_cons_iff in Hl. destruct Hl as [Hy Hr]. destruct (a_ltb QA _ _); constructor; auto.
Qed.
Lemma sort_by_forall {X} (P : X -> Prop) key l : Forall P l -> Forall P (sort_by QA key l).
Proof.
  unfold sort_by. assert (G : forall acc, Forall P acc -> Forall P l -> Forall P (fold_left (fun acc x => ins_by QA key x acc) l acc)).
  { induction l as [|x l IH]; intros acc Ha Hl; cbn; [exact Ha|].
    apply Forall_cons_iff in Hl. destruct Hl. apply IH; [apply ins_by_forall; assumption|assumption]. }
  intros. apply G; [constructor|assumption].
Qed.
Lemma ins_by_csum key x l : csum (ins_by QA key x l) = (snd x + csum l)%Z.
Proof. induction l as [|y r IH]; cbn [ins_by]; [reflexivity|]. destruct (a_ltb QA _ _); cbn [csum]; [reflexivity|]. rewrite IH. lia. Qed.
Lemma sort_by_csum key l : csum (sort_by QA key l) = csum l.
Proof.
  unfold sort_by. assert (G : forall acc, csum (fold_left (fun acc x => ins_by QA key x acc) l acc) = (csum acc + csum l)%Z).
  { induction l as [|x l IH]; intros acc; cbn [fold_left csum]; [lia|]. rewrite IH, ins_by_csum. lia. }
  rewrite G. reflexivity.
Qed.
Lemma ins_by_length {X} key (x : X) l : length (ins_by QA key x l) = S (length l).
Proof. induction l as [|y r IH]; cbn [ins_by]; [reflexivity|]. destruct (a_ltb QA _ _); cbn [length]; [reflexivity|]. now rewrite IH. Qed.
Lemma sort_by_length {X} key (l : list X) : length (sort_by QA key l) = length l.
Proof.
  unfold sort_by. assert (G : forall acc, length (fold_left (fun acc x => ins_by QA key x acc) l acc) = (length acc + length l)%nat).
  { induction l as [|x l IH]; intros acc; cbn [fold_left length]; [lia|]. rewrite IH, ins_by_length. lia. }
  rewrite G. reflexivity.
Qed.

Lemma merge2_ok lo hi a b : okc lo hi a -> okc lo hi b -> okc lo hi (c_merge2 QA a b).
Proof.
  intros (A1 & A2 & A3) (B1 & B2 & B3). unfold c_merge2, okc. cbn [fst snd a_add a_mul a_div a_ofZ QA].
  pose proof (injZ_pos _ A3). pose proof (injZ_pos _ B3).
  destruct (wmean lo hi (fst a) (fst b) (inject_Z (snd a)) (inject_Z (snd b))) as [W1 W2]; try assumption.
  rewrite inject_Z_plus. split; [exact W1|]. split; [exact W2|]. apply Z.add_pos_pos; assumption.
Qed.

Lemma cloop_ok lo hi total cs : forall acc running, Forall (okc lo hi) acc -> Forall (okc lo hi) cs ->
  Forall (okc lo hi) (td_cloop QA msz total acc running cs) /\
  csum (td_cloop QA msz total acc running cs) = (csum acc + csum cs)%Z.
Proof.
  induction cs as [|c rest IH]; intros acc running Ha Hc.
  - cbn [td_cloop]. split; [apply Forall_rev; exact Ha|].
    cbn [csum]. assert (G : forall l, csum (rev l) = csum l).
    { induction l as [|x l IHl]; cbn; [reflexivity|].
      assert (A : forall a b, csum (a ++ b) = (csum a + csum b)%Z) by (induction a; intros; cbn; [reflexivity|rewrite IHa; lia]).
      rewrite A, IHl. cbn. lia. }
    rewrite G. lia.
  - apply Forall_cons_iff in Hc. destruct Hc as [Hc Hrest]. destruct acc as [|last acc']; cbn [td_cloop].
    + destruct (IH [c] (snd c)) as [F HS]; [constructor; [exact Hc|constructor]|exact Hrest|].
      split; [exact F|]. etransitivity; [exact HS|]. cbn [csum]. clear. lia.
    + apply Forall_cons_iff in Ha. destruct Ha as [Hl Ha'].
      destruct (a_leb QA _ _).
      * destruct (IH (c_merge2 QA last c :: acc') (running + snd c)%Z) as [F HS];
          [constructor; [apply merge2_ok; assumption|exact Ha']|exact Hrest|].
        split; [exact F|]. etransitivity; [exact HS|]. unfold c_merge2; cbn [csum snd]. change (Model.num QA) with Q. ring.
      * destruct (IH (c :: last :: acc') (running + snd c)%Z) as [F HS];
          [constructor; [exact Hc|constructor; assumption]|exact Hrest|].
        split; [exact F|]. etransitivity; [exact HS|]. cbn [csum]. clear. lia.
Qed.

Lemma compress_ok lo hi total cs : Forall (okc lo hi) cs ->
  Forall (okc lo hi) (td_compress QA msz total cs) /\ csum (td_compress QA msz total cs) = csum cs.
Proof.
  intros H. unfold td_compress. destruct cs as [|c1 [|c2 r]]; [auto|auto|].
  destruct (cloop_ok lo hi total (sort_by QA fst (c1 :: c2 :: r)) [] 0%Z) as [F HS];
    [constructor|apply sort_by_forall; exact H|].
  split; [exact F|]. etransitivity; [exact HS|]. etransitivity; [|apply (sort_by_csum fst (c1 :: c2 :: r))]. reflexivity.
Qed.

Definition binv (lo hi : Q) (s : tdig QA) : Prop :=
  Forall (okc lo hi) (td_cs s) /\ Forall (okv lo hi) (td_buf s) /\
  (csum (td_cs s) + Z.of_nat (length (td_buf s)) = td_total s)%Z.

Definition tinv (s : tdig QA) : Prop :=
  match td_min s, td_max s with
  | Some lo, Some hi => lo <= hi /\ binv lo hi s
  | None, None => td_cs s = [] /\ td_buf s = [] /\ td_total s = 0%Z
  | _, _ => False
  end.

Lemma csum_singles (l : list Q) : csum (map (fun v => (v, 1%Z)) l) = Z.of_nat (length l).
Proof. induction l as [|v l IH]; cbn [map csum length snd]; [reflexivity|]. rewrite IH. lia. Qed.
Lemma csum_app a b : csum (a ++ b) = (csum a + csum b)%Z.
Proof. induction a as [|x a IH]; cbn; [reflexivity|]. rewrite IH. lia. Qed.

Lemma flush_binv lo hi s : binv lo hi s -> binv lo hi (td_flush QA msz s) /\
  td_min (td_flush QA msz s) = td_min s /\ td_max (td_flush QA msz s) = td_max s /\
  td_buf (td_flush QA msz s) = [].
Proof.
  intros (Hc & Hb & Hs). unfold td_flush. destruct (td_buf s) as [|b0 br] eqn:E.
  - repeat split; auto. rewrite E. exact Hb. rewrite E. exact Hs.
  - rewrite <- E in *. cbn [td_cs td_buf td_min td_max td_total].
    assert (F : Forall (okc lo hi) (td_cs s ++ map (fun v => (v, 1%Z)) (sort_by QA (fun v => v) (td_buf s)))).
    { apply Forall_app. split; [exact Hc|]. apply Forall_map. apply sort_by_forall.
      eapply Forall_impl; [|exact Hb]. intros v [V1 V2]. unfold okc. cbn. repeat split; auto; reflexivity. }
    destruct (compress_ok lo hi (td_total s) _ F) as [F2 HS2].
    split; [|auto]. unfold binv. cbn [td_cs td_buf td_total]. split; [exact F2|]. split; [constructor|].
    cbn [length]. etransitivity; [apply f_equal2; [exact HS2|reflexivity]|].
    rewrite csum_app, csum_singles, sort_by_length. change (Model.num QA) with Q in *. lia.
Qed.

Lemma flush_tinv s : tinv s -> tinv (td_flush QA msz s).
Proof.
  unfold tinv. destruct (td_min s) as [lo|] eqn:E1, (td_max s) as [hi|] eqn:E2; try tauto.
  - intros [L B]. destruct (flush_binv lo hi s B) as (B' & M1 & M2 & _). rewrite M1, M2, E1, E2. auto.
  - intros (C & B & T). unfold td_flush. rewrite B, E1, E2. auto.
Qed.

Lemma binv_widen lo hi lo' hi' s : lo' <= lo -> hi <= hi' -> binv lo hi s -> binv lo' hi' s.
Proof.
  intros L H (A & B & C). repeat split; [| |exact C].
  - eapply Forall_impl; [|exact A]. intros c (X & Y & Z). unfold okc. repeat split; try assumption; lra.
  - eapply Forall_impl; [|exact B]. intros v (X & Y). unfold okv. split; lra.
Qed.

Lemma add_tinv s v c : tinv s -> tinv (fst (td_add QA msz bs s v c)).
Proof.
  intros H. unfold td_add. destruct (c <? 0)%Z eqn:C1; [exact H|]. destruct (c =? 0)%Z eqn:C2; [exact H|].
  cbn [fst].
  set (s1 := {| td_cs := td_cs s; td_total := (td_total s + c)%Z; td_min := opt_min QA (td_min s) v;
                td_max := opt_max QA (td_max s) v; td_buf := td_buf s ++ repeat v (Z.to_nat c) |}).
  assert (H1 : tinv s1).
  { unfold tinv in *. unfold s1. cbn [td_min td_max td_cs td_buf td_total].
    destruct (td_min s) as [lo|] eqn:E1, (td_max s) as [hi|] eqn:E2; try tauto.
    - destruct H as [L B]. cbn [opt_min opt_max].
      set (lo' := if a_ltb QA v lo then v else lo). set (hi' := if a_ltb QA hi v then v else hi).
      assert (X : lo' <= lo /\ lo' <= v /\ hi <= hi' /\ v <= hi').
      { unfold lo', hi'. destruct (a_ltb QA v lo) eqn:A1; [apply ltb_lt in A1|apply ltb_false_le in A1];
          (destruct (a_ltb QA hi v) eqn:A2; [apply ltb_lt in A2|apply ltb_false_le in A2]); repeat split; lra. }
      destruct X as (X1 & X2 & X3 & X4).
      replace (if a_ltb QA v lo then Some v else Some lo) with (Some lo') by (unfold lo'; destruct (a_ltb QA v lo); reflexivity).
      replace (if a_ltb QA hi v then Some v else Some hi) with (Some hi') by (unfold hi'; destruct (a_ltb QA hi v); reflexivity).
      split; [lra|]. destruct (binv_widen lo hi lo' hi' s X1 X3 B) as (A & B2 & C).
      unfold binv. cbn [td_cs td_buf td_total]. repeat split; [exact A| |].
      + apply Forall_app. split; [exact B2|]. apply Forall_forall. intros x Hx. apply repeat_spec in Hx. subst x. split; assumption.
      + rewrite app_length, repeat_length. change (Model.num QA) with Q in *. lia.
    - destruct H as (A & B & C). cbn [opt_min opt_max]. split; [lra|]. unfold binv. cbn [td_cs td_buf td_total].
      rewrite A, B, C. repeat split; [constructor| |].
      + cbn [app]. apply Forall_forall. intros x Hx. apply repeat_spec in Hx. subst x. split; lra.
      + cbn [app csum]. rewrite repeat_length. lia. }
  destruct (bs <=? _)%Z; [apply flush_tinv; exact H1|exact H1].
Qed.

Lemma td_of_tinv adds : tinv (td_of QA msz bs adds).
Proof.
  unfold td_of. assert (G : forall s, tinv s -> tinv (fold_left (fun s vc => fst (td_add QA msz bs s (fst vc) (snd vc))) adds s)).
  { induction adds as [|[v c] r IH]; intros s H; cbn [fold_left]; [exact H|]. apply IH. now apply add_tinv. }
  apply G. unfold tinv. cbn. auto.
Qed.

Lemma merge_tinv a b : tinv a -> tinv b -> tinv (fst (td_merge QA msz a b)).
Proof.
  intros Ha Hb. apply flush_tinv in Ha. apply flush_tinv in Hb. unfold td_merge. cbn [fst].
  set (a1 := td_flush QA msz a) in *. set (b1 := td_flush QA msz b) in *.
  assert (Ea : td_buf a1 = []) by (unfold a1, td_flush; destruct (td_buf a) eqn:E; [exact E|reflexivity]).
  assert (Eb : td_buf b1 = []) by (unfold b1, td_flush; destruct (td_buf b) eqn:E; [exact E|reflexivity]).
  unfold tinv in *.
  destruct (td_min a1) as [la|] eqn:A1, (td_max a1) as [ha|] eqn:A2; try tauto;
  destruct (td_min b1) as [lb|] eqn:B1, (td_max b1) as [hb|] eqn:B2; try tauto; cbn [td_min td_max td_cs td_buf td_total opt_min opt_max].
  - destruct Ha as [La Ba], Hb as [Lb Bb].
    set (lo := if a_ltb QA lb la then lb else la). set (hi := if a_ltb QA ha hb then hb else ha).
    assert (X : lo <= la /\ lo <= lb /\ ha <= hi /\ hb <= hi).
    { unfold lo, hi. destruct (a_ltb QA lb la) eqn:Q1; [apply ltb_lt in Q1|apply ltb_false_le in Q1];
        (destruct (a_ltb QA ha hb) eqn:Q2; [apply ltb_lt in Q2|apply ltb_false_le in Q2]); repeat split; lra. }
    destruct X as (X1 & X2 & X3 & X4).
    replace (if a_ltb QA lb la then Some lb else Some la) with (Some lo) by (unfold lo; destruct (a_ltb QA lb la); reflexivity).
    replace (if a_ltb QA ha hb then Some hb else Some ha) with (Some hi) by (unfold hi; destruct (a_ltb QA ha hb); reflexivity).
    split; [lra|].
    destruct (binv_widen la ha lo hi a1 X1 X3 Ba) as (Fa & _ & Sa).
    destruct (binv_widen lb hb lo hi b1 X2 X4 Bb) as (Fb & _ & Sb).
    destruct (compress_ok lo hi (td_total a1 + td_total b1) (td_cs a1 ++ td_cs b1)) as [F HS]; [apply Forall_app; split; assumption|].
    unfold binv. cbn [td_cs td_buf td_total]. repeat split; [exact F|constructor|].
    rewrite HS, csum_app. rewrite Ea in Sa. rewrite Eb in Sb. cbn in Sa, Sb. cbn. lia.
  - destruct Ha as [La Ba], Hb as (Cb & _ & Tb). split; [exact La|].
    destruct Ba as (Fa & _ & Sa).
    destruct (compress_ok la ha (td_total a1 + td_total b1) (td_cs a1 ++ td_cs b1)) as [F HS]; [rewrite Cb, app_nil_r; exact Fa|].
    unfold binv. cbn [td_cs td_buf td_total]. repeat split; [exact F|constructor|].
    rewrite HS, Cb, app_nil_r. rewrite Ea in Sa. cbn in Sa. cbn. lia.
  - destruct Ha as (Ca & _ & Ta), Hb as [Lb Bb]. split; [exact Lb|].
    destruct Bb as (Fb & _ & Sb).
    destruct (compress_ok lb hb (td_total a1 + td_total b1) (td_cs a1 ++ td_cs b1)) as [F HS]; [rewrite Ca; exact Fb|].
    unfold binv. cbn [td_cs td_buf td_total]. repeat split; [exact F|constructor|].
    rewrite HS, Ca. rewrite Eb in Sb. cbn in Sb. cbn. lia.
  - destruct Ha as (Ca & _ & Ta), Hb as (Cb & _ & Tb). rewrite Ca, Cb, Ta, Tb. cbn. auto.
Qed.

(** Every digest built by adds and merges. *)
Inductive reach : tdig QA -> Prop :=
| reach_empty : reach (td_empty QA)
| reach_add s v c : reach s -> reach (fst (td_add QA msz bs s v c))
| reach_flush s : reach s -> reach (td_flush QA msz s)
| reach_merge a b : reach a -> reach b -> reach (fst (td_merge QA msz a b)).

Lemma reach_tinv s : reach s -> tinv s.
Proof.
  induction 1; [unfold tinv; cbn; auto|now apply add_tinv|now apply flush_tinv|now apply merge_tinv].
Qed.

(** Range clause in exact arithmetic: for every digest built by adds and
    merges (any compression / max-size function), every quantile with
    0 <= q <= 1 lies within [min, max]. *)
Theorem td_exact_quantile_in_range : forall s q v mn mx, reach s ->
  snd (td_quantile QA msz s q) = Some v ->
  td_min (fst (td_quantile QA msz s q)) = Some mn -> td_max (fst (td_quantile QA msz s q)) = Some mx ->
  mn <= v /\ v <= mx.
Proof.
  intros s q v mn mx R. apply reach_tinv, flush_tinv in R. unfold td_quantile.
  destruct (negb _) eqn:G; cbn [fst snd]; [discriminate|].
  set (s1 := td_flush QA msz s) in *. unfold tinv in R.
  destruct (td_cs s1) as [|c0 cr] eqn:Ec; [destruct (td_min s1), (td_max s1); discriminate|].
  destruct (td_min s1) as [lo|] eqn:E1; destruct (td_max s1) as [hi|] eqn:E2; try tauto; try discriminate.
  destruct R as [L (Fc & _ & HS)].
  assert (Eb : td_buf s1 = []) by (unfold s1, td_flush; destruct (td_buf s) eqn:E; [exact E|reflexivity]).
  destruct (a_eqb QA q (a_ofZ QA 0)); cbn [fst snd].
  { intros V M1 M2. rewrite E1 in M1. rewrite E2 in M2. inversion V; inversion M1; inversion M2; subst. lra. }
  destruct (a_eqb QA q (a_ofZ QA 1)); cbn [fst snd].
  { intros V M1 M2. rewrite E1 in M1. rewrite E2 in M2. inversion V; inversion M1; inversion M2; subst. lra. }
  intros V M1 M2. rewrite E1 in M1. rewrite E2 in M2. injection M1 as <-. injection M2 as <-. injection V as <-.
  set (tgt := a_mul QA q (a_ofZ QA (td_total s1))).
  change (lo <= td_walk QA lo hi (td_total s1) tgt None (a_ofZ QA 0) (c0 :: cr) /\
          td_walk QA lo hi (td_total s1) tgt None (a_ofZ QA 0) (c0 :: cr) <= hi).
  rewrite <- Ec. apply (walk_range lo hi (td_total s1) tgt L (td_cs s1) None (a_ofZ QA 0) 0%Z).
  - intros pm E; discriminate.
  - exact Fc.
  - reflexivity.
  - lia.
  - rewrite Eb in HS. cbn in HS. lia.
Qed.

End QInv.
