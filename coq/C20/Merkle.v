(** C20 — Merkle tree: diff is empty exactly when the maps are equal, and
    otherwise its ranges cover every key whose value differs (hash functions
    injective and domain-separated: section hypotheses = sha256 collision
    freedom). *)
From HS Require Import Base.Prelude C20.Model.
From Coq Require Import Sorting.Sorted.
Local Open Scope Z_scope.

Definition klt (a b : Z * Z) : Prop := fst a < fst b.
Definition ssorted (l : list (Z * Z)) : Prop := StronglySorted klt l.

Fixpoint leaves (t : mtree) : list (Z * Z) :=
  match t with MLeaf k v => [(k, v)] | MNode l r => leaves l ++ leaves r end.

Lemma ss_app_inv l1 l2 : ssorted (l1 ++ l2) ->
  ssorted l1 /\ ssorted l2 /\ forall a b, In a l1 -> In b l2 -> klt a b.
Proof.
  induction l1 as [|x l1 IH]; cbn; intros H.
  - repeat split; [constructor|exact H|intros a b []].
  - apply StronglySorted_inv in H. destruct H as [H1 H2]. destruct (IH H1) as (A & B & C).
    rewrite Forall_app in H2. destruct H2 as [F1 F2]. repeat split.
    + constructor; assumption.
    + exact B.
    + intros a b [<-|Ha] Hb; [rewrite Forall_forall in F2; auto|auto].
Qed.

Lemma start_in t : exists v, In (m_start t, v) (leaves t).
Proof. induction t as [k v|l [v IHl] r _]; cbn; [exists v; now left|exists v; apply in_app_iff; now left]. Qed.
Lemma end_in t : exists v, In (m_end t, v) (leaves t).
Proof. induction t as [k v|l _ r [v IHr]]; cbn; [exists v; now left|exists v; apply in_app_iff; now right]. Qed.

Lemma range t : ssorted (leaves t) -> forall k v, In (k, v) (leaves t) -> m_start t <= k <= m_end t.
Proof.
  induction t as [k0 v0|l IHl r IHr]; cbn; intros Hs k v Hin.
  - destruct Hin as [E|[]]. inversion E. lia.
  - destruct (ss_app_inv _ _ Hs) as (Sl & Sr & Cross). apply in_app_iff in Hin. destruct Hin as [Hin|Hin].
    + specialize (IHl Sl k v Hin). destruct (end_in r) as [v' He].
      specialize (Cross _ _ Hin He). unfold klt in Cross. cbn in Cross. lia.
    + specialize (IHr Sr k v Hin). destruct (start_in l) as [v' He].
      specialize (Cross _ _ He Hin). unfold klt in Cross. cbn in Cross. lia.
Qed.

(** ** lookups in sorted association lists *)
Lemma d_get_in k l v : d_get k l = Some v -> In (k, v) l.
Proof.
  induction l as [|[k' v'] l IH]; cbn; [discriminate|]. destruct (k' =? k) eqn:E; intros H.
  - inversion H; subst. left. f_equal. lia.
  - right. auto.
Qed.

Lemma d_get_none k l v : d_get k l = None -> ~ In (k, v) l.
Proof.
  induction l as [|[k' v'] l IH]; cbn; [tauto|]. destruct (k' =? k) eqn:E; [discriminate|].
  intros H [H1|H1]; [inversion H1; lia|]. now apply IH.
Qed.

Lemma in_d_get k v l : ssorted l -> In (k, v) l -> d_get k l = Some v.
Proof.
  induction l as [|[k' v'] l IH]; cbn; [tauto|]. intros Hs [H|H].
  - inversion H; subst. now rewrite Z.eqb_refl.
  - apply StronglySorted_inv in Hs. destruct Hs as [Hs Hf]. rewrite Forall_forall in Hf.
    specialize (Hf _ H). unfold klt in Hf. cbn in Hf. replace (k' =? k) with false by lia. auto.
Qed.

Lemma sorted_ext la : forall lb, ssorted la -> ssorted lb ->
  (forall k, d_get k la = d_get k lb) -> la = lb.
Proof.
  induction la as [|[k1 v1] ta IH]; intros [|[k2 v2] tb] Sa Sb E.
  - reflexivity.
  - specialize (E k2). cbn in E. rewrite Z.eqb_refl in E. discriminate.
  - specialize (E k1). cbn in E. rewrite Z.eqb_refl in E. discriminate.
  - pose proof (StronglySorted_inv Sa) as [Sa' Fa]. pose proof (StronglySorted_inv Sb) as [Sb' Fb].
    rewrite Forall_forall in Fa, Fb.
    assert (Hk : k1 = k2).
    { destruct (Z.lt_trichotomy k1 k2) as [L|[L|L]]; [|exact L|].
      - pose proof (E k1) as E1. cbn in E1. rewrite Z.eqb_refl in E1. replace (k2 =? k1) with false in E1 by lia.
        symmetry in E1. apply d_get_in in E1. specialize (Fb _ E1). unfold klt in Fb. cbn in Fb. lia.
      - pose proof (E k2) as E1. cbn in E1. rewrite Z.eqb_refl in E1. replace (k1 =? k2) with false in E1 by lia.
        apply d_get_in in E1. specialize (Fa _ E1). unfold klt in Fa. cbn in Fa. lia. }
    subst k2. pose proof (E k1) as E1. cbn in E1. rewrite Z.eqb_refl in E1. inversion E1; subst v2.
    f_equal. apply IH; [assumption|assumption|]. intros k. specialize (E k). cbn in E.
    destruct (k1 =? k) eqn:K; [|exact E]. assert (k = k1) by lia. subst k.
    destruct (d_get k1 ta) eqn:G1.
    { apply d_get_in in G1. specialize (Fa _ G1). unfold klt in Fa. cbn in Fa. lia. }
    destruct (d_get k1 tb) eqn:G2; [|reflexivity].
    apply d_get_in in G2. specialize (Fb _ G2). unfold klt in Fb. cbn in Fb. lia.
Qed.

(** ** the builder *)
Lemma m_build_leaves fuel : forall items t, m_build fuel items = Some t -> leaves t = items.
Proof.
  induction fuel as [|f IH]; intros items t; cbn [m_build]; [discriminate|].
  destruct items as [|[k v] [|e2 rest]]; [discriminate|intros H; inversion H; reflexivity|].
  set (items := (k, v) :: e2 :: rest). set (mid := Nat.div (length items) 2).
  destruct (m_build f (firstn mid items)) as [l|] eqn:El; [|discriminate].
  destruct (m_build f (skipn mid items)) as [r|] eqn:Er; [|discriminate].
  intros H. inversion H; subst t. cbn. rewrite (IH _ _ El), (IH _ _ Er). apply firstn_skipn.
Qed.

Lemma m_build_some fuel : forall items, items <> [] -> (length items <= fuel)%nat ->
  exists t, m_build fuel items = Some t.
Proof.
  induction fuel as [|f IH]; intros items Hne Hlen.
  - destruct items; [congruence|cbn in Hlen; lia].
  - cbn [m_build]. destruct items as [|[k v] [|e2 rest]]; [congruence|eauto|].
    set (items := (k, v) :: e2 :: rest) in *. set (mid := Nat.div (length items) 2).
    assert (Hlen2 : (2 <= length items)%nat) by (cbn; lia).
    assert (Hmid : (1 <= mid /\ mid < length items)%nat).
    { unfold mid. split; [apply (Nat.div_le_lower_bound _ 2 1); lia|apply Nat.div_lt; lia]. }
    destruct (IH (firstn mid items)) as [l El].
    { intros E. apply (f_equal (@length _)) in E. rewrite firstn_length in E. cbn [length] in E. lia. }
    { rewrite firstn_length. lia. }
    destruct (IH (skipn mid items)) as [r Er].
    { intros E. apply (f_equal (@length _)) in E. rewrite skipn_length in E. cbn [length] in E. lia. }
    { rewrite skipn_length. lia. }
    rewrite El, Er. eauto.
Qed.

Lemma m_of_nil : m_of [] = None.
Proof. reflexivity. Qed.
Lemma m_of_some items : items <> [] -> exists t, m_of items = Some t /\ leaves t = items.
Proof.
  intros H. destruct (m_build_some (length items) items H (le_n _)) as [t E].
  exists t. split; [exact E|]. eapply m_build_leaves; exact E.
Qed.

Section Merkle.
Context {H : Type}.
Variable hl : Z -> Z -> H.
Variable hc : H -> H -> H.
Variable heq : H -> H -> bool.
Hypothesis hl_inj : forall k v k' v', hl k v = hl k' v' -> k = k' /\ v = v'.
Hypothesis hc_inj : forall a b a' b', hc a b = hc a' b' -> a = a' /\ b = b'.
Hypothesis hl_hc : forall k v a b, hl k v <> hc a b.
Hypothesis heq_spec : forall x y, heq x y = true <-> x = y.

Lemma hash_inj a : forall b, m_hash hl hc a = m_hash hl hc b -> a = b.
Proof.
  induction a as [k v|l IHl r IHr]; intros [k' v'|l' r']; cbn; intros E.
  - destruct (hl_inj _ _ _ _ E). now subst.
  - exfalso. eapply hl_hc; exact E.
  - exfalso. eapply hl_hc; symmetry; exact E.
  - destruct (hc_inj _ _ _ _ E) as [E1 E2]. now rewrite (IHl _ E1), (IHr _ E2).
Qed.

Notation diff := (m_diff hl hc heq).

(** A pair present in exactly one of the two subtrees is covered. *)
Lemma cover a : forall b, ssorted (leaves a) -> ssorted (leaves b) -> forall k v,
  (In (k, v) (leaves a) /\ ~ In (k, v) (leaves b)) \/ (In (k, v) (leaves b) /\ ~ In (k, v) (leaves a)) ->
  exists r, In r (diff a b) /\ fst r <= k <= snd r.
Proof.
  induction a as [k0 v0|al IHl ar IHr]; intros b Sa Sb k v D.
  - cbn [m_diff]. destruct (heq _ _) eqn:E.
    { apply heq_spec, hash_inj in E. subst b. tauto. }
    assert (G : exists r, In r [(Z.min k0 (m_start b), Z.max k0 (m_end b))] /\ fst r <= k <= snd r).
    { eexists; split; [now left|]. cbn. destruct D as [[D _]|[D _]].
      - destruct D as [D|[]]. inversion D. lia.
      - pose proof (range b Sb k v D). lia. }
    destruct b; exact G.
  - cbn [m_diff]. destruct (heq _ _) eqn:E.
    { apply heq_spec, hash_inj in E. subst b. tauto. }
    destruct b as [k1 v1|bl br].
    + eexists; split; [now left|]. cbn [fst snd m_start m_end]. destruct D as [[D _]|[D _]].
      * pose proof (range (MNode al ar) Sa k v D) as R. cbn in R. lia.
      * destruct D as [D|[]]. inversion D. lia.
    + cbn [leaves] in *. destruct (ss_app_inv _ _ Sa) as (Sal & Sar & _).
      destruct (ss_app_inv _ _ Sb) as (Sbl & Sbr & _).
      rewrite !in_app_iff in D.
      assert (C : (In (k, v) (leaves al) /\ ~ In (k, v) (leaves bl)) \/ (In (k, v) (leaves bl) /\ ~ In (k, v) (leaves al)) \/
                  (In (k, v) (leaves ar) /\ ~ In (k, v) (leaves br)) \/ (In (k, v) (leaves br) /\ ~ In (k, v) (leaves ar))) by tauto.
      destruct C as [C|[C|[C|C]]].
      * destruct (IHl bl Sal Sbl k v (or_introl C)) as (r & Hr & Hk). exists r. split; [apply in_app_iff; now left|exact Hk].
      * destruct (IHl bl Sal Sbl k v (or_intror C)) as (r & Hr & Hk). exists r. split; [apply in_app_iff; now left|exact Hk].
      * destruct (IHr br Sar Sbr k v (or_introl C)) as (r & Hr & Hk). exists r. split; [apply in_app_iff; now right|exact Hk].
      * destruct (IHr br Sar Sbr k v (or_intror C)) as (r & Hr & Hk). exists r. split; [apply in_app_iff; now right|exact Hk].
Qed.

Notation tdiff := (mt_diff hl hc heq).

(** Every key whose value differs between the two maps (present in one only,
    or present in both with different values) lies in a reported range. *)
Theorem merkle_diff_covers : forall la lb, ssorted la -> ssorted lb -> forall k,
  d_get k la <> d_get k lb ->
  exists r, In r (tdiff (m_of la) (m_of lb)) /\ fst r <= k <= snd r.
Proof.
  intros la lb Sa Sb k D.
  assert (P : exists v, (In (k, v) la /\ ~ In (k, v) lb) \/ (In (k, v) lb /\ ~ In (k, v) la)).
  { destruct (d_get k la) as [v|] eqn:Ga.
    - exists v. left. split; [now apply d_get_in|]. intros Hin. apply (in_d_get _ _ _ Sb) in Hin. congruence.
    - destruct (d_get k lb) as [v|] eqn:Gb; [|congruence]. exists v. right.
      split; [now apply d_get_in|now apply d_get_none]. }
  destruct P as [v P].
  destruct la as [|a la'].
  - destruct lb as [|b lb']; [destruct P as [[[] _]|[[] _]]|].
    destruct (m_of_some (b :: lb') ltac:(congruence)) as (tb & Eb & Lb). rewrite m_of_nil, Eb. cbn.
    eexists; split; [now left|]. cbn. rewrite <- Lb in Sb, P. destruct P as [[[] _]|[P _]].
    apply (range tb Sb k v P).
  - destruct (m_of_some (a :: la') ltac:(congruence)) as (ta & Ea & La). rewrite Ea.
    destruct lb as [|b lb'].
    + rewrite m_of_nil. cbn. eexists; split; [now left|]. cbn. rewrite <- La in Sa, P.
      destruct P as [[P _]|[[] _]]. apply (range ta Sa k v P).
    + destruct (m_of_some (b :: lb') ltac:(congruence)) as (tb & Eb & Lb). rewrite Eb. cbn [mt_diff].
      rewrite <- La in Sa, P. rewrite <- Lb in Sb, P.
      destruct (heq _ _) eqn:E.
      { apply heq_spec, hash_inj in E. subst tb. tauto. }
      apply (cover ta tb Sa Sb k v P).
Qed.

Lemma option_Z_dec (a b : option Z) : {a = b} + {a <> b}.
Proof. decide equality. apply Z.eq_dec. Qed.

(** The diff is empty exactly when the two maps are equal. *)
Theorem merkle_diff_empty_iff_equal : forall la lb, ssorted la -> ssorted lb ->
  (tdiff (m_of la) (m_of lb) = [] <-> la = lb).
Proof.
  intros la lb Sa Sb. split.
  - intros E. apply sorted_ext; [assumption|assumption|]. intros k.
    destruct (option_Z_dec (d_get k la) (d_get k lb)) as [e|n]; [exact e|].
    destruct (merkle_diff_covers la lb Sa Sb k n) as (r & Hr & _). rewrite E in Hr. destruct Hr.
  - intros <-. destruct (m_of la) as [t|]; cbn; [|reflexivity].
    replace (heq (m_hash hl hc t) (m_hash hl hc t)) with true; [reflexivity|].
    symmetry. now apply heq_spec.
Qed.

End Merkle.

(** The hypotheses are satisfiable: the ideal hash (the subtree itself). *)
Lemma mtree_eqb_spec a : forall b, mtree_eqb a b = true <-> a = b.
Proof.
  induction a as [k v|l IHl r IHr]; intros [k' v'|l' r']; cbn; try (split; [discriminate|congruence]).
  - rewrite andb_true_iff, !Z.eqb_eq. split; [intros [-> ->]; reflexivity|intros E; inversion E; auto].
  - rewrite andb_true_iff, IHl, IHr. split; [intros [-> ->]; reflexivity|intros E; inversion E; auto].
Qed.

Example merkle_hypotheses_satisfiable :
  (forall k v k' v', MLeaf k v = MLeaf k' v' -> k = k' /\ v = v') /\
  (forall a b a' b', MNode a b = MNode a' b' -> a = a' /\ b = b') /\
  (forall k v a b, MLeaf k v <> MNode a b) /\
  (forall x y, mtree_eqb x y = true <-> x = y).
Proof.
  repeat split; try (intros; congruence); try (inversion H; auto); apply mtree_eqb_spec.
Qed.

(** [sorted(data.items())]: the insertion sort of a dict with distinct keys is
    strictly sorted and has the same lookups. *)
Lemma insert_sorted e l : ssorted l -> (forall x, In x l -> fst x <> fst e) -> ssorted (m_insert e l).
Proof.
  induction l as [|a l IH]; cbn; intros Hs Hne.
  - constructor; constructor.
  - pose proof (StronglySorted_inv Hs) as [Hs' Hf]. destruct (fst e <? fst a) eqn:E.
    + constructor; [exact Hs|]. constructor; [unfold klt; lia|].
      rewrite Forall_forall in *. intros x Hx. specialize (Hf x Hx). unfold klt in *. lia.
    + assert (fst a <> fst e) by (apply Hne; now left).
      constructor; [apply IH; [exact Hs'|intros x Hx; apply Hne; now right]|].
      rewrite Forall_forall in *. intros x Hx.
      assert (In x (e :: l)) as Hx'.
      { clear -Hx. induction l as [|b l IHl]; cbn in *; [tauto|].
        destruct (fst e <? fst b); cbn in *; [tauto|]. destruct Hx as [Hx|Hx]; [tauto|]. specialize (IHl Hx). tauto. }
      destruct Hx' as [<-|Hx']; [unfold klt; lia|auto].
Qed.

Lemma insert_in e l x : In x (m_insert e l) <-> x = e \/ In x l.
Proof.
  induction l as [|a l IH]; cbn; [intuition|]. destruct (fst e <? fst a); cbn; [intuition|].
  rewrite IH. intuition.
Qed.

Lemma sort_in d x : In x (m_sort d) <-> In x d.
Proof. induction d as [|e d IH]; cbn; [tauto|]. rewrite insert_in, IH. intuition. Qed.

Theorem merkle_sort_sorted : forall d, NoDup (map fst d) -> ssorted (m_sort d) /\ forall x, In x (m_sort d) <-> In x d.
Proof.
  intros d Hnd. split; [|intros x; apply sort_in].
  induction d as [|e d IH]; [constructor|]. change (m_sort (e :: d)) with (m_insert e (m_sort d)). inversion Hnd; subst.
  apply insert_sorted; [auto|]. intros x Hx E. apply (proj1 (sort_in d x)) in Hx. match goal with Hn : ~ In _ _ |- _ => apply Hn end. rewrite <- E. apply in_map. exact Hx.
Qed.

(** Sorted maps exist, differ, and the ideal-hash diff reports the range. *)
Example merkle_example :
  ssorted [(1, 0); (2, 5); (4, 1)] /\ ssorted [(1, 0); (2, 6); (4, 1)] /\
  d_get 2 [(1, 0); (2, 5); (4, 1)] <> d_get 2 [(1, 0); (2, 6); (4, 1)] /\
  mi_diff (m_of [(1, 0); (2, 5); (4, 1)]) (m_of [(1, 0); (2, 6); (4, 1)]) = [(2, 2)].
Proof.
  repeat split; try (vm_compute; congruence); try (vm_compute; reflexivity);
    repeat (constructor; try (unfold klt; cbn; lia)).
Qed.
