(** C20 — executable models of happysimulator/sketching/{bloom_filter,
    count_min_sketch,hyperloglog,topk,reservoir,merkle_tree,tdigest}.py and of
    the collector entities in happysimulator/components/sketching/.

    Definitions only (no proofs), so the model still runs when a proof breaks.
    Items are [Z] ids.  Hash functions (sha256 digests, builtin [hash]) and RNG
    draws are explicit inputs; the index arithmetic on top of them is modelled. *)
From HS Require Import Base.Prelude.
From Coq Require Uint63.
Local Open Scope Z_scope.

(** Literal decoder used only by the generated case files: big integers are
    written as little-endian lists of 62-bit primitive-int limbs (Coq's decimal
    [Z] notation is too slow for thousands of 64-bit digests). *)
Definition Zl (l : list Uint63.int) : Z :=
  fold_right (fun d acc => Uint63.to_Z d + 4611686018427387904 * acc) 0 l.

Definition zrange (k : Z) : list Z := map Z.of_nat (seq 0 (Z.to_nat k)).

(* ------------------------------------------------------------------ *)
(** * Bloom filter (bloom_filter.py) *)

(** [_bits] (a list of 64-bit words) is one big integer: bit [64*w + p] of the
    integer is bit [p] of word [w].  [b_set] = [_bits_set], [b_total] =
    [_total_count]. *)
Record bloom := { b_bits : Z; b_set : Z; b_total : Z }.
Definition bloom_empty : bloom := {| b_bits := 0; b_set := 0; b_total := 0 |}.

(** [hsh item i] = the two big-endian 64-bit words (h1, h2) of
    sha256(pack(seed, i) ++ repr(item)).  [_hash]: (h1 + i*h2) mod size_bits. *)
Definition b_idx (hsh : Z -> Z -> Z * Z) (m x i : Z) : Z :=
  let '(h1, h2) := hsh x i in (h1 + i * h2) mod m.

(** [_set_bit] + the [_bits_set] bookkeeping of [add]. *)
Definition b_set_bit (st : Z * Z) (idx : Z) : Z * Z :=
  let '(bits, nset) := st in
  (Z.lor bits (Z.shiftl 1 idx), if Z.testbit bits idx then nset else nset + 1).

(** [add(item, count)]; the boolean is "raised ValueError". *)
Definition b_add (hsh : Z -> Z -> Z * Z) (m k : Z) (st : bloom) (x c : Z) : bloom * bool :=
  if c <? 0 then (st, true)
  else if c =? 0 then (st, false)
  else
    let '(bits, nset) :=
      fold_left (fun s i => b_set_bit s (b_idx hsh m x i)) (zrange k) (b_bits st, b_set st) in
    ({| b_bits := bits; b_set := nset; b_total := b_total st + c |}, false).

Definition b_contains (hsh : Z -> Z -> Z * Z) (m k : Z) (st : bloom) (x : Z) : bool :=
  forallb (fun i => Z.testbit (b_bits st) (b_idx hsh m x i)) (zrange k).

(** Number of one bits among the first [n] positions. *)
Fixpoint popc (n : nat) (b : Z) : Z :=
  match n with
  | O => 0
  | S n' => (if Z.testbit b (Z.of_nat n') then 1 else 0) + popc n' b
  end.
(** The words hold [64 * ceil(m / 64)] bits; [merge] recounts all of them. *)
Definition b_nbits (m : Z) : Z := 64 * ((m + 63) / 64).

(** [merge(other)] for filters of equal size/hashes/seed. *)
Definition b_merge (m : Z) (a b : bloom) : bloom :=
  let bits := Z.lor (b_bits a) (b_bits b) in
  {| b_bits := bits; b_set := popc (Z.to_nat (b_nbits m)) bits; b_total := b_total a + b_total b |}.

(** The filter of a stream of [(item, count)] adds. *)
Definition b_sketch (hsh : Z -> Z -> Z * Z) (m k : Z) (s : list (Z * Z)) (st : bloom) : bloom :=
  fold_left (fun st xc => fst (b_add hsh m k st (fst xc) (snd xc))) s st.

(** ** Correspondence: a schedule over filter slots *)
Inductive b_op :=
| BAdd (slot x c : Z)
| BMerge (dst src : Z)
| BQuery (slot x : Z).
(** Observation after each op: (bits, bits_set, total, raised) of the touched
    slot, or the answer of [contains] in the last component. *)
Definition b_obs := (Z * Z * Z * bool * bool)%type.

Definition upd {V} (f : Z -> V) (k : Z) (v : V) : Z -> V :=
  fun k' => if Z.eqb k' k then v else f k'.

Definition tbl2 (t : list (Z * Z * (Z * Z))) (x i : Z) : Z * Z :=
  match find (fun e => (fst (fst e) =? x) && (snd (fst e) =? i)) t with
  | Some e => snd e
  | None => (0, 0)
  end.

Definition b_view (st : bloom) (raised ans : bool) : b_obs :=
  (b_bits st, b_set st, b_total st, raised, ans).
Definition b_obs_eqb (a b : b_obs) : bool :=
  let '(a1, a2, a3, a4, a5) := a in let '(b1, b2, b3, b4, b5) := b in
  (a1 =? b1) && (a2 =? b2) && (a3 =? b3) && Bool.eqb a4 b4 && Bool.eqb a5 b5.

Definition b_step (hsh : Z -> Z -> Z * Z) (m k : Z) (s : Z -> bloom) (o : b_op) : (Z -> bloom) * b_obs :=
  match o with
  | BAdd sl x c =>
      let '(st, r) := b_add hsh m k (s sl) x c in (upd s sl st, b_view st r false)
  | BMerge d sr =>
      let st := b_merge m (s d) (s sr) in (upd s d st, b_view st false false)
  | BQuery sl x => (s, b_view (s sl) false (b_contains hsh m k (s sl) x))
  end.

Fixpoint b_run (hsh : Z -> Z -> Z * Z) (m k : Z) (s : Z -> bloom) (ops : list b_op) : list b_obs :=
  match ops with
  | [] => []
  | o :: r => let '(s', ob) := b_step hsh m k s o in ob :: b_run hsh m k s' r
  end.

(** case = (size_bits, num_hashes, digest table, schedule, observations) *)
Definition ok_bloom (c : Z * Z * list (Z * Z * (Z * Z)) * list b_op * list b_obs) : bool :=
  let '(m, k, t, ops, obs) := c in
  list_eqb b_obs_eqb (b_run (tbl2 t) m k (fun _ => bloom_empty) ops) obs.
