(** C20 — executable models of happysimulator/sketching/{bloom_filter,
    count_min_sketch,hyperloglog,topk,reservoir,merkle_tree,tdigest}.py and of
    the collector entities in happysimulator/components/sketching/.

    Definitions only (no proofs), so the model still runs when a proof breaks.
    Items are [Z] ids.  Hash functions (sha256 digests, builtin [hash]) and RNG
    draws are explicit inputs; the index arithmetic on top of them is modelled. *)
From HS Require Import Base.Prelude.
From Coq Require Uint63.
Local Open Scope Z_scope.

(** Literal decoder used only by the generated case files: big integers are
    written as little-endian lists of 62-bit primitive-int limbs (Coq's decimal
    [Z] notation is too slow for thousands of 64-bit digests). *)
Definition Zl (l : list Uint63.int) : Z :=
  fold_right (fun d acc => Uint63.to_Z d + 4611686018427387904 * acc) 0 l.

Definition zrange (k : Z) : list Z := map Z.of_nat (seq 0 (Z.to_nat k)).

(* ------------------------------------------------------------------ *)
(** * Bloom filter (bloom_filter.py) *)

(** [_bits] (a list of 64-bit words) is one big integer: bit [64*w + p] of the
    integer is bit [p] of word [w].  [b_set] = [_bits_set], [b_total] =
    [_total_count]. *)
Record bloom := { b_bits : Z; b_set : Z; b_total : Z }.
Definition bloom_empty : bloom := {| b_bits := 0; b_set := 0; b_total := 0 |}.

(** [hsh item i] = the two big-endian 64-bit words (h1, h2) of
    sha256(pack(seed, i) ++ repr(item)).  [_hash]: (h1 + i*h2) mod size_bits. *)
Definition b_idx (hsh : Z -> Z -> Z * Z) (m x i : Z) : Z :=
  let '(h1, h2) := hsh x i in (h1 + i * h2) mod m.

(** [_set_bit] + the [_bits_set] bookkeeping of [add]. *)
Definition b_set_bit (st : Z * Z) (idx : Z) : Z * Z :=
  let '(bits, nset) := st in
  (Z.lor bits (Z.shiftl 1 idx), if Z.testbit bits idx then nset else nset + 1).

(** [add(item, count)]; the boolean is "raised ValueError". *)
Definition b_add (hsh : Z -> Z -> Z * Z) (m k : Z) (st : bloom) (x c : Z) : bloom * bool :=
  if c <? 0 then (st, true)
  else if c =? 0 then (st, false)
  else
    let '(bits, nset) :=
      fold_left (fun s i => b_set_bit s (b_idx hsh m x i)) (zrange k) (b_bits st, b_set st) in
    ({| b_bits := bits; b_set := nset; b_total := b_total st + c |}, false).

Definition b_contains (hsh : Z -> Z -> Z * Z) (m k : Z) (st : bloom) (x : Z) : bool :=
  forallb (fun i => Z.testbit (b_bits st) (b_idx hsh m x i)) (zrange k).

(** Number of one bits among the first [n] positions. *)
Fixpoint popc (n : nat) (b : Z) : Z :=
  match n with
  | O => 0
  | S n' => (if Z.testbit b (Z.of_nat n') then 1 else 0) + popc n' b
  end.
(** The words hold [64 * ceil(m / 64)] bits; [merge] recounts all of them. *)
Definition b_nbits (m : Z) : Z := 64 * ((m + 63) / 64).

(** [merge(other)] for filters of equal size/hashes/seed. *)
Definition b_merge (m : Z) (a b : bloom) : bloom :=
  let bits := Z.lor (b_bits a) (b_bits b) in
  {| b_bits := bits; b_set := popc (Z.to_nat (b_nbits m)) bits; b_total := b_total a + b_total b |}.

(** The filter of a stream of [(item, count)] adds. *)
Definition b_sketch (hsh : Z -> Z -> Z * Z) (m k : Z) (s : list (Z * Z)) (st : bloom) : bloom :=
  fold_left (fun st xc => fst (b_add hsh m k st (fst xc) (snd xc))) s st.

(** ** Correspondence: a schedule over filter slots *)
Inductive b_op :=
| BAdd (slot x c : Z)
| BMerge (dst src : Z)
| BQuery (slot x : Z).
(** Observation after each op: (bits, bits_set, total, raised) of the touched
    slot, or the answer of [contains] in the last component. *)
Definition b_obs := (Z * Z * Z * bool * bool)%type.

Definition upd {V} (f : Z -> V) (k : Z) (v : V) : Z -> V :=
  fun k' => if Z.eqb k' k then v else f k'.

Definition tbl2 (t : list (Z * Z * (Z * Z))) (x i : Z) : Z * Z :=
  match find (fun e => (fst (fst e) =? x) && (snd (fst e) =? i)) t with
  | Some e => snd e
  | None => (0, 0)
  end.

Definition b_view (st : bloom) (raised ans : bool) : b_obs :=
  (b_bits st, b_set st, b_total st, raised, ans).
Definition b_obs_eqb (a b : b_obs) : bool :=
  let '(a1, a2, a3, a4, a5) := a in let '(b1, b2, b3, b4, b5) := b in
  (a1 =? b1) && (a2 =? b2) && (a3 =? b3) && Bool.eqb a4 b4 && Bool.eqb a5 b5.

Definition b_step (hsh : Z -> Z -> Z * Z) (m k : Z) (s : Z -> bloom) (o : b_op) : (Z -> bloom) * b_obs :=
  match o with
  | BAdd sl x c =>
      let '(st, r) := b_add hsh m k (s sl) x c in (upd s sl st, b_view st r false)
  | BMerge d sr =>
      let st := b_merge m (s d) (s sr) in (upd s d st, b_view st false false)
  | BQuery sl x => (s, b_view (s sl) false (b_contains hsh m k (s sl) x))
  end.

Fixpoint b_run (hsh : Z -> Z -> Z * Z) (m k : Z) (s : Z -> bloom) (ops : list b_op) : list b_obs :=
  match ops with
  | [] => []
  | o :: r => let '(s', ob) := b_step hsh m k s o in ob :: b_run hsh m k s' r
  end.

(** case = (size_bits, num_hashes, digest table, schedule, observations) *)
Definition ok_bloom (c : Z * Z * list (Z * Z * (Z * Z)) * list b_op * list b_obs) : bool :=
  let '(m, k, t, ops, obs) := c in
  list_eqb b_obs_eqb (b_run (tbl2 t) m k (fun _ => bloom_empty) ops) obs.

(* ------------------------------------------------------------------ *)
(** * Count-Min sketch (count_min_sketch.py) *)

(** [_counters[row][col]] as a total function (0 outside the array). *)
Record cms := { c_cnt : Z -> Z -> Z; c_total : Z }.
Definition cms_empty : cms := {| c_cnt := fun _ _ => 0; c_total := 0 |}.

(** [hc item row] = the 64-bit word that [_hash] reduces modulo [width]
    (sha256 of builtin [hash(item)] xor the row seed). *)
Definition c_col (hc : Z -> Z -> Z) (w x r : Z) : Z := hc x r mod w.

Definition c_add (hc : Z -> Z -> Z) (w d : Z) (st : cms) (x c : Z) : cms * bool :=
  if c <? 0 then (st, true)
  else if c =? 0 then (st, false)
  else ({| c_cnt := fun r col =>
             if (0 <=? r) && (r <? d) && (col =? c_col hc w x r)
             then c_cnt st r col + c else c_cnt st r col;
           c_total := c_total st + c |}, false).

Definition zmin_list (l : list Z) : Z :=
  match l with [] => 0 | a :: r => fold_left Z.min r a end.

(** [estimate]: minimum over the rows (depth >= 1 is enforced by __init__). *)
Definition c_est (hc : Z -> Z -> Z) (w d : Z) (st : cms) (x : Z) : Z :=
  zmin_list (map (fun r => c_cnt st r (c_col hc w x r)) (zrange d)).

Definition c_merge (a b : cms) : cms :=
  {| c_cnt := fun r col => c_cnt a r col + c_cnt b r col; c_total := c_total a + c_total b |}.

Definition c_sketch (hc : Z -> Z -> Z) (w d : Z) (s : list (Z * Z)) (st : cms) : cms :=
  fold_left (fun st xc => fst (c_add hc w d st (fst xc) (snd xc))) s st.

(** True frequency of [x] in a stream of [(item, count)] adds (adds with a
    non-positive count are rejected or ignored by every sketch). *)
Fixpoint true_count (x : Z) (s : list (Z * Z)) : Z :=
  match s with
  | [] => 0
  | (y, c) :: r => (if (y =? x) && (0 <? c) then c else 0) + true_count x r
  end.

Inductive c_op :=
| CAdd (slot x c : Z)
| CMerge (dst src : Z)
| CEst (slot x : Z).
(** observation: counters (rows of columns), total, raised, estimate *)
Definition c_obs := (list (list Z) * Z * bool * Z)%type.

Definition zget' (m : list (Z * Z)) (k : Z) : Z := zget k m.
Definition tbl1 (t : list (Z * Z * Z)) (x i : Z) : Z :=
  match find (fun e => (fst (fst e) =? x) && (snd (fst e) =? i)) t with
  | Some e => snd e
  | None => 0
  end.

Definition c_view (w d : Z) (st : cms) (raised : bool) (est : Z) : c_obs :=
  (map (fun r => map (fun col => c_cnt st r col) (zrange w)) (zrange d), c_total st, raised, est).
Definition c_obs_eqb (a b : c_obs) : bool :=
  let '(a1, a2, a3, a4) := a in let '(b1, b2, b3, b4) := b in
  list_eqb (list_eqb Z.eqb) a1 b1 && (a2 =? b2) && Bool.eqb a3 b3 && (a4 =? b4).

Definition c_step (hc : Z -> Z -> Z) (w d : Z) (s : Z -> cms) (o : c_op) : (Z -> cms) * c_obs :=
  match o with
  | CAdd sl x c => let '(st, r) := c_add hc w d (s sl) x c in (upd s sl st, c_view w d st r 0)
  | CMerge ds sr => let st := c_merge (s ds) (s sr) in (upd s ds st, c_view w d st false 0)
  | CEst sl x => (s, c_view w d (s sl) false (c_est hc w d (s sl) x))
  end.
Fixpoint c_run (hc : Z -> Z -> Z) (w d : Z) (s : Z -> cms) (ops : list c_op) : list c_obs :=
  match ops with
  | [] => []
  | o :: r => let '(s', ob) := c_step hc w d s o in ob :: c_run hc w d s' r
  end.
Definition ok_cms (c : Z * Z * list (Z * Z * Z) * list c_op * list c_obs) : bool :=
  let '(w, d, t, ops, obs) := c in
  list_eqb c_obs_eqb (c_run (tbl1 t) w d (fun _ => cms_empty) ops) obs.

(* ------------------------------------------------------------------ *)
(** * HyperLogLog (hyperloglog.py) — registers, add, merge *)

Record hll := { h_reg : Z -> Z; h_total : Z }.
Definition hll_empty : hll := {| h_reg := fun _ => 0; h_total := 0 |}.

(** [_count_leading_zeros(value, max_bits)]: scans bits max_bits-1 .. 0. *)
Definition clz (v bits : Z) : Z :=
  let v' := v mod 2 ^ bits in
  if v' =? 0 then bits else bits - 1 - Z.log2 v'.

(** [hh item] = first 8 bytes of sha256(pack(seed) ++ repr(item)). *)
Definition h_idx (hh : Z -> Z) (p x : Z) : Z := Z.shiftr (hh x) (64 - p).
Definition h_run (hh : Z -> Z) (p x : Z) : Z :=
  clz (Z.land (hh x) (Z.shiftl 1 (64 - p) - 1)) (64 - p) + 1.

Definition h_add (hh : Z -> Z) (p : Z) (st : hll) (x c : Z) : hll * bool :=
  if c <? 0 then (st, true)
  else if c =? 0 then (st, false)
  else
    let i := h_idx hh p x in
    ({| h_reg := upd (h_reg st) i (Z.max (h_reg st i) (h_run hh p x)); h_total := h_total st + c |}, false).

(** [merge]: maximum of each of the 2^p registers; seeds are not compared. *)
Definition h_merge (p : Z) (a b : hll) : hll :=
  {| h_reg := fun i => if (0 <=? i) && (i <? 2 ^ p) then Z.max (h_reg a i) (h_reg b i) else h_reg a i;
     h_total := h_total a + h_total b |}.

Definition h_sketch (hh : Z -> Z) (p : Z) (s : list (Z * Z)) (st : hll) : hll :=
  fold_left (fun st xc => fst (h_add hh p st (fst xc) (snd xc))) s st.

Inductive h_op :=
| HAdd (slot x c : Z)
| HMerge (dst src : Z).
Definition h_obs := (list Z * Z * bool)%type.
Definition h_view (p : Z) (st : hll) (raised : bool) : h_obs :=
  (map (h_reg st) (zrange (2 ^ p)), h_total st, raised).
Definition h_obs_eqb (a b : h_obs) : bool :=
  let '(a1, a2, a3) := a in let '(b1, b2, b3) := b in
  list_eqb Z.eqb a1 b1 && (a2 =? b2) && Bool.eqb a3 b3.
(** [hh seed item]; [sd slot] = the seed the slot's sketch was built with.
    [merge] raises ValueError (state unchanged) when the seeds differ. *)
Definition h_step (hh : Z -> Z -> Z) (sd : Z -> Z) (p : Z) (s : Z -> hll) (o : h_op) : (Z -> hll) * h_obs :=
  match o with
  | HAdd sl x c => let '(st, r) := h_add (hh (sd sl)) p (s sl) x c in (upd s sl st, h_view p st r)
  | HMerge ds sr =>
      if sd ds =? sd sr
      then let st := h_merge p (s ds) (s sr) in (upd s ds st, h_view p st false)
      else (s, h_view p (s ds) true)
  end.
Fixpoint h_runops (hh : Z -> Z -> Z) (sd : Z -> Z) (p : Z) (s : Z -> hll) (ops : list h_op) : list h_obs :=
  match ops with
  | [] => []
  | o :: r => let '(s', ob) := h_step hh sd p s o in ob :: h_runops hh sd p s' r
  end.
(** case = (precision, slot seeds, digest table keyed by (seed, item), schedule, observations) *)
Definition ok_hll (c : Z * list (Z * Z) * list (Z * Z * Z) * list h_op * list h_obs) : bool :=
  let '(p, seeds, t, ops, obs) := c in
  list_eqb h_obs_eqb (h_runops (tbl1 t) (zget' seeds) p (fun _ => hll_empty) ops) obs.

(* ------------------------------------------------------------------ *)
(** * TopK, space-saving (topk.py) *)

(** [_counters]: dict item -> (count, error) in insertion order. *)
Definition tk_entry := (Z * (Z * Z))%type.     (* item, (count, error) *)
Record topk := { t_cnt : list tk_entry; t_total : Z }.
Definition topk_empty : topk := {| t_cnt := []; t_total := 0 |}.

Definition e_count (e : tk_entry) : Z := fst (snd e).
Definition e_error (e : tk_entry) : Z := snd (snd e).

Fixpoint tk_find (x : Z) (l : list tk_entry) : option (Z * Z) :=
  match l with
  | [] => None
  | (y, ce) :: r => if y =? x then Some ce else tk_find x r
  end.
(** [self._counters[item].count += count] (position in the dict unchanged). *)
Fixpoint tk_incr (x c : Z) (l : list tk_entry) : list tk_entry :=
  match l with
  | [] => []
  | (y, (n, e)) :: r => if y =? x then (y, (n + c, e)) :: r else (y, (n, e)) :: tk_incr x c r
  end.
(** [min(values, key=count)]: the first minimal entry in insertion order. *)
Fixpoint tk_min (l : list tk_entry) : option tk_entry :=
  match l with
  | [] => None
  | e :: r =>
      match tk_min r with
      | None => Some e
      | Some e' => if e_count e' <? e_count e then Some e' else Some e
      end
  end.
Fixpoint tk_del (x : Z) (l : list tk_entry) : list tk_entry :=
  match l with
  | [] => []
  | (y, ce) :: r => if y =? x then r else (y, ce) :: tk_del x r
  end.

Definition tk_add (k : Z) (st : topk) (x c : Z) : topk * bool :=
  if c <? 0 then (st, true)
  else if c =? 0 then (st, false)
  else
    let tot := t_total st + c in
    match tk_find x (t_cnt st) with
    | Some _ => ({| t_cnt := tk_incr x c (t_cnt st); t_total := tot |}, false)
    | None =>
        if Z.of_nat (length (t_cnt st)) <? k
        then ({| t_cnt := t_cnt st ++ [(x, (c, 0))]; t_total := tot |}, false)
        else
          match tk_min (t_cnt st) with
          | None => (* k <= 0 cannot happen (constructor) *) ({| t_cnt := [(x, (c, 0))]; t_total := tot |}, false)
          | Some (y, (mn, _)) =>
              ({| t_cnt := tk_del y (t_cnt st) ++ [(x, (mn + c, mn))]; t_total := tot |}, false)
          end
    end.

Definition tk_sketch (k : Z) (s : list (Z * Z)) (st : topk) : topk :=
  fold_left (fun st xc => fst (tk_add k st (fst xc) (snd xc))) s st.

Definition tk_estimate (st : topk) (x : Z) : Z :=
  match tk_find x (t_cnt st) with Some (n, _) => n | None => 0 end.
(** [max_error()] *)
Definition tk_max_error (st : topk) : Z :=
  match tk_min (t_cnt st) with Some e => e_count e | None => 0 end.
(** [estimate_with_error(item)] -> (count, error) *)
Definition tk_est_err (st : topk) (x : Z) : Z * Z :=
  match tk_find x (t_cnt st) with Some ce => ce | None => (0, tk_max_error st) end.
Definition tk_threshold (k : Z) (st : topk) : Z := t_total st / k.

(** [merge(other)] as written (the add() path evicts; errors are summed). *)
Definition tk_merge_one (k : Z) (st : topk) (e : tk_entry) : topk :=
  let '(x, (n, er)) := e in
  match tk_find x (t_cnt st) with
  | Some _ =>
      {| t_cnt := map (fun e' => if fst e' =? x then (x, (e_count e' + n, e_error e' + er)) else e') (t_cnt st);
         t_total := t_total st |}
  | None =>
      let st' := fst (tk_add k st x n) in
      {| t_cnt := map (fun e' => if fst e' =? x then (x, (e_count e', e_error e' + er)) else e') (t_cnt st');
         t_total := t_total st' |}
  end.
Definition tk_merge (k : Z) (a b : topk) : topk :=
  let tracked := map fst (t_cnt a) in
  let st := fold_left (tk_merge_one k) (t_cnt b) a in
  let added := fold_left Z.add
      (map (fun e => if existsb (Z.eqb (fst e)) tracked then 0 else e_count e) (t_cnt b)) 0 in
  {| t_cnt := t_cnt st; t_total := t_total st + (t_total b - added) |}.

Inductive t_op :=
| TAdd (slot x c : Z)
| TMerge (dst src : Z)
| TEst (slot x : Z).
(** observation: counters in dict order, total, raised, (estimate, error), max_error, threshold *)
Definition t_obs := (list tk_entry * Z * bool * (Z * Z) * Z * Z)%type.
Definition entry_eqb (a b : tk_entry) : bool :=
  (fst a =? fst b) && (e_count a =? e_count b) && (e_error a =? e_error b).
Definition t_view (k : Z) (st : topk) (raised : bool) (ee : Z * Z) : t_obs :=
  (t_cnt st, t_total st, raised, ee, tk_max_error st, tk_threshold k st).
Definition t_obs_eqb (a b : t_obs) : bool :=
  let '(a1, a2, a3, a4, a5, a6) := a in let '(b1, b2, b3, b4, b5, b6) := b in
  list_eqb entry_eqb a1 b1 && (a2 =? b2) && Bool.eqb a3 b3 &&
  (fst a4 =? fst b4) && (snd a4 =? snd b4) && (a5 =? b5) && (a6 =? b6).
Definition t_step (k : Z) (s : Z -> topk) (o : t_op) : (Z -> topk) * t_obs :=
  match o with
  | TAdd sl x c => let '(st, r) := tk_add k (s sl) x c in (upd s sl st, t_view k st r (0, 0))
  | TMerge ds sr => let st := tk_merge k (s ds) (s sr) in (upd s ds st, t_view k st false (0, 0))
  | TEst sl x => (s, t_view k (s sl) false (tk_est_err (s sl) x))
  end.
Fixpoint t_runops (k : Z) (s : Z -> topk) (ops : list t_op) : list t_obs :=
  match ops with
  | [] => []
  | o :: r => let '(s', ob) := t_step k s o in ob :: t_runops k s' r
  end.
Definition ok_topk (c : Z * list t_op * list t_obs) : bool :=
  let '(k, ops, obs) := c in
  list_eqb t_obs_eqb (t_runops k (fun _ => topk_empty) ops) obs.

(* ------------------------------------------------------------------ *)
(** * Reservoir sampler (reservoir.py) *)

(** The RNG is an oracle: a list of draws consumed in call order
    ([randint] results; for [random()] the numerator of the float over 2^53).
    A missing draw reads as 0. *)
Record resv := { r_items : list Z; r_total : Z }.
Definition resv_empty : resv := {| r_items := []; r_total := 0 |}.

Definition draw (ds : list Z) : Z * list Z :=
  match ds with [] => (0, []) | d :: r => (d, r) end.

Fixpoint set_nth (n : nat) (x : Z) (l : list Z) : list Z :=
  match l, n with
  | [], _ => []
  | _ :: r, O => x :: r
  | a :: r, S n' => a :: set_nth n' x r
  end.

(** [_add_one] *)
Definition r_add_one (k : Z) (st : resv * list Z) (x : Z) : resv * list Z :=
  let '(s, ds) := st in
  let tot := r_total s + 1 in
  if Z.of_nat (length (r_items s)) <? k
  then ({| r_items := r_items s ++ [x]; r_total := tot |}, ds)
  else
    let '(j, ds') := draw ds in          (* randint(0, total - 1) *)
    ({| r_items := if j <? k then set_nth (Z.to_nat j) x (r_items s) else r_items s;
        r_total := tot |}, ds').

(** [add(item, count)]; boolean = raised ValueError *)
Definition r_add (k : Z) (st : resv * list Z) (x c : Z) : resv * list Z * bool :=
  if c <? 0 then (st, true)
  else (fold_left (fun st _ => r_add_one k st x) (repeat tt (Z.to_nat c)) st, false).

Definition two53 : Z := 9007199254740992.

(** One iteration of the loop in [merge]: [random() < n1 / (n1 + n2)] decided
    exactly on the float's numerator, then [randint(0, len - 1)]. *)
Definition r_pick (a b : resv) (acc : list Z * list Z) : list Z * list Z :=
  let '(new, ds) := acc in
  let '(u, ds1) := draw ds in
  if u * (r_total a + r_total b) <? r_total a * two53
  then match r_items a with
       | [] => (new, ds1)
       | h :: _ => let '(i, ds2) := draw ds1 in (new ++ [nth (Z.to_nat i) (r_items a) h], ds2)
       end
  else match r_items b with
       | [] => (new, ds1)
       | h :: _ => let '(i, ds2) := draw ds1 in (new ++ [nth (Z.to_nat i) (r_items b) h], ds2)
       end.

Definition r_merge (k : Z) (a b : resv) (ds : list Z) : resv * list Z :=
  let comb := r_total a + r_total b in
  if comb =? 0 then (a, ds)
  else
    let '(new, ds') :=
      fold_left (fun acc _ => r_pick a b acc) (repeat tt (Z.to_nat (Z.min k comb))) ([], ds) in
    ({| r_items := firstn (Z.to_nat k) new; r_total := comb |}, ds').

Definition r_stream (k : Z) (s : list (Z * Z)) (st : resv * list Z) : resv * list Z :=
  fold_left (fun st xc => fst (r_add k st (fst xc) (snd xc))) s st.

Inductive r_op :=
| RAdd (slot x c : Z) (draws : list Z)     (* the draws the implementation made during this call *)
| RMerge (dst src : Z) (draws : list Z).
Definition r_obs := (list Z * Z * bool)%type.
Definition r_obs_eqb (a b : r_obs) : bool :=
  let '(a1, a2, a3) := a in let '(b1, b2, b3) := b in
  list_eqb Z.eqb a1 b1 && (a2 =? b2) && Bool.eqb a3 b3.
Definition r_step (k : Z) (s : Z -> resv) (o : r_op) : (Z -> resv) * r_obs :=
  match o with
  | RAdd sl x c ds =>
      let '(st, rest, raised) := r_add k (s sl, ds) x c in
      (* every recorded draw must have been consumed: [rest = []] is part of the comparison *)
      (upd s sl st, (r_items st ++ rest, r_total st, raised))
  | RMerge d sr ds =>
      let '(st, rest) := r_merge k (s d) (s sr) ds in
      (upd s d st, (r_items st ++ rest, r_total st, false))
  end.
Fixpoint r_runops (k : Z) (s : Z -> resv) (ops : list r_op) : list r_obs :=
  match ops with
  | [] => []
  | o :: r => let '(s', ob) := r_step k s o in ob :: r_runops k s' r
  end.
Definition ok_reservoir (c : Z * list r_op * list r_obs) : bool :=
  let '(k, ops, obs) := c in
  list_eqb r_obs_eqb (r_runops k (fun _ => resv_empty) ops) obs.

(* ------------------------------------------------------------------ *)
(** * Merkle tree (merkle_tree.py) *)

(** Keys are [Z] with the order of the Python string keys; values [Z].  Node
    hashes and key ranges are recomputed from the tree (the implementation
    stores them at construction; MerkleNode is frozen). *)
Inductive mtree := MLeaf (k v : Z) | MNode (l r : mtree).

Section MerkleModel.
Context {H : Type}.
Variable hl : Z -> Z -> H.           (* _hash_leaf(key, value) *)
Variable hc : H -> H -> H.           (* _hash_children(left, right) *)
Variable heq : H -> H -> bool.       (* == on hex digests *)

Fixpoint m_hash (t : mtree) : H :=
  match t with MLeaf k v => hl k v | MNode l r => hc (m_hash l) (m_hash r) end.
Fixpoint m_start (t : mtree) : Z := match t with MLeaf k _ => k | MNode l _ => m_start l end.
Fixpoint m_end (t : mtree) : Z := match t with MLeaf k _ => k | MNode _ r => m_end r end.

(** [_diff_nodes] *)
Fixpoint m_diff (a b : mtree) {struct a} : list (Z * Z) :=
  if heq (m_hash a) (m_hash b) then []
  else
    match a, b with
    | MNode al ar, MNode bl br => m_diff al bl ++ m_diff ar br
    | _, _ => [(Z.min (m_start a) (m_start b), Z.max (m_end a) (m_end b))]
    end.

(** [MerkleTree.diff] (roots may be None = empty tree) *)
Definition mt_diff (a b : option mtree) : list (Z * Z) :=
  match a, b with
  | None, None => []
  | None, Some tb => [(m_start tb, m_end tb)]
  | Some ta, None => [(m_start ta, m_end ta)]
  | Some ta, Some tb => if heq (m_hash ta) (m_hash tb) then [] else m_diff ta tb
  end.
End MerkleModel.

(** [_build_tree(sorted_items)]: halving; [fuel] bounds the recursion depth. *)
Fixpoint m_build (fuel : nat) (items : list (Z * Z)) : option mtree :=
  match fuel with
  | O => None
  | S f =>
      match items with
      | [] => None
      | [(k, v)] => Some (MLeaf k v)
      | _ =>
          let mid := Nat.div (length items) 2 in
          match m_build f (firstn mid items), m_build f (skipn mid items) with
          | Some l, Some r => Some (MNode l r)
          | _, _ => None
          end
      end
  end.
Definition m_of (items : list (Z * Z)) : option mtree := m_build (length items) items.

(** dict operations + sorted(items) *)
Fixpoint d_set (k v : Z) (d : list (Z * Z)) : list (Z * Z) :=
  match d with
  | [] => [(k, v)]
  | (k', v') :: r => if k' =? k then (k, v) :: r else (k', v') :: d_set k v r
  end.
Fixpoint d_del (k : Z) (d : list (Z * Z)) : list (Z * Z) :=
  match d with
  | [] => []
  | (k', v') :: r => if k' =? k then r else (k', v') :: d_del k r
  end.
Fixpoint d_get (k : Z) (d : list (Z * Z)) : option Z :=
  match d with
  | [] => None
  | (k', v') :: r => if k' =? k then Some v' else d_get k r
  end.
Fixpoint m_insert (e : Z * Z) (l : list (Z * Z)) : list (Z * Z) :=
  match l with
  | [] => [e]
  | a :: r => if fst e <? fst a then e :: l else a :: m_insert e r
  end.
Definition m_sort (d : list (Z * Z)) : list (Z * Z) := fold_right m_insert [] d.
Definition m_tree (d : list (Z * Z)) : option mtree := m_of (m_sort d).

(** Ideal (collision-free) hash for running the model: the subtree itself. *)
Fixpoint mtree_eqb (a b : mtree) : bool :=
  match a, b with
  | MLeaf k v, MLeaf k' v' => (k =? k') && (v =? v')
  | MNode l r, MNode l' r' => mtree_eqb l l' && mtree_eqb r r'
  | _, _ => false
  end.
Definition mi_diff := mt_diff MLeaf MNode mtree_eqb.

Inductive m_op :=
| MBuild (t : Z) (d : list (Z * Z))
| MUpdate (t k v : Z)
| MRemove (t k : Z)
| MDiff (a b : Z).
(** observation: sorted items of the touched tree, diff ranges, root hashes equal *)
Definition m_obs := (list (Z * Z) * list (Z * Z) * bool)%type.
Definition pairs_eqb := list_eqb (fun a b : Z * Z => (fst a =? fst b) && (snd a =? snd b)).
Definition m_obs_eqb (a b : m_obs) : bool :=
  let '(a1, a2, a3) := a in let '(b1, b2, b3) := b in
  pairs_eqb a1 b1 && pairs_eqb a2 b2 && Bool.eqb a3 b3.
Definition root_eqb (a b : option mtree) : bool :=
  match a, b with
  | None, None => true
  | Some x, Some y => mtree_eqb x y
  | _, _ => false
  end.
Definition m_step (s : Z -> list (Z * Z)) (o : m_op) : (Z -> list (Z * Z)) * m_obs :=
  match o with
  | MBuild t d => (upd s t d, (m_sort d, [], false))
  | MUpdate t k v => let d := d_set k v (s t) in (upd s t d, (m_sort d, [], false))
  | MRemove t k => let d := d_del k (s t) in (upd s t d, (m_sort d, [], false))
  | MDiff a b =>
      (s, (m_sort (s a), mi_diff (m_tree (s a)) (m_tree (s b)), root_eqb (m_tree (s a)) (m_tree (s b))))
  end.
Fixpoint m_runops (s : Z -> list (Z * Z)) (ops : list m_op) : list m_obs :=
  match ops with
  | [] => []
  | o :: r => let '(s', ob) := m_step s o in ob :: m_runops s' r
  end.
Definition ok_merkle (c : list m_op * list m_obs) : bool :=
  let '(ops, obs) := c in list_eqb m_obs_eqb (m_runops (fun _ => []) ops) obs.

(* ------------------------------------------------------------------ *)
(** * T-Digest (tdigest.py), parametric in the arithmetic *)

(** The same definitions are instantiated with binary64 ([PrimFloat], the
    arithmetic the implementation runs on; used by the correspondence check and
    by the refutation witnesses) and with exact rationals (the [_partial]
    theorems). *)
Record arith := {
  num : Type;
  a_add : num -> num -> num;
  a_sub : num -> num -> num;
  a_mul : num -> num -> num;
  a_div : num -> num -> num;
  a_ofZ : Z -> num;                 (* float(int) *)
  a_ltb : num -> num -> bool;
  a_leb : num -> num -> bool;
  a_eqb : num -> num -> bool;
}.

Section TDigest.
Variable A : arith.
Notation "x +! y" := (a_add A x y) (at level 50, left associativity).
Notation "x -! y" := (a_sub A x y) (at level 50, left associativity).
Notation "x *! y" := (a_mul A x y) (at level 40, left associativity).
Notation "x /! y" := (a_div A x y) (at level 40, left associativity).
Notation ofZ := (a_ofZ A).
Notation T := (num A).
(** [_max_size(q)] given [_total_count] (uses sqrt and pi: an input here). *)
Variable msz : Z -> T -> T.
Variable bufsize : Z.                (* int(compression * 2) *)

Definition cent := (T * Z)%type.   (* mean, count *)
Record tdig := {
  td_cs : list cent; td_total : Z; td_min : option T; td_max : option T; td_buf : list T
}.
Definition td_empty : tdig := {| td_cs := []; td_total := 0; td_min := None; td_max := None; td_buf := [] |}.

(** list.sort / sort(key=mean): stable insertion sort *)
Fixpoint ins_by {X} (key : X -> T) (x : X) (l : list X) : list X :=
  match l with
  | [] => [x]
  | y :: r => if a_ltb A (key x) (key y) then x :: l else y :: ins_by key x r
  end.
Definition sort_by {X} (key : X -> T) (l : list X) : list X :=
  fold_left (fun acc x => ins_by key x acc) l [].

(** [_Centroid.merge] *)
Definition c_merge2 (a b : cent) : cent :=
  let tot := snd a + snd b in
  ((fst a *! ofZ (snd a) +! fst b *! ofZ (snd b)) /! ofZ tot, tot).

(** the loop of [_compress]; [acc] is [compressed] reversed *)
Fixpoint td_cloop (total : Z) (acc : list cent) (running : Z) (cs : list cent) : list cent :=
  match cs with
  | [] => rev acc
  | c :: rest =>
      match acc with
      | [] => td_cloop total [c] (snd c) rest
      | last :: acc' =>
          let q := (ofZ running +! ofZ (snd c) /! ofZ 2) /! ofZ total in
          if a_leb A (ofZ (snd last + snd c)) (msz total q)
          then td_cloop total (c_merge2 last c :: acc') (running + snd c) rest
          else td_cloop total (c :: acc) (running + snd c) rest
      end
  end.
Definition td_compress (total : Z) (cs : list cent) : list cent :=
  match cs with
  | [] | [_] => cs
  | _ => td_cloop total [] 0 (sort_by fst cs)
  end.

Definition td_flush (s : tdig) : tdig :=
  match td_buf s with
  | [] => s
  | _ =>
      let cs := td_cs s ++ map (fun v => (v, 1)) (sort_by (fun v => v) (td_buf s)) in
      {| td_cs := td_compress (td_total s) cs; td_total := td_total s;
         td_min := td_min s; td_max := td_max s; td_buf := [] |}
  end.

Definition opt_min (o : option T) (v : T) : option T :=
  match o with None => Some v | Some m => if a_ltb A v m then Some v else Some m end.
Definition opt_max (o : option T) (v : T) : option T :=
  match o with None => Some v | Some m => if a_ltb A m v then Some v else Some m end.

Definition td_add (s : tdig) (v : T) (c : Z) : tdig * bool :=
  if c <? 0 then (s, true)
  else if c =? 0 then (s, false)
  else
    let s1 := {| td_cs := td_cs s; td_total := td_total s + c; td_min := opt_min (td_min s) v;
                 td_max := opt_max (td_max s) v; td_buf := td_buf s ++ repeat v (Z.to_nat c) |} in
    (if bufsize <=? Z.of_nat (length (td_buf s1)) then td_flush s1 else s1, false).

(** the centroid walk of [quantile] *)
Fixpoint td_walk (mn mx : T) (total : Z) (target : T) (prev : option T) (running : T)
    (cs : list cent) : T :=
  match cs with
  | [] => match prev with Some m => m | None => mn end     (* fallback: last centroid's mean *)
  | (m, c) :: rest =>
      let right := match rest with [] => ofZ total | _ => running +! ofZ c end in
      if a_leb A running target && a_leb A target right then
        match prev with
        | None =>
            if a_ltb A target (ofZ c /! ofZ 2)
            then mn +! (target /! (ofZ c /! ofZ 2)) *! (m -! mn)
            else m
        | Some pm =>
            match rest with
            | [] =>
                let remaining := ofZ total -! running in
                if a_ltb A (running +! remaining /! ofZ 2) target
                then m +! ((target -! running -! remaining /! ofZ 2) /! (remaining /! ofZ 2)) *! (mx -! m)
                else m
            | _ =>
                let t := (target -! running) /! ofZ c in
                if a_ltb A t (ofZ 1 /! ofZ 2)
                then pm +! (m -! pm) *! (ofZ 1 /! ofZ 2 +! t)
                else m
            end
        end
      else td_walk mn mx total target (Some m) (running +! ofZ c) rest
  end.

(** [quantile(q)]: flushes; None = raised ValueError *)
Definition td_quantile (s : tdig) (q : T) : tdig * option T :=
  if negb (a_leb A (ofZ 0) q && a_leb A q (ofZ 1)) then (s, None)
  else
    let s1 := td_flush s in
    match td_cs s1, td_min s1, td_max s1 with
    | [], _, _ => (s1, None)
    | _, Some mn, Some mx =>
        if a_eqb A q (ofZ 0) then (s1, Some mn)
        else if a_eqb A q (ofZ 1) then (s1, Some mx)
        else (s1, Some (td_walk mn mx (td_total s1) (q *! ofZ (td_total s1)) None (ofZ 0) (td_cs s1)))
    | _, _, _ => (s1, None)
    end.

(** [merge(other)]: flushes BOTH digests; returns (self', other') *)
Definition td_merge (a b : tdig) : tdig * tdig :=
  let a1 := td_flush a in
  let b1 := td_flush b in
  let mn := match td_min b1 with Some v => opt_min (td_min a1) v | None => td_min a1 end in
  let mx := match td_max b1 with Some v => opt_max (td_max a1) v | None => td_max a1 end in
  let tot := td_total a1 + td_total b1 in
  ({| td_cs := td_compress tot (td_cs a1 ++ td_cs b1); td_total := tot; td_min := mn; td_max := mx; td_buf := [] |}, b1).

Inductive td_op :=
| DAdd (slot : Z) (v : T) (c : Z)
| DQuantile (slot : Z) (q : T)
| DMerge (dst src : Z).
(** observation: centroids, total, min, max, buffer, raised, quantile value *)
Definition td_obs := (list cent * Z * option T * option T * list T * bool * option T)%type.
Definition td_view (s : tdig) (raised : bool) (v : option T) : td_obs :=
  (td_cs s, td_total s, td_min s, td_max s, td_buf s, raised, v).
Definition td_step (s : Z -> tdig) (o : td_op) : (Z -> tdig) * td_obs :=
  match o with
  | DAdd sl v c => let '(st, r) := td_add (s sl) v c in (upd s sl st, td_view st r None)
  | DQuantile sl q =>
      let '(st, v) := td_quantile (s sl) q in
      (upd s sl st, td_view st (match v with None => true | _ => false end) v)
  | DMerge d sr =>
      if d =? sr then
        (* merge(self): both aliases are the same object *)
        let '(a', _) := td_merge (s d) (s d) in (upd s d a', td_view a' false None)
      else
        let '(a', b') := td_merge (s d) (s sr) in (upd (upd s sr b') d a', td_view a' false None)
  end.
Fixpoint td_runops (s : Z -> tdig) (ops : list td_op) : list td_obs :=
  match ops with
  | [] => []
  | o :: r => let '(s', ob) := td_step s o in ob :: td_runops s' r
  end.
End TDigest.
Arguments td_cs {A}. Arguments td_total {A}. Arguments td_min {A}. Arguments td_max {A}. Arguments td_buf {A}.

(** ** binary64 instance *)
From Coq Require Import Floats.
Definition f_ofZ (z : Z) : float :=
  if z <? 0 then PrimFloat.opp (PrimFloat.of_uint63 (Uint63.of_Z (- z)))
  else PrimFloat.of_uint63 (Uint63.of_Z z).
Definition FA : arith := {|
  num := float; a_add := PrimFloat.add; a_sub := PrimFloat.sub; a_mul := PrimFloat.mul;
  a_div := PrimFloat.div; a_ofZ := f_ofZ; a_ltb := PrimFloat.ltb; a_leb := PrimFloat.leb;
  a_eqb := PrimFloat.eqb |}.

(** [_max_size]: total*4 / (compression * pi * sqrt(q*(1-q))), q clamped to
    [0.0001, 0.9999] by max(0.0001, min(0.9999, q)). *)
Definition f_msz (comp : float) (total : Z) (q : float) : float :=
  let hi := 0x1.fff2e48e8a71ep-1%float in
  let lo := 0x1.a36e2eb1c432dp-14%float in
  let q1 := if PrimFloat.ltb q hi then q else hi in
  let q2 := if PrimFloat.ltb lo q1 then q1 else lo in
  PrimFloat.div (f_ofZ (total * 4))
    (PrimFloat.mul (PrimFloat.mul comp 0x1.921fb54442d18p+1%float)
       (PrimFloat.sqrt (PrimFloat.mul q2 (PrimFloat.sub 1%float q2)))).

Definition feqb (a b : float) : bool :=
  PrimFloat.eqb a b || (negb (PrimFloat.eqb a a) && negb (PrimFloat.eqb b b)).
Definition fopt_eqb := option_eqb feqb.
Definition fcent_eqb (a b : float * Z) : bool := feqb (fst a) (fst b) && (snd a =? snd b).
Definition ftd_obs_eqb (a b : td_obs FA) : bool :=
  let '(a1, a2, a3, a4, a5, a6, a7) := a in let '(b1, b2, b3, b4, b5, b6, b7) := b in
  list_eqb fcent_eqb a1 b1 && (a2 =? b2) && fopt_eqb a3 b3 && fopt_eqb a4 b4 &&
  list_eqb feqb a5 b5 && Bool.eqb a6 b6 && fopt_eqb a7 b7.
(** case = (compression, buffer size, schedule, observations) *)
Definition ok_tdigest (c : float * Z * list (td_op FA) * list (td_obs FA)) : bool :=
  let '(comp, bs, ops, obs) := c in
  list_eqb ftd_obs_eqb (td_runops FA (f_msz comp) bs (fun _ => td_empty FA) ops) obs.

(* ------------------------------------------------------------------ *)
(** * Collector entities (components/sketching): per-handler trace replay *)

(** [handle_event]: value = value_extractor(event); if value is not None the
    sketch gets add(value[, count=weight]); events_processed += 1; returns [].
    An input is (extracted value, extracted weight or None when the collector
    has no weight extractor). *)
Definition opt_weight (w : option Z) : Z := match w with Some c => c | None => 1 end.

Fixpoint col_topk_run (k : Z) (st : topk) (n : Z) (tr : list (option Z * option Z))
    : list (list tk_entry * Z * Z) :=
  match tr with
  | [] => []
  | (v, w) :: r =>
      let st' := match v with None => st | Some x => fst (tk_add k st x (opt_weight w)) end in
      (t_cnt st', t_total st', n + 1) :: col_topk_run k st' (n + 1) r
  end.

Fixpoint col_cms_run (hc : Z -> Z -> Z) (w d : Z) (st : cms) (n : Z) (tr : list (option Z * option Z))
    : list (list (list Z) * Z * Z) :=
  match tr with
  | [] => []
  | (v, wt) :: r =>
      let st' := match v with None => st | Some x => fst (c_add hc w d st x (opt_weight wt)) end in
      (map (fun r => map (fun col => c_cnt st' r col) (zrange w)) (zrange d), c_total st', n + 1)
        :: col_cms_run hc w d st' (n + 1) r
  end.

Fixpoint col_td_run (comp : float) (bs : Z) (st : tdig FA) (n : Z) (tr : list (option float))
    : list (td_obs FA * Z) :=
  match tr with
  | [] => []
  | v :: r =>
      let st' := match v with None => st | Some x => fst (td_add FA (f_msz comp) bs st x 1) end in
      (td_view FA st' false None, n + 1) :: col_td_run comp bs st' (n + 1) r
  end.

Definition col_tk_obs_eqb (a b : list tk_entry * Z * Z) : bool :=
  let '(a1, a2, a3) := a in let '(b1, b2, b3) := b in list_eqb entry_eqb a1 b1 && (a2 =? b2) && (a3 =? b3).
Definition col_cms_obs_eqb (a b : list (list Z) * Z * Z) : bool :=
  let '(a1, a2, a3) := a in let '(b1, b2, b3) := b in list_eqb (list_eqb Z.eqb) a1 b1 && (a2 =? b2) && (a3 =? b3).
Definition col_td_obs_eqb (a b : td_obs FA * Z) : bool := ftd_obs_eqb (fst a) (fst b) && (snd a =? snd b).

(** case = ((k, topk trace, topk observations), (width, depth, table, cms trace, cms observations),
           (compression, buffer size, tdigest trace, tdigest observations)) *)
Definition ok_collectors
  (c : (Z * list (option Z * option Z) * list (list tk_entry * Z * Z)) *
       (Z * Z * list (Z * Z * Z) * list (option Z * option Z) * list (list (list Z) * Z * Z)) *
       (float * Z * list (option float) * list (td_obs FA * Z))) : bool :=
  let '((k, ttr, tobs), (w, d, t, ctr, cobs), (comp, bs, dtr, dobs)) := c in
  list_eqb col_tk_obs_eqb (col_topk_run k topk_empty 0 ttr) tobs &&
  list_eqb col_cms_obs_eqb (col_cms_run (tbl1 t) w d cms_empty 0 ctr) cobs &&
  list_eqb col_td_obs_eqb (col_td_run comp bs (td_empty FA) 0 dtr) dobs.
