(** C20 — TopK (space-saving): count - error <= true <= count for tracked
    items, sum of counts = N, every item with true > N/k is tracked. *)
From HS Require Import Base.Prelude C20.Model C20.Bloom C20.Counting.
Local Open Scope Z_scope.

Definition keys (l : list tk_entry) : list Z := map fst l.
Fixpoint sumc (l : list tk_entry) : Z :=
  match l with [] => 0 | e :: r => e_count e + sumc r end.

(** ** list lemmas *)
Lemma tk_find_some x l ce : tk_find x l = Some ce -> In (x, ce) l.
Proof.
  induction l as [|[y v] l IH]; cbn; [discriminate|].
  destruct (y =? x) eqn:E; intros H.
  - inversion H; subst. left. f_equal. lia.
  - right. auto.
Qed.

Lemma tk_find_none x l : tk_find x l = None -> ~ In x (keys l).
Proof.
  induction l as [|[y v] l IH]; cbn; [tauto|].
  destruct (y =? x) eqn:E; [discriminate|]. intros H [H1|H1]; [lia|]. now apply IH.
Qed.

Lemma tk_find_notin x l : ~ In x (keys l) -> tk_find x l = None.
Proof.
  induction l as [|[y v] l IH]; cbn; [reflexivity|]. intros H.
  destruct (y =? x) eqn:E; [exfalso; apply H; left; lia|]. apply IH. tauto.
Qed.

Lemma in_keys e l : In e l -> In (fst e) (keys l).
Proof. intros H. unfold keys. now apply in_map. Qed.

Lemma tk_min_none l : tk_min l = None -> l = [].
Proof. destruct l as [|e r]; [reflexivity|]. cbn. destruct (tk_min r) as [e'|]; [destruct (_ <? _)|]; discriminate. Qed.

Lemma tk_min_spec l m : tk_min l = Some m ->
  In m l /\ forall e, In e l -> e_count m <= e_count e.
Proof.
  revert m. induction l as [|a r IH]; intros m; cbn; [discriminate|].
  destruct (tk_min r) as [e'|] eqn:E.
  - destruct (IH e' eq_refl) as [Hin Hle].
    destruct (e_count e' <? e_count a) eqn:C; intros H; inversion H; subst; split.
    + now right.
    + intros e [<-|He]; [lia|auto].
    + now left.
    + intros e [<-|He]; [lia|]. specialize (Hle e He). lia.
  - apply tk_min_none in E. subst r. intros H; inversion H; subst. split; [now left|].
    intros e [<-|[]]. lia.
Qed.

Lemma keys_incr x c l : keys (tk_incr x c l) = keys l.
Proof.
  unfold keys. induction l as [|[y [n e]] l IH]; cbn; [reflexivity|].
  destruct (y =? x); cbn; [reflexivity|]. now rewrite IH.
Qed.

Lemma length_incr x c l : length (tk_incr x c l) = length l.
Proof. pose proof (keys_incr x c l) as H. apply (f_equal (@length Z)) in H. unfold keys in H. now rewrite !map_length in H. Qed.

Lemma sumc_incr x c l : In x (keys l) -> sumc (tk_incr x c l) = sumc l + c.
Proof.
  induction l as [|[y [n e]] l IH]; cbn; [tauto|]. intros H.
  destruct (y =? x) eqn:E; cbn; unfold e_count; cbn.
  - fold sumc. lia.
  - destruct H as [H|H]; [lia|]. rewrite (IH H). unfold e_count. lia.
Qed.

(** Each entry of the incremented list comes from an entry of the old list
    with the same key and error and a count that is not larger. *)
Lemma in_incr x c l e' : 0 <= c -> NoDup (keys l) -> In e' (tk_incr x c l) ->
  (fst e' <> x /\ In e' l) \/
  (fst e' = x /\ In (x, (e_count e' - c, e_error e')) l).
Proof.
  intros Hc. induction l as [|[y [n e]] l IH]; cbn; [tauto|]. intros Hnd H.
  inversion Hnd as [|? ? Hy Hnd']; subst.
  destruct (y =? x) eqn:E.
  - assert (y = x) by lia. subst y. destruct H as [<-|H].
    + right. cbn. split; [reflexivity|]. left. unfold e_count, e_error. cbn. do 2 f_equal. lia.
    + left. split; [|now right]. intros <-. apply Hy. now apply in_keys in H.
  - destruct H as [<-|H].
    + left. cbn. split; [lia|now left].
    + destruct (IH Hnd' H) as [[A B]|[A B]]; [left|right]; (split; [exact A|now right]).
Qed.

Lemma del_in y l e : In e (tk_del y l) -> NoDup (keys l) -> In e l /\ (In y (keys l) -> fst e <> y).
Proof.
  induction l as [|[z v] l IH]; cbn; [tauto|]. intros H Hnd.
  inversion Hnd as [|? ? Hz Hnd']; subst.
  destruct (z =? y) eqn:E.
  - assert (z = y) by lia. subst z. split; [now right|]. intros _ <-. apply Hz. now apply in_keys in H.
  - destruct H as [<-|H].
    + split; [now left|]. cbn. lia.
    + destruct (IH H Hnd') as [A B]. split; [now right|]. intros [C|C]; [lia|auto].
Qed.

Lemma del_keys_in y l z : In z (keys l) -> z <> y -> In z (keys (tk_del y l)).
Proof.
  induction l as [|[u v] l IH]; cbn; [tauto|]. intros H Hz.
  destruct (u =? y) eqn:E.
  - destruct H as [H|H]; [lia|exact H].
  - cbn. destruct H as [H|H]; [now left|right; auto].
Qed.

Lemma del_nodup y l : NoDup (keys l) -> NoDup (keys (tk_del y l)).
Proof.
  induction l as [|[u v] l IH]; cbn; [auto|]. intros Hnd.
  inversion Hnd as [|? ? Hu Hnd']; subst.
  destruct (u =? y); [exact Hnd'|]. cbn. constructor; [|auto].
  intros H. apply Hu. unfold keys in H. apply in_map_iff in H. destruct H as (e & He & Hin).
  destruct (del_in y l e Hin Hnd') as [A _]. rewrite <- He. now apply in_keys.
Qed.

Lemma del_length_sum y ce l : In (y, ce) l -> NoDup (keys l) ->
  S (length (tk_del y l)) = length l /\ sumc (tk_del y l) = sumc l - fst ce.
Proof.
  induction l as [|[u v] l IH]; cbn; [tauto|]. intros H Hnd.
  inversion Hnd as [|? ? Hu Hnd']; subst.
  destruct (u =? y) eqn:E.
  - assert (u = y) by lia. subst u. destruct H as [H|H].
    + inversion H; subst. unfold e_count. cbn. split; [reflexivity|lia].
    + exfalso. apply Hu. now apply in_keys in H.
  - destruct H as [H|H]; [inversion H; lia|]. destruct (IH H Hnd') as [A B]. cbn.
    split; [lia|]. rewrite B. lia.
Qed.

Lemma sumc_app a b : sumc (a ++ b) = sumc a + sumc b.
Proof. induction a as [|e a IH]; cbn; [lia|]. rewrite IH. lia. Qed.

Lemma sumc_ge l b : (forall e, In e l -> b <= e_count e) -> Z.of_nat (length l) * b <= sumc l.
Proof.
  induction l as [|e l IH]; intros H; cbn [length sumc]; [lia|].
  pose proof (H e (or_introl eq_refl)). assert (Z.of_nat (length l) * b <= sumc l) by (apply IH; intros; apply H; now right).
  lia.
Qed.

Lemma NoDup_app_single (l : list Z) x : NoDup l -> ~ In x l -> NoDup (l ++ [x]).
Proof.
  induction l as [|a l IH]; cbn; intros Hnd Hx.
  - constructor; [tauto|constructor].
  - inversion Hnd; subst. constructor.
    + rewrite in_app_iff. cbn. intros [H|[H|[]]]; [tauto|]. apply Hx. now left.
    + apply IH; tauto.
Qed.

(** ** the invariant *)
Section TopK.
Variable k : Z.
Hypothesis Hk : 0 < k.

(** Lower bound known for the true count of untracked items. *)
Definition floor (l : list tk_entry) : Z :=
  if Z.of_nat (length l) <? k then 0
  else match tk_min l with Some m => e_count m | None => 0 end.

Definition good (T : Z -> Z) (e : tk_entry) : Prop :=
  0 <= e_error e /\ e_count e - e_error e <= T (fst e) <= e_count e.

Record inv (st : topk) (T : Z -> Z) (N : Z) : Prop := {
  i_nonneg : forall y, 0 <= T y;
  i_nodup : NoDup (keys (t_cnt st));
  i_len : Z.of_nat (length (t_cnt st)) <= k;
  i_good : forall e, In e (t_cnt st) -> good T e;
  i_sum : sumc (t_cnt st) = N;
  i_total : t_total st = N;
  i_untracked : forall y, ~ In y (keys (t_cnt st)) -> T y <= floor (t_cnt st)
}.

Lemma inv_ext st T T' N : (forall y, T y = T' y) -> inv st T N -> inv st T' N.
Proof.
  intros E [A B C D F G H]. split; auto.
  - intros y. rewrite <- E. auto.
  - intros e He. destruct (D e He) as [D1 D2]. split; [auto|]. now rewrite <- E.
  - intros y Hy. rewrite <- E. auto.
Qed.

Lemma floor_nonneg l : (forall e, In e l -> 0 <= e_count e) -> 0 <= floor l.
Proof.
  intros H. unfold floor. destruct (_ <? _); [lia|].
  destruct (tk_min l) as [m|] eqn:E; [|lia]. apply tk_min_spec in E. apply H. tauto.
Qed.

Lemma floor_ge l b : k <= Z.of_nat (length l) -> (forall e, In e l -> b <= e_count e) -> b <= floor l.
Proof.
  intros Hl H. unfold floor. replace (_ <? _) with false by lia.
  destruct (tk_min l) as [m|] eqn:E.
  - apply tk_min_spec in E. apply H. tauto.
  - apply tk_min_none in E. subst. cbn in Hl. lia.
Qed.


Lemma good_count_nonneg T e : (forall y, 0 <= T y) -> good T e -> 0 <= e_count e.
Proof. intros HT [_ [_ H]]. specialize (HT (fst e)). lia. Qed.

Definition bump (T : Z -> Z) (x c : Z) : Z -> Z := fun y => T y + (if y =? x then c else 0).

Lemma step_inv st T N x c : 0 < c -> inv st T N ->
  inv (fst (tk_add k st x c)) (bump T x c) (N + c).
Proof.
  intros Hc [Hnn Hnd Hlen Hgood Hsum Htot Hun].
  assert (Hcnt : forall e, In e (t_cnt st) -> 0 <= e_count e).
  { intros e He. eapply good_count_nonneg; eauto. }
  unfold tk_add. replace (c <? 0) with false by lia. replace (c =? 0) with false by lia.
  destruct (tk_find x (t_cnt st)) as [[n er]|] eqn:F.
  - (* tracked: increment *)
    pose proof (tk_find_some _ _ _ F) as Hin. pose proof (in_keys _ _ Hin) as Hkx. cbn in Hkx.
    cbn [fst]. split; cbn [t_cnt t_total].
    + intros y. unfold bump. specialize (Hnn y). destruct (y =? x); lia.
    + now rewrite keys_incr.
    + now rewrite length_incr.
    + intros e' He'. destruct (in_incr x c _ e' ltac:(lia) Hnd He') as [[A B]|[A B]].
      * destruct (Hgood e' B) as [G1 G2]. split; [exact G1|]. unfold bump.
        replace (fst e' =? x) with false by lia. lia.
      * destruct (Hgood _ B) as [G1 G2]. unfold good, bump, e_count, e_error in *. cbn in *.
        rewrite A, Z.eqb_refl. lia.
    + rewrite sumc_incr by exact Hkx. lia.
    + lia.
    + rewrite keys_incr. intros y Hy. unfold bump.
      replace (y =? x) with false by (destruct (Z.eqb_spec y x); [subst; tauto|reflexivity]).
      specialize (Hun y Hy). rewrite Z.add_0_r.
      unfold floor in *. rewrite length_incr.
      destruct (_ <? k) eqn:L; [exact Hun|].
      destruct (tk_min (t_cnt st)) as [m|] eqn:M.
      2:{ apply tk_min_none in M. rewrite M in Hkx. cbn in Hkx. tauto. }
      destruct (tk_min (tk_incr x c (t_cnt st))) as [m'|] eqn:M'.
      2:{ apply tk_min_none in M'. apply (f_equal (@length _)) in M'. rewrite length_incr in M'.
          rewrite (proj1 (length_zero_iff_nil _) M') in Hkx. cbn in Hkx. tauto. }
      apply tk_min_spec in M, M'. destruct M as [_ Mle], M' as [Min' _].
      destruct (in_incr x c _ m' ltac:(lia) Hnd Min') as [[A B]|[A B]].
      * specialize (Mle _ B). lia.
      * specialize (Mle _ B). unfold e_count in *. cbn in *. lia.
  - (* untracked *)
    pose proof (tk_find_none _ _ F) as Hx.
    assert (HTx : T x <= floor (t_cnt st)) by (apply Hun; exact Hx).
    destruct (Z.of_nat (length (t_cnt st)) <? k) eqn:L.
    + (* room left: append *)
      assert (HTx0 : T x = 0).
      { unfold floor in HTx. rewrite L in HTx. specialize (Hnn x). lia. }
      cbn [fst]. split; cbn [t_cnt t_total].
      * intros y. unfold bump. specialize (Hnn y). destruct (y =? x); lia.
      * unfold keys. rewrite map_app. cbn. apply NoDup_app_single; assumption.
      * rewrite app_length. cbn. lia.
      * intros e He. apply in_app_iff in He. destruct He as [He|[<-|[]]].
        -- destruct (Hgood e He) as [G1 G2]. split; [exact G1|]. unfold bump.
           replace (fst e =? x) with false; [lia|]. symmetry. apply Z.eqb_neq. intros <-.
           apply Hx. now apply in_keys.
        -- unfold good, bump, e_count, e_error. cbn. rewrite Z.eqb_refl. lia.
      * rewrite sumc_app. cbn. unfold e_count. cbn. lia.
      * lia.
      * intros y Hy. unfold keys in Hy. rewrite map_app, in_app_iff in Hy. cbn in Hy.
        unfold bump. replace (y =? x) with false by (destruct (Z.eqb_spec y x); [subst; tauto|reflexivity]).
        rewrite Z.add_0_r. assert (T y <= 0).
        { assert (~ In y (keys (t_cnt st))) as Hy' by tauto. specialize (Hun y Hy'). unfold floor in Hun.
          now rewrite L in Hun. }
        assert (0 <= floor (t_cnt st ++ [(x, (c, 0))])); [|lia].
        apply floor_nonneg. intros e He. apply in_app_iff in He. destruct He as [He|[<-|[]]]; [auto|].
        unfold e_count. cbn. lia.
    + (* full: evict the first minimum *)
      destruct (tk_min (t_cnt st)) as [[y [mn ey]]|] eqn:M.
      2:{ apply tk_min_none in M. rewrite M in L. cbn in L. lia. }
      destruct (tk_min_spec _ _ M) as [Min Mle]. unfold e_count in Mle. cbn in Mle.
      assert (Hfl : floor (t_cnt st) = mn).
      { unfold floor. rewrite L, M. reflexivity. }
      destruct (del_length_sum y (mn, ey) _ Min Hnd) as [Dlen Dsum]. cbn in Dsum.
      assert (Hmn : 0 <= mn) by (apply (Hcnt _ Min)).
      cbn [fst]. split; cbn [t_cnt t_total].
      * intros z. unfold bump. specialize (Hnn z). destruct (z =? x); lia.
      * unfold keys. rewrite map_app. cbn. apply NoDup_app_single; [now apply del_nodup|].
        intros H. apply Hx. unfold keys in H. apply in_map_iff in H. destruct H as (e & He & Hin).
        destruct (del_in y _ e Hin Hnd) as [A _]. rewrite <- He. now apply in_keys.
      * rewrite app_length. cbn [length]. unfold tk_entry in *. lia.
      * intros e He. apply in_app_iff in He. destruct He as [He|[<-|[]]].
        -- destruct (del_in y _ e He Hnd) as [A _]. destruct (Hgood e A) as [G1 G2]. split; [exact G1|].
           unfold bump. replace (fst e =? x) with false; [lia|]. symmetry. apply Z.eqb_neq. intros <-.
           apply Hx. now apply in_keys.
        -- unfold good, bump, e_count, e_error. cbn. rewrite Z.eqb_refl. specialize (Hnn x). lia.
      * rewrite sumc_app. cbn. unfold e_count. cbn. lia.
      * lia.
      * intros z Hz. unfold keys in Hz. rewrite map_app, in_app_iff in Hz. cbn in Hz.
        unfold bump. replace (z =? x) with false by (destruct (Z.eqb_spec z x); [subst; tauto|reflexivity]).
        rewrite Z.add_0_r.
        assert (HTz : T z <= mn).
        { destruct (Z.eq_dec z y) as [->|Hzy].
          - destruct (Hgood _ Min) as [_ G]. unfold e_count in G. cbn in G. lia.
          - rewrite <- Hfl. apply Hun. intros H. apply Hz. left. now apply del_keys_in. }
        assert (mn <= floor (tk_del y (t_cnt st) ++ [(x, (mn + c, mn))])); [|lia].
        apply floor_ge; [rewrite app_length; cbn [length]; unfold tk_entry in *; lia|].
        intros e He. apply in_app_iff in He. destruct He as [He|[<-|[]]].
        -- destruct (del_in y _ e He Hnd) as [A _]. apply (Mle _ A).
        -- unfold e_count. cbn. lia.
Qed.

Lemma add_noop st x c : c <= 0 -> fst (tk_add k st x c) = st.
Proof.
  intros H. unfold tk_add. destruct (c <? 0) eqn:E; [reflexivity|]. replace (c =? 0) with true by lia. reflexivity.
Qed.

Lemma sketch_inv s : forall st T N, inv st T N ->
  inv (tk_sketch k s st) (fun y => T y + true_count y s) (N + stream_total s).
Proof.
  induction s as [|[x c] s IH]; intros st T N H; cbn.
  - rewrite Z.add_0_r. eapply inv_ext; [|exact H]. intros y. lia.
  - unfold tk_sketch in *. cbn [fold_left fst snd].
    destruct (Z_lt_le_dec 0 c) as [Hc|Hc].
    + pose proof (IH _ _ _ (step_inv st T N x c Hc H)) as H'.
      replace (0 <? c) with true by lia.
      replace (N + (c + stream_total s)) with (N + c + stream_total s) by lia.
      eapply inv_ext; [|exact H']. intros y. unfold bump. cbn.
      rewrite (Z.eqb_sym x y). replace (0 <? c) with true by lia. rewrite andb_true_r.
      destruct (y =? x); lia.
    + rewrite add_noop by exact Hc. replace (0 <? c) with false by lia.
      pose proof (IH _ _ _ H) as H'. cbn. eapply inv_ext; [|exact H'].
      intros y. rewrite andb_false_r. lia.
Qed.

Lemma inv_empty : inv topk_empty (fun _ => 0) 0.
Proof.
  split; cbn; try lia; try constructor; try tauto.
  intros y _. unfold floor. cbn. replace (0 <? k) with true by lia. lia.
Qed.

Lemma sketch_inv0 s : inv (tk_sketch k s topk_empty) (fun y => true_count y s) (stream_total s).
Proof.
  pose proof (sketch_inv s _ _ _ inv_empty) as H. cbn in H. exact H.
Qed.

(** ** theorems *)

(** Tracked items: the estimate exceeds the true count by at most the
    reported error (and never underestimates). *)
Theorem topk_tracked_bounds : forall s x n e,
  tk_find x (t_cnt (tk_sketch k s topk_empty)) = Some (n, e) ->
  0 <= e /\ n - e <= true_count x s <= n.
Proof.
  intros s x n e F. apply tk_find_some in F.
  destruct (i_good _ _ _ (sketch_inv0 s) _ F) as [A B]. unfold e_count, e_error in *. cbn in *. lia.
Qed.

Theorem topk_counts_sum_to_N : forall s,
  sumc (t_cnt (tk_sketch k s topk_empty)) = stream_total s /\
  t_total (tk_sketch k s topk_empty) = stream_total s /\
  Z.of_nat (length (t_cnt (tk_sketch k s topk_empty))) <= k.
Proof.
  intros s. pose proof (sketch_inv0 s) as H. repeat split; [apply (i_sum _ _ _ H)|apply (i_total _ _ _ H)|apply (i_len _ _ _ H)].
Qed.

Lemma stream_total_nonneg s : 0 <= stream_total s.
Proof. induction s as [|[x c] s IH]; cbn; [lia|]. destruct (0 <? c) eqn:E; lia. Qed.

Lemma floor_le_threshold s : floor (t_cnt (tk_sketch k s topk_empty)) <= stream_total s / k.
Proof.
  pose proof (sketch_inv0 s) as H. set (st := tk_sketch k s topk_empty) in *.
  unfold floor. destruct (_ <? k) eqn:L.
  - apply Z.div_pos; [apply stream_total_nonneg|lia].
  - destruct (tk_min (t_cnt st)) as [m|] eqn:M.
    + destruct (tk_min_spec _ _ M) as [Min Mle].
      apply Z.div_le_lower_bound; [lia|].
      pose proof (sumc_ge (t_cnt st) (e_count m) Mle) as S. rewrite (i_sum _ _ _ H) in S.
      pose proof (i_len _ _ _ H).
      assert (E : Z.of_nat (length (t_cnt st)) = k) by lia. rewrite E in S. exact S.
    + apply Z.div_pos; [apply stream_total_nonneg|lia].
Qed.

(** Every item more frequent than [guaranteed_threshold()] = N // k is tracked. *)
Theorem topk_heavy_hitters_tracked : forall s x,
  tk_threshold k (tk_sketch k s topk_empty) < true_count x s ->
  exists n e, tk_find x (t_cnt (tk_sketch k s topk_empty)) = Some (n, e).
Proof.
  intros s x Hx. pose proof (sketch_inv0 s) as H.
  destruct (tk_find x _) as [[n e]|] eqn:F; [eauto|]. exfalso.
  apply tk_find_none in F. pose proof (i_untracked _ _ _ H x F) as A. cbn beta in A.
  pose proof (floor_le_threshold s) as B. unfold tk_threshold in Hx. rewrite (i_total _ _ _ H) in Hx. lia.
Qed.

(** [estimate_with_error] for ANY item: the estimate exceeds the true count by
    at most the reported error; tracked items are never underestimated; the
    true count of an untracked item is at most the reported error. *)
Theorem topk_estimate_with_error : forall s x,
  let st := tk_sketch k s topk_empty in
  let n := fst (tk_est_err st x) in
  let e := snd (tk_est_err st x) in
  (n - e <= true_count x s) /\
  (tk_find x (t_cnt st) <> None -> true_count x s <= n) /\
  (tk_find x (t_cnt st) = None -> n = 0 /\ true_count x s <= e).
Proof.
  intros s x st. pose proof (sketch_inv0 s) as H. fold st in H. unfold tk_est_err.
  destruct (tk_find x (t_cnt st)) as [[n e]|] eqn:F; cbn [fst snd].
  - destruct (topk_tracked_bounds s x n e F) as [A B]. repeat split; try lia; intros; discriminate.
  - pose proof (i_nonneg _ _ _ H x) as Hn. cbn in Hn.
    assert (Hm : 0 <= tk_max_error st /\ floor (t_cnt st) <= tk_max_error st).
    { unfold tk_max_error, floor. destruct (tk_min (t_cnt st)) as [m|] eqn:M.
      - destruct (tk_min_spec _ _ M) as [Min _].
        assert (0 <= e_count m) by (eapply good_count_nonneg; [apply (i_nonneg _ _ _ H)|apply (i_good _ _ _ H _ Min)]).
        destruct (_ <? k); lia.
      - destruct (_ <? k); lia. }
    apply tk_find_none in F. pose proof (i_untracked _ _ _ H x F) as U. cbn beta in U. repeat split; try lia; congruence.
Qed.

End TopK.

(** Hypotheses satisfiable: a heavy hitter above N // k, and an eviction. *)
Example topk_hypotheses_satisfiable :
  let s := [(1, 3); (2, 1); (3, 1)] in
  0 < 2 /\ tk_threshold 2 (tk_sketch 2 s topk_empty) = 2 /\ true_count 1 s = 3 /\
  tk_find 1 (t_cnt (tk_sketch 2 s topk_empty)) = Some (3, 0) /\
  tk_find 3 (t_cnt (tk_sketch 2 s topk_empty)) = Some (2, 1) /\
  tk_find 2 (t_cnt (tk_sketch 2 s topk_empty)) = None.
Proof. cbv zeta. repeat split; try lia; vm_compute; reflexivity. Qed.
