(** Property C20 — the theorems the check counts as obligations.  Nothing but
    statements closed by [exact] and [Print Assumptions]. *)
From HS Require Import Base.Prelude C20.Model C20.Bloom C20.Counting C20.TopK C20.Reservoir C20.Merkle C20.TDigest.
From Coq Require Import Floats QArith.
Local Open Scope Z_scope.

(** Bloom: every item added with a positive count is reported present — for
    every hash function, size, number of hashes, prior state and stream. *)
Theorem c20_bloom_no_false_negative : forall hsh m k, 0 < m -> forall s st x c,
  In (x, c) s -> 0 < c -> b_contains hsh m k (b_sketch hsh m k s st) x = true.
Proof. exact bloom_no_false_negative. Qed.
Print Assumptions c20_bloom_no_false_negative.

(** ... and stays present under later adds and merges on either side. *)
Theorem c20_bloom_present_stays_present : forall hsh m k, 0 < m -> forall a b s x,
  b_contains hsh m k a x = true ->
  b_contains hsh m k (b_sketch hsh m k s a) x = true /\
  b_contains hsh m k (b_merge m a b) x = true /\
  b_contains hsh m k (b_merge m b a) x = true.
Proof. exact bloom_present_stays_present. Qed.
Print Assumptions c20_bloom_present_stays_present.

(** Bloom merge = filter of the concatenated streams (bits, _bits_set and
    _total_count), every split point. *)
Theorem c20_bloom_merge_homomorphism : forall hsh m k, 0 < m -> forall s1 s2,
  b_merge m (b_sketch hsh m k s1 bloom_empty) (b_sketch hsh m k s2 bloom_empty) =
  b_sketch hsh m k (s1 ++ s2) bloom_empty.
Proof. exact bloom_merge_homomorphism. Qed.
Print Assumptions c20_bloom_merge_homomorphism.

(** Count-Min: the estimate is never below the true count — every row hash,
    width, depth >= 1, stream (weights included). *)
Theorem c20_cms_never_underestimates : forall hc w d, 0 < d -> forall s x,
  true_count x s <= c_est hc w d (c_sketch hc w d s cms_empty) x.
Proof. exact cms_never_underestimates. Qed.
Print Assumptions c20_cms_never_underestimates.

Theorem c20_cms_merge_homomorphism : forall hc w d s1 s2,
  (forall r col, c_cnt (c_merge (c_sketch hc w d s1 cms_empty) (c_sketch hc w d s2 cms_empty)) r col =
                 c_cnt (c_sketch hc w d (s1 ++ s2) cms_empty) r col) /\
  c_total (c_merge (c_sketch hc w d s1 cms_empty) (c_sketch hc w d s2 cms_empty)) =
  c_total (c_sketch hc w d (s1 ++ s2) cms_empty).
Proof. exact cms_merge_homomorphism. Qed.
Print Assumptions c20_cms_merge_homomorphism.

Theorem c20_cms_merged_never_underestimates : forall hc w d, 0 < d -> forall s1 s2 x,
  true_count x (s1 ++ s2) <=
  c_est hc w d (c_merge (c_sketch hc w d s1 cms_empty) (c_sketch hc w d s2 cms_empty)) x.
Proof. exact cms_merged_never_underestimates. Qed.
Print Assumptions c20_cms_merged_never_underestimates.

(** HyperLogLog: merge = sketch of the concatenated streams on every register
    of the array and the total (same hash function, i.e. same seed). *)
Theorem c20_hll_merge_homomorphism : forall hh p s1 s2,
  (forall i, 0 <= i < 2 ^ p ->
     h_reg (h_merge p (h_sketch hh p s1 hll_empty) (h_sketch hh p s2 hll_empty)) i =
     h_reg (h_sketch hh p (s1 ++ s2) hll_empty) i) /\
  h_total (h_merge p (h_sketch hh p s1 hll_empty) (h_sketch hh p s2 hll_empty)) =
  h_total (h_sketch hh p (s1 ++ s2) hll_empty).
Proof. exact hll_merge_homomorphism. Qed.
Print Assumptions c20_hll_merge_homomorphism.

(** TopK (space-saving), every k >= 1 and weighted stream. *)
Theorem c20_topk_tracked_bounds : forall k, 0 < k -> forall s x n e,
  tk_find x (t_cnt (tk_sketch k s topk_empty)) = Some (n, e) ->
  0 <= e /\ n - e <= true_count x s <= n.
Proof. exact topk_tracked_bounds. Qed.
Print Assumptions c20_topk_tracked_bounds.

Theorem c20_topk_counts_sum_to_N : forall k, 0 < k -> forall s,
  sumc (t_cnt (tk_sketch k s topk_empty)) = stream_total s /\
  t_total (tk_sketch k s topk_empty) = stream_total s /\
  Z.of_nat (length (t_cnt (tk_sketch k s topk_empty))) <= k.
Proof. exact topk_counts_sum_to_N. Qed.
Print Assumptions c20_topk_counts_sum_to_N.

Theorem c20_topk_heavy_hitters_tracked : forall k, 0 < k -> forall s x,
  tk_threshold k (tk_sketch k s topk_empty) < true_count x s ->
  exists n e, tk_find x (t_cnt (tk_sketch k s topk_empty)) = Some (n, e).
Proof. exact topk_heavy_hitters_tracked. Qed.
Print Assumptions c20_topk_heavy_hitters_tracked.

Theorem c20_topk_estimate_with_error : forall k, 0 < k -> forall s x,
  let st := tk_sketch k s topk_empty in
  let n := fst (tk_est_err st x) in
  let e := snd (tk_est_err st x) in
  (n - e <= true_count x s) /\
  (tk_find x (t_cnt st) <> None -> true_count x s <= n) /\
  (tk_find x (t_cnt st) = None -> n = 0 /\ true_count x s <= e).
Proof. exact topk_estimate_with_error. Qed.
Print Assumptions c20_topk_estimate_with_error.

(** Reservoir: min(k, n) items, all of them stream items, no stream occurrence
    held twice — every capacity, stream (with counts) and RNG draw sequence. *)
Theorem c20_reservoir_size : forall k, 0 < k -> forall s ds,
  let st := fst (r_stream k s (resv_empty, ds)) in
  Z.of_nat (length (r_items st)) = Z.min k (stream_total s) /\ r_total st = stream_total s.
Proof. exact reservoir_size. Qed.
Print Assumptions c20_reservoir_size.

Theorem c20_reservoir_holds_stream_items : forall k s ds y,
  In y (r_items (fst (r_stream k s (resv_empty, ds)))) -> exists c, In (y, c) s /\ 0 < c.
Proof. exact reservoir_holds_stream_items. Qed.
Print Assumptions c20_reservoir_holds_stream_items.

Theorem c20_reservoir_distinct_occurrences : forall k xs ds,
  NoDup xs -> NoDup (r_items (fst (r_stream k (singles xs) (resv_empty, ds)))).
Proof. exact reservoir_distinct_occurrences. Qed.
Print Assumptions c20_reservoir_distinct_occurrences.

(** merge: size and membership hold (PARTIAL) ... *)
Theorem c20_reservoir_merge_size_partial : forall k, 0 < k -> forall a b ds,
  rinv k a -> rinv k b -> valid_draws ds ->
  let m := fst (r_merge k a b ds) in
  rinv k m /\ r_total m = r_total a + r_total b /\
  (forall y, In y (r_items m) -> In y (r_items a) \/ In y (r_items b)).
Proof. exact reservoir_merge_size. Qed.
Print Assumptions c20_reservoir_merge_size_partial.

(** ... but the merged reservoir may hold one stream occurrence twice
    (REFUTED; known finding C20-reservoir-merge-with-replacement). *)
Theorem c20_reservoir_merge_distinct_refuted : ~ reservoir_merge_distinct_statement.
Proof. exact reservoir_merge_distinct_refuted. Qed.
Print Assumptions c20_reservoir_merge_distinct_refuted.

(** Merkle tree, for every pair of maps (strictly sorted association lists),
    under injective, domain-separated leaf/inner hashes. *)
Theorem c20_merkle_diff_covers : forall (H : Type) (hl : Z -> Z -> H) (hc : H -> H -> H) (heq : H -> H -> bool),
  (forall k v k' v', hl k v = hl k' v' -> k = k' /\ v = v') ->
  (forall a b a' b', hc a b = hc a' b' -> a = a' /\ b = b') ->
  (forall k v a b, hl k v <> hc a b) ->
  (forall x y, heq x y = true <-> x = y) ->
  forall la lb, ssorted la -> ssorted lb -> forall k,
  d_get k la <> d_get k lb ->
  exists r, In r (mt_diff hl hc heq (m_of la) (m_of lb)) /\ fst r <= k <= snd r.
Proof. exact @merkle_diff_covers. Qed.
Print Assumptions c20_merkle_diff_covers.

Theorem c20_merkle_diff_empty_iff_equal : forall (H : Type) (hl : Z -> Z -> H) (hc : H -> H -> H) (heq : H -> H -> bool),
  (forall k v k' v', hl k v = hl k' v' -> k = k' /\ v = v') ->
  (forall a b a' b', hc a b = hc a' b' -> a = a' /\ b = b') ->
  (forall k v a b, hl k v <> hc a b) ->
  (forall x y, heq x y = true <-> x = y) ->
  forall la lb, ssorted la -> ssorted lb ->
  (mt_diff hl hc heq (m_of la) (m_of lb) = [] <-> la = lb).
Proof. exact @merkle_diff_empty_iff_equal. Qed.
Print Assumptions c20_merkle_diff_empty_iff_equal.

Theorem c20_merkle_sort_sorted : forall d, NoDup (map fst d) ->
  ssorted (m_sort d) /\ forall x, In x (m_sort d) <-> In x d.
Proof. exact merkle_sort_sorted. Qed.
Print Assumptions c20_merkle_sort_sorted.

(** T-digest.  On binary64 — the arithmetic the implementation runs on — both
    clauses are REFUTED (known findings C20-tdigest-range-rounding and
    C20-tdigest-monotone-rounding; witness add(2.7, 3), compression 1). *)
Theorem c20_tdigest_float_range_refuted : ~ td_range_statement FA (f_msz 1%float) 2.
Proof. exact td_float_range_refuted. Qed.
Print Assumptions c20_tdigest_float_range_refuted.

Theorem c20_tdigest_float_monotone_refuted : ~ td_monotone_statement FA (f_msz 1%float) 2.
Proof. exact td_float_monotone_refuted. Qed.
Print Assumptions c20_tdigest_float_monotone_refuted.

(** PARTIAL: the same definitions over exact rationals keep every quantile
    within [min, max], for every digest built by adds, flushes and merges and
    every max-size function / buffer size. *)
Theorem c20_tdigest_exact_range_partial : forall msz bs s q v mn mx, reach msz bs s ->
  snd (td_quantile QA msz s q) = Some v ->
  td_min (fst (td_quantile QA msz s q)) = Some mn -> td_max (fst (td_quantile QA msz s q)) = Some mx ->
  (mn <= v)%Q /\ (v <= mx)%Q.
Proof. exact td_exact_quantile_in_range. Qed.
Print Assumptions c20_tdigest_exact_range_partial.

(** PARTIAL: over exact rationals the quantile is non-decreasing in q, for
    every digest built by adds, flushes and merges. *)
Theorem c20_tdigest_exact_monotone_partial : forall msz bs s q1 q2 v1 v2, reach msz bs s -> (q1 <= q2)%Q ->
  snd (td_quantile QA msz s q1) = Some v1 -> snd (td_quantile QA msz s q2) = Some v2 -> (v1 <= v2)%Q.
Proof. exact td_exact_quantile_monotone. Qed.
Print Assumptions c20_tdigest_exact_monotone_partial.
