(** Property C20 — the theorems the check counts as obligations.  Nothing but
    statements closed by [exact] and [Print Assumptions]. *)
From HS Require Import Base.Prelude C20.Model C20.Bloom.
Local Open Scope Z_scope.

(** Bloom: every item added with a positive count is reported present — for
    every hash function, size, number of hashes, prior state and stream. *)
Theorem c20_bloom_no_false_negative : forall hsh m k, 0 < m -> forall s st x c,
  In (x, c) s -> 0 < c -> b_contains hsh m k (b_sketch hsh m k s st) x = true.
Proof. exact bloom_no_false_negative. Qed.
Print Assumptions c20_bloom_no_false_negative.

(** ... and stays present under later adds and merges on either side. *)
Theorem c20_bloom_present_stays_present : forall hsh m k, 0 < m -> forall a b s x,
  b_contains hsh m k a x = true ->
  b_contains hsh m k (b_sketch hsh m k s a) x = true /\
  b_contains hsh m k (b_merge m a b) x = true /\
  b_contains hsh m k (b_merge m b a) x = true.
Proof. exact bloom_present_stays_present. Qed.
Print Assumptions c20_bloom_present_stays_present.

(** Bloom merge = filter of the concatenated streams (bits, _bits_set and
    _total_count), every split point. *)
Theorem c20_bloom_merge_homomorphism : forall hsh m k, 0 < m -> forall s1 s2,
  b_merge m (b_sketch hsh m k s1 bloom_empty) (b_sketch hsh m k s2 bloom_empty) =
  b_sketch hsh m k (s1 ++ s2) bloom_empty.
Proof. exact bloom_merge_homomorphism. Qed.
Print Assumptions c20_bloom_merge_homomorphism.
