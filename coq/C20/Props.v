(** Property C20 — the theorems the check counts as obligations.  Nothing but
    statements closed by [exact] and [Print Assumptions]. *)
From HS Require Import Base.Prelude C20.Model C20.Bloom C20.Counting C20.TopK.
Local Open Scope Z_scope.

(** Bloom: every item added with a positive count is reported present — for
    every hash function, size, number of hashes, prior state and stream. *)
Theorem c20_bloom_no_false_negative : forall hsh m k, 0 < m -> forall s st x c,
  In (x, c) s -> 0 < c -> b_contains hsh m k (b_sketch hsh m k s st) x = true.
Proof. exact bloom_no_false_negative. Qed.
Print Assumptions c20_bloom_no_false_negative.

(** ... and stays present under later adds and merges on either side. *)
Theorem c20_bloom_present_stays_present : forall hsh m k, 0 < m -> forall a b s x,
  b_contains hsh m k a x = true ->
  b_contains hsh m k (b_sketch hsh m k s a) x = true /\
  b_contains hsh m k (b_merge m a b) x = true /\
  b_contains hsh m k (b_merge m b a) x = true.
Proof. exact bloom_present_stays_present. Qed.
Print Assumptions c20_bloom_present_stays_present.

(** Bloom merge = filter of the concatenated streams (bits, _bits_set and
    _total_count), every split point. *)
Theorem c20_bloom_merge_homomorphism : forall hsh m k, 0 < m -> forall s1 s2,
  b_merge m (b_sketch hsh m k s1 bloom_empty) (b_sketch hsh m k s2 bloom_empty) =
  b_sketch hsh m k (s1 ++ s2) bloom_empty.
Proof. exact bloom_merge_homomorphism. Qed.
Print Assumptions c20_bloom_merge_homomorphism.

(** Count-Min: the estimate is never below the true count — every row hash,
    width, depth >= 1, stream (weights included). *)
Theorem c20_cms_never_underestimates : forall hc w d, 0 < d -> forall s x,
  true_count x s <= c_est hc w d (c_sketch hc w d s cms_empty) x.
Proof. exact cms_never_underestimates. Qed.
Print Assumptions c20_cms_never_underestimates.

Theorem c20_cms_merge_homomorphism : forall hc w d s1 s2,
  (forall r col, c_cnt (c_merge (c_sketch hc w d s1 cms_empty) (c_sketch hc w d s2 cms_empty)) r col =
                 c_cnt (c_sketch hc w d (s1 ++ s2) cms_empty) r col) /\
  c_total (c_merge (c_sketch hc w d s1 cms_empty) (c_sketch hc w d s2 cms_empty)) =
  c_total (c_sketch hc w d (s1 ++ s2) cms_empty).
Proof. exact cms_merge_homomorphism. Qed.
Print Assumptions c20_cms_merge_homomorphism.

Theorem c20_cms_merged_never_underestimates : forall hc w d, 0 < d -> forall s1 s2 x,
  true_count x (s1 ++ s2) <=
  c_est hc w d (c_merge (c_sketch hc w d s1 cms_empty) (c_sketch hc w d s2 cms_empty)) x.
Proof. exact cms_merged_never_underestimates. Qed.
Print Assumptions c20_cms_merged_never_underestimates.

(** HyperLogLog: merge = sketch of the concatenated streams on every register
    of the array and the total (same hash function, i.e. same seed). *)
Theorem c20_hll_merge_homomorphism : forall hh p s1 s2,
  (forall i, 0 <= i < 2 ^ p ->
     h_reg (h_merge p (h_sketch hh p s1 hll_empty) (h_sketch hh p s2 hll_empty)) i =
     h_reg (h_sketch hh p (s1 ++ s2) hll_empty) i) /\
  h_total (h_merge p (h_sketch hh p s1 hll_empty) (h_sketch hh p s2 hll_empty)) =
  h_total (h_sketch hh p (s1 ++ s2) hll_empty).
Proof. exact hll_merge_homomorphism. Qed.
Print Assumptions c20_hll_merge_homomorphism.

(** TopK (space-saving), every k >= 1 and weighted stream. *)
Theorem c20_topk_tracked_bounds : forall k, 0 < k -> forall s x n e,
  tk_find x (t_cnt (tk_sketch k s topk_empty)) = Some (n, e) ->
  0 <= e /\ n - e <= true_count x s <= n.
Proof. exact topk_tracked_bounds. Qed.
Print Assumptions c20_topk_tracked_bounds.

Theorem c20_topk_counts_sum_to_N : forall k, 0 < k -> forall s,
  sumc (t_cnt (tk_sketch k s topk_empty)) = stream_total s /\
  t_total (tk_sketch k s topk_empty) = stream_total s /\
  Z.of_nat (length (t_cnt (tk_sketch k s topk_empty))) <= k.
Proof. exact topk_counts_sum_to_N. Qed.
Print Assumptions c20_topk_counts_sum_to_N.

Theorem c20_topk_heavy_hitters_tracked : forall k, 0 < k -> forall s x,
  tk_threshold k (tk_sketch k s topk_empty) < true_count x s ->
  exists n e, tk_find x (t_cnt (tk_sketch k s topk_empty)) = Some (n, e).
Proof. exact topk_heavy_hitters_tracked. Qed.
Print Assumptions c20_topk_heavy_hitters_tracked.

Theorem c20_topk_estimate_with_error : forall k, 0 < k -> forall s x,
  let st := tk_sketch k s topk_empty in
  let n := fst (tk_est_err st x) in
  let e := snd (tk_est_err st x) in
  (n - e <= true_count x s) /\
  (tk_find x (t_cnt st) <> None -> true_count x s <= n) /\
  (tk_find x (t_cnt st) = None -> n = 0 /\ true_count x s <= e).
Proof. exact topk_estimate_with_error. Qed.
Print Assumptions c20_topk_estimate_with_error.
