(** C20 — Count-Min sketch (never underestimates, merge homomorphism) and
    HyperLogLog (merge homomorphism). *)
From HS Require Import Base.Prelude C20.Model C20.Bloom.
Local Open Scope Z_scope.

Fixpoint stream_total (s : list (Z * Z)) : Z :=
  match s with [] => 0 | (_, c) :: t => (if 0 <? c then c else 0) + stream_total t end.
Lemma stream_total_app s1 s2 : stream_total (s1 ++ s2) = stream_total s1 + stream_total s2.
Proof. induction s1 as [|[x c] s1 IH]; cbn; [lia|]. rewrite IH. lia. Qed.

Section CMS.
Variable hc : Z -> Z -> Z.
Variables w d : Z.

(** What the adds of a stream contribute to cell (r, col). *)
Fixpoint contrib (s : list (Z * Z)) (r col : Z) : Z :=
  match s with
  | [] => 0
  | (x, c) :: t =>
      (if (0 <? c) && ((0 <=? r) && (r <? d) && (col =? c_col hc w x r)) then c else 0) + contrib t r col
  end.

Lemma c_add_cnt st x c r col :
  c_cnt (fst (c_add hc w d st x c)) r col =
  c_cnt st r col + (if (0 <? c) && ((0 <=? r) && (r <? d) && (col =? c_col hc w x r)) then c else 0).
Proof.
  unfold c_add. destruct (c <? 0) eqn:E1; cbn.
  { replace (0 <? c) with false by lia. cbn. lia. }
  destruct (c =? 0) eqn:E2; cbn.
  { replace (0 <? c) with false by lia. cbn. lia. }
  replace (0 <? c) with true by lia. cbn.
  destruct ((0 <=? r) && (r <? d) && (col =? c_col hc w x r)); lia.
Qed.

Lemma c_add_total st x c :
  c_total (fst (c_add hc w d st x c)) = c_total st + (if 0 <? c then c else 0).
Proof.
  unfold c_add. destruct (c <? 0) eqn:E1; cbn; [replace (0 <? c) with false by lia; lia|].
  destruct (c =? 0) eqn:E2; cbn; [replace (0 <? c) with false by lia; lia|].
  replace (0 <? c) with true by lia. lia.
Qed.


Lemma c_sketch_cnt s st r col :
  c_cnt (c_sketch hc w d s st) r col = c_cnt st r col + contrib s r col.
Proof.
  revert st. induction s as [|[x c] s IH]; intros st; cbn; [lia|].
  unfold c_sketch in *. cbn. rewrite IH, c_add_cnt. lia.
Qed.

Lemma c_sketch_total s st : c_total (c_sketch hc w d s st) = c_total st + stream_total s.
Proof.
  revert st. induction s as [|[x c] s IH]; intros st; cbn; [lia|].
  unfold c_sketch in *. cbn. rewrite IH, c_add_total. lia.
Qed.

Lemma contrib_ge_true s x r : 0 <= r < d -> true_count x s <= contrib s r (c_col hc w x r).
Proof.
  intros Hr. induction s as [|[y c] s IH]; cbn; [lia|].
  destruct (y =? x) eqn:E; cbn.
  - assert (y = x) by lia. subst y.
    replace ((0 <=? r) && (r <? d)) with true by lia. rewrite Z.eqb_refl. cbn.
    rewrite andb_true_r. destruct (0 <? c); lia.
  - destruct ((0 <? c) && _) eqn:E2; [|lia]. assert (0 < c) by lia. lia.
Qed.

Lemma fold_min_ge l a b : b <= a -> (forall v, In v l -> b <= v) -> b <= fold_left Z.min l a.
Proof.
  revert a. induction l as [|v l IH]; intros a Ha Hl; cbn; [exact Ha|].
  apply IH; [|intros; apply Hl; now right]. pose proof (Hl v (or_introl eq_refl)). lia.
Qed.

Lemma zmin_list_ge l b : l <> [] -> (forall v, In v l -> b <= v) -> b <= zmin_list l.
Proof.
  destruct l as [|a l]; [congruence|]. intros _ H. cbn.
  apply fold_min_ge; [apply H; now left|intros; apply H; now right].
Qed.

(** Count-Min never underestimates: for every row hash, width, depth >= 1,
    prior state with non-negative... (no condition: counts only grow from the
    cells of the empty sketch) and stream. *)
Theorem cms_never_underestimates : 0 < d -> forall s x,
  true_count x s <= c_est hc w d (c_sketch hc w d s cms_empty) x.
Proof.
  intros Hd s x. unfold c_est. apply zmin_list_ge.
  - unfold zrange. destruct (Z.to_nat d) eqn:E; [lia|]. cbn. congruence.
  - intros v Hv. apply in_map_iff in Hv. destruct Hv as (r & <- & Hr).
    apply zrange_In in Hr. rewrite c_sketch_cnt. cbn. now apply contrib_ge_true.
Qed.

Lemma contrib_app s1 s2 r col : contrib (s1 ++ s2) r col = contrib s1 r col + contrib s2 r col.
Proof. induction s1 as [|[x c] s1 IH]; cbn; [lia|]. rewrite IH. lia. Qed.

(** Merge = sketch of the concatenated streams: every counter and the total. *)
Theorem cms_merge_homomorphism : forall s1 s2,
  (forall r col, c_cnt (c_merge (c_sketch hc w d s1 cms_empty) (c_sketch hc w d s2 cms_empty)) r col =
                 c_cnt (c_sketch hc w d (s1 ++ s2) cms_empty) r col) /\
  c_total (c_merge (c_sketch hc w d s1 cms_empty) (c_sketch hc w d s2 cms_empty)) =
  c_total (c_sketch hc w d (s1 ++ s2) cms_empty).
Proof.
  intros s1 s2. split.
  - intros r col. cbn. rewrite !c_sketch_cnt, contrib_app. cbn. lia.
  - cbn. rewrite !c_sketch_total, stream_total_app. cbn. lia.
Qed.

(** Consequently the merged sketch never underestimates the union stream. *)
Corollary cms_merged_never_underestimates : 0 < d -> forall s1 s2 x,
  true_count x (s1 ++ s2) <=
  c_est hc w d (c_merge (c_sketch hc w d s1 cms_empty) (c_sketch hc w d s2 cms_empty)) x.
Proof.
  intros Hd s1 s2 x. pose proof (cms_never_underestimates Hd (s1 ++ s2) x) as H.
  unfold c_est in *. destruct (cms_merge_homomorphism s1 s2) as [Hc _].
  erewrite map_ext; [exact H|]. intros r. apply Hc.
Qed.

End CMS.

Section HLL.
Variable hh : Z -> Z.
Variable p : Z.

Fixpoint hits (s : list (Z * Z)) (i : Z) : Z :=
  match s with
  | [] => 0
  | (x, c) :: t =>
      if (0 <? c) && (h_idx hh p x =? i) then Z.max (h_run hh p x) (hits t i) else hits t i
  end.

Lemma hits_nonneg s i : 0 <= hits s i.
Proof. induction s as [|[x c] s IH]; cbn; [lia|]. destruct (_ && _); lia. Qed.

Lemma h_add_reg st x c i :
  h_reg (fst (h_add hh p st x c)) i =
  if (0 <? c) && (h_idx hh p x =? i) then Z.max (h_reg st i) (h_run hh p x) else h_reg st i.
Proof.
  unfold h_add. destruct (c <? 0) eqn:E1; cbn; [replace (0 <? c) with false by lia; reflexivity|].
  destruct (c =? 0) eqn:E2; cbn; [replace (0 <? c) with false by lia; reflexivity|].
  replace (0 <? c) with true by lia. cbn. unfold upd.
  rewrite (Z.eqb_sym i). destruct (h_idx hh p x =? i) eqn:E; [|reflexivity].
  assert (h_idx hh p x = i) by lia. subst. reflexivity.
Qed.

Lemma h_add_total st x c :
  h_total (fst (h_add hh p st x c)) = h_total st + (if 0 <? c then c else 0).
Proof.
  unfold h_add. destruct (c <? 0) eqn:E1; cbn; [replace (0 <? c) with false by lia; lia|].
  destruct (c =? 0) eqn:E2; cbn; [replace (0 <? c) with false by lia; lia|].
  replace (0 <? c) with true by lia. lia.
Qed.

Lemma h_sketch_reg s st i : 0 <= h_reg st i ->
  h_reg (h_sketch hh p s st) i = Z.max (h_reg st i) (hits s i).
Proof.
  revert st. induction s as [|[x c] s IH]; intros st H; cbn; [lia|].
  unfold h_sketch in *. cbn. rewrite IH; rewrite h_add_reg; destruct (_ && _); lia.
Qed.

Lemma h_sketch_total s st : h_total (h_sketch hh p s st) = h_total st + stream_total s.
Proof.
  revert st. induction s as [|[x c] s IH]; intros st; cbn; [lia|].
  unfold h_sketch in *. cbn. rewrite IH, h_add_total. lia.
Qed.

(** HLL merge = sketch of the concatenated streams on every register
    [0 <= i < 2^p] (the whole [_registers] list) and [_total_count]. *)
Theorem hll_merge_homomorphism : forall s1 s2,
  (forall i, 0 <= i < 2 ^ p ->
     h_reg (h_merge p (h_sketch hh p s1 hll_empty) (h_sketch hh p s2 hll_empty)) i =
     h_reg (h_sketch hh p (s1 ++ s2) hll_empty) i) /\
  h_total (h_merge p (h_sketch hh p s1 hll_empty) (h_sketch hh p s2 hll_empty)) =
  h_total (h_sketch hh p (s1 ++ s2) hll_empty).
Proof.
  intros s1 s2. split.
  - intros i Hi. cbn [h_merge h_reg]. replace ((0 <=? i) && (i <? 2 ^ p)) with true by lia.
    assert (Hs : h_sketch hh p (s1 ++ s2) hll_empty = h_sketch hh p s2 (h_sketch hh p s1 hll_empty)).
    { unfold h_sketch. now rewrite fold_left_app. }
    rewrite Hs. rewrite (h_sketch_reg s2 (h_sketch hh p s1 hll_empty)).
    + rewrite (h_sketch_reg s2 hll_empty) by (cbn; lia). cbn [hll_empty h_reg].
      pose proof (hits_nonneg s2 i). lia.
    + rewrite h_sketch_reg by (cbn; lia). cbn. pose proof (hits_nonneg s1 i). lia.
  - cbn. rewrite !h_sketch_total, stream_total_app. cbn. lia.
Qed.

End HLL.

(** Hypotheses satisfiable / conclusion not vacuous: two colliding items. *)
Example cms_hypotheses_satisfiable :
  let hc := fun x r : Z => x + r in
  0 < 2 /\ true_count 1 [(1, 2); (3, 1)] = 2 /\
  c_est hc 2 2 (c_sketch hc 2 2 [(1, 2); (3, 1)] cms_empty) 1 = 3.
Proof. cbv zeta. repeat split; try lia; vm_compute; reflexivity. Qed.
