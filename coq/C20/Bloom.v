(** C20 — Bloom filter: no false negatives, merge = union of streams. *)
From HS Require Import Base.Prelude C20.Model.
Local Open Scope Z_scope.

Lemma zrange_In k i : In i (zrange k) <-> 0 <= i < k.
Proof.
  unfold zrange. rewrite in_map_iff. split.
  - intros (n & <- & Hn). apply in_seq in Hn. lia.
  - intros H. exists (Z.to_nat i). split; [lia|]. apply in_seq. lia.
Qed.

Lemma testbit_setbit b i j : 0 <= i -> 0 <= j ->
  Z.testbit (Z.lor b (Z.shiftl 1 i)) j = Z.testbit b j || (i =? j).
Proof.
  intros Hi Hj. rewrite Z.lor_spec, Z.shiftl_1_l, Z.pow2_bits_eqb by lia. reflexivity.
Qed.

Section Bloom.
Variable hsh : Z -> Z -> Z * Z.
Variables m k : Z.
Hypothesis Hm : 0 < m.

Lemma b_idx_range x i : 0 <= b_idx hsh m x i < m.
Proof. unfold b_idx. destruct (hsh x i). apply Z.mod_pos_bound; lia. Qed.

(** Bits touched by the adds of a stream. *)
Definition touched_by (x : Z) (j : Z) : bool := existsb (fun i => b_idx hsh m x i =? j) (zrange k).
Fixpoint touched (s : list (Z * Z)) (j : Z) : bool :=
  match s with
  | [] => false
  | (x, c) :: r => ((0 <? c) && touched_by x j) || touched r j
  end.

Lemma fold_setbits_testbit x l st j : 0 <= j ->
  Z.testbit (fst (fold_left (fun s i => b_set_bit s (b_idx hsh m x i)) l st)) j =
  Z.testbit (fst st) j || existsb (fun i => b_idx hsh m x i =? j) l.
Proof.
  intros Hj. revert st. induction l as [|i l IH]; intros [bits n]; cbn.
  - now rewrite orb_false_r.
  - rewrite IH. cbn. rewrite testbit_setbit by (pose proof (b_idx_range x i); lia).
    now rewrite orb_assoc.
Qed.

Lemma b_add_bits st x c j : 0 <= j ->
  Z.testbit (b_bits (fst (b_add hsh m k st x c))) j =
  Z.testbit (b_bits st) j || ((0 <? c) && touched_by x j).
Proof.
  intros Hj. unfold b_add.
  destruct (c <? 0) eqn:E1; cbn.
  { replace (0 <? c) with false by lia. now rewrite orb_false_r. }
  destruct (c =? 0) eqn:E2; cbn.
  { replace (0 <? c) with false by lia. now rewrite orb_false_r. }
  replace (0 <? c) with true by lia. cbn.
  pose proof (fold_setbits_testbit x (zrange k) (b_bits st, b_set st) j Hj) as H.
  destruct (fold_left _ _ _) as [bits n]. cbn in *. exact H.
Qed.

Lemma b_sketch_bits s st j : 0 <= j ->
  Z.testbit (b_bits (b_sketch hsh m k s st)) j = Z.testbit (b_bits st) j || touched s j.
Proof.
  intros Hj. revert st. induction s as [|[x c] s IH]; intros st; cbn.
  - now rewrite orb_false_r.
  - unfold b_sketch in *. cbn. rewrite IH, b_add_bits by lia. now rewrite orb_assoc.
Qed.

Lemma b_sketch_total s st :
  b_total (b_sketch hsh m k s st) =
  b_total st + b_total (b_sketch hsh m k s bloom_empty).
Proof.
  revert st. assert (G : forall s st n, b_total (b_sketch hsh m k s st) - b_total st =
     b_total (b_sketch hsh m k s {| b_bits := 0; b_set := 0; b_total := n |}) - n).
  { clear. induction s as [|[x c] s IH]; intros st n; cbn; [lia|].
    unfold b_sketch in *. cbn.
    unfold b_add at 2 4. destruct (c <? 0); cbn; [apply IH|]. destruct (c =? 0); cbn; [apply IH|].
    destruct (fold_left _ _ (b_bits st, b_set st)) as [b1 n1].
    destruct (fold_left _ _ (0, 0)) as [b2 n2].
    specialize (IH {| b_bits := b1; b_set := n1; b_total := b_total st + c |} (b_total st + c)) as H1.
    specialize (IH {| b_bits := b2; b_set := n2; b_total := n + c |} (n + c)) as H2.
    cbn in *.
    pose proof (IH {| b_bits := b2; b_set := n2; b_total := n + c |} (b_total st + c)) as H3. cbn in H3.
    lia. }
  intros st. specialize (G s st 0). unfold bloom_empty. lia.
Qed.

(** ** No false negatives *)

Lemma touched_by_self x i : 0 <= i < k -> touched_by x (b_idx hsh m x i) = true.
Proof.
  intros Hi. unfold touched_by. apply existsb_exists. exists i. split; [now apply zrange_In|lia].
Qed.

Lemma touched_in s x c j : In (x, c) s -> 0 < c -> touched_by x j = true -> touched s j = true.
Proof.
  induction s as [|[y d] s IH]; cbn; [tauto|]. intros [E|E] Hc Ht.
  - inversion E; subst. replace (0 <? c) with true by lia. now rewrite Ht.
  - rewrite (IH E Hc Ht). apply orb_true_r.
Qed.

(** Every item added with a positive count is reported present, whatever was
    in the filter before and whatever else the stream contains. *)
Theorem bloom_no_false_negative : forall s st x c,
  In (x, c) s -> 0 < c -> b_contains hsh m k (b_sketch hsh m k s st) x = true.
Proof.
  intros s st x c Hin Hc. unfold b_contains. apply forallb_forall. intros i Hi.
  apply zrange_In in Hi. rewrite b_sketch_bits by (pose proof (b_idx_range x i); lia).
  rewrite (touched_in s x c _ Hin Hc (touched_by_self x i Hi)). apply orb_true_r.
Qed.

(** Containment survives later adds and merges on either side. *)
Lemma b_contains_mono a b x :
  (forall j, 0 <= j -> Z.testbit (b_bits a) j = true -> Z.testbit (b_bits b) j = true) ->
  b_contains hsh m k a x = true -> b_contains hsh m k b x = true.
Proof.
  unfold b_contains. rewrite !forallb_forall. intros H Ha i Hi.
  apply H; [pose proof (b_idx_range x i); lia|auto].
Qed.

Theorem bloom_present_stays_present : forall a b s x,
  b_contains hsh m k a x = true ->
  b_contains hsh m k (b_sketch hsh m k s a) x = true /\
  b_contains hsh m k (b_merge m a b) x = true /\
  b_contains hsh m k (b_merge m b a) x = true.
Proof.
  intros a b s x H. repeat split; (eapply b_contains_mono; [|exact H]); intros j Hj Hb; cbn.
  - rewrite b_sketch_bits, Hb by lia. reflexivity.
  - rewrite Z.lor_spec, Hb. reflexivity.
  - rewrite Z.lor_spec, Hb. apply orb_true_r.
Qed.

(** ** [_bits_set] is the number of one bits *)

Lemma popc_ext n a b : (forall j, 0 <= j < Z.of_nat n -> Z.testbit a j = Z.testbit b j) ->
  popc n a = popc n b.
Proof.
  induction n as [|n IH]; intros H; cbn [popc]; [reflexivity|].
  rewrite H by lia. rewrite IH; [reflexivity|]. intros j Hj. apply H. lia.
Qed.

Lemma popc_setbit n b i : 0 <= i < Z.of_nat n -> Z.testbit b i = false ->
  popc n (Z.lor b (Z.shiftl 1 i)) = popc n b + 1.
Proof.
  induction n as [|n IH]; intros Hi Hb; [lia|]. cbn [popc].
  rewrite testbit_setbit by lia.
  destruct (Z.eq_dec i (Z.of_nat n)) as [->|Hne].
  - rewrite Hb, Z.eqb_refl. cbn [orb].
    rewrite (popc_ext n _ b); [lia|]. intros j Hj. rewrite testbit_setbit by lia.
    replace (Z.of_nat n =? j) with false by lia. apply orb_false_r.
  - replace (i =? Z.of_nat n) with false by lia. rewrite orb_false_r. rewrite IH; [|lia|exact Hb].
    destruct (Z.testbit b (Z.of_nat n)); lia.
Qed.

Definition NB := Z.to_nat (b_nbits m).
Lemma m_le_nbits : m <= Z.of_nat NB.
Proof.
  unfold NB, b_nbits. assert (0 <= (m + 63) / 64) by (apply Z.div_pos; lia).
  pose proof (Z.div_mod (m + 63) 64). pose proof (Z.mod_pos_bound (m + 63) 64). lia.
Qed.

Definition b_inv (st : bloom) : Prop :=
  b_set st = popc NB (b_bits st).

Lemma set_bit_inv bits n idx : 0 <= idx < m -> n = popc NB bits ->
  snd (b_set_bit (bits, n) idx) = popc NB (fst (b_set_bit (bits, n) idx)).
Proof.
  intros Hi ->. pose proof m_le_nbits. cbn. destruct (Z.testbit bits idx) eqn:E.
  - apply popc_ext. intros j Hj. rewrite testbit_setbit by lia.
    destruct (idx =? j) eqn:E2; [|now rewrite orb_false_r].
    assert (idx = j) by lia. subst. now rewrite E.
  - symmetry. apply popc_setbit; [lia|exact E].
Qed.

Lemma b_add_inv st x c : b_inv st -> b_inv (fst (b_add hsh m k st x c)).
Proof.
  unfold b_inv, b_add. intros H. destruct (c <? 0); cbn; [exact H|]. destruct (c =? 0); cbn; [exact H|].
  assert (G : forall l p, snd p = popc NB (fst p) ->
     snd (fold_left (fun s i => b_set_bit s (b_idx hsh m x i)) l p) =
     popc NB (fst (fold_left (fun s i => b_set_bit s (b_idx hsh m x i)) l p))).
  { induction l as [|i l IH]; intros [bits n] Hp; cbn [fold_left]; [exact Hp|].
    apply IH. cbn in Hp. pose proof (set_bit_inv bits n _ (b_idx_range x i) Hp) as Hs.
    destruct (b_set_bit (bits, n) (b_idx hsh m x i)). exact Hs. }
  specialize (G (zrange k) (b_bits st, b_set st) H).
  destruct (fold_left _ _ _) as [b1 n1]. cbn in *. exact G.
Qed.

Lemma b_sketch_inv s st : b_inv st -> b_inv (b_sketch hsh m k s st).
Proof.
  revert st. induction s as [|[x c] s IH]; intros st H; [exact H|].
  unfold b_sketch in *. cbn. apply IH. now apply b_add_inv.
Qed.

Lemma b_inv_empty : b_inv bloom_empty.
Proof.
  unfold b_inv. cbn. induction NB as [|n IH]; cbn; [reflexivity|]. rewrite Z.testbit_0_l. lia.
Qed.

(** ** Merge homomorphism: exact state equality, [_bits_set] and [_total_count] included *)

Lemma bloom_eq a b : b_bits a = b_bits b -> b_set a = b_set b -> b_total a = b_total b -> a = b.
Proof. destruct a, b; cbn; intros; subst; reflexivity. Qed.

Theorem bloom_merge_homomorphism : forall s1 s2,
  b_merge m (b_sketch hsh m k s1 bloom_empty) (b_sketch hsh m k s2 bloom_empty) =
  b_sketch hsh m k (s1 ++ s2) bloom_empty.
Proof.
  intros s1 s2.
  assert (Hsplit : b_sketch hsh m k (s1 ++ s2) bloom_empty =
                   b_sketch hsh m k s2 (b_sketch hsh m k s1 bloom_empty)).
  { unfold b_sketch. now rewrite fold_left_app. }
  assert (Hbits : Z.lor (b_bits (b_sketch hsh m k s1 bloom_empty)) (b_bits (b_sketch hsh m k s2 bloom_empty)) =
                  b_bits (b_sketch hsh m k (s1 ++ s2) bloom_empty)).
  { apply Z.bits_inj'. intros j Hj. rewrite Hsplit, Z.lor_spec, !b_sketch_bits by lia.
    cbn [b_bits bloom_empty]. rewrite Z.testbit_0_l. reflexivity. }
  apply bloom_eq; cbn.
  - exact Hbits.
  - rewrite Hbits. symmetry. apply (b_sketch_inv (s1 ++ s2) bloom_empty b_inv_empty).
  - rewrite Hsplit, (b_sketch_total s2 (b_sketch hsh m k s1 bloom_empty)). reflexivity.
Qed.

End Bloom.

(** The hypotheses of the Bloom theorems are satisfiable (and the conclusion
    is not vacuous): a concrete hash, 8 bits, 3 hashes. *)
Example bloom_hypotheses_satisfiable :
  let hsh := fun x i : Z => (x * 5 + 1, i + 2) in
  0 < 8 /\ In (1, 1) [(1, 1); (2, 0)] /\
  b_contains hsh 8 3 (b_sketch hsh 8 3 [(1, 1); (2, 0)] bloom_empty) 1 = true /\
  b_contains hsh 8 3 (b_sketch hsh 8 3 [(1, 1); (2, 0)] bloom_empty) 2 = false.
Proof. cbv zeta. repeat split; try lia; try (now left); vm_compute; reflexivity. Qed.
