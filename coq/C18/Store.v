(** C18 — CRDTStore (counter keys): every replica object a store holds carries
    the store's own node id, each store's view of a key obeys the counter
    invariant of C18/CRDT.v, and a store that has pulled every node's state
    reports increments minus decrements.  The pre-c92c1df new-key branch of
    [_merge_remote_state] ([learn false]) is refuted. *)
From HS Require Import Base.Prelude C18.Model C18.CRDT C18.StoreModel.
Local Open Scope Z_scope.

(* ------------------------------------------------------------------ *)
(** * Replica identity *)

Definition own_inv (S : st_sys) : Prop :=
  forall s key r, sstores S s key = Some r -> s_owner r = s.

Lemma own_init : own_inv st_init.
Proof. intros s key r H; discriminate H. Qed.

Lemma own_step S o : own_inv S -> own_inv (st_step true S o).
Proof.
  intros H s key r. destruct o as [s0 key0 n|s0 key0 n|m s0|s0 m]; cbn [st_step sstores].
  - destruct ((s =? s0) && (key =? key0)) eqn:E; [|apply H].
    apply andb_true_iff in E as [E1 E2]. apply Z.eqb_eq in E1; subst s.
    unfold write_key, own_or_create. intros Hr; injection Hr as <-; cbn.
    destruct (sstores S s0 key0) as [r0|] eqn:E0; [apply (H _ _ _ E0)|reflexivity].
  - destruct ((s =? s0) && (key =? key0)) eqn:E; [|apply H].
    apply andb_true_iff in E as [E1 E2]. apply Z.eqb_eq in E1; subst s.
    unfold write_key, own_or_create. intros Hr; injection Hr as <-; cbn.
    destruct (sstores S s0 key0) as [r0|] eqn:E0; [apply (H _ _ _ E0)|reflexivity].
  - apply H.
  - destruct (Z.eqb_spec s s0) as [->|]; [|apply H].
    unfold merge_key, learn.
    destruct (sbox S m key) as [rr|]; [|apply H].
    destruct (sstores S s0 key) as [l|] eqn:E0; intros Hr; injection Hr as <-; cbn; [apply (H _ _ _ E0)|reflexivity].
Qed.

Theorem store_replica_identity ops : own_inv (st_run true ops).
Proof.
  unfold st_run. induction ops as [|o ops IH] using rev_ind; [exact own_init|].
  rewrite fold_left_app; cbn [fold_left]. apply own_step, IH.
Qed.

(* ------------------------------------------------------------------ *)
(** * Counter invariant of every store's view of one key *)

Definition st_inv (S : st_sys) (key : Z) (I D : Z -> Z) : Prop :=
  forall s k,
    (0 <= fst (st_view S key s) k <= I k /\ fst (st_view S key k) k = I k /\ 0 <= fst (st_bview S key s) k <= I k) /\
    (0 <= snd (st_view S key s) k <= D k /\ snd (st_view S key k) k = D k /\ 0 <= snd (st_bview S key s) k <= D k).

Definition sinc_contrib (key : Z) (o : st_op) (k : Z) : Z :=
  match o with SInc s key' n => if (s =? k) && (key' =? key) && negb (n <? 1) then n else 0 | _ => 0 end.
Definition sdec_contrib (key : Z) (o : st_op) (k : Z) : Z :=
  match o with SDec s key' n => if (s =? k) && (key' =? key) && negb (n <? 1) then n else 0 | _ => 0 end.

Lemma st_inv_ext S key I D I' D' :
  (forall k, I k = I' k) -> (forall k, D k = D' k) -> st_inv S key I D -> st_inv S key I' D'.
Proof. intros HI HD H s k. rewrite <- HI, <- HD. apply H. Qed.

(** The view of store [s] after a write at store [s0], in terms of the view before. *)
Lemma view_write S key (dec : bool) s0 key0 n s :
  own_inv S ->
  let S' := st_step true S (if dec then SDec s0 key0 n else SInc s0 key0 n) in
  st_view S' key s =
    if (s =? s0) && (key =? key0)
    then (if dec then pn_dec s0 n (st_view S key s0) else pn_inc s0 n (st_view S key s0))
    else st_view S key s.
Proof.
  intros Hown S'. unfold S', st_view. destruct dec; cbn [st_step sstores];
    destruct ((s =? s0) && (key =? key0)) eqn:E; try reflexivity;
    apply andb_true_iff in E as [E1 E2]; apply Z.eqb_eq in E1, E2; subst s key;
    unfold write_key, own_or_create; cbn;
    destruct (sstores S s0 key0) as [r0|] eqn:E0; cbn; try reflexivity;
    rewrite (Hown _ _ _ E0); reflexivity.
Qed.

Lemma view_recv S key s0 m s :
  st_view (st_step true S (SRecv s0 m)) key s =
    if s =? s0
    then match sbox S m key with
         | Some _ => pn_merge (st_view S key s0) (st_bview S key m)
         | None => st_view S key s0
         end
    else st_view S key s.
Proof.
  unfold st_view, st_bview; cbn [st_step sstores].
  destruct (Z.eqb_spec s s0) as [->|]; [|reflexivity].
  unfold merge_key, learn. destruct (sbox S m key) as [rr|]; [|reflexivity].
  destruct (sstores S s0 key) as [l|]; reflexivity.
Qed.

Lemma st_step_inv S key I D o :
  own_inv S -> st_inv S key I D ->
  st_inv (st_step true S o) key (fun k => I k + sinc_contrib key o k) (fun k => D k + sdec_contrib key o k).
Proof.
  intros Hown H s k.
  destruct o as [s0 key0 n|s0 key0 n|m s0|s0 m].
  - (* SInc *)
    pose proof (view_write S key false s0 key0 n s Hown) as Vs.
    pose proof (view_write S key false s0 key0 n k Hown) as Vk.
    cbn zeta in Vs, Vk. cbn [sinc_contrib sdec_contrib].
    assert (Hb : forall x, st_bview (st_step true S (SInc s0 key0 n)) key x = st_bview S key x) by reflexivity.
    rewrite Vs, Vk, Hb.
    destruct (H s k) as [(P1 & P2 & P3) (N1 & N2 & N3)].
    destruct (H s0 k) as [(Q1 & Q2 & Q3) (M1 & M2 & M3)].
    unfold pn_inc, gc_inc, upd; cbn [fst snd].
    destruct (Z.eqb_spec s s0), (Z.eqb_spec k s0), (Z.eqb_spec s0 k), (Z.eqb_spec key key0), (Z.eqb_spec key0 key),
      (n <? 1) eqn:En; subst; cbn [andb negb fst snd]; rewrite ?Z.eqb_refl;
      repeat match goal with |- context [?a =? ?b] => destruct (Z.eqb_spec a b); subst end;
      try congruence; cbn [fst snd]; try lia.
  - (* SDec *)
    pose proof (view_write S key true s0 key0 n s Hown) as Vs.
    pose proof (view_write S key true s0 key0 n k Hown) as Vk.
    cbn zeta in Vs, Vk. cbn [sinc_contrib sdec_contrib].
    assert (Hb : forall x, st_bview (st_step true S (SDec s0 key0 n)) key x = st_bview S key x) by reflexivity.
    rewrite Vs, Vk, Hb.
    destruct (H s k) as [(P1 & P2 & P3) (N1 & N2 & N3)].
    destruct (H s0 k) as [(Q1 & Q2 & Q3) (M1 & M2 & M3)].
    unfold pn_dec, gc_inc, upd; cbn [fst snd].
    destruct (Z.eqb_spec s s0), (Z.eqb_spec k s0), (Z.eqb_spec s0 k), (Z.eqb_spec key key0), (Z.eqb_spec key0 key),
      (n <? 1) eqn:En; subst; cbn [andb negb fst snd]; rewrite ?Z.eqb_refl;
      repeat match goal with |- context [?a =? ?b] => destruct (Z.eqb_spec a b); subst end;
      try congruence; cbn [fst snd]; try lia.
  - (* SSend *)
    cbn [sinc_contrib sdec_contrib].
    assert (Hv : forall x, st_view (st_step true S (SSend m s0)) key x = st_view S key x) by reflexivity.
    assert (Hb : st_bview (st_step true S (SSend m s0)) key s = if s =? m then st_view S key s0 else st_bview S key s).
    { unfold st_bview, st_view; cbn [st_step sbox]. destruct (s =? m); reflexivity. }
    rewrite !Hv, Hb.
    destruct (H s k) as [(P1 & P2 & P3) (N1 & N2 & N3)].
    destruct (H s0 k) as [(Q1 & Q2 & Q3) (M1 & M2 & M3)].
    destruct (s =? m); cbn [fst snd]; lia.
  - (* SRecv *)
    cbn [sinc_contrib sdec_contrib].
    assert (Hb : forall x, st_bview (st_step true S (SRecv s0 m)) key x = st_bview S key x) by reflexivity.
    rewrite !view_recv, Hb.
    destruct (H s k) as [(P1 & P2 & P3) (N1 & N2 & N3)].
    destruct (H s0 k) as [(Q1 & Q2 & Q3) (M1 & M2 & M3)].
    destruct (H m k) as [(R1 & R2 & R3) (T1 & T2 & T3)].
    destruct (H k k) as [(U1 & U2 & U3) (V1 & V2 & V3)].
    unfold pn_merge, gc_merge.
    destruct (Z.eqb_spec s s0), (Z.eqb_spec k s0), (sbox S m key); subst; cbn [fst snd]; lia.
Qed.

Lemma sincs_app key k a b : sincs key k (a ++ b) = sincs key k a + sincs key k b.
Proof. induction a as [|[]]; cbn; lia. Qed.
Lemma sdecs_app key k a b : sdecs key k (a ++ b) = sdecs key k a + sdecs key k b.
Proof. induction a as [|[]]; cbn; lia. Qed.

Theorem st_run_inv ops key :
  st_inv (st_run true ops) key (fun k => sincs key k ops) (fun k => sdecs key k ops).
Proof.
  induction ops as [|o ops IH] using rev_ind.
  - intros s k; cbv [st_run fold_left st_init st_view st_bview sstores sbox pn_empty gc_empty fst snd sincs sdecs]; lia.
  - unfold st_run in *. rewrite fold_left_app; cbn [fold_left].
    eapply st_inv_ext; [| |apply st_step_inv; [apply store_replica_identity|exact IH]].
    + intros k. rewrite sincs_app. destruct o; cbn; lia.
    + intros k. rewrite sdecs_app. destruct o; cbn; lia.
Qed.

(* ------------------------------------------------------------------ *)
(** * A store that has pulled every node's state reports the specified value *)

Lemma pull_reaches S key I D r l :
  own_inv S -> st_inv S key I D ->
  let S' := fold_left (st_step true) (pull_all r l) S in
  own_inv S' /\ st_inv S' key I D /\
  (forall k, (In k l \/ fst (st_view S key r) k = I k) -> fst (st_view S' key r) k = I k) /\
  (forall k, (In k l \/ snd (st_view S key r) k = D k) -> snd (st_view S' key r) k = D k).
Proof.
  revert S; induction l as [|x l IH]; intros S Hown H; cbn [pull_all map concat fold_left app].
  - split; [exact Hown|]. split; [exact H|]. split; intros k [[]|E]; exact E.
  - set (S1 := st_step true S (SSend 0 x)). set (S2 := st_step true S1 (SRecv r 0)).
    assert (O1 : own_inv S1) by (apply own_step; exact Hown).
    assert (O2 : own_inv S2) by (apply own_step; exact O1).
    assert (H1 : st_inv S1 key I D).
    { eapply st_inv_ext; [| |apply st_step_inv; [exact Hown|exact H]]; intros k; cbn; lia. }
    assert (H2 : st_inv S2 key I D).
    { eapply st_inv_ext; [| |apply st_step_inv; [exact O1|exact H1]]; intros k; cbn; lia. }
    change (fold_left (st_step true) (pull_all r l) S2) with (fold_left (st_step true) (pull_all r l) S2).
    fold (pull_all r l).
    destruct (IH S2 O2 H2) as (Hown' & Hinv & HP & HN).
    split; [exact Hown'|]. split; [exact Hinv|].
    (* the view of r after the pull of x, on component k *)
    assert (V : st_view S2 key r =
                match sstores S x key with
                | Some _ => pn_merge (st_view S key r) (st_view S key x)
                | None => st_view S key r
                end).
    { unfold S2. rewrite view_recv, Z.eqb_refl.
      unfold S1, st_bview, st_view; cbn [st_step sbox sstores]. rewrite Z.eqb_refl.
      destruct (sstores S x key); reflexivity. }
    split; intros k Hk.
    + apply HP. destruct Hk as [[->|Hin]|E]; [right|left; exact Hin|right].
      * rewrite V. destruct (H r k) as [(P1 & _) _]. destruct (H k k) as [(_ & P2 & _) _].
        destruct (sstores S k key) eqn:Ek.
        -- unfold pn_merge, gc_merge; cbn [fst]. lia.
        -- assert (Z0 : fst (st_view S key k) k = 0) by (unfold st_view; rewrite Ek; reflexivity). lia.
      * rewrite V. destruct (H r k) as [(P1 & _) _]. destruct (H x k) as [(Q1 & _) _].
        destruct (sstores S x key); [|exact E]. unfold pn_merge, gc_merge; cbn [fst]. lia.
    + apply HN. destruct Hk as [[->|Hin]|E]; [right|left; exact Hin|right].
      * rewrite V. destruct (H r k) as [_ (P1 & _)]. destruct (H k k) as [_ (_ & P2 & _)].
        destruct (sstores S k key) eqn:Ek.
        -- unfold pn_merge, gc_merge; cbn [snd]. lia.
        -- assert (Z0 : snd (st_view S key k) k = 0) by (unfold st_view; rewrite Ek; reflexivity). lia.
      * rewrite V. destruct (H r k) as [_ (P1 & _)]. destruct (H x k) as [_ (Q1 & _)].
        destruct (sstores S x key); [|exact E]. unfold pn_merge, gc_merge; cbn [snd]. lia.
Qed.

Theorem store_counter_value ops nodes r key :
  st_value nodes (st_run true (ops ++ pull_all r nodes)) key r =
    zsum (map (fun k => sincs key k ops) nodes) - zsum (map (fun k => sdecs key k ops) nodes).
Proof.
  unfold st_run. rewrite fold_left_app.
  destruct (pull_reaches _ key _ _ r nodes (store_replica_identity ops) (st_run_inv ops key)) as (_ & _ & HP & HN).
  unfold st_value, pn_value, gc_value.
  rewrite (zsum_ext _ (fun k => sincs key k ops)), (zsum_ext (snd _) (fun k => sdecs key k ops)).
  - reflexivity.
  - intros k Hk. apply HN. left; exact Hk.
  - intros k Hk. apply HP. left; exact Hk.
Qed.

(** The same for every store at once, whatever else happens afterwards is not
    claimed: the statement is about the instant after the pulls. *)

(** Every store at once: after each store of [nodes] has pulled every node's state
    (one after the other, in the order of the list), ALL of them report increments
    minus decrements - a pull by one store does not touch another store's replica. *)
Lemma pull_other S key r s l : s <> r ->
  st_view (fold_left (st_step true) (pull_all r l) S) key s = st_view S key s.
Proof.
  intros Hne. revert S; induction l as [|x l IH]; intros S; cbn [pull_all map concat fold_left app]; [reflexivity|].
  fold (pull_all r l). rewrite IH. rewrite view_recv.
  destruct (Z.eqb_spec s r) as [E|_]; [contradiction|]. reflexivity.
Qed.

Lemma sincs_pull key k r l : sincs key k (pull_all r l) = 0.
Proof. induction l as [|x l IH]; cbn; [reflexivity|exact IH]. Qed.
Lemma sdecs_pull key k r l : sdecs key k (pull_all r l) = 0.
Proof. induction l as [|x l IH]; cbn; [reflexivity|exact IH]. Qed.

Definition pull_round (who nodes : list Z) : list st_op := concat (map (fun r => pull_all r nodes) who).

Lemma sincs_round key k who nodes : sincs key k (pull_round who nodes) = 0.
Proof.
  induction who as [|r who IH]; cbn; [reflexivity|]. fold (pull_round who nodes).
  rewrite sincs_app, sincs_pull, IH. reflexivity.
Qed.
Lemma sdecs_round key k who nodes : sdecs key k (pull_round who nodes) = 0.
Proof.
  induction who as [|r who IH]; cbn; [reflexivity|]. fold (pull_round who nodes).
  rewrite sdecs_app, sdecs_pull, IH. reflexivity.
Qed.

Lemma round_other S key s who nodes : ~ In s who ->
  st_view (fold_left (st_step true) (pull_round who nodes) S) key s = st_view S key s.
Proof.
  revert S; induction who as [|r who IH]; intros S Hn; cbn; [reflexivity|]. fold (pull_round who nodes).
  rewrite fold_left_app, IH by (intros H; apply Hn; right; exact H).
  apply pull_other. intros ->. apply Hn. left; reflexivity.
Qed.

Theorem store_all_converge ops nodes key r : NoDup nodes -> In r nodes ->
  st_value nodes (st_run true (ops ++ pull_round nodes nodes)) key r =
    zsum (map (fun k => sincs key k ops) nodes) - zsum (map (fun k => sdecs key k ops) nodes).
Proof.
  intros ND Hin. destruct (in_split _ _ Hin) as (l1 & l2 & E).
  assert (Hl2 : ~ In r l2).
  { rewrite E in ND. apply NoDup_remove_2 in ND. intros H. apply ND. apply in_or_app. right; exact H. }
  unfold pull_round. rewrite E at 2. rewrite map_app, concat_app. cbn [map concat].
  fold (pull_round l1 nodes) (pull_round l2 nodes).
  unfold st_run, st_value. rewrite !app_assoc. rewrite fold_left_app.
  rewrite (round_other _ key r l2 nodes Hl2).
  rewrite <- app_assoc.
  pose proof (store_counter_value (ops ++ pull_round l1 nodes) nodes r key) as H.
  unfold st_run, st_value in H. rewrite <- app_assoc in H. rewrite H.
  f_equal; apply zsum_ext; intros k _.
  - rewrite sincs_app, sincs_round. lia.
  - rewrite sdecs_app, sdecs_round. lia.
Qed.

(* ------------------------------------------------------------------ *)
(** * The pre-c92c1df new-key branch loses updates *)

Definition store_value_statement (fixed : bool) : Prop :=
  forall ops nodes r key,
    st_value nodes (st_run fixed (ops ++ pull_all r nodes)) key r =
      zsum (map (fun k => sincs key k ops) nodes) - zsum (map (fun k => sdecs key k ops) nodes).

(** node 2 writes, 0 and 1 learn the key from gossip, then both increment. *)
Definition store_witness : list st_op :=
  [SInc 2 0 2; SSend 1 2; SRecv 0 1; SRecv 1 1; SInc 0 0 1; SInc 1 0 3].

Theorem store_unfixed_learn_refuted : ~ store_value_statement false.
Proof.
  intros H. specialize (H store_witness [0; 1; 2] 0 0). vm_compute in H. discriminate H.
Qed.

Example store_witness_fixed_ok :
  st_value [0; 1; 2] (st_run true (store_witness ++ pull_all 0 [0; 1; 2])) 0 0 = 6.
Proof. vm_compute. reflexivity. Qed.

(* ------------------------------------------------------------------ *)
(** * The checker's tabulation is the identity on its domain *)
Lemma alist_get_map {V} (f : Z -> V) d dom k :
  In k dom -> alist_get (map (fun k => (k, f k)) dom) d k = f k.
Proof.
  induction dom as [|x dom IH]; intros H; [destruct H|]. cbn.
  destruct (Z.eqb_spec k x) as [->|Hne]; [reflexivity|].
  apply IH. destruct H as [->|H]; [congruence|exact H].
Qed.
Lemma freeze_fn_in {V} dom (d : V) f k : In k dom -> freeze_fn dom d f k = f k.
Proof. intros H. unfold freeze_fn. apply alist_get_map, H. Qed.
