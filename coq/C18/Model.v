(** C18 — executable models of happysimulator/core/logical_clocks.py and
    happysimulator/components/crdt/{g_counter,pn_counter,lww_register,or_set}.py.

    No proofs here (so the model still runs when a proof breaks).
    Node ids, message ids, elements and values are [Z].  Python dicts keyed by
    node id are total functions [Z -> Z] with default 0 (the code reads them
    with [.get(k, 0)] everywhere). *)
From HS Require Import Base.Prelude.
Local Open Scope Z_scope.

(* ------------------------------------------------------------------ *)
(** * Histories *)

(** One action of a history.  [pt] is the reading of the node's physical clock
    at that action (used by the hybrid logical clock only; any [Z] stream —
    arbitrary skew, drift, even non-monotone). *)
Inductive act :=
| Local (n pt : Z)
| Send (n m pt : Z)
| Recv (n m pt : Z).

Definition node_of (a : act) : Z :=
  match a with Local n _ | Send n _ _ | Recv n _ _ => n end.

Definition upd {V} (f : Z -> V) (k : Z) (v : V) : Z -> V :=
  fun k' => if Z.eqb k' k then v else f k'.

(** A clock algorithm: per-node state [C], timestamps [T]. *)
Record clock_alg := {
  C : Type; T : Type;
  c_init : Z -> C;                    (* node -> initial state *)
  c_local : Z -> Z -> C -> C;         (* node, pt, state: tick / now *)
  c_send  : Z -> Z -> C -> C;         (* node, pt, state; the message carries [c_stamp] of the result *)
  c_recv  : Z -> Z -> C -> T -> C;    (* node, pt, state, remote stamp *)
  c_stamp : Z -> C -> T;              (* node, state: the timestamp of the event just executed *)
}.

Record cstate (A : clock_alg) := {
  clk : Z -> C A;
  msgs : Z -> option (T A);
}.
Arguments clk {A}. Arguments msgs {A}.

(** Execute one action.  [None] = ill-formed history (receive of a message
    that was never sent, or a message id sent twice). *)
Definition cstep (A : clock_alg) (s : cstate A) (a : act) : option (cstate A * T A) :=
  match a with
  | Local n pt =>
      let c := c_local A n pt (clk s n) in
      Some ({| clk := upd (clk s) n c; msgs := msgs s |}, c_stamp A n c)
  | Send n m pt =>
      match msgs s m with
      | Some _ => None
      | None =>
          let c := c_send A n pt (clk s n) in
          let t := c_stamp A n c in
          Some ({| clk := upd (clk s) n c; msgs := upd (msgs s) m (Some t) |}, t)
      end
  | Recv n m pt =>
      match msgs s m with
      | None => None
      | Some t =>
          let c := c_recv A n pt (clk s n) t in
          Some ({| clk := upd (clk s) n c; msgs := msgs s |}, c_stamp A n c)
      end
  end.

(** Run a history from a state; returns the final state and the timestamps of
    all events, oldest first. *)
Fixpoint crun (A : clock_alg) (s : cstate A) (tr : list act) : option (cstate A * list (T A)) :=
  match tr with
  | [] => Some (s, [])
  | a :: r =>
      match cstep A s a with
      | None => None
      | Some (s', t) =>
          match crun A s' r with
          | None => None
          | Some (s'', ts) => Some (s'', t :: ts)
          end
      end
  end.

Definition cinit (A : clock_alg) : cstate A :=
  {| clk := c_init A; msgs := fun _ => None |}.

Definition stamps (A : clock_alg) (tr : list act) : option (list (T A)) :=
  match crun A (cinit A) tr with Some (_, ts) => Some ts | None => None end.

(* ------------------------------------------------------------------ *)
(** * Lamport clock (LamportClock.tick/send/receive) *)

Definition lamport : clock_alg := {|
  C := Z; T := Z;
  c_init := fun _ => 0;
  c_local := fun _ _ c => c + 1;
  c_send := fun _ _ c => c + 1;
  c_recv := fun _ _ c t => Z.max c t + 1;
  c_stamp := fun _ c => c;
|}.

(* ------------------------------------------------------------------ *)
(** * Vector clock (VectorClock.tick/send/receive/happened_before/merge) *)

Definition vec := Z -> Z.

Definition vc_tick (n : Z) (v : vec) : vec := upd v n (v n + 1).
Definition vc_recv (n : Z) (v r : vec) : vec :=
  let m := fun k => Z.max (v k) (r k) in upd m n (m n + 1).

Definition vector : clock_alg := {|
  C := vec; T := vec;
  c_init := fun _ _ => 0;
  c_local := fun n _ v => vc_tick n v;
  c_send := fun n _ v => vc_tick n v;
  c_recv := fun n _ v r => vc_recv n v r;
  c_stamp := fun _ v => v;
|}.

(** [happened_before] over an explicit key list (the union of both key sets in
    the code; every key outside it reads 0 on both sides). *)
Definition vc_leb (keys : list Z) (a b : vec) : bool :=
  forallb (fun k => a k <=? b k) keys.
Definition vc_hbb (keys : list Z) (a b : vec) : bool :=
  vc_leb keys a b && existsb (fun k => a k <? b k) keys.
Definition vc_merge (a b : vec) : vec := fun k => Z.max (a k) (b k).

(* ------------------------------------------------------------------ *)
(** * Hybrid logical clock (HybridLogicalClock.now/send/receive) *)

Definition hlc_ts := (Z * Z * Z)%type.       (* physical_ns, logical, node_id *)
Definition hlc_st := (Z * Z)%type.           (* _last.physical_ns, _last.logical *)

Definition hlc_now (pt : Z) (s : hlc_st) : hlc_st :=
  let '(lp, ll) := s in
  if pt >? lp then (pt, 0) else (lp, ll + 1).

Definition hlc_recv (pt : Z) (s : hlc_st) (r : hlc_ts) : hlc_st :=
  let '(lp, ll) := s in
  let '(rp, rl, _) := r in
  let mx := Z.max (Z.max pt lp) rp in
  if (mx =? lp) && (lp =? rp) then (mx, Z.max ll rl + 1)
  else if mx =? lp then (mx, ll + 1)
  else if mx =? rp then (mx, rl + 1)
  else (mx, 0).

Definition hlc : clock_alg := {|
  C := hlc_st; T := hlc_ts;
  c_init := fun _ => (0, 0);
  c_local := fun _ pt s => hlc_now pt s;
  c_send := fun _ pt s => hlc_now pt s;
  c_recv := fun _ pt s r => hlc_recv pt s r;
  c_stamp := fun n s => (fst s, snd s, n);
|}.

(** HLCTimestamp.__lt__: lexicographic on (physical_ns, logical, node_id). *)
Definition hlc_ltb (a b : hlc_ts) : bool :=
  let '(ap, al, an) := a in let '(bp, bl, bn) := b in
  (ap <? bp) || ((ap =? bp) && ((al <? bl) || ((al =? bl) && (an <? bn)))).
Definition hlc_eqb (a b : hlc_ts) : bool :=
  let '(ap, al, an) := a in let '(bp, bl, bn) := b in
  (ap =? bp) && (al =? bl) && (an =? bn).

(* ------------------------------------------------------------------ *)
(** * G-counter and PN-counter *)

Definition gc := Z -> Z.                     (* _counts, default 0 *)
Definition gc_empty : gc := fun _ => 0.
(** [increment(n)] raises ValueError for n < 1 and leaves the state unchanged. *)
Definition gc_inc (me n : Z) (c : gc) : gc :=
  if n <? 1 then c else upd c me (c me + n).
Definition gc_merge (a b : gc) : gc := fun k => Z.max (a k) (b k).
Fixpoint zsum (l : list Z) : Z := match l with [] => 0 | x :: r => x + zsum r end.
Definition gc_value (nodes : list Z) (c : gc) : Z := zsum (map c nodes).

Definition pn := (gc * gc)%type.
Definition pn_empty : pn := (gc_empty, gc_empty).
Definition pn_inc (me n : Z) (c : pn) : pn := (gc_inc me n (fst c), snd c).
Definition pn_dec (me n : Z) (c : pn) : pn := (fst c, gc_inc me n (snd c)).
Definition pn_merge (a b : pn) : pn := (gc_merge (fst a) (fst b), gc_merge (snd a) (snd b)).
Definition pn_value (nodes : list Z) (c : pn) : Z := gc_value nodes (fst c) - gc_value nodes (snd c).

(** A system of counter replicas.  [Snap k r]: store replica [r]'s current
    state in mailbox slot [k] (a state in flight); [MergeSnap r k]: replica [r]
    merges the state in slot [k] (any delay, duplication and reordering of
    state exchange is a sequence of these). *)
Inductive cnt_op :=
| CInc (r n : Z) | CDec (r n : Z)
| CMerge (r r' : Z)            (* r.merge(r') with r' current state *)
| CSnap (k r : Z) | CMergeSnap (r k : Z).

Record cnt_sys := { reps : Z -> pn; box : Z -> pn }.
Definition cnt_init : cnt_sys := {| reps := fun _ => pn_empty; box := fun _ => pn_empty |}.
Definition cnt_step (s : cnt_sys) (o : cnt_op) : cnt_sys :=
  match o with
  | CInc r n => {| reps := upd (reps s) r (pn_inc r n (reps s r)); box := box s |}
  | CDec r n => {| reps := upd (reps s) r (pn_dec r n (reps s r)); box := box s |}
  | CMerge r r' => {| reps := upd (reps s) r (pn_merge (reps s r) (reps s r')); box := box s |}
  | CSnap k r => {| reps := reps s; box := upd (box s) k (reps s r) |}
  | CMergeSnap r k => {| reps := upd (reps s) r (pn_merge (reps s r) (box s k)); box := box s |}
  end.
Definition cnt_run (ops : list cnt_op) : cnt_sys := fold_left cnt_step ops cnt_init.

(** Total amount incremented (resp. decremented) by node [k] in a history. *)
Fixpoint incs_of (k : Z) (ops : list cnt_op) : Z :=
  match ops with
  | [] => 0
  | CInc r n :: t => (if (r =? k) && negb (n <? 1) then n else 0) + incs_of k t
  | _ :: t => incs_of k t
  end.
Fixpoint decs_of (k : Z) (ops : list cnt_op) : Z :=
  match ops with
  | [] => 0
  | CDec r n :: t => (if (r =? k) && negb (n <? 1) then n else 0) + decs_of k t
  | _ :: t => decs_of k t
  end.

(* ------------------------------------------------------------------ *)
(** * LWW register *)

Definition lww := option (hlc_ts * Z).       (* (_timestamp, _value); None = never written *)
Definition lww_set (v : Z) (t : hlc_ts) (r : lww) : lww :=
  match r with
  | None => Some (t, v)
  | Some (t0, _) => if hlc_ltb t0 t then Some (t, v) else r
  end.
Definition lww_merge (a b : lww) : lww :=
  match b with
  | None => a
  | Some (tb, vb) =>
      match a with
      | None => b
      | Some (ta, _) => if hlc_ltb ta tb then b else a
      end
  end.
Definition lww_eqb (a b : lww) : bool :=
  option_eqb (fun x y => hlc_eqb (fst x) (fst y) && (snd x =? snd y)) a b.

(* ------------------------------------------------------------------ *)
(** * OR-set, as written: [remove] clears the local tag set, [merge] is union *)

Definition tag := (Z * Z)%type.              (* (node_id, seq) *)
Definition tag_eqb (a b : tag) : bool := (fst a =? fst b) && (snd a =? snd b).
Record orset := { os_node : Z; os_seq : Z; os_ent : list (Z * tag) }.   (* (element, tag) pairs *)
Definition os_empty (n : Z) : orset := {| os_node := n; os_seq := 0; os_ent := [] |}.
Definition os_add (e : Z) (s : orset) : orset :=
  {| os_node := os_node s; os_seq := os_seq s + 1;
     os_ent := (e, (os_node s, os_seq s)) :: os_ent s |}.
Definition os_remove (e : Z) (s : orset) : orset :=
  {| os_node := os_node s; os_seq := os_seq s;
     os_ent := filter (fun p => negb (fst p =? e)) (os_ent s) |}.
Definition os_merge (a b : orset) : orset :=
  {| os_node := os_node a; os_seq := os_seq a; os_ent := os_ent a ++ os_ent b |}.
Definition os_contains (e : Z) (s : orset) : bool :=
  existsb (fun p => fst p =? e) (os_ent s).
Definition ent_eqb (p q : Z * tag) : bool := (fst p =? fst q) && tag_eqb (snd p) (snd q).
Definition ent_mem (p : Z * tag) (l : list (Z * tag)) : bool := existsb (ent_eqb p) l.
Definition ent_subset (a b : list (Z * tag)) : bool := forallb (fun p => ent_mem p b) a.
Definition ent_seteq (a b : list (Z * tag)) : bool := ent_subset a b && ent_subset b a.

(** Replica system for the OR-set and its *specification* (observed-remove:
    an element is present iff some add of it that the replica has observed is
    not covered by a remove the replica has observed). *)
Inductive os_op :=
| OAdd (r e : Z) | ORem (r e : Z) | OMerge (r r' : Z)
| OSnap (k r : Z) | OMergeSnap (r k : Z).

Record spec_rep := { sp_obs : list (Z * tag); sp_rem : list (Z * tag) }.
Definition sp_empty := {| sp_obs := []; sp_rem := [] |}.
Definition sp_contains (e : Z) (s : spec_rep) : bool :=
  existsb (fun p => (fst p =? e) && negb (ent_mem p (sp_rem s))) (sp_obs s).
Definition sp_merge (a b : spec_rep) : spec_rep :=
  {| sp_obs := sp_obs a ++ sp_obs b; sp_rem := sp_rem a ++ sp_rem b |}.

Record os_sys := {
  oreps : Z -> orset; obox : Z -> orset;
  sreps : Z -> spec_rep; sbox : Z -> spec_rep;
}.
Definition os_init : os_sys :=
  {| oreps := os_empty; obox := os_empty; sreps := fun _ => sp_empty; sbox := fun _ => sp_empty |}.
Definition os_step (s : os_sys) (o : os_op) : os_sys :=
  match o with
  | OAdd r e =>
      let c := oreps s r in
      let t := (e, (os_node c, os_seq c)) in
      {| oreps := upd (oreps s) r (os_add e c); obox := obox s;
         sreps := upd (sreps s) r {| sp_obs := t :: sp_obs (sreps s r); sp_rem := sp_rem (sreps s r) |};
         sbox := sbox s |}
  | ORem r e =>
      let sp := sreps s r in
      {| oreps := upd (oreps s) r (os_remove e (oreps s r)); obox := obox s;
         sreps := upd (sreps s) r
                    {| sp_obs := sp_obs sp;
                       sp_rem := filter (fun p => fst p =? e) (sp_obs sp) ++ sp_rem sp |};
         sbox := sbox s |}
  | OMerge r r' =>
      {| oreps := upd (oreps s) r (os_merge (oreps s r) (oreps s r')); obox := obox s;
         sreps := upd (sreps s) r (sp_merge (sreps s r) (sreps s r')); sbox := sbox s |}
  | OSnap k r =>
      {| oreps := oreps s; obox := upd (obox s) k (oreps s r);
         sreps := sreps s; sbox := upd (sbox s) k (sreps s r) |}
  | OMergeSnap r k =>
      {| oreps := upd (oreps s) r (os_merge (oreps s r) (obox s k)); obox := obox s;
         sreps := upd (sreps s) r (sp_merge (sreps s r) (sbox s k)); sbox := sbox s |}
  end.
Definition os_run (ops : list os_op) : os_sys := fold_left os_step ops os_init.

(* ------------------------------------------------------------------ *)
(** * Comparison functions used by the correspondence check (cases.v) *)

(** Lamport: history and the implementation's timestamps. *)
Definition ok_lamport (c : list act * list Z) : bool :=
  match stamps lamport (fst c) with
  | Some ts => list_eqb Z.eqb ts (snd c)
  | None => false
  end.

(** Vector: implementation stamps given as value lists over [keys]. *)
Definition ok_vector (c : list Z * list act * list (list Z)) : bool :=
  let '(keys, tr, obs) := c in
  match stamps vector tr with
  | Some ts => list_eqb (list_eqb Z.eqb) (map (fun v => map v keys) ts) obs
  | None => false
  end.

(** happened_before / is_concurrent / merge on two snapshots of a run:
    (keys, history, i, j, impl happened_before(i,j), impl merge values). *)
Definition ok_vc_rel (c : list Z * list act * nat * nat * bool * list Z) : bool :=
  let '(keys, tr, i, j, hbij, mg) := c in
  match stamps vector tr with
  | Some ts =>
      let a := nth i ts (fun _ => 0) in let b := nth j ts (fun _ => 0) in
      Bool.eqb (vc_hbb keys a b) hbij && list_eqb Z.eqb (map (vc_merge a b) keys) mg
  | None => false
  end.

Definition ok_hlc (c : list act * list hlc_ts) : bool :=
  match stamps hlc (fst c) with
  | Some ts => list_eqb hlc_eqb ts (snd c)
  | None => false
  end.

(** Counters: ops, node universe, impl per-replica (p counts, n counts, value). *)
Definition ok_counter (c : list cnt_op * list Z * list (list Z * list Z * Z)) : bool :=
  let '(ops, nodes, obs) := c in
  let s := cnt_run ops in
  forallb2 (fun r o =>
              let '(ps, ns, v) := o in
              list_eqb Z.eqb (map (fst (reps s r)) nodes) ps
              && list_eqb Z.eqb (map (snd (reps s r)) nodes) ns
              && (pn_value nodes (reps s r) =? v))
           nodes obs.

(** LWW: a list of per-replica operations. *)
Inductive lww_op := LSet (r v : Z) (t : hlc_ts) | LMerge (r r' : Z).
Definition lww_step (s : Z -> lww) (o : lww_op) : Z -> lww :=
  match o with
  | LSet r v t => upd s r (lww_set v t (s r))
  | LMerge r r' => upd s r (lww_merge (s r) (s r'))
  end.
Definition ok_lww (c : list lww_op * list Z * list lww) : bool :=
  let '(ops, nodes, obs) := c in
  let s := fold_left lww_step ops (fun _ => None) in
  list_eqb lww_eqb (map s nodes) obs.

(** OR-set: ops, replica universe, impl per-replica (seq, entries). *)
Definition ok_orset (c : list os_op * list Z * list (Z * list (Z * tag))) : bool :=
  let '(ops, nodes, obs) := c in
  let s := os_run ops in
  forallb2 (fun r o => (os_seq (oreps s r) =? fst o) && ent_seteq (os_ent (oreps s r)) (snd o))
           nodes obs.

(** Merge of ARBITRARY counter states (any dicts, e.g. a replica restored from
    an older snapshot of itself): a, b, c given as association lists over
    [nodes]; the implementation's a.merge(b), b.merge(a), (a.merge(b)).merge(c),
    a.merge(b.merge(c)), a.merge(a) given as value lists over [nodes]. *)
Definition fn_of (l : list (Z * Z)) : gc := fun k => zget k l.
Definition ok_gc_states (c : list Z * (list (Z * Z) * list (Z * Z) * list (Z * Z)) *
                            (list Z * list Z * list Z * list Z * list Z)) : bool :=
  let '(nodes, (a, b, c3), (ab, ba, ab_c, a_bc, aa)) := c in
  let fa := fn_of a in let fb := fn_of b in let fc := fn_of c3 in
  list_eqb Z.eqb (map (gc_merge fa fb) nodes) ab
  && list_eqb Z.eqb (map (gc_merge fb fa) nodes) ba
  && list_eqb Z.eqb (map (gc_merge (gc_merge fa fb) fc) nodes) ab_c
  && list_eqb Z.eqb (map (gc_merge fa (gc_merge fb fc)) nodes) a_bc
  && list_eqb Z.eqb (map (gc_merge fa fa) nodes) aa.
