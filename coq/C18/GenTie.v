(** C18 — tie between the code and the hand-written models, through the
    REGENERATED translation [Gen/ClocksGen.v] (py2coq, from
    core/logical_clocks.py, crdt/g_counter.py, crdt/lww_register.py).

    Every lemma says: the translated method, read through the abstraction
    function of the model (Python dicts -> total functions with default 0,
    HLCTimestamp -> triple, optional timestamp -> option pair), IS the model
    function the C18 theorems are about.  They are re-checked on every run
    against the file regenerated from the current source. *)
From HS Require Import Base.Prelude Base.PyLib C18.Model C18.Causal Gen.ClocksGen.
Local Open Scope Z_scope.

(* ------------------------------------------------------------------ *)
(** * Lamport *)
Lemma tie_lamport_tick s :
  LamportClock__time (fst (LamportClock_tick s)) = c_local lamport 0 0 (LamportClock__time s).
Proof. reflexivity. Qed.

Lemma tie_lamport_send s :
  LamportClock__time (fst (LamportClock_send s)) = c_send lamport 0 0 (LamportClock__time s)
  /\ snd (LamportClock_send s) = c_stamp lamport 0 (LamportClock__time (fst (LamportClock_send s))).
Proof. split; reflexivity. Qed.

Lemma tie_lamport_receive s t :
  LamportClock__time (fst (LamportClock_receive s t)) = c_recv lamport 0 0 (LamportClock__time s) t.
Proof. reflexivity. Qed.

(* ------------------------------------------------------------------ *)
(** * HLC timestamps and the hybrid logical clock *)
Definition ts_abs (t : HLCTimestamp) : hlc_ts :=
  (HLCTimestamp_physical_ns t, HLCTimestamp_logical t, HLCTimestamp_node_id t).

Lemma tie_hlcts_lt a b : HLCTimestamp___lt__ a b = hlc_ltb (ts_abs a) (ts_abs b).
Proof.
  unfold HLCTimestamp___lt__, hlc_ltb, ts_abs. destruct a as [ap al an], b as [bp bl bn]; cbn.
  rewrite andb_false_r, orb_false_r. reflexivity.
Qed.

Lemma tie_hlcts_eq a b : HLCTimestamp___eq__ a b = hlc_eqb (ts_abs a) (ts_abs b).
Proof. unfold HLCTimestamp___eq__, hlc_eqb, ts_abs. destruct a, b; reflexivity. Qed.

(** [a > b] as functools.total_ordering derives it from [__lt__] and [__eq__]
    is the model's [hlc_ltb b a]. *)
Lemma tie_hlcts_gt a b :
  negb (HLCTimestamp___lt__ a b) && negb (HLCTimestamp___eq__ a b) = hlc_ltb (ts_abs b) (ts_abs a).
Proof.
  rewrite tie_hlcts_lt, tie_hlcts_eq. unfold hlc_ltb, hlc_eqb, ts_abs.
  destruct a as [ap al an], b as [bp bl bn]; cbn.
  destruct (ap <? bp) eqn:E1, (ap =? bp) eqn:E2, (bp <? ap) eqn:E3, (bp =? ap) eqn:E4; try lia; cbn; try reflexivity;
  destruct (al <? bl) eqn:E5, (al =? bl) eqn:E6, (bl <? al) eqn:E7, (bl =? al) eqn:E8; try lia; cbn; try reflexivity;
  destruct (an <? bn) eqn:E9, (an =? bn) eqn:E10, (bn <? an) eqn:E11; try lia; reflexivity.
Qed.

Definition hlc_abs (s : HybridLogicalClock) : hlc_st :=
  (HLCTimestamp_physical_ns (HybridLogicalClock__last s), HLCTimestamp_logical (HybridLogicalClock__last s)).
(** The constructor sets [_last.node_id = _node_id]; every method keeps it. *)
Definition hlc_wf (s : HybridLogicalClock) : Prop :=
  HLCTimestamp_node_id (HybridLogicalClock__last s) = HybridLogicalClock__node_id s.

Lemma tie_hlc_now s pt :
  let r := HybridLogicalClock_now s pt in
  hlc_abs (fst r) = c_local hlc (HybridLogicalClock__node_id s) pt (hlc_abs s)
  /\ ts_abs (snd r) = c_stamp hlc (HybridLogicalClock__node_id s) (hlc_abs (fst r))
  /\ hlc_wf (fst r) /\ HybridLogicalClock__node_id (fst r) = HybridLogicalClock__node_id s.
Proof.
  (* shape-independent: case split on every test, then computation *)
  destruct s as [n [p l nn]]. unfold HybridLogicalClock_now, hlc_abs, hlc_wf, ts_abs, hlc_now. tie_auto.
Qed.

Lemma tie_hlc_send s pt : HybridLogicalClock_send s pt = HybridLogicalClock_now s pt.
Proof. unfold HybridLogicalClock_send. destruct (HybridLogicalClock_now s pt); reflexivity. Qed.

Lemma tie_hlc_receive s r pt :
  let s' := fst (HybridLogicalClock_receive s r pt) in
  hlc_abs s' = c_recv hlc (HybridLogicalClock__node_id s) pt (hlc_abs s) (ts_abs r)
  /\ hlc_wf s' /\ HybridLogicalClock__node_id s' = HybridLogicalClock__node_id s.
Proof.
  destruct s as [n [p l nn]], r as [rp rl rn].
  unfold HybridLogicalClock_receive, hlc_abs, hlc_wf, ts_abs, hlc_recv. tie_auto.
Qed.

(* ------------------------------------------------------------------ *)
(** * LWW register *)
Definition lww_abs (r : LWWRegister) : lww :=
  match LWWRegister__timestamp r with
  | None => None
  | Some t => Some (ts_abs t, LWWRegister__value r)
  end.

Lemma tie_lww_set r v t :
  lww_abs (fst (LWWRegister_set r v t)) = lww_set v (ts_abs t) (lww_abs r).
Proof.
  unfold LWWRegister_set, lww_abs, lww_set. destruct r as [n v0 [t0|]]; cbn -[hlc_ltb]; [|reflexivity].
  rewrite tie_hlcts_gt. destruct (hlc_ltb (ts_abs t0) (ts_abs t)); reflexivity.
Qed.

Lemma tie_lww_merge a b :
  lww_abs (fst (LWWRegister_merge a b)) = lww_merge (lww_abs a) (lww_abs b).
Proof.
  unfold LWWRegister_merge, lww_abs, lww_merge.
  destruct a as [na va [ta|]], b as [nb vb [tb|]]; cbn -[hlc_ltb]; try reflexivity.
  rewrite tie_hlcts_gt. destruct (hlc_ltb (ts_abs ta) (ts_abs tb)); reflexivity.
Qed.

(** Neither operation changes the replica's identity. *)
Lemma tie_lww_node r v t a b :
  LWWRegister__node_id (fst (LWWRegister_set r v t)) = LWWRegister__node_id r
  /\ LWWRegister__node_id (fst (LWWRegister_merge a b)) = LWWRegister__node_id a.
Proof.
  unfold LWWRegister_set, LWWRegister_merge.
  destruct r as [n v0 [t0|]], a as [na va [ta|]], b as [nb vb [tb|]]; cbn; split; try reflexivity;
  repeat match goal with |- context [if ?c then _ else _] => destruct c end; reflexivity.
Qed.

(* ------------------------------------------------------------------ *)
(** * G-counter: dicts read through [dfun] are the model's total functions *)
Definition gc_abs (s : GCounter) : gc := dfun (GCounter__counts s).

Lemma tie_gc_increment s n :
  match GCounter_increment s n with
  | None => n < 1 /\ gc_inc (GCounter__node_id s) n (gc_abs s) = gc_abs s      (* ValueError, state unchanged *)
  | Some (s', _) =>
      1 <= n /\ GCounter__node_id s' = GCounter__node_id s
      /\ forall k, gc_abs s' k = gc_inc (GCounter__node_id s) n (gc_abs s) k
  end.
Proof.
  unfold GCounter_increment, gc_inc, gc_abs. destruct (n <? 1) eqn:E.
  - split; [lia|reflexivity].
  - split; [lia|]. split; [reflexivity|]. intros k. cbn. unfold dfun. rewrite dget_dset. unfold upd. reflexivity.
Qed.

Lemma tie_gc_node_value s k : GCounter_node_value s k = gc_abs s k.
Proof. reflexivity. Qed.

(** Any loop body that acts on the counts as [dmerge_step] and keeps the id. *)
Lemma gc_merge_fold_counts (F : GCounter -> Z * Z -> GCounter) :
  (forall s kv, GCounter__counts (F s kv) = dmerge_step (GCounter__counts s) kv
                /\ GCounter__node_id (F s kv) = GCounter__node_id s) ->
  forall b s,
  GCounter__counts (fold_left F b s) = fold_left dmerge_step b (GCounter__counts s)
  /\ GCounter__node_id (fold_left F b s) = GCounter__node_id s.
Proof.
  intros HF. induction b as [|kv r IH]; intros s; cbn [fold_left]; [split; reflexivity|].
  destruct (IH (F s kv)) as [H1 H2]. destruct (HF s kv) as [H3 H4]. rewrite H1, H2, H3, H4. split; reflexivity.
Qed.

Ltac gc_fold_facts H1 H2 :=
  match goal with
  | |- context [fold_left ?F0 ?b ?s] =>
      let F := fresh "F" in
      set (F := F0);
      destruct (gc_merge_fold_counts F (fun s0 kv0 => conj eq_refl eq_refl) b s) as [H1 H2]
  end.

(** Exact pointwise description of [merge] for ANY two dicts ... *)
Lemma tie_gc_merge_exact a b : dwf (GCounter__counts b) = true ->
  let a' := fst (GCounter_merge a b) in
  GCounter__node_id a' = GCounter__node_id a
  /\ forall k, gc_abs a' k = if dmem (GCounter__counts b) k then Z.max (gc_abs a k) (gc_abs b k) else gc_abs a k.
Proof.
  intros Hwf. unfold GCounter_merge, gc_abs; cbn [fst].
  gc_fold_facts H1 H2.
  split; [exact H2|]. intros k. rewrite H1. apply dmerge_fold. exact Hwf.
Qed.

(** ... which is the model's [gc_merge] when counts are non-negative (they are:
    increments are positive, see [tie_gc_increment]). *)
Lemma tie_gc_merge a b :
  dwf (GCounter__counts b) = true -> dnonneg (GCounter__counts a) ->
  forall k, gc_abs (fst (GCounter_merge a b)) k = gc_merge (gc_abs a) (gc_abs b) k.
Proof.
  intros Hwf Ha k. destruct (tie_gc_merge_exact a b Hwf) as [_ H]. rewrite H. unfold gc_merge.
  destruct (dmem (GCounter__counts b) k) eqn:E; [reflexivity|].
  unfold gc_abs at 3, dfun. rewrite (dget_not_mem _ _ _ E).
  pose proof (dnonneg_dfun _ Ha k). unfold gc_abs. lia.
Qed.

Lemma tie_gc_value s : dwf (GCounter__counts s) = true ->
  GCounter_value s = gc_value (map fst (GCounter__counts s)) (gc_abs s).
Proof.
  intros Hwf. unfold GCounter_value, gc_value, gc_abs. rewrite (dsum_keys _ Hwf).
  generalize (map fst (GCounter__counts s)) as ks. induction ks as [|k ks IH]; cbn; [reflexivity|]. rewrite IH. reflexivity.
Qed.

(** The dict invariants are kept by both mutators. *)
Lemma tie_gc_inv_increment s n s' u :
  GCounter_increment s n = Some (s', u) ->
  (dwf (GCounter__counts s) = true -> dwf (GCounter__counts s') = true)
  /\ (dnonneg (GCounter__counts s) -> dnonneg (GCounter__counts s')).
Proof.
  unfold GCounter_increment. destruct (n <? 1) eqn:E; [discriminate|]. intros H; inversion H; subst; cbn.
  split; intros Hs.
  - apply dwf_dset. exact Hs.
  - apply dnonneg_dset; [exact Hs|]. pose proof (dnonneg_dfun _ Hs (GCounter__node_id s)). unfold dfun in *. lia.
Qed.

Lemma dmerge_fold_nonneg b : forall a, dnonneg a -> dnonneg (fold_left dmerge_step b a).
Proof.
  induction b as [|kv r IH]; intros a H; cbn [fold_left]; [exact H|].
  apply IH. unfold dmerge_step. apply dnonneg_dset; [exact H|].
  pose proof (dnonneg_dfun _ H (fst kv)). unfold dfun in *. lia.
Qed.

Lemma tie_gc_inv_merge a b :
  (dwf (GCounter__counts a) = true -> dwf (GCounter__counts (fst (GCounter_merge a b))) = true)
  /\ (dnonneg (GCounter__counts a) -> dnonneg (GCounter__counts (fst (GCounter_merge a b)))).
Proof.
  unfold GCounter_merge; cbn [fst]. gc_fold_facts H1 H2. rewrite H1.
  split; intros H; [apply dmerge_fold_wf|apply dmerge_fold_nonneg]; exact H.
Qed.

(* ------------------------------------------------------------------ *)
(** * Vector clock *)
Definition vc_abs (s : VectorClock) : vec := dfun (VectorClock__vector s).
(** The constructor puts the own id into the vector; no method removes keys. *)
Definition vc_wf (s : VectorClock) : Prop := dmem (VectorClock__vector s) (VectorClock__node_id s) = true.

Lemma tie_vc_tick s : vc_wf s ->
  exists s', VectorClock_tick s = Some (s', tt)
  /\ VectorClock__node_id s' = VectorClock__node_id s /\ vc_wf s'
  /\ forall k, vc_abs s' k = c_local vector (VectorClock__node_id s) 0 (vc_abs s) k.
Proof.
  intros Hwf. unfold VectorClock_tick. rewrite (dfind_mem _ _ Hwf). eexists; split; [reflexivity|].
  cbn. split; [reflexivity|]. split.
  - unfold vc_wf; cbn. rewrite dmem_dset, Z.eqb_refl. reflexivity.
  - intros k. unfold vc_abs, vc_tick, upd; cbn. unfold dfun. rewrite dget_dset. reflexivity.
Qed.

Lemma tie_vc_send s : vc_wf s ->
  exists s', VectorClock_send s = Some (s', VectorClock__vector s')
  /\ VectorClock__node_id s' = VectorClock__node_id s /\ vc_wf s'
  /\ forall k, vc_abs s' k = c_send vector (VectorClock__node_id s) 0 (vc_abs s) k.
Proof.
  intros Hwf. unfold VectorClock_send. rewrite (dfind_mem _ _ Hwf). eexists; split; [reflexivity|].
  cbn. split; [reflexivity|]. split.
  - unfold vc_wf; cbn. rewrite dmem_dset, Z.eqb_refl. reflexivity.
  - intros k. unfold vc_abs, vc_tick, upd; cbn. unfold dfun. rewrite dget_dset. reflexivity.
Qed.

(** Any loop body that, on non-negative entries, acts on the vector as [dmerge_step]. *)
Lemma vc_recv_fold (F : VectorClock -> Z * Z -> VectorClock) :
  (forall s kv, 0 <= snd kv ->
     VectorClock__vector (F s kv) = dmerge_step (VectorClock__vector s) kv
     /\ VectorClock__node_id (F s kv) = VectorClock__node_id s) ->
  forall r s, dnonneg r ->
  VectorClock__vector (fold_left F r s) = fold_left dmerge_step r (VectorClock__vector s)
  /\ VectorClock__node_id (fold_left F r s) = VectorClock__node_id s.
Proof.
  intros HF. induction r as [|[k0 v0] r IH]; intros s Hnn; cbn [fold_left]; [split; reflexivity|].
  assert (Hr : dnonneg r) by (intros k v Hin; apply (Hnn k v); right; exact Hin).
  assert (Hv0 : 0 <= snd (k0, v0)) by (apply (Hnn k0 v0); left; reflexivity).
  destruct (IH (F s (k0, v0)) Hr) as [H1 H2]. destruct (HF s (k0, v0) Hv0) as [H3 H4].
  rewrite H1, H2, H3, H4. split; reflexivity.
Qed.

(** [receive]: element-wise max, then increment of the own component — the
    model's [vc_recv] — for non-negative vectors (all reachable ones). *)
Lemma tie_vc_receive s r :
  vc_wf s -> dwf r = true -> dnonneg r -> dnonneg (VectorClock__vector s) ->
  exists s', VectorClock_receive s r = Some (s', tt)
  /\ VectorClock__node_id s' = VectorClock__node_id s /\ vc_wf s'
  /\ forall k, vc_abs s' k = c_recv vector (VectorClock__node_id s) 0 (vc_abs s) (dfun r) k.
Proof.
  intros Hwf Hr Hnr Hns. unfold VectorClock_receive.
  match goal with |- context [fold_left ?F0 r s] => set (F := F0) end.
  assert (HF : forall s0 kv, 0 <= snd kv ->
                VectorClock__vector (F s0 kv) = dmerge_step (VectorClock__vector s0) kv
                /\ VectorClock__node_id (F s0 kv) = VectorClock__node_id s0);
    [|destruct (vc_recv_fold F HF r s Hnr) as [H1 H2]].
  { intros s0 [k0 v0] Hv0. subst F. unfold dmerge_step; cbn [fst snd] in *. cbv beta zeta. cbn [fst snd].
    destruct (dmem (VectorClock__vector s0) k0) eqn:E; cbn; [split; reflexivity|].
    rewrite (dget_not_mem _ _ _ E). rewrite Z.max_r by lia. split; reflexivity. }
  rewrite H1, H2.
  assert (Hm : dmem (fold_left dmerge_step r (VectorClock__vector s)) (VectorClock__node_id s) = true).
  { rewrite dmerge_fold_mem. unfold vc_wf in Hwf. rewrite Hwf. reflexivity. }
  rewrite (dfind_mem _ _ Hm). eexists; split; [reflexivity|]. cbn.
  split; [exact H2|]. split.
  - unfold vc_wf; cbn. rewrite H2, dmem_dset, Z.eqb_refl. reflexivity.
  - assert (Hpt : forall j, dfun (fold_left dmerge_step r (VectorClock__vector s)) j
                            = Z.max (dfun (VectorClock__vector s) j) (dfun r j)).
    { intros j. rewrite (dmerge_fold r _ Hr j). destruct (dmem r j) eqn:E; [reflexivity|].
      unfold dfun at 3. rewrite (dget_not_mem _ _ _ E). pose proof (dnonneg_dfun _ Hns j). lia. }
    intros k. rewrite dget_dset.
    change (dget (fold_left dmerge_step r (VectorClock__vector s)) (VectorClock__node_id s) 0)
      with (dfun (fold_left dmerge_step r (VectorClock__vector s)) (VectorClock__node_id s)).
    change (dget (fold_left dmerge_step r (VectorClock__vector s)) k 0)
      with (dfun (fold_left dmerge_step r (VectorClock__vector s)) k).
    rewrite !Hpt. unfold vc_recv, upd, vc_abs. reflexivity.
Qed.

Lemma tie_vc_snapshot s : VectorClock_snapshot s = VectorClock__vector s.
Proof. reflexivity. Qed.

(* ------------------------------------------------------------------ *)
(** * PNCounter (pn_counter.py): two translated G-counters; every method is the
      model's [pn_*] function on the abstraction ([_p], [_n] read through [gc_abs]). *)
Definition pn_abs (c : PNCounter) : pn := (gc_abs (PNCounter__p c), gc_abs (PNCounter__n c)).

Lemma tie_pn_increment c n :
  match PNCounter_increment c n with
  | None => n < 1
  | Some (c', _) =>
      1 <= n /\ PNCounter__n c' = PNCounter__n c /\ PNCounter__node_id c' = PNCounter__node_id c
      /\ GCounter__node_id (PNCounter__p c') = GCounter__node_id (PNCounter__p c)
      /\ forall k, fst (pn_abs c') k = fst (pn_inc (GCounter__node_id (PNCounter__p c)) n (pn_abs c)) k
  end.
Proof.
  unfold PNCounter_increment. pose proof (tie_gc_increment (PNCounter__p c) n) as H.
  destruct (GCounter_increment (PNCounter__p c) n) as [[p' u]|].
  - destruct H as (H1 & H2 & H3). cbn. repeat split; try assumption.
  - destruct H as [H _]. exact H.
Qed.

Lemma tie_pn_decrement c n :
  match PNCounter_decrement c n with
  | None => n < 1
  | Some (c', _) =>
      1 <= n /\ PNCounter__p c' = PNCounter__p c /\ PNCounter__node_id c' = PNCounter__node_id c
      /\ GCounter__node_id (PNCounter__n c') = GCounter__node_id (PNCounter__n c)
      /\ forall k, snd (pn_abs c') k = snd (pn_dec (GCounter__node_id (PNCounter__n c)) n (pn_abs c)) k
  end.
Proof.
  unfold PNCounter_decrement. pose proof (tie_gc_increment (PNCounter__n c) n) as H.
  destruct (GCounter_increment (PNCounter__n c) n) as [[p' u]|].
  - destruct H as (H1 & H2 & H3). cbn. repeat split; try assumption.
  - destruct H as [H _]. exact H.
Qed.

Lemma tie_pn_merge a b :
  dwf (GCounter__counts (PNCounter__p b)) = true -> dwf (GCounter__counts (PNCounter__n b)) = true ->
  dnonneg (GCounter__counts (PNCounter__p a)) -> dnonneg (GCounter__counts (PNCounter__n a)) ->
  forall k, fst (pn_abs (fst (PNCounter_merge a b))) k = fst (pn_merge (pn_abs a) (pn_abs b)) k
         /\ snd (pn_abs (fst (PNCounter_merge a b))) k = snd (pn_merge (pn_abs a) (pn_abs b)) k.
Proof.
  intros Wp Wn Np Nn k. unfold PNCounter_merge, pn_abs, pn_merge.
  destruct (GCounter_merge (PNCounter__p a) (PNCounter__p b)) as [p' u1] eqn:Ep.
  cbn [set_PNCounter__p PNCounter__n PNCounter__p].
  destruct (GCounter_merge (PNCounter__n a) (PNCounter__n b)) as [n' u2] eqn:En.
  cbn [fst snd set_PNCounter__n PNCounter__n PNCounter__p].
  pose proof (tie_gc_merge (PNCounter__p a) (PNCounter__p b) Wp Np k) as H1. rewrite Ep in H1.
  pose proof (tie_gc_merge (PNCounter__n a) (PNCounter__n b) Wn Nn k) as H2. rewrite En in H2.
  split; assumption.
Qed.

Lemma tie_pn_value c :
  dwf (GCounter__counts (PNCounter__p c)) = true -> dwf (GCounter__counts (PNCounter__n c)) = true ->
  PNCounter_value c = gc_value (map fst (GCounter__counts (PNCounter__p c))) (fst (pn_abs c))
                    - gc_value (map fst (GCounter__counts (PNCounter__n c))) (snd (pn_abs c))
  /\ PNCounter_increments c = gc_value (map fst (GCounter__counts (PNCounter__p c))) (fst (pn_abs c))
  /\ PNCounter_decrements c = gc_value (map fst (GCounter__counts (PNCounter__n c))) (snd (pn_abs c)).
Proof.
  intros Wp Wn. unfold PNCounter_value, PNCounter_increments, PNCounter_decrements, pn_abs; cbn [fst snd].
  rewrite (tie_gc_value _ Wp), (tie_gc_value _ Wn). repeat split.
Qed.

(* ------------------------------------------------------------------ *)
(** * VectorClock.happened_before (logical_clocks.py): a loop with [break] over the
      union of the two key sets.  Python iterates a set in an arbitrary order: the
      translation takes the iteration order as a parameter, and the tie holds for
      EVERY order that enumerates the generated element list. *)
Section HBLoop.
  Variables f g : Z -> Z.
  Variable F : bool * bool * bool -> Z -> bool * bool * bool.
  Hypothesis HF : forall leq lt x,
    F (leq, lt, true) x = (leq, lt, true) /\
    F (leq, lt, false) x = if f x >? g x then (false, lt, true)
                           else if f x <? g x then (leq, true, false) else (leq, lt, false).

  Lemma hb_loop_broken l leq lt : fold_left F l (leq, lt, true) = (leq, lt, true).
  Proof. induction l as [|x l IH]; cbn [fold_left]; [reflexivity|]. rewrite (proj1 (HF leq lt x)). apply IH. Qed.

  Lemma hb_loop l lt0 :
    let '(leq', lt', _) := fold_left F l (true, lt0, false) in
    (leq' = true <-> (forall x, In x l -> f x <= g x)) /\
    ((forall x, In x l -> f x <= g x) -> (lt' = true <-> lt0 = true \/ exists x, In x l /\ f x < g x)).
  Proof.
    revert lt0; induction l as [|x l IH]; intros lt0; cbn [fold_left].
    - split; [split; [intros _ y []|reflexivity]|]. intros _. split; [intros H; left; exact H|intros [H|[y [[] _]]]; exact H].
    - rewrite (proj2 (HF true lt0 x)).
      destruct (f x >? g x) eqn:E1.
      + rewrite hb_loop_broken. split.
        * split; [discriminate|]. intros H. specialize (H x (or_introl eq_refl)). lia.
        * intros H. specialize (H x (or_introl eq_refl)). lia.
      + destruct (f x <? g x) eqn:E2.
        * specialize (IH true). destruct (fold_left F l (true, true, false)) as [[leq' lt'] b']. destruct IH as [I1 I2]. split.
          -- rewrite I1. split; [intros H y [->|Hy]; [lia|apply H, Hy]|intros H y Hy; apply H; right; exact Hy].
          -- intros H. rewrite (I2 (fun y Hy => H y (or_intror Hy))). split; [intros _|intros _; left; reflexivity].
             right. exists x. split; [left; reflexivity|lia].
        * specialize (IH lt0). destruct (fold_left F l (true, lt0, false)) as [[leq' lt'] b']. destruct IH as [I1 I2]. split.
          -- rewrite I1. split; [intros H y [->|Hy]; [lia|apply H, Hy]|intros H y Hy; apply H; right; exact Hy].
          -- intros H. rewrite (I2 (fun y Hy => H y (or_intror Hy))). split.
             ++ intros [H0|[y [Hy Hlt]]]; [left; exact H0|right; exists y; split; [right; exact Hy|exact Hlt]].
             ++ intros [H0|[y [[->|Hy] Hlt]]]; [left; exact H0|lia|right; exists y; split; assumption].
  Qed.
End HBLoop.

Lemma dfun_notin d k : ~ In k (map fst d) -> dfun d k = 0.
Proof.
  intros H. unfold dfun. apply dget_not_mem. destruct (dmem d k) eqn:E; [|reflexivity].
  exfalso. apply H. clear H. induction d as [|[k' v'] r IH]; cbn in *; [discriminate|].
  apply orb_true_iff in E as [E|E]; [left; lia|right; exact (IH E)].
Qed.

Lemma tie_vc_happened_before a b order :
  (forall k, In k order <-> In k (VectorClock_happened_before_setiter_elems a b)) ->
  (VectorClock_happened_before a b order = true <-> vc_lt (dfun (VectorClock__vector a)) (dfun (VectorClock__vector b))).
Proof.
  intros Hord. unfold VectorClock_happened_before. cbn zeta.
  match goal with |- context [fold_left ?F0 order _] => set (F := F0) end.
  assert (HF : forall leq lt x,
    F (leq, lt, true) x = (leq, lt, true) /\
    F (leq, lt, false) x = if dfun (VectorClock__vector a) x >? dfun (VectorClock__vector b) x then (false, lt, true)
                           else if dfun (VectorClock__vector a) x <? dfun (VectorClock__vector b) x then (leq, true, false)
                           else (leq, lt, false)).
  { intros leq lt x. unfold F, dfun. split; [reflexivity|]. cbn. tie_split; try reflexivity; lia. }
  pose proof (hb_loop _ _ F HF order false) as H.
  destruct (fold_left F order (true, false, false)) as [[leq' lt'] b'] eqn:E. destruct H as [H1 H2].
  assert (Hin : forall k, ~ In k order -> dfun (VectorClock__vector a) k = 0 /\ dfun (VectorClock__vector b) k = 0).
  { intros k Hk. rewrite Hord in Hk. unfold VectorClock_happened_before_setiter_elems in Hk. rewrite in_app_iff in Hk.
    split; apply dfun_notin; tauto. }
  assert (Hdec : forall k, In k order \/ ~ In k order) by (intros k; destruct (in_dec Z.eq_dec k order); tauto).
  unfold vc_lt. split.
  - intros Hb. apply andb_true_iff in Hb as [Hl0 Ht]. pose proof (proj1 H1 Hl0) as Hl. split.
    + intros x. destruct (Hdec x) as [Hx|Hx]; [apply Hl, Hx|destruct (Hin x Hx) as [-> ->]; lia].
    + pose proof (proj1 (H2 Hl) Ht) as Ht'. destruct Ht' as [Hx0|[x [_ Hx]]]; [discriminate Hx0|exists x; exact Hx].
  - intros [Hle [k Hk]]. apply andb_true_iff.
    assert (Hl : forall x, In x order -> dfun (VectorClock__vector a) x <= dfun (VectorClock__vector b) x) by (intros x _; apply Hle).
    split; [apply (proj2 H1), Hl|]. apply (proj2 (H2 Hl)). right. exists k. split; [|exact Hk].
    destruct (Hdec k) as [Hx|Hx]; [exact Hx|destruct (Hin k Hx) as [E1 E2]; lia].
Qed.
