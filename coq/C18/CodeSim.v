(** C18 — the REGENERATED code, run over any history, simulates the models:
    so the causality theorems hold for the clock algebras assembled from the
    translated methods themselves ([Gen/ClocksGen.v]), not only for the
    hand-written ones.  Constructors ([__init__]) are not translated; the
    initial states below are written by hand from them. *)
From HS Require Import Base.Prelude Base.PyLib C18.Model C18.Causal C18.VectorIff Gen.ClocksGen C18.GenTie.
Local Open Scope Z_scope.

Section Sim.
  Variables A B : clock_alg.
  Variable RC : Z -> C A -> C B -> Prop.
  Variable RT : T A -> T B -> Prop.
  Hypothesis init_ok : forall n, RC n (c_init A n) (c_init B n).
  Hypothesis local_ok : forall n pt a b, RC n a b -> RC n (c_local A n pt a) (c_local B n pt b).
  Hypothesis send_ok : forall n pt a b, RC n a b -> RC n (c_send A n pt a) (c_send B n pt b).
  Hypothesis recv_ok : forall n pt a b ta tb, RC n a b -> RT ta tb ->
    RC n (c_recv A n pt a ta) (c_recv B n pt b tb).
  Hypothesis stamp_ok : forall n a b, RC n a b -> RT (c_stamp A n a) (c_stamp B n b).

  Definition srel (sa : cstate A) (sb : cstate B) : Prop :=
    (forall n, RC n (clk sa n) (clk sb n)) /\
    (forall m, match msgs sa m, msgs sb m with
               | Some ta, Some tb => RT ta tb
               | None, None => True
               | _, _ => False
               end).

  Lemma srel_upd_clk sa sb n ca cb ma mb :
    (forall n, RC n (clk sa n) (clk sb n)) -> RC n ca cb ->
    forall n', RC n' (clk {| clk := upd (clk sa) n ca; msgs := ma |} n')
                     (clk {| clk := upd (clk sb) n cb; msgs := mb |} n').
  Proof.
    intros H Hc n'; cbn. unfold upd. destruct (n' =? n) eqn:E; [|apply H].
    assert (n' = n) by lia; subst. exact Hc.
  Qed.

  Lemma cstep_sim sa sb a : srel sa sb ->
    match cstep A sa a, cstep B sb a with
    | Some (sa', ta), Some (sb', tb) => srel sa' sb' /\ RT ta tb
    | None, None => True
    | _, _ => False
    end.
  Proof.
    intros [Hc Hm]. destruct a as [n pt|n m pt|n m pt]; cbn.
    - split; [split|]; [apply srel_upd_clk; auto|exact Hm|apply stamp_ok, local_ok, Hc].
    - pose proof (Hm m) as Hmm. destruct (msgs sa m), (msgs sb m); try exact I; try contradiction.
      split; [split|]; [apply srel_upd_clk; auto|..|apply stamp_ok, send_ok, Hc].
      intros m'; cbn. unfold upd. destruct (m' =? m); [apply stamp_ok, send_ok, Hc|apply Hm].
    - pose proof (Hm m) as Hmm. destruct (msgs sa m) as [ta|], (msgs sb m) as [tb|]; try exact I; try contradiction.
      split; [split|]; [apply srel_upd_clk; auto|exact Hm|apply stamp_ok, recv_ok; auto].
  Qed.

  Lemma crun_sim tr : forall sa sb, srel sa sb ->
    match crun A sa tr, crun B sb tr with
    | Some (_, ta), Some (_, tb) => Forall2 RT ta tb
    | None, None => True
    | _, _ => False
    end.
  Proof.
    induction tr as [|a r IH]; intros sa sb H; cbn; [constructor|].
    pose proof (cstep_sim sa sb a H) as Hs.
    destruct (cstep A sa a) as [[sa' ta]|], (cstep B sb a) as [[sb' tb]|]; try exact I; try contradiction.
    destruct Hs as [Hrel Ht]. specialize (IH sa' sb' Hrel).
    destruct (crun A sa' r) as [[? tas]|], (crun B sb' r) as [[? tbs]|]; try exact I; try contradiction.
    constructor; assumption.
  Qed.

  Theorem stamps_sim tr :
    match stamps A tr, stamps B tr with
    | Some ta, Some tb => Forall2 RT ta tb
    | None, None => True
    | _, _ => False
    end.
  Proof.
    unfold stamps. assert (H0 : srel (cinit A) (cinit B)) by (split; [exact init_ok|intros m; exact I]).
    pose proof (crun_sim tr _ _ H0) as H.
    destruct (crun A (cinit A) tr) as [[? ta]|], (crun B (cinit B) tr) as [[? tb]|]; exact H.
  Qed.
End Sim.

Lemma Forall2_nth {X Y} (R : X -> Y -> Prop) la lb : Forall2 R la lb ->
  forall i a, nth_error la i = Some a -> exists b, nth_error lb i = Some b /\ R a b.
Proof.
  induction 1 as [|x y la lb Hxy _ IH]; intros [|i] a Hn; cbn in *; try discriminate.
  - inversion Hn; subst. eauto.
  - apply IH. exact Hn.
Qed.

(* ------------------------------------------------------------------ *)
(** * Lamport clock assembled from the translated methods *)
Definition lamport_code : clock_alg := {|
  C := LamportClock; T := Z;
  c_init := fun _ => mkLamportClock 0;                       (* LamportClock() *)
  c_local := fun _ _ s => fst (LamportClock_tick s);
  c_send := fun _ _ s => fst (LamportClock_send s);          (* the message carries the value send() returns *)
  c_recv := fun _ _ s t => fst (LamportClock_receive s t);
  c_stamp := fun _ s => LamportClock__time s;
|}.

Lemma lamport_code_send_returns_stamp s :
  snd (LamportClock_send s) = c_stamp lamport_code 0 (c_send lamport_code 0 0 s).
Proof. reflexivity. Qed.

Lemma lamport_code_sim tr :
  match stamps lamport_code tr, stamps lamport tr with
  | Some ta, Some tb => Forall2 eq ta tb
  | None, None => True
  | _, _ => False
  end.
Proof.
  apply (stamps_sim lamport_code lamport (fun _ s c => LamportClock__time s = c) eq).
  - reflexivity.
  - intros n pt a b H. cbn [c_local lamport_code]. rewrite tie_lamport_tick, H. reflexivity.
  - intros n pt a b H. cbn [c_send lamport_code]. rewrite (proj1 (tie_lamport_send a)), H. reflexivity.
  - intros n pt a b ta tb H Ht. cbn [c_recv lamport_code]. rewrite tie_lamport_receive, H, Ht. reflexivity.
  - intros n a b H; exact H.
Qed.

Theorem lamport_code_causal tr ts : stamps lamport_code tr = Some ts ->
  forall i j, hb tr i j -> forall ti tj,
  nth_error ts i = Some ti -> nth_error ts j = Some tj -> ti < tj.
Proof.
  intros Hs i j Hhb ti tj Hi Hj. pose proof (lamport_code_sim tr) as H. rewrite Hs in H.
  destruct (stamps lamport tr) as [tb|] eqn:Eb; [|contradiction].
  destruct (Forall2_nth _ _ _ H i ti Hi) as [bi [Hbi Ei]].
  destruct (Forall2_nth _ _ _ H j tj Hj) as [bj [Hbj Ej]]. subst.
  exact (lamport_causal tr tb Eb i j Hhb bi bj Hbi Hbj).
Qed.

(* ------------------------------------------------------------------ *)
(** * Hybrid logical clock assembled from the translated methods *)
Definition hlc_code : clock_alg := {|
  C := HybridLogicalClock; T := HLCTimestamp;
  c_init := fun n => mkHybridLogicalClock n (mkHLCTimestamp 0 0 n);   (* __init__ *)
  c_local := fun _ pt s => fst (HybridLogicalClock_now s pt);
  c_send := fun _ pt s => fst (HybridLogicalClock_send s pt);
  c_recv := fun _ pt s t => fst (HybridLogicalClock_receive s t pt);
  c_stamp := fun _ s => HybridLogicalClock__last s;          (* what now()/send() return: [tie_hlc_now] *)
|}.

Definition hlc_rel (n : Z) (s : HybridLogicalClock) (c : hlc_st) : Prop :=
  hlc_abs s = c /\ hlc_wf s /\ HybridLogicalClock__node_id s = n.

Lemma hlc_code_sim tr :
  match stamps hlc_code tr, stamps hlc tr with
  | Some ta, Some tb => Forall2 (fun a b => ts_abs a = b) ta tb
  | None, None => True
  | _, _ => False
  end.
Proof.
  apply (stamps_sim hlc_code hlc hlc_rel (fun a b => ts_abs a = b)).
  - intros n. repeat split.
  - intros n pt a b (Ha & Hw & Hn). destruct (tie_hlc_now a pt) as (H1 & _ & H3 & H4).
    cbn [c_local hlc_code]. repeat split; [rewrite H1, Hn, Ha; reflexivity|exact H3|rewrite H4; exact Hn].
  - intros n pt a b (Ha & Hw & Hn). cbn [c_send hlc_code]. rewrite tie_hlc_send.
    destruct (tie_hlc_now a pt) as (H1 & _ & H3 & H4).
    repeat split; [rewrite H1, Hn, Ha; reflexivity|exact H3|rewrite H4; exact Hn].
  - intros n pt a b ta tb (Ha & Hw & Hn) Ht. destruct (tie_hlc_receive a ta pt) as (H1 & H2 & H3).
    cbn [c_recv hlc_code]. repeat split; [rewrite H1, Hn, Ha, Ht; reflexivity|exact H2|rewrite H3; exact Hn].
  - intros n a b (Ha & Hw & Hn). cbn. unfold ts_abs. unfold hlc_abs in Ha. unfold hlc_wf in Hw.
    rewrite <- Ha, Hw, Hn. reflexivity.
Qed.

Theorem hlc_code_causal tr ts : stamps hlc_code tr = Some ts ->
  forall i j, hb tr i j -> forall ti tj,
  nth_error ts i = Some ti -> nth_error ts j = Some tj -> HLCTimestamp___lt__ ti tj = true.
Proof.
  intros Hs i j Hhb ti tj Hi Hj. pose proof (hlc_code_sim tr) as H. rewrite Hs in H.
  destruct (stamps hlc tr) as [tb|] eqn:Eb; [|contradiction].
  destruct (Forall2_nth _ _ _ H i ti Hi) as [bi [Hbi Ei]].
  destruct (Forall2_nth _ _ _ H j tj Hj) as [bj [Hbj Ej]]. subst.
  rewrite tie_hlcts_lt. exact (hlc_causal tr tb Eb i j Hhb _ _ Hbi Hbj).
Qed.

(* ------------------------------------------------------------------ *)
(** * Vector clock assembled from the translated methods
    (a KeyError — impossible by [vc_wf] — would leave the state unchanged). *)
Definition vc_or (s : VectorClock) {X} (r : option (VectorClock * X)) : VectorClock :=
  match r with Some (s', _) => s' | None => s end.

Definition vector_code : clock_alg := {|
  C := VectorClock; T := pydict;
  c_init := fun n => mkVectorClock n [(n, 0)];               (* __init__ with node_ids = [n]; other ids read 0 *)
  c_local := fun _ _ s => vc_or s (VectorClock_tick s);
  c_send := fun _ _ s => vc_or s (VectorClock_send s);
  c_recv := fun _ _ s t => vc_or s (VectorClock_receive s t);
  c_stamp := fun _ s => VectorClock_snapshot s;
|}.

Definition dpw (d : pydict) (v : vec) : Prop := dwf d = true /\ dnonneg d /\ forall k, dfun d k = v k.
Definition vc_rel (n : Z) (s : VectorClock) (v : vec) : Prop :=
  VectorClock__node_id s = n /\ vc_wf s /\ dpw (VectorClock__vector s) v.

Lemma vc_tick_rel n s v s' :
  vc_rel n s v -> VectorClock__node_id s' = VectorClock__node_id s -> vc_wf s' ->
  VectorClock__vector s' = dset (VectorClock__vector s) n (dget (VectorClock__vector s) n 0 + 1) ->
  vc_rel n s' (vc_tick n v).
Proof.
  intros (Hn & Hw & Hd & Hnn & Hp) Hn' Hw' Hv. repeat split; [congruence|exact Hw'|..]; rewrite Hv.
  - apply dwf_dset, Hd.
  - apply dnonneg_dset; [exact Hnn|]. pose proof (dnonneg_dfun _ Hnn n). unfold dfun in *. lia.
  - intros k. rewrite dfun_dset. unfold vc_tick, upd. rewrite <- !Hp. reflexivity.
Qed.

Lemma vector_code_sim tr :
  match stamps vector_code tr, stamps vector tr with
  | Some ta, Some tb => Forall2 dpw ta tb
  | None, None => True
  | _, _ => False
  end.
Proof.
  apply (stamps_sim vector_code vector vc_rel dpw).
  - intros n. unfold vc_rel, vc_wf, dpw; cbn. rewrite Z.eqb_refl. repeat split.
    + intros k v [E|[]]; inversion E; lia.
    + intros k. unfold dfun; cbn. destruct (n =? k); reflexivity.
  - intros n pt s v H. pose proof H as (Hn & Hw & _). cbn [c_local vector_code vector].
    unfold VectorClock_tick. rewrite (dfind_mem _ _ Hw). cbn [vc_or].
    eapply vc_tick_rel; [exact H|reflexivity|..].
    + unfold vc_wf; cbn. rewrite dmem_dset, Z.eqb_refl. reflexivity.
    + cbn. rewrite Hn. reflexivity.
  - intros n pt s v H. pose proof H as (Hn & Hw & _). cbn [c_send vector_code vector].
    unfold VectorClock_send. rewrite (dfind_mem _ _ Hw). cbn [vc_or].
    eapply vc_tick_rel; [exact H|reflexivity|..].
    + unfold vc_wf; cbn. rewrite dmem_dset, Z.eqb_refl. reflexivity.
    + cbn. rewrite Hn. reflexivity.
  - intros n pt s v ta tb (Hn & Hw & Hd & Hnn & Hp) (Hta & Htn & Htp). cbn [c_recv vector_code vector].
    destruct (tie_vc_receive s ta Hw Hta Htn Hnn) as (s' & Hs' & Hn' & Hw' & Hv').
    rewrite Hs'. cbn [vc_or]. split; [congruence|]. split; [exact Hw'|].
    (* invariants of the new dict: go through the exact shape of the result *)
    unfold VectorClock_receive in Hs'.
    match type of Hs' with context [fold_left ?F0 ta s] => set (F := F0) in Hs' end.
    assert (HF : forall s0 kv, 0 <= snd kv ->
              VectorClock__vector (F s0 kv) = dmerge_step (VectorClock__vector s0) kv
              /\ VectorClock__node_id (F s0 kv) = VectorClock__node_id s0).
    { intros s0 [k0 v0] Hv0. subst F. unfold dmerge_step; cbn [fst snd] in *. cbv beta zeta. cbn [fst snd].
      destruct (dmem (VectorClock__vector s0) k0) eqn:E; cbn; [split; reflexivity|].
      rewrite (dget_not_mem _ _ _ E). rewrite Z.max_r by lia. split; reflexivity. }
    destruct (vc_recv_fold F HF ta s Htn) as [H1 H2]. rewrite H1, H2 in Hs'.
    assert (Hm : dmem (fold_left dmerge_step ta (VectorClock__vector s)) (VectorClock__node_id s) = true).
    { rewrite dmerge_fold_mem. unfold vc_wf in Hw. rewrite Hw. reflexivity. }
    rewrite (dfind_mem _ _ Hm) in Hs'. inversion Hs' as [Hs'']. cbn.
    repeat split.
    + apply dwf_dset, dmerge_fold_wf, Hd.
    + apply dnonneg_dset; [apply dmerge_fold_nonneg, Hnn|].
      pose proof (dnonneg_dfun _ (dmerge_fold_nonneg ta _ Hnn) (VectorClock__node_id s)). unfold dfun in *. lia.
    + intros k. rewrite <- Hs'' in Hv'. unfold vc_abs in Hv'. cbn [VectorClock__vector set_VectorClock__vector c_recv vector] in Hv'.
      rewrite Hv'. rewrite Hn. unfold vc_recv, upd. rewrite <- !Hp, <- !Htp. reflexivity.
  - intros n s v (Hn & Hw & Hd). exact Hd.
Qed.

(** Strict pointwise order on the snapshots the code exchanges (missing key = 0). *)
Definition dict_lt (a b : pydict) : Prop := vc_lt (dfun a) (dfun b).

Theorem vector_code_iff tr ts : stamps vector_code tr = Some ts ->
  forall i j ti tj, nth_error ts i = Some ti -> nth_error ts j = Some tj -> (dict_lt ti tj <-> hb tr i j).
Proof.
  intros Hs i j ti tj Hi Hj. pose proof (vector_code_sim tr) as H. rewrite Hs in H.
  destruct (stamps vector tr) as [tb|] eqn:Eb; [|contradiction].
  destruct (Forall2_nth _ _ _ H i ti Hi) as [bi [Hbi (_ & _ & Ei)]].
  destruct (Forall2_nth _ _ _ H j tj Hj) as [bj [Hbj (_ & _ & Ej)]].
  rewrite <- (vector_iff tr tb Eb i j bi bj Hbi Hbj). unfold dict_lt, vc_lt.
  split; intros [L [k S]]; (split; [intros x; specialize (L x)|exists k]); rewrite ?Ei, ?Ej in *; lia.
Qed.

(** The code's own comparison decides happened-before: on the snapshots of two
    events of a history, [VectorClock.happened_before] (as regenerated, for every
    iteration order of its key set) is true exactly when the first event happened
    before the second. *)
Theorem vector_code_happened_before tr ts : stamps vector_code tr = Some ts ->
  forall i j ti tj, nth_error ts i = Some ti -> nth_error ts j = Some tj ->
  forall a b order, VectorClock__vector a = ti -> VectorClock__vector b = tj ->
  (forall k, In k order <-> In k (VectorClock_happened_before_setiter_elems a b)) ->
  (VectorClock_happened_before a b order = true <-> hb tr i j).
Proof.
  intros Hs i j ti tj Hi Hj a b order Ea Eb Hord.
  rewrite (tie_vc_happened_before a b order Hord), Ea, Eb.
  exact (vector_code_iff tr ts Hs i j ti tj Hi Hj).
Qed.

(** ... and the code's own [VectorClock.is_concurrent] (two evaluations of
    [happened_before], each with its own arbitrary iteration order) is true exactly
    when neither event happened before the other. *)
Theorem vector_code_is_concurrent tr ts : stamps vector_code tr = Some ts ->
  forall i j ti tj, nth_error ts i = Some ti -> nth_error ts j = Some tj ->
  forall a b o1 o2, VectorClock__vector a = ti -> VectorClock__vector b = tj ->
  (forall k, In k o1 <-> In k (VectorClock_happened_before_setiter_elems a b)) ->
  (forall k, In k o2 <-> In k (VectorClock_happened_before_setiter_elems b a)) ->
  (VectorClock_is_concurrent a b o1 o2 = true <-> ~ hb tr i j /\ ~ hb tr j i).
Proof.
  intros Hs i j ti tj Hi Hj a b o1 o2 Ea Eb H1 H2. unfold VectorClock_is_concurrent.
  pose proof (vector_code_happened_before tr ts Hs i j ti tj Hi Hj a b o1 Ea Eb H1) as A.
  pose proof (vector_code_happened_before tr ts Hs j i tj ti Hj Hi b a o2 Eb Ea H2) as B.
  destruct (VectorClock_happened_before a b o1), (VectorClock_happened_before b a o2); cbn.
  - split; [discriminate|]. intros [N1 _]. exfalso. apply N1, A. reflexivity.
  - split; [discriminate|]. intros [N1 _]. exfalso. apply N1, A. reflexivity.
  - split; [discriminate|]. intros [_ N2]. exfalso. apply N2, B. reflexivity.
  - split; [|reflexivity]. intros _. split; intros X; [apply A in X|apply B in X]; discriminate.
Qed.
