(** C18 — CRDT merge laws, counter value specification, LWW greatest-timestamp,
    OR-set: what holds (no add is lost; merge laws of the tag map) and what is
    refuted (the observed-remove specification). *)
From HS Require Import Base.Prelude C18.Model.
Local Open Scope Z_scope.

(* ------------------------------------------------------------------ *)
(** * G-counter / PN-counter merge laws (pointwise = dict equality, since the
      code never stores a zero count) *)

Lemma gc_merge_comm a b k : gc_merge a b k = gc_merge b a k.
Proof. unfold gc_merge; lia. Qed.
Lemma gc_merge_assoc a b c k : gc_merge (gc_merge a b) c k = gc_merge a (gc_merge b c) k.
Proof. unfold gc_merge; lia. Qed.
Lemma gc_merge_idem a k : gc_merge a a k = a k.
Proof. unfold gc_merge; lia. Qed.

Definition pn_eq (a b : pn) : Prop := (forall k, fst a k = fst b k) /\ (forall k, snd a k = snd b k).

Lemma pn_merge_comm a b : pn_eq (pn_merge a b) (pn_merge b a).
Proof. split; intros k; apply gc_merge_comm. Qed.
Lemma pn_merge_assoc a b c : pn_eq (pn_merge (pn_merge a b) c) (pn_merge a (pn_merge b c)).
Proof. split; intros k; apply gc_merge_assoc. Qed.
Lemma pn_merge_idem a : pn_eq (pn_merge a a) a.
Proof. split; intros k; apply gc_merge_idem. Qed.

Lemma zsum_ext (f g : Z -> Z) l : (forall k, In k l -> f k = g k) -> zsum (map f l) = zsum (map g l).
Proof.
  induction l as [|x l IH]; intros H; cbn; [reflexivity|].
  rewrite (H x (or_introl eq_refl)), IH; auto. intros k Hk; apply H; right; exact Hk.
Qed.

Lemma pn_value_ext nodes a b : pn_eq a b -> pn_value nodes a = pn_value nodes b.
Proof.
  intros [H1 H2]. unfold pn_value, gc_value.
  rewrite (zsum_ext (fst a) (fst b)), (zsum_ext (snd a) (snd b)); auto.
Qed.

(* ------------------------------------------------------------------ *)
(** * Counter systems: every replica's view of node k is bounded by, and node
      k's own entry equals, the total k has incremented. *)

Definition cnt_inv (s : cnt_sys) (I D : Z -> Z) : Prop :=
  forall r k,
    (fst (reps s r) k <= I k /\ fst (reps s k) k = I k /\ fst (box s r) k <= I k) /\
    (snd (reps s r) k <= D k /\ snd (reps s k) k = D k /\ snd (box s r) k <= D k).

Definition inc_contrib (o : cnt_op) (k : Z) : Z :=
  match o with CInc r n => if (r =? k) && negb (n <? 1) then n else 0 | _ => 0 end.
Definition dec_contrib (o : cnt_op) (k : Z) : Z :=
  match o with CDec r n => if (r =? k) && negb (n <? 1) then n else 0 | _ => 0 end.

Lemma cnt_step_inv s I D o : cnt_inv s I D ->
  cnt_inv (cnt_step s o) (fun k => I k + inc_contrib o k) (fun k => D k + dec_contrib o k).
Proof.
  intros H r k. destruct (H r k) as [(P1 & P2 & P3) (N1 & N2 & N3)].
  destruct o as [r0 n|r0 n|r0 r1|k0 r0|r0 k0]; cbn [cnt_step inc_contrib dec_contrib reps box];
    unfold upd, pn_inc, pn_dec, pn_merge, gc_inc, gc_merge; cbn [fst snd].
  - (* CInc *)
    destruct (H r0 k) as [(Q1 & Q2 & Q3) _].
    destruct (Z.eqb_spec r r0), (Z.eqb_spec k r0), (Z.eqb_spec r0 k), (n <? 1) eqn:En;
      subst; cbn [fst snd negb andb]; unfold upd; rewrite ?Z.eqb_refl;
      repeat match goal with |- context [?a =? ?b] => destruct (Z.eqb_spec a b); subst end;
      try congruence; try lia.
  - (* CDec *)
    destruct (H r0 k) as [_ (Q1 & Q2 & Q3)].
    destruct (Z.eqb_spec r r0), (Z.eqb_spec k r0), (Z.eqb_spec r0 k), (n <? 1) eqn:En;
      subst; cbn [fst snd negb andb]; unfold upd; rewrite ?Z.eqb_refl;
      repeat match goal with |- context [?a =? ?b] => destruct (Z.eqb_spec a b); subst end;
      try congruence; try lia.
  - (* CMerge *)
    destruct (H r0 k) as [(Q1 & Q2 & Q3) (M1 & M2 & M3)].
    destruct (H r1 k) as [(R1 & R2 & R3) (S1 & S2 & S3)].
    destruct (Z.eqb_spec r r0), (Z.eqb_spec k r0); subst; cbn [fst snd]; lia.
  - (* CSnap *)
    destruct (H r0 k) as [(Q1 & Q2 & Q3) (M1 & M2 & M3)].
    destruct (Z.eqb_spec r k0); subst; cbn [fst snd]; lia.
  - (* CMergeSnap *)
    destruct (H r0 k) as [(Q1 & Q2 & Q3) (M1 & M2 & M3)].
    destruct (H k0 k) as [(R1 & R2 & R3) (S1 & S2 & S3)].
    destruct (Z.eqb_spec r r0), (Z.eqb_spec k r0); subst; cbn [fst snd]; lia.
Qed.

Lemma cnt_inv_ext s I D I' D' :
  (forall k, I k = I' k) -> (forall k, D k = D' k) -> cnt_inv s I D -> cnt_inv s I' D'.
Proof. intros HI HD H r k. rewrite <- HI, <- HD. apply H. Qed.

Lemma incs_of_app k a b : incs_of k (a ++ b) = incs_of k a + incs_of k b.
Proof. induction a as [|[]]; cbn; lia. Qed.
Lemma decs_of_app k a b : decs_of k (a ++ b) = decs_of k a + decs_of k b.
Proof. induction a as [|[]]; cbn; lia. Qed.

Theorem cnt_run_inv ops :
  cnt_inv (cnt_run ops) (fun k => incs_of k ops) (fun k => decs_of k ops).
Proof.
  induction ops as [|o ops IH] using rev_ind.
  - intros r k; cbv [cnt_run fold_left cnt_init reps box pn_empty gc_empty fst snd incs_of decs_of]; lia.
  - unfold cnt_run in *. rewrite fold_left_app; cbn [fold_left].
    eapply cnt_inv_ext; [| |apply cnt_step_inv; exact IH].
    + intros k. rewrite incs_of_app. destruct o; cbn; lia.
    + intros k. rewrite decs_of_app. destruct o; cbn; lia.
Qed.

(** A replica whose entries agree with every node's own entry (it has received
    every update) has the specified value: increments minus decrements. *)
Theorem counter_value_spec ops nodes r :
  let s := cnt_run ops in
  (forall k, In k nodes -> fst (reps s r) k = fst (reps s k) k /\ snd (reps s r) k = snd (reps s k) k) ->
  pn_value nodes (reps s r) =
    zsum (map (fun k => incs_of k ops) nodes) - zsum (map (fun k => decs_of k ops) nodes).
Proof.
  intros s H. unfold pn_value, gc_value.
  rewrite (zsum_ext (fst (reps s r)) (fun k => incs_of k ops)),
          (zsum_ext (snd (reps s r)) (fun k => decs_of k ops)); [reflexivity| |].
  - intros k Hk. destruct (H k Hk) as [_ E]. rewrite E.
    destruct (cnt_run_inv ops r k) as [_ (_ & E2 & _)]. exact E2.
  - intros k Hk. destruct (H k Hk) as [E _]. rewrite E.
    destruct (cnt_run_inv ops r k) as [(_ & E2 & _) _]. exact E2.
Qed.

(** Merging the current state of every node (in any order, here the order of
    the list) establishes the premise of [counter_value_spec]. *)
Lemma merge_all_reaches s I D r l :
  cnt_inv s I D ->
  let s' := fold_left cnt_step (map (CMerge r) l) s in
  cnt_inv s' I D /\
  (forall k, (In k l \/ fst (reps s r) k = I k) -> fst (reps s' r) k = I k) /\
  (forall k, (In k l \/ snd (reps s r) k = D k) -> snd (reps s' r) k = D k).
Proof.
  revert s; induction l as [|x l IH]; intros s H; cbn [map fold_left].
  - split; [exact H|]. split; intros k [[]|E]; exact E.
  - assert (H1 : cnt_inv (cnt_step s (CMerge r x)) I D).
    { eapply cnt_inv_ext; [| |apply cnt_step_inv; exact H]; intros k; cbn; lia. }
    destruct (IH _ H1) as (Hinv & HP & HN). split; [exact Hinv|].
    split; intros k Hk.
    + apply HP. destruct Hk as [[->|Hin]|E]; [right|left; exact Hin|right].
      * cbn. unfold upd, pn_merge, gc_merge. rewrite Z.eqb_refl; cbn.
        destruct (H r k) as [(P1 & _) _]. destruct (H k k) as [(_ & P2 & _) _]. lia.
      * cbn. unfold upd, pn_merge, gc_merge. rewrite Z.eqb_refl; cbn.
        destruct (H x k) as [(P1 & _) _]. lia.
    + apply HN. destruct Hk as [[->|Hin]|E]; [right|left; exact Hin|right].
      * cbn. unfold upd, pn_merge, gc_merge. rewrite Z.eqb_refl; cbn.
        destruct (H r k) as [_ (P1 & _)]. destruct (H k k) as [_ (_ & P2 & _)]. lia.
      * cbn. unfold upd, pn_merge, gc_merge. rewrite Z.eqb_refl; cbn.
        destruct (H x k) as [_ (P1 & _)]. lia.
Qed.

Theorem counter_converges ops nodes r :
  pn_value nodes (reps (cnt_run (ops ++ map (CMerge r) nodes)) r) =
    zsum (map (fun k => incs_of k ops) nodes) - zsum (map (fun k => decs_of k ops) nodes).
Proof.
  unfold cnt_run. rewrite fold_left_app.
  destruct (merge_all_reaches _ _ _ r nodes (cnt_run_inv ops)) as (_ & HP & HN).
  unfold pn_value, gc_value.
  rewrite (zsum_ext _ (fun k => incs_of k ops)), (zsum_ext (snd _) (fun k => decs_of k ops)).
  - reflexivity.
  - intros k Hk. apply HN. left; exact Hk.
  - intros k Hk. apply HP. left; exact Hk.
Qed.

(* ------------------------------------------------------------------ *)
(** * LWW register *)

Lemma hlc_ltb_irrefl a : hlc_ltb a a = false.
Proof. destruct a as [[p l] n]; unfold hlc_ltb; lia. Qed.
Lemma hlc_ltb_asym a b : hlc_ltb a b = true -> hlc_ltb b a = false.
Proof. destruct a as [[p l] n], b as [[p' l'] n']; unfold hlc_ltb; lia. Qed.
Lemma hlc_ltb_trans' a b c : hlc_ltb a b = true -> hlc_ltb b c = true -> hlc_ltb a c = true.
Proof. destruct a as [[ap al] an], b as [[bp bl] bn], c as [[cp cl] cn]; unfold hlc_ltb; lia. Qed.
Lemma hlc_total a b : hlc_ltb a b = false -> hlc_ltb b a = false -> a = b.
Proof.
  destruct a as [[p l] n], b as [[p' l'] n']; unfold hlc_ltb; intros H1 H2.
  assert (p = p' /\ l = l' /\ n = n') as (-> & -> & ->) by lia. reflexivity.
Qed.
Lemma hlc_negtrans a b c : hlc_ltb a b = false -> hlc_ltb b c = false -> hlc_ltb a c = false.
Proof. destruct a as [[ap al] an], b as [[bp bl] bn], c as [[cp cl] cn]; unfold hlc_ltb; lia. Qed.

Lemma lww_merge_idem a : lww_merge a a = a.
Proof. destruct a as [[t v]|]; cbn; [rewrite hlc_ltb_irrefl|]; reflexivity. Qed.

(** Associativity holds outright ("first maximal element" is associative). *)
Lemma lww_merge_assoc a b c : lww_merge (lww_merge a b) c = lww_merge a (lww_merge b c).
Proof.
  destruct a as [[ta va]|], b as [[tb vb]|], c as [[tc vc]|]; cbn; try reflexivity.
  - destruct (hlc_ltb ta tb) eqn:Eab, (hlc_ltb tb tc) eqn:Ebc; cbn; rewrite ?Eab, ?Ebc;
      first [ reflexivity
            | rewrite (hlc_ltb_trans' _ _ _ Eab Ebc); reflexivity
            | rewrite (hlc_negtrans _ _ _ Eab Ebc); reflexivity ].
  - destruct (hlc_ltb tb tc); reflexivity.
Qed.

(** Commutativity needs timestamps to identify writes (they carry the node id
    and each node's HLC is strictly increasing — [hlc_causal]). *)
Definition lww_consistent (a b : lww) : Prop :=
  match a, b with Some (ta, va), Some (tb, vb) => ta = tb -> va = vb | _, _ => True end.

Lemma lww_merge_comm a b : lww_consistent a b -> lww_merge a b = lww_merge b a.
Proof.
  destruct a as [[ta va]|], b as [[tb vb]|]; cbn; try reflexivity. intros Hc.
  destruct (hlc_ltb ta tb) eqn:E1, (hlc_ltb tb ta) eqn:E2; try reflexivity.
  - rewrite (hlc_ltb_asym _ _ E1) in E2. discriminate.
  - pose proof (hlc_total _ _ E1 E2) as ->. rewrite (Hc eq_refl). reflexivity.
Qed.

(** The register holds the write with the greatest timestamp among all sets
    applied to it (first such write on ties). *)
Definition lww_apply (r : lww) (w : Z * hlc_ts) : lww := lww_set (fst w) (snd w) r.

Theorem lww_holds_greatest ws r0 :
  match fold_left lww_apply ws r0 with
  | None => ws = [] /\ r0 = None
  | Some (t, v) =>
      (r0 = Some (t, v) \/ In (v, t) ws) /\
      (forall v' t', In (v', t') ws -> hlc_ltb t t' = false) /\
      (forall t0 v0, r0 = Some (t0, v0) -> hlc_ltb t t0 = false)
  end.
Proof.
  revert r0; induction ws as [|[v1 t1] ws IH]; intros r0; cbn [fold_left].
  - destruct r0 as [[t v]|]; [|auto]. split; [auto|]. split; [intros ? ? []|].
    intros t0 v0 E; inversion E; subst. apply hlc_ltb_irrefl.
  - specialize (IH (lww_apply r0 (v1, t1))).
    destruct (fold_left lww_apply ws (lww_apply r0 (v1, t1))) as [[t v]|].
    + destruct IH as (Hsrc & Hmax & Hinit).
      unfold lww_apply, lww_set in Hsrc, Hinit; cbn [fst snd] in Hsrc, Hinit.
      destruct r0 as [[t0 v0]|].
      * destruct (hlc_ltb t0 t1) eqn:E.
        -- split; [|split].
           ++ destruct Hsrc as [Hs|Hs]; [inversion Hs; subst; right; left; reflexivity|right; right; exact Hs].
           ++ intros v' t' [Hin|Hin]; [inversion Hin; subst; eapply Hinit; reflexivity|eauto].
           ++ intros t2 v2 E2; inversion E2; subst.
              specialize (Hinit _ _ eq_refl).
              destruct (hlc_ltb t t2) eqn:E3; [|reflexivity].
              rewrite (hlc_ltb_trans' _ _ _ E3 E) in Hinit. discriminate.
        -- split; [|split].
           ++ destruct Hsrc as [Hs|Hs]; [left; exact Hs|right; right; exact Hs].
           ++ intros v' t' [Hin|Hin]; [inversion Hin; subst|eauto].
              specialize (Hinit _ _ eq_refl). eapply hlc_negtrans; eauto.
           ++ intros t2 v2 E2; inversion E2; subst. eapply Hinit; reflexivity.
      * split; [|split].
        -- destruct Hsrc as [Hs|Hs]; [inversion Hs; subst; right; left; reflexivity|right; right; exact Hs].
        -- intros v' t' [Hin|Hin]; [inversion Hin; subst; eapply Hinit; reflexivity|eauto].
        -- intros ? ? E; discriminate.
    + destruct IH as [_ IH]. unfold lww_apply, lww_set in IH; cbn in IH.
      destruct r0 as [[t0 v0]|]; [destruct (hlc_ltb t0 t1)|]; discriminate.
Qed.

(* ------------------------------------------------------------------ *)
(** * OR-set *)

Lemma ent_eqb_spec p q : ent_eqb p q = true <-> p = q.
Proof.
  destruct p as [e [n s]], q as [e' [n' s']]; unfold ent_eqb, tag_eqb; cbn. split.
  - intros H. assert (e = e' /\ n = n' /\ s = s') as (-> & -> & ->) by lia. reflexivity.
  - intros H; inversion H; subst. lia.
Qed.
Lemma ent_mem_spec p l : ent_mem p l = true <-> In p l.
Proof.
  unfold ent_mem. rewrite existsb_exists. split.
  - intros [q [Hin Heq]]. apply ent_eqb_spec in Heq. subst; exact Hin.
  - intros Hin. exists p. split; [exact Hin|apply ent_eqb_spec; reflexivity].
Qed.

(** Merge laws of the structure the code implements (a grow-only map from
    element to tag set): as sets of (element, tag) pairs. *)
Lemma os_merge_comm a b p : In p (os_ent (os_merge a b)) <-> In p (os_ent (os_merge b a)).
Proof. cbn. rewrite !in_app_iff. tauto. Qed.
Lemma os_merge_assoc a b c p :
  In p (os_ent (os_merge (os_merge a b) c)) <-> In p (os_ent (os_merge a (os_merge b c))).
Proof. cbn. rewrite !in_app_iff. tauto. Qed.
Lemma os_merge_idem a p : In p (os_ent (os_merge a a)) <-> In p (os_ent a).
Proof. cbn. rewrite !in_app_iff. tauto. Qed.

Lemma os_contains_spec e s : os_contains e s = true <-> exists t, In (e, t) (os_ent s).
Proof.
  unfold os_contains. rewrite existsb_exists. split.
  - intros [[e' t] [Hin Heq]]. cbn in Heq. apply Z.eqb_eq in Heq. subst. eauto.
  - intros [t Hin]. exists (e, t). split; [exact Hin|cbn; apply Z.eqb_refl].
Qed.

(** Invariant relating the code's state with the specification state. *)
Definition os_rel (o : orset) (sp : spec_rep) : Prop :=
  (forall p, In p (os_ent o) -> In p (sp_obs sp)) /\
  (forall p, In p (sp_obs sp) -> ~ In p (sp_rem sp) -> In p (os_ent o)).

Definition os_sys_inv (s : os_sys) : Prop :=
  forall r, os_rel (oreps s r) (sreps s r) /\ os_rel (obox s r) (sbox s r).

Lemma os_rel_merge a sa b sb : os_rel a sa -> os_rel b sb -> os_rel (os_merge a b) (sp_merge sa sb).
Proof.
  intros [A1 A2] [B1 B2]. split; cbn; intros p; rewrite ?in_app_iff.
  - intros [H|H]; [left; apply A1|right; apply B1]; exact H.
  - intros [H|H] Hn; [left; apply A2|right; apply B2]; tauto.
Qed.

Lemma os_step_inv s o : os_sys_inv s -> os_sys_inv (os_step s o).
Proof.
  intros H r. destruct o as [r0 e|r0 e|r0 r1|k r0|r0 k]; cbn [os_step oreps obox sreps sbox]; unfold upd.
  - destruct (H r) as [Hr Hb]. split; [|exact Hb].
    destruct (Z.eqb_spec r r0); [subst|exact Hr].
    destruct Hr as [A1 A2]. split; cbn; intros p.
    + intros [E|Hin]; [left; exact E|right; apply A1; exact Hin].
    + intros [E|Hin] Hn; [left; exact E|right; apply A2; auto].
  - destruct (H r) as [Hr Hb]. split; [|exact Hb].
    destruct (Z.eqb_spec r r0); [subst|exact Hr].
    destruct Hr as [A1 A2]. split; cbn; intros p.
    + rewrite filter_In. intros [Hin _]. apply A1; exact Hin.
    + intros Hin Hn. rewrite in_app_iff, filter_In in Hn. rewrite filter_In.
      split; [apply A2; tauto|].
      destruct (fst p =? e) eqn:E; [|reflexivity]. exfalso. apply Hn. left. split; auto.
  - destruct (H r) as [Hr Hb]. split; [|exact Hb].
    destruct (Z.eqb_spec r r0); [subst|exact Hr].
    apply os_rel_merge; [exact Hr|apply (H r1)].
  - destruct (H r) as [Hr Hb]. split; [exact Hr|].
    destruct (Z.eqb_spec r k); [subst; apply (H r0)|exact Hb].
  - destruct (H r) as [Hr Hb]. split; [|exact Hb].
    destruct (Z.eqb_spec r r0); [subst|exact Hr].
    apply os_rel_merge; [exact Hr|apply (H k)].
Qed.

Lemma os_run_inv ops : os_sys_inv (os_run ops).
Proof.
  unfold os_run. induction ops as [|o ops IH] using rev_ind.
  - intros r; cbn. split; split; cbn; tauto.
  - rewrite fold_left_app. cbn. apply os_step_inv. exact IH.
Qed.

(** PARTIAL (what holds of the code): an element the specification says is
    present — some observed add is not covered by an observed remove — is
    present in the implementation, on every replica, after every history.
    Adds are never lost. *)
Theorem orset_no_lost_add_partial ops r e :
  sp_contains e (sreps (os_run ops) r) = true -> os_contains e (oreps (os_run ops) r) = true.
Proof.
  destruct (os_run_inv ops r) as [[_ A2] _]. unfold sp_contains.
  rewrite existsb_exists. intros [[e' t] [Hin Hc]]. cbn in Hc.
  apply andb_true_iff in Hc as [He Hn]. apply Z.eqb_eq in He. subst e'.
  apply os_contains_spec. exists t. apply A2; [exact Hin|].
  intros Hm. apply ent_mem_spec in Hm. rewrite Hm in Hn. discriminate.
Qed.

(** FULL STATEMENT (property C18, OR-set clause): the set contains an element
    exactly when some add of it was not observed by a remove. *)
Definition orset_add_wins_statement : Prop :=
  forall ops r e, os_contains e (oreps (os_run ops) r) = sp_contains e (sreps (os_run ops) r).

(** REFUTED on the faithful model: A adds x; B merges A; A removes x; A merges
    B — x is back at A although its only add was observed by the remove. *)
Definition orset_witness : list os_op := [OAdd 0 7; OMerge 1 0; ORem 0 7; OMerge 0 1].

Theorem orset_add_wins_refuted : ~ orset_add_wins_statement.
Proof.
  intros H. specialize (H orset_witness 0 7). vm_compute in H. discriminate.
Qed.

(** Non-vacuity of the partial theorem: a history where the premise holds. *)
Example orset_partial_nonvacuous :
  sp_contains 7 (sreps (os_run [OAdd 0 7; OMerge 1 0; ORem 0 7; OAdd 1 7; OMerge 0 1]) 0) = true.
Proof. reflexivity. Qed.

Example counter_example_nonvacuous :
  pn_value [0; 1; 2] (reps (cnt_run ([CInc 0 5; CInc 1 3; CDec 2 4; CSnap 9 1; CInc 1 1; CMergeSnap 0 9]
                                      ++ map (CMerge 0) [0; 1; 2])) 0) = 5.
Proof. reflexivity. Qed.
