(** Property C18 — the theorems the check counts as obligations.  Nothing but
    statements closed by [exact] and [Print Assumptions]. *)
From HS Require Import Base.Prelude Base.PyLib C18.Model C18.Causal C18.CRDT C18.VectorIff Gen.ClocksGen C18.GenTie C18.CodeSim C18.StoreModel C18.Store.
Local Open Scope Z_scope.

(** a -> b  ==>  Lamport(a) < Lamport(b), every well-formed history. *)
Theorem c18_lamport_causal : forall tr ts, stamps lamport tr = Some ts ->
  forall i j, hb tr i j -> forall ti tj,
  nth_error ts i = Some ti -> nth_error ts j = Some tj -> ti < tj.
Proof. exact lamport_causal. Qed.
Print Assumptions c18_lamport_causal.

(** a -> b  ==>  HLC(a) < HLC(b), for ANY physical clock readings. *)
Theorem c18_hlc_causal : forall tr ts, stamps hlc tr = Some ts ->
  forall i j, hb tr i j -> forall ti tj,
  nth_error ts i = Some ti -> nth_error ts j = Some tj -> hlc_ltb ti tj = true.
Proof. exact hlc_causal. Qed.
Print Assumptions c18_hlc_causal.

(** Vector clocks order a before b EXACTLY WHEN a happened before b (both
    directions, every well-formed history). *)
Theorem c18_vector_iff : forall tr ts, stamps vector tr = Some ts ->
  forall i j ti tj, nth_error ts i = Some ti -> nth_error ts j = Some tj -> (vc_lt ti tj <-> hb tr i j).
Proof. exact vector_iff. Qed.
Print Assumptions c18_vector_iff.

Theorem c18_happened_before_decides : forall keys a b,
  (forall k, ~ In k keys -> a k = b k) -> vc_hbb keys a b = true <-> vc_lt a b.
Proof. exact vc_hbb_spec. Qed.
Print Assumptions c18_happened_before_decides.

Theorem c18_pn_merge_laws : forall a b c,
  pn_eq (pn_merge a b) (pn_merge b a) /\
  pn_eq (pn_merge (pn_merge a b) c) (pn_merge a (pn_merge b c)) /\
  pn_eq (pn_merge a a) a.
Proof. intros a b c. exact (conj (pn_merge_comm a b) (conj (pn_merge_assoc a b c) (pn_merge_idem a))). Qed.
Print Assumptions c18_pn_merge_laws.

(** Counter value = increments - decrements once a replica has merged every
    node's state, after any history of incs, decs, merges and delayed merges. *)
Theorem c18_counter_value : forall ops nodes r,
  pn_value nodes (reps (cnt_run (ops ++ map (CMerge r) nodes)) r) =
    zsum (map (fun k => incs_of k ops) nodes) - zsum (map (fun k => decs_of k ops) nodes).
Proof. exact counter_converges. Qed.
Print Assumptions c18_counter_value.

Theorem c18_counter_bounded : forall ops,
  cnt_inv (cnt_run ops) (fun k => incs_of k ops) (fun k => decs_of k ops).
Proof. exact cnt_run_inv. Qed.
Print Assumptions c18_counter_bounded.

Theorem c18_lww_merge_laws : forall a b c,
  (lww_consistent a b -> lww_merge a b = lww_merge b a) /\
  lww_merge (lww_merge a b) c = lww_merge a (lww_merge b c) /\
  lww_merge a a = a.
Proof. intros a b c. exact (conj (lww_merge_comm a b) (conj (lww_merge_assoc a b c) (lww_merge_idem a))). Qed.
Print Assumptions c18_lww_merge_laws.

Theorem c18_lww_holds_greatest : forall ws r0,
  match fold_left lww_apply ws r0 with
  | None => ws = [] /\ r0 = None
  | Some (t, v) =>
      (r0 = Some (t, v) \/ In (v, t) ws) /\
      (forall v' t', In (v', t') ws -> hlc_ltb t t' = false) /\
      (forall t0 v0, r0 = Some (t0, v0) -> hlc_ltb t t0 = false)
  end.
Proof. exact lww_holds_greatest. Qed.
Print Assumptions c18_lww_holds_greatest.

Theorem c18_orset_merge_laws : forall a b c p,
  (In p (os_ent (os_merge a b)) <-> In p (os_ent (os_merge b a))) /\
  (In p (os_ent (os_merge (os_merge a b) c)) <-> In p (os_ent (os_merge a (os_merge b c)))) /\
  (In p (os_ent (os_merge a a)) <-> In p (os_ent a)).
Proof. intros a b c p. exact (conj (os_merge_comm a b p) (conj (os_merge_assoc a b c p) (os_merge_idem a p))). Qed.
Print Assumptions c18_orset_merge_laws.

(** OR-set, full statement REFUTED on the faithful model (known finding
    C18-orset-resurrect); the partial direction that does hold. *)
Theorem c18_orset_add_wins_refuted : ~ orset_add_wins_statement.
Proof. exact orset_add_wins_refuted. Qed.
Print Assumptions c18_orset_add_wins_refuted.

Theorem c18_orset_no_lost_add_partial : forall ops r e,
  sp_contains e (sreps (os_run ops) r) = true -> os_contains e (oreps (os_run ops) r) = true.
Proof. exact orset_no_lost_add_partial. Qed.
Print Assumptions c18_orset_no_lost_add_partial.

(* ------------------------------------------------------------------ *)
(** * The same statements about the code as REGENERATED from the current source
    (Gen/ClocksGen.v, written by harness/translate/py2coq.py on every run). *)

(** Clock algebras assembled from the translated methods of LamportClock,
    HybridLogicalClock / HLCTimestamp.__lt__ and VectorClock satisfy causality
    (vector clocks: both directions) on every well-formed history. *)
Theorem c18_code_lamport_causal : forall tr ts, stamps lamport_code tr = Some ts ->
  forall i j, hb tr i j -> forall ti tj,
  nth_error ts i = Some ti -> nth_error ts j = Some tj -> ti < tj.
Proof. exact lamport_code_causal. Qed.
Print Assumptions c18_code_lamport_causal.

Theorem c18_code_hlc_causal : forall tr ts, stamps hlc_code tr = Some ts ->
  forall i j, hb tr i j -> forall ti tj,
  nth_error ts i = Some ti -> nth_error ts j = Some tj -> HLCTimestamp___lt__ ti tj = true.
Proof. exact hlc_code_causal. Qed.
Print Assumptions c18_code_hlc_causal.

Theorem c18_code_vector_iff : forall tr ts, stamps vector_code tr = Some ts ->
  forall i j ti tj, nth_error ts i = Some ti -> nth_error ts j = Some tj -> (dict_lt ti tj <-> hb tr i j).
Proof. exact vector_code_iff. Qed.
Print Assumptions c18_code_vector_iff.

(** The translated CRDT methods, read through the abstraction functions, are
    the model functions of the merge-law and convergence theorems above. *)
Theorem c18_code_gcounter_refines : forall s n a b,
  match GCounter_increment s n with
  | None => n < 1 /\ gc_inc (GCounter__node_id s) n (gc_abs s) = gc_abs s
  | Some (s', _) => 1 <= n /\ GCounter__node_id s' = GCounter__node_id s
                    /\ forall k, gc_abs s' k = gc_inc (GCounter__node_id s) n (gc_abs s) k
  end
  /\ (dwf (GCounter__counts b) = true -> dnonneg (GCounter__counts a) ->
      forall k, gc_abs (fst (GCounter_merge a b)) k = gc_merge (gc_abs a) (gc_abs b) k)
  /\ (dwf (GCounter__counts s) = true ->
      GCounter_value s = gc_value (map fst (GCounter__counts s)) (gc_abs s)).
Proof. intros s n a b. exact (conj (tie_gc_increment s n) (conj (tie_gc_merge a b) (tie_gc_value s))). Qed.
Print Assumptions c18_code_gcounter_refines.

Theorem c18_code_lww_refines : forall r v t a b,
  lww_abs (fst (LWWRegister_set r v t)) = lww_set v (ts_abs t) (lww_abs r)
  /\ lww_abs (fst (LWWRegister_merge a b)) = lww_merge (lww_abs a) (lww_abs b).
Proof. intros r v t a b. exact (conj (tie_lww_set r v t) (tie_lww_merge a b)). Qed.
Print Assumptions c18_code_lww_refines.

(** CRDTStore, counter keys (happysimulator/components/crdt/crdt_store.py: writes
    through get_or_create, gossip through _serialize_state / _merge_remote_state).
    Every replica object a store holds is credited to the store itself; a store
    that has pulled every node's state reports increments minus decrements, for
    every schedule of writes, sends and (delayed, duplicated, reordered) receives;
    with the new-key branch the code had before /repo c92c1df the value clause is
    false. *)
Theorem c18_store_replica_identity : forall ops s key r,
  sstores (st_run true ops) s key = Some r -> s_owner r = s.
Proof. exact store_replica_identity. Qed.
Print Assumptions c18_store_replica_identity.

Theorem c18_store_counter_value : forall ops nodes r key,
  st_value nodes (st_run true (ops ++ pull_all r nodes)) key r =
    zsum (map (fun k => sincs key k ops) nodes) - zsum (map (fun k => sdecs key k ops) nodes).
Proof. exact store_counter_value. Qed.
Print Assumptions c18_store_counter_value.

Theorem c18_store_unfixed_learn_refuted : ~ store_value_statement false.
Proof. exact store_unfixed_learn_refuted. Qed.
Print Assumptions c18_store_unfixed_learn_refuted.

(** pn_counter.py as regenerated: increment / decrement / merge / value are the
    model's PN-counter functions on the abstraction (the two inner G-counters read
    through [gc_abs]); ValueError for n < 1 is [None]. *)
Theorem c18_code_pncounter_refines : forall c n a b,
  match PNCounter_increment c n with
  | None => n < 1
  | Some (c', _) =>
      1 <= n /\ PNCounter__n c' = PNCounter__n c /\ PNCounter__node_id c' = PNCounter__node_id c
      /\ GCounter__node_id (PNCounter__p c') = GCounter__node_id (PNCounter__p c)
      /\ forall k, fst (pn_abs c') k = fst (pn_inc (GCounter__node_id (PNCounter__p c)) n (pn_abs c)) k
  end
  /\ match PNCounter_decrement c n with
     | None => n < 1
     | Some (c', _) =>
         1 <= n /\ PNCounter__p c' = PNCounter__p c /\ PNCounter__node_id c' = PNCounter__node_id c
         /\ GCounter__node_id (PNCounter__n c') = GCounter__node_id (PNCounter__n c)
         /\ forall k, snd (pn_abs c') k = snd (pn_dec (GCounter__node_id (PNCounter__n c)) n (pn_abs c)) k
     end
  /\ (dwf (GCounter__counts (PNCounter__p b)) = true -> dwf (GCounter__counts (PNCounter__n b)) = true ->
      dnonneg (GCounter__counts (PNCounter__p a)) -> dnonneg (GCounter__counts (PNCounter__n a)) ->
      forall k, fst (pn_abs (fst (PNCounter_merge a b))) k = fst (pn_merge (pn_abs a) (pn_abs b)) k
             /\ snd (pn_abs (fst (PNCounter_merge a b))) k = snd (pn_merge (pn_abs a) (pn_abs b)) k)
  /\ (dwf (GCounter__counts (PNCounter__p c)) = true -> dwf (GCounter__counts (PNCounter__n c)) = true ->
      PNCounter_value c = gc_value (map fst (GCounter__counts (PNCounter__p c))) (fst (pn_abs c))
                        - gc_value (map fst (GCounter__counts (PNCounter__n c))) (snd (pn_abs c))).
Proof.
  intros c n a b.
  exact (conj (tie_pn_increment c n) (conj (tie_pn_decrement c n)
        (conj (tie_pn_merge a b) (fun Wp Wn => proj1 (tie_pn_value c Wp Wn))))).
Qed.
Print Assumptions c18_code_pncounter_refines.

(** VectorClock.happened_before as regenerated from logical_clocks.py (a loop with
    break over a set union, whose iteration order is a parameter) decides the
    history's happened-before relation on the clocks' snapshots. *)
Theorem c18_code_happened_before_decides : forall tr ts, stamps vector_code tr = Some ts ->
  forall i j ti tj, nth_error ts i = Some ti -> nth_error ts j = Some tj ->
  forall a b order, VectorClock__vector a = ti -> VectorClock__vector b = tj ->
  (forall k, In k order <-> In k (VectorClock_happened_before_setiter_elems a b)) ->
  (VectorClock_happened_before a b order = true <-> hb tr i j).
Proof. exact vector_code_happened_before. Qed.
Print Assumptions c18_code_happened_before_decides.

(** The code's own [VectorClock.is_concurrent] (as regenerated: two evaluations of
    happened_before, each over its own arbitrary iteration order) is true exactly when
    neither event happened before the other. *)
Theorem c18_code_is_concurrent_decides : forall tr ts, stamps vector_code tr = Some ts ->
  forall i j ti tj, nth_error ts i = Some ti -> nth_error ts j = Some tj ->
  forall a b o1 o2, VectorClock__vector a = ti -> VectorClock__vector b = tj ->
  (forall k, In k o1 <-> In k (VectorClock_happened_before_setiter_elems a b)) ->
  (forall k, In k o2 <-> In k (VectorClock_happened_before_setiter_elems b a)) ->
  (VectorClock_is_concurrent a b o1 o2 = true <-> ~ hb tr i j /\ ~ hb tr j i).
Proof. exact vector_code_is_concurrent. Qed.
Print Assumptions c18_code_is_concurrent_decides.

(** ... and for all stores at once: after every store of a duplicate-free list has
    pulled every node's state, each of them reports increments minus decrements
    (hence they agree). *)
Theorem c18_store_all_converge : forall ops nodes key r, NoDup nodes -> In r nodes ->
  st_value nodes (st_run true (ops ++ pull_round nodes nodes)) key r =
    zsum (map (fun k => sincs key k ops) nodes) - zsum (map (fun k => sdecs key k ops) nodes).
Proof. exact store_all_converge. Qed.
Print Assumptions c18_store_all_converge.
