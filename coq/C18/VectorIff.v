(** C18 — the converse for vector clocks: VC(a) < VC(b) implies a -> b.
    Together with [vector_causal] this is "exactly when".

    Invariant carried along the run (history extended one action at a time):
    a node's own component counts its own events; nobody knows more about node
    p than p has done; every stamp only records events in the causal past of
    its own event. *)
From HS Require Import Base.Prelude C18.Model C18.Causal.
Local Open Scope Z_scope.

(* ------------------------------------------------------------------ *)
(** * Counting events per node *)

Fixpoint count_at (p : Z) (tr : list act) : Z :=
  match tr with
  | [] => 0
  | a :: r => (if node_of a =? p then 1 else 0) + count_at p r
  end.

Lemma count_at_app p a b : count_at p (a ++ b) = count_at p a + count_at p b.
Proof. induction a as [|x a IH]; cbn; lia. Qed.
Lemma count_at_nonneg p tr : 0 <= count_at p tr.
Proof. induction tr as [|x tr IH]; cbn; [lia|]. destruct (node_of x =? p); lia. Qed.
Lemma count_firstn_le p k tr : count_at p (firstn k tr) <= count_at p tr.
Proof.
  rewrite <- (firstn_skipn k tr) at 2. rewrite count_at_app. pose proof (count_at_nonneg p (skipn k tr)). lia.
Qed.

Lemma firstn_S_app (tr ext : list act) i : (i < length tr)%nat -> firstn (S i) (tr ++ ext) = firstn (S i) tr.
Proof.
  intros H. rewrite firstn_app. replace (S i - length tr)%nat with 0%nat by lia. cbn. apply app_nil_r.
Qed.

Lemma firstn_all_snoc (tr : list act) a : firstn (S (length tr)) (tr ++ [a]) = tr ++ [a].
Proof. rewrite firstn_all2; [reflexivity|]. rewrite app_length; cbn; lia. Qed.

(** [evt tr p r i]: event [i] is the [r]-th event of node [p]. *)
Definition evt (tr : list act) (p r : Z) (i : nat) : Prop :=
  exists a, nth_error tr i = Some a /\ node_of a = p /\ count_at p (firstn (S i) tr) = r.

Lemma evt_prefix tr a p r i : evt (tr ++ [a]) p r i -> r <= count_at p tr -> evt tr p r i.
Proof.
  intros (b & Hb & Hn & Hr) Hle.
  destruct (Nat.lt_ge_cases i (length tr)) as [Hlt|Hge].
  - exists b. rewrite nth_error_app1 in Hb by exact Hlt. rewrite firstn_S_app in Hr by exact Hlt. auto.
  - exfalso. destruct (Nat.eq_dec i (length tr)) as [->|Hne].
    + rewrite nth_error_app2, Nat.sub_diag in Hb by lia. cbn in Hb. inversion Hb; subst b.
      rewrite firstn_all_snoc, count_at_app in Hr. cbn in Hr. rewrite Hn, Z.eqb_refl in Hr. lia.
    + assert (nth_error (tr ++ [a]) i = None) by (apply nth_error_None; rewrite app_length; cbn; lia). congruence.
Qed.

Lemma evt_extend tr a p r i : evt tr p r i -> evt (tr ++ [a]) p r i.
Proof.
  intros (b & Hb & Hn & Hr). assert (Hlt : (i < length tr)%nat) by (apply nth_error_Some; congruence).
  exists b. rewrite nth_error_app1, firstn_S_app by exact Hlt. auto.
Qed.

(** The new last event is the only one of its node with the top rank. *)
Lemma evt_top_is_last tr a i : evt (tr ++ [a]) (node_of a) (count_at (node_of a) tr + 1) i -> i = length tr.
Proof.
  intros (b & Hb & Hn & Hr).
  destruct (Nat.lt_ge_cases i (length tr)) as [Hlt|Hge].
  - rewrite firstn_S_app in Hr by exact Hlt. pose proof (count_firstn_le (node_of a) (S i) tr). lia.
  - destruct (Nat.eq_dec i (length tr)); [assumption|].
    assert (nth_error (tr ++ [a]) i = None) by (apply nth_error_None; rewrite app_length; cbn; lia). congruence.
Qed.

(* ------------------------------------------------------------------ *)
(** * Happened-before, reflexive closure, monotone in the history *)

Lemma hb_extend tr ext i j : hb tr i j -> hb (tr ++ ext) i j.
Proof.
  induction 1 as [i j a b Hlt Ha Hb Hn|i j n n' m pt pt' Hlt Ha Hb|i j k _ IH1 _ IH2].
  - eapply hb_po; eauto; rewrite nth_error_app1; auto; apply nth_error_Some; congruence.
  - eapply hb_msg; eauto; rewrite nth_error_app1; eauto; apply nth_error_Some; congruence.
  - eapply hb_trans; eauto.
Qed.

Definition hbeq (tr : list act) (i j : nat) : Prop := i = j \/ hb tr i j.

Lemma hbeq_extend tr ext i j : hbeq tr i j -> hbeq (tr ++ ext) i j.
Proof. intros [->|H]; [left; reflexivity|right; apply hb_extend; exact H]. Qed.

Lemma hbeq_hb tr i j k : hbeq tr i j -> hb tr j k -> hbeq tr i k.
Proof. intros [->|H] H2; right; [exact H2|eapply hb_trans; eauto]. Qed.

(** [within tr v j]: everything the vector [v] records lies in the causal past
    of event [j] (inclusive). *)
Definition within (tr : list act) (v : vec) (j : nat) : Prop :=
  forall p r i, 1 <= r <= v p -> evt tr p r i -> hbeq tr i j.

(* ------------------------------------------------------------------ *)
(** * Running a history one action at a time *)

Lemma crun_app (A : clock_alg) s a b :
  crun A s (a ++ b) =
    match crun A s a with
    | None => None
    | Some (s1, t1) => match crun A s1 b with
                       | None => None
                       | Some (s2, t2) => Some (s2, t1 ++ t2)
                       end
    end.
Proof.
  revert s; induction a as [|x a IH]; intros s; cbn.
  - destruct (crun A s b) as [[s2 t2]|]; reflexivity.
  - destruct (cstep A s x) as [[s1 t]|]; [|reflexivity]. rewrite IH.
    destruct (crun A s1 a) as [[s2 t1]|]; [|reflexivity].
    destruct (crun A s2 b) as [[s3 t2]|]; reflexivity.
Qed.

Record VInv (tr : list act) (s : cstate vector) (ts : list vec) : Prop := {
  v_len : length ts = length tr;
  v_own : forall n, clk s n n = count_at n tr;
  v_bclk : forall n p, 0 <= clk s n p <= count_at p tr;
  v_bmsg : forall m t p, msgs s m = Some t -> 0 <= t p <= count_at p tr;
  v_bts : forall j t p, nth_error ts j = Some t -> 0 <= t p <= count_at p tr;
  v_rank : forall i a t, nth_error tr i = Some a -> nth_error ts i = Some t ->
           t (node_of a) = count_at (node_of a) (firstn (S i) tr);
  v_within : forall j t, nth_error ts j = Some t -> within tr t j;
  (* the clock of a node is the zero vector or the stamp of one of its events *)
  v_clk : forall n, (forall p, clk s n p = 0) \/
          exists l a, nth_error tr l = Some a /\ node_of a = n /\ nth_error ts l = Some (clk s n);
  v_msg : forall m t, msgs s m = Some t -> exists l n pt, nth_error tr l = Some (Send n m pt) /\ nth_error ts l = Some t;
}.

Lemma vinv_init : VInv [] (cinit vector) [].
Proof.
  constructor.
  - reflexivity.
  - intros n; reflexivity.
  - intros n p; cbn; lia.
  - intros m t p H; discriminate.
  - intros [|j] t p H; discriminate.
  - intros [|i] a t H; discriminate.
  - intros [|j] t H; discriminate.
  - intros n; left; reflexivity.
  - intros m t H; discriminate.
Qed.

(** The common part of the three step cases: the acting node [n] gets the new
    clock [c'], stamps the new event with it; [c'] is bounded, counts its own
    events, and is within the causal past of the new event. *)
Lemma vinv_snoc tr s ts a c' msgs' :
  VInv tr s ts ->
  let n := node_of a in
  let L := length tr in
  c' n = count_at n tr + 1 ->
  (forall p, p <> n -> 0 <= c' p <= count_at p tr) ->
  within (tr ++ [a]) c' L ->
  (forall m t, msgs' m = Some t ->
     (msgs s m = Some t) \/ (exists pt, a = Send n m pt /\ t = c')) ->
  VInv (tr ++ [a]) {| clk := upd (clk s) n c'; msgs := msgs' |} (ts ++ [c']).
Proof.
  intros I n L Hown Hoth Hwith Hmsgs.
  assert (Hcnt : forall p, count_at p (tr ++ [a]) = count_at p tr + (if n =? p then 1 else 0)).
  { intros p. rewrite count_at_app. cbn. fold n. lia. }
  assert (HlenL : length ts = L) by apply (v_len _ _ _ I).
  constructor; cbn [clk msgs].
  - rewrite !app_length. cbn. rewrite (v_len _ _ _ I). reflexivity.
  - intros k. unfold upd. rewrite Hcnt. destruct (Z.eqb_spec k n) as [->|Hk].
    + rewrite Z.eqb_refl. lia.
    + destruct (Z.eqb_spec n k); [congruence|]. rewrite (v_own _ _ _ I). lia.
  - intros k p. unfold upd. rewrite Hcnt. pose proof (count_at_nonneg p tr) as Hnn. destruct (Z.eqb_spec k n) as [->|Hk].
    + destruct (Z.eqb_spec n p) as [E|Hp]; [rewrite <- E in *; lia|]. specialize (Hoth p ltac:(congruence)). lia.
    + pose proof (v_bclk _ _ _ I k p). destruct (n =? p); lia.
  - intros m t p Hm. rewrite Hcnt. pose proof (count_at_nonneg p tr) as Hnn. destruct (Hmsgs m t Hm) as [Hold|(pt & _ & ->)].
    + pose proof (v_bmsg _ _ _ I m t p Hold). destruct (n =? p); lia.
    + destruct (Z.eqb_spec n p) as [E|Hp]; [rewrite <- E in *; lia|]. specialize (Hoth p ltac:(congruence)). lia.
  - intros j t p Hj. rewrite Hcnt. pose proof (count_at_nonneg p tr) as Hnn.
    destruct (Nat.lt_ge_cases j L) as [Hlt|Hge].
    + rewrite nth_error_app1 in Hj by lia. pose proof (v_bts _ _ _ I j t p Hj). destruct (n =? p); lia.
    + rewrite nth_error_app2 in Hj by lia. destruct (j - length ts)%nat as [|k] eqn:E; cbn in Hj; [|destruct k; discriminate].
      inversion Hj; subst t. destruct (Z.eqb_spec n p) as [E2|Hp]; [rewrite <- E2 in *; lia|]. specialize (Hoth p ltac:(congruence)). lia.
  - intros i b t Hb Ht.
    destruct (Nat.lt_ge_cases i L) as [Hlt|Hge].
    + rewrite nth_error_app1 in Hb by exact Hlt. rewrite nth_error_app1 in Ht by lia.
      rewrite firstn_S_app by exact Hlt. apply (v_rank _ _ _ I i b t Hb Ht).
    + assert (Hi2 : (i < length (tr ++ [Datatypes.id a]))%nat) by (apply nth_error_Some; unfold Datatypes.id; congruence).
      rewrite app_length in Hi2; cbn in Hi2. assert (i = L) as -> by (unfold L; lia).
      rewrite nth_error_app2, Nat.sub_diag in Hb by lia. cbn in Hb. inversion Hb; subst b.
      rewrite nth_error_app2 in Ht by lia. replace (L - length ts)%nat with 0%nat in Ht by lia. cbn in Ht. inversion Ht; subst t.
      unfold L. rewrite firstn_all_snoc, Hcnt. fold n. rewrite Z.eqb_refl. exact Hown.
  - intros j t Hj.
    destruct (Nat.lt_ge_cases j L) as [Hlt|Hge].
    + rewrite nth_error_app1 in Hj by lia. intros p r i Hr Hev.
      apply hbeq_extend. apply (v_within _ _ _ I j t Hj p r i Hr).
      apply (evt_prefix tr a p r i Hev). pose proof (v_bts _ _ _ I j t p Hj). lia.
    + rewrite nth_error_app2 in Hj by lia. destruct (j - length ts)%nat as [|k] eqn:E; cbn in Hj; [|destruct k; discriminate].
      inversion Hj; subst t. assert (j = L) as -> by lia. exact Hwith.
  - intros k. unfold upd. destruct (Z.eqb_spec k n) as [->|Hk].
    + right. exists L, a. split; [|split; [reflexivity|]].
      * rewrite nth_error_app2, Nat.sub_diag by lia. reflexivity.
      * rewrite nth_error_app2 by lia. replace (L - length ts)%nat with 0%nat by lia. reflexivity.
    + destruct (v_clk _ _ _ I k) as [Hz|(l & b & Hb & Hn & Ht)]; [left; exact Hz|right].
      assert (Hlt : (l < L)%nat) by (apply nth_error_Some; congruence).
      exists l, b. rewrite !nth_error_app1 by lia. auto.
  - intros m t Hm. destruct (Hmsgs m t Hm) as [Hold|(pt & Ha & ->)].
    + destruct (v_msg _ _ _ I m t Hold) as (l & k & pt & Hb & Ht).
      assert (Hlt : (l < L)%nat) by (apply nth_error_Some; congruence).
      exists l, k, pt. rewrite !nth_error_app1 by lia. auto.
    + exists L, n, pt. split.
      * rewrite nth_error_app2, Nat.sub_diag by lia. cbn. rewrite Ha. reflexivity.
      * rewrite nth_error_app2 by lia. replace (L - length ts)%nat with 0%nat by lia. reflexivity.
Qed.

(** What the old clock of the acting node records is in the past of the new event. *)
Lemma old_clock_within tr s ts a : VInv tr s ts ->
  forall p r i, 1 <= r <= clk s (node_of a) p -> evt (tr ++ [a]) p r i -> hbeq (tr ++ [a]) i (length tr).
Proof.
  intros I p r i Hr Hev. set (n := node_of a) in *.
  destruct (v_clk _ _ _ I n) as [Hz|(l & b & Hb & Hn & Ht)]; [rewrite Hz in Hr; lia|].
  assert (Hlt : (l < length tr)%nat) by (apply nth_error_Some; congruence).
  assert (Hev' : evt tr p r i) by (apply (evt_prefix tr a p r i Hev); pose proof (v_bclk _ _ _ I n p); lia).
  pose proof (v_within _ _ _ I l _ Ht p r i Hr Hev') as Hil.
  eapply hbeq_hb; [apply hbeq_extend; exact Hil|].
  eapply hb_po with (a := b) (b := a); [exact Hlt| | |exact Hn].
  - rewrite nth_error_app1 by exact Hlt. exact Hb.
  - rewrite nth_error_app2, Nat.sub_diag by lia. reflexivity.
Qed.

Lemma vinv_step tr s ts a s' t :
  VInv tr s ts -> cstep vector s a = Some (s', t) -> VInv (tr ++ [a]) s' (ts ++ [t]).
Proof.
  intros I Hs. pose proof I as I0.
  destruct a as [n pt|n m pt|n m pt]; cbn in Hs.
  - (* Local *)
    inversion Hs; subst; clear Hs. apply (vinv_snoc tr s ts (Local n pt)); auto; cbn [node_of].
    + unfold vc_tick, upd. rewrite Z.eqb_refl. rewrite (v_own _ _ _ I). reflexivity.
    + intros p Hp. unfold vc_tick, upd. destruct (Z.eqb_spec p n); [congruence|]. apply (v_bclk _ _ _ I).
    + intros p r i Hr Hev. unfold vc_tick, upd in Hr. destruct (Z.eqb_spec p n) as [->|Hp].
      * destruct (Z.eq_dec r (clk s n n + 1)) as [->|Hne].
        -- left. rewrite (v_own _ _ _ I) in Hev. apply (evt_top_is_last tr (Local n pt) i Hev).
        -- apply (old_clock_within tr s ts (Local n pt) I n r i); [cbn; lia|exact Hev].
      * apply (old_clock_within tr s ts (Local n pt) I p r i); [cbn; lia|exact Hev].
  - (* Send *)
    destruct (msgs s m) eqn:Em; [discriminate|]. inversion Hs; subst; clear Hs.
    apply (vinv_snoc tr s ts (Send n m pt)); auto; cbn [node_of].
    + unfold vc_tick, upd. rewrite Z.eqb_refl. rewrite (v_own _ _ _ I). reflexivity.
    + intros p Hp. unfold vc_tick, upd. destruct (Z.eqb_spec p n); [congruence|]. apply (v_bclk _ _ _ I).
    + intros p r i Hr Hev. unfold vc_tick, upd in Hr. destruct (Z.eqb_spec p n) as [->|Hp].
      * destruct (Z.eq_dec r (clk s n n + 1)) as [->|Hne].
        -- left. rewrite (v_own _ _ _ I) in Hev. apply (evt_top_is_last tr (Send n m pt) i Hev).
        -- apply (old_clock_within tr s ts (Send n m pt) I n r i); [cbn; lia|exact Hev].
      * apply (old_clock_within tr s ts (Send n m pt) I p r i); [cbn; lia|exact Hev].
    + intros m0 t0 H0. unfold upd in H0. destruct (Z.eqb_spec m0 m) as [->|Hm].
      * right. exists pt. inversion H0; subst. split; reflexivity.
      * left. exact H0.
  - (* Recv *)
    destruct (msgs s m) as [tm|] eqn:Em; [|discriminate]. inversion Hs; subst; clear Hs.
    pose proof (v_bmsg _ _ _ I m tm) as Hbm.
    assert (Hmx : Z.max (clk s n n) (tm n) = clk s n n).
    { specialize (Hbm n Em). rewrite (v_own _ _ _ I). lia. }
    apply (vinv_snoc tr s ts (Recv n m pt)); auto; cbn [node_of].
    + unfold vc_recv, upd. rewrite Z.eqb_refl, Hmx, (v_own _ _ _ I). reflexivity.
    + intros p Hp. unfold vc_recv, upd. destruct (Z.eqb_spec p n); [congruence|].
      pose proof (v_bclk _ _ _ I n p). specialize (Hbm p Em). lia.
    + intros p r i Hr Hev. unfold vc_recv, upd in Hr.
      assert (Hcase : (p = n /\ r = clk s n n + 1) \/ r <= clk s n p \/ r <= tm p).
      { destruct (Z.eqb_spec p n) as [->|Hp]; [rewrite Hmx in Hr|]; lia. }
      destruct Hcase as [[-> ->]|[Hc|Hc]].
      * left. rewrite (v_own _ _ _ I) in Hev. apply (evt_top_is_last tr (Recv n m pt) i Hev).
      * apply (old_clock_within tr s ts (Recv n m pt) I p r i); [cbn; lia|exact Hev].
      * destruct (v_msg _ _ _ I m tm Em) as (l & k & pt' & Hb & Ht).
        assert (Hlt : (l < length tr)%nat) by (apply nth_error_Some; congruence).
        assert (Hev' : evt tr p r i) by (apply (evt_prefix tr _ p r i Hev); specialize (Hbm p Em); lia).
        pose proof (v_within _ _ _ I l _ Ht p r i ltac:(lia) Hev') as Hil.
        eapply hbeq_hb; [apply hbeq_extend; exact Hil|].
        eapply hb_msg with (n := k) (n' := n) (m := m) (pt := pt') (pt' := pt); [exact Hlt| |].
        -- rewrite nth_error_app1 by exact Hlt. exact Hb.
        -- rewrite nth_error_app2, Nat.sub_diag by lia. reflexivity.
Qed.

Lemma vinv_run : forall tr s ts, crun vector (cinit vector) tr = Some (s, ts) -> VInv tr s ts.
Proof.
  induction tr as [|a tr IH] using rev_ind; intros s ts H.
  - cbn in H. inversion H; subst. apply vinv_init.
  - rewrite crun_app in H. destruct (crun vector (cinit vector) tr) as [[s1 t1]|] eqn:E; [|discriminate].
    cbn in H. destruct (cstep vector s1 a) as [[s2 t]|] eqn:Es; [|discriminate].
    inversion H; subst. apply vinv_step with (s := s1); [apply IH; reflexivity|exact Es].
Qed.

(** The converse: a strictly smaller vector stamp means happened-before. *)
Theorem vector_converse tr ts : stamps vector tr = Some ts ->
  forall i j ti tj, nth_error ts i = Some ti -> nth_error ts j = Some tj -> vc_lt ti tj -> hb tr i j.
Proof.
  unfold stamps. destruct (crun vector (cinit vector) tr) as [[s ts0]|] eqn:E; [|discriminate].
  intros H; inversion H; subst ts0; clear H. pose proof (vinv_run _ _ _ E) as I.
  intros i j ti tj Hi Hj [Hle [k Hk]].
  assert (Hil : (i < length tr)%nat).
  { rewrite <- (v_len _ _ _ I). destruct (Nat.lt_ge_cases i (length ts)) as [Hl|Hg]; [exact Hl|].
    exfalso. apply nth_error_None in Hg. cbn in Hi, Hg. rewrite Hi in Hg. discriminate. }
  destruct (nth_error tr i) as [a|] eqn:Ea; [|apply nth_error_None in Ea; lia].
  pose proof (v_rank _ _ _ I i a ti Ea Hi) as Hrank.
  assert (Hr1 : 1 <= ti (node_of a)).
  { rewrite Hrank. replace (firstn (S i) tr) with (firstn i tr ++ [a]).
    - rewrite count_at_app. cbn. rewrite Z.eqb_refl. pose proof (count_at_nonneg (node_of a) (firstn i tr)). lia.
    - clear -Ea. revert i Ea; induction tr as [|x tr IH]; intros [|i] Ea; cbn in *; try discriminate.
      + inversion Ea; reflexivity.
      + rewrite <- IH by exact Ea. reflexivity. }
  assert (Hev : evt tr (node_of a) (ti (node_of a)) i) by (exists a; auto).
  destruct (v_within _ _ _ I j tj Hj (node_of a) (ti (node_of a)) i) as [->|Hhb]; [specialize (Hle (node_of a)); lia|exact Hev| |exact Hhb].
  exfalso. rewrite Hi in Hj. inversion Hj; subst. lia.
Qed.

Theorem vector_iff tr ts : stamps vector tr = Some ts ->
  forall i j ti tj, nth_error ts i = Some ti -> nth_error ts j = Some tj -> (vc_lt ti tj <-> hb tr i j).
Proof.
  intros H i j ti tj Hi Hj. split.
  - apply (vector_converse tr ts H i j ti tj Hi Hj).
  - intros Hhb. apply (vector_causal tr ts H i j Hhb ti tj Hi Hj).
Qed.
