(** C18 — happened-before and the generic causality theorem for any clock
    algorithm whose operations strictly advance the local stamp and dominate
    the received stamp; instances for Lamport, vector and hybrid clocks. *)
From HS Require Import Base.Prelude C18.Model.
Local Open Scope Z_scope.

(** Happened-before on the positions of a history: program order on one node,
    send -> receive of the same message, transitive closure. *)
Inductive hb (tr : list act) : nat -> nat -> Prop :=
| hb_po i j a b :
    (i < j)%nat -> nth_error tr i = Some a -> nth_error tr j = Some b ->
    node_of a = node_of b -> hb tr i j
| hb_msg i j n n' m pt pt' :
    (i < j)%nat -> nth_error tr i = Some (Send n m pt) ->
    nth_error tr j = Some (Recv n' m pt') -> hb tr i j
| hb_trans i j k : hb tr i j -> hb tr j k -> hb tr i k.

Lemma hb_valid tr i j : hb tr i j ->
  (i < j)%nat /\ (exists a, nth_error tr i = Some a) /\ (exists b, nth_error tr j = Some b).
Proof.
  induction 1 as [i j a b Hlt Ha Hb _|i j n n' m pt pt' Hlt Ha Hb|i j k _ [L1 [A1 _]] _ [L2 [_ B2]]].
  - eauto.
  - eauto.
  - split; [lia|]. split; assumption.
Qed.

Section Causal.
  Variable A : clock_alg.
  Variable lt : T A -> T A -> Prop.
  Hypothesis lt_trans : forall a b c, lt a b -> lt b c -> lt a c.
  Hypothesis local_lt : forall n pt c, lt (c_stamp A n c) (c_stamp A n (c_local A n pt c)).
  Hypothesis send_lt : forall n pt c, lt (c_stamp A n c) (c_stamp A n (c_send A n pt c)).
  Hypothesis recv_lt_local : forall n pt c t, lt (c_stamp A n c) (c_stamp A n (c_recv A n pt c t)).
  Hypothesis recv_lt_remote : forall n pt c t, lt t (c_stamp A n (c_recv A n pt c t)).

  (** One step: the new stamp exceeds the node's previous stamp; other nodes'
      clocks are untouched; the stamp is that of the node's new clock. *)
  Lemma cstep_facts s a s' t : cstep A s a = Some (s', t) ->
    lt (c_stamp A (node_of a) (clk s (node_of a))) t /\
    t = c_stamp A (node_of a) (clk s' (node_of a)) /\
    (forall n, n <> node_of a -> clk s' n = clk s n).
  Proof.
    destruct a as [n pt|n m pt|n m pt]; cbn.
    - intros H; inversion H; subst; clear H; cbn. unfold upd. rewrite Z.eqb_refl.
      repeat split; auto. intros k Hk. destruct (Z.eqb_spec k n); congruence.
    - destruct (msgs s m); [discriminate|]. intros H; inversion H; subst; clear H; cbn.
      unfold upd. rewrite Z.eqb_refl.
      repeat split; auto. intros k Hk. destruct (Z.eqb_spec k n); congruence.
    - destruct (msgs s m); [|discriminate]. intros H; inversion H; subst; clear H; cbn.
      unfold upd. rewrite Z.eqb_refl.
      repeat split; auto. intros k Hk. destruct (Z.eqb_spec k n); congruence.
  Qed.

  Lemma crun_cons s a r s'' ts :
    crun A s (a :: r) = Some (s'', ts) ->
    exists s' t ts', cstep A s a = Some (s', t) /\ crun A s' r = Some (s'', ts') /\ ts = t :: ts'.
  Proof.
    cbn. destruct (cstep A s a) as [[s' t]|] eqn:E1; [|discriminate].
    destruct (crun A s' r) as [[s3 ts']|] eqn:E2; [|discriminate].
    intros H; inversion H; subst. exists s', t, ts'. auto.
  Qed.

  Lemma crun_length s tr s' ts : crun A s tr = Some (s', ts) -> length ts = length tr.
  Proof.
    revert s s' ts; induction tr as [|a r IH]; intros s s' ts H.
    - cbn in H. inversion H; reflexivity.
    - apply crun_cons in H as (s1 & t & ts' & _ & Hr & ->). cbn. f_equal. eauto.
  Qed.

  (** Every event's stamp exceeds the stamp its node had when the run started. *)
  Lemma future_gt s tr s' ts : crun A s tr = Some (s', ts) ->
    forall j a tj, nth_error tr j = Some a -> nth_error ts j = Some tj ->
    lt (c_stamp A (node_of a) (clk s (node_of a))) tj.
  Proof.
    revert s s' ts; induction tr as [|a0 r IH]; intros s s' ts H j a tj Ha Ht.
    - destruct j; discriminate.
    - apply crun_cons in H as (s1 & t & ts' & Hs & Hr & ->).
      destruct (cstep_facts _ _ _ _ Hs) as (Hlt & Heq & Hoth).
      destruct j as [|j]; cbn in Ha, Ht.
      + inversion Ha; inversion Ht; subst. exact Hlt.
      + specialize (IH _ _ _ Hr j a tj Ha Ht).
        destruct (Z.eq_dec (node_of a) (node_of a0)) as [E|E].
        * rewrite E in *. rewrite <- Heq in IH. eapply lt_trans; eauto.
        * rewrite (Hoth _ E) in IH. exact IH.
  Qed.

  Lemma po_lt s tr s' ts : crun A s tr = Some (s', ts) ->
    forall i j a b ti tj, (i < j)%nat ->
    nth_error tr i = Some a -> nth_error tr j = Some b -> node_of a = node_of b ->
    nth_error ts i = Some ti -> nth_error ts j = Some tj -> lt ti tj.
  Proof.
    revert s s' ts; induction tr as [|a0 r IH]; intros s s' ts H i j a b ti tj Hij Ha Hb Hn Hti Htj.
    - destruct i; discriminate.
    - apply crun_cons in H as (s1 & t & ts' & Hs & Hr & ->).
      destruct j as [|j]; [lia|]. cbn in Hb, Htj.
      destruct i as [|i]; cbn in Ha, Hti.
      + inversion Ha; inversion Hti; subst.
        destruct (cstep_facts _ _ _ _ Hs) as (_ & Heq & _).
        rewrite Heq, Hn. eapply future_gt; eauto.
      + eapply (IH _ _ _ Hr i j); eauto; lia.
  Qed.

  (** A message in the store is never overwritten, and every later receive of
      it is stamped above it. *)
  Lemma msg_gt s tr s' ts : crun A s tr = Some (s', ts) ->
    forall m t, msgs s m = Some t ->
    forall j n pt tj, nth_error tr j = Some (Recv n m pt) -> nth_error ts j = Some tj -> lt t tj.
  Proof.
    revert s s' ts; induction tr as [|a0 r IH]; intros s s' ts H m t Hm j n pt tj Ha Ht.
    - destruct j; discriminate.
    - apply crun_cons in H as (s1 & t1 & ts' & Hs & Hr & ->).
      destruct j as [|j]; cbn in Ha, Ht.
      + inversion Ha; inversion Ht; subst. cbn in Hs. rewrite Hm in Hs.
        inversion Hs; subst. apply recv_lt_remote.
      + eapply IH; eauto.
        destruct a0 as [n0 pt0|n0 m0 pt0|n0 m0 pt0]; cbn in Hs.
        * inversion Hs; subst; exact Hm.
        * destruct (msgs s m0) eqn:E; [discriminate|]. inversion Hs; subst; cbn.
          unfold upd. destruct (Z.eqb_spec m m0); [congruence|exact Hm].
        * destruct (msgs s m0); [|discriminate]. inversion Hs; subst; exact Hm.
  Qed.

  Lemma send_recv_lt s tr s' ts : crun A s tr = Some (s', ts) ->
    forall i j n n' m pt pt' ti tj, (i < j)%nat ->
    nth_error tr i = Some (Send n m pt) -> nth_error tr j = Some (Recv n' m pt') ->
    nth_error ts i = Some ti -> nth_error ts j = Some tj -> lt ti tj.
  Proof.
    revert s s' ts; induction tr as [|a0 r IH]; intros s s' ts H i j n n' m pt pt' ti tj Hij Ha Hb Hti Htj.
    - destruct i; discriminate.
    - apply crun_cons in H as (s1 & t & ts' & Hs & Hr & ->).
      destruct j as [|j]; [lia|]. cbn in Hb, Htj.
      destruct i as [|i]; cbn in Ha, Hti.
      + inversion Ha; inversion Hti; subst. cbn in Hs.
        destruct (msgs s m); [discriminate|]. inversion Hs; subst.
        eapply msg_gt; eauto. cbn. unfold upd. rewrite Z.eqb_refl. reflexivity.
      + eapply (IH _ _ _ Hr i j); eauto; lia.
  Qed.

  (** The causality theorem: on every well-formed history (the run does not
      fail), happened-before implies strictly smaller timestamps. *)
  Theorem causal tr ts : stamps A tr = Some ts ->
    forall i j, hb tr i j -> forall ti tj,
    nth_error ts i = Some ti -> nth_error ts j = Some tj -> lt ti tj.
  Proof.
    unfold stamps. destruct (crun A (cinit A) tr) as [[s' ts0]|] eqn:Hrun; [|discriminate].
    intros H; inversion H; subst ts0; clear H.
    pose proof (crun_length _ _ _ _ Hrun) as Hlen.
    induction 1 as [i j a b Hlt Ha Hb Hn|i j n n' m pt pt' Hlt Ha Hb|i j k H1 IH1 H2 IH2];
      intros ti tj Hti Htj.
    - eapply po_lt; eauto.
    - eapply send_recv_lt; eauto.
    - destruct (hb_valid _ _ _ H2) as (_ & [b Hb] & _).
      assert (Hj : (j < length ts)%nat) by (rewrite Hlen; apply nth_error_Some; congruence).
      destruct (nth_error ts j) as [tm|] eqn:Etm; [|apply nth_error_None in Etm; lia].
      eapply lt_trans; [eapply IH1|eapply IH2]; eauto.
  Qed.
End Causal.

(* ------------------------------------------------------------------ *)
(** * Instances *)

Theorem lamport_causal tr ts : stamps lamport tr = Some ts ->
  forall i j, hb tr i j -> forall ti tj,
  nth_error ts i = Some ti -> nth_error ts j = Some tj -> ti < tj.
Proof.
  apply (causal lamport Z.lt); cbn; intros; lia.
Qed.

Definition hlc_lt (a b : hlc_ts) : Prop := hlc_ltb a b = true.

Lemma hlc_ltb_trans a b c : hlc_ltb a b = true -> hlc_ltb b c = true -> hlc_ltb a c = true.
Proof. destruct a as [[ap al] an], b as [[bp bl] bn], c as [[cp cl] cn]; unfold hlc_ltb; lia. Qed.

Lemma hlc_now_spec pt lp ll :
  let r := hlc_now pt (lp, ll) in
  lp < fst r \/ (lp = fst r /\ ll < snd r).
Proof. unfold hlc_now. destruct (pt >? lp) eqn:E; cbn; lia. Qed.

Lemma hlc_recv_spec pt lp ll rp rl rn :
  let r := hlc_recv pt (lp, ll) (rp, rl, rn) in
  (lp < fst r \/ (lp = fst r /\ ll < snd r)) /\ (rp < fst r \/ (rp = fst r /\ rl < snd r)).
Proof.
  unfold hlc_recv.
  repeat match goal with |- context [if ?b then _ else _] => destruct b eqn:? end; cbn; lia.
Qed.

Theorem hlc_causal tr ts : stamps hlc tr = Some ts ->
  forall i j, hb tr i j -> forall ti tj,
  nth_error ts i = Some ti -> nth_error ts j = Some tj -> hlc_ltb ti tj = true.
Proof.
  apply (causal hlc hlc_lt); unfold hlc_lt.
  - intros; eapply hlc_ltb_trans; eauto.
  - intros n pt [lp ll]. pose proof (hlc_now_spec pt lp ll) as H. cbn in *.
    destruct (hlc_now pt (lp, ll)) as [p l]; cbn in *. lia.
  - intros n pt [lp ll]. pose proof (hlc_now_spec pt lp ll) as H. cbn in *.
    destruct (hlc_now pt (lp, ll)) as [p l]; cbn in *. lia.
  - intros n pt [lp ll] [[rp rl] rn]. pose proof (hlc_recv_spec pt lp ll rp rl rn) as H. cbn in *.
    destruct (hlc_recv pt (lp, ll) (rp, rl, rn)) as [p l]; cbn in *. lia.
  - intros n pt [lp ll] [[rp rl] rn]. pose proof (hlc_recv_spec pt lp ll rp rl rn) as H. cbn in *.
    destruct (hlc_recv pt (lp, ll) (rp, rl, rn)) as [p l]; cbn in *. lia.
Qed.

(** Vector clocks: strict pointwise order. *)
Definition vc_lt (a b : vec) : Prop := (forall k, a k <= b k) /\ exists k, a k < b k.

Lemma vc_lt_trans a b c : vc_lt a b -> vc_lt b c -> vc_lt a c.
Proof.
  intros [L1 [k S1]] [L2 _]. split.
  - intros x. specialize (L1 x); specialize (L2 x); lia.
  - exists k. specialize (L2 k); lia.
Qed.

Theorem vector_causal tr ts : stamps vector tr = Some ts ->
  forall i j, hb tr i j -> forall ti tj,
  nth_error ts i = Some ti -> nth_error ts j = Some tj -> vc_lt ti tj.
Proof.
  apply (causal vector vc_lt).
  - exact vc_lt_trans.
  - intros n pt c; cbn. unfold vc_tick, upd. split.
    + intros k. destruct (Z.eqb_spec k n); subst; lia.
    + exists n. rewrite Z.eqb_refl. lia.
  - intros n pt c; cbn. unfold vc_tick, upd. split.
    + intros k. destruct (Z.eqb_spec k n); subst; lia.
    + exists n. rewrite Z.eqb_refl. lia.
  - intros n pt c t; cbn. unfold vc_recv, upd. split.
    + intros k. destruct (Z.eqb_spec k n); subst; lia.
    + exists n. rewrite Z.eqb_refl. lia.
  - intros n pt c t; cbn. unfold vc_recv, upd. split.
    + intros k. destruct (Z.eqb_spec k n); subst; lia.
    + exists n. rewrite Z.eqb_refl. lia.
Qed.

(** The boolean test of the code, [happened_before], decides [vc_lt] whenever
    the key list covers every key on which the two vectors differ. *)
Lemma vc_hbb_spec keys a b :
  (forall k, ~ In k keys -> a k = b k) ->
  vc_hbb keys a b = true <-> vc_lt a b.
Proof.
  intros Hout. unfold vc_hbb, vc_leb, vc_lt.
  rewrite andb_true_iff, forallb_forall, existsb_exists. split.
  - intros [Hle [k [Hin Hk]]]. split.
    + intros x. destruct (in_dec Z.eq_dec x keys) as [I|I].
      * specialize (Hle _ I). lia.
      * rewrite (Hout _ I). lia.
    + exists k. lia.
  - intros [Hle [k Hk]]. split.
    + intros x _. specialize (Hle x). lia.
    + exists k. split; [|lia]. destruct (in_dec Z.eq_dec k keys) as [I|I]; [exact I|].
      rewrite (Hout _ I) in Hk. lia.
Qed.

(** Non-vacuity: a three-node history with a message chain. *)
Example causal_example :
  let tr := [Send 0 100 5; Local 1 2; Recv 1 100 1; Send 1 101 1; Recv 2 101 0] in
  stamps lamport tr = Some [1; 1; 2; 3; 4] /\ hb tr 0 4.
Proof.
  split; [reflexivity|].
  eapply hb_trans; [eapply hb_msg with (i := 0%nat) (j := 2%nat); cbn; eauto|].
  eapply hb_trans; [eapply hb_po with (i := 2%nat) (j := 3%nat); cbn; eauto|].
  eapply hb_msg with (i := 3%nat) (j := 4%nat); cbn; eauto.
Qed.
