(** C18 — executable model of the counter part of
    happysimulator/components/crdt/crdt_store.py (CRDTStore): local writes through
    [get_or_create] + [_apply_operation], gossip of the serialised state
    ([_serialize_state] at the sender, [_merge_remote_state] at the receiver).

    No proofs here.  A replica object is its [node_id] (the slot its own
    increments are credited to) and its PN state; a G-counter store is the case
    where nothing is ever decremented.  Stores, keys and message ids are [Z].

    [_merge_remote_state] has two branches.  For a key the store already holds,
    the remote state is merged into the local object.  For a key it does not hold
    yet, the code (since /repo c92c1df) creates a replica under the store's own
    name and merges the remote state into it: [learn true].  Before that commit
    it kept the deserialised remote object, node id included: [learn false]
    (kept here because the refutation of the value clause for that variant is the
    record of the defect). *)
From HS Require Import Base.Prelude C18.Model.
Local Open Scope Z_scope.

Record srep := { s_owner : Z; s_st : pn }.
Definition skeyed := Z -> option srep.                    (* key -> replica object *)
Record st_sys := { sstores : Z -> skeyed; sbox : Z -> skeyed }.
Definition st_init : st_sys := {| sstores := fun _ _ => None; sbox := fun _ _ => None |}.

Inductive st_op :=
| SInc (s key n : Z) | SDec (s key n : Z)
| SSend (m s : Z)            (* message m carries the serialised state of store s *)
| SRecv (s m : Z).           (* store s runs _merge_remote_state on message m *)

(** [get_or_create]: the factory is called with the store's own name. *)
Definition own_or_create (s : Z) (o : option srep) : srep :=
  match o with Some r => r | None => {| s_owner := s; s_st := pn_empty |} end.

Definition learn (fixed : bool) (s : Z) (remote : srep) : srep :=
  if fixed then {| s_owner := s; s_st := pn_merge pn_empty (s_st remote) |} else remote.

Definition merge_key (fixed : bool) (s : Z) (loc rem : option srep) : option srep :=
  match rem with
  | None => loc
  | Some r =>
      match loc with
      | Some l => Some {| s_owner := s_owner l; s_st := pn_merge (s_st l) (s_st r) |}
      | None => Some (learn fixed s r)
      end
  end.

Definition write_key (dec : bool) (s n : Z) (o : option srep) : option srep :=
  let r := own_or_create s o in
  Some {| s_owner := s_owner r;
          s_st := if dec then pn_dec (s_owner r) n (s_st r) else pn_inc (s_owner r) n (s_st r) |}.

Definition st_step (fixed : bool) (S : st_sys) (o : st_op) : st_sys :=
  match o with
  | SInc s key n =>
      {| sstores := fun s' k' => if (s' =? s) && (k' =? key) then write_key false s n (sstores S s key) else sstores S s' k';
         sbox := sbox S |}
  | SDec s key n =>
      {| sstores := fun s' k' => if (s' =? s) && (k' =? key) then write_key true s n (sstores S s key) else sstores S s' k';
         sbox := sbox S |}
  | SSend m s =>
      {| sstores := sstores S; sbox := fun m' k' => if m' =? m then sstores S s k' else sbox S m' k' |}
  | SRecv s m =>
      {| sstores := fun s' k' => if s' =? s then merge_key fixed s (sstores S s k') (sbox S m k') else sstores S s' k';
         sbox := sbox S |}
  end.
Definition st_run (fixed : bool) (ops : list st_op) : st_sys := fold_left (st_step fixed) ops st_init.

(** What store [s] reports for [key] (0 for a key it does not hold). *)
Definition st_view (S : st_sys) (key s : Z) : pn :=
  match sstores S s key with Some r => s_st r | None => pn_empty end.
Definition st_bview (S : st_sys) (key m : Z) : pn :=
  match sbox S m key with Some r => s_st r | None => pn_empty end.
Definition st_value (nodes : list Z) (S : st_sys) (key s : Z) : Z := pn_value nodes (st_view S key s).

(** Increments / decrements issued at store [k] for [key]. *)
Fixpoint sincs (key k : Z) (ops : list st_op) : Z :=
  match ops with
  | [] => 0
  | SInc s key' n :: t => (if (s =? k) && (key' =? key) && negb (n <? 1) then n else 0) + sincs key k t
  | _ :: t => sincs key k t
  end.
Fixpoint sdecs (key k : Z) (ops : list st_op) : Z :=
  match ops with
  | [] => 0
  | SDec s key' n :: t => (if (s =? k) && (key' =? key) && negb (n <? 1) then n else 0) + sdecs key k t
  | _ :: t => sdecs key k t
  end.

(** Store [r] pulls a fresh copy of every node's state (message slot 0 is reused). *)
Definition pull_all (r : Z) (nodes : list Z) : list st_op :=
  concat (map (fun k => [SSend 0 k; SRecv r 0]) nodes).

(* ------------------------------------------------------------------ *)
(** * Correspondence: after every operation, the affected store's replica for
      each key of [keys]: presence, node id, p counts and n counts over [nodes]. *)
Definition st_obs := list (option (Z * list Z * list Z)).
Definition obs_eqb (a b : option (Z * list Z * list Z)) : bool :=
  match a, b with
  | None, None => true
  | Some (o1, p1, n1), Some (o2, p2, n2) => (o1 =? o2) && list_eqb Z.eqb p1 p2 && list_eqb Z.eqb n1 n2
  | _, _ => false
  end.
Definition st_observe (nodes keys : list Z) (S : st_sys) (s : Z) : st_obs :=
  map (fun key => match sstores S s key with
                  | Some r => Some (s_owner r, map (fst (s_st r)) nodes, map (snd (s_st r)) nodes)
                  | None => None
                  end) keys.
Definition st_affected (o : st_op) : Z :=
  match o with SInc s _ _ | SDec s _ _ | SRecv s _ => s | SSend _ s => s end.

(** Evaluation aid: the state is a tower of closures (every merge doubles the cost of a
    later lookup), so the checker tabulates it over the finite universe of the case after
    every step.  [freeze_fn_in] (C18/Store.v): tabulation does not change a function on its domain. *)
Fixpoint alist_get {V} (l : list (Z * V)) (d : V) (k : Z) : V :=
  match l with [] => d | (k', v) :: t => if k =? k' then v else alist_get t d k end.
Definition freeze_fn {V} (dom : list Z) (d : V) (f : Z -> V) : Z -> V :=
  let l := map (fun k => (k, f k)) dom in alist_get l d.
Definition freeze_pn (nodes : list Z) (c : pn) : pn :=
  (freeze_fn nodes 0 (fst c), freeze_fn nodes 0 (snd c)).
Definition freeze_keyed (nodes keys : list Z) (f : skeyed) : skeyed :=
  freeze_fn keys None
    (fun key => match f key with
                | Some r => Some {| s_owner := s_owner r; s_st := freeze_pn nodes (s_st r) |}
                | None => None
                end).
Definition freeze_sys (nodes keys msgs : list Z) (S : st_sys) : st_sys :=
  {| sstores := freeze_fn nodes (fun _ => None) (fun s => freeze_keyed nodes keys (sstores S s));
     sbox := freeze_fn msgs (fun _ => None) (fun m => freeze_keyed nodes keys (sbox S m)) |}.

Fixpoint ok_store_from (nodes keys msgs : list Z) (S : st_sys) (l : list (st_op * st_obs)) : bool :=
  match l with
  | [] => true
  | (o, ob) :: t =>
      let S' := freeze_sys nodes keys msgs (st_step true S o) in
      list_eqb obs_eqb (st_observe nodes keys S' (st_affected o)) ob && ok_store_from nodes keys msgs S' t
  end.
Definition msgs_of (l : list (st_op * st_obs)) : list Z :=
  flat_map (fun x => match fst x with SSend m _ => [m] | _ => [] end) l.
Definition ok_store (c : list Z * list Z * list (st_op * st_obs)) : bool :=
  let '(nodes, keys, l) := c in ok_store_from nodes keys (msgs_of l) st_init l.
