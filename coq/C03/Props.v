(** Property C03 — the same model and seeds give the same run.

    (1) Every model in this development is a Gallina function of the script /
        operation sequence alone: no hash salt, wall clock, object address or
        process-global counter is a parameter, and the correspondence checks
        show the implementation agrees with these functions.  What remains is
        the question WHICH inputs a faithful model needs; that is settled per
        site by the classification below.
    (2) [c03_env_sites_classified]: every site of the CURRENT source tree where
        a run can come to depend on the environment (regenerated on every run
        into Gen/EnvSites.v by harness/translate/sites.py) has a settled row in
        the hand-maintained table C03/SiteClass.v: benign for a stated reason,
        or a recorded finding.  A proof by computation over a finite domain.
    (3) The findings named by the table are exactly the recorded ones. *)
From HS Require Import Base.Sites C03.SiteClass Gen.EnvSites.
From Coq Require Import String List ZArith Bool.
Import ListNotations.
Local Open Scope string_scope.

Theorem c03_env_sites_classified : all_classified known_env_sites env_sites = true.
Proof. vm_compute. reflexivity. Qed.
Print Assumptions c03_env_sites_classified.

Theorem c03_every_env_site_has_a_settled_row :
  forall s, In s env_sites -> exists c, In (s, c) known_env_sites /\ is_settled c = true.
Proof. exact (all_classified_spec known_env_sites env_sites c03_env_sites_classified). Qed.
Print Assumptions c03_every_env_site_has_a_settled_row.

(** The table names these findings and no others (each has an entry in
    known_findings/C03.json with a replayable witness). *)
Theorem c03_findings_of_the_table :
  nodup string_dec (finding_ids known_env_sites) =
  ["C03-ttl-eviction-wallclock-default"].
Proof. vm_compute. reflexivity. Qed.
Print Assumptions c03_findings_of_the_table.

(** (4) Engine level, ALL scripts: the observable run does not depend on the
    value of the process-global sort-index counter when the model is built,
    i.e. on which simulations were built or run earlier in the interpreter.
    Numbering the events from any [k] instead of 0 yields the same delivery
    sequence (time, type, target, kind), the same entity-side log (clocks seen,
    values received, hooks, finishes) and the same final clock and counters. *)
From HS Require Import Base.Prelude Engine.Engine Engine.Script Engine.Shift Engine.ShiftRun.
Local Open Scope Z_scope.

Theorem c03_run_independent_of_counter_offset : forall k fuel start end_ns p pre,
  let o0 := script_run fuel start end_ns p pre in
  let ok := run invoke_script fuel end_ns (script_init_from k start p pre) in
  deliveries_of (out_state ok) = deliveries_of (out_state o0) /\
  ulog (user (out_state ok)) = ulog (user (out_state o0)) /\
  clock (out_state ok) = clock (out_state o0) /\
  processed (out_state ok) = processed (out_state o0) /\
  ncancelled (out_state ok) = ncancelled (out_state o0) /\
  length (heap (out_state ok)) = length (heap (out_state o0)).
Proof. exact run_independent_of_counter_offset. Qed.
Print Assumptions c03_run_independent_of_counter_offset.

(** Non-vacuity: numbering from 1000 really produces different identities. *)
Example c03_offset_example :
  map (fun e => ev_sort e) (heap (script_init_from 1000 0 [[]] [mkPre 5 (mkEmit (mkEmit0 0 0 0 false) (-1) []) false]))
  = [1000].
Proof. reflexivity. Qed.
