(* GENERATED on every run by harness/translate/sites.py from $HS_REPO/happysimulator -- do not edit *)
From Coq Require Import String List ZArith.
Import ListNotations.
Local Open Scope string_scope.
Local Open Scope Z_scope.
Definition stale_sites : list (string * string * string * string * Z) := [
  ("happysimulator/components/messaging/message_queue.py", "MessageQueue._deliver_message", "stale_now", "Event(time=self._clock.now if self._clock else now) name now bound before a yield", 0);
  ("happysimulator/components/server/async_server.py", "AsyncServer._on_cpu_complete", "stale_now", "events in 'result_events' stamped in the enclosing function, emitted by nested generator io_wrapper after a yield", 0)
].
