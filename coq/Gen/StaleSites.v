(* GENERATED on every run by harness/translate/sites.py from $HS_REPO/happysimulator -- do not edit *)
From Coq Require Import String List ZArith.
Import ListNotations.
Local Open Scope string_scope.
Local Open Scope Z_scope.
Definition stale_sites : list (string * string * string * string * Z) := [
  ("happysimulator/components/advertising.py", "Advertiser.start_events", "event_time", "time=Instant.from_seconds(self.evaluation_interval)", 0);
  ("happysimulator/components/behavior/agent.py", "Agent.schedule_first_heartbeat", "event_time", "time=start_time + self.heartbeat_interval", 0);
  ("happysimulator/components/behavior/stimulus.py", "broadcast_stimulus", "event_time", "time=t; t := _to_instant(time)", 0);
  ("happysimulator/components/behavior/stimulus.py", "targeted_stimulus", "event_time", "time=t; t := _to_instant(time)", 0);
  ("happysimulator/components/behavior/stimulus.py", "influence_propagation", "event_time", "time=t; t := _to_instant(time)", 0);
  ("happysimulator/components/client/client.py", "Client._send_request.on_complete", "event_time", "time=finish_time", 0);
  ("happysimulator/components/client/connection_pool.py", "ConnectionPool.acquire", "wait_loop", "while elapsed < self._connection_timeout: yield poll_interval", 0);
  ("happysimulator/components/client/connection_pool.py", "ConnectionPool._handle_warmup", "wait_loop", "while self._total_connections < self._min_connections: yield from self._create_connection()", 0);
  ("happysimulator/components/client/pooled_client.py", "PooledClient._send_request.on_complete", "event_time", "time=finish_time", 0);
  ("happysimulator/components/datastore/cache_warming.py", "CacheWarmer.start_warming", "event_time", "time=Instant.Epoch", 0);
  ("happysimulator/components/datastore/cache_warming.py", "CacheWarmer.warm_keys", "wait_loop", "while True: yield delay", 0);
  ("happysimulator/components/datastore/database.py", "Database._acquire_connection", "wait_loop", "while not acquired[0]: yield 0.01", 0);
  ("happysimulator/components/datastore/replicated_store.py", "ReplicatedStore.get", "wait_loop", "while True: yield delay", 0);
  ("happysimulator/components/datastore/replicated_store.py", "ReplicatedStore.put", "wait_loop", "while True: yield delay", 0);
  ("happysimulator/components/datastore/replicated_store.py", "ReplicatedStore.delete", "wait_loop", "while True: yield delay", 0);
  ("happysimulator/components/datastore/soft_ttl_cache.py", "SoftTTLCache.get", "stale_now", "event from self._maybe_start_refresh() kept before a later yield", 0);
  ("happysimulator/components/deployment/rolling_deployer.py", "RollingDeployer._run_health_check.on_complete", "event_time", "time=finish_time", 0);
  ("happysimulator/components/industrial/appointment.py", "AppointmentScheduler.start_events", "event_time", "time=Instant.from_seconds(t)", 0);
  ("happysimulator/components/industrial/breakdown.py", "BreakdownScheduler.start_event", "event_time", "time=Instant.from_seconds(ttf); ttf := random.expovariate(1.0 / self.mean_time_to_failure)", 0);
  ("happysimulator/components/industrial/gate_controller.py", "GateController.start_events", "event_time", "time=Instant.from_seconds(open_at)", 0);
  ("happysimulator/components/industrial/gate_controller.py", "GateController.start_events", "event_time", "time=Instant.from_seconds(close_at)", 0);
  ("happysimulator/components/industrial/perishable_inventory.py", "PerishableInventory.start_event", "event_time", "time=Instant.from_seconds(self.spoilage_check_interval_s)", 0);
  ("happysimulator/components/industrial/perishable_inventory.py", "PerishableInventory._handle_spoilage_check", "event_time", "time=Instant.from_seconds(now_s + self.spoilage_check_interval_s); now_s := now.to_seconds()", 0);
  ("happysimulator/components/industrial/shift_schedule.py", "ShiftedServer._schedule_next_shift", "event_time", "time=Instant.from_seconds(next_t); next_t := self.schedule.next_transition_after(current_s)", 0);
  ("happysimulator/components/infrastructure/cpu_scheduler.py", "CPUScheduler.execute", "wait_loop", "while task.remaining_s > 0: yield self._context_switch_s", 0);
  ("happysimulator/components/infrastructure/cpu_scheduler.py", "CPUScheduler.execute", "wait_loop", "while task.remaining_s > 0: yield self._policy.time_quantum_s(task) if selected else", 0);
  ("happysimulator/components/infrastructure/cpu_scheduler.py", "CPUScheduler.execute", "wait_loop", "while task.remaining_s > 0: yield run_time", 0);
  ("happysimulator/components/infrastructure/page_cache.py", "PageCache._ensure_space", "wait_loop", "while len(self._pages) >= self._capacity: yield from self._evict_one()", 0);
  ("happysimulator/components/infrastructure/tcp_connection.py", "TCPConnection.send", "wait_loop", "while sent < segments: yield self._rto_s", 0);
  ("happysimulator/components/infrastructure/tcp_connection.py", "TCPConnection.send", "wait_loop", "while sent < segments: yield self.rtt_s", 0);
  ("happysimulator/components/load_balancer/health_check.py", "HealthChecker._check_backend.on_complete", "event_time", "time=finish_time", 0);
  ("happysimulator/components/load_balancer/load_balancer.py", "LoadBalancer._forward_request.on_complete", "event_time", "time=finish_time", 0);
  ("happysimulator/components/messaging/message_queue.py", "MessageQueue._deliver_message", "stale_now", "Event(time=self._clock.now if self._clock else now) name now bound before a yield", 0);
  ("happysimulator/components/messaging/message_queue.py", "MessageQueue.schedule_redelivery", "event_time", "time=redelivery_time; redelivery_time := Instant.from_seconds(now.to_seconds() + self._redelivery_delay)", 0);
  ("happysimulator/components/microservice/api_gateway.py", "APIGateway._forward_request.on_complete", "event_time", "time=finish_time", 0);
  ("happysimulator/components/microservice/idempotency_store.py", "IdempotencyStore._forward.on_complete", "event_time", "time=finish_time", 0);
  ("happysimulator/components/microservice/saga.py", "Saga._execute_step.on_complete", "event_time", "time=finish_time", 0);
  ("happysimulator/components/microservice/saga.py", "Saga._execute_compensation.on_complete", "event_time", "time=finish_time", 0);
  ("happysimulator/components/microservice/sidecar.py", "Sidecar._forward_request.on_complete", "event_time", "time=finish_time", 0);
  ("happysimulator/components/rate_limiter/distributed.py", "DistributedRateLimiter.check_and_increment", "wait_loop", "while True: yield delay", 0);
  ("happysimulator/components/rate_limiter/distributed.py", "DistributedRateLimiter.check_and_increment", "wait_loop", "while True: yield delay", 1);
  ("happysimulator/components/rate_limiter/inductor.py", "Inductor._forward", "event_time", "time=now", 0);
  ("happysimulator/components/rate_limiter/inductor.py", "Inductor._ensure_poll_scheduled", "event_time", "time=poll_time; poll_time := now + wait", 0);
  ("happysimulator/components/rate_limiter/rate_limited_entity.py", "RateLimitedEntity._forward", "event_time", "time=now", 0);
  ("happysimulator/components/rate_limiter/rate_limited_entity.py", "RateLimitedEntity._ensure_poll_scheduled", "event_time", "time=poll_time; poll_time := now + wait", 0);
  ("happysimulator/components/resilience/bulkhead.py", "Bulkhead._forward_request.on_complete", "event_time", "time=finish_time", 0);
  ("happysimulator/components/resilience/circuit_breaker.py", "CircuitBreaker._forward_request.on_complete", "event_time", "time=finish_time", 0);
  ("happysimulator/components/resilience/fallback.py", "Fallback._forward_to_primary.on_complete", "event_time", "time=finish_time", 0);
  ("happysimulator/components/resilience/fallback.py", "Fallback._forward_to_fallback.on_complete", "event_time", "time=finish_time", 0);
  ("happysimulator/components/resilience/hedge.py", "Hedge._create_request_event.on_complete", "event_time", "time=finish_time", 0);
  ("happysimulator/components/resilience/timeout.py", "TimeoutWrapper._forward_request.on_complete", "event_time", "time=finish_time", 0);
  ("happysimulator/components/scheduling/job_scheduler.py", "JobScheduler._run_tick.on_complete", "event_time", "time=finish_time", 0);
  ("happysimulator/components/server/async_server.py", "AsyncServer._on_cpu_complete", "stale_now", "events in 'result_events' stamped in the enclosing function, emitted by nested generator io_wrapper after a yield", 0);
  ("happysimulator/components/sync/barrier.py", "Barrier.wait", "wait_loop", "while not released[0]: yield wakeup", 0);
  ("happysimulator/components/sync/condition.py", "Condition.wait", "wait_loop", "while not woken[0]: yield wakeup", 0);
  ("happysimulator/components/sync/condition.py", "Condition.wait_for", "wait_loop", "while not predicate(): yield from self.wait()", 0);
  ("happysimulator/components/sync/mutex.py", "Mutex.acquire", "wait_loop", "while not acquired[0]: yield wakeup", 0);
  ("happysimulator/components/sync/rwlock.py", "RWLock.acquire_read", "wait_loop", "while not acquired[0]: yield wakeup", 0);
  ("happysimulator/components/sync/rwlock.py", "RWLock.acquire_write", "wait_loop", "while not acquired[0]: yield wakeup", 0);
  ("happysimulator/components/sync/semaphore.py", "Semaphore.acquire", "wait_loop", "while not acquired[0]: yield wakeup", 0);
  ("happysimulator/faults/network_faults.py", "InjectLatency.generate_events", "event_time", "time=Instant.from_seconds(self.start)", 0);
  ("happysimulator/faults/network_faults.py", "InjectLatency.generate_events", "event_time", "time=Instant.from_seconds(self.end)", 0);
  ("happysimulator/faults/network_faults.py", "InjectPacketLoss.generate_events", "event_time", "time=Instant.from_seconds(self.start)", 0);
  ("happysimulator/faults/network_faults.py", "InjectPacketLoss.generate_events", "event_time", "time=Instant.from_seconds(self.end)", 0);
  ("happysimulator/faults/network_faults.py", "NetworkPartition.generate_events", "event_time", "time=Instant.from_seconds(self.start)", 0);
  ("happysimulator/faults/network_faults.py", "NetworkPartition.generate_events", "event_time", "time=Instant.from_seconds(self.end)", 0);
  ("happysimulator/faults/network_faults.py", "RandomPartition.generate_events.schedule_fault", "event_time", "time=Instant.from_seconds(at)", 0);
  ("happysimulator/faults/network_faults.py", "RandomPartition.generate_events.schedule_heal", "event_time", "time=Instant.from_seconds(at)", 0);
  ("happysimulator/faults/node_faults.py", "CrashNode.generate_events", "event_time", "time=Instant.from_seconds(self.at)", 0);
  ("happysimulator/faults/node_faults.py", "CrashNode.generate_events", "event_time", "time=Instant.from_seconds(self.restart_at)", 0);
  ("happysimulator/faults/node_faults.py", "PauseNode.generate_events", "event_time", "time=Instant.from_seconds(self.start)", 0);
  ("happysimulator/faults/node_faults.py", "PauseNode.generate_events", "event_time", "time=Instant.from_seconds(self.end)", 0);
  ("happysimulator/faults/resource_faults.py", "ReduceCapacity.generate_events", "event_time", "time=Instant.from_seconds(self.start)", 0);
  ("happysimulator/faults/resource_faults.py", "ReduceCapacity.generate_events", "event_time", "time=Instant.from_seconds(self.end)", 0);
  ("happysimulator/load/source.py", "SimpleEventProvider.get_events", "event_time", "time=time", 0);
  ("happysimulator/load/providers/distributed_field.py", "DistributedFieldProvider.get_events", "event_time", "time=time", 0)
].
