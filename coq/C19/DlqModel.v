(** C19 — DeadLetterQueue (components/messaging/dlq.py) driven directly:
    [add_message] with BOTH a capacity and a retention period, [pop], [clear].
    Times are whole seconds (the harness only uses integral seconds, where the
    code's float subtraction is exact).  Messages are (id, time added), oldest
    first.  No proofs in this file. *)
From HS Require Import Base.Prelude.
Local Open Scope Z_scope.

Record dlq := MkDlq {
  d_cap : option Z;            (* capacity (None = unlimited) *)
  d_ret : option Z;            (* retention_period, seconds (None = forever) *)
  d_msgs : list (Z * Z);       (* _messages zipped with _message_times *)
  d_recv : Z;                  (* _messages_received *)
  d_disc : Z;                  (* _messages_discarded *)
}.

Definition dl_zlen {A} (l : list A) : Z := Z.of_nat (length l).

(** [_cleanup_expired]: drop from the front while [now - t > retention]. *)
Fixpoint dl_sweep (now ret : Z) (l : list (Z * Z)) : list (Z * Z) :=
  match l with
  | [] => []
  | (m, t) :: r => if now - t >? ret then dl_sweep now ret r else l
  end.

Definition dl_full (cap : option Z) (l : list (Z * Z)) : bool :=
  match cap with None => false | Some c => c <=? dl_zlen l end.

Definition dl_add (d : dlq) (now m : Z) : dlq :=
  let l1 := match d_ret d with None => d_msgs d | Some r => dl_sweep now r (d_msgs d) end in
  let evict := dl_full (d_cap d) l1 && negb (match l1 with [] => true | _ => false end) in
  let l2 := if evict then tl l1 else l1 in
  MkDlq (d_cap d) (d_ret d) (l2 ++ [(m, now)]) (d_recv d + 1)
        (d_disc d + (dl_zlen (d_msgs d) - dl_zlen l1) + (if evict then 1 else 0)).

Inductive dlop := DAdd (now m : Z) | DPop | DClear.

(** result: [pop] -> id or -1; [clear] -> number removed; [add] -> 1 *)
Definition dl_step (d : dlq) (o : dlop) : dlq * Z :=
  match o with
  | DAdd now m => (dl_add d now m, 1)
  | DPop => match d_msgs d with
            | [] => (d, -1)
            | (m, _) :: r => (MkDlq (d_cap d) (d_ret d) r (d_recv d) (d_disc d), m)
            end
  | DClear => (MkDlq (d_cap d) (d_ret d) [] (d_recv d) (d_disc d + dl_zlen (d_msgs d)), dl_zlen (d_msgs d))   (* cleared messages count as discarded *)
  end.

Fixpoint dl_run (d : dlq) (ops : list dlop) : dlq :=
  match ops with [] => d | o :: r => dl_run (fst (dl_step d o)) r end.

(** observation after each op: result, held ids (oldest first), received, discarded *)
Definition dlobs := (Z * list Z * Z * Z)%type.

Fixpoint ok_dlq_from (d : dlq) (tr : list (dlop * dlobs)) : bool :=
  match tr with
  | [] => true
  | (o, (r, ids, rc, dc)) :: rest =>
      let '(d', r') := dl_step d o in
      (r =? r') && list_eqb Z.eqb ids (map fst (d_msgs d')) && (rc =? d_recv d') && (dc =? d_disc d') && ok_dlq_from d' rest
  end.

Definition ok_dlq (c : option Z * option Z * list (dlop * dlobs)) : bool :=
  let '(cap, ret, tr) := c in ok_dlq_from (MkDlq cap ret [] 0 0) tr.
