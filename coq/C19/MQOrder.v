(** C19 — first deliveries follow publish order (MessageQueue). *)
From HS Require Import Base.Prelude C19.Model C19.MQ.
From Coq Require Import Sorting.Sorted.
Local Open Scope Z_scope.

(** Consumers reject, and the engine hands back redelivery events for, only
    messages that were delivered at least once (schedule_redelivery creates
    such events for in-flight messages only). *)
Definition op_wf (s : mq) (o : op) : Prop :=
  match o with
  | Reject mid _ | RedeliverBegin _ mid => In mid (q_msgs s) -> 1 <= m_count (q_obj s mid)
  | _ => True
  end.

Fixpoint wf_ops (cfg : mqcfg) (s : mq) (ops : list op) : Prop :=
  match ops with
  | [] => True
  | o :: r => op_wf s o /\ wf_ops cfg (fst (step cfg s o)) r
  end.

Definition isfresh (s : mq) (id : Z) : bool := m_count (q_obj s id) =? 0.
Definition fresh (s : mq) : list Z := filter (isfresh s) (q_pending s).

Record oinv (s : mq) : Prop := {
  o_acc : forall id, acc s id;
  o_sorted : StronglySorted Z.lt (g_first s ++ fresh s);
  o_lt : forall x, In x (g_first s) -> x < q_next s;
  o_cnt : forall id, 0 <= m_count (q_obj s id);
  o_infl : forall id, In id (q_inflight s) -> 1 <= m_count (q_obj s id);
}.

(* ---- list lemmas *)
Lemma filter_ext_in' {A} (f g : A -> bool) l : (forall x, In x l -> f x = g x) -> filter f l = filter g l.
Proof.
  induction l as [|y r IH]; intros H; [reflexivity|]. cbn.
  rewrite (H y (or_introl eq_refl)), IH; [reflexivity|]. intros x Hx. apply H. right. exact Hx.
Qed.

Lemma filter_rem1_false f x l : f x = false -> filter f (rem1 x l) = filter f l.
Proof.
  intros Hf. induction l as [|y r IH]; [reflexivity|]. cbn.
  destruct (Z.eqb_spec x y); [subst y; rewrite Hf; reflexivity|]. cbn. rewrite IH. reflexivity.
Qed.

Lemma filter_rem1_true f x l : f x = true -> filter f (rem1 x l) = rem1 x (filter f l).
Proof.
  intros Hf. induction l as [|y r IH]; [reflexivity|]. cbn.
  destruct (Z.eqb_spec x y).
  - subst y. rewrite Hf. cbn. rewrite Z.eqb_refl. reflexivity.
  - cbn. destruct (f y); cbn; [destruct (Z.eqb_spec x y); [contradiction|]|]; rewrite IH; reflexivity.
Qed.

Lemma In_rem1 x y l : In x (rem1 y l) -> In x l.
Proof.
  induction l as [|z r IH]; [intros []|]. cbn. destruct (y =? z); [intros H; right; exact H|].
  intros [H|H]; [left; exact H|right; apply IH; exact H].
Qed.

Lemma ss_rem1 x l : StronglySorted Z.lt l -> StronglySorted Z.lt (rem1 x l).
Proof.
  induction 1 as [|y r S IH F]; [constructor|]. cbn. destruct (x =? y); [exact S|].
  constructor; [exact IH|]. rewrite Forall_forall in *. intros z Hz. apply F. eapply In_rem1. exact Hz.
Qed.

Lemma ss_app_rem1 x a b : StronglySorted Z.lt (a ++ b) -> StronglySorted Z.lt (a ++ rem1 x b).
Proof.
  induction a as [|y r IH]; cbn; [apply ss_rem1|].
  intros S. inversion S as [|? ? S' F]; subst. constructor; [apply IH; exact S'|].
  rewrite Forall_forall in *. intros z Hz. apply F. rewrite in_app_iff in *.
  destruct Hz as [Hz|Hz]; [left; exact Hz|right; eapply In_rem1; exact Hz].
Qed.

Lemma ss_app_snoc l x : StronglySorted Z.lt l -> (forall y, In y l -> y < x) -> StronglySorted Z.lt (l ++ [x]).
Proof.
  induction 1 as [|y r S IH F]; intros H; cbn; [repeat constructor|].
  constructor; [apply IH; intros z Hz; apply H; right; exact Hz|].
  rewrite Forall_forall in *. intros z Hz. rewrite in_app_iff in Hz. destruct Hz as [Hz|[<-|[]]].
  - apply F. exact Hz.
  - apply H. left. reflexivity.
Qed.

Lemma ss_app_l a b : StronglySorted Z.lt (a ++ b) -> StronglySorted Z.lt a.
Proof.
  induction a as [|y r IH]; cbn; [constructor|]. intros S. inversion S as [|? ? S' F]; subst.
  constructor; [apply IH; exact S'|]. rewrite Forall_forall in *. intros z Hz. apply F. rewrite in_app_iff. left. exact Hz.
Qed.

Lemma filter_app' {A} (f : A -> bool) a b : filter f (a ++ b) = filter f a ++ filter f b.
Proof. induction a as [|y r IH]; cbn; [reflexivity|]. destruct (f y); cbn; rewrite IH; reflexivity. Qed.

(* ---- facts from the accounting invariant *)
Lemma acc_pending_lt s id : acc s id -> In id (q_pending s) -> 0 <= id < q_next s.
Proof.
  intros (H1 & H2 & H3) HI. apply cnt_In in HI. nonneg id s. unfold published in H2.
  destruct (0 <=? id) eqn:E1, (id <? q_next s) eqn:E2; cbn in H2; lia.
Qed.

Lemma isfresh_upd_other s id v x : x <> id ->
  (m_count (upd (q_obj s) id v x) =? 0) = isfresh s x.
Proof. intros N. unfold isfresh, upd. destruct (Z.eqb_spec x id); [contradiction|reflexivity]. Qed.

(* ---- preservation *)
Lemma oinv_init : oinv mq_init.
Proof.
  constructor; cbn; try (intros; lia); try (intros ? []).
  - apply acc_init.
  - constructor.
Qed.

Lemma fresh_ext s s' l :
  (forall x, In x l -> isfresh s' x = isfresh s x) ->
  filter (isfresh s') l = filter (isfresh s) l.
Proof. intros H. apply filter_ext_in'. exact H. Qed.

Lemma cnt_keep s mid st c id :
  m_count (upd (q_obj s) mid {| m_count := m_count (q_obj s mid); m_state := st; m_cons := c |} id) = m_count (q_obj s id).
Proof. unfold upd. destruct (Z.eqb_spec id mid); [subst; reflexivity|reflexivity]. Qed.

Lemma In_remall x y l : In x (remall y l) -> In x l.
Proof. unfold remall. intros H. apply filter_In in H. tauto. Qed.

Ltac keepcount := intros; unfold isfresh; cbn [q_obj set_core]; rewrite cnt_keep; reflexivity.

Lemma oinv_ack s mid : oinv s -> oinv (do_ack s mid).
Proof.
  intros I. pose proof (fun id => acc_ack s mid id (o_acc s I id)) as A.
  unfold do_ack in *. destruct (negb (mem mid (q_msgs s))); [exact I|].
  constructor.
  - exact A.
  - unfold fresh. cbn [q_pending g_first set_core]. rewrite (fresh_ext s) by keepcount.
    destruct (isfresh s mid) eqn:E.
    + rewrite filter_rem1_true by exact E. apply ss_app_rem1. exact (o_sorted s I).
    + rewrite filter_rem1_false by exact E. exact (o_sorted s I).
  - exact (o_lt s I).
  - intros id. cbn [q_obj set_core]. rewrite cnt_keep. apply (o_cnt s I).
  - intros id H. cbn [q_obj q_inflight set_core] in *. rewrite cnt_keep. apply (o_infl s I). eapply In_remall. exact H.
Qed.

Lemma oinv_reject cfg s mid rq :
  oinv s -> (In mid (q_msgs s) -> 1 <= m_count (q_obj s mid)) -> oinv (do_reject cfg s mid rq).
Proof.
  intros I W. pose proof (fun id => acc_reject cfg s mid rq id (o_acc s I id)) as A.
  unfold do_reject in *. destruct (mem mid (q_msgs s)) eqn:EM; cbn [negb] in *; [|exact I].
  apply mem_In in EM. specialize (W EM).
  assert (F : isfresh s mid = false) by (unfold isfresh; lia).
  destruct (rq && _).
  - constructor.
    + exact A.
    + unfold fresh. cbn [q_pending g_first set_core]. rewrite (fresh_ext s) by keepcount.
      rewrite filter_app', filter_rem1_false by exact F.
      cbn [filter]. rewrite F, app_nil_r. exact (o_sorted s I).
    + exact (o_lt s I).
    + intros id. cbn [q_obj set_core]. rewrite cnt_keep. apply (o_cnt s I).
    + intros id H. cbn [q_obj q_inflight set_core] in *. rewrite cnt_keep. apply (o_infl s I). eapply In_remall. exact H.
  - destruct (c_dlq cfg); constructor; try exact A; try exact (o_lt s I);
      try (intros id; cbn [q_obj set_core]; rewrite cnt_keep; apply (o_cnt s I));
      try (intros id H; cbn [q_obj q_inflight set_core] in *; rewrite cnt_keep; apply (o_infl s I); eapply In_remall; exact H);
      unfold fresh; cbn [q_pending g_first set_core]; rewrite (fresh_ext s) by keepcount;
      rewrite filter_rem1_false by exact F; exact (o_sorted s I).
Qed.

Lemma In_addkey x y l : In x (addkey y l) -> x = y \/ In x l.
Proof.
  unfold addkey. destruct (mem y l); [tauto|]. rewrite in_app_iff. cbn. intros [H|[H|[]]]; auto.
Qed.

(** Pre-yield half of a delivery.  The hypothesis says: a never-delivered
    message is only ever delivered from the head of the pending deque (poll). *)
Lemma oinv_deliver_begin s h mid :
  oinv s ->
  (In mid (q_msgs s) -> m_count (q_obj s mid) = 0 -> exists r, q_pending s = mid :: r) ->
  oinv (fst (deliver_begin s h mid)).
Proof.
  intros I HD. pose proof (fun id => acc_deliver_begin s h mid id (o_acc s I id)) as A.
  unfold deliver_begin in *. destruct (mem mid (q_msgs s)) eqn:EM; cbn [negb] in *; [|exact I].
  destruct (q_cons s) eqn:EC; [exact I|]. cbn [fst] in *.
  apply mem_In in EM. specialize (HD EM).
  pose proof (o_cnt s I mid) as C0.
  set (c := nth_mod (z :: l) (q_cidx s)) in *.
  set (o' := {| m_count := m_count (q_obj s mid) + 1; m_state := 1; m_cons := Some c |}) in *.
  assert (CU : forall id, 0 <= m_count (upd (q_obj s) mid o' id)).
  { intros id. unfold upd. destruct (Z.eqb_spec id mid); cbn; [lia|apply (o_cnt s I)]. }
  assert (IU : forall id, In id (addkey mid (q_inflight s)) -> 1 <= m_count (upd (q_obj s) mid o' id)).
  { intros id H. unfold upd. destruct (Z.eqb_spec id mid); cbn; [lia|].
    apply In_addkey in H. destruct H as [H|H]; [contradiction|apply (o_infl s I); exact H]. }
  destruct (Z.eq_dec (m_count (q_obj s mid)) 0) as [Z0|NZ].
  - (* first delivery: mid is the head of pending *)
    destruct (HD Z0) as [r EP].
    assert (NR : ~ In mid r).
    { destruct (acc_pending_le1 s mid (o_acc s I mid)) as (P1 & _). rewrite EP in P1. cbn [cnt] in P1.
      rewrite Z.eqb_refl in P1. apply not_In_cnt. pose proof (cnt_nonneg mid r). lia. }
    replace (1 <? m_count (q_obj s mid) + 1) with false in * by lia.
    constructor; try exact A; try exact CU; try exact IU.
    + unfold fresh. cbn [q_pending g_first]. rewrite EP. cbn [mem]. rewrite Z.eqb_refl. cbn [rem1]. rewrite Z.eqb_refl.
      rewrite <- app_assoc. cbn [app].
      pose proof (o_sorted s I) as S. unfold fresh in S. rewrite EP in S. cbn [filter] in S.
      assert (FM : isfresh s mid = true) by (unfold isfresh; lia). rewrite FM in S.
      rewrite (fresh_ext s); [exact S|].
      intros x Hx. unfold isfresh. cbn [q_obj]. unfold upd. destruct (Z.eqb_spec x mid); [subst; contradiction|reflexivity].
    + cbn [g_first q_next]. intros x Hx. rewrite in_app_iff in Hx. destruct Hx as [Hx|[<-|[]]]; [apply (o_lt s I); exact Hx|].
      pose proof (acc_msgs_lt s mid (o_acc s I mid) EM). lia.
  - (* redelivery: the fresh sub-list is untouched *)
    assert (F : isfresh s mid = false) by (unfold isfresh; lia).
    replace (1 <? m_count (q_obj s mid) + 1) with true in * by lia.
    constructor; try exact A; try exact CU; try exact IU.
    + unfold fresh. cbn [q_pending g_first].
      rewrite (fresh_ext s).
      * destruct (mem mid (q_pending s)); [rewrite filter_rem1_false by exact F|]; exact (o_sorted s I).
      * intros x _. unfold isfresh in *. cbn [q_obj]. unfold upd. destruct (Z.eqb_spec x mid); [|reflexivity].
        subst x. cbn [m_count o']. lia.
    + exact (o_lt s I).
Qed.

Lemma oinv_same_core s s' :
  oinv s -> q_obj s' = q_obj s -> q_next s' = q_next s -> q_msgs s' = q_msgs s ->
  q_pending s' = q_pending s -> q_inflight s' = q_inflight s -> g_first s' = g_first s ->
  g_acked s' = g_acked s -> q_dead s' = q_dead s -> g_dlqlost s' = g_dlqlost s -> g_dropped s' = g_dropped s ->
  g_reproc s' = g_reproc s ->
  oinv s'.
Proof.
  intros I E1 E2 E3 E4 E5 E6 E7 E8 E9 E10 E11. destruct I as [A S L C F].
  constructor; unfold acc, published, fresh, isfresh in *; rewrite ?E1, ?E2, ?E3, ?E4, ?E5, ?E6, ?E7, ?E8, ?E9, ?E10, ?E11; assumption.
Qed.

Lemma oinv_step cfg s o : oinv s -> op_wf s o -> oinv (fst (step cfg s o)).
Proof.
  intros I W. pose proof (fun id => acc_step cfg s o id (o_acc s I id)) as A.
  destruct o; cbn [step op_wf] in *.
  - destruct (mem c (q_cons s)); [exact I|]. eapply oinv_same_core; [exact I|reflexivity..].
  - destruct (mem c (q_cons s)); [|exact I]. eapply oinv_same_core; [exact I|reflexivity..].
  - destruct (mq_full cfg s); [exact I|]. cbn [fst] in *.
    assert (PL : forall x, In x (q_pending s) -> x <> q_next s).
    { intros x Hx. pose proof (acc_pending_lt s x (o_acc s I x) Hx). lia. }
    constructor.
    + exact A.
    + unfold fresh. cbn [q_pending g_first]. rewrite filter_app'. cbn [filter].
      replace (isfresh _ (q_next s)) with true
        by (unfold isfresh; cbn [q_obj]; unfold upd; rewrite Z.eqb_refl; reflexivity).
      rewrite app_assoc, (fresh_ext s).
      * apply ss_app_snoc; [exact (o_sorted s I)|].
        intros y Hy. rewrite in_app_iff in Hy. destruct Hy as [Hy|Hy]; [apply (o_lt s I); exact Hy|].
        apply filter_In in Hy. destruct Hy as [Hy _]. pose proof (acc_pending_lt s y (o_acc s I y) Hy). lia.
      * intros x Hx. unfold isfresh. cbn [q_obj]. unfold upd.
        destruct (Z.eqb_spec x (q_next s)); [exfalso; apply (PL x Hx); assumption|reflexivity].
    + cbn [g_first q_next]. intros x Hx. pose proof (o_lt s I x Hx). lia.
    + intros id. cbn [q_obj]. unfold upd. destruct (Z.eqb_spec id (q_next s)); cbn; [lia|apply (o_cnt s I)].
    + intros id H. cbn [q_obj q_inflight] in *. unfold upd. destruct (Z.eqb_spec id (q_next s)); [|apply (o_infl s I); exact H].
      subst id. exfalso. destruct (o_acc s I (q_next s)) as (H1 & H2 & H3). apply cnt_In in H.
      nonneg (q_next s) s. unfold published in H2. replace (q_next s <? q_next s) with false in H2 by lia.
      rewrite andb_false_r in H2. lia.
  - destruct (q_pending s) as [|m r] eqn:EP; [exact I|]. destruct (q_cons s) eqn:EC; [exact I|].
    apply oinv_deliver_begin; [exact I|]. intros _ _. exists r. exact EP.
  - assert (I0 : oinv (set_core s (q_obj s) (q_msgs s) (q_pending s) (q_inflight s) (remall mid (q_resched s)))).
    { eapply oinv_same_core; [exact I|reflexivity..]. }
    apply oinv_deliver_begin; [exact I0|]. cbn [q_msgs q_obj set_core]. intros HM Z0. specialize (W HM). lia.
  - destruct (lookup h (q_susp s)) as [[m c]|]; [|exact I].
    destruct (mem m (q_msgs s)); (eapply oinv_same_core; [exact I|reflexivity..]).
  - apply oinv_ack. exact I.
  - apply oinv_reject; assumption.
  - destruct (negb (mem mid (q_inflight s))) eqn:EI; [exact I|]. apply negb_false_iff, mem_In in EI.
    destruct (mem mid (q_resched s)); [exact I|].
    pose proof (o_infl s I mid EI) as C1.
    destruct (c_max cfg <=? _); [apply oinv_reject; [exact I|intros _; exact C1]|]. cbn [fst] in *.
    constructor.
    + exact A.
    + unfold fresh. cbn [q_pending g_first set_core]. rewrite (fresh_ext s) by keepcount. cbn [filter].
      assert (F : isfresh s mid = false) by (unfold isfresh; lia). rewrite F. exact (o_sorted s I).
    + exact (o_lt s I).
    + intros id. cbn [q_obj set_core]. rewrite cnt_keep. apply (o_cnt s I).
    + intros id H. cbn [q_obj q_inflight set_core] in *. rewrite cnt_keep. apply (o_infl s I). eapply In_remall. exact H.
  - cbn [fst] in *. destruct I as [A0 S L C F]. constructor; [exact A|exact S|exact L|exact C|exact F].
Qed.

Lemma oinv_run_from cfg ops : forall s, oinv s -> wf_ops cfg s ops -> oinv (fst (run_from cfg s ops)).
Proof.
  induction ops as [|o r IH]; intros s I W; [exact I|]. cbn in *. destruct W as [W1 W2].
  pose proof (oinv_step cfg s o I W1) as I1. destruct (step cfg s o) as [s1 o1]. cbn in *.
  specialize (IH s1 I1 W2). destruct (run_from cfg s1 r). exact IH.
Qed.

(** First deliveries follow publish order: the ids in the order of their first
    delivery are strictly increasing (ids are publish indices), for every
    operation sequence in which rejects and redelivery events only concern
    messages that were delivered before. *)
Theorem mq_first_deliveries_in_publish_order cfg ops :
  wf_ops cfg mq_init ops -> StronglySorted Z.lt (g_first (run cfg ops)).
Proof.
  intros W. pose proof (oinv_run_from cfg ops mq_init oinv_init W) as I.
  eapply ss_app_l. exact (o_sorted _ I).
Qed.

(** The hypothesis is satisfiable by a non-trivial run (two messages, a timeout,
    a redelivery, a reject). *)
Definition ex_cfg : mqcfg := {| c_max := 3; c_cap := None; c_delay := 5; c_dlq := true; c_dlqcap := None |}.
Definition ex_ops : list op :=
  [Subscribe 0; Publish; Publish; PollBegin 1; DeliverEnd 1 10; Sched 0 20; PollBegin 2; RedeliverBegin 3 0;
   DeliverEnd 2 30; PollBegin 4; Reject 1 true; DeliverEnd 4 40; Ack 0].

Example mq_order_example :
  wf_ops ex_cfg mq_init ex_ops /\ g_first (run ex_cfg ex_ops) = [0; 1].
Proof.
  split; [|vm_compute; reflexivity]. unfold ex_ops. cbn [wf_ops op_wf].
  repeat split; intros _; vm_compute; discriminate.
Qed.

(** Without the well-formedness hypothesis the statement is false: rejecting a
    message that was never delivered moves it behind later messages. *)
Example mq_order_needs_wf :
  ~ StronglySorted Z.lt (g_first (run ex_cfg [Subscribe 0; Publish; Publish; Reject 0 true; PollBegin 1; PollBegin 2])).
Proof.
  assert (E : g_first (run ex_cfg [Subscribe 0; Publish; Publish; Reject 0 true; PollBegin 1; PollBegin 2]) = [1; 0])
    by (vm_compute; reflexivity).
  rewrite E. intros S. inversion S as [|? ? _ F]; subst. inversion F; subst. lia.
Qed.
