(** C19 — executable model of happysimulator/components/messaging/message_queue.py
    (MessageQueue) together with the part of dlq.py it drives
    (DeadLetterQueue.add_message with a capacity).

    No proofs here.  Message ids are creation indices (the code uses uuid4
    strings; the harness maps them to 0,1,2,... in publish order), consumers
    are small integers, times are integer nanoseconds.

    Generator methods are cut at their yield points:
      publish           = [Publish]                (body before `yield 0.0001`; nothing after it)
      poll              = [PollBegin h]            (either `yield 0.0; return None` or the
                                                    pre-yield half of _deliver_message)
      message_redelivery= [RedeliverBegin h mid]   (handle_event branch, pre-yield half)
      resumption        = [DeliverEnd h now]       (post-yield half of _deliver_message of
                                                    the generator [h], resumed at clock [now])
    [h] identifies the suspended generator (a frame); the model keeps the
    frame's local variables (message id, chosen consumer) in [q_susp].

    The model is the code as it is AFTER the three repairs recorded in
    known_findings/C19.json (delivery event stamped with the clock after the
    latency wait; acknowledge/reject also remove the id from the pending deque;
    a delivery whose message left the queue during the latency is dropped). *)
From HS Require Import Base.Prelude.
Local Open Scope Z_scope.

(* ------------------------------------------------------------------ *)
(** * List helpers (Python list / deque / dict-key operations) *)

Fixpoint mem (x : Z) (l : list Z) : bool :=
  match l with [] => false | y :: r => if Z.eqb x y then true else mem x r end.

(** [list.remove(x)] / [deque.remove(x)]: first occurrence only. *)
Fixpoint rem1 (x : Z) (l : list Z) : list Z :=
  match l with
  | [] => []
  | y :: r => if Z.eqb x y then r else y :: rem1 x r
  end.

(** dict.pop(k, None) / set.discard(k): the key disappears. *)
Definition remall (x : Z) (l : list Z) : list Z := filter (fun y => negb (Z.eqb x y)) l.

(** dict[k] = v on the key list (insertion order kept), set.add(k). *)
Definition addkey (x : Z) (l : list Z) : list Z := if mem x l then l else l ++ [x].

Definition upd {V} (f : Z -> V) (k : Z) (v : V) : Z -> V :=
  fun k' => if Z.eqb k' k then v else f k'.

Fixpoint cnt (x : Z) (l : list Z) : Z :=
  match l with [] => 0 | y :: r => (if Z.eqb x y then 1 else 0) + cnt x r end.

Definition zlen {A} (l : list A) : Z := Z.of_nat (length l).

(** l[i mod len(l)] for a non-empty list. *)
Definition nth_mod (l : list Z) (i : Z) : Z := nth (Z.to_nat (i mod zlen l)) l 0.

Fixpoint lookup {V} (k : Z) (m : list (Z * V)) : option V :=
  match m with
  | [] => None
  | (k', v) :: r => if Z.eqb k k' then Some v else lookup k r
  end.

Fixpoint remkey {V} (k : Z) (m : list (Z * V)) : list (Z * V) :=
  match m with
  | [] => []
  | (k', v) :: r => if Z.eqb k k' then remkey k r else (k', v) :: remkey k r
  end.

(* ------------------------------------------------------------------ *)
(** * MessageQueue *)

(** MessageState: 0 PENDING, 1 DELIVERED, 2 ACKNOWLEDGED, 3 REJECTED. *)
Record msg := { m_count : Z; m_state : Z; m_cons : option Z }.
Definition msg0 : msg := {| m_count := 0; m_state := 0; m_cons := None |}.

Record mqcfg := {
  c_max : Z;                 (* max_redeliveries *)
  c_cap : option Z;          (* capacity *)
  c_delay : Z;               (* redelivery_delay, ns *)
  c_dlq : bool;              (* dead_letter_queue is not None *)
  c_dlqcap : option Z;       (* DeadLetterQueue.capacity *)
}.

Record mq := {
  q_obj : Z -> msg;          (* Message objects (alive as long as something references them) *)
  q_next : Z;                (* number of messages published so far = next id *)
  q_msgs : list Z;           (* keys of _messages *)
  q_pending : list Z;        (* _pending_queue *)
  q_inflight : list Z;       (* keys of _in_flight *)
  q_cons : list Z;           (* _consumers *)
  q_cidx : Z;                (* _consumer_index *)
  q_resched : list Z;        (* _redelivery_scheduled *)
  q_susp : list (Z * (Z * Z));  (* suspended _deliver_message frames: handle -> (message, consumer) *)
  q_dead : list Z;           (* DeadLetterQueue._messages *)
  (* counters: published, delivered, acknowledged, rejected, redelivered, dead-lettered, dlq discarded *)
  n_pub : Z; n_dlv : Z; n_ack : Z; n_rej : Z; n_redlv : Z; n_dead : Z; n_dlqdisc : Z;
  (* ghost (not part of the code's state; used by the theorems, recomputed by the harness) *)
  g_acked : list Z;          (* acknowledged ids *)
  g_dropped : list Z;        (* rejected for good with no DLQ configured *)
  g_dlqlost : list Z;        (* pushed out of a full DLQ *)
  g_reproc : list Z;         (* taken out of the DLQ by reprocess_all (the queue ignores the republish event) *)
  g_first : list Z;          (* ids in the order of their first delivery *)
}.

Definition mq_init : mq := {|
  q_obj := fun _ => msg0; q_next := 0; q_msgs := []; q_pending := []; q_inflight := [];
  q_cons := []; q_cidx := 0; q_resched := []; q_susp := []; q_dead := [];
  n_pub := 0; n_dlv := 0; n_ack := 0; n_rej := 0; n_redlv := 0; n_dead := 0; n_dlqdisc := 0;
  g_acked := []; g_dropped := []; g_dlqlost := []; g_reproc := []; g_first := [];
|}.

Inductive op :=
| Subscribe (c : Z)
| Unsubscribe (c : Z)
| Publish
| PollBegin (h : Z)
| RedeliverBegin (h mid : Z)
| DeliverEnd (h now : Z)
| Ack (mid : Z)
| Reject (mid : Z) (requeue : bool)
| Sched (mid now : Z)
| DlqReprocessAll.             (* DeadLetterQueue.reprocess_all(queue): republish events the queue ignores *)

Inductive out :=
| OPublished (mid : Z)
| OFull                              (* RuntimeError: at capacity *)
| OSuspend                           (* generator suspended at `yield self._delivery_latency` *)
| ONone                              (* returned None / [] *)
| ODelivery (consumer mid count time : Z)  (* message_delivery event *)
| ORedelivery (mid time : Z).        (* message_redelivery event returned by schedule_redelivery *)

(** Record update helpers (one per mutated group of fields). *)
Definition set_core (s : mq) obj msgs pending inflight resched : mq :=
  {| q_obj := obj; q_next := q_next s; q_msgs := msgs; q_pending := pending; q_inflight := inflight;
     q_cons := q_cons s; q_cidx := q_cidx s; q_resched := resched; q_susp := q_susp s; q_dead := q_dead s;
     n_pub := n_pub s; n_dlv := n_dlv s; n_ack := n_ack s; n_rej := n_rej s; n_redlv := n_redlv s;
     n_dead := n_dead s; n_dlqdisc := n_dlqdisc s;
     g_acked := g_acked s; g_dropped := g_dropped s; g_dlqlost := g_dlqlost s; g_reproc := g_reproc s; g_first := g_first s |}.

(** DeadLetterQueue.add_message (retention_period = None). *)
Definition dlq_full (cfg : mqcfg) (dead : list Z) : bool :=
  match c_dlqcap cfg with None => false | Some c => c <=? zlen dead end.

(** MessageQueue.acknowledge *)
Definition do_ack (s : mq) (mid : Z) : mq :=
  if negb (mem mid (q_msgs s)) then s else
  let o := q_obj s mid in
  let s1 := set_core s (upd (q_obj s) mid {| m_count := m_count o; m_state := 2; m_cons := m_cons o |})
              (remall mid (q_msgs s)) (rem1 mid (q_pending s)) (remall mid (q_inflight s))
              (remall mid (q_resched s)) in
  {| q_obj := q_obj s1; q_next := q_next s1; q_msgs := q_msgs s1; q_pending := q_pending s1;
     q_inflight := q_inflight s1; q_cons := q_cons s1; q_cidx := q_cidx s1; q_resched := q_resched s1;
     q_susp := q_susp s1; q_dead := q_dead s1;
     n_pub := n_pub s1; n_dlv := n_dlv s1; n_ack := n_ack s1 + 1; n_rej := n_rej s1; n_redlv := n_redlv s1;
     n_dead := n_dead s1; n_dlqdisc := n_dlqdisc s1;
     g_acked := mid :: g_acked s1; g_dropped := g_dropped s1; g_dlqlost := g_dlqlost s1; g_reproc := g_reproc s1; g_first := g_first s1 |}.

(** MessageQueue.reject *)
Definition do_reject (cfg : mqcfg) (s : mq) (mid : Z) (requeue : bool) : mq :=
  if negb (mem mid (q_msgs s)) then s else
  let o := q_obj s mid in
  let inflight := remall mid (q_inflight s) in
  let pending := rem1 mid (q_pending s) in
  if requeue && (m_count o <? c_max cfg) then
    let s1 := set_core s (upd (q_obj s) mid {| m_count := m_count o; m_state := 0; m_cons := m_cons o |})
                (q_msgs s) (pending ++ [mid]) inflight (q_resched s) in
    {| q_obj := q_obj s1; q_next := q_next s1; q_msgs := q_msgs s1; q_pending := q_pending s1;
       q_inflight := q_inflight s1; q_cons := q_cons s1; q_cidx := q_cidx s1; q_resched := q_resched s1;
       q_susp := q_susp s1; q_dead := q_dead s1;
       n_pub := n_pub s1; n_dlv := n_dlv s1; n_ack := n_ack s1; n_rej := n_rej s1 + 1; n_redlv := n_redlv s1;
       n_dead := n_dead s1; n_dlqdisc := n_dlqdisc s1;
       g_acked := g_acked s1; g_dropped := g_dropped s1; g_dlqlost := g_dlqlost s1; g_reproc := g_reproc s1; g_first := g_first s1 |}
  else
    let s1 := set_core s (upd (q_obj s) mid {| m_count := m_count o; m_state := 3; m_cons := m_cons o |})
                (remall mid (q_msgs s)) pending inflight (remall mid (q_resched s)) in
    if c_dlq cfg then
      let evict := dlq_full cfg (q_dead s) && negb (match q_dead s with [] => true | _ => false end) in
      let dead0 := if evict then tl (q_dead s) else q_dead s in
      {| q_obj := q_obj s1; q_next := q_next s1; q_msgs := q_msgs s1; q_pending := q_pending s1;
         q_inflight := q_inflight s1; q_cons := q_cons s1; q_cidx := q_cidx s1; q_resched := q_resched s1;
         q_susp := q_susp s1; q_dead := dead0 ++ [mid];
         n_pub := n_pub s1; n_dlv := n_dlv s1; n_ack := n_ack s1; n_rej := n_rej s1 + 1; n_redlv := n_redlv s1;
         n_dead := n_dead s1 + 1; n_dlqdisc := n_dlqdisc s1 + (if evict then 1 else 0);
         g_acked := g_acked s1; g_dropped := g_dropped s1;
         g_dlqlost := (if evict then firstn 1 (q_dead s) else []) ++ g_dlqlost s1; g_reproc := g_reproc s1; g_first := g_first s1 |}
    else
      {| q_obj := q_obj s1; q_next := q_next s1; q_msgs := q_msgs s1; q_pending := q_pending s1;
         q_inflight := q_inflight s1; q_cons := q_cons s1; q_cidx := q_cidx s1; q_resched := q_resched s1;
         q_susp := q_susp s1; q_dead := q_dead s1;
         n_pub := n_pub s1; n_dlv := n_dlv s1; n_ack := n_ack s1; n_rej := n_rej s1 + 1; n_redlv := n_redlv s1;
         n_dead := n_dead s1; n_dlqdisc := n_dlqdisc s1;
         g_acked := g_acked s1; g_dropped := mid :: g_dropped s1; g_dlqlost := g_dlqlost s1; g_reproc := g_reproc s1; g_first := g_first s1 |}.

(** Pre-yield half of MessageQueue._deliver_message, run by generator [h]. *)
Definition deliver_begin (s : mq) (h mid : Z) : mq * list out :=
  if negb (mem mid (q_msgs s)) then (s, [ONone]) else
  match q_cons s with
  | [] => (s, [ONone])
  | _ =>
    let c := nth_mod (q_cons s) (q_cidx s) in
    let o := q_obj s mid in
    let k := m_count o + 1 in
    ({| q_obj := upd (q_obj s) mid {| m_count := k; m_state := 1; m_cons := Some c |};
        q_next := q_next s; q_msgs := q_msgs s;
        q_pending := if mem mid (q_pending s) then rem1 mid (q_pending s) else q_pending s;
        q_inflight := addkey mid (q_inflight s);
        q_cons := q_cons s; q_cidx := q_cidx s + 1; q_resched := q_resched s;
        q_susp := (h, (mid, c)) :: q_susp s; q_dead := q_dead s;
        n_pub := n_pub s; n_dlv := if 1 <? k then n_dlv s else n_dlv s + 1;
        n_ack := n_ack s; n_rej := n_rej s;
        n_redlv := if 1 <? k then n_redlv s + 1 else n_redlv s;
        n_dead := n_dead s; n_dlqdisc := n_dlqdisc s;
        g_acked := g_acked s; g_dropped := g_dropped s; g_dlqlost := g_dlqlost s; g_reproc := g_reproc s;
        g_first := if 1 <? k then g_first s else g_first s ++ [mid] |}, [OSuspend])
  end.

Definition set_susp (s : mq) susp : mq :=
  {| q_obj := q_obj s; q_next := q_next s; q_msgs := q_msgs s; q_pending := q_pending s;
     q_inflight := q_inflight s; q_cons := q_cons s; q_cidx := q_cidx s; q_resched := q_resched s;
     q_susp := susp; q_dead := q_dead s;
     n_pub := n_pub s; n_dlv := n_dlv s; n_ack := n_ack s; n_rej := n_rej s; n_redlv := n_redlv s;
     n_dead := n_dead s; n_dlqdisc := n_dlqdisc s;
     g_acked := g_acked s; g_dropped := g_dropped s; g_dlqlost := g_dlqlost s; g_reproc := g_reproc s; g_first := g_first s |}.

Definition set_cons (s : mq) (cs : list Z) : mq :=
  {| q_obj := q_obj s; q_next := q_next s; q_msgs := q_msgs s; q_pending := q_pending s;
     q_inflight := q_inflight s; q_cons := cs; q_cidx := q_cidx s; q_resched := q_resched s;
     q_susp := q_susp s; q_dead := q_dead s;
     n_pub := n_pub s; n_dlv := n_dlv s; n_ack := n_ack s; n_rej := n_rej s; n_redlv := n_redlv s;
     n_dead := n_dead s; n_dlqdisc := n_dlqdisc s;
     g_acked := g_acked s; g_dropped := g_dropped s; g_dlqlost := g_dlqlost s; g_reproc := g_reproc s; g_first := g_first s |}.

Definition mq_full (cfg : mqcfg) (s : mq) : bool :=
  match c_cap cfg with None => false | Some c => c <=? zlen (q_msgs s) end.

Definition step (cfg : mqcfg) (s : mq) (o : op) : mq * list out :=
  match o with
  | Subscribe c => (if mem c (q_cons s) then s else set_cons s (q_cons s ++ [c]), [])
  | Unsubscribe c => (if mem c (q_cons s) then set_cons s (rem1 c (q_cons s)) else s, [])
  | Publish =>
      if mq_full cfg s then (s, [OFull]) else
      let id := q_next s in
      ({| q_obj := upd (q_obj s) id msg0; q_next := id + 1; q_msgs := q_msgs s ++ [id];
          q_pending := q_pending s ++ [id]; q_inflight := q_inflight s;
          q_cons := q_cons s; q_cidx := q_cidx s; q_resched := q_resched s; q_susp := q_susp s;
          q_dead := q_dead s;
          n_pub := n_pub s + 1; n_dlv := n_dlv s; n_ack := n_ack s; n_rej := n_rej s; n_redlv := n_redlv s;
          n_dead := n_dead s; n_dlqdisc := n_dlqdisc s;
          g_acked := g_acked s; g_dropped := g_dropped s; g_dlqlost := g_dlqlost s; g_reproc := g_reproc s; g_first := g_first s |},
       [OPublished id])
  | PollBegin h =>
      match q_pending s, q_cons s with
      | [], _ => (s, [ONone])
      | _, [] => (s, [ONone])
      | mid :: _, _ => deliver_begin s h mid
      end
  | RedeliverBegin h mid =>
      deliver_begin (set_core s (q_obj s) (q_msgs s) (q_pending s) (q_inflight s) (remall mid (q_resched s))) h mid
  | DeliverEnd h now =>
      match lookup h (q_susp s) with
      | None => (s, [])
      | Some (mid, c) =>
          let s' := set_susp s (remkey h (q_susp s)) in
          if mem mid (q_msgs s) then (s', [ODelivery c mid (m_count (q_obj s mid)) now])
          else (s', [ONone])
      end
  | Ack mid => (do_ack s mid, [])
  | Reject mid requeue => (do_reject cfg s mid requeue, [])
  | Sched mid now =>
      if negb (mem mid (q_inflight s)) then (s, [ONone]) else
      if mem mid (q_resched s) then (s, [ONone]) else
      let o := q_obj s mid in
      if c_max cfg <=? m_count o then (do_reject cfg s mid false, [ONone]) else
      (set_core s (upd (q_obj s) mid {| m_count := m_count o; m_state := 0; m_cons := m_cons o |})
         (q_msgs s) (mid :: q_pending s) (remall mid (q_inflight s)) (addkey mid (q_resched s)),
       [ORedelivery mid (now + c_delay cfg)])
  | DlqReprocessAll =>
      ({| q_obj := q_obj s; q_next := q_next s; q_msgs := q_msgs s; q_pending := q_pending s;
          q_inflight := q_inflight s; q_cons := q_cons s; q_cidx := q_cidx s; q_resched := q_resched s;
          q_susp := q_susp s; q_dead := [];
          n_pub := n_pub s; n_dlv := n_dlv s; n_ack := n_ack s; n_rej := n_rej s; n_redlv := n_redlv s;
          n_dead := n_dead s; n_dlqdisc := n_dlqdisc s;
          g_acked := g_acked s; g_dropped := g_dropped s; g_dlqlost := g_dlqlost s;
          g_reproc := q_dead s ++ g_reproc s; g_first := g_first s |}, [])
  end.

Fixpoint run_from (cfg : mqcfg) (s : mq) (ops : list op) : mq * list (list out) :=
  match ops with
  | [] => (s, [])
  | o :: r =>
      let '(s1, out1) := step cfg s o in
      let '(s2, outs) := run_from cfg s1 r in
      (s2, out1 :: outs)
  end.

Definition run (cfg : mqcfg) (ops : list op) : mq := fst (run_from cfg mq_init ops).
Definition outputs (cfg : mqcfg) (s : mq) (ops : list op) : list out := concat (snd (run_from cfg s ops)).

(* ------------------------------------------------------------------ *)
(** * Correspondence: the implementation's per-operation observations *)

(** Snapshot of the real queue after one operation:
    ((pending, inflight keys, message keys, sorted redelivery_scheduled),
     (consumers, consumer_index),
     per message id 0..next-1: (delivery_count, state, consumer or -1),
     dead-letter ids,
     [published; delivered; acknowledged; rejected; redelivered; dead_lettered; dlq discarded]). *)
Definition snap : Type :=
  (list Z * list Z * list Z * list Z) * (list Z * Z) * list (Z * Z * Z) * list Z * list Z.

Definition zlist_eqb := list_eqb Z.eqb.
Definition subset (a b : list Z) : bool := forallb (fun x => mem x b) a.

Definition msg_view (s : mq) (id : Z) : Z * Z * Z :=
  let o := q_obj s id in (m_count o, m_state o, match m_cons o with Some c => c | None => -1 end).

Fixpoint zseq (start : Z) (n : nat) : list Z :=
  match n with O => [] | S k => start :: zseq (start + 1) k end.

(** The per-message table is sent as a difference to the previous snapshot
    ((id, entry) pairs, new ids appended); the comparison is still against the
    complete table. *)
Fixpoint set_nth {A} (i : nat) (v : A) (l : list A) : list A :=
  match i, l with
  | O, [] => [v]
  | O, _ :: r => v :: r
  | S k, [] => []
  | S k, x :: r => x :: set_nth k v r
  end.

Definition apply_diffs (prev : list (Z * Z * Z)) (d : list (Z * (Z * Z * Z))) : list (Z * Z * Z) :=
  fold_left (fun l iv => set_nth (Z.to_nat (fst iv)) (snd iv) l) d prev.

Definition dsnap : Type :=
  (list Z * list Z * list Z * list Z) * (list Z * Z) * list (Z * (Z * Z * Z)) * list Z * list Z.

Definition ok_snap (s : mq) (v : snap) : bool :=
  let '(((pend, infl, msgs, resch), (cs, cidx)), objs, dead, ctr) := v in
  zlist_eqb (q_pending s) pend && zlist_eqb (q_inflight s) infl && zlist_eqb (q_msgs s) msgs
  && subset (q_resched s) resch && subset resch (q_resched s)
  && zlist_eqb (q_cons s) cs && Z.eqb (q_cidx s) cidx
  && Z.eqb (q_next s) (zlen objs)
  && list_eqb (fun a b => let '(a1, a2, a3) := a in let '(b1, b2, b3) := b in
                          Z.eqb a1 b1 && Z.eqb a2 b2 && Z.eqb a3 b3)
       (map (msg_view s) (zseq 0 (length objs))) objs
  && zlist_eqb (q_dead s) dead
  && zlist_eqb [n_pub s; n_dlv s; n_ack s; n_rej s; n_redlv s; n_dead s; n_dlqdisc s] ctr.

Definition out_eqb (a b : out) : bool :=
  match a, b with
  | OPublished x, OPublished y => Z.eqb x y
  | OFull, OFull | OSuspend, OSuspend | ONone, ONone => true
  | ODelivery c m k t, ODelivery c' m' k' t' => Z.eqb c c' && Z.eqb m m' && Z.eqb k k' && Z.eqb t t'
  | ORedelivery m t, ORedelivery m' t' =>
      (* Instant.from_seconds(now.to_seconds() + delay) truncates a float product: 1 ns slack *)
      Z.eqb m m' && (Z.abs (t - t') <=? 1)
  | _, _ => false
  end.

(** A case: configuration and the recorded trace; every entry is the operation as the queue
    saw it, the outputs it produced and the snapshot after it. *)
Fixpoint ok_trace (cfg : mqcfg) (s : mq) (prev : list (Z * Z * Z)) (tr : list (op * list out * dsnap)) : bool :=
  match tr with
  | [] => true
  | (o, outs, v) :: r =>
      let '(s1, mo) := step cfg s o in
      let '(((a, b), d, dead, ctr)) := v in
      let objs := apply_diffs prev d in
      list_eqb out_eqb mo outs && ok_snap s1 (a, b, objs, dead, ctr) && ok_trace cfg s1 objs r
  end.

Definition ok_mq (c : mqcfg * list (op * list out * dsnap)) : bool :=
  ok_trace (fst c) mq_init [] (snd c).
