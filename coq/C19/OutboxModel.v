(** C19 — executable model of happysimulator/components/microservice/outbox_relay.py
    (OutboxRelay.write / prime_poll / handle_event / _handle_poll).  No proofs here.

    Entry ids are 1,2,3,... (the code's counter).  _handle_poll is a generator
    that yields relay_latency after every entry of its batch (when the latency
    is > 0); a frame holds (entries of the batch not yet processed, entries
    processed).  The relay events are built when the generator returns and are
    stamped with the clock at that moment (repair: before it each event was
    stamped before the wait and was discarded by the engine).  Lag statistics
    (floats) are not modelled. *)
From HS Require Import Base.Prelude C19.Model.
Local Open Scope Z_scope.

Record obcfg := { ob_batch : Z; ob_latpos : bool; ob_interval : Z }.

Record outbox := {
  ob_flags : list bool;                       (* entry i+1 relayed? *)
  ob_written : Z; ob_relayedn : Z; ob_cycles : Z;
  ob_sched : bool;                            (* _poll_scheduled *)
  ob_frames : list (Z * (list Z * list Z));   (* handle -> (rest of batch, processed) *)
  ob_emitted : list Z;                        (* ghost: ids for which a relay event was returned *)
}.

Definition outbox_init : outbox :=
  {| ob_flags := []; ob_written := 0; ob_relayedn := 0; ob_cycles := 0; ob_sched := false;
     ob_frames := []; ob_emitted := [] |}.

Inductive oop :=
| OWrite
| OPrimeEvent (now : Z)      (* any non-poll event sent to the outbox *)
| OPrimeDirect (now : Z)     (* prime_poll() *)
| OPollBegin (h now : Z)
| OPollResume (h now : Z).

Inductive oout :=
| OWritten (id : Z)
| OYield                     (* generator yielded relay_latency *)
| ORelay (id time : Z)       (* outbox_relay event to downstream *)
| OPollAt (time : Z).        (* daemon poll event *)

(** ids (1-based) of the first [k] entries that are not relayed *)
Fixpoint pending_ids (flags : list bool) (id : Z) : list Z :=
  match flags with
  | [] => []
  | b :: r => if b then pending_ids r (id + 1) else id :: pending_ids r (id + 1)
  end.

Fixpoint set_flag (i : nat) (flags : list bool) : list bool :=
  match i, flags with
  | _, [] => []
  | O, _ :: r => true :: r
  | S k, b :: r => b :: set_flag k r
  end.

Definition mark (s : outbox) (id : Z) : outbox :=
  {| ob_flags := set_flag (Z.to_nat (id - 1)) (ob_flags s); ob_written := ob_written s;
     ob_relayedn := ob_relayedn s + 1; ob_cycles := ob_cycles s; ob_sched := ob_sched s;
     ob_frames := ob_frames s; ob_emitted := ob_emitted s |}.

(** Return of _handle_poll: relay events for the processed entries, then the next poll. *)
Definition finish (cfg : obcfg) (s : outbox) (done : list Z) (now : Z) : outbox * list oout :=
  let resched := negb (match pending_ids (ob_flags s) 1 with [] => true | _ => false end) || (0 <? ob_written s) in
  ({| ob_flags := ob_flags s; ob_written := ob_written s; ob_relayedn := ob_relayedn s; ob_cycles := ob_cycles s;
      ob_sched := if resched then true else ob_sched s; ob_frames := ob_frames s;
      ob_emitted := ob_emitted s ++ done |},
   map (fun id => ORelay id now) done ++ (if resched then [OPollAt (now + ob_interval cfg)] else [])).

(** Process batch entries without suspending (relay_latency = 0). *)
Fixpoint mark_all (s : outbox) (ids : list Z) : outbox :=
  match ids with [] => s | id :: r => mark_all (mark s id) r end.

Definition set_frames (s : outbox) fr : outbox :=
  {| ob_flags := ob_flags s; ob_written := ob_written s; ob_relayedn := ob_relayedn s; ob_cycles := ob_cycles s;
     ob_sched := ob_sched s; ob_frames := fr; ob_emitted := ob_emitted s |}.

Definition ostep (cfg : obcfg) (s : outbox) (o : oop) : outbox * list oout :=
  match o with
  | OWrite =>
      ({| ob_flags := ob_flags s ++ [false]; ob_written := ob_written s + 1; ob_relayedn := ob_relayedn s;
          ob_cycles := ob_cycles s; ob_sched := ob_sched s; ob_frames := ob_frames s; ob_emitted := ob_emitted s |},
       [OWritten (zlen (ob_flags s) + 1)])
  | OPrimeEvent now =>
      if ob_sched s then (s, []) else
      ({| ob_flags := ob_flags s; ob_written := ob_written s; ob_relayedn := ob_relayedn s; ob_cycles := ob_cycles s;
          ob_sched := true; ob_frames := ob_frames s; ob_emitted := ob_emitted s |}, [OPollAt (now + ob_interval cfg)])
  | OPrimeDirect now =>
      ({| ob_flags := ob_flags s; ob_written := ob_written s; ob_relayedn := ob_relayedn s; ob_cycles := ob_cycles s;
          ob_sched := true; ob_frames := ob_frames s; ob_emitted := ob_emitted s |}, [OPollAt (now + ob_interval cfg)])
  | OPollBegin h now =>
      let s0 := {| ob_flags := ob_flags s; ob_written := ob_written s; ob_relayedn := ob_relayedn s;
                   ob_cycles := ob_cycles s + 1; ob_sched := false; ob_frames := ob_frames s;
                   ob_emitted := ob_emitted s |} in
      let batch := firstn (Z.to_nat (ob_batch cfg)) (pending_ids (ob_flags s) 1) in
      match batch with
      | [] => finish cfg s0 [] now
      | id :: rest =>
          if ob_latpos cfg then (set_frames (mark s0 id) ((h, (rest, [id])) :: ob_frames s0), [OYield])
          else finish cfg (mark_all s0 batch) batch now
      end
  | OPollResume h now =>
      match lookup h (ob_frames s) with
      | None => (s, [])
      | Some (rest, done) =>
          match rest with
          | [] => finish cfg (set_frames s (remkey h (ob_frames s))) done now
          | id :: r => (set_frames (mark s id) ((h, (r, done ++ [id])) :: remkey h (ob_frames s)), [OYield])
          end
      end
  end.

Fixpoint orun_from (cfg : obcfg) (s : outbox) (ops : list oop) : outbox * list (list oout) :=
  match ops with
  | [] => (s, [])
  | o :: r =>
      let '(s1, o1) := ostep cfg s o in
      let '(s2, outs) := orun_from cfg s1 r in
      (s2, o1 :: outs)
  end.

Definition orun (cfg : obcfg) (ops : list oop) : outbox := fst (orun_from cfg outbox_init ops).

(* ---- correspondence *)
Definition oout_eqb (a b : oout) : bool :=
  match a, b with
  | OWritten x, OWritten y => Z.eqb x y
  | OYield, OYield => true
  | ORelay i t, ORelay i' t' => Z.eqb i i' && Z.eqb t t'
  | OPollAt t, OPollAt t' => Z.abs (t - t') <=? 1
  | _, _ => false
  end.

(** Snapshot: relayed flags, [written; relayed; poll cycles], poll_scheduled. *)
Definition osnap : Type := list bool * list Z * bool.

Definition ok_osnap (s : outbox) (v : osnap) : bool :=
  let '(flags, ctr, sched) := v in
  list_eqb Bool.eqb (ob_flags s) flags && list_eqb Z.eqb [ob_written s; ob_relayedn s; ob_cycles s] ctr
  && Bool.eqb (ob_sched s) sched.

Fixpoint ok_otrace (cfg : obcfg) (s : outbox) (tr : list (oop * list oout * osnap)) : bool :=
  match tr with
  | [] => true
  | (o, outs, v) :: r =>
      let '(s1, mo) := ostep cfg s o in
      list_eqb oout_eqb mo outs && ok_osnap s1 v && ok_otrace cfg s1 r
  end.

Definition ok_outbox (c : obcfg * list (oop * list oout * osnap)) : bool :=
  ok_otrace (fst c) outbox_init (snd c).
