(** C19 — proofs about the OutboxRelay step machine of C19/OutboxModel.v. *)
From HS Require Import Base.Prelude C19.Model C19.MQ C19.TopicModel C19.Topic C19.OutboxModel.
Local Open Scope Z_scope.

(** Occurrences of entry [id] in the "processed" lists of the suspended polls. *)
Fixpoint held (id : Z) (fr : list (Z * (list Z * list Z))) : Z :=
  match fr with
  | [] => 0
  | (_, (_, done)) :: r => cnt id done + held id r
  end.

Definition flag (s : outbox) (id : Z) : bool := nth (Z.to_nat (id - 1)) (ob_flags s) false.

(** No loss: an entry that is marked relayed either already had its relay event
    returned to the engine, or sits in the processed list of a suspended poll
    (which returns it when it completes, [outbox_poll_completes]). *)
Definition noloss (s : outbox) : Prop :=
  forall id, 1 <= id -> flag s id = true -> 1 <= cnt id (ob_emitted s) + held id (ob_frames s).

Lemma held_nonneg id fr : 0 <= held id fr.
Proof. induction fr as [|[h [rest d]] r IH]; cbn; [lia|]. pose proof (cnt_nonneg id d). lia. Qed.

Lemma nth_set_flag i : forall flags j, nth j (set_flag i flags) false = if Nat.eqb i j then (if Nat.ltb j (length flags) then true else false) else nth j flags false.
Proof.
  induction i as [|i IH]; intros [|b r] [|j]; cbn; try reflexivity.
  - destruct (Nat.eqb i j); reflexivity.
  - rewrite IH. destruct (Nat.eqb i j); [|reflexivity]. reflexivity.
Qed.

Lemma flag_mark s id0 id : 1 <= id -> 1 <= id0 -> flag (mark s id0) id = true -> id = id0 \/ flag s id = true.
Proof.
  unfold flag, mark. cbn [ob_flags]. intros H H0. rewrite nth_set_flag.
  destruct (Nat.eqb_spec (Z.to_nat (id0 - 1)) (Z.to_nat (id - 1))); [left; lia|right; assumption].
Qed.

Lemma held_remkey id h fr rest d :
  lookup h fr = Some (rest, d) -> held id (remkey h fr) <= held id fr /\ held id fr <= held id (remkey h fr) + held id (filter (fun e => Z.eqb h (fst e)) fr).
Proof.
  intros _. induction fr as [|[k [r0 d0]] r IH]; cbn; [lia|].
  destruct (Z.eqb_spec h k); cbn; pose proof (cnt_nonneg id d0); lia.
Qed.

(** Simpler exact statement when handles are distinct is not needed: we only
    need that completing or advancing a frame never forgets a processed id. *)
Lemma held_lookup_ge id h fr rest d : lookup h fr = Some (rest, d) -> cnt id d <= held id fr.
Proof.
  induction fr as [|[k [r0 d0]] r IH]; cbn; [discriminate|].
  destruct (Z.eqb_spec h k).
  - intros E. injection E as -> ->. pose proof (held_nonneg id r). lia.
  - intros E. specialize (IH E). pose proof (cnt_nonneg id d0). lia.
Qed.

(** Removing the first frame of [h] lowers [held] by at most the ids of all frames of [h]; to keep
    the arithmetic exact we require handles to be unique among suspended polls. *)
Definition uniq (fr : list (Z * (list Z * list Z))) : Prop := NoDup (map fst fr).

Lemma remkey_notin {V} h (fr : list (Z * V)) : ~ In h (map fst fr) -> remkey h fr = fr.
Proof.
  induction fr as [|[k v] r IH]; cbn; [reflexivity|]. intros N.
  destruct (Z.eqb_spec h k); [exfalso; apply N; left; congruence|]. rewrite IH; [reflexivity|tauto].
Qed.

Lemma held_remkey_exact id h fr rest d :
  uniq fr -> lookup h fr = Some (rest, d) -> held id fr = cnt id d + held id (remkey h fr).
Proof.
  unfold uniq. induction fr as [|[k [r0 d0]] r IH]; cbn; [discriminate|]. intros N. inversion N as [|? ? NI ND]; subst.
  destruct (Z.eqb_spec h k).
  - subst k. intros E. injection E as -> ->. rewrite remkey_notin by exact NI. reflexivity.
  - intros E. cbn. rewrite (IH ND E). lia.
Qed.

Lemma In_remkey {V} k h (fr : list (Z * V)) : In k (map fst (remkey h fr)) -> In k (map fst fr) /\ k <> h.
Proof.
  induction fr as [|[a v] r IH]; cbn; [tauto|]. destruct (Z.eqb_spec h a); cbn.
  - intros H. destruct (IH H). split; [right; assumption|assumption].
  - intros [E|H]; [split; [left; exact E|congruence]|]. destruct (IH H). split; [right; assumption|assumption].
Qed.

Lemma uniq_remkey h fr : uniq fr -> uniq (remkey h fr).
Proof.
  unfold uniq. induction fr as [|[a v] r IH]; cbn; [auto|]. intros N. inversion N as [|? ? NI ND]; subst.
  destruct (Z.eqb_spec h a); [apply IH; exact ND|]. cbn. constructor; [|apply IH; exact ND].
  intros H. apply In_remkey in H. tauto.
Qed.

Lemma uniq_readd h v fr : uniq fr -> uniq ((h, v) :: remkey h fr).
Proof.
  intros U. unfold uniq. cbn. constructor; [|apply uniq_remkey; exact U].
  intros H. apply In_remkey in H. tauto.
Qed.

(** Well-formed traces: a poll starts with a handle that no suspended poll uses
    (each generator object is its own handle). *)
Definition oop_wf (s : outbox) (o : oop) : Prop :=
  match o with OPollBegin h _ => ~ In h (map fst (ob_frames s)) | _ => True end.

Definition frames_ge (fr : list (Z * (list Z * list Z))) : Prop :=
  forall h rest d, lookup h fr = Some (rest, d) -> forall x, In x rest -> 1 <= x.

Record oinv' (s : outbox) : Prop := { oi_noloss : noloss s; oi_uniq : uniq (ob_frames s); oi_ge : frames_ge (ob_frames s) }.

Lemma frames_ge_remkey h fr : frames_ge fr -> frames_ge (remkey h fr).
Proof.
  intros G k rest d E x Hx. destruct (Z.eq_dec k h) as [->|N].
  - rewrite lookup_remkey_same in E. discriminate.
  - rewrite lookup_remkey_other in E by exact N. apply (G k rest d E x Hx).
Qed.


Lemma flag_app_false s id : 1 <= id ->
  nth (Z.to_nat (id - 1)) (ob_flags s ++ [false]) false = true -> flag s id = true.
Proof.
  unfold flag. intros H. destruct (Nat.ltb_spec (Z.to_nat (id - 1)) (length (ob_flags s))).
  - rewrite app_nth1 by assumption. auto.
  - rewrite app_nth2 by assumption. destruct (_ - _)%nat as [|[|k]]; cbn; discriminate.
Qed.

Lemma noloss_finish cfg s d now :
  (forall id, 1 <= id -> flag s id = true -> 1 <= cnt id (ob_emitted s) + cnt id d + held id (ob_frames s)) ->
  noloss (fst (finish cfg s d now)).
Proof.
  intros H id H1 HF. unfold finish in *. cbn [fst ob_emitted ob_frames] in *. rewrite cnt_app.
  specialize (H id H1 HF). lia.
Qed.

Lemma mark_all_flag ids : forall s id, 1 <= id -> (forall x, In x ids -> 1 <= x) ->
  flag (mark_all s ids) id = true -> In id ids \/ flag s id = true.
Proof.
  induction ids as [|a r IH]; intros s id H HA HF; [right; exact HF|]. cbn [mark_all] in HF.
  destruct (IH (mark s a) id H (fun x Hx => HA x (or_intror Hx)) HF) as [HI|HM]; [left; right; exact HI|].
  destruct (flag_mark s a id H (HA a (or_introl eq_refl)) HM) as [->|HS]; [left; left; reflexivity|right; exact HS].
Qed.

Lemma mark_all_same ids : forall s, ob_emitted (mark_all s ids) = ob_emitted s /\ ob_frames (mark_all s ids) = ob_frames s.
Proof. induction ids as [|a r IH]; intros s; [split; reflexivity|]. cbn [mark_all]. destruct (IH (mark s a)). split; assumption. Qed.

Lemma pending_ids_ge flags : forall id0 x, In x (pending_ids flags id0) -> id0 <= x.
Proof.
  induction flags as [|b r IH]; intros id0 x; cbn; [tauto|]. destruct b.
  - intros H. specialize (IH _ _ H). lia.
  - intros [<-|H]; [lia|]. specialize (IH _ _ H). lia.
Qed.

Lemma In_firstn' {A} n (x : A) : forall l, In x (firstn n l) -> In x l.
Proof. induction n as [|n IH]; intros l H; [destruct H|]. destruct l; [exact H|]. destruct H as [H|H]; [left; exact H|right; apply IH; exact H]. Qed.

Lemma frames_ge_add h rest d fr :
  (forall x, In x rest -> 1 <= x) -> frames_ge fr -> frames_ge ((h, (rest, d)) :: fr).
Proof.
  intros HR G k rest' d' E x Hx. cbn [lookup] in E. destruct (Z.eqb_spec k h).
  - injection E as <- <-. apply HR. exact Hx.
  - apply (G k rest' d' E x Hx).
Qed.

Lemma oinv_step cfg s o : oinv' s -> oop_wf s o -> oinv' (fst (ostep cfg s o)).
Proof.
  intros [NL U G] W. destruct o; cbn [ostep oop_wf] in *.
  - constructor; [|exact U|exact G]. intros id H HF. unfold flag in HF. cbn [fst ob_flags ob_emitted ob_frames] in *.
    apply (NL id H). apply flag_app_false; assumption.
  - destruct (ob_sched s); constructor; assumption.
  - constructor; assumption.
  - set (s0 := {| ob_flags := ob_flags s; ob_written := ob_written s; ob_relayedn := ob_relayedn s;
                  ob_cycles := ob_cycles s + 1; ob_sched := false; ob_frames := ob_frames s; ob_emitted := ob_emitted s |}).
    assert (NL0 : noloss s0) by exact NL.
    destruct (firstn _ _) as [|id rest] eqn:EB.
    + constructor; [|exact U|exact G]. apply noloss_finish. intros id H HF. specialize (NL0 id H HF). cbn [cnt]. lia.
    + assert (GE : forall x, In x (id :: rest) -> 1 <= x).
      { intros x Hx. rewrite <- EB in Hx. apply In_firstn' in Hx. apply (pending_ids_ge _ _ _ Hx). }
      destruct (ob_latpos cfg).
      * constructor.
        -- intros x H HF. cbn [fst set_frames ob_emitted ob_frames mark held cnt] in *.
           destruct (flag_mark s0 id x H (GE id (or_introl eq_refl)) HF) as [->|HS].
           ++ rewrite Z.eqb_refl. pose proof (cnt_nonneg id (ob_emitted s0)). pose proof (held_nonneg id (ob_frames s0)). lia.
           ++ specialize (NL0 x H HS). destruct (x =? id); lia.
        -- cbn [fst set_frames ob_frames mark s0]. unfold uniq. cbn. constructor; [exact W|exact U].
        -- cbn [fst set_frames ob_frames mark s0]. apply frames_ge_add; [|exact G]. intros x Hx. apply GE. right. exact Hx.
      * destruct (mark_all_same (id :: rest) s0) as [E1 E2].
        constructor; [|cbn [fst finish ob_frames]; rewrite E2; exact U|cbn [fst finish ob_frames]; rewrite E2; exact G].
        apply noloss_finish. intros x H HF. rewrite E1, E2.
        destruct (mark_all_flag (id :: rest) s0 x H GE HF) as [HI|HS].
        -- apply cnt_In in HI. pose proof (cnt_nonneg x (ob_emitted s0)). pose proof (held_nonneg x (ob_frames s0)). lia.
        -- specialize (NL0 x H HS). pose proof (cnt_nonneg x (id :: rest)). lia.
  - destruct (lookup h (ob_frames s)) as [[rest d]|] eqn:EL; [|constructor; assumption].
    destruct rest as [|id r].
    + constructor; [|cbn [fst finish set_frames ob_frames]; apply uniq_remkey; exact U
                    |cbn [fst finish set_frames ob_frames]; apply frames_ge_remkey; exact G].
      apply noloss_finish. intros x H HF. cbn [set_frames ob_emitted ob_frames flag ob_flags] in *.
      specialize (NL x H HF). rewrite (held_remkey_exact x h _ _ _ U EL) in NL. lia.
    + assert (GE1 : 1 <= id) by (apply (G h (id :: r) d EL); left; reflexivity).
      constructor; [|cbn [fst set_frames ob_frames]; apply uniq_readd; exact U|].
      * intros x H HF. cbn [fst set_frames ob_emitted ob_frames mark held] in *. rewrite cnt_app. cbn [cnt].
        pose proof (held_remkey_exact x h _ _ _ U EL) as HE.
        destruct (flag_mark s id x H GE1 HF) as [->|HS].
        -- rewrite Z.eqb_refl. pose proof (cnt_nonneg id (ob_emitted s)). pose proof (cnt_nonneg id d).
           pose proof (held_nonneg id (remkey h (ob_frames s))). lia.
        -- specialize (NL x H HS). destruct (x =? id); lia.
      * cbn [fst set_frames ob_frames]. apply frames_ge_add; [|apply frames_ge_remkey; exact G].
        intros x Hx. apply (G h (id :: r) d EL). right. exact Hx.
Qed.

Fixpoint owf_ops (cfg : obcfg) (s : outbox) (ops : list oop) : Prop :=
  match ops with
  | [] => True
  | o :: r => oop_wf s o /\ owf_ops cfg (fst (ostep cfg s o)) r
  end.

Lemma oinv_run_from cfg ops : forall s, oinv' s -> owf_ops cfg s ops -> oinv' (fst (orun_from cfg s ops)).
Proof.
  induction ops as [|o r IH]; intros s I W; [exact I|]. cbn in *. destruct W as [W1 W2].
  pose proof (oinv_step cfg s o I W1) as I1. destruct (ostep cfg s o) as [s1 o1]. cbn in *.
  specialize (IH s1 I1 W2). destruct (orun_from cfg s1 r). exact IH.
Qed.

Lemma oinv_init : oinv' outbox_init.
Proof.
  constructor.
  - intros id H HF. unfold flag in HF. cbn in HF. destruct (Z.to_nat (id - 1)); discriminate.
  - constructor.
  - intros h rest d E. discriminate.
Qed.

(** Outbox entries are never lost: whatever the interleaving of writes, primes
    and (possibly overlapping) poll cycles, an entry that is marked relayed has
    had its relay event returned to the engine or is held by a suspended poll. *)
Theorem outbox_no_loss cfg ops :
  owf_ops cfg outbox_init ops -> noloss (orun cfg ops).
Proof. intros W. apply (oi_noloss _ (oinv_run_from cfg ops _ oinv_init W)). Qed.

(** A suspended poll is not disturbed by anything else; resuming it processes
    the next entry of its batch, and after the last one it returns one relay
    event per processed entry, stamped with the clock at that moment. *)
Definition ohandle (o : oop) : option Z :=
  match o with OPollBegin h _ | OPollResume h _ => Some h | _ => None end.

Lemma olookup_step cfg s o h : ohandle o <> Some h -> lookup h (ob_frames (fst (ostep cfg s o))) = lookup h (ob_frames s).
Proof.
  intros N. destruct o; cbn [ostep ohandle] in *; try reflexivity.
  - destruct (ob_sched s); reflexivity.
  - destruct (firstn _ _) as [|id rest]; [reflexivity|]. destruct (ob_latpos cfg).
    + cbn. destruct (Z.eqb_spec h h0); [congruence|reflexivity].
    + cbn [fst finish ob_frames]. destruct (mark_all_same (id :: rest)
        {| ob_flags := ob_flags s; ob_written := ob_written s; ob_relayedn := ob_relayedn s;
           ob_cycles := ob_cycles s + 1; ob_sched := false; ob_frames := ob_frames s; ob_emitted := ob_emitted s |}) as [_ E].
      rewrite E. reflexivity.
  - destruct (lookup h0 (ob_frames s)) as [[rest d]|]; [|reflexivity]. destruct rest as [|id r]; cbn.
    + apply lookup_remkey_other. congruence.
    + destruct (Z.eqb_spec h h0); [congruence|]. apply lookup_remkey_other. congruence.
Qed.

Lemma olookup_run_from cfg ops : forall s h,
  Forall (fun o => ohandle o <> Some h) ops -> lookup h (ob_frames (fst (orun_from cfg s ops))) = lookup h (ob_frames s).
Proof.
  induction ops as [|o r IH]; intros s h F; [reflexivity|]. inversion F; subst. cbn.
  pose proof (olookup_step cfg s o h H1) as L. destruct (ostep cfg s o) as [s1 o1]. cbn in L.
  specialize (IH s1 h H2). destruct (orun_from cfg s1 r). cbn in *. congruence.
Qed.

Theorem outbox_poll_completes cfg s h rest d ops now :
  lookup h (ob_frames s) = Some (rest, d) ->
  Forall (fun o => ohandle o <> Some h) ops ->
  let s' := fst (orun_from cfg s ops) in
  let r := ostep cfg s' (OPollResume h now) in
  match rest with
  | [] => (forall id, In id d -> In (ORelay id now) (snd r)) /\
          (forall id t, In (ORelay id t) (snd r) -> In id d /\ t = now) /\
          lookup h (ob_frames (fst r)) = None
  | id :: rest' => snd r = [OYield] /\ lookup h (ob_frames (fst r)) = Some (rest', d ++ [id]) /\
                   flag (fst r) id = Nat.ltb (Z.to_nat (id - 1)) (length (ob_flags s'))
  end.
Proof.
  cbn zeta. intros L F. cbn [ostep]. rewrite (olookup_run_from cfg ops s h F), L.
  destruct rest as [|id rest'].
  - cbn [fst snd finish set_frames ob_frames]. repeat split.
    + intros id HI. rewrite in_app_iff. left. apply in_map_iff. exists id. auto.
    + rewrite in_app_iff in H. destruct H as [H|H].
      * apply in_map_iff in H. destruct H as (x & E & HI). injection E as -> _. exact HI.
      * destruct (_ || _); [destruct H as [H|[]]; discriminate|destruct H].
    + rewrite in_app_iff in H. destruct H as [H|H].
      * apply in_map_iff in H. destruct H as (x & E & HI). injection E as _ <-. reflexivity.
      * destruct (_ || _); [destruct H as [H|[]]; discriminate|destruct H].
    + apply lookup_remkey_same.
  - cbn [fst snd set_frames ob_frames lookup]. rewrite Z.eqb_refl. repeat split.
    unfold flag, mark, set_frames. cbn [ob_flags]. rewrite nth_set_flag, Nat.eqb_refl. destruct (Nat.ltb _ _); reflexivity.
Qed.

Example outbox_wf_example :
  let cfg := {| ob_batch := 2; ob_latpos := true; ob_interval := 5 |} in
  let ops := [OWrite; OWrite; OPrimeEvent 0; OPollBegin 1 5; OWrite; OPollResume 1 6; OPollResume 1 7; OPollBegin 2 12] in
  owf_ops cfg outbox_init ops /\ ob_emitted (orun cfg ops) = [1; 2].
Proof.
  cbn zeta. split; [|vm_compute; reflexivity]. cbn [owf_ops oop_wf]. repeat split; vm_compute; tauto.
Qed.
