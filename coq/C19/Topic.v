(** C19 — proofs about the Topic step machine of C19/TopicModel.v. *)
From HS Require Import Base.Prelude C19.Model C19.MQ C19.TopicModel.
Local Open Scope Z_scope.

Definition ids (subs : list tsub) : list Z := map ts_id subs.

Lemma ids_set_active c b subs : ids (set_active c b subs) = ids subs.
Proof. induction subs as [|x r IH]; [reflexivity|]. cbn. destruct (c =? ts_id x); cbn; [reflexivity|]. f_equal. exact IH. Qed.

Lemma ids_bump c subs : ids (bump_recv c subs) = ids subs.
Proof. induction subs as [|x r IH]; [reflexivity|]. cbn. destruct (c =? ts_id x); cbn; [reflexivity|]. f_equal. exact IH. Qed.

Lemma ids_bump_fold act : forall subs, ids (fold_left (fun subs c => bump_recv c subs) act subs) = ids subs.
Proof. induction act as [|c r IH]; intros subs; [reflexivity|]. cbn. rewrite IH. apply ids_bump. Qed.

Lemma has_sub_false c subs : has_sub c subs = false -> ~ In c (ids subs).
Proof.
  induction subs as [|x r IH]; cbn; [tauto|]. destruct (Z.eqb_spec c (ts_id x)); [discriminate|].
  intros H [E|HI]; [congruence|]. exact (IH H HI).
Qed.

Lemma NoDup_app_snoc (l : list Z) x : NoDup l -> ~ In x l -> NoDup (l ++ [x]).
Proof.
  induction 1 as [|y r NI ND IH]; intros H; cbn; [constructor; [tauto|constructor]|].
  constructor.
  - rewrite in_app_iff. cbn. intros [HI|[E|[]]]; [contradiction|]. subst. apply H. left. reflexivity.
  - apply IH. intros HI. apply H. right. exact HI.
Qed.

Lemma tstep_ids_nodup mx s o : NoDup (ids (t_subs s)) -> NoDup (ids (t_subs (fst (tstep mx s o)))).
Proof.
  intros N. destruct o; cbn [tstep].
  - destruct (match mx with None => false | Some m => m <=? zlen (actives (t_subs s)) end); [exact N|].
    destruct (has_sub c (t_subs s)) eqn:E; cbn [fst t_subs].
    + rewrite ids_set_active. exact N.
    + unfold ids. rewrite map_app. cbn. apply NoDup_app_snoc; [exact N|]. apply has_sub_false. exact E.
  - destruct (has_sub c (t_subs s)); cbn [fst t_subs]; [rewrite ids_set_active|]; exact N.
  - destruct (actives (t_subs s)); exact N.
  - destruct (lookup h (t_frames s)) as [[[m act] i]|]; [|exact N].
    destruct (i + 1 <? zlen act); cbn [fst t_subs]; rewrite ids_bump; exact N.
  - cbn [fst t_subs]. rewrite ids_bump_fold. exact N.
Qed.

Lemma trun_from_nodup mx ops : forall s, NoDup (ids (t_subs s)) -> NoDup (ids (t_subs (fst (trun_from mx s ops)))).
Proof.
  induction ops as [|o r IH]; intros s N; [exact N|]. cbn.
  pose proof (tstep_ids_nodup mx s o N) as N1. destruct (tstep mx s o) as [s1 o1]. cbn in N1.
  specialize (IH s1 N1). destruct (trun_from mx s1 r). exact IH.
Qed.

Lemma actives_nodup subs : NoDup (ids subs) -> NoDup (actives subs).
Proof.
  unfold actives, ids. induction subs as [|x r IH]; cbn; [constructor|].
  intros N. inversion N as [|? ? NI ND]; subst. destruct (ts_active x); cbn; [|apply IH; exact ND].
  constructor; [|apply IH; exact ND]. intros HI. apply NI. apply in_map_iff in HI.
  destruct HI as (y & E & HF). apply filter_In in HF. apply in_map_iff. exists y. tauto.
Qed.

Lemma actives_spec subs c : In c (actives subs) <-> exists x, In x subs /\ ts_id x = c /\ ts_active x = true.
Proof.
  unfold actives. rewrite in_map_iff. split.
  - intros (x & E & HF). apply filter_In in HF. exists x. tauto.
  - intros (x & HI & E & A). exists x. split; [exact E|]. apply filter_In. tauto.
Qed.

(** publish() snapshots the subscriptions that are active at publish time: the
    list has no duplicates and is exactly the set of active subscribers; a frame
    for it is created (or, with no active subscriber, nothing is delivered). *)
Theorem topic_publish_snapshot mx ops h mid :
  let s := trun mx ops in
  let act := actives (t_subs s) in
  NoDup act /\
  (forall c, In c act <-> exists x, In x (t_subs s) /\ ts_id x = c /\ ts_active x = true) /\
  (act <> [] -> snd (tstep mx s (TPublishBegin h mid)) = [TSuspend] /\
                lookup h (t_frames (fst (tstep mx s (TPublishBegin h mid)))) = Some (mid, act, 0)) /\
  (act = [] -> snd (tstep mx s (TPublishBegin h mid)) = []).
Proof.
  cbn zeta. split; [|split; [|split]].
  - apply actives_nodup. apply trun_from_nodup. constructor.
  - intros c. apply actives_spec.
  - intros NE. cbn [tstep]. destruct (actives (t_subs (trun mx ops))) eqn:E; [contradiction|].
    cbn. rewrite Z.eqb_refl. split; reflexivity.
  - intros E. cbn [tstep]. rewrite E. reflexivity.
Qed.

Definition thandle (o : top) : option Z :=
  match o with TPublishBegin h _ | TPublishResume h _ => Some h | _ => None end.

Lemma lookup_remkey_same {V} h (m : list (Z * V)) : lookup h (remkey h m) = None.
Proof.
  induction m as [|[k v] r IH]; [reflexivity|]. cbn. destruct (Z.eqb_spec h k); [exact IH|].
  cbn. destruct (Z.eqb_spec h k); [contradiction|exact IH].
Qed.

Lemma tlookup_step mx s o h : thandle o <> Some h ->
  lookup h (t_frames (fst (tstep mx s o))) = lookup h (t_frames s).
Proof.
  intros N. destruct o; cbn [tstep thandle] in *.
  - destruct (match mx with None => false | Some m => m <=? zlen (actives (t_subs s)) end); [reflexivity|].
    destruct (has_sub c (t_subs s)); reflexivity.
  - destruct (has_sub c (t_subs s)); reflexivity.
  - destruct (actives (t_subs s)); [reflexivity|]. cbn. destruct (Z.eqb_spec h h0); [congruence|reflexivity].
  - destruct (lookup h0 (t_frames s)) as [[[m act] i]|]; [|reflexivity].
    destruct (i + 1 <? zlen act); cbn.
    + destruct (Z.eqb_spec h h0); [congruence|]. apply lookup_remkey_other. congruence.
    + apply lookup_remkey_other. congruence.
  - reflexivity.
Qed.

Lemma tlookup_run_from mx ops : forall s h,
  Forall (fun o => thandle o <> Some h) ops ->
  lookup h (t_frames (fst (trun_from mx s ops))) = lookup h (t_frames s).
Proof.
  induction ops as [|o r IH]; intros s h F; [reflexivity|]. inversion F; subst. cbn.
  pose proof (tlookup_step mx s o h H1) as L. destruct (tstep mx s o) as [s1 o1]. cbn in L.
  specialize (IH s1 h H2). destruct (trun_from mx s1 r). cbn in *. congruence.
Qed.

(** A running publish (frame [h]: message [mid], subscribers [act] active at
    publish time, [i] latency waits done) is not disturbed by anything else the
    topic does (subscribes, unsubscribes, other publishes); each resumption
    either waits again or, after the last wait, emits exactly one delivery per
    element of [act], all stamped with the clock at that moment. *)
Theorem topic_exactly_once mx s h mid act i ops now :
  lookup h (t_frames s) = Some (mid, act, i) ->
  Forall (fun o => thandle o <> Some h) ops ->
  let s' := fst (trun_from mx s ops) in
  let r := tstep mx s' (TPublishResume h now) in
  (i + 1 <? zlen act = true -> snd r = [TSuspend] /\ lookup h (t_frames (fst r)) = Some (mid, act, i + 1)) /\
  (i + 1 <? zlen act = false -> snd r = map (fun c => TDelivery c mid now) act /\ lookup h (t_frames (fst r)) = None).
Proof.
  cbn zeta. intros L F. cbn [tstep]. rewrite (tlookup_run_from mx ops s h F), L.
  split; intros E; rewrite E; cbn; [rewrite Z.eqb_refl; auto|]. split; [reflexivity|apply lookup_remkey_same].
Qed.

(** publish_sync: one delivery per active subscriber, now. *)
Theorem topic_publish_sync mx ops mid now :
  let s := trun mx ops in
  snd (tstep mx s (TPublishSync mid now)) = map (fun c => TDelivery c mid now) (actives (t_subs s)) /\
  NoDup (actives (t_subs s)).
Proof. cbn zeta. split; [reflexivity|]. apply actives_nodup, trun_from_nodup. constructor. Qed.

(** The hypotheses of [topic_exactly_once] are satisfiable: two subscribers,
    one publish in progress, a later unsubscribe does not disturb it. *)
Example topic_hypotheses_satisfiable :
  let s := trun None [TSubscribe 1; TSubscribe 2; TPublishBegin 9 0] in
  lookup 9 (t_frames s) = Some (0, [1; 2], 0) /\
  Forall (fun o => thandle o <> Some 9) [TUnsubscribe 2; TPublishBegin 10 1] /\
  snd (tstep None (fst (trun_from None s [TUnsubscribe 2; TPublishBegin 10 1; TPublishResume 9 5])) (TPublishResume 9 7))
    = [TDelivery 1 0 7; TDelivery 2 0 7].
Proof.
  cbn zeta. split; [vm_compute; reflexivity|]. split; [|vm_compute; reflexivity].
  repeat constructor; discriminate.
Qed.
