(** C19 — executable model of happysimulator/components/streaming/event_log.py
    (EventLog: _do_append, _do_read, _apply_retention) and consumer_group.py
    (RangeAssignment, RoundRobinAssignment, StickyAssignment, ConsumerGroup
    Join / Leave / Poll / Commit handlers cut at their yield).  No proofs here.

    Keys, consumer names and partitions are integers; times are ns.  The md5
    digest HashSharding takes of a key is a world parameter [digest : Z -> Z]
    (the harness supplies the digests the implementation computed); the index
    arithmetic on top of it ([digest key mod num_partitions]) is modelled. *)
From HS Require Import Base.Prelude C19.Model.
Local Open Scope Z_scope.

(* ------------------------------------------------------------------ *)
(** * EventLog *)

(** Record = (offset, key, timestamp, partition). *)
Definition lrec : Type := Z * Z * Z * Z.
Definition r_off (r : lrec) : Z := let '(o, _, _, _) := r in o.
Definition r_key (r : lrec) : Z := let '(_, k, _, _) := r in k.
Definition r_ts (r : lrec) : Z := let '(_, _, t, _) := r in t.
Definition r_part (r : lrec) : Z := let '(_, _, _, p) := r in p.

Record part := { p_recs : list lrec; p_hw : Z }.

Inductive retention := RNone | RSize (max_records : Z) | RTime (max_age : Z).

Record slog := {
  l_parts : list part;
  l_appended : Z; l_read : Z; l_expired : Z;
  l_perpart : list Z;
}.

Definition part0 : part := {| p_recs := []; p_hw := 0 |}.

Definition log_init (n : nat) : slog :=
  {| l_parts := repeat part0 n; l_appended := 0; l_read := 0; l_expired := 0; l_perpart := repeat 0 n |}.

Fixpoint upd_nth {A} (i : nat) (f : A -> A) (l : list A) : list A :=
  match i, l with
  | _, [] => []
  | O, x :: r => f x :: r
  | S k, x :: r => x :: upd_nth k f r
  end.

(** HashSharding.get_shard *)
Definition shard_of (digest : Z -> Z) (nparts : Z) (key : Z) : Z := digest key mod nparts.

(** EventLog._do_append *)
Definition log_append (digest : Z -> Z) (s : slog) (key now : Z) : slog * lrec :=
  let pid := shard_of digest (zlen (l_parts s)) key in
  let p := nth (Z.to_nat pid) (l_parts s) part0 in
  let r : lrec := (p_hw p, key, now, pid) in
  ({| l_parts := upd_nth (Z.to_nat pid) (fun p => {| p_recs := p_recs p ++ [r]; p_hw := p_hw p + 1 |}) (l_parts s);
      l_appended := l_appended s + 1; l_read := l_read s; l_expired := l_expired s;
      l_perpart := upd_nth (Z.to_nat pid) (fun c => c + 1) (l_perpart s) |}, r).

(** The scan loop of EventLog._do_read: append, then stop when len(result) >= max_records. *)
Fixpoint read_go (recs : list lrec) (offset maxr have : Z) : list lrec :=
  match recs with
  | [] => []
  | r :: rest =>
      if offset <=? r_off r then
        r :: (if maxr <=? have + 1 then [] else read_go rest offset maxr (have + 1))
      else read_go rest offset maxr have
  end.

Definition log_read (s : slog) (pid offset maxr : Z) : slog * list lrec :=
  if (pid <? 0) || (zlen (l_parts s) <=? pid) then (s, []) else
  let res := read_go (p_recs (nth (Z.to_nat pid) (l_parts s) part0)) offset maxr 0 in
  ({| l_parts := l_parts s; l_appended := l_appended s; l_read := l_read s + zlen res;
      l_expired := l_expired s; l_perpart := l_perpart s |}, res).

(** EventLog._apply_retention *)
Definition retain_part (ret : retention) (now : Z) (p : part) : part :=
  match ret with
  | RNone => p
  | RSize m =>
      let excess := zlen (p_recs p) - m in
      if 0 <? excess then {| p_recs := skipn (Z.to_nat excess) (p_recs p); p_hw := p_hw p |} else p
  | RTime a => {| p_recs := filter (fun r => now - r_ts r <? a) (p_recs p); p_hw := p_hw p |}
  end.

Definition log_retain (ret : retention) (s : slog) (now : Z) : slog :=
  match ret with
  | RNone => s
  | _ =>
    let parts := map (retain_part ret now) (l_parts s) in
    let expired := fold_left Z.add (map (fun p => zlen (p_recs p)) (l_parts s)) 0
                   - fold_left Z.add (map (fun p => zlen (p_recs p)) parts) 0 in
    {| l_parts := parts; l_appended := l_appended s; l_read := l_read s; l_expired := l_expired s + expired;
       l_perpart := l_perpart s |}
  end.

(* ------------------------------------------------------------------ *)
(** * Partition assignment strategies *)

Fixpoint zinsert (x : Z) (l : list Z) : list Z :=
  match l with
  | [] => [x]
  | y :: r => if x <=? y then x :: y :: r else y :: zinsert x r
  end.
Definition zsort (l : list Z) : list Z := fold_right zinsert [] l.

Definition assignment : Type := list (Z * list Z).   (* dict name -> partition ids, insertion order *)

Definition aget (k : Z) (m : assignment) : list Z := match lookup k m with Some l => l | None => [] end.

(** RangeAssignment.assign (partitions are sorted and distinct: range(n)). *)
Fixpoint range_go (parts : list Z) (base rem i : Z) (names : list Z) : assignment :=
  match names with
  | [] => []
  | nm :: r =>
      let count := Z.to_nat (base + (if i <? rem then 1 else 0)) in
      (nm, firstn count parts) :: range_go (skipn count parts) base rem (i + 1) r
  end.

Definition assign_range (parts names : list Z) : assignment :=
  match names with
  | [] => []
  | _ => range_go parts (zlen parts / zlen names) (zlen parts mod zlen names) 0 names
  end.

(** result[k].append(pid) *)
Fixpoint add_to (k pid : Z) (m : assignment) : assignment :=
  match m with
  | [] => []
  | (k', l) :: r => if Z.eqb k k' then (k', l ++ [pid]) :: r else (k', l) :: add_to k pid r
  end.

(** RoundRobinAssignment.assign *)
Fixpoint rr_go (parts : list Z) (i : Z) (names : list Z) (m : assignment) : assignment :=
  match parts with
  | [] => m
  | p :: r => rr_go r (i + 1) names (add_to (nth_mod names i) p m)
  end.

Definition assign_rr (parts names : list Z) : assignment :=
  match names with
  | [] => []
  | _ => rr_go parts 0 names (map (fun nm => (nm, [])) names)
  end.

(** min(sorted_consumers, key=lambda n: len(result[n])): first minimal. *)
Fixpoint least_loaded (m : assignment) (best : Z) (bestlen : Z) : Z :=
  match m with
  | [] => best
  | (k, l) :: r => if zlen l <? bestlen then least_loaded r k (zlen l) else least_loaded r best bestlen
  end.

Definition pick_target (m : assignment) : Z :=
  match m with
  | [] => 0
  | (k, l) :: r => least_loaded r k (zlen l)
  end.

Fixpoint sticky_fill (unassigned : list Z) (m : assignment) : assignment :=
  match unassigned with
  | [] => m
  | p :: r => sticky_fill r (add_to (pick_target m) p m)
  end.

(** StickyAssignment.assign; returns the assignment, which is also the new _previous. *)
Definition assign_sticky (prev : assignment) (parts names : list Z) : assignment :=
  match names with
  | [] => []
  | _ =>
    let kept := map (fun nm => (nm, match lookup nm prev with
                                    | Some l => filter (fun p => mem p parts) l
                                    | None => [] end)) names in
    let assigned := concat (map snd kept) in
    let unassigned := filter (fun p => negb (mem p assigned)) parts in
    map (fun e => (fst e, zsort (snd e))) (sticky_fill unassigned kept)
  end.

Inductive strategy := SRange | SRoundRobin | SSticky.

(* ------------------------------------------------------------------ *)
(** * ConsumerGroup *)

Record group := {
  g_cons : list Z;                       (* keys of _consumers *)
  g_assign : assignment;                 (* _assignments *)
  g_commit : list (Z * list (Z * Z));    (* _committed_offsets *)
  g_gen : Z;
  g_prev : assignment;                   (* StickyAssignment._previous *)
  (* joins, leaves, rebalances, polls, commits, records_polled *)
  k_joins : Z; k_leaves : Z; k_rebal : Z; k_polls : Z; k_commits : Z; k_polled : Z;
}.

Definition group_init : group :=
  {| g_cons := []; g_assign := []; g_commit := []; g_gen := 0; g_prev := [];
     k_joins := 0; k_leaves := 0; k_rebal := 0; k_polls := 0; k_commits := 0; k_polled := 0 |}.

Fixpoint aset {V} (k : Z) (v : V) (m : list (Z * V)) : list (Z * V) :=
  match m with
  | [] => [(k, v)]
  | (k', v') :: r => if Z.eqb k k' then (k, v) :: r else (k', v') :: aset k v r
  end.

Definition zrange (n : Z) : list Z := zseq 0 (Z.to_nat n).

(** ConsumerGroup._rebalance *)
Definition rebalance (st : strategy) (nparts : Z) (g : group) : group :=
  let names := zsort (g_cons g) in
  let parts := zrange nparts in
  let a := match st with
           | SRange => assign_range parts names
           | SRoundRobin => assign_rr parts names
           | SSticky => assign_sticky (g_prev g) parts names
           end in
  {| g_cons := g_cons g; g_assign := a; g_commit := g_commit g; g_gen := g_gen g + 1;
     g_prev := match st with SSticky => a | _ => g_prev g end;
     k_joins := k_joins g; k_leaves := k_leaves g; k_rebal := k_rebal g + 1; k_polls := k_polls g;
     k_commits := k_commits g; k_polled := k_polled g |}.

(** The read loop of the Poll handler. *)
Fixpoint poll_go (s : slog) (pids : list Z) (offsets : list (Z * Z)) (maxr : Z) (acc : list lrec) : slog * list lrec :=
  match pids with
  | [] => (s, acc)
  | pid :: r =>
      let remaining := maxr - zlen acc in
      if remaining <=? 0 then (s, acc) else
      let offset := match lookup pid offsets with Some o => o | None => 0 end in
      let '(s1, recs) := log_read s pid offset remaining in
      poll_go s1 r offsets maxr (acc ++ recs)
  end.

Inductive sop :=
| LAppend (key now : Z)
| LRead (pid offset maxr : Z)
| LRetain (now : Z)
| GJoinBegin (c : Z)
| GJoinEnd (c : Z)
| GLeaveBegin (c : Z)
| GLeaveEnd
| GPoll (c maxr : Z)
| GCommit (c : Z) (offs : list (Z * Z)).

Inductive sout :=
| SRec (r : lrec)
| SRecs (l : list lrec)
| SAssigned (l : list Z)
| SNothing.

Record scfg := { s_digest : Z -> Z; s_ret : retention; s_strat : strategy }.

Definition sstate : Type := slog * group.

Definition set_counters (g : group) j l p c pd : group :=
  {| g_cons := g_cons g; g_assign := g_assign g; g_commit := g_commit g; g_gen := g_gen g; g_prev := g_prev g;
     k_joins := j; k_leaves := l; k_rebal := k_rebal g; k_polls := p; k_commits := c; k_polled := pd |}.

Definition sstep (cfg : scfg) (st : sstate) (o : sop) : sstate * sout :=
  let '(s, g) := st in
  let n := zlen (l_parts s) in
  match o with
  | LAppend key now => let '(s1, r) := log_append (s_digest cfg) s key now in ((s1, g), SRec r)
  | LRead pid offset maxr => let '(s1, rs) := log_read s pid offset maxr in ((s1, g), SRecs rs)
  | LRetain now => ((log_retain (s_ret cfg) s now, g), SNothing)
  | GJoinBegin c =>
      ((s, {| g_cons := addkey c (g_cons g); g_assign := g_assign g;
              g_commit := match lookup c (g_commit g) with Some _ => g_commit g | None => g_commit g ++ [(c, [])] end;
              g_gen := g_gen g; g_prev := g_prev g;
              k_joins := k_joins g + 1; k_leaves := k_leaves g; k_rebal := k_rebal g; k_polls := k_polls g;
              k_commits := k_commits g; k_polled := k_polled g |}), SNothing)
  | GJoinEnd c => let g1 := rebalance (s_strat cfg) n g in ((s, g1), SAssigned (aget c (g_assign g1)))
  | GLeaveBegin c =>
      ((s, {| g_cons := remall c (g_cons g); g_assign := remkey c (g_assign g); g_commit := g_commit g;
              g_gen := g_gen g; g_prev := g_prev g;
              k_joins := k_joins g; k_leaves := k_leaves g + 1; k_rebal := k_rebal g; k_polls := k_polls g;
              k_commits := k_commits g; k_polled := k_polled g |}), SNothing)
  | GLeaveEnd => ((s, rebalance (s_strat cfg) n g), SNothing)
  | GPoll c maxr =>
      let offsets := match lookup c (g_commit g) with Some l => l | None => [] end in
      let '(s1, recs) := poll_go s (aget c (g_assign g)) offsets maxr [] in
      ((s1, set_counters g (k_joins g) (k_leaves g) (k_polls g + 1) (k_commits g) (k_polled g + zlen recs)), SRecs recs)
  | GCommit c offs =>
      let cur := match lookup c (g_commit g) with Some l => l | None => [] end in
      let new := fold_left (fun m po => aset (fst po) (snd po) m) offs cur in
      ((s, {| g_cons := g_cons g; g_assign := g_assign g; g_commit := aset c new (g_commit g);
              g_gen := g_gen g; g_prev := g_prev g;
              k_joins := k_joins g; k_leaves := k_leaves g; k_rebal := k_rebal g; k_polls := k_polls g;
              k_commits := k_commits g + 1; k_polled := k_polled g |}), SNothing)
  end.

Fixpoint srun_from (cfg : scfg) (st : sstate) (ops : list sop) : sstate * list sout :=
  match ops with
  | [] => (st, [])
  | o :: r =>
      let '(st1, o1) := sstep cfg st o in
      let '(st2, outs) := srun_from cfg st1 r in
      (st2, o1 :: outs)
  end.

Definition srun (cfg : scfg) (nparts : nat) (ops : list sop) : sstate :=
  fst (srun_from cfg (log_init nparts, group_init) ops).

(* ------------------------------------------------------------------ *)
(** * Correspondence *)

Definition lrec_eqb (a b : lrec) : bool :=
  let '(a1, a2, a3, a4) := a in let '(b1, b2, b3, b4) := b in
  Z.eqb a1 b1 && Z.eqb a2 b2 && Z.eqb a3 b3 && Z.eqb a4 b4.

Definition sout_eqb (a b : sout) : bool :=
  match a, b with
  | SRec x, SRec y => lrec_eqb x y
  | SRecs x, SRecs y => list_eqb lrec_eqb x y
  | SAssigned x, SAssigned y => list_eqb Z.eqb x y
  | SNothing, SNothing => true
  | _, _ => false
  end.

(** Observed dicts arrive sorted by key; the model's association lists are
    compared as finite maps (same size, same value under every observed key). *)
Definition amap_eqb {V} (veq : V -> V -> bool) (m obs : list (Z * V)) : bool :=
  Nat.eqb (length m) (length obs) &&
  forallb (fun kv => match lookup (fst kv) m with Some v => veq v (snd kv) | None => false end) obs.

(** Snapshot: per partition (offsets, high watermark); [appended; read; expired]; per-partition appends;
    consumers (sorted); assignments; committed offsets; sticky previous;
    [generation; joins; leaves; rebalances; polls; commits; records_polled]. *)
Definition ssnap : Type :=
  list (list Z * Z) * list Z * list Z * list Z * list (Z * list Z) * list (Z * list (Z * Z)) * list (Z * list Z) * list Z.

Definition ok_ssnap (st : sstate) (v : ssnap) : bool :=
  let '(s, g) := st in
  let '(parts, lctr, perpart, cs, assign, commit, prev, gctr) := v in
  forallb2 (fun p o => list_eqb Z.eqb (map r_off (p_recs p)) (fst o) && Z.eqb (p_hw p) (snd o)) (l_parts s) parts
  && list_eqb Z.eqb [l_appended s; l_read s; l_expired s] lctr
  && list_eqb Z.eqb (l_perpart s) perpart
  && list_eqb Z.eqb (zsort (g_cons g)) cs
  && amap_eqb (list_eqb Z.eqb) (g_assign g) assign
  && amap_eqb (amap_eqb Z.eqb) (g_commit g) commit
  && amap_eqb (list_eqb Z.eqb) (g_prev g) prev
  && list_eqb Z.eqb [g_gen g; k_joins g; k_leaves g; k_rebal g; k_polls g; k_commits g; k_polled g] gctr.

Fixpoint ok_strace (cfg : scfg) (st : sstate) (tr : list (sop * sout * ssnap)) : bool :=
  match tr with
  | [] => true
  | (o, out1, v) :: r =>
      let '(st1, mo) := sstep cfg st o in
      sout_eqb mo out1 && ok_ssnap st1 v && ok_strace cfg st1 r
  end.

Definition mk_retention (kind arg : Z) : retention :=
  if kind =? 1 then RSize arg else if kind =? 2 then RTime arg else RNone.
Definition mk_strategy (k : Z) : strategy :=
  if k =? 1 then SRoundRobin else if k =? 2 then SSticky else SRange.

(** Case: (partitions, (retention kind, arg), strategy, digest table (key, md5)), trace. *)
Definition ok_stream (c : (nat * (Z * Z) * Z * list (Z * Z)) * list (sop * sout * ssnap)) : bool :=
  let '((n, (rk, ra), sk, table), tr) := c in
  ok_strace {| s_digest := fun k => zget k table; s_ret := mk_retention rk ra; s_strat := mk_strategy sk |}
            (log_init n, group_init) tr.
