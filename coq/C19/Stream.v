(** C19 — proofs about the EventLog / ConsumerGroup machine of C19/StreamModel.v. *)
From HS Require Import Base.Prelude C19.Model C19.MQ C19.StreamModel C19.Assign.
From Coq Require Import Sorting.Sorted.
Local Open Scope Z_scope.

(* ------------------------------------------------------------------ *)
(** * Reachable-state invariant of the group side *)

Record ginv (n : nat) (st : sstate) : Prop := {
  gi_parts : length (l_parts (fst st)) = n;
  gi_cons : NoDup (g_cons (snd st));
  gi_prev : forall x, tot x (g_prev (snd st)) <= 1;
}.

Lemma length_upd_nth {A} i (f : A -> A) l : length (upd_nth i f l) = length l.
Proof. revert i; induction l as [|x r IH]; intros [|i]; cbn; auto. Qed.

Lemma NoDup_addkey x l : NoDup l -> NoDup (addkey x l).
Proof.
  intros N. unfold addkey. destruct (mem x l) eqn:E; [exact N|].
  apply NoDup_cnt. intros y. rewrite cnt_app. cbn. pose proof (proj1 (NoDup_cnt l) N y).
  destruct (Z.eqb_spec y x); [subst; apply mem_false_cnt in E; lia|lia].
Qed.

Lemma NoDup_remall x l : NoDup l -> NoDup (remall x l).
Proof.
  intros N. apply NoDup_cnt. intros y. rewrite cnt_remall. pose proof (proj1 (NoDup_cnt l) N y).
  destruct (y =? x); lia.
Qed.

Lemma NoDup_zrange n : NoDup (zrange n).
Proof.
  apply NoDup_cnt. intros x. unfold zrange. rewrite cnt_zseq. destruct ((0 <=? x) && _); lia.
Qed.

Lemma zlen_parts_read s pid off m : l_parts (fst (log_read s pid off m)) = l_parts s.
Proof. unfold log_read. destruct (_ || _); reflexivity. Qed.

Lemma poll_go_parts pids : forall s offs m acc, l_parts (fst (poll_go s pids offs m acc)) = l_parts s.
Proof.
  induction pids as [|p r IH]; intros s offs m acc; cbn [poll_go]; [reflexivity|].
  destruct (m - zlen acc <=? 0); [reflexivity|].
  pose proof (zlen_parts_read s p (match lookup p offs with Some o => o | None => 0 end) (m - zlen acc)) as E.
  destruct (log_read s p _ (m - zlen acc)) as [s1 recs]. cbn [fst] in E. rewrite IH. exact E.
Qed.

Definition owners_ok (n : Z) (g : group) : Prop :=
  (forall pid, tot pid (g_assign g) = if (0 <=? pid) && (pid <? n) then 1 else 0) /\
  (forall k, In k (keys (g_assign g)) <-> In k (g_cons g)) /\
  NoDup (keys (g_assign g)).

Lemma rebalance_spec st n g :
  0 <= n -> NoDup (g_cons g) -> (forall x, tot x (g_prev g) <= 1) ->
  let g' := rebalance st n g in
  g_cons g' = g_cons g /\ (forall x, tot x (g_prev g') <= 1) /\ (g_cons g <> [] -> owners_ok n g').
Proof.
  intros Hn ND HP. cbn zeta. unfold rebalance. cbn [g_cons g_prev g_assign].
  set (names := zsort (g_cons g)). set (parts := zrange n).
  assert (NDn : NoDup names) by (apply NoDup_zsort; exact ND).
  assert (NDp : NoDup parts) by apply NoDup_zrange.
  assert (CP : forall x, cnt x parts = if (0 <=? x) && (x <? n) then 1 else 0) by (intros x; apply cnt_zrange; exact Hn).
  assert (KI : forall k, In k names <-> In k (g_cons g)) by (intros k; apply In_zsort).
  split; [reflexivity|].
  destruct names as [|nm0 rest0] eqn:EN.
  - (* no members: every strategy returns {} *)
    split.
    + destruct st; cbn; try exact HP; intros x; cbn; lia.
    + intros H. exfalso. apply H. unfold names in EN. apply zsort_nil in EN. exact EN.
  - rewrite <- EN in *.
    assert (NE : names <> []) by (rewrite EN; discriminate).
    destruct st.
    + destruct (assign_range_spec parts names NE) as [E1 E2].
      split; [exact HP|]. intros _. unfold owners_ok. cbn [g_assign g_cons].
      split; [intros pid; unfold tot; rewrite E1; apply CP|]. rewrite E2. split; [exact KI|exact NDn].
    + split; [exact HP|]. intros _. unfold owners_ok. cbn [g_assign g_cons].
      split; [intros pid; destruct (assign_rr_spec pid parts names NE) as [E1 _]; rewrite E1; apply CP|].
      destruct (assign_rr_spec 0 parts names NE) as [_ E2]. rewrite E2. split; [exact KI|exact NDn].
    + split.
      * intros x. destruct (assign_sticky_spec x (g_prev g) parts names NE NDn NDp (HP x)) as [E1 _].
        rewrite E1, CP. destruct (_ && _); lia.
      * intros _. unfold owners_ok. cbn [g_assign g_cons].
        split; [intros pid; destruct (assign_sticky_spec pid (g_prev g) parts names NE NDn NDp (HP pid)) as [E1 _];
                rewrite E1; apply CP|].
        destruct (assign_sticky_spec 0 (g_prev g) parts names NE NDn NDp (HP 0)) as [_ E2].
        rewrite E2. split; [exact KI|exact NDn].
Qed.

Lemma length_log_append d s k now : length (l_parts (fst (log_append d s k now))) = length (l_parts s).
Proof. unfold log_append. cbn. apply length_upd_nth. Qed.

Lemma length_log_retain r s now : length (l_parts (log_retain r s now)) = length (l_parts s).
Proof. unfold log_retain. destruct r; cbn; [reflexivity|apply map_length|apply map_length]. Qed.

Lemma ginv_step cfg n st o : ginv n st -> ginv n (fst (sstep cfg st o)).
Proof.
  intros [P C V]. destruct st as [s g]. cbn [fst snd] in *. destruct o; cbn [sstep].
  - pose proof (length_log_append (s_digest cfg) s key now) as L.
    destruct (log_append (s_digest cfg) s key now) as [s1 r]. cbn [fst] in *. constructor; cbn [fst snd]; [congruence|exact C|exact V].
  - pose proof (zlen_parts_read s pid offset maxr) as L.
    destruct (log_read s pid offset maxr) as [s1 rs]. cbn [fst] in *. constructor; cbn [fst snd]; [congruence|exact C|exact V].
  - constructor; cbn [fst snd]; [rewrite length_log_retain; exact P|exact C|exact V].
  - constructor; cbn [fst snd g_cons g_prev]; [exact P|apply NoDup_addkey; exact C|exact V].
  - destruct (rebalance_spec (s_strat cfg) (zlen (l_parts s)) g ltac:(unfold zlen; lia) C V) as (E1 & E2 & _).
    constructor; cbn [fst snd]; [exact P|rewrite E1; exact C|exact E2].
  - constructor; cbn [fst snd g_cons g_prev]; [exact P|apply NoDup_remall; exact C|exact V].
  - destruct (rebalance_spec (s_strat cfg) (zlen (l_parts s)) g ltac:(unfold zlen; lia) C V) as (E1 & E2 & _).
    constructor; cbn [fst snd]; [exact P|rewrite E1; exact C|exact E2].
  - pose proof (poll_go_parts (aget c (g_assign g)) s
                 (match lookup c (g_commit g) with Some l => l | None => [] end) maxr []) as L.
    destruct (poll_go s _ _ maxr []) as [s1 recs]. cbn [fst] in *.
    constructor; cbn [fst snd set_counters g_cons g_prev]; [congruence|exact C|exact V].
  - constructor; cbn [fst snd g_cons g_prev]; [exact P|exact C|exact V].
Qed.

Lemma ginv_run_from cfg n ops : forall st, ginv n st -> ginv n (fst (srun_from cfg st ops)).
Proof.
  induction ops as [|o r IH]; intros st I; [exact I|]. cbn.
  pose proof (ginv_step cfg n st o I) as I1. destruct (sstep cfg st o) as [st1 o1]. cbn in I1.
  specialize (IH st1 I1). destruct (srun_from cfg st1 r). exact IH.
Qed.

Lemma ginv_init n : ginv n (log_init n, group_init).
Proof. constructor; cbn; [apply repeat_length|constructor|intros x; lia]. Qed.

(** After every rebalance (the post-yield half of a Join or a Leave), with at
    least one member left, every partition 0..n-1 is in exactly one member's
    list exactly once, nothing else is assigned, and the owners are exactly the
    current members — for Range, RoundRobin and Sticky assignment, after any
    history of joins, leaves, polls, commits, appends and retention sweeps. *)
Theorem group_rebalance_one_owner cfg n ops o :
  o = GLeaveEnd \/ (exists c, o = GJoinEnd c) ->
  let g' := snd (fst (sstep cfg (srun cfg n ops) o)) in
  g_cons g' <> [] -> owners_ok (Z.of_nat n) g'.
Proof.
  intros HO. pose proof (ginv_run_from cfg n ops _ (ginv_init n)) as [P C V].
  fold (srun cfg n ops) in *. destruct (srun cfg n ops) as [s g]. cbn [fst snd] in *.
  assert (EN : zlen (l_parts s) = Z.of_nat n) by (unfold zlen; rewrite P; reflexivity).
  destruct (rebalance_spec (s_strat cfg) (zlen (l_parts s)) g ltac:(unfold zlen; lia) C V) as (E1 & _ & E3).
  destruct HO as [->|[c ->]]; cbn [sstep fst snd]; rewrite <- EN; intros NE; apply E3; rewrite <- E1; exact NE.
Qed.

(* ------------------------------------------------------------------ *)
(** * EventLog: offsets, partitions *)

Lemma nth_error_upd_nth {A} (f : A -> A) l : forall i j,
  nth_error (upd_nth i f l) j = if Nat.eqb i j then option_map f (nth_error l j) else nth_error l j.
Proof.
  induction l as [|x r IH]; intros i j.
  - destruct i; cbn; destruct j; cbn; try reflexivity; destruct (Nat.eqb _ _); reflexivity.
  - destruct i as [|i], j as [|j]; cbn; try reflexivity. apply IH.
Qed.

Lemma zseq_app s a b : zseq s (a + b) = zseq s a ++ zseq (s + Z.of_nat a) b.
Proof.
  revert s; induction a as [|a IH]; intros s; cbn [zseq Nat.add app].
  - f_equal. lia.
  - rewrite IH. do 3 f_equal. lia.
Qed.

Lemma skipn_zseq k : forall s n, skipn k (zseq s n) = zseq (s + Z.of_nat (Nat.min k n)) (n - k).
Proof.
  induction k as [|k IH]; intros s n; cbn [skipn].
  - cbn. rewrite Z.add_0_r, Nat.sub_0_r. reflexivity.
  - destruct n as [|n]; cbn [zseq Nat.min Nat.sub]; [reflexivity|]. rewrite IH. f_equal. lia.
Qed.

(** Per-partition invariant.  [clock] bounds the time stamps (only used for
    time-based retention). *)
Record pinv (cfg : scfg) (nparts : Z) (clock : Z) (i : nat) (p : part) : Prop := {
  pi_off : map r_off (p_recs p) = zseq (p_hw p - zlen (p_recs p)) (length (p_recs p));
  pi_lo : 0 <= p_hw p - zlen (p_recs p);
  pi_part : forall r, In r (p_recs p) -> r_part r = Z.of_nat i /\ r_part r = shard_of (s_digest cfg) nparts (r_key r);
  pi_ts : StronglySorted (fun a b => r_ts a <= r_ts b) (p_recs p);
  pi_clk : forall r, In r (p_recs p) -> r_ts r <= clock;
}.

Definition linv (cfg : scfg) (clock : Z) (s : slog) : Prop :=
  forall i p, nth_error (l_parts s) i = Some p -> pinv cfg (zlen (l_parts s)) clock i p.

Lemma pinv_clock cfg n c c' i p : c <= c' -> pinv cfg n c i p -> pinv cfg n c' i p.
Proof. intros H [A B C D E]. constructor; auto. intros r Hr. specialize (E r Hr). lia. Qed.

Lemma ss_snoc {A} (R : A -> A -> Prop) l x : StronglySorted R l -> (forall y, In y l -> R y x) -> StronglySorted R (l ++ [x]).
Proof.
  induction 1 as [|y r S IH F]; intros H; cbn; [repeat constructor|].
  constructor; [apply IH; intros z Hz; apply H; right; exact Hz|].
  rewrite Forall_forall in *. intros z Hz. rewrite in_app_iff in Hz. destruct Hz as [Hz|[<-|[]]].
  - apply F. exact Hz.
  - apply H. left. reflexivity.
Qed.

Lemma pinv_append cfg n clock now i p key :
  clock <= now -> pinv cfg n clock i p -> shard_of (s_digest cfg) n key = Z.of_nat i ->
  pinv cfg n now i {| p_recs := p_recs p ++ [(p_hw p, key, now, Z.of_nat i)]; p_hw := p_hw p + 1 |}.
Proof.
  intros HC [A B C D E] HS. constructor; cbn [p_recs p_hw].
  - rewrite map_app, app_length, zseq_app, A. cbn [map length zseq r_off]. unfold zlen. rewrite app_length. cbn [length].
    replace (p_hw p + 1 - Z.of_nat (length (p_recs p) + 1)) with (p_hw p - zlen (p_recs p)) by (unfold zlen; lia).
    do 2 f_equal. unfold zlen. lia.
  - unfold zlen in *. rewrite app_length. cbn [length]. lia.
  - intros r Hr. rewrite in_app_iff in Hr. destruct Hr as [Hr|[<-|[]]]; [apply C; exact Hr|]. cbn. split; [reflexivity|]. lia.
  - apply ss_snoc; [exact D|]. intros y Hy. cbn. specialize (E y Hy). lia.
  - intros r Hr. rewrite in_app_iff in Hr. destruct Hr as [Hr|[<-|[]]]; [specialize (E r Hr); lia|cbn; lia].
Qed.

Lemma ss_skipn {A} (R : A -> A -> Prop) k : forall l, StronglySorted R l -> StronglySorted R (skipn k l).
Proof.
  induction k as [|k IH]; intros l S; [exact S|]. destruct l as [|x r]; [constructor|]. cbn.
  inversion S; subst. apply IH. assumption.
Qed.

Lemma In_skipn {A} k (x : A) : forall l, In x (skipn k l) -> In x l.
Proof. induction k as [|k IH]; intros l H; [exact H|]. destruct l; [exact H|]. right. apply IH. exact H. Qed.

Lemma pinv_skipn cfg n clock i p k :
  pinv cfg n clock i p -> pinv cfg n clock i {| p_recs := skipn k (p_recs p); p_hw := p_hw p |}.
Proof.
  intros [A B C D E]. constructor; cbn [p_recs p_hw].
  - rewrite <- skipn_map, A, skipn_zseq, skipn_length. f_equal. unfold zlen. rewrite skipn_length. lia.
  - unfold zlen in *. rewrite skipn_length. lia.
  - intros r Hr. apply C. eapply In_skipn. exact Hr.
  - apply ss_skipn. exact D.
  - intros r Hr. apply E. eapply In_skipn. exact Hr.
Qed.

(** On a list with non-decreasing time stamps the time-retention filter keeps a suffix. *)
Lemma filter_time_suffix now a l :
  StronglySorted (fun x y : lrec => r_ts x <= r_ts y) l ->
  exists k, filter (fun r => now - r_ts r <? a) l = skipn k l.
Proof.
  induction 1 as [|x r SS IH F].
  - exists O. reflexivity.
  - cbn [filter]. destruct (now - r_ts x <? a) eqn:E.
    + exists O. cbn [skipn]. f_equal. rewrite Forall_forall in F.
      clear IH. induction r as [|y q IHq]; [reflexivity|]. cbn [filter].
      assert (r_ts x <= r_ts y) by (apply F; left; reflexivity).
      replace (now - r_ts y <? a) with true by lia. f_equal. apply IHq.
      * inversion SS; assumption.
      * intros z Hz. apply F. right. exact Hz.
    + destruct IH as [k Ek]. exists (S k). cbn [skipn]. exact Ek.
Qed.

Lemma pinv_retain cfg ret n clock i p now :
  pinv cfg n clock i p -> pinv cfg n clock i (retain_part ret now p).
Proof.
  intros I. unfold retain_part. destruct ret.
  - exact I.
  - destruct (0 <? _); [apply pinv_skipn; exact I|exact I].
  - destruct (filter_time_suffix now max_age (p_recs p) (pi_ts _ _ _ _ _ I)) as [k Ek]. rewrite Ek.
    apply pinv_skipn. exact I.
Qed.

(** Monotone clock readings along the operations that read the clock. *)
Fixpoint mono_from (t : Z) (ops : list sop) : Prop :=
  match ops with
  | [] => True
  | LAppend _ now :: r | LRetain now :: r => t <= now /\ mono_from now r
  | _ :: r => mono_from t r
  end.

Definition clock_after (t : Z) (o : sop) : Z :=
  match o with LAppend _ now | LRetain now => now | _ => t end.

Lemma linv_read cfg t s pid off m : linv cfg t s -> linv cfg t (fst (log_read s pid off m)).
Proof. unfold linv. rewrite zlen_parts_read. auto. Qed.

Lemma linv_poll_go cfg t pids : forall s offs m acc, linv cfg t s -> linv cfg t (fst (poll_go s pids offs m acc)).
Proof. unfold linv. intros s offs m acc H. rewrite poll_go_parts. exact H. Qed.

Lemma linv_step cfg t st o :
  (0 < length (l_parts (fst st)))%nat ->
  linv cfg t (fst st) -> t <= clock_after t o ->
  linv cfg (clock_after t o) (fst (fst (sstep cfg st o))).
Proof.
  intros NP L HC. destruct st as [s g]. cbn [fst] in *. destruct o; cbn [sstep clock_after] in *.
  - (* append *)
    unfold log_append. cbn [fst].
    set (n := zlen (l_parts s)). set (pid := shard_of (s_digest cfg) n key).
    assert (0 <= pid < n).
    { unfold pid, shard_of. apply Z.mod_pos_bound. unfold n, zlen. lia. }
    intros i p. unfold zlen. cbn [l_parts]. rewrite length_upd_nth, nth_error_upd_nth.
    destruct (Nat.eqb_spec (Z.to_nat pid) i).
    + destruct (nth_error (l_parts s) i) as [p0|] eqn:E; cbn [option_map]; [|discriminate].
      intros H'. inversion H'; subst p. clear H'.
      rewrite e, (nth_error_nth (l_parts s) _ part0 E).
      replace pid with (Z.of_nat i) by lia.
      unfold zlen in n. fold n. apply (pinv_append cfg n t now i p0 key HC); [apply L; exact E|]. fold pid. lia.
    + intros E. eapply pinv_clock; [exact HC|]. apply L. exact E.
  - pose proof (linv_read cfg t s pid offset maxr L) as L1. destruct (log_read s pid offset maxr) as [s1 rs]. exact L1.
  - (* retention *)
    unfold log_retain. destruct (s_ret cfg) eqn:ER.
    + cbn [fst]. intros i p E. eapply pinv_clock; [exact HC|]. apply L. exact E.
    + cbn [fst]. unfold linv. cbn [l_parts]. intros i p. unfold zlen. rewrite map_length, nth_error_map.
      destruct (nth_error (l_parts s) i) as [p0|] eqn:E; cbn [option_map]; [|discriminate].
      intros H'. injection H' as <-. apply (pinv_retain cfg (RSize max_records) _ _ _ p0 now). eapply pinv_clock; [exact HC|]. apply L. exact E.
    + cbn [fst]. unfold linv. cbn [l_parts]. intros i p. unfold zlen. rewrite map_length, nth_error_map.
      destruct (nth_error (l_parts s) i) as [p0|] eqn:E; cbn [option_map]; [|discriminate].
      intros H'. injection H' as <-. apply (pinv_retain cfg (RTime max_age) _ _ _ p0 now). eapply pinv_clock; [exact HC|]. apply L. exact E.
  - exact L.
  - exact L.
  - exact L.
  - exact L.
  - pose proof (linv_poll_go cfg t (aget c (g_assign g)) s
                 (match lookup c (g_commit g) with Some l => l | None => [] end) maxr [] L) as L1.
    destruct (poll_go s _ _ maxr []) as [s1 recs]. exact L1.
  - exact L.
Qed.

Lemma linv_init cfg t n : linv cfg t (log_init n).
Proof.
  intros i p E. unfold log_init in E. cbn [l_parts] in E. apply nth_error_In, repeat_spec in E. subst p.
  constructor; cbn; try reflexivity; try lia; try (intros r []). constructor.
Qed.

Lemma linv_run_from cfg n ops : forall t st,
  (0 < n)%nat -> ginv n st -> linv cfg t (fst st) -> mono_from t ops ->
  exists t', linv cfg t' (fst (fst (srun_from cfg st ops))).
Proof.
  induction ops as [|o r IH]; intros t st Hn G L M; [exists t; exact L|]. cbn [srun_from].
  assert (HC : t <= clock_after t o /\ mono_from (clock_after t o) r).
  { destruct o; cbn [mono_from clock_after] in *; try (split; [lia|exact M]); exact M. }
  destruct HC as [HC M'].
  pose proof (linv_step cfg t st o ltac:(rewrite (gi_parts n st G); exact Hn) L HC) as L1.
  pose proof (ginv_step cfg n st o G) as G1.
  destruct (sstep cfg st o) as [st1 o1]. cbn [fst] in *.
  destruct (IH _ st1 Hn G1 L1 M') as [t' L']. exists t'. destruct (srun_from cfg st1 r). exact L'.
Qed.

(** Offsets within a partition are gap-free and increasing: the retained
    records carry the consecutive offsets [hw - len .. hw - 1] (all of
    [0 .. hw-1] when nothing was expired), for no / size / time retention,
    for every operation sequence whose clock readings do not decrease. *)
Theorem log_offsets_gap_free cfg n ops t0 i p :
  (0 < n)%nat -> mono_from t0 ops ->
  nth_error (l_parts (fst (srun cfg n ops))) i = Some p ->
  map r_off (p_recs p) = zseq (p_hw p - zlen (p_recs p)) (length (p_recs p)) /\ 0 <= p_hw p - zlen (p_recs p).
Proof.
  intros Hn M E.
  destruct (linv_run_from cfg n ops t0 _ Hn (ginv_init n) (linv_init cfg t0 n) M) as [t' L].
  fold (srun cfg n ops) in L. destruct (L i p E) as [A B _ _ _]. split; assumption.
Qed.

Example mono_example : mono_from 0 [LAppend 1 5; GJoinBegin 0; LRetain 5; GJoinEnd 0; LAppend 2 9; GPoll 0 10].
Proof. cbn. lia. Qed.

(* ---- key -> partition, unconditionally *)
Definition kinv (cfg : scfg) (s : slog) : Prop :=
  forall i p r, nth_error (l_parts s) i = Some p -> In r (p_recs p) ->
    r_part r = Z.of_nat i /\ r_part r = shard_of (s_digest cfg) (zlen (l_parts s)) (r_key r).

Lemma In_retain ret now p r : In r (p_recs (retain_part ret now p)) -> In r (p_recs p).
Proof.
  unfold retain_part. destruct ret; [auto| |].
  - destruct (0 <? _); [cbn; apply In_skipn|auto].
  - cbn. intros H. apply filter_In in H. tauto.
Qed.

Lemma kinv_step cfg st o :
  (0 < length (l_parts (fst st)))%nat -> kinv cfg (fst st) -> kinv cfg (fst (fst (sstep cfg st o))).
Proof.
  intros NP K. destruct st as [s g]. cbn [fst] in *. destruct o; cbn [sstep]; try exact K.
  - unfold log_append. cbn [fst].
    set (n := zlen (l_parts s)). set (pid := shard_of (s_digest cfg) n key).
    assert (0 <= pid < n) by (unfold pid, shard_of; apply Z.mod_pos_bound; unfold n, zlen; lia).
    intros i p r. unfold zlen. cbn [l_parts]. rewrite length_upd_nth, nth_error_upd_nth.
    destruct (Nat.eqb_spec (Z.to_nat pid) i).
    + destruct (nth_error (l_parts s) i) as [p0|] eqn:E; cbn [option_map]; [|discriminate].
      intros H'. injection H' as <-. cbn [p_recs]. rewrite in_app_iff. intros [Hr|[<-|[]]].
      * apply (K i p0 r E Hr).
      * cbn. fold n. fold pid. split; [lia|reflexivity].
    + intros E Hr. apply (K i p r E Hr).
  - pose proof (zlen_parts_read s pid offset maxr) as L.
    destruct (log_read s pid offset maxr) as [s1 rs]. cbn [fst] in *. unfold kinv. rewrite L. exact K.
  - unfold log_retain. destruct (s_ret cfg) eqn:ER; [exact K| |];
      (cbn [fst]; unfold kinv; cbn [l_parts]; intros i p r; unfold zlen; rewrite map_length, nth_error_map;
       destruct (nth_error (l_parts s) i) as [p0|] eqn:E; cbn [option_map]; [|discriminate];
       intros H'; injection H' as <-; intros Hr; apply (K i p0 r E)).
    + apply (In_retain (RSize max_records) now). exact Hr.
    + apply (In_retain (RTime max_age) now). exact Hr.
  - pose proof (poll_go_parts (aget c (g_assign g)) s
                 (match lookup c (g_commit g) with Some l => l | None => [] end) maxr []) as L.
    destruct (poll_go s _ _ maxr []) as [s1 recs]. cbn [fst] in *. unfold kinv. rewrite L. exact K.
Qed.

Lemma kinv_run_from cfg n ops : forall st,
  (0 < n)%nat -> ginv n st -> kinv cfg (fst st) -> kinv cfg (fst (fst (srun_from cfg st ops))).
Proof.
  induction ops as [|o r IH]; intros st Hn G K; [exact K|]. cbn [srun_from].
  pose proof (kinv_step cfg st o ltac:(rewrite (gi_parts n st G); exact Hn) K) as K1.
  pose proof (ginv_step cfg n st o G) as G1.
  destruct (sstep cfg st o) as [st1 o1]. cbn [fst] in *.
  specialize (IH st1 Hn G1 K1). destruct (srun_from cfg st1 r). exact IH.
Qed.

(** A key always maps to the same partition: every stored record sits in the
    partition [digest key mod n], whatever happened before (any digest
    function, any operation sequence).  Hence two records with the same key are
    in the same partition. *)
Theorem log_key_partition_stable cfg n ops i p r :
  (0 < n)%nat ->
  nth_error (l_parts (fst (srun cfg n ops))) i = Some p -> In r (p_recs p) ->
  r_part r = Z.of_nat i /\ r_part r = s_digest cfg (r_key r) mod Z.of_nat n.
Proof.
  intros Hn E Hr.
  assert (K0 : kinv cfg (fst (log_init n, group_init))).
  { intros j q x Ej Hx. cbn [fst log_init l_parts] in Ej. apply nth_error_In, repeat_spec in Ej. subst q. destruct Hx. }
  pose proof (kinv_run_from cfg n ops _ Hn (ginv_init n) K0) as K. fold (srun cfg n ops) in K.
  pose proof (ginv_run_from cfg n ops _ (ginv_init n)) as G. fold (srun cfg n ops) in G.
  destruct (K i p r E Hr) as [A B]. split; [exact A|]. rewrite B. unfold shard_of, zlen. rewrite (gi_parts _ _ G). reflexivity.
Qed.

Corollary log_same_key_same_partition cfg n ops i1 p1 r1 i2 p2 r2 :
  (0 < n)%nat ->
  nth_error (l_parts (fst (srun cfg n ops))) i1 = Some p1 -> In r1 (p_recs p1) ->
  nth_error (l_parts (fst (srun cfg n ops))) i2 = Some p2 -> In r2 (p_recs p2) ->
  r_key r1 = r_key r2 -> i1 = i2.
Proof.
  intros Hn E1 H1 E2 H2 EK.
  destruct (log_key_partition_stable cfg n ops i1 p1 r1 Hn E1 H1) as [A1 B1].
  destruct (log_key_partition_stable cfg n ops i2 p2 r2 Hn E2 H2) as [A2 B2].
  rewrite EK in B1. lia.
Qed.

(* ------------------------------------------------------------------ *)
(** * Committed offsets *)

Definition coff (g : group) (c pid : Z) : Z :=
  match lookup c (g_commit g) with
  | Some m => match lookup pid m with Some o => o | None => 0 end
  | None => 0
  end.

Definition committed_monotone_statement : Prop :=
  forall cfg n ops o c pid,
    coff (snd (srun cfg n ops)) c pid <= coff (snd (fst (sstep cfg (srun cfg n ops) o))) c pid.

(** REFUTED on the faithful model: Commit stores whatever offset it is given. *)
Theorem group_committed_monotone_refuted : ~ committed_monotone_statement.
Proof.
  intros H.
  specialize (H {| s_digest := fun k => k; s_ret := RNone; s_strat := SRange |} 1%nat
                [GJoinBegin 0; GJoinEnd 0; GCommit 0 [(0, 5)]] (GCommit 0 [(0, 2)]) 0 0).
  vm_compute in H. apply H. reflexivity.
Qed.

Lemma lookup_aset {V} k k' (v : V) m : lookup k (aset k' v m) = if k =? k' then Some v else lookup k m.
Proof.
  induction m as [|[a b] r IH]; cbn.
  - destruct (k =? k'); reflexivity.
  - destruct (Z.eqb_spec k' a); cbn.
    + subst a. destruct (Z.eqb_spec k k'); reflexivity.
    + rewrite IH. destruct (Z.eqb_spec k a); [|reflexivity]. subst a.
      destruct (Z.eqb_spec k k'); [congruence|reflexivity].
Qed.

Definition oget (m : list (Z * Z)) (p : Z) : Z := match lookup p m with Some o => o | None => 0 end.

Lemma fold_aset_ge (lo : Z) pid offs : forall cur,
  (forall p v, In (p, v) offs -> p = pid -> lo <= v) -> lo <= oget cur pid ->
  lo <= oget (fold_left (fun m po => aset (fst po) (snd po) m) offs cur) pid.
Proof.
  induction offs as [|[p v] r IH]; intros cur H H0; [exact H0|]. cbn [fold_left fst snd].
  apply IH; [intros p' v' HI; apply H; right; exact HI|].
  unfold oget. rewrite lookup_aset. destruct (Z.eqb_spec pid p); [|exact H0].
  apply (H p v); [left; reflexivity|congruence].
Qed.

(** PARTIAL: the committed offset of (consumer, partition) changes only in a
    Commit of that consumer that names that partition, and then becomes one of
    the given values; so it never moves backwards as long as no commit names an
    offset below the current one (joins, leaves, rebalances, polls, appends and
    retention never touch it). *)
Theorem group_committed_monotone_partial cfg st o c pid :
  (forall offs, o = GCommit c offs -> forall v, In (pid, v) offs -> coff (snd st) c pid <= v) ->
  coff (snd st) c pid <= coff (snd (fst (sstep cfg st o))) c pid.
Proof.
  intros H. destruct st as [s g]. cbn [snd] in *. destruct o; cbn [sstep].
  - destruct (log_append _ _ _ _); cbn; lia.
  - destruct (log_read _ _ _ _); cbn; lia.
  - cbn; lia.
  - cbn [fst snd]. unfold coff. cbn [g_commit].
    destruct (lookup c0 (g_commit g)) eqn:E; [lia|].
    destruct (Z.eqb_spec c c0).
    + subst c0. rewrite E.
      assert (L : lookup c (g_commit g ++ [(c, [])]) = Some []).
      { clear H. revert E. induction (g_commit g) as [|[a b] r IH]; cbn; [rewrite Z.eqb_refl; reflexivity|].
        destruct (c =? a); [discriminate|exact IH]. }
      rewrite L. cbn. lia.
    + assert (L : lookup c (g_commit g ++ [(c0, [])]) = lookup c (g_commit g)).
      { clear H E. induction (g_commit g) as [|[a b] r IH]; cbn; [destruct (Z.eqb_spec c c0); [contradiction|reflexivity]|].
        destruct (c =? a); [reflexivity|exact IH]. }
      rewrite L. lia.
  - unfold coff, rebalance. cbn [fst snd g_commit]. lia.
  - unfold coff. cbn [fst snd g_commit]. lia.
  - unfold coff, rebalance. cbn [fst snd g_commit]. lia.
  - destruct (poll_go _ _ _ _ _). unfold coff, set_counters. cbn [fst snd g_commit]. lia.
  - cbn [fst snd]. unfold coff at 2. cbn [g_commit]. rewrite lookup_aset.
    destruct (Z.eqb_spec c c0); [|unfold coff; lia].
    subst c0. fold (oget (fold_left (fun m po => aset (fst po) (snd po) m) offs
                           match lookup c (g_commit g) with Some l => l | None => [] end) pid).
    apply fold_aset_ge.
    + intros p v HI ->. apply (H offs eq_refl v HI).
    + unfold coff, oget. destruct (lookup c (g_commit g)); cbn; lia.
Qed.

(** The hypotheses of the conditional theorems are satisfiable. *)
Definition exs_cfg : scfg := {| s_digest := fun k => k * 7 + 3; s_ret := RSize 1; s_strat := SSticky |}.
Definition exs_ops : list sop :=
  [LAppend 1 5; LAppend 2 6; GJoinBegin 0; GJoinBegin 1; LAppend 1 7; GJoinEnd 0; LRetain 8; GJoinEnd 1; GLeaveBegin 0].

Example stream_hypotheses_satisfiable :
  mono_from 0 exs_ops /\
  (exists p r, nth_error (l_parts (fst (srun exs_cfg 3 exs_ops))) 1 = Some p /\ In r (p_recs p) /\ r_key r = 1) /\
  g_cons (snd (fst (sstep exs_cfg (srun exs_cfg 3 exs_ops) GLeaveEnd))) <> [] /\
  g_assign (snd (fst (sstep exs_cfg (srun exs_cfg 3 exs_ops) GLeaveEnd))) = [(1, [0; 1; 2])].
Proof.
  split; [cbn; lia|]. split; [|split; [vm_compute; discriminate|vm_compute; reflexivity]].
  eexists. eexists. split; [vm_compute; reflexivity|]. split; [left; reflexivity|reflexivity].
Qed.
