(** C19 — DeadLetterQueue: what a dead-lettered message can be lost to.
    For every sequence of add_message / pop / clear with any capacity and
    retention period:
    - with a capacity c >= 1 the DLQ never holds more than c messages;
    - one [add_message] removes exactly: a prefix of messages that have outlived
      the retention period, and then AT MOST ONE more — the oldest survivor, and
      only if the survivors already fill the capacity.  A message that is still
      within its retention period is never dropped while there is room;
    - received = held + discarded (expired, pushed out or cleared) + popped. *)
From HS Require Import Base.Prelude C19.DlqModel.
Local Open Scope Z_scope.

Lemma dl_zlen_app {A} (a b : list A) : dl_zlen (a ++ b) = dl_zlen a + dl_zlen b.
Proof. unfold dl_zlen. rewrite app_length. lia. Qed.

Lemma dl_zlen_tl {A} (l : list A) : l <> [] -> dl_zlen (tl l) = dl_zlen l - 1.
Proof. destruct l; [congruence|]. unfold dl_zlen. cbn [tl length]. lia. Qed.

Lemma skipn_S_tl {A} j : forall l : list A, skipn (S j) l = tl (skipn j l).
Proof.
  induction j as [|j IH]; intros l.
  - destruct l; reflexivity.
  - destruct l as [|x l]; [reflexivity|]. change (skipn (S (S j)) (x :: l)) with (skipn (S j) l).
    change (skipn (S j) (x :: l)) with (skipn j l). apply IH.
Qed.

(** the sweep removes a prefix of expired messages and stops at the first live one *)
Lemma dl_sweep_spec now ret l :
  exists j, dl_sweep now ret l = skipn j l
  /\ Forall (fun mt => now - snd mt > ret) (firstn j l)
  /\ match skipn j l with [] => True | (m, t) :: _ => now - t <= ret end.
Proof.
  induction l as [|[m t] r IH]; [exists 0%nat; cbn; auto|].
  cbn [dl_sweep]. destruct (now - t >? ret) eqn:E.
  - destruct IH as (j & E1 & E2 & E3). exists (S j). cbn [skipn firstn]. repeat split; auto. constructor; [cbn; lia|exact E2].
  - exists 0%nat. cbn. repeat split; auto. lia.
Qed.

Theorem dlq_add_loses_only_expired_or_when_full : forall d now m,
  exists j,
    Forall (fun mt => match d_ret d with Some r => now - snd mt > r | None => False end) (firstn j (d_msgs d))
    /\ ((dl_full (d_cap d) (skipn j (d_msgs d)) = false /\ d_msgs (dl_add d now m) = skipn j (d_msgs d) ++ [(m, now)])
        \/ (skipn j (d_msgs d) = [] /\ d_msgs (dl_add d now m) = [(m, now)])
        \/ (dl_full (d_cap d) (skipn j (d_msgs d)) = true /\ d_msgs (dl_add d now m) = skipn (S j) (d_msgs d) ++ [(m, now)]))
    /\ match skipn j (d_msgs d), d_ret d with (_, t) :: _, Some r => now - t <= r | _, _ => True end.
Proof.
  intros d now m. unfold dl_add. cbn [d_msgs].
  destruct (d_ret d) as [r|].
  - destruct (dl_sweep_spec now r (d_msgs d)) as (j & E1 & E2 & E3). exists j. rewrite E1.
    split; [exact E2|]. split; [|destruct (skipn j (d_msgs d)) as [|[? ?] ?]; exact E3].
    destruct (skipn j (d_msgs d)) as [|x l1] eqn:Es.
    + right; left. split; [reflexivity|]. rewrite Bool.andb_false_r. reflexivity.
    + rewrite Bool.andb_true_r. destruct (dl_full (d_cap d) (x :: l1)) eqn:Ef; [right; right|left]; (split; [reflexivity|]).
      * cbn [tl]. f_equal. rewrite skipn_S_tl, Es. reflexivity.
      * reflexivity.
  - exists 0%nat. cbn [skipn firstn]. split; [constructor|]. split; [|destruct (d_msgs d) as [|[? ?] ?]; exact I].
    destruct (d_msgs d) as [|x l1] eqn:Es.
    + right; left. split; [reflexivity|]. rewrite Bool.andb_false_r. reflexivity.
    + rewrite Bool.andb_true_r. destruct (dl_full (d_cap d) (x :: l1)) eqn:Ef; [right; right|left]; (split; reflexivity).
Qed.

Lemma dl_sweep_len now ret l : dl_zlen (dl_sweep now ret l) <= dl_zlen l.
Proof.
  induction l as [|[m t] r IH]; cbn [dl_sweep]; [lia|]. destruct (now - t >? ret); [|lia].
  unfold dl_zlen in *. cbn [length]. lia.
Qed.

Lemma dl_step_cap c d o : 1 <= c -> d_cap d = Some c -> dl_zlen (d_msgs d) <= c ->
  d_cap (fst (dl_step d o)) = Some c /\ dl_zlen (d_msgs (fst (dl_step d o))) <= c.
Proof.
  intros Hc Hd Hl. destruct o as [now m| |]; cbn [dl_step].
  - cbn [fst]. unfold dl_add. cbn [d_cap d_msgs]. split; [exact Hd|].
    set (l1 := match d_ret d with None => d_msgs d | Some r => dl_sweep now r (d_msgs d) end).
    assert (H1 : dl_zlen l1 <= dl_zlen (d_msgs d)) by (unfold l1; destruct (d_ret d); [apply dl_sweep_len|lia]).
    rewrite Hd. unfold dl_full. rewrite dl_zlen_app. change (dl_zlen [(m, now)]) with 1.
    destruct (c <=? dl_zlen l1) eqn:E; cbn [andb].
    + destruct l1 as [|x l1']; [unfold dl_zlen in E; cbn in E; lia|]. cbn [negb tl]. unfold dl_zlen in *. cbn [length] in *. lia.
    + lia.
  - destruct (d_msgs d) as [|[m t] r] eqn:E; cbn [fst d_cap d_msgs]; [split; [exact Hd|rewrite E; exact Hl]|].
    split; [exact Hd|]. unfold dl_zlen in *. cbn [length] in Hl. lia.
  - cbn [fst d_cap d_msgs]. split; [exact Hd|]. unfold dl_zlen. cbn. lia.
Qed.

Theorem dlq_capacity : forall ops c ret, 1 <= c ->
  dl_zlen (d_msgs (dl_run (MkDlq (Some c) ret [] 0 0) ops)) <= c.
Proof.
  intros ops c ret Hc.
  assert (G : forall ops d, d_cap d = Some c -> dl_zlen (d_msgs d) <= c -> dl_zlen (d_msgs (dl_run d ops)) <= c).
  { induction ops0 as [|o ops0 IH]; intros d Hd Hl; [exact Hl|]. cbn [dl_run].
    destruct (dl_step_cap c d o Hc Hd Hl) as [A B]. apply IH; assumption. }
  apply G; [reflexivity|]. unfold dl_zlen. cbn. lia.
Qed.

(** ledger: received = held + discarded (expired, pushed out, cleared) + taken out by pop *)
Fixpoint dl_taken (d : dlq) (ops : list dlop) : Z :=
  match ops with
  | [] => 0
  | o :: r => (match o with
               | DAdd _ _ => 0
               | DPop => match d_msgs d with [] => 0 | _ => 1 end
               | DClear => 0
               end) + dl_taken (fst (dl_step d o)) r
  end.

Theorem dlq_accounting : forall ops d,
  d_recv d = dl_zlen (d_msgs d) + d_disc d ->
  let d' := dl_run d ops in d_recv d' = dl_zlen (d_msgs d') + d_disc d' + dl_taken d ops.
Proof.
  induction ops as [|o ops IH]; intros d H; cbn [dl_run dl_taken]; [lia|].
  assert (H1 : d_recv (fst (dl_step d o)) = dl_zlen (d_msgs (fst (dl_step d o))) + d_disc (fst (dl_step d o))
               + match o with DAdd _ _ => 0 | DPop => match d_msgs d with [] => 0 | _ => 1 end | DClear => 0 end).
  { destruct o as [now m| |]; cbn [dl_step fst].
    - unfold dl_add. cbn [d_recv d_msgs d_disc].
      set (l1 := match d_ret d with None => d_msgs d | Some r => dl_sweep now r (d_msgs d) end).
      rewrite dl_zlen_app. change (dl_zlen [(m, now)]) with 1.
      destruct (dl_full (d_cap d) l1 && negb match l1 with [] => true | _ => false end) eqn:E.
      + destruct l1 as [|x l1']; [rewrite Bool.andb_false_r in E; discriminate|]. cbn [tl]. unfold dl_zlen in *. cbn [length]. lia.
      + lia.
    - destruct (d_msgs d) as [|[m t] r] eqn:E; cbn [fst d_recv d_msgs d_disc]; [rewrite E; unfold dl_zlen in *; cbn in *; lia|].
      unfold dl_zlen in *. cbn [length] in H. lia.
    - cbn [d_recv d_msgs d_disc]. unfold dl_zlen in *. cbn [length]. lia. }
  (* thread the ledger through the rest of the run *)
  set (d1 := fst (dl_step d o)) in *.
  set (k := match o with DAdd _ _ => 0 | DPop => match d_msgs d with [] => 0 | _ => 1 end | DClear => 0 end) in *.
  assert (G : forall ops d k, d_recv d = dl_zlen (d_msgs d) + d_disc d + k ->
             d_recv (dl_run d ops) = dl_zlen (d_msgs (dl_run d ops)) + d_disc (dl_run d ops) + k + dl_taken d ops).
  { clear. induction ops as [|o ops IH]; intros d k H; cbn [dl_run dl_taken]; [lia|].
    set (kk := match o with DAdd _ _ => 0 | DPop => match d_msgs d with [] => 0 | _ => 1 end | DClear => 0 end).
    rewrite (IH (fst (dl_step d o)) (k + kk)); [lia|].
    destruct o as [now m| |]; cbn [dl_step fst]; unfold kk.
    - unfold dl_add. cbn [d_recv d_msgs d_disc].
      set (l1 := match d_ret d with None => d_msgs d | Some r => dl_sweep now r (d_msgs d) end).
      rewrite dl_zlen_app. change (dl_zlen [(m, now)]) with 1.
      destruct (dl_full (d_cap d) l1 && negb match l1 with [] => true | _ => false end) eqn:E.
      + destruct l1 as [|x l1']; [rewrite Bool.andb_false_r in E; discriminate|]. cbn [tl]. unfold dl_zlen in *. cbn [length]. lia.
      + lia.
    - destruct (d_msgs d) as [|[m t] r] eqn:E; cbn [fst d_recv d_msgs d_disc]; [rewrite E; unfold dl_zlen in *; cbn in *; lia|].
      unfold dl_zlen in *. cbn [length] in H. lia.
    - cbn [d_recv d_msgs d_disc]. unfold dl_zlen in *. cbn [length]. lia. }
  rewrite (G ops d1 k H1). lia.
Qed.

Example dlq_example :
  map fst (d_msgs (dl_run (MkDlq (Some 2) (Some 10) [] 0 0) [DAdd 1 100; DAdd 9 101; DAdd 12 102])) = [101; 102].
Proof. vm_compute. reflexivity. Qed.
