(** C19 — the three partition-assignment strategies give every partition to
    exactly one member (proofs over C19/StreamModel.v). *)
From HS Require Import Base.Prelude C19.Model C19.MQ C19.StreamModel.
Local Open Scope Z_scope.

Definition keys (m : assignment) : list Z := map fst m.
(** Number of occurrences of partition [x] over all members' lists. *)
Definition tot (x : Z) (m : assignment) : Z := cnt x (concat (map snd m)).

Lemma tot_cons x k l m : tot x ((k, l) :: m) = cnt x l + tot x m.
Proof. unfold tot. cbn. apply cnt_app. Qed.

Lemma tot_nonneg x m : 0 <= tot x m.
Proof. apply cnt_nonneg. Qed.

(* ---- sorting *)
Lemma cnt_zinsert x y l : cnt x (zinsert y l) = (if x =? y then 1 else 0) + cnt x l.
Proof.
  induction l as [|z r IH]; [reflexivity|]. cbn. destruct (y <=? z); cbn; [reflexivity|]. rewrite IH. lia.
Qed.

Lemma cnt_zsort x l : cnt x (zsort l) = cnt x l.
Proof. unfold zsort. induction l as [|y r IH]; [reflexivity|]. cbn [fold_right cnt]. rewrite cnt_zinsert, IH. reflexivity. Qed.

Lemma In_zsort x l : In x (zsort l) <-> In x l.
Proof. rewrite <- !cnt_In, cnt_zsort. tauto. Qed.

Lemma NoDup_cnt l : NoDup l <-> forall x, cnt x l <= 1.
Proof.
  induction l as [|y r IH]; cbn.
  - split; [intros _ x; lia|constructor].
  - split.
    + intros N x. inversion N as [|? ? NI ND]; subst. pose proof (proj1 IH ND x).
      destruct (Z.eqb_spec x y); [subst|lia].
      assert (cnt y r = 0); [|lia]. destruct (mem y r) eqn:E; [apply mem_In in E; contradiction|apply mem_false_cnt; exact E].
    + intros H. constructor.
      * intros HI. apply cnt_In in HI. specialize (H y). rewrite Z.eqb_refl in H. lia.
      * apply IH. intros x. specialize (H x). pose proof (cnt_nonneg x r). destruct (x =? y); lia.
Qed.

Lemma NoDup_zsort l : NoDup l -> NoDup (zsort l).
Proof. rewrite !NoDup_cnt. intros H x. rewrite cnt_zsort. apply H. Qed.

Lemma zsort_nil l : zsort l = [] -> l = [].
Proof.
  destruct l as [|y r]; [reflexivity|]. intros H. exfalso.
  assert (In y (zsort (y :: r))) by (apply In_zsort; left; reflexivity). rewrite H in H0. exact H0.
Qed.

(* ---- the partition list range(n) *)
Lemma cnt_zseq x : forall n s, cnt x (zseq s n) = if (s <=? x) && (x <? s + Z.of_nat n) then 1 else 0.
Proof.
  induction n as [|n IH]; intros s; cbn [zseq cnt].
  - destruct (s <=? x) eqn:E1, (x <? s + Z.of_nat 0) eqn:E2; cbn; lia.
  - rewrite IH. destruct (Z.eqb_spec x s).
    + subst. replace (s + 1 <=? s) with false by lia. replace (s <=? s) with true by lia.
      replace (s <? s + Z.of_nat (S n)) with true by lia. reflexivity.
    + destruct (s + 1 <=? x) eqn:E1, (x <? s + 1 + Z.of_nat n) eqn:E2,
               (s <=? x) eqn:E3, (x <? s + Z.of_nat (S n)) eqn:E4; cbn; lia.
Qed.

Lemma cnt_zrange x n : 0 <= n -> cnt x (zrange n) = if (0 <=? x) && (x <? n) then 1 else 0.
Proof. intros H. unfold zrange. rewrite cnt_zseq. rewrite Z2Nat.id by lia. reflexivity. Qed.

(* ------------------------------------------------------------------ *)
(** * RangeAssignment *)

Lemma zlen_skipn {A} n (l : list A) : (n <= length l)%nat -> zlen (skipn n l) = zlen l - Z.of_nat n.
Proof. intros H. unfold zlen. rewrite skipn_length. lia. Qed.

Lemma range_go_concat names : forall parts base rem i,
  0 <= base -> zlen parts = zlen names * base + Z.max 0 (rem - i) -> rem - i <= zlen names ->
  concat (map snd (range_go parts base rem i names)) = parts /\ keys (range_go parts base rem i names) = names.
Proof.
  induction names as [|nm r IH]; intros parts base rem i HB HL HR; cbn [range_go map concat keys].
  - split; [|reflexivity]. unfold zlen in *. cbn in *. destruct parts; [reflexivity|]. cbn in HL. lia.
  - set (count := Z.to_nat (base + (if i <? rem then 1 else 0))).
    assert (HC : Z.of_nat count = base + (if i <? rem then 1 else 0)) by (unfold count; destruct (i <? rem); lia).
    assert (LE : (count <= length parts)%nat).
    { unfold zlen in HL. cbn [length] in HL. destruct (i <? rem) eqn:E; nia. }
    destruct (IH (skipn count parts) base rem (i + 1) HB) as [E1 E2].
    + rewrite zlen_skipn by exact LE. unfold zlen in *. cbn [length] in HL. destruct (i <? rem) eqn:E; nia.
    + unfold zlen in *. cbn [length] in HR. lia.
    + cbn. unfold keys in E2. rewrite E1, E2, firstn_skipn. split; reflexivity.
Qed.

Lemma assign_range_spec parts names : names <> [] ->
  concat (map snd (assign_range parts names)) = parts /\ keys (assign_range parts names) = names.
Proof.
  intros NE. unfold assign_range. destruct names as [|nm r] eqn:E; [contradiction|]. rewrite <- E in *.
  assert (0 < zlen names) by (subst names; unfold zlen; cbn; lia).
  pose proof (Z.mod_pos_bound (zlen parts) (zlen names) H).
  apply range_go_concat.
  - apply Z.div_pos; [unfold zlen|]; lia.
  - rewrite Z.max_r by lia. pose proof (Z.div_mod (zlen parts) (zlen names)). lia.
  - lia.
Qed.

(* ------------------------------------------------------------------ *)
(** * Appending a partition to a member's list *)

Lemma keys_add_to k p m : keys (add_to k p m) = keys m.
Proof.
  induction m as [|[k' l] r IH]; [reflexivity|]. cbn. destruct (k =? k'); cbn; [reflexivity|].
  unfold keys in IH. rewrite IH. reflexivity.
Qed.

Lemma tot_add_to x k p m : In k (keys m) -> tot x (add_to k p m) = tot x m + (if x =? p then 1 else 0).
Proof.
  induction m as [|[k' l] r IH]; [intros []|]. cbn [keys map fst add_to]. intros HI.
  destruct (Z.eqb_spec k k').
  - rewrite !tot_cons, cnt_app. cbn. lia.
  - rewrite !tot_cons. rewrite IH; [lia|]. destruct HI as [E|HI]; [congruence|exact HI].
Qed.

(* ------------------------------------------------------------------ *)
(** * RoundRobinAssignment *)

Lemma rr_go_spec x parts : forall i names m,
  names <> [] -> keys m = names ->
  tot x (rr_go parts i names m) = tot x m + cnt x parts /\ keys (rr_go parts i names m) = names.
Proof.
  induction parts as [|p r IH]; intros i names m NE HK; cbn [rr_go cnt].
  - split; [lia|exact HK].
  - destruct (IH (i + 1) names (add_to (nth_mod names i) p m) NE) as [E1 E2].
    + rewrite keys_add_to. exact HK.
    + rewrite E1, tot_add_to; [split; [lia|exact E2]|]. rewrite HK. apply nth_mod_In. exact NE.
Qed.

Lemma tot_empty x names : tot x (map (fun nm : Z => (nm, @nil Z)) names) = 0.
Proof. induction names as [|nm r IH]; [reflexivity|]. cbn [map]. rewrite tot_cons, IH. reflexivity. Qed.

Lemma keys_empty names : keys (map (fun nm : Z => (nm, @nil Z)) names) = names.
Proof. unfold keys. rewrite map_map. cbn. apply map_id. Qed.

Lemma assign_rr_spec x parts names : names <> [] ->
  tot x (assign_rr parts names) = cnt x parts /\ keys (assign_rr parts names) = names.
Proof.
  intros NE. unfold assign_rr. destruct names as [|nm r] eqn:E; [contradiction|]. rewrite <- E in *.
  destruct (rr_go_spec x parts 0 names (map (fun nm => (nm, [])) names) NE (keys_empty names)) as [E1 E2].
  rewrite E1, tot_empty. split; [lia|exact E2].
Qed.

(* ------------------------------------------------------------------ *)
(** * StickyAssignment *)

Lemma least_loaded_In m : forall best bl, In (least_loaded m best bl) (best :: keys m).
Proof.
  induction m as [|[k l] r IH]; intros best bl; cbn [least_loaded keys map fst]; [left; reflexivity|].
  destruct (zlen l <? bl).
  - destruct (IH k (zlen l)) as [E|HI]; [right; left; exact E|right; right; exact HI].
  - destruct (IH best bl) as [E|HI]; [left; exact E|right; right; exact HI].
Qed.

Lemma pick_target_In m : m <> [] -> In (pick_target m) (keys m).
Proof. destruct m as [|[k l] r]; [contradiction|]. intros _. cbn [pick_target]. apply least_loaded_In. Qed.

Lemma sticky_fill_spec x un : forall m, m <> [] ->
  tot x (sticky_fill un m) = tot x m + cnt x un /\ keys (sticky_fill un m) = keys m.
Proof.
  induction un as [|p r IH]; intros m NE; cbn [sticky_fill cnt]; [split; [lia|reflexivity]|].
  assert (NE' : add_to (pick_target m) p m <> []).
  { intros E. apply (f_equal keys) in E. rewrite keys_add_to in E. destruct m; [contradiction|discriminate]. }
  destruct (IH _ NE') as [E1 E2]. rewrite E1, E2, keys_add_to, tot_add_to by (apply pick_target_In; exact NE).
  split; [lia|reflexivity].
Qed.

Definition kept_of (prev : assignment) (parts names : list Z) : assignment :=
  map (fun nm => (nm, match lookup nm prev with
                      | Some l => filter (fun p => mem p parts) l
                      | None => [] end)) names.

Lemma cnt_filter_le x f l : cnt x (filter f l) <= cnt x l.
Proof. induction l as [|y r IH]; cbn; [lia|]. destruct (f y); cbn; destruct (x =? y); lia. Qed.

Lemma cnt_filter_mem x parts l : mem x parts = false -> cnt x (filter (fun p => mem p parts) l) = 0.
Proof.
  intros H. induction l as [|y r IH]; [reflexivity|]. cbn. destruct (mem y parts) eqn:E; [|exact IH].
  cbn. destruct (Z.eqb_spec x y); [subst; congruence|exact IH].
Qed.

Lemma kept_cons prev parts nm q :
  kept_of prev parts (nm :: q) =
  (nm, match lookup nm prev with Some l => filter (fun p => mem p parts) l | None => [] end) :: kept_of prev parts q.
Proof. reflexivity. Qed.

(** Distinct names select distinct entries of [prev]: the kept lists together
    contain a partition at most as often as [prev] does. *)
Lemma tot_kept_le x parts prev : forall names, NoDup names -> tot x (kept_of prev parts names) <= tot x prev.
Proof.
  induction prev as [|[k l] r IH]; intros names ND.
  - unfold kept_of. cbn [lookup]. rewrite tot_empty. cbn. lia.
  - (* split the names into k (at most once) and the others *)
    rewrite tot_cons.
    assert (G : forall names, NoDup names ->
              tot x (kept_of ((k, l) :: r) parts names) <=
              (if mem k names then cnt x l else 0) + tot x (kept_of r parts names)).
    { clear ND names. induction names as [|nm q IHq]; intros ND; [cbn; lia|].
      inversion ND as [|? ? NI ND']; subst. specialize (IHq ND').
      rewrite !kept_cons, !tot_cons. cbn [lookup mem].
      destruct (Z.eqb_spec nm k).
      - subst nm. rewrite Z.eqb_refl.
        destruct (mem k q) eqn:E; [apply mem_In in E; contradiction|].
        pose proof (cnt_filter_le x (fun p => mem p parts) l).
        pose proof (cnt_nonneg x (match lookup k r with Some l0 => filter (fun p => mem p parts) l0 | None => [] end)).
        lia.
      - replace (k =? nm) with false by lia. lia. }
    specialize (G names ND). specialize (IH names ND). pose proof (cnt_nonneg x l).
    destruct (mem k names); lia.
Qed.

Lemma kept_keys prev parts names : keys (kept_of prev parts names) = names.
Proof. unfold keys, kept_of. rewrite map_map. cbn. apply map_id. Qed.

Lemma tot_kept_outside x prev parts names : mem x parts = false -> tot x (kept_of prev parts names) = 0.
Proof.
  intros H. induction names as [|nm q IH]; [reflexivity|]. unfold kept_of in *. cbn [map]. rewrite tot_cons, IH.
  destruct (lookup nm prev); [rewrite cnt_filter_mem by exact H|]; reflexivity.
Qed.

Lemma tot_map_zsort x m : tot x (map (fun e : Z * list Z => (fst e, zsort (snd e))) m) = tot x m.
Proof. induction m as [|[k l] r IH]; [reflexivity|]. cbn [map fst snd]. rewrite !tot_cons, IH, cnt_zsort. reflexivity. Qed.

Lemma keys_map_zsort m : keys (map (fun e : Z * list Z => (fst e, zsort (snd e))) m) = keys m.
Proof. unfold keys. rewrite map_map. reflexivity. Qed.

Lemma cnt_filter_negmem x l parts :
  cnt x (filter (fun p => negb (mem p l)) parts) = if mem x l then 0 else cnt x parts.
Proof.
  induction parts as [|y r IH]; cbn; [destruct (mem x l); reflexivity|].
  destruct (mem y l) eqn:E; cbn.
  - rewrite IH. destruct (Z.eqb_spec x y); [subst; rewrite E; reflexivity|]. destruct (mem x l); lia.
  - rewrite IH. destruct (Z.eqb_spec x y); [subst; rewrite E; reflexivity|]. destruct (mem x l); lia.
Qed.

Lemma assign_sticky_spec x prev parts names :
  names <> [] -> NoDup names -> NoDup parts -> tot x prev <= 1 ->
  tot x (assign_sticky prev parts names) = cnt x parts /\ keys (assign_sticky prev parts names) = names.
Proof.
  intros NE NDn NDp HP. unfold assign_sticky. destruct names as [|nm0 r0] eqn:E; [contradiction|]. rewrite <- E in *.
  fold (kept_of prev parts names).
  assert (KNE : kept_of prev parts names <> []) by (rewrite E; discriminate).
  destruct (sticky_fill_spec x (filter (fun p => negb (mem p (concat (map snd (kept_of prev parts names))))) parts)
              (kept_of prev parts names) KNE) as [E1 E2].
  rewrite tot_map_zsort, keys_map_zsort, E1, E2, kept_keys. split; [|reflexivity].
  rewrite cnt_filter_negmem. pose proof (tot_kept_le x parts prev names NDn) as LE.
  pose proof (tot_nonneg x (kept_of prev parts names)) as NN. unfold tot in *.
  pose proof (proj1 (NoDup_cnt parts) NDp x) as P1. pose proof (cnt_nonneg x parts).
  destruct (mem x (concat (map snd (kept_of prev parts names)))) eqn:EM.
  - apply mem_true_cnt in EM.
    destruct (mem x parts) eqn:EP.
    + apply mem_true_cnt in EP. lia.
    + pose proof (tot_kept_outside x prev parts names EP) as Z0. unfold tot in Z0. lia.
  - apply mem_false_cnt in EM. lia.
Qed.
