(** Property C19 — the theorems the check counts as obligations.  Nothing but
    statements closed by [exact] and [Print Assumptions]. *)
From HS Require Import Base.Prelude C19.Model C19.MQ C19.MQOrder C19.TopicModel C19.Topic C19.StreamModel C19.Assign C19.Stream C19.OutboxModel C19.Outbox C19.DlqModel C19.Dlq.
From Coq Require Import Sorting.Sorted.
Local Open Scope Z_scope.

(** MessageQueue, every operation sequence: each published message occurs
    exactly once across pending / in flight / acknowledged / dead-letter queue /
    pushed out of a full dead-letter queue / rejected for good without a DLQ /
    taken out of the DLQ by reprocess_all (the loss of c19_mq_never_lost_refuted);
    ids never published occur nowhere. *)
Theorem c19_mq_accounting : forall cfg ops id,
  let s := run cfg ops in
  cnt id (q_pending s) + cnt id (q_inflight s) + cnt id (g_acked s) + cnt id (q_dead s)
    + cnt id (g_dlqlost s) + cnt id (g_dropped s) + cnt id (g_reproc s) = published s id.
Proof. exact mq_accounting. Qed.
Print Assumptions c19_mq_accounting.

(** "Never lost" over every operation of the package, DLQ reprocessing
    included: REFUTED on the faithful model (known finding
    C19-dlq-reprocess-ignored); PARTIAL: it holds for all publish / poll / ack /
    reject / timeout / subscribe sequences. *)
Theorem c19_mq_never_lost_refuted : ~ never_lost_statement.
Proof. exact mq_never_lost_refuted. Qed.
Print Assumptions c19_mq_never_lost_refuted.

Theorem c19_mq_never_lost_partial : forall cfg ops id,
  Forall (fun o => o <> DlqReprocessAll) ops ->
  let s := run cfg ops in
  cnt id (q_pending s) + cnt id (q_inflight s) + cnt id (g_acked s) + cnt id (q_dead s)
    + cnt id (g_dlqlost s) + cnt id (g_dropped s) = published s id.
Proof. exact mq_never_lost_partial. Qed.
Print Assumptions c19_mq_never_lost_partial.

Theorem c19_mq_stored_split : forall cfg ops id,
  let s := run cfg ops in
  cnt id (q_msgs s) = cnt id (q_pending s) + cnt id (q_inflight s) /\ cnt id (q_msgs s) <= published s id.
Proof. exact mq_stored_split. Qed.
Print Assumptions c19_mq_stored_split.

Theorem c19_mq_no_delivery_after_ack : forall cfg ops1 mid ops2,
  0 <= mid < q_next (run cfg ops1) ->
  forall x, In x (outputs cfg (run cfg (ops1 ++ [Ack mid])) ops2) -> ~ is_delivery_of mid x.
Proof. exact mq_no_delivery_after_ack. Qed.
Print Assumptions c19_mq_no_delivery_after_ack.

Theorem c19_mq_no_delivery_once_gone : forall cfg ops1 mid ops2,
  let s := run cfg ops1 in
  0 <= mid < q_next s -> ~ In mid (q_msgs s) ->
  forall x, In x (outputs cfg s ops2) -> ~ is_delivery_of mid x.
Proof. exact mq_no_delivery_once_gone. Qed.
Print Assumptions c19_mq_no_delivery_once_gone.

Theorem c19_mq_redelivery_limit : forall cfg ops mid rq now,
  let s := run cfg ops in
  In mid (q_msgs s) -> c_max cfg <= m_count (q_obj s mid) ->
  (let s' := fst (step cfg s (Reject mid rq)) in
   ~ In mid (q_msgs s') /\ ~ In mid (q_pending s') /\ ~ In mid (q_inflight s') /\
   (c_dlq cfg = true -> exists d, q_dead s' = d ++ [mid]) /\ (c_dlq cfg = false -> In mid (g_dropped s')))
  /\
  (In mid (q_inflight s) -> ~ In mid (q_resched s) ->
   step cfg s (Sched mid now) = (fst (step cfg s (Reject mid false)), [ONone])).
Proof. exact mq_redelivery_limit. Qed.
Print Assumptions c19_mq_redelivery_limit.

Theorem c19_mq_poll_delivers_head : forall cfg ops h m r,
  let s := run cfg ops in
  q_pending s = m :: r -> q_cons s <> [] ->
  let c := nth_mod (q_cons s) (q_cidx s) in
  let s' := fst (step cfg s (PollBegin h)) in
  snd (step cfg s (PollBegin h)) = [OSuspend] /\ In c (q_cons s) /\
  lookup h (q_susp s') = Some (m, c) /\ In m (q_inflight s') /\
  m_count (q_obj s' m) = m_count (q_obj s m) + 1.
Proof. exact mq_poll_delivers_head. Qed.
Print Assumptions c19_mq_poll_delivers_head.

Theorem c19_mq_timeout_requests_redelivery : forall cfg s mid now,
  In mid (q_inflight s) -> ~ In mid (q_resched s) -> m_count (q_obj s mid) < c_max cfg ->
  let s' := fst (step cfg s (Sched mid now)) in
  snd (step cfg s (Sched mid now)) = [ORedelivery mid (now + c_delay cfg)] /\
  q_pending s' = mid :: q_pending s /\ ~ In mid (q_inflight s') /\ q_msgs s' = q_msgs s.
Proof. exact mq_timeout_requests_redelivery. Qed.
Print Assumptions c19_mq_timeout_requests_redelivery.

Theorem c19_mq_redelivery_starts : forall cfg s h mid,
  In mid (q_msgs s) -> q_cons s <> [] ->
  let c := nth_mod (q_cons s) (q_cidx s) in
  let s' := fst (step cfg s (RedeliverBegin h mid)) in
  snd (step cfg s (RedeliverBegin h mid)) = [OSuspend] /\ In c (q_cons s) /\
  lookup h (q_susp s') = Some (mid, c) /\ In mid (q_inflight s') /\ ~ In mid (q_resched s').
Proof. exact mq_redelivery_starts. Qed.
Print Assumptions c19_mq_redelivery_starts.

Theorem c19_mq_delivery_reaches_consumer : forall cfg s h mid c ops now,
  lookup h (q_susp s) = Some (mid, c) ->
  Forall (fun o => handle_of o <> Some h) ops ->
  let s' := fst (run_from cfg s ops) in
  snd (step cfg s' (DeliverEnd h now)) =
    if mem mid (q_msgs s') then [ODelivery c mid (m_count (q_obj s' mid)) now] else [ONone].
Proof. exact mq_delivery_reaches_consumer. Qed.
Print Assumptions c19_mq_delivery_reaches_consumer.

(** First deliveries follow publish order (ids are publish indices), for every
    operation sequence in which rejects and redelivery events concern only
    messages that were delivered before ([wf_ops]; satisfiable:
    MQOrder.mq_order_example; necessary: MQOrder.mq_order_needs_wf). *)
Theorem c19_mq_first_deliveries_in_publish_order : forall cfg ops,
  wf_ops cfg mq_init ops -> StronglySorted Z.lt (g_first (run cfg ops)).
Proof. exact mq_first_deliveries_in_publish_order. Qed.
Print Assumptions c19_mq_first_deliveries_in_publish_order.

(** Topic: publish() snapshots exactly the subscribers active at publish time,
    without duplicates. *)
Theorem c19_topic_publish_snapshot : forall mx ops h mid,
  let s := trun mx ops in
  let act := actives (t_subs s) in
  NoDup act /\
  (forall c, In c act <-> exists x, In x (t_subs s) /\ ts_id x = c /\ ts_active x = true) /\
  (act <> [] -> snd (tstep mx s (TPublishBegin h mid)) = [TSuspend] /\
                lookup h (t_frames (fst (tstep mx s (TPublishBegin h mid)))) = Some (mid, act, 0)) /\
  (act = [] -> snd (tstep mx s (TPublishBegin h mid)) = []).
Proof. exact topic_publish_snapshot. Qed.
Print Assumptions c19_topic_publish_snapshot.

(** Topic: whatever else happens meanwhile, a running publish ends with exactly
    one delivery per subscriber of its snapshot, stamped with the clock at that
    moment (not the publish-time clock). *)
Theorem c19_topic_exactly_once : forall mx s h mid act i ops now,
  lookup h (t_frames s) = Some (mid, act, i) ->
  Forall (fun o => thandle o <> Some h) ops ->
  let s' := fst (trun_from mx s ops) in
  let r := tstep mx s' (TPublishResume h now) in
  (i + 1 <? zlen act = true -> snd r = [TSuspend] /\ lookup h (t_frames (fst r)) = Some (mid, act, i + 1)) /\
  (i + 1 <? zlen act = false -> snd r = map (fun c => TDelivery c mid now) act /\ lookup h (t_frames (fst r)) = None).
Proof. exact topic_exactly_once. Qed.
Print Assumptions c19_topic_exactly_once.

Theorem c19_topic_publish_sync : forall mx ops mid now,
  let s := trun mx ops in
  snd (tstep mx s (TPublishSync mid now)) = map (fun c => TDelivery c mid now) (actives (t_subs s)) /\
  NoDup (actives (t_subs s)).
Proof. exact topic_publish_sync. Qed.
Print Assumptions c19_topic_publish_sync.

(** Event log: offsets within a partition are gap-free and increasing
    (no / size / time retention; clock readings non-decreasing, satisfiable:
    Stream.mono_example). *)
Theorem c19_log_offsets_gap_free : forall cfg n ops t0 i p,
  (0 < n)%nat -> mono_from t0 ops ->
  nth_error (l_parts (fst (srun cfg n ops))) i = Some p ->
  map r_off (p_recs p) = zseq (p_hw p - zlen (p_recs p)) (length (p_recs p)) /\ 0 <= p_hw p - zlen (p_recs p).
Proof. exact log_offsets_gap_free. Qed.
Print Assumptions c19_log_offsets_gap_free.

(** Event log: a key always maps to the same partition (any digest function). *)
Theorem c19_log_key_partition_stable : forall cfg n ops i p r,
  (0 < n)%nat ->
  nth_error (l_parts (fst (srun cfg n ops))) i = Some p -> In r (p_recs p) ->
  r_part r = Z.of_nat i /\ r_part r = s_digest cfg (r_key r) mod Z.of_nat n.
Proof. exact log_key_partition_stable. Qed.
Print Assumptions c19_log_key_partition_stable.

Theorem c19_log_same_key_same_partition : forall cfg n ops i1 p1 r1 i2 p2 r2,
  (0 < n)%nat ->
  nth_error (l_parts (fst (srun cfg n ops))) i1 = Some p1 -> In r1 (p_recs p1) ->
  nth_error (l_parts (fst (srun cfg n ops))) i2 = Some p2 -> In r2 (p_recs p2) ->
  r_key r1 = r_key r2 -> i1 = i2.
Proof. exact log_same_key_same_partition. Qed.
Print Assumptions c19_log_same_key_same_partition.

(** Consumer group: after every rebalance each partition belongs to exactly one
    member (Range, RoundRobin, Sticky; all join/leave orders and histories). *)
Theorem c19_group_rebalance_one_owner : forall cfg n ops o,
  o = GLeaveEnd \/ (exists c, o = GJoinEnd c) ->
  let g' := snd (fst (sstep cfg (srun cfg n ops) o)) in
  g_cons g' <> [] -> owners_ok (Z.of_nat n) g'.
Proof. exact group_rebalance_one_owner. Qed.
Print Assumptions c19_group_rebalance_one_owner.

(** Committed offsets never move backwards: REFUTED on the faithful model
    (known finding C19-commit-moves-backwards), with the partial statement that
    does hold. *)
Theorem c19_group_committed_monotone_refuted : ~ committed_monotone_statement.
Proof. exact group_committed_monotone_refuted. Qed.
Print Assumptions c19_group_committed_monotone_refuted.

Theorem c19_group_committed_monotone_partial : forall cfg st o c pid,
  (forall offs, o = GCommit c offs -> forall v, In (pid, v) offs -> coff (snd st) c pid <= v) ->
  coff (snd st) c pid <= coff (snd (fst (sstep cfg st o))) c pid.
Proof. exact group_committed_monotone_partial. Qed.
Print Assumptions c19_group_committed_monotone_partial.

(** Outbox relay: written entries are never lost (marked relayed implies the
    relay event was returned to the engine, or a suspended poll still holds it),
    for all interleavings of writes, primes and overlapping poll cycles in which
    every poll generator has its own handle (satisfiable: Outbox.outbox_wf_example). *)
Theorem c19_outbox_no_loss : forall cfg ops,
  owf_ops cfg outbox_init ops -> noloss (orun cfg ops).
Proof. exact outbox_no_loss. Qed.
Print Assumptions c19_outbox_no_loss.

(** Outbox relay: a suspended poll returns one relay event per processed entry,
    stamped with the clock at the moment it returns. *)
Theorem c19_outbox_poll_completes : forall cfg s h rest d ops now,
  lookup h (ob_frames s) = Some (rest, d) ->
  Forall (fun o => ohandle o <> Some h) ops ->
  let s' := fst (orun_from cfg s ops) in
  let r := ostep cfg s' (OPollResume h now) in
  match rest with
  | [] => (forall id, In id d -> In (ORelay id now) (snd r)) /\
          (forall id t, In (ORelay id t) (snd r) -> In id d /\ t = now) /\
          lookup h (ob_frames (fst r)) = None
  | id :: rest' => snd r = [OYield] /\ lookup h (ob_frames (fst r)) = Some (rest', d ++ [id]) /\
                   flag (fst r) id = Nat.ltb (Z.to_nat (id - 1)) (length (ob_flags s'))
  end.
Proof. exact outbox_poll_completes. Qed.
Print Assumptions c19_outbox_poll_completes.

(* ---------------- DeadLetterQueue driven directly (capacity AND retention period) ---------------- *)

(** What a dead-lettered message can be lost to: one [add_message] removes exactly a prefix of
    messages that have outlived the retention period, and then AT MOST ONE more — the oldest
    survivor, and only if the survivors already fill the capacity (the sweep stopped at a message
    still within its retention period).  So a message within its retention period is never dropped
    while the DLQ has room.  Every DLQ state, capacity, retention period, instant. *)
Theorem c19_dlq_add_loses_only_expired_or_when_full : forall d now m,
  exists j,
    Forall (fun mt => match d_ret d with Some r => now - snd mt > r | None => False end) (firstn j (d_msgs d))
    /\ ((dl_full (d_cap d) (skipn j (d_msgs d)) = false /\ d_msgs (dl_add d now m) = skipn j (d_msgs d) ++ [(m, now)])
        \/ (skipn j (d_msgs d) = [] /\ d_msgs (dl_add d now m) = [(m, now)])
        \/ (dl_full (d_cap d) (skipn j (d_msgs d)) = true /\ d_msgs (dl_add d now m) = skipn (S j) (d_msgs d) ++ [(m, now)]))
    /\ match skipn j (d_msgs d), d_ret d with (_, t) :: _, Some r => now - t <= r | _, _ => True end.
Proof. exact dlq_add_loses_only_expired_or_when_full. Qed.
Print Assumptions c19_dlq_add_loses_only_expired_or_when_full.

(** A DLQ with capacity c >= 1 never holds more than c messages (every sequence of add / pop / clear). *)
Theorem c19_dlq_capacity : forall ops c ret, 1 <= c ->
  dl_zlen (d_msgs (dl_run (MkDlq (Some c) ret [] 0 0) ops)) <= c.
Proof. exact dlq_capacity. Qed.
Print Assumptions c19_dlq_capacity.

(** Every dead-lettered message stays accounted for: received = held + discarded (expired, pushed
    out or cleared) + taken out by pop, after every sequence of operations. *)
Theorem c19_dlq_accounting : forall ops d,
  d_recv d = dl_zlen (d_msgs d) + d_disc d ->
  let d' := dl_run d ops in d_recv d' = dl_zlen (d_msgs d') + d_disc d' + dl_taken d ops.
Proof. exact dlq_accounting. Qed.
Print Assumptions c19_dlq_accounting.
