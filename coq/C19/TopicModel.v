(** C19 — executable model of happysimulator/components/messaging/topic.py
    (Topic.subscribe / unsubscribe / publish / publish_sync), message retention
    off (the default).  No proofs here.

    publish() is a generator with one latency yield per subscriber that was
    active when it started; the model keeps one frame per running publish:
    (message, snapshot of the active subscriptions, number of yields done).
    The delivery events are built when the generator returns and are stamped
    with the clock at that moment (repair 2fd4abd; before it they carried the
    publish-time clock and were discarded by the engine). *)
From HS Require Import Base.Prelude C19.Model.
Local Open Scope Z_scope.

Record tsub := { ts_id : Z; ts_active : bool; ts_recv : Z }.

Record topic := {
  t_subs : list tsub;                       (* _subscriptions, insertion order *)
  t_frames : list (Z * (Z * list Z * Z));   (* handle -> (message, active subscribers at publish, yields done) *)
  t_pub : Z; t_dlv : Z; t_added : Z; t_removed : Z;
}.

Definition topic_init : topic :=
  {| t_subs := []; t_frames := []; t_pub := 0; t_dlv := 0; t_added := 0; t_removed := 0 |}.

Inductive top :=
| TSubscribe (c : Z)
| TUnsubscribe (c : Z)
| TPublishBegin (h mid : Z)
| TPublishResume (h now : Z)
| TPublishSync (mid now : Z).

Inductive tout :=
| TFull                        (* RuntimeError: at max subscribers *)
| TSuspend                     (* yielded the delivery latency *)
| TDelivery (c mid time : Z).  (* topic_message event *)

Definition actives (subs : list tsub) : list Z :=
  map ts_id (filter ts_active subs).

Fixpoint has_sub (c : Z) (subs : list tsub) : bool :=
  match subs with [] => false | x :: r => if Z.eqb c (ts_id x) then true else has_sub c r end.

Fixpoint set_active (c : Z) (b : bool) (subs : list tsub) : list tsub :=
  match subs with
  | [] => []
  | x :: r => if Z.eqb c (ts_id x) then {| ts_id := ts_id x; ts_active := b; ts_recv := ts_recv x |} :: r
              else x :: set_active c b r
  end.

Fixpoint bump_recv (c : Z) (subs : list tsub) : list tsub :=
  match subs with
  | [] => []
  | x :: r => if Z.eqb c (ts_id x) then {| ts_id := ts_id x; ts_active := ts_active x; ts_recv := ts_recv x + 1 |} :: r
              else x :: bump_recv c r
  end.

Definition tstep (maxsubs : option Z) (s : topic) (o : top) : topic * list tout :=
  match o with
  | TSubscribe c =>
      if match maxsubs with None => false | Some m => m <=? zlen (actives (t_subs s)) end then (s, [TFull]) else
      if has_sub c (t_subs s) then
        ({| t_subs := set_active c true (t_subs s); t_frames := t_frames s; t_pub := t_pub s; t_dlv := t_dlv s;
            t_added := t_added s; t_removed := t_removed s |}, [])
      else
        ({| t_subs := t_subs s ++ [{| ts_id := c; ts_active := true; ts_recv := 0 |}]; t_frames := t_frames s;
            t_pub := t_pub s; t_dlv := t_dlv s; t_added := t_added s + 1; t_removed := t_removed s |}, [])
  | TUnsubscribe c =>
      if has_sub c (t_subs s) then
        ({| t_subs := set_active c false (t_subs s); t_frames := t_frames s; t_pub := t_pub s; t_dlv := t_dlv s;
            t_added := t_added s; t_removed := t_removed s + 1 |}, [])
      else (s, [])
  | TPublishBegin h mid =>
      let act := actives (t_subs s) in
      match act with
      | [] => ({| t_subs := t_subs s; t_frames := t_frames s; t_pub := t_pub s + 1; t_dlv := t_dlv s;
                  t_added := t_added s; t_removed := t_removed s |}, [])
      | _ => ({| t_subs := t_subs s; t_frames := (h, (mid, act, 0)) :: t_frames s; t_pub := t_pub s + 1;
                 t_dlv := t_dlv s; t_added := t_added s; t_removed := t_removed s |}, [TSuspend])
      end
  | TPublishResume h now =>
      match lookup h (t_frames s) with
      | None => (s, [])
      | Some (mid, act, i) =>
          let c := nth (Z.to_nat i) act 0 in
          let subs := bump_recv c (t_subs s) in
          if i + 1 <? zlen act then
            ({| t_subs := subs; t_frames := (h, (mid, act, i + 1)) :: remkey h (t_frames s); t_pub := t_pub s;
                t_dlv := t_dlv s + 1; t_added := t_added s; t_removed := t_removed s |}, [TSuspend])
          else
            ({| t_subs := subs; t_frames := remkey h (t_frames s); t_pub := t_pub s;
                t_dlv := t_dlv s + 1; t_added := t_added s; t_removed := t_removed s |},
             map (fun c => TDelivery c mid now) act)
      end
  | TPublishSync mid now =>
      let act := actives (t_subs s) in
      ({| t_subs := fold_left (fun subs c => bump_recv c subs) act (t_subs s); t_frames := t_frames s;
          t_pub := t_pub s + 1; t_dlv := t_dlv s + zlen act; t_added := t_added s; t_removed := t_removed s |},
       map (fun c => TDelivery c mid now) act)
  end.

Fixpoint trun_from (mx : option Z) (s : topic) (ops : list top) : topic * list (list tout) :=
  match ops with
  | [] => (s, [])
  | o :: r =>
      let '(s1, o1) := tstep mx s o in
      let '(s2, outs) := trun_from mx s1 r in
      (s2, o1 :: outs)
  end.

Definition trun (mx : option Z) (ops : list top) : topic := fst (trun_from mx topic_init ops).

(* ---- correspondence *)
(** Snapshot: subscriptions (id, active, messages_received) in dict order and
    [published; delivered; added; removed]. *)
Definition tsnap : Type := list (Z * bool * Z) * list Z.

Definition tout_eqb (a b : tout) : bool :=
  match a, b with
  | TFull, TFull | TSuspend, TSuspend => true
  | TDelivery c m t, TDelivery c' m' t' => Z.eqb c c' && Z.eqb m m' && Z.eqb t t'
  | _, _ => false
  end.

Definition ok_tsnap (s : topic) (v : tsnap) : bool :=
  forallb2 (fun a b => let '(i, act, r) := b in Z.eqb (ts_id a) i && Bool.eqb (ts_active a) act && Z.eqb (ts_recv a) r)
    (t_subs s) (fst v)
  && list_eqb Z.eqb [t_pub s; t_dlv s; t_added s; t_removed s] (snd v).

Fixpoint ok_ttrace (mx : option Z) (s : topic) (tr : list (top * list tout * tsnap)) : bool :=
  match tr with
  | [] => true
  | (o, outs, v) :: r =>
      let '(s1, mo) := tstep mx s o in
      list_eqb tout_eqb mo outs && ok_tsnap s1 v && ok_ttrace mx s1 r
  end.

Definition ok_topic (c : option Z * list (top * list tout * tsnap)) : bool :=
  ok_ttrace (fst c) topic_init (snd c).
