(** C19 — proofs about the MessageQueue step machine of C19/Model.v. *)
From HS Require Import Base.Prelude C19.Model.
Local Open Scope Z_scope.

(* ------------------------------------------------------------------ *)
(** * Counting lemmas *)

Ltac sc := cbn -[Z.add Z.sub Z.ltb Z.leb Z.eqb firstn tl].


Lemma cnt_nonneg x l : 0 <= cnt x l.
Proof. induction l as [|y r IH]; sc; [lia|]. destruct (x =? y); lia. Qed.

Lemma cnt_app x a b : cnt x (a ++ b) = cnt x a + cnt x b.
Proof. induction a as [|y r IH]; sc; [lia|]. rewrite IH. lia. Qed.

Lemma mem_true_cnt x l : mem x l = true -> 1 <= cnt x l.
Proof.
  induction l as [|y r IH]; sc; [discriminate|].
  pose proof (cnt_nonneg x r). destruct (x =? y); [lia|]. intros H'. apply IH in H'. lia.
Qed.

Lemma mem_false_cnt x l : mem x l = false -> cnt x l = 0.
Proof.
  induction l as [|y r IH]; sc; [reflexivity|].
  destruct (x =? y); [discriminate|]. intros H'. apply IH in H'. lia.
Qed.

Lemma cnt_pos_mem x l : 1 <= cnt x l -> mem x l = true.
Proof. destruct (mem x l) eqn:E; [reflexivity|]. apply mem_false_cnt in E. lia. Qed.

Lemma mem_In x l : mem x l = true <-> In x l.
Proof.
  induction l as [|y r IH]; sc; [split; [discriminate|tauto]|].
  destruct (Z.eqb_spec x y); [subst; tauto|]. rewrite IH. split; [tauto|]. intros [H|H]; [congruence|exact H].
Qed.

Lemma cnt_In x l : 1 <= cnt x l <-> In x l.
Proof.
  rewrite <- mem_In. split; [apply cnt_pos_mem|apply mem_true_cnt].
Qed.

Lemma cnt_rem1 x y l :
  cnt x (rem1 y l) = cnt x l - (if (x =? y) && mem y l then 1 else 0).
Proof.
  induction l as [|z r IH]; sc; [destruct (x =? y); sc; lia|].
  destruct (Z.eqb_spec y z).
  - subst z. destruct (Z.eqb_spec x y); sc; lia.
  - sc. rewrite IH. lia.
Qed.

Lemma cnt_remall x y l : cnt x (remall y l) = if x =? y then 0 else cnt x l.
Proof.
  unfold remall. induction l as [|z r IH]; sc; [destruct (x =? y); reflexivity|].
  destruct (Z.eqb_spec y z); sc.
  - subst z. rewrite IH. destruct (Z.eqb_spec x y); lia.
  - rewrite IH. destruct (Z.eqb_spec x y); [|reflexivity].
    subst x. destruct (Z.eqb_spec y z); [contradiction|lia].
Qed.

Lemma cnt_addkey x y l :
  cnt x (addkey y l) = cnt x l + (if (x =? y) && negb (mem y l) then 1 else 0).
Proof.
  unfold addkey. destruct (mem y l); sc.
  - rewrite andb_false_r. lia.
  - rewrite cnt_app, andb_true_r. sc. lia.
Qed.

Lemma cnt_firstn1_tl x l : cnt x (firstn 1 l) + cnt x (tl l) = cnt x l.
Proof. destruct l as [|y r]; [cbn; lia|]. cbn [firstn tl cnt]. lia. Qed.

Lemma cnt_cons x y l : cnt x (y :: l) = (if x =? y then 1 else 0) + cnt x l.
Proof. reflexivity. Qed.

Lemma mem_remall_same x l : mem x (remall x l) = false.
Proof.
  destruct (mem x (remall x l)) eqn:E; [|reflexivity].
  apply mem_true_cnt in E. rewrite cnt_remall, Z.eqb_refl in E. lia.
Qed.

(* ------------------------------------------------------------------ *)
(** * Accounting invariant (per message id) *)

Definition published (s : mq) (id : Z) : Z := if (0 <=? id) && (id <? q_next s) then 1 else 0.

Definition acc (s : mq) (id : Z) : Prop :=
  cnt id (q_pending s) + cnt id (q_inflight s) = cnt id (q_msgs s) /\
  cnt id (q_msgs s) + cnt id (g_acked s) + cnt id (q_dead s) + cnt id (g_dlqlost s) + cnt id (g_dropped s)
    + cnt id (g_reproc s) = published s id /\
  0 <= q_next s.

Ltac nonneg id s :=
  pose proof (cnt_nonneg id (q_pending s)); pose proof (cnt_nonneg id (q_inflight s));
  pose proof (cnt_nonneg id (q_msgs s)); pose proof (cnt_nonneg id (g_acked s));
  pose proof (cnt_nonneg id (q_dead s)); pose proof (cnt_nonneg id (g_dlqlost s));
  pose proof (cnt_nonneg id (g_dropped s)); pose proof (cnt_nonneg id (g_reproc s)).

Ltac memcase x l :=
  let E := fresh "E" in
  destruct (mem x l) eqn:E;
  [pose proof (mem_true_cnt _ _ E)|pose proof (mem_false_cnt _ _ E)].

Lemma acc_init id : acc mq_init id.
Proof. unfold acc, published; sc. destruct (0 <=? id) eqn:E1, (id <? 0) eqn:E2; sc; lia. Qed.

Lemma acc_ack s mid id : acc s id -> acc (do_ack s mid) id.
Proof.
  unfold acc, do_ack, published. intros (H1 & H2 & H3). nonneg id s.
  memcase mid (q_msgs s); sc; [|auto].
  rewrite !cnt_remall, cnt_rem1.
  destruct (Z.eqb_spec id mid); sc; [subst id|lia].
  memcase mid (q_pending s); destruct ((0 <=? mid) && (mid <? q_next s)); lia.
Qed.

Lemma acc_reject cfg s mid rq id : acc s id -> acc (do_reject cfg s mid rq) id.
Proof.
  unfold acc, do_reject, published. intros (H1 & H2 & H3). nonneg id s.
  memcase mid (q_msgs s); sc; [|auto].
  destruct (rq && (m_count (q_obj s mid) <? c_max cfg)); sc.
  - rewrite cnt_app, cnt_remall, cnt_rem1. sc.
    destruct (Z.eqb_spec id mid); sc; [subst id|lia].
    memcase mid (q_pending s); destruct ((0 <=? mid) && (mid <? q_next s)); lia.
  - destruct (c_dlq cfg); sc.
    + rewrite !cnt_remall, cnt_rem1, !cnt_app. sc.
      pose proof (cnt_firstn1_tl id (q_dead s)).
      pose proof (cnt_nonneg id (tl (q_dead s))). pose proof (cnt_nonneg id (firstn 1 (q_dead s))).
      destruct (dlq_full cfg (q_dead s) && negb match q_dead s with [] => true | _ :: _ => false end); sc;
      (destruct (Z.eqb_spec id mid); sc; [subst id|lia]);
      memcase mid (q_pending s); destruct ((0 <=? mid) && (mid <? q_next s)); lia.
    + rewrite !cnt_remall, cnt_rem1.
      destruct (Z.eqb_spec id mid); sc; [subst id|lia].
      memcase mid (q_pending s); destruct ((0 <=? mid) && (mid <? q_next s)); lia.
Qed.

Lemma acc_deliver_begin s h mid id : acc s id -> acc (fst (deliver_begin s h mid)) id.
Proof.
  unfold acc, deliver_begin, published. intros (H1 & H2 & H3). nonneg id s.
  memcase mid (q_msgs s); sc; [|auto].
  destruct (q_cons s); sc; [auto|].
  rewrite cnt_addkey.
  memcase mid (q_pending s); memcase mid (q_inflight s); rewrite ?cnt_rem1, ?E0; sc;
  (destruct (Z.eqb_spec id mid); sc; [subst id|lia]);
  destruct ((0 <=? mid) && (mid <? q_next s)); lia.
Qed.

Lemma acc_step cfg s o id : acc s id -> acc (fst (step cfg s o)) id.
Proof.
  intros A. destruct o; cbn [step].
  - destruct (mem c (q_cons s)); exact A.
  - destruct (mem c (q_cons s)); exact A.
  - destruct (mq_full cfg s); [exact A|]. sc.
    unfold acc, published in *. destruct A as (H1 & H2 & H3). nonneg id s. sc.
    rewrite !cnt_app. sc.
    destruct (Z.eqb_spec id (q_next s)).
    + subst id. replace (q_next s <? q_next s) with false in H2 by lia.
      rewrite andb_false_r in H2.
      replace ((0 <=? q_next s) && (q_next s <? q_next s + 1)) with true by lia. lia.
    + replace (id <? q_next s + 1) with (id <? q_next s) by lia. lia.
  - destruct (q_pending s) as [|m r] eqn:EP; [exact A|].
    destruct (q_cons s) eqn:EC; [exact A|]. apply acc_deliver_begin. exact A.
  - apply acc_deliver_begin. exact A.
  - destruct (lookup h (q_susp s)) as [[m c]|]; [|exact A].
    destruct (mem m (q_msgs s)); exact A.
  - apply acc_ack. exact A.
  - apply acc_reject. exact A.
  - destruct (negb (mem mid (q_inflight s))) eqn:EI; [exact A|].
    destruct (mem mid (q_resched s)); [exact A|].
    destruct (c_max cfg <=? m_count (q_obj s mid)); [apply acc_reject; exact A|].
    sc. unfold acc, published in *. destruct A as (H1 & H2 & H3). nonneg id s. sc.
    rewrite cnt_remall.
    apply negb_false_iff in EI. pose proof (mem_true_cnt _ _ EI).
    destruct (Z.eqb_spec id mid); [subst id|lia].
    destruct ((0 <=? mid) && (mid <? q_next s)); lia.
  - sc. unfold acc, published in *. destruct A as (H1 & H2 & H3). nonneg id s. sc. rewrite cnt_app. lia.
Qed.

Lemma run_from_app cfg s a b :
  run_from cfg s (a ++ b) =
    let '(s1, o1) := run_from cfg s a in let '(s2, o2) := run_from cfg s1 b in (s2, o1 ++ o2).
Proof.
  revert s; induction a as [|o r IH]; intros s; sc.
  - destruct (run_from cfg s b); reflexivity.
  - destruct (step cfg s o) as [s1 o1]. rewrite IH.
    destruct (run_from cfg s1 r) as [s2 o2]. destruct (run_from cfg s2 b). reflexivity.
Qed.

Lemma acc_run_from cfg ops : forall s id, acc s id -> acc (fst (run_from cfg s ops)) id.
Proof.
  induction ops as [|o r IH]; intros s id A; sc; [exact A|].
  pose proof (acc_step cfg s o id A) as A1.
  destruct (step cfg s o) as [s1 o1]. cbn in A1.
  specialize (IH s1 id A1). destruct (run_from cfg s1 r). exact IH.
Qed.

Lemma acc_run cfg ops id : acc (run cfg ops) id.
Proof. apply acc_run_from, acc_init. Qed.

(** Every published message is in exactly one of: pending, in flight,
    acknowledged, dead-letter queue, pushed out of a full dead-letter queue,
    rejected for good with no DLQ configured; unpublished ids are nowhere. *)
Theorem mq_accounting cfg ops id :
  let s := run cfg ops in
  cnt id (q_pending s) + cnt id (q_inflight s) + cnt id (g_acked s) + cnt id (q_dead s)
    + cnt id (g_dlqlost s) + cnt id (g_dropped s) + cnt id (g_reproc s) = published s id.
Proof. sc. destruct (acc_run cfg ops id) as (H1 & H2 & _). lia. Qed.

(** The stored set is exactly pending + in flight, and never a stale id. *)
Theorem mq_stored_split cfg ops id :
  let s := run cfg ops in
  cnt id (q_msgs s) = cnt id (q_pending s) + cnt id (q_inflight s) /\ cnt id (q_msgs s) <= published s id.
Proof.
  sc. destruct (acc_run cfg ops id) as (H1 & H2 & _). nonneg id (run cfg ops). lia.
Qed.

Lemma acc_msgs_lt s id : acc s id -> In id (q_msgs s) -> 0 <= id < q_next s.
Proof.
  intros (H1 & H2 & H3) HI. apply cnt_In in HI. nonneg id s. unfold published in H2.
  destruct (0 <=? id) eqn:E1, (id <? q_next s) eqn:E2; cbn -[Z.add Z.sub Z.ltb Z.leb Z.eqb] in H2; lia.
Qed.

(* ------------------------------------------------------------------ *)
(** * Nothing is delivered after it left the queue (acknowledged / dead-lettered) *)

Definition gone (s : mq) (mid : Z) : Prop := mem mid (q_msgs s) = false /\ mid < q_next s.

Lemma mem_app x a b : mem x (a ++ b) = mem x a || mem x b.
Proof. induction a as [|y r IH]; sc; [reflexivity|]. destruct (x =? y); [reflexivity|exact IH]. Qed.

Lemma mem_remall x y l : mem x (remall y l) = negb (x =? y) && mem x l.
Proof.
  unfold remall. induction l as [|z r IH]; sc; [rewrite andb_false_r; reflexivity|].
  destruct (Z.eqb_spec y z); sc.
  - subst z. rewrite IH. destruct (Z.eqb_spec x y); reflexivity.
  - rewrite IH. destruct (Z.eqb_spec x z); [|reflexivity]. subst z.
    destruct (Z.eqb_spec x y); [congruence|reflexivity].
Qed.

Lemma gone_ack s m mid : gone s mid -> gone (do_ack s m) mid.
Proof.
  unfold gone, do_ack. intros [H1 H2]. destruct (mem m (q_msgs s)); sc; [|auto].
  rewrite mem_remall, H1, andb_false_r. auto.
Qed.

Lemma gone_reject cfg s m rq mid : gone s mid -> gone (do_reject cfg s m rq) mid.
Proof.
  unfold gone, do_reject. intros [H1 H2]. destruct (mem m (q_msgs s)); sc; [|auto].
  destruct (rq && _); sc; [auto|].
  destruct (c_dlq cfg); sc; rewrite mem_remall, H1, andb_false_r; auto.
Qed.

Lemma gone_deliver_begin s h m mid : gone s mid -> gone (fst (deliver_begin s h m)) mid.
Proof.
  unfold gone, deliver_begin. intros [H1 H2]. destruct (mem m (q_msgs s)); sc; [|auto].
  destruct (q_cons s); sc; auto.
Qed.

Definition is_delivery_of (mid : Z) (o : out) : Prop :=
  match o with ODelivery _ m _ _ => m = mid | _ => False end.

Lemma gone_step cfg s o mid :
  gone s mid ->
  gone (fst (step cfg s o)) mid /\ forall x, In x (snd (step cfg s o)) -> ~ is_delivery_of mid x.
Proof.
  intros G. destruct o; cbn [step].
  - split; [destruct (mem c (q_cons s)); exact G|intros x []].
  - split; [destruct (mem c (q_cons s)); exact G|intros x []].
  - destruct (mq_full cfg s); sc; [split; [exact G|intros x [<-|[]]; sc; tauto]|].
    split; [|intros x [<-|[]]; sc; tauto].
    destruct G as [G1 G2]. split; sc; [|lia].
    rewrite mem_app, G1. sc. destruct (Z.eqb_spec mid (q_next s)); [lia|reflexivity].
  - assert (D : forall m, forall x, In x (snd (deliver_begin s h m)) -> ~ is_delivery_of mid x).
    { intros m x. unfold deliver_begin. destruct (negb _); sc; [intros [<-|[]]; sc; tauto|].
      destruct (q_cons s); sc; intros [<-|[]]; sc; tauto. }
    destruct (q_pending s) as [|m r]; [split; [exact G|intros x [<-|[]]; sc; tauto]|].
    destruct (q_cons s) eqn:EC; [split; [exact G|intros x [<-|[]]; sc; tauto]|].
    split; [apply gone_deliver_begin; exact G|apply D].
  - split; [apply gone_deliver_begin; exact G|].
    intros x. unfold deliver_begin. sc. destruct (negb _); sc; [intros [<-|[]]; sc; tauto|].
    destruct (q_cons s); sc; intros [<-|[]]; sc; tauto.
  - destruct (lookup h (q_susp s)) as [[m c]|]; [|split; [exact G|intros x []]].
    destruct (mem m (q_msgs s)) eqn:EM; sc; (split; [exact G|]); intros x [<-|[]]; sc; [|tauto].
    intros ->. destruct G as [G1 _]. congruence.
  - split; [apply gone_ack; exact G|intros x []].
  - split; [apply gone_reject; exact G|intros x []].
  - destruct (negb _); [split; [exact G|intros x [<-|[]]; sc; tauto]|].
    destruct (mem mid0 (q_resched s)); [split; [exact G|intros x [<-|[]]; sc; tauto]|].
    destruct (c_max cfg <=? _); [split; [apply gone_reject; exact G|intros x [<-|[]]; sc; tauto]|].
    split; [exact G|intros x [<-|[]]; sc; tauto].
  - split; [exact G|intros x []].
Qed.

Lemma gone_outputs cfg ops : forall s mid, gone s mid ->
  forall x, In x (outputs cfg s ops) -> ~ is_delivery_of mid x.
Proof.
  unfold outputs. induction ops as [|o r IH]; intros s mid G x; sc; [intros []|].
  destruct (gone_step cfg s o mid G) as [G1 N1].
  destruct (step cfg s o) as [s1 o1]. cbn in G1, N1.
  specialize (IH s1 mid G1 x). destruct (run_from cfg s1 r) as [s2 outs]. cbn in *.
  rewrite in_app_iff. intros [Hx|Hx]; [apply N1; exact Hx|apply IH; exact Hx].
Qed.

Lemma ack_gone s mid : 0 <= mid < q_next s -> gone (do_ack s mid) mid.
Proof.
  intros H. unfold gone, do_ack. destruct (mem mid (q_msgs s)) eqn:E; sc.
  - rewrite mem_remall, Z.eqb_refl. sc. split; [reflexivity|lia].
  - split; [exact E|lia].
Qed.

(** After [Ack mid] of a published message no later operation sequence makes
    the queue emit a delivery of [mid]. *)
Theorem mq_no_delivery_after_ack cfg ops1 mid ops2 :
  0 <= mid < q_next (run cfg ops1) ->
  forall x, In x (outputs cfg (run cfg (ops1 ++ [Ack mid])) ops2) -> ~ is_delivery_of mid x.
Proof.
  intros H. apply gone_outputs. unfold run. rewrite run_from_app.
  destruct (run_from cfg mq_init ops1) as [s1 o1] eqn:E1. sc.
  unfold run in H. rewrite E1 in H. cbn in H. apply ack_gone. exact H.
Qed.

(** Same for a message that was dead-lettered or dropped: once a published id
    is no longer stored, it is never delivered again. *)
Theorem mq_no_delivery_once_gone cfg ops1 mid ops2 :
  let s := run cfg ops1 in
  0 <= mid < q_next s -> ~ In mid (q_msgs s) ->
  forall x, In x (outputs cfg s ops2) -> ~ is_delivery_of mid x.
Proof.
  sc. intros H N. apply gone_outputs. split; [|lia].
  destruct (mem mid (q_msgs (run cfg ops1))) eqn:E; [|reflexivity]. apply mem_In in E. contradiction.
Qed.

(* ------------------------------------------------------------------ *)
(** * The redelivery limit moves the message to the dead-letter queue *)

Lemma acc_all_run cfg ops : forall id, acc (run cfg ops) id.
Proof. intros id. apply acc_run. Qed.

Lemma acc_pending_le1 s id : acc s id -> cnt id (q_pending s) <= 1 /\ cnt id (q_inflight s) <= 1 /\ cnt id (q_msgs s) <= 1.
Proof.
  intros (H1 & H2 & H3). nonneg id s. unfold published in H2.
  destruct ((0 <=? id) && (id <? q_next s)); lia.
Qed.

Lemma not_In_cnt x l : cnt x l = 0 -> ~ In x l.
Proof. intros H HI. apply cnt_In in HI. lia. Qed.

Lemma reject_limit cfg s mid rq :
  acc s mid -> In mid (q_msgs s) -> c_max cfg <= m_count (q_obj s mid) ->
  let s' := do_reject cfg s mid rq in
  ~ In mid (q_msgs s') /\ ~ In mid (q_pending s') /\ ~ In mid (q_inflight s') /\
  (c_dlq cfg = true -> exists d, q_dead s' = d ++ [mid]) /\
  (c_dlq cfg = false -> In mid (g_dropped s')).
Proof.
  intros A HI HC. apply mem_In in HI. destruct (acc_pending_le1 _ _ A) as (P1 & P2 & P3).
  pose proof (cnt_nonneg mid (q_pending s)).
  unfold do_reject. rewrite HI. sc.
  replace (m_count (q_obj s mid) <? c_max cfg) with false by lia. rewrite andb_false_r.
  destruct (c_dlq cfg); sc; (repeat split);
    try (apply not_In_cnt; rewrite ?cnt_remall, ?cnt_rem1, ?Z.eqb_refl; sc; try reflexivity;
         memcase mid (q_pending s); lia); try discriminate; try (intros _; eexists; reflexivity).
  intros _. left. reflexivity.
Qed.

Theorem mq_redelivery_limit cfg ops mid rq now :
  let s := run cfg ops in
  In mid (q_msgs s) -> c_max cfg <= m_count (q_obj s mid) ->
  (let s' := fst (step cfg s (Reject mid rq)) in
   ~ In mid (q_msgs s') /\ ~ In mid (q_pending s') /\ ~ In mid (q_inflight s') /\
   (c_dlq cfg = true -> exists d, q_dead s' = d ++ [mid]) /\ (c_dlq cfg = false -> In mid (g_dropped s')))
  /\
  (In mid (q_inflight s) -> ~ In mid (q_resched s) ->
   step cfg s (Sched mid now) = (fst (step cfg s (Reject mid false)), [ONone])).
Proof.
  cbn zeta. intros HI HC. split.
  - apply (reject_limit cfg _ mid rq (acc_run cfg ops mid) HI HC).
  - intros HF HR. cbn [step fst]. apply mem_In in HF. rewrite HF. cbn [negb].
    destruct (mem mid (q_resched (run cfg ops))) eqn:E; [apply mem_In in E; contradiction|].
    replace (c_max cfg <=? m_count (q_obj (run cfg ops) mid)) with true by lia. reflexivity.
Qed.

(* ------------------------------------------------------------------ *)
(** * Deliveries: who gets them, when, and that poll never meets a stale head *)

Lemma nth_mod_In l i : l <> [] -> In (nth_mod l i) l.
Proof.
  intros H. unfold nth_mod, zlen. apply nth_In.
  destruct l; [contradiction|]. cbn [length] in *.
  assert (0 <= i mod Z.of_nat (S (length l)) < Z.of_nat (S (length l))) by (apply Z.mod_pos_bound; lia).
  lia.
Qed.

Lemma deliver_begin_ok s h mid :
  In mid (q_msgs s) -> q_cons s <> [] ->
  let c := nth_mod (q_cons s) (q_cidx s) in
  let s' := fst (deliver_begin s h mid) in
  snd (deliver_begin s h mid) = [OSuspend] /\ In c (q_cons s) /\
  lookup h (q_susp s') = Some (mid, c) /\ In mid (q_inflight s') /\ In mid (q_msgs s') /\
  m_count (q_obj s' mid) = m_count (q_obj s mid) + 1.
Proof.
  intros HI HC. apply mem_In in HI. unfold deliver_begin. rewrite HI. cbn [negb].
  destruct (q_cons s) eqn:EC; [contradiction|]. rewrite <- EC. sc. rewrite !Z.eqb_refl.
  repeat split; try reflexivity.
  - apply nth_mod_In. rewrite EC. discriminate.
  - apply cnt_In. rewrite cnt_addkey, Z.eqb_refl. sc. memcase mid (q_inflight s); sc; lia.
  - apply mem_In. exact HI.
  - unfold upd. rewrite Z.eqb_refl. reflexivity.
Qed.

(** poll with a non-empty pending deque and a subscriber always starts the
    delivery of the head of the deque (no stale ids block the queue). *)
Theorem mq_poll_delivers_head cfg ops h m r :
  let s := run cfg ops in
  q_pending s = m :: r -> q_cons s <> [] ->
  let c := nth_mod (q_cons s) (q_cidx s) in
  let s' := fst (step cfg s (PollBegin h)) in
  snd (step cfg s (PollBegin h)) = [OSuspend] /\ In c (q_cons s) /\
  lookup h (q_susp s') = Some (m, c) /\ In m (q_inflight s') /\
  m_count (q_obj s' m) = m_count (q_obj s m) + 1.
Proof.
  cbn zeta. intros EP HC. cbn [step]. rewrite EP.
  destruct (q_cons (run cfg ops)) eqn:EC; [contradiction|]. rewrite <- EC in *.
  assert (HI : In m (q_msgs (run cfg ops))).
  { destruct (acc_run cfg ops m) as (H1 & _). apply cnt_In.
    pose proof (cnt_nonneg m (q_inflight (run cfg ops))). rewrite EP in H1. cbn [cnt] in H1.
    rewrite Z.eqb_refl in H1. pose proof (cnt_nonneg m r). lia. }
  destruct (deliver_begin_ok (run cfg ops) h m HI HC) as (A & B & C & D & _ & F). auto.
Qed.

(** A requested redelivery that is handed back to the queue starts a delivery
    to a subscribed consumer as long as the message is still stored. *)
Theorem mq_redelivery_starts cfg s h mid :
  In mid (q_msgs s) -> q_cons s <> [] ->
  let c := nth_mod (q_cons s) (q_cidx s) in
  let s' := fst (step cfg s (RedeliverBegin h mid)) in
  snd (step cfg s (RedeliverBegin h mid)) = [OSuspend] /\ In c (q_cons s) /\
  lookup h (q_susp s') = Some (mid, c) /\ In mid (q_inflight s') /\ ~ In mid (q_resched s').
Proof.
  cbn zeta. intros HI HC. cbn [step].
  set (s0 := set_core s (q_obj s) (q_msgs s) (q_pending s) (q_inflight s) (remall mid (q_resched s))).
  destruct (deliver_begin_ok s0 h mid HI HC) as (A & B & C & D & _ & _).
  repeat split; auto.
  unfold deliver_begin, s0. sc. apply mem_In in HI. rewrite HI. sc.
  destruct (q_cons s); [contradiction|]. sc. apply not_In_cnt. rewrite cnt_remall, Z.eqb_refl. reflexivity.
Qed.

(** Timeout below the limit: the message goes back to the head of the pending
    deque and a redelivery event for [now + redelivery_delay] is returned. *)
Theorem mq_timeout_requests_redelivery cfg s mid now :
  In mid (q_inflight s) -> ~ In mid (q_resched s) -> m_count (q_obj s mid) < c_max cfg ->
  let s' := fst (step cfg s (Sched mid now)) in
  snd (step cfg s (Sched mid now)) = [ORedelivery mid (now + c_delay cfg)] /\
  q_pending s' = mid :: q_pending s /\ ~ In mid (q_inflight s') /\ q_msgs s' = q_msgs s.
Proof.
  cbn zeta. intros HF HR HC. cbn [step]. apply mem_In in HF. rewrite HF. cbn [negb].
  destruct (mem mid (q_resched s)) eqn:E; [apply mem_In in E; contradiction|].
  replace (c_max cfg <=? m_count (q_obj s mid)) with false by lia. sc.
  repeat split. apply not_In_cnt. rewrite cnt_remall, Z.eqb_refl. reflexivity.
Qed.

Definition handle_of (o : op) : option Z :=
  match o with PollBegin h | RedeliverBegin h _ | DeliverEnd h _ => Some h | _ => None end.

Lemma lookup_remkey_other {V} h h' (m : list (Z * V)) : h <> h' -> lookup h (remkey h' m) = lookup h m.
Proof.
  intros N. induction m as [|[k v] r IH]; [reflexivity|]. cbn.
  destruct (Z.eqb_spec h' k).
  - subst k. rewrite IH. destruct (Z.eqb_spec h h'); [contradiction|reflexivity].
  - cbn. rewrite IH. reflexivity.
Qed.

Lemma susp_ack s m : q_susp (do_ack s m) = q_susp s.
Proof. unfold do_ack. destruct (negb _); reflexivity. Qed.

Lemma susp_reject cfg s m rq : q_susp (do_reject cfg s m rq) = q_susp s.
Proof.
  unfold do_reject. destruct (negb _); [reflexivity|]. destruct (rq && _); [reflexivity|].
  destruct (c_dlq cfg); reflexivity.
Qed.

Lemma susp_deliver_begin s h' m h : h <> h' ->
  lookup h (q_susp (fst (deliver_begin s h' m))) = lookup h (q_susp s).
Proof.
  intros N. unfold deliver_begin. destruct (negb _); [reflexivity|].
  destruct (q_cons s); [reflexivity|]. sc. destruct (Z.eqb_spec h h'); [contradiction|reflexivity].
Qed.

Lemma lookup_step cfg s o h :
  handle_of o <> Some h -> lookup h (q_susp (fst (step cfg s o))) = lookup h (q_susp s).
Proof.
  intros N. destruct o; cbn [step handle_of] in *.
  - destruct (mem c (q_cons s)); reflexivity.
  - destruct (mem c (q_cons s)); reflexivity.
  - destruct (mq_full cfg s); reflexivity.
  - destruct (q_pending s); [reflexivity|]. destruct (q_cons s) eqn:EC; [reflexivity|].
    apply susp_deliver_begin. congruence.
  - rewrite susp_deliver_begin by congruence. reflexivity.
  - destruct (lookup h0 (q_susp s)) as [[m c]|]; [|reflexivity].
    destruct (mem m (q_msgs s)); sc; apply lookup_remkey_other; congruence.
  - sc. rewrite susp_ack. reflexivity.
  - sc. rewrite susp_reject. reflexivity.
  - destruct (negb _); [reflexivity|]. destruct (mem mid (q_resched s)); [reflexivity|].
    destruct (c_max cfg <=? _); sc; [rewrite susp_reject|]; reflexivity.
  - reflexivity.
Qed.

Lemma lookup_run_from cfg ops : forall s h,
  Forall (fun o => handle_of o <> Some h) ops ->
  lookup h (q_susp (fst (run_from cfg s ops))) = lookup h (q_susp s).
Proof.
  induction ops as [|o r IH]; intros s h F; [reflexivity|]. inversion F; subst. cbn.
  pose proof (lookup_step cfg s o h H1) as L. destruct (step cfg s o) as [s1 o1]. cbn in L.
  specialize (IH s1 h H2). destruct (run_from cfg s1 r). cbn in *. congruence.
Qed.

(** A started delivery (frame [h] for message [mid], consumer [c]) is completed
    by exactly one delivery event to [c], stamped with the clock at completion
    (so the engine delivers it at that very instant) — whatever the queue did in
    between — unless the message left the queue meanwhile, in which case nothing
    is emitted. *)
Theorem mq_delivery_reaches_consumer cfg s h mid c ops now :
  lookup h (q_susp s) = Some (mid, c) ->
  Forall (fun o => handle_of o <> Some h) ops ->
  let s' := fst (run_from cfg s ops) in
  snd (step cfg s' (DeliverEnd h now)) =
    if mem mid (q_msgs s') then [ODelivery c mid (m_count (q_obj s' mid)) now] else [ONone].
Proof.
  cbn zeta. intros L F. cbn [step]. rewrite (lookup_run_from cfg ops s h F), L.
  destruct (mem mid _); reflexivity.
Qed.

(* ------------------------------------------------------------------ *)
(** * The hypotheses of the conditional theorems are satisfiable *)
Definition exq_cfg : mqcfg := {| c_max := 1; c_cap := None; c_delay := 5; c_dlq := true; c_dlqcap := None |}.
Definition exq_ops : list op := [Subscribe 7; Publish; Publish; PollBegin 1].

Example mq_hypotheses_satisfiable :
  let s := run exq_cfg exq_ops in
  0 <= 0 < q_next s /\ In 0 (q_msgs s) /\ c_max exq_cfg <= m_count (q_obj s 0) /\
  In 0 (q_inflight s) /\ ~ In 0 (q_resched s) /\
  q_pending s = [1] /\ q_cons s <> [] /\
  lookup 1 (q_susp s) = Some (0, 7) /\
  (let s2 := run {| c_max := 3; c_cap := None; c_delay := 5; c_dlq := true; c_dlqcap := None |} exq_ops in
   In 0 (q_inflight s2) /\ ~ In 0 (q_resched s2) /\ m_count (q_obj s2 0) < 3).
Proof.
  vm_compute. repeat split; try discriminate; try (left; reflexivity); try tauto; intros [H|H]; try discriminate; try destruct H.
Qed.

(* ------------------------------------------------------------------ *)
(** * DLQ reprocess: the one way a message gets lost *)

Lemma reproc_ack s m : g_reproc (do_ack s m) = g_reproc s.
Proof. unfold do_ack. destruct (negb _); reflexivity. Qed.

Lemma reproc_reject cfg s m rq : g_reproc (do_reject cfg s m rq) = g_reproc s.
Proof.
  unfold do_reject. destruct (negb _); [reflexivity|]. destruct (rq && _); [reflexivity|].
  destruct (c_dlq cfg); reflexivity.
Qed.

Lemma reproc_deliver_begin s h m : g_reproc (fst (deliver_begin s h m)) = g_reproc s.
Proof. unfold deliver_begin. destruct (negb _); [reflexivity|]. destruct (q_cons s); reflexivity. Qed.

Lemma reproc_step cfg s o : o <> DlqReprocessAll -> g_reproc (fst (step cfg s o)) = g_reproc s.
Proof.
  intros N. destruct o; cbn [step]; try contradiction.
  - destruct (mem c (q_cons s)); reflexivity.
  - destruct (mem c (q_cons s)); reflexivity.
  - destruct (mq_full cfg s); reflexivity.
  - destruct (q_pending s); [reflexivity|]. destruct (q_cons s) eqn:EC; [reflexivity|]. apply reproc_deliver_begin.
  - rewrite reproc_deliver_begin. reflexivity.
  - destruct (lookup h (q_susp s)) as [[m c]|]; [|reflexivity]. destruct (mem m (q_msgs s)); reflexivity.
  - apply reproc_ack.
  - apply reproc_reject.
  - destruct (negb _); [reflexivity|]. destruct (mem mid (q_resched s)); [reflexivity|].
    destruct (c_max cfg <=? _); [apply reproc_reject|reflexivity].
Qed.

Lemma reproc_run_from cfg ops : forall s,
  Forall (fun o => o <> DlqReprocessAll) ops -> g_reproc (fst (run_from cfg s ops)) = g_reproc s.
Proof.
  induction ops as [|o r IH]; intros s F; [reflexivity|]. inversion F; subst. cbn.
  pose proof (reproc_step cfg s o H1) as E. destruct (step cfg s o) as [s1 o1]. cbn in E.
  specialize (IH s1 H2). destruct (run_from cfg s1 r). cbn in *. congruence.
Qed.

(** Full statement ("never lost", every operation the messaging package offers,
    DLQ reprocessing included): REFUTED on the faithful model — the queue
    ignores the republish events of DeadLetterQueue.reprocess_all, so the
    message is in none of the classes afterwards. *)
Definition never_lost_statement : Prop :=
  forall cfg ops id, let s := run cfg ops in
  published s id = 1 ->
  cnt id (q_pending s) + cnt id (q_inflight s) + cnt id (g_acked s) + cnt id (q_dead s)
    + cnt id (g_dlqlost s) + cnt id (g_dropped s) = 1.

Theorem mq_never_lost_refuted : ~ never_lost_statement.
Proof.
  intros H.
  specialize (H {| c_max := 3; c_cap := None; c_delay := 5; c_dlq := true; c_dlqcap := None |}
                [Subscribe 0; Publish; PollBegin 1; DeliverEnd 1 5; Reject 0 false; DlqReprocessAll] 0).
  vm_compute in H. specialize (H eq_refl). discriminate.
Qed.

(** PARTIAL: without DLQ reprocessing (publish / poll / ack / reject / timeout /
    subscribe sequences) the statement holds. *)
Theorem mq_never_lost_partial cfg ops id :
  Forall (fun o => o <> DlqReprocessAll) ops ->
  let s := run cfg ops in
  cnt id (q_pending s) + cnt id (q_inflight s) + cnt id (g_acked s) + cnt id (q_dead s)
    + cnt id (g_dlqlost s) + cnt id (g_dropped s) = published s id.
Proof.
  intros F. cbn zeta. pose proof (mq_accounting cfg ops id) as A. cbn zeta in A.
  unfold run in *. rewrite (reproc_run_from cfg ops mq_init F) in A. cbn [g_reproc mq_init cnt] in A. lia.
Qed.
