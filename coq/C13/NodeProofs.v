(** C13 — single-node lemmas over all input traces. *)
From HS Require Import Base.Prelude C13.Model.
Local Open Scope Z_scope.

(** ** the members dict *)
Lemma find_upd n n' f ms :
  (forall m, m_name (f m) = m_name m) ->
  find_member n (upd_member n' f ms) =
  if n =? n' then option_map f (find_member n ms) else find_member n ms.
Proof.
  intros Hf. induction ms as [|m r IH]; cbn.
  - destruct (n =? n'); reflexivity.
  - destruct (m_name m =? n') eqn:E1.
    + rewrite Hf. destruct (m_name m =? n) eqn:E2.
      * assert (n =? n' = true) as -> by lia. reflexivity.
      * exact IH.
    + destruct (m_name m =? n) eqn:E2.
      * assert (n =? n' = false) as -> by lia. reflexivity.
      * exact IH.
Qed.

Lemma find_name n ms m : find_member n ms = Some m -> m_name m = n.
Proof.
  induction ms as [|x r IH]; cbn; [discriminate|].
  destruct (m_name x =? n) eqn:E; [intros [= <-]; lia|exact IH].
Qed.

(** What one handler may do to the record of one member:
    the incarnation never decreases, and a DEAD record stays DEAD with the same
    incarnation unless the incarnation strictly grows. *)
Definition R (m m' : member) : Prop :=
  m_name m' = m_name m /\ m_inc m <= m_inc m' /\
  (m_state m = Dead -> (m_state m' = Dead /\ m_inc m' = m_inc m) \/ m_inc m < m_inc m').

Lemma R_refl m : R m m.
Proof. unfold R; intuition lia. Qed.

Lemma R_trans a b c : R a b -> R b c -> R a c.
Proof.
  unfold R. intros (N1 & I1 & D1) (N2 & I2 & D2). repeat split; try congruence; try lia.
  intros Hd. destruct (D1 Hd) as [[Hb Eb]|Hlt]; [|right; lia].
  destruct (D2 Hb) as [[Hc Ec]|Hlt]; [left; split; [assumption|lia]|right; lia].
Qed.

Definition LR (ms ms' : list member) : Prop :=
  forall n m, find_member n ms = Some m -> exists m', find_member n ms' = Some m' /\ R m m'.

Lemma LR_refl ms : LR ms ms.
Proof. intros n m H; exists m; split; [assumption|apply R_refl]. Qed.

Lemma LR_trans a b c : LR a b -> LR b c -> LR a c.
Proof.
  intros H1 H2 n m Hm. destruct (H1 _ _ Hm) as (m' & Hm' & R1).
  destruct (H2 _ _ Hm') as (m'' & Hm'' & R2). exists m''; split; [assumption|eapply R_trans; eauto].
Qed.

Lemma LR_upd n f ms :
  (forall m, m_name (f m) = m_name m) ->
  (forall m, find_member n ms = Some m -> R m (f m)) ->
  LR ms (upd_member n f ms).
Proof.
  intros Hf HR k m Hm. rewrite find_upd by assumption.
  destruct (k =? n) eqn:E.
  - assert (k = n) by lia; subst k. rewrite Hm; cbn. eexists; split; [reflexivity|auto].
  - exists m; split; [assumption|apply R_refl].
Qed.

Lemma mstate_eqb_eq a b : mstate_eqb a b = true <-> a = b.
Proof. destruct a, b; cbn; split; congruence. Qed.
Lemma mstate_eqb_neq a b : mstate_eqb a b = false <-> a <> b.
Proof. destruct a, b; cbn; split; congruence. Qed.

Lemma LR_apply_update ms u : LR ms (apply_update ms u).
Proof.
  unfold apply_update. destruct (find_member (u_member u) ms) as [info|] eqn:F; [|apply LR_refl].
  destruct (u_inc u <? m_inc info) eqn:E0; [apply LR_refl|].
  destruct ((u_kind u =? 0) && mstate_eqb (m_state info) Alive) eqn:E1.
  { apply LR_upd; [reflexivity|]. intros m Hm. rewrite F in Hm; injection Hm as <-.
    apply andb_true_iff in E1 as [_ E1]. apply mstate_eqb_eq in E1.
    unfold R; cbn. repeat split; [lia|]. intros Hd; congruence. }
  destruct ((u_kind u =? 1) && negb (mstate_eqb (m_state info) Dead)) eqn:E2.
  { apply LR_upd; [reflexivity|]. intros m Hm. rewrite F in Hm; injection Hm as <-.
    apply andb_true_iff in E2 as [_ E2]. apply negb_true_iff, mstate_eqb_neq in E2.
    unfold R; cbn. repeat split; [lia|]. intros Hd; congruence. }
  destruct ((u_kind u =? 2) && (m_inc info <? u_inc u)) eqn:E3.
  { apply LR_upd; [reflexivity|]. intros m Hm. rewrite F in Hm; injection Hm as <-.
    apply andb_true_iff in E3 as [_ E3].
    unfold R; cbn. repeat split; [lia|]. intros _. right; lia. }
  apply LR_refl.
Qed.

Lemma LR_apply_updates us : forall ms, LR ms (apply_updates ms us).
Proof.
  unfold apply_updates. induction us as [|u r IH]; intros ms; cbn; [apply LR_refl|].
  eapply LR_trans; [apply LR_apply_update|apply IH].
Qed.

Lemma R_heartbeat now m : R m (heartbeat now m).
Proof.
  unfold R, heartbeat; cbn. repeat split; [lia|]. intros Hd; rewrite Hd; cbn. left; auto.
Qed.

Lemma LR_heartbeat s now ms : LR ms (upd_member s (heartbeat now) ms).
Proof. apply LR_upd; [reflexivity|]. intros; apply R_heartbeat. Qed.

Lemma phi_pass_find c : forall ms avail n m,
  find_member n ms = Some m ->
  exists m', find_member n (fst (phi_pass c ms avail)) = Some m' /\
             (m' = m \/ (m_state m = Alive /\ m' = set_state Suspect m)).
Proof.
  induction ms as [|x r IH]; intros avail n m; cbn; [discriminate|].
  destruct (phi_pass c r (tl avail)) as [r' us] eqn:P.
  specialize (IH (tl avail) n). rewrite P in IH; cbn in IH.
  destruct (mstate_eqb (m_state x) Alive && _) eqn:E; cbn.
  - destruct (m_name x =? n) eqn:En.
    + intros [= <-]. eexists; split; [reflexivity|]. right; split; [|reflexivity].
      apply andb_true_iff in E as [E _]. now apply mstate_eqb_eq in E.
    + apply IH.
  - destruct (m_name x =? n) eqn:En.
    + intros [= <-]. eexists; split; [reflexivity|]. now left.
    + apply IH.
Qed.

Lemma LR_phi_pass c ms avail : LR ms (fst (phi_pass c ms avail)).
Proof.
  intros n m Hm. destruct (phi_pass_find c ms avail n m Hm) as (m' & F & [->|[Ha ->]]).
  - exists m; split; [assumption|apply R_refl].
  - eexists; split; [eassumption|]. unfold R; cbn. repeat split; [lia|]. congruence.
Qed.

Lemma LR_suspect t ms : LR ms (fst (suspect_member t ms)).
Proof.
  unfold suspect_member. destruct (find_member t ms) as [info|] eqn:F; [|apply LR_refl].
  destruct (mstate_eqb (m_state info) Alive) eqn:E; [|apply LR_refl]. cbn.
  apply LR_upd; [reflexivity|]. intros m Hm. rewrite F in Hm; injection Hm as <-.
  apply mstate_eqb_eq in E. unfold R; cbn. repeat split; [lia|]. congruence.
Qed.

Lemma LR_set_dead t ms : LR ms (upd_member t (set_state Dead) ms).
Proof.
  apply LR_upd; [reflexivity|]. intros m _. unfold R; cbn. repeat split; [lia|]. intros _; left; auto.
Qed.

(** ** one handler call *)
Lemma step_LR c now st i : LR (members st) (members (fst (step c now st i))).
Proof.
  destruct i as [avail shuf|from us|from us|target shuf|suspect|]; cbn [step].
  - pose proof (LR_phi_pass c (members st) avail) as H.
    destruct (phi_pass c (members st) avail) as [ms1 sus]; cbn in H.
    destruct (next_probe_target ms1 (order st) (pidx st) shuf) as [[[t|] ord'] idx']; cbn; exact H.
  - pose proof (LR_apply_updates us (members st)) as H.
    destruct from as [s|]; cbn; [|exact H].
    destruct (is_member s (apply_updates (members st) us)); [|exact H].
    eapply LR_trans; [exact H|apply LR_heartbeat].
  - pose proof (LR_apply_updates us (members st)) as H.
    destruct from as [s|]; cbn; [|exact H].
    destruct (is_member s (apply_updates (members st) us)); cbn; [|exact H].
    eapply LR_trans; [exact H|apply LR_heartbeat].
  - destruct target as [t|]; [|apply LR_refl].
    destruct (negb (is_member t (members st))); [apply LR_refl|].
    destruct (packs_get t (packs st)); [|apply LR_refl].
    pose proof (LR_suspect t (members st)) as H.
    destruct (suspect_member t (members st)) as [ms1 sus]; cbn in *. exact H.
  - destruct suspect as [t|]; [|apply LR_refl].
    destruct (find_member t (members st)) as [info|]; [|apply LR_refl].
    destruct (mstate_eqb (m_state info) Suspect); cbn; [apply LR_set_dead|apply LR_refl].
  - apply LR_refl.
Qed.

Lemma run_LR c tr : forall st, LR (members st) (members (run c st tr)).
Proof.
  induction tr as [|[now i] r IH]; intros st; cbn; [apply LR_refl|].
  eapply LR_trans; [apply step_LR|apply IH].
Qed.

(** Clause: a member reported DEAD is not reported ALIVE again without a higher incarnation
    — for every configuration, every state (reachable or not), every input trace. *)
Lemma dead_needs_higher_incarnation c st tr T m1 m2 :
  find_member T (members st) = Some m1 -> m_state m1 = Dead ->
  find_member T (members (run c st tr)) = Some m2 -> m_state m2 = Alive ->
  m_inc m1 < m_inc m2.
Proof.
  intros F1 D1 F2 A2. destruct (run_LR c tr st T m1 F1) as (m' & F' & (_ & _ & HD)).
  rewrite F2 in F'; injection F' as <-.
  destruct (HD D1) as [[Hd _]|Hlt]; [congruence|exact Hlt].
Qed.

Lemma incarnation_monotone c st tr T m1 :
  find_member T (members st) = Some m1 ->
  exists m2, find_member T (members (run c st tr)) = Some m2 /\ m_inc m1 <= m_inc m2.
Proof.
  intros F1. destruct (run_LR c tr st T m1 F1) as (m' & F' & (_ & HI & _)). eauto.
Qed.

(** ** a silent member stays non-ALIVE *)
Definition upd_silent (T : Z) (u : upd) : Prop := ~ (u_member u = T /\ u_kind u = 2).

Definition silent (T : Z) (i : input) : Prop :=
  match i with
  | IPing from us | IAck from us => from <> Some T /\ Forall (upd_silent T) us
  | _ => True
  end.

(** per-list relation: the record of T, if not ALIVE, stays not ALIVE *)
Definition NA (T : Z) (ms ms' : list member) : Prop :=
  forall m, find_member T ms = Some m -> m_state m <> Alive ->
  exists m', find_member T ms' = Some m' /\ m_state m' <> Alive.

Lemma NA_refl T ms : NA T ms ms.
Proof. intros m F H; eauto. Qed.
Lemma NA_trans T a b c : NA T a b -> NA T b c -> NA T a c.
Proof. intros H1 H2 m F H. destruct (H1 _ F H) as (m' & F' & H'). eauto. Qed.

Lemma NA_upd_other T n f ms :
  (forall m, m_name (f m) = m_name m) -> n <> T -> NA T ms (upd_member n f ms).
Proof.
  intros Hf Hn m F H. rewrite find_upd by assumption.
  assert (T =? n = false) as -> by lia. eauto.
Qed.

Lemma NA_upd_same T f ms :
  (forall m, m_name (f m) = m_name m) ->
  (forall m, find_member T ms = Some m -> m_state m <> Alive -> m_state (f m) <> Alive) ->
  NA T ms (upd_member T f ms).
Proof.
  intros Hf Hs m F H. rewrite find_upd by assumption. rewrite Z.eqb_refl, F; cbn. eauto.
Qed.

Lemma NA_apply_update T ms u : upd_silent T u -> NA T ms (apply_update ms u).
Proof.
  intros Hs. unfold apply_update.
  destruct (find_member (u_member u) ms) as [info|] eqn:F; [|apply NA_refl].
  destruct (u_inc u <? m_inc info); [apply NA_refl|].
  destruct (Z.eq_dec (u_member u) T) as [E|E].
  - rewrite E in *.
    destruct ((u_kind u =? 0) && mstate_eqb (m_state info) Alive) eqn:E1.
    { apply NA_upd_same; [reflexivity|]. cbn; congruence. }
    destruct ((u_kind u =? 1) && negb (mstate_eqb (m_state info) Dead)) eqn:E2.
    { apply NA_upd_same; [reflexivity|]. cbn; congruence. }
    destruct ((u_kind u =? 2) && (m_inc info <? u_inc u)) eqn:E3; [|apply NA_refl].
    exfalso. apply Hs. split; [assumption|]. apply andb_true_iff in E3 as [E3 _]. lia.
  - destruct ((u_kind u =? 0) && mstate_eqb (m_state info) Alive);
      [apply NA_upd_other; [reflexivity|assumption]|].
    destruct ((u_kind u =? 1) && negb (mstate_eqb (m_state info) Dead));
      [apply NA_upd_other; [reflexivity|assumption]|].
    destruct ((u_kind u =? 2) && (m_inc info <? u_inc u));
      [apply NA_upd_other; [reflexivity|assumption]|apply NA_refl].
Qed.

Lemma NA_apply_updates T us : Forall (upd_silent T) us -> forall ms, NA T ms (apply_updates ms us).
Proof.
  unfold apply_updates. induction 1 as [|u r Hu Hr IH]; intros ms; cbn; [apply NA_refl|].
  apply NA_trans with (apply_update ms u); [apply NA_apply_update; exact Hu|apply IH].
Qed.

Lemma NA_phi_pass T c ms avail : NA T ms (fst (phi_pass c ms avail)).
Proof.
  intros m F H. destruct (phi_pass_find c ms avail T m F) as (m' & F' & [->|[Ha ->]]); eauto.
Qed.

Lemma NA_suspect T t ms : NA T ms (fst (suspect_member t ms)).
Proof.
  unfold suspect_member. destruct (find_member t ms) as [info|] eqn:F; [|apply NA_refl].
  destruct (mstate_eqb (m_state info) Alive) eqn:E; [|apply NA_refl]. cbn.
  destruct (Z.eq_dec t T) as [->|Hn].
  - apply NA_upd_same; [reflexivity|]. cbn; congruence.
  - apply NA_upd_other; [reflexivity|assumption].
Qed.

Lemma NA_set_dead T t ms : NA T ms (upd_member t (set_state Dead) ms).
Proof.
  destruct (Z.eq_dec t T) as [->|Hn].
  - apply NA_upd_same; [reflexivity|]. cbn; congruence.
  - apply NA_upd_other; [reflexivity|assumption].
Qed.

Lemma step_NA T c now st i : silent T i -> NA T (members st) (members (fst (step c now st i))).
Proof.
  intros Hs.
  destruct i as [avail shuf|from us|from us|target shuf|suspect|]; cbn [step].
  - pose proof (NA_phi_pass T c (members st) avail) as H.
    destruct (phi_pass c (members st) avail) as [ms1 sus]; cbn in H.
    destruct (next_probe_target ms1 (order st) (pidx st) shuf) as [[[t|] ord'] idx']; cbn; exact H.
  - destruct Hs as [Hf Hu]. pose proof (NA_apply_updates T us Hu (members st)) as H.
    destruct from as [s|]; cbn; [|exact H].
    destruct (is_member s (apply_updates (members st) us)); [|exact H].
    eapply NA_trans; [exact H|apply NA_upd_other; [reflexivity|congruence]].
  - destruct Hs as [Hf Hu]. pose proof (NA_apply_updates T us Hu (members st)) as H.
    destruct from as [s|]; cbn; [|exact H].
    destruct (is_member s (apply_updates (members st) us)); cbn; [|exact H].
    eapply NA_trans; [exact H|apply NA_upd_other; [reflexivity|congruence]].
  - destruct target as [t|]; [|apply NA_refl].
    destruct (negb (is_member t (members st))); [apply NA_refl|].
    destruct (packs_get t (packs st)); [|apply NA_refl].
    pose proof (NA_suspect T t (members st)) as H.
    destruct (suspect_member t (members st)) as [ms1 sus]; cbn in *. exact H.
  - destruct suspect as [t|]; [|apply NA_refl].
    destruct (find_member t (members st)) as [info|]; [|apply NA_refl].
    destruct (mstate_eqb (m_state info) Suspect); cbn; [apply NA_set_dead|apply NA_refl].
  - apply NA_refl.
Qed.

(** Once a member is not reported ALIVE and it stays silent (no ping or ack from it is
    handled, nobody announces it alive), it is never reported ALIVE again. *)
Lemma silent_stays_non_alive T c tr : forall st m,
  Forall (fun x => silent T (snd x)) tr ->
  find_member T (members st) = Some m -> m_state m <> Alive ->
  exists m', find_member T (members (run c st tr)) = Some m' /\ m_state m' <> Alive.
Proof.
  induction tr as [|[now i] r IH]; intros st m Hs F H; cbn; [eauto|].
  inversion Hs as [|x l Hx Hl]; subst. cbn in Hx.
  destruct (step_NA T c now st i Hx m F H) as (m' & F' & H'). eapply IH; eauto.
Qed.

(** The direct probe of T timed out (no ack arrived, the ack-timeout event fires while T
    is still pending): T is not reported ALIVE afterwards. *)
Lemma timeout_suspects c now st T shuf old :
  is_member T (members st) = true -> packs_get T (packs st) = Some old ->
  exists m', find_member T (members (fst (step c now st (IIndirect (Some T) shuf)))) = Some m'
             /\ m_state m' <> Alive.
Proof.
  intros Hm Hp. cbn [step]. rewrite Hm, Hp; cbn [negb].
  unfold suspect_member. unfold is_member in Hm.
  destruct (find_member T (members st)) as [info|] eqn:F; [|discriminate].
  destruct (mstate_eqb (m_state info) Alive) eqn:E; cbn.
  - rewrite find_upd by reflexivity. rewrite Z.eqb_refl, F; cbn. eexists; split; [reflexivity|]. cbn; congruence.
  - rewrite F. eexists; split; [reflexivity|]. now apply mstate_eqb_neq in E.
Qed.


(** ** probe tick: a member whose phi reached the threshold becomes SUSPECT *)
(** the [is_available] result the tick uses for (the first record of) member [T] *)
Fixpoint avail_at (ms : list member) (avail : list bool) (T : Z) : bool :=
  match ms with
  | [] => true
  | m :: r => if m_name m =? T then match avail with [] => true | a :: _ => a end
              else avail_at r (tl avail) T
  end.

Lemma phi_pass_suspects c : forall ms avail T m,
  find_member T ms = Some m -> m_state m = Alive ->
  available c m (avail_at ms avail T) = false ->
  find_member T (fst (phi_pass c ms avail)) = Some (set_state Suspect m).
Proof.
  induction ms as [|x r IH]; intros avail T m; cbn; [discriminate|].
  destruct (phi_pass c r (tl avail)) as [r' us] eqn:P.
  specialize (IH (tl avail) T m). rewrite P in IH; cbn in IH.
  destruct (m_name x =? T) eqn:E.
  - intros [= <-] Ha Hav. rewrite Ha, Hav. cbn. rewrite E. reflexivity.
  - intros F Ha Hav. destruct (mstate_eqb (m_state x) Alive && _); cbn; rewrite E; auto.
Qed.

Lemma tick_phi_suspects c now st avail shuf T m :
  find_member T (members st) = Some m -> m_state m = Alive ->
  available c m (avail_at (members st) avail T) = false ->
  find_member T (members (fst (step c now st (ITick avail shuf)))) = Some (set_state Suspect m).
Proof.
  intros F Ha Hav. cbn [step].
  pose proof (phi_pass_suspects c (members st) avail T m F Ha Hav) as H.
  destruct (phi_pass c (members st) avail) as [ms1 sus]; cbn in H.
  destruct (next_probe_target ms1 (order st) (pidx st) shuf) as [[[t|] ord'] idx']; cbn; exact H.
Qed.
