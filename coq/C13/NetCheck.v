(** C13 — an executable checker that a recorded global run of a real cluster (the handler
    calls of all nodes in the order the engine made them, with the observed message delays)
    is a path of the cluster relation [Net.wstep] from the mesh start configuration, and its
    soundness proof.  This ties Net.v (the engine/network contract used by the accuracy
    theorem) to the implementation on every run. *)
From HS Require Import Base.Prelude C13.Model C13.Net.
Local Open Scope Z_scope.

Definition upds_eqb := list_eqb upd_eqb.

Definition kind_matches (k : pkind) (i : input) : bool :=
  match k, i with
  | PTick, ITick _ _ => true
  | PIndirect t, IIndirect (Some t') _ => t =? t'
  | PSusp t, ISusp (Some t') => t =? t'
  | PPing f us, IPing (Some f') us' => (f =? f') && upds_eqb us us'
  | PAck f us, IAck (Some f') us' => (f =? f') && upds_eqb us us'
  | _, _ => false
  end.

(** first element satisfying [p], with the elements before and after it *)
Fixpoint extract (p : pev -> bool) (l : list pev) : option (list pev * pev * list pev) :=
  match l with
  | [] => None
  | x :: r =>
    if p x then Some ([], x, r)
    else match extract p r with
         | Some (l1, y, l2) => Some (x :: l1, y, l2)
         | None => None
         end
  end.

(** one recorded handler call: node, time, input, observed delays of the messages it sent *)
Definition gstep := (Z * Z * input * list Z)%type.

Section Check.
  Variable cfgs : Z -> cfg.
  Variable d : Z.

  Definition stale (w : world) (now : Z) (y : pev) : bool := (p_time y <? now) && is_cancelled w y.

  Definition wcheck_step (w : world) (g : gstep) : option world :=
    let '(n, now, i, delays) := g in
    (* cancelled timers that are due before [now] are dropped *)
    let pool1 := filter (fun y => negb (stale w now y)) (pool w) in
    match extract (fun y => (p_node y =? n) && (p_time y =? now) && kind_matches (p_kind y) i
                            && negb (is_cancelled w y)) pool1 with
    | None => None
    | Some (l1, x, l2) =>
      if forallb (fun y => now <=? p_time y) (l1 ++ l2)
         && oracle_ok (nodes w n) i
         && forallb (fun dl => (0 <=? dl) && (dl <=? d)) delays
      then
        let (st', outs) := step (cfgs n) now (nodes w n) i in
        Some (mkWorld (set_node (nodes w) n st')
                      (l1 ++ l2 ++ emit n now outs delays)
                      (cancels n outs ++ cancelled w))
      else None
    end.

  Fixpoint wcheck (w : world) (gs : list gstep) : option world :=
    match gs with
    | [] => Some w
    | g :: r => match wcheck_step w g with Some w' => wcheck w' r | None => None end
    end.
End Check.

(** case = (cfgs as a list indexed by node, d, n, probe, initial orders, global trace) *)
Definition ok_world (case : list cfg * Z * Z * Z * list (list Z) * list gstep) : bool :=
  let '(cl, d, n, probe, ords, gs) := case in
  let cfgs := fun i => nth (Z.to_nat i) cl (mkCfg i 0 0 0 0 true) in
  let ord := fun i => nth (Z.to_nat i) ords [] in
  match wcheck cfgs d (mesh_world n probe ord) gs with Some _ => true | None => false end.
