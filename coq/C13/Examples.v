(** C13 — concrete instances showing that the hypotheses of the conditional theorems are
    satisfiable (stated again in Props.v). *)
From HS Require Import Base.Prelude C13.Model C13.Net C13.NodeProofs C13.NetProofs C13.ProbeOrder.
Local Open Scope Z_scope.

Lemma cfg_ok_satisfiable_holds :
  cfg_ok (fun i => mkCfg i 1000000000 500000000 5000000000 3 true) 200000000.
Proof. split; [lia|]. intros n; cbn. lia. Qed.

Lemma probed_example_holds :
  let ms := members (init_state [1; 2; 3] [1; 2; 3]) in
  probes ms [1; 2; 3] 1 [[]; []; [3; 2; 1]; []; []] = [2; 3; 3; 2; 1].
Proof. vm_compute. reflexivity. Qed.

Lemma detection_example_holds :
  let c := mkCfg 0 1000000000 500000000 5000000000 3 true in
  let s0 := init_state [1; 2] [1; 2] in
  let s1 := fst (step c 1000000000 s0 (ITick [true; true] [])) in
  let s2 := fst (step c 1500000000 s1 (IIndirect (Some 1) [2])) in
  let s3 := fst (step c 6500000000 s2 (ISusp (Some 1))) in
  let s4 := fst (step c 7000000000 s3 (IPing (Some 1) [])) in
  (is_member 1 (members s1), packs_get 1 (packs s1),
   option_map m_state (find_member 1 (members s2)),
   option_map m_state (find_member 1 (members s3)),
   option_map m_state (find_member 1 (members s4)))
  = (true, Some 0, Some Suspect, Some Dead, Some Dead).
Proof. vm_compute. reflexivity. Qed.

