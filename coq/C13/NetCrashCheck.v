(** C13 — checker (and soundness) that a recorded run with a member stopped by the harness
    is a path of the relation [NetCrash.cstep]. *)
From HS Require Import Base.Prelude C13.Model C13.Net C13.NetCheck C13.NetCheckProofs C13.NetCrash.
Local Open Scope Z_scope.

Inductive cgstep := CG (g : gstep) | CCrash (n : Z).

Definition zmem (x : Z) (l : list Z) : bool := existsb (Z.eqb x) l.

Section Check.
  Variable cfgs : Z -> cfg.
  Variable d : Z.

  (** events that may be removed before the next delivery at [now]: cancelled timers that are
      due, and everything addressed to a stopped member *)
  Definition removable (w : world) (cr : list Z) (now : Z) (y : pev) : bool :=
    stale w now y || zmem (p_node y) cr.

  Definition ccheck_step (c : world * list Z) (g : cgstep) : option (world * list Z) :=
    let (w, cr) := c in
    match g with
    | CCrash n => Some (w, n :: cr)
    | CG (n, now, i, delays) =>
      let pool1 := filter (fun y => negb (removable w cr now y)) (pool w) in
      match extract (fun y => (p_node y =? n) && (p_time y =? now) && kind_matches (p_kind y) i
                              && negb (is_cancelled w y)) pool1 with
      | None => None
      | Some (l1, x, l2) =>
        if negb (zmem n cr)
           && forallb (fun y => now <=? p_time y) (l1 ++ l2)
           && oracle_ok (nodes w n) i
           && forallb (fun dl => (0 <=? dl) && (dl <=? d)) delays
        then
          let (st', outs) := step (cfgs n) now (nodes w n) i in
          Some (mkWorld (set_node (nodes w) n st')
                        (l1 ++ l2 ++ emit n now outs delays)
                        (cancels n outs ++ cancelled w), cr)
        else None
      end
    end.

  Fixpoint ccheck (c : world * list Z) (gs : list cgstep) : option (world * list Z) :=
    match gs with
    | [] => Some c
    | g :: r => match ccheck_step c g with Some c' => ccheck c' r | None => None end
    end.

  Variable w0 : world.

  Lemma zmem_in x l : zmem x l = true -> In x l.
  Proof. unfold zmem. rewrite existsb_exists. intros (y & Hy & E). assert (x = y) by lia. now subst. Qed.
  Lemma zmem_not_in x l : zmem x l = false -> ~ In x l.
  Proof.
    unfold zmem. intros H Hin. assert (existsb (Z.eqb x) l = true); [|congruence].
    apply existsb_exists. exists x. split; [exact Hin|apply Z.eqb_refl].
  Qed.

  Lemma remove_many now nd canc cr : forall rest pre,
    creach cfgs d w0 (mkWorld nd (pre ++ rest) canc, cr) ->
    creach cfgs d w0 (mkWorld nd (pre ++ filter (fun y => negb (removable (mkWorld nd [] canc) cr now y)) rest) canc, cr).
  Proof.
    induction rest as [|h r IH]; intros pre Hr; cbn [filter]; [exact Hr|].
    destruct (negb (removable (mkWorld nd [] canc) cr now h)) eqn:E.
    - replace (pre ++ h :: filter _ r)
        with ((pre ++ [h]) ++ filter (fun y => negb (removable (mkWorld nd [] canc) cr now y)) r)
        by (rewrite <- app_assoc; reflexivity).
      apply IH. rewrite <- app_assoc. exact Hr.
    - apply IH. apply negb_false_iff in E. unfold removable in E. apply orb_true_iff in E as [E|E].
      + unfold stale in E. apply andb_true_iff in E as [_ E].
        eapply creach_step; [exact Hr|].
        apply (cs_skip cfgs d (mkWorld nd (pre ++ h :: r) canc) cr pre h r); [reflexivity|exact E].
      + eapply creach_step; [exact Hr|].
        apply (cs_drop cfgs d (mkWorld nd (pre ++ h :: r) canc) cr pre h r); [reflexivity|apply zmem_in, E].
  Qed.

  Lemma ccheck_step_sound c g c' :
    ccheck_step c g = Some c' -> creach cfgs d w0 c -> creach cfgs d w0 c'.
  Proof.
    destruct c as [w cr]. destruct g as [[[[n now] i] delays]|n]; cbn [ccheck_step].
    2: { intros [= <-] Hr. eapply creach_step; [exact Hr|apply cs_crash]. }
    intros H Hr.
    set (pool1 := filter (fun y => negb (removable w cr now y)) (pool w)) in *.
    assert (Hr1 : creach cfgs d w0 (mkWorld (nodes w) pool1 (cancelled w), cr)).
    { destruct w as [nd pl canc]. cbn [pool nodes cancelled] in *.
      apply (remove_many now nd canc cr pl []). exact Hr. }
    destruct (extract _ pool1) as [[[l1 x] l2]|] eqn:EX; [|discriminate].
    apply extract_spec in EX as [Hp Hx].
    apply andb_true_iff in Hx as [Hx Hnc]. apply andb_true_iff in Hx as [Hx Hk].
    apply andb_true_iff in Hx as [Hn Ht].
    assert (p_node x = n) as En by lia. assert (p_time x = now) as Et by lia.
    destruct (negb (zmem n cr) && _ && _ && _) eqn:C; [|discriminate].
    apply andb_true_iff in C as [C Hdl]. apply andb_true_iff in C as [C Hor].
    apply andb_true_iff in C as [Hlive Hmin].
    destruct (step (cfgs n) now (nodes w n) i) as [st' outs] eqn:ST.
    injection H as <-.
    eapply creach_step; [exact Hr1|].
    rewrite <- En, <- Et.
    apply (cs_deliver cfgs d (mkWorld (nodes w) pool1 (cancelled w)) cr l1 x l2 i delays st' outs).
    - exact Hp.
    - intros y Hy. rewrite forallb_forall in Hmin. specialize (Hmin y Hy). lia.
    - rewrite En. apply zmem_not_in. now apply negb_true_iff in Hlive.
    - apply negb_true_iff in Hnc. exact Hnc.
    - apply kind_matches_sound, Hk.
    - cbn [nodes]. rewrite En. exact Hor.
    - apply Forall_forall. intros dl Hd. rewrite forallb_forall in Hdl. specialize (Hdl dl Hd). lia.
    - cbn [nodes]. rewrite En, Et. exact ST.
  Qed.

  Lemma ccheck_sound gs : forall c c',
    ccheck c gs = Some c' -> creach cfgs d w0 c -> creach cfgs d w0 c'.
  Proof.
    induction gs as [|g r IH]; intros c c'; cbn; [intros [= <-]; auto|].
    destruct (ccheck_step c g) as [c1|] eqn:E; [|discriminate].
    intros H Hr. eapply IH; [exact H|]. eapply ccheck_step_sound; eauto.
  Qed.
End Check.

Definition ok_cworld (case : list cfg * Z * Z * Z * list (list Z) * list cgstep) : bool :=
  let '(cl, d, n, probe, ords, gs) := case in
  let cfgs := fun i => nth (Z.to_nat i) cl (mkCfg i 0 0 0 0 true) in
  let ord := fun i => nth (Z.to_nat i) ords [] in
  match ccheck cfgs d (mesh_world n probe ord, []) gs with Some _ => true | None => false end.

Lemma ok_cworld_sound cl d n probe ords gs :
  ok_cworld (cl, d, n, probe, ords, gs) = true ->
  exists c, creach (fun i => nth (Z.to_nat i) cl (mkCfg i 0 0 0 0 true)) d
                   (mesh_world n probe (fun i => nth (Z.to_nat i) ords [])) c
            /\ ccheck (fun i => nth (Z.to_nat i) cl (mkCfg i 0 0 0 0 true)) d
                      (mesh_world n probe (fun i => nth (Z.to_nat i) ords []), []) gs = Some c.
Proof.
  unfold ok_cworld. destruct (ccheck _ d (mesh_world n probe _, []) gs) as [c|] eqn:E; [|discriminate].
  intros _. exists c. split; [|reflexivity].
  eapply ccheck_sound; [exact E|apply creach_refl].
Qed.
