(** C13 — accuracy with stopping members: the cluster relation of Net.v extended with
    members that stop for good at an arbitrary moment ([cs_crash]; afterwards every event
    addressed to them is dropped, [cs_drop]).  Theorem: in every reachable configuration a
    member that is DEAD in anybody's view has stopped — a live member is never marked DEAD,
    for every schedule, delay, shuffle, phi decision and every set and timing of stops. *)
From HS Require Import Base.Prelude C13.Model C13.NodeProofs C13.Net C13.NetProofs.
Local Open Scope Z_scope.

Section Crash.
  Variable cfgs : Z -> cfg.
  Variable d : Z.

  (** configurations: world + the members that have stopped so far *)
  Inductive cstep : world * list Z -> world * list Z -> Prop :=
  | cs_skip : forall w cr l1 x l2,
      pool w = l1 ++ x :: l2 -> is_cancelled w x = true ->
      cstep (w, cr) (mkWorld (nodes w) (l1 ++ l2) (cancelled w), cr)
  | cs_crash : forall w cr n,                       (* any member may stop at any moment *)
      cstep (w, cr) (w, n :: cr)
  | cs_drop : forall w cr l1 x l2,                  (* events for a stopped member do nothing *)
      pool w = l1 ++ x :: l2 -> In (p_node x) cr ->
      cstep (w, cr) (mkWorld (nodes w) (l1 ++ l2) (cancelled w), cr)
  | cs_deliver : forall w cr l1 x l2 i delays st' outs,
      pool w = l1 ++ x :: l2 ->
      (forall y, In y (l1 ++ l2) -> p_time x <= p_time y) ->
      ~ In (p_node x) cr ->
      is_cancelled w x = false ->
      input_matches (p_kind x) i ->
      oracle_ok (nodes w (p_node x)) i = true ->
      Forall (fun dl => 0 <= dl <= d) delays ->
      step (cfgs (p_node x)) (p_time x) (nodes w (p_node x)) i = (st', outs) ->
      cstep (w, cr) (mkWorld (set_node (nodes w) (p_node x) st')
                             (l1 ++ l2 ++ emit (p_node x) (p_time x) outs delays)
                             (cancels (p_node x) outs ++ cancelled w), cr).

  Inductive creach (w0 : world) : world * list Z -> Prop :=
  | creach_refl : creach w0 (w0, [])
  | creach_step : forall c c', creach w0 c -> cstep c c' -> creach w0 c'.
End Crash.

(** ** only stopped members may be DEAD *)
Definition deadC (cr : list Z) (ms : list member) : Prop :=
  Forall (fun m => m_state m = Dead -> In (m_name m) cr) ms.
Definition cleanC (cr : list Z) (us : list upd) : Prop :=
  Forall (fun u => u_kind u = 1 -> In (u_member u) cr) us.
Definition clean_nodeC (cr : list Z) (st : nstate) : Prop :=
  deadC cr (members st) /\ cleanC cr (pend st).

Lemma deadC_mono cr cr' ms : incl cr cr' -> deadC cr ms -> deadC cr' ms.
Proof. intros Hi H. eapply Forall_impl; [|exact H]. cbn; intros m Hm Hd. apply Hi, Hm, Hd. Qed.
Lemma cleanC_mono cr cr' us : incl cr cr' -> cleanC cr us -> cleanC cr' us.
Proof. intros Hi H. eapply Forall_impl; [|exact H]. cbn; intros m Hm Hd. apply Hi, Hm, Hd. Qed.

Lemma deadC_upd cr n f ms :
  (forall m, m_name (f m) = m_name m) ->
  (forall m, m_name m = n -> (m_state m = Dead -> In n cr) -> m_state (f m) = Dead -> In n cr) ->
  deadC cr ms -> deadC cr (upd_member n f ms).
Proof.
  intros Hn Hf H. unfold deadC, upd_member. apply Forall_map. eapply Forall_impl; [|exact H].
  intros m Hm; cbn. destruct (m_name m =? n) eqn:E; [|exact Hm].
  assert (m_name m = n) as En by lia. rewrite Hn, En. apply Hf; [exact En|]. rewrite <- En. exact Hm.
Qed.

Lemma deadC_apply_update cr ms u :
  (u_kind u = 1 -> In (u_member u) cr) -> deadC cr ms -> deadC cr (apply_update ms u).
Proof.
  intros Hk H. unfold apply_update. destruct (find_member (u_member u) ms); [|exact H].
  destruct (u_inc u <? m_inc m); [exact H|].
  destruct ((u_kind u =? 0) && _); [apply deadC_upd; [reflexivity|cbn; discriminate|exact H]|].
  destruct ((u_kind u =? 1) && _) eqn:E1.
  { apply deadC_upd; [reflexivity| |exact H]. intros _ _ _ _. apply Hk.
    apply andb_true_iff in E1 as [E1 _]. lia. }
  destruct ((u_kind u =? 2) && _); [apply deadC_upd; [reflexivity|cbn; discriminate|exact H]|exact H].
Qed.

Lemma deadC_apply_updates cr us : cleanC cr us -> forall ms, deadC cr ms -> deadC cr (apply_updates ms us).
Proof.
  unfold apply_updates. induction 1 as [|u r Hu Hr IH]; intros ms H; cbn; [exact H|].
  apply IH. apply deadC_apply_update; assumption.
Qed.

Lemma deadC_heartbeat cr s now ms : deadC cr ms -> deadC cr (upd_member s (heartbeat now) ms).
Proof.
  apply deadC_upd; [reflexivity|]. intros m En Hm; cbn.
  destruct (m_state m); cbn; try discriminate. intros _. now apply Hm.
Qed.

Lemma phi_pass_cleanC cr c : forall ms avail,
  deadC cr ms -> deadC cr (fst (phi_pass c ms avail)) /\ cleanC cr (snd (phi_pass c ms avail)).
Proof.
  induction ms as [|m r IH]; intros avail H; cbn; [split; constructor|].
  inversion H as [|x l Hm Hr]; subst.
  specialize (IH (tl avail) Hr). destruct (phi_pass c r (tl avail)) as [r' us]; cbn in IH.
  destruct IH as [I1 I2].
  destruct (mstate_eqb (m_state m) Alive && _); cbn; split; try constructor; cbn; auto; discriminate.
Qed.

Lemma suspect_cleanC cr t ms :
  deadC cr ms -> deadC cr (fst (suspect_member t ms)) /\ cleanC cr (snd (suspect_member t ms)).
Proof.
  intros H. unfold suspect_member. destruct (find_member t ms); [|split; [exact H|constructor]].
  destruct (mstate_eqb (m_state m) Alive); cbn; [|split; [exact H|constructor]].
  split; [apply deadC_upd; [reflexivity|cbn; discriminate|exact H]|].
  constructor; [cbn; discriminate|constructor].
Qed.

(** ** the five handlers *)
Lemma step_tickC cr c now st avail shuf st' outs :
  step c now st (ITick avail shuf) = (st', outs) ->
  oracle_ok st (ITick avail shuf) = true ->
  clean_nodeC cr st ->
  clean_nodeC cr st' /\ names (members st') = names (members st) /\
  ((outs = [OTimer TTick (-1) (now + c_probe c) 0] /\ packs st' = packs st) \/
   (exists t us, is_member t (members st) = true /\ cleanC cr us /\
      packs st' = packs_set t (next_id st) (packs st) /\
      outs = [OSend t false (c_self c) None None (inc st) us;
              OTimer TIndirect (next_id st) (now + c_half c) t]
             ++ match packs_get t (packs st) with Some old => [OCancel old] | None => [] end
             ++ [OTimer TTick (-1) (now + c_probe c) 0])).
Proof.
  intros Hs Hor [Hnd Hcl]. cbn [step] in Hs. cbn [oracle_ok] in Hor.
  apply andb_true_iff in Hor as [_ Hor].
  pose proof (phi_pass_cleanC cr c (members st) avail Hnd) as [P1 P2].
  pose proof (names_phi_pass c (members st) avail) as PN.
  pose proof (not_dead_phi_pass c (members st) avail) as PD.
  destruct (phi_pass c (members st) avail) as [ms1 sus]; cbn [fst snd] in *.
  assert (Hc1 : cleanC cr (pend st ++ sus)) by (apply Forall_app; split; assumption).
  destruct (next_probe_target ms1 (order st) (pidx st) shuf) as [[[t|] ord'] idx'] eqn:NP.
  - pose proof (next_probe_target_member _ _ _ _ _ _ _ _ PD Hor NP) as Hm.
    injection Hs as <- <-. cbn. split; [split; [assumption|constructor]|]. split; [assumption|].
    right. exists t, (pend st ++ sus). repeat split; try assumption.
    rewrite <- (is_member_names t _ _ PN). exact Hm.
  - injection Hs as <- <-. cbn. split; [split; assumption|]. split; [assumption|]. now left.
Qed.

Lemma step_pingC cr c now st f us st' outs :
  step c now st (IPing (Some f) us) = (st', outs) ->
  clean_nodeC cr st -> cleanC cr us -> is_member f (members st) = true ->
  clean_nodeC cr st' /\ names (members st') = names (members st) /\ packs st' = packs st /\
  exists us', cleanC cr us' /\ outs = [OSend f true (c_self c) None (Some f) (inc st) us'].
Proof.
  intros Hs [Hnd Hcl] Hus Hm. cbn [step] in Hs.
  pose proof (names_apply_updates us (members st)) as AN.
  rewrite (is_member_names f _ _ AN), Hm in Hs. injection Hs as <- <-. cbn.
  split; [split; [apply deadC_heartbeat, deadC_apply_updates; assumption|constructor]|].
  split; [rewrite names_upd by reflexivity; exact AN|]. split; [reflexivity|].
  exists (pend st). split; [assumption|reflexivity].
Qed.

Lemma step_ackC cr c now st f us st' outs :
  step c now st (IAck (Some f) us) = (st', outs) ->
  clean_nodeC cr st -> cleanC cr us -> is_member f (members st) = true ->
  clean_nodeC cr st' /\ names (members st') = names (members st) /\
  packs st' = packs_del f (packs st) /\
  outs = match packs_get f (packs st) with Some old => [OCancel old] | None => [] end.
Proof.
  intros Hs [Hnd Hcl] Hus Hm. cbn [step] in Hs.
  pose proof (names_apply_updates us (members st)) as AN.
  rewrite (is_member_names f _ _ AN), Hm in Hs. injection Hs as <- <-. cbn.
  split; [split; [apply deadC_heartbeat, deadC_apply_updates; assumption|assumption]|].
  split; [rewrite names_upd by reflexivity; exact AN|]. split; reflexivity.
Qed.

(** the suspicion timeout of a stopped member [t] *)
Lemma step_suspC cr c now st t st' outs :
  step c now st (ISusp (Some t)) = (st', outs) ->
  clean_nodeC cr st -> In t cr ->
  clean_nodeC cr st' /\ names (members st') = names (members st) /\ outs = [] /\
  forall t', t' <> t -> packs_get t' (packs st') = packs_get t' (packs st).
Proof.
  intros Hs [Hnd Hcl] Ht. cbn [step] in Hs.
  destruct (find_member t (members st)) as [info|] eqn:F.
  - destruct (mstate_eqb (m_state info) Suspect); injection Hs as <- <-; cbn.
    + split; [split|].
      * apply deadC_upd; [reflexivity| |exact Hnd]. intros; exact Ht.
      * apply Forall_app; split; [exact Hcl|]. constructor; [cbn; intros _; exact Ht|constructor].
      * split; [apply names_upd; reflexivity|]. split; [reflexivity|].
        intros t' Hne. apply packs_get_del_other, Hne.
    + split; [split; assumption|]. split; [reflexivity|]. split; [reflexivity|].
      intros t' Hne. apply packs_get_del_other, Hne.
  - injection Hs as <- <-. split; [split; assumption|]. repeat split; reflexivity.
Qed.

Lemma in_names_member d : forall ms, In d (names ms) -> is_member d ms = true.
Proof.
  unfold is_member. induction ms as [|m r IH]; cbn; [tauto|].
  destruct (m_name m =? d) eqn:E; [reflexivity|]. intros [H|H]; [lia|apply IH, H].
Qed.

Lemma delegates_member ms t d : In d (delegates ms t) -> is_member d ms = true.
Proof.
  unfold delegates. intros H. apply in_map_iff in H as (m & <- & Hm). apply filter_In in Hm as [Hm _].
  apply in_names_member. unfold names. apply in_map, Hm.
Qed.

Lemma firstn_in {A} n (l : list A) x : In x (firstn n l) -> In x l.
Proof. revert l; induction n; intros [|y r]; cbn; try tauto. intros [H|H]; [now left|right; auto]. Qed.

(** the ack timeout of a stopped member [t] fires *)
Lemma step_indirectC cr c now st t shuf st' outs :
  step c now st (IIndirect (Some t) shuf) = (st', outs) ->
  oracle_ok st (IIndirect (Some t) shuf) = true ->
  clean_nodeC cr st ->
  clean_nodeC cr st' /\ names (members st') = names (members st) /\
  ((outs = [] /\ packs st' = packs st) \/
   (exists old chosen us0,
      (forall d', In d' chosen -> is_member d' (members st) = true) /\ cleanC cr us0 /\
      packs st' = packs_set t (next_id st) (packs st) /\
      outs = indirect_sends c t (inc st) chosen us0
             ++ [OTimer TSusp (next_id st) (now + c_susp c) t; OCancel old])).
Proof.
  intros Hs Hor [Hnd Hcl]. cbn [step] in Hs. cbn [oracle_ok] in Hor.
  destruct (is_member t (members st)) eqn:Hm; cbn [negb andb] in *;
    [|injection Hs as <- <-; split; [split; assumption|]; split; [reflexivity|]; now left].
  destruct (packs_get t (packs st)) as [old|] eqn:Hp;
    [|injection Hs as <- <-; split; [split; assumption|]; split; [reflexivity|]; now left].
  pose proof (suspect_cleanC cr t (members st) Hnd) as [S1 S2].
  pose proof (names_suspect t (members st)) as SN.
  destruct (suspect_member t (members st)) as [ms1 sus]; cbn [fst snd] in *.
  assert (Hc1 : cleanC cr (pend st ++ sus)) by (apply Forall_app; split; assumption).
  injection Hs as <- <-. cbn [members pend packs].
  split; [split; [exact S1|]|].
  { destruct (firstn (Z.to_nat (c_k c)) shuf); [exact Hc1|constructor]. }
  split; [exact SN|]. right.
  exists old, (firstn (Z.to_nat (c_k c)) shuf), (pend st ++ sus).
  split; [|split; [exact Hc1|split; reflexivity]].
  intros d' Hd'. apply firstn_in in Hd'. apply (is_perm_in _ _ _ Hor) in Hd'.
  eapply delegates_member; exact Hd'.
Qed.

Lemma emit_indirect N now c t i tm id old : forall chosen us delays e,
  In e (emit N now (indirect_sends c t i chosen us ++ [OTimer TSusp id tm t; OCancel old]) delays) ->
  (exists d' us', In d' chosen /\ (us' = us \/ us' = []) /\ p_node e = d' /\ p_kind e = PPing (c_self c) us')
  \/ e = mkPev tm N id (PSusp t).
Proof.
  induction chosen as [|d0 r IH]; intros us delays e; cbn.
  - intros [<-|[]]. now right.
  - intros [<-|H].
    + left. exists d0, us. cbn. tauto.
    + destruct (IH [] (tl delays) e H) as [(d' & us' & H1 & H2 & H3)|H']; [|now right].
      left. exists d', us'. split; [now right|]. split; [|exact H3]. right. destruct H2; assumption.
Qed.

Lemma cancels_indirect N c t i tm id old : forall chosen us,
  cancels N (indirect_sends c t i chosen us ++ [OTimer TSusp id tm t; OCancel old]) = [(N, old)].
Proof. induction chosen as [|d0 r IH]; intros us; cbn; [reflexivity|apply IH]. Qed.

Section CrashInv.
  Variable cfgs : Z -> cfg.
  Variable d : Z.
  Hypothesis Hcfg : cfg_ok cfgs d.

  Definition good_kindC (w : world) (cr : list Z) (e : pev) : Prop :=
    match p_kind e with
    | PTick | PIndirect _ => True
    | PSusp t => In t cr
    | PPing f us | PAck f us =>
      cleanC cr us /\ is_member f (members (nodes w (p_node e))) = true
    end.

  Definition timer_okC (w : world) (cr : list Z) (e : pev) : Prop :=
    match p_kind e with
    | PIndirect T =>
      in_cancelled (p_node e) (p_id e) (cancelled w) = true \/ In T cr \/ In (p_node e) cr \/
      (packs_get T (packs (nodes w (p_node e))) = Some (p_id e) /\
       exists e', In e' (pool w) /\ resp d (p_node e) T (p_time e) e')
    | _ => True
    end.

  Definition CInv (c : world * list Z) : Prop :=
    let (w, cr) := c in
    (forall n, clean_nodeC cr (nodes w n)) /\ sym (nodes w) /\
    forall e, In e (pool w) -> good_kindC w cr e /\ timer_okC w cr e.

  Lemma keep_goodC w w' cr e :
    (forall n m, is_member m (members (nodes w' n)) = is_member m (members (nodes w n))) ->
    good_kindC w cr e -> good_kindC w' cr e.
  Proof.
    intros Hm. unfold good_kindC. destruct (p_kind e); try tauto; rewrite Hm; tauto.
  Qed.

  Lemma keep_timerC w w' cr e :
    timer_okC w cr e ->
    (forall n i, in_cancelled n i (cancelled w) = true -> in_cancelled n i (cancelled w') = true) ->
    (forall T, p_kind e = PIndirect T -> ~ In T cr ->
       packs_get T (packs (nodes w (p_node e))) = Some (p_id e) ->
       in_cancelled (p_node e) (p_id e) (cancelled w') = true \/
       packs_get T (packs (nodes w' (p_node e))) = Some (p_id e)) ->
    (forall T e', p_kind e = PIndirect T -> In e' (pool w) -> resp d (p_node e) T (p_time e) e' ->
       in_cancelled (p_node e) (p_id e) (cancelled w') = true \/ In T cr \/ In (p_node e) cr \/
       exists e'', In e'' (pool w') /\ resp d (p_node e) T (p_time e) e'') ->
    timer_okC w' cr e.
  Proof.
    unfold timer_okC. intros T Hc Hp Hw. destruct (p_kind e) as [|T0| | |]; try exact I.
    destruct T as [T|[T|[T|[T1 (e' & T2 & T3)]]]]; [left; apply Hc, T|tauto|tauto|].
    destruct (in_dec Z.eq_dec T0 cr) as [Hin|Hnin]; [tauto|].
    destruct (Hp T0 eq_refl Hnin T1) as [H|H]; [now left|].
    destruct (Hw T0 e' eq_refl T2 T3) as [H'|[H'|[H'|H']]]; tauto.
  Qed.

  Lemma inv_nodesC w cr N st' :
    (forall n, clean_nodeC cr (nodes w n)) -> sym (nodes w) ->
    clean_nodeC cr st' -> names (members st') = names (members (nodes w N)) ->
    (forall n, clean_nodeC cr (set_node (nodes w) N st' n)) /\ sym (set_node (nodes w) N st').
  Proof.
    intros Hc Hs Hc' Hn. split.
    - intros n. unfold set_node. destruct (n =? N); [exact Hc'|apply Hc].
    - intros n m. rewrite !(set_node_member _ _ _ Hn). apply Hs.
  Qed.

  (** generic treatment of the events that stay in the pool when node [N] handles an event
      that is neither a ping nor an ack (so it is nobody's witness) *)
  Lemma old_events_stay w cr N st' l1 x l2 new canc' :
    pool w = l1 ++ x :: l2 ->
    (forall A T f, ~ resp d A T f x) ->
    names (members st') = names (members (nodes w N)) ->
    (forall n i, in_cancelled n i (cancelled w) = true -> in_cancelled n i canc' = true) ->
    (forall T id, ~ In T cr -> packs_get T (packs (nodes w N)) = Some id ->
       in_cancelled N id canc' = true \/ packs_get T (packs st') = Some id) ->
    forall e, In e (l1 ++ l2) -> good_kindC w cr e /\ timer_okC w cr e ->
    good_kindC (mkWorld (set_node (nodes w) N st') (l1 ++ l2 ++ new) canc') cr e /\
    timer_okC (mkWorld (set_node (nodes w) N st') (l1 ++ l2 ++ new) canc') cr e.
  Proof.
    intros Hpool Hnw Nm Hcan Hpk e He [G T].
    pose proof (set_node_member (nodes w) N st' Nm) as Hmem.
    split; [eapply keep_goodC; [|exact G]; exact Hmem|].
    apply (keep_timerC w _ cr e T); cbn [pool nodes cancelled].
    - exact Hcan.
    - intros T0 _ Hnin H. unfold set_node. destruct (p_node e =? N) eqn:EN; [|now right].
      assert (p_node e = N) as EN' by lia. rewrite EN' in *. apply Hpk; assumption.
    - intros T0 e' _ T2 T3. right; right; right. exists e'. split; [|exact T3].
      rewrite Hpool in T2. apply in_mid in T2 as [->|T2]; [|apply in_rest_new, T2].
      exfalso. exact (Hnw _ _ _ T3).
  Qed.

  Lemma not_resp_kind x : (forall f us, p_kind x <> PPing f us) -> (forall f us, p_kind x <> PAck f us) ->
    forall A T f, ~ resp d A T f x.
  Proof.
    intros H1 H2 A T f H. destruct (resp_kind _ _ _ _ _ H) as [[us K]|[us K]]; [eapply H1|eapply H2]; eauto.
  Qed.

  Lemma cinv_step c c' : CInv c -> cstep cfgs d c c' -> CInv c'.
  Proof.
    destruct Hcfg as [Hd Hc]. intros HI Hstep.
    destruct Hstep as [w cr l1 x l2 Hpool Hcan | w cr n | w cr l1 x l2 Hpool Hcr
                      | w cr l1 x l2 i delays st' outs Hpool Hmin Hlive Hcan Him Hor Hdl Hs];
      destruct HI as (IC & IS & IP).
    - (* a cancelled timer is dropped *)
      split; [exact IC|]. split; [exact IS|]. cbn [pool nodes cancelled].
      intros e He. assert (He' : In e (pool w)).
      { rewrite Hpool. apply in_app_or in He as [He|He]; apply in_or_app; [now left|right; now right]. }
      destruct (IP e He') as [G T]. split; [exact G|].
      apply (keep_timerC w _ cr e T); cbn [pool nodes cancelled].
      + auto.
      + intros T0 _ _ H; now right.
      + intros T0 e' _ T2 T3. right; right; right. exists e'. split; [|exact T3].
        rewrite Hpool in T2. apply in_mid in T2 as [->|T2]; [|exact T2].
        exfalso. unfold is_cancelled in Hcan.
        destruct (resp_kind _ _ _ _ _ T3) as [[us K]|[us K]]; rewrite K in Hcan; discriminate.
    - (* a member stops *)
      assert (Hinc : incl cr (n :: cr)) by (intros y Hy; now right).
      split; [intros k; destruct (IC k) as [A B]; split; [eapply deadC_mono|eapply cleanC_mono]; eauto|].
      split; [exact IS|]. intros e He. destruct (IP e He) as [G T]. split.
      + unfold good_kindC in *. destruct (p_kind e); try tauto; [now right|..];
          destruct G as [G1 G2]; (split; [eapply cleanC_mono; eauto|exact G2]).
      + unfold timer_okC in *. destruct (p_kind e); try exact I.
        destruct T as [T|[T|[T|T]]]; [tauto|right; left; now right|right; right; left; now right|tauto].
    - (* an event for a stopped member is dropped *)
      split; [exact IC|]. split; [exact IS|]. cbn [pool nodes cancelled].
      intros e He. assert (He' : In e (pool w)).
      { rewrite Hpool. apply in_app_or in He as [He|He]; apply in_or_app; [now left|right; now right]. }
      destruct (IP e He') as [G T]. split; [exact G|].
      apply (keep_timerC w _ cr e T); cbn [pool nodes cancelled].
      + auto.
      + intros T0 _ _ H; now right.
      + intros T0 e' _ T2 T3.
        rewrite Hpool in T2. apply in_mid in T2 as [->|T2]; [|right; right; right; exists e'; split; assumption].
        (* the dropped event was the witness: its receiver has stopped *)
        destruct T3 as [(K1 & _ & _)|(K1 & _ & _)]; rewrite K1 in Hcr; tauto.
    - set (N := p_node x) in *. set (now := p_time x) in *.
      assert (Hx : In x (pool w)) by (rewrite Hpool; apply in_or_app; right; now left).
      destruct (IP x Hx) as [Gx Tx].
      assert (Hold : forall e, In e (l1 ++ l2) -> In e (pool w)).
      { intros e He. rewrite Hpool. apply in_app_or in He as [He|He]; apply in_or_app; [now left|right; now right]. }
      destruct (Hc N) as [HselfN HhalfN].
      destruct (p_kind x) as [|T|T|f us|f us] eqn:Kx.
      + (* probe tick *)
        destruct i as [avail shuf| | | | |]; try contradiction.
        destruct (step_tickC cr _ _ _ _ _ _ _ Hs Hor (IC N)) as (C' & Nm & Hout).
        destruct (inv_nodesC w cr N st' IC IS C' Nm) as [IC' IS'].
        pose proof (set_node_member (nodes w) N st' Nm) as Hmem.
        assert (Hnw : forall A T f, ~ resp d A T f x)
          by (apply not_resp_kind; intros; rewrite Kx; discriminate).
        split; [exact IC'|]. split; [exact IS'|]. cbn [pool nodes cancelled].
        destruct Hout as [[-> Hp]|(t & us & Ht & Hus & Hp & ->)].
        * cbn [emit cancels flat_map app]. intros e He. apply in_split3 in He as [He|He].
          -- apply (old_events_stay w cr N st' l1 x l2 _ _ Hpool Hnw Nm); auto.
             intros T0 id _ H. right. rewrite Hp. exact H.
          -- destruct He as [<-|[]]. unfold good_kindC, timer_okC; cbn. tauto.
        * set (dl := hd 0 delays).
          assert (Hdl0 : 0 <= dl <= d) by (apply hd_bound; [lia|exact Hdl]).
          set (eping := mkPev (now + dl) t (-1) (PPing (c_self (cfgs N)) us)).
          set (etimer := mkPev (now + c_half (cfgs N)) N (next_id (nodes w N)) (PIndirect t)).
          set (etick := mkPev (now + c_probe (cfgs N)) N (-1) PTick).
          set (outs0 := [OSend t false (c_self (cfgs N)) None None (inc (nodes w N)) us;
                         OTimer TIndirect (next_id (nodes w N)) (now + c_half (cfgs N)) t]
                        ++ match packs_get t (packs (nodes w N)) with Some old => [OCancel old] | None => [] end
                        ++ [OTimer TTick (-1) (now + c_probe (cfgs N)) 0]).
          assert (Hemit : emit N now outs0 delays = [eping; etimer; etick]).
          { unfold outs0. destruct (packs_get t (packs (nodes w N))); reflexivity. }
          rewrite Hemit.
          assert (Hcan' : forall id, packs_get t (packs (nodes w N)) = Some id ->
                     in_cancelled N id (cancels N outs0 ++ cancelled w) = true).
          { intros id Hid. unfold outs0. rewrite Hid. cbn. rewrite !Z.eqb_refl. reflexivity. }
          intros e He. apply in_split3 in He as [He|He].
          -- apply (old_events_stay w cr N st' l1 x l2 _ _ Hpool Hnw Nm); auto.
             ++ intros n i0 H. rewrite in_cancelled_app, H. apply orb_true_r.
             ++ intros T0 id _ H. destruct (Z.eq_dec T0 t) as [->|Hne]; [left; apply Hcan', H|].
                right. rewrite Hp, packs_get_set_other by exact Hne. exact H.
          -- destruct He as [<-|[<-|[<-|[]]]].
             ++ unfold good_kindC, timer_okC; cbn. split; [|exact I]. split; [exact Hus|].
                rewrite Hmem, HselfN. apply IS. exact Ht.
             ++ split; [exact I|]. unfold timer_okC. cbn [p_kind p_node p_id p_time etimer pool nodes cancelled].
                right; right; right. split.
                ** unfold set_node. rewrite Z.eqb_refl, Hp. apply packs_get_set_same.
                ** exists eping. split; [apply in_new; now left|].
                   left. cbn. rewrite HselfN. split; [reflexivity|]. split; [eexists; reflexivity|]. lia.
             ++ unfold good_kindC, timer_okC; cbn. tauto.
      + (* an ack timeout fires: its target has stopped *)
        assert (HT : In T cr).
        { unfold timer_okC in Tx. rewrite Kx in Tx.
          unfold is_cancelled in Hcan. rewrite Kx in Hcan.
          destruct Tx as [Tx|[Tx|[Tx|[_ (e' & T2 & T3)]]]];
            [rewrite Tx in Hcan; discriminate|exact Tx|contradiction|].
          exfalso. rewrite Hpool in T2. apply in_mid in T2 as [->|T2].
          - destruct (resp_kind _ _ _ _ _ T3) as [[us' K]|[us' K]]; rewrite Kx in K; discriminate.
          - specialize (Hmin e' T2). fold now in Hmin.
            destruct T3 as [(_ & _ & K)|(_ & _ & K)]; fold now in K; lia. }
        destruct i as [| | |[T'|] shuf| |]; try contradiction. cbn in Him. subst T'.
        destruct (step_indirectC cr _ _ _ _ _ _ _ Hs Hor (IC N)) as (C' & Nm & Hout).
        destruct (inv_nodesC w cr N st' IC IS C' Nm) as [IC' IS'].
        pose proof (set_node_member (nodes w) N st' Nm) as Hmem.
        assert (Hnw : forall A T0 f, ~ resp d A T0 f x)
          by (apply not_resp_kind; intros; rewrite Kx; discriminate).
        split; [exact IC'|]. split; [exact IS'|]. cbn [pool nodes cancelled].
        destruct Hout as [[-> Hp]|(old & chosen & us0 & Hch & Hus0 & Hp & ->)].
        * cbn [emit cancels flat_map app]. rewrite !app_nil_r. intros e He.
          pose proof (old_events_stay w cr N st' l1 x l2 [] (cancelled w) Hpool Hnw Nm) as Hk.
          rewrite !app_nil_r in Hk. apply Hk; auto. intros T0 id _ H. right. rewrite Hp. exact H.
        * rewrite cancels_indirect. intros e He. apply in_split3 in He as [He|He].
          -- apply (old_events_stay w cr N st' l1 x l2 _ _ Hpool Hnw Nm); auto.
             ++ intros n i0 H. rewrite in_cancelled_app, H. apply orb_true_r.
             ++ intros T0 id Hnin H. right. rewrite Hp, packs_get_set_other; [exact H|].
                intros ->. contradiction.
          -- apply emit_indirect in He as [(d' & us' & Hd' & Hus' & Kn & Kk)| ->].
             ++ unfold good_kindC, timer_okC. rewrite Kk. split; [|exact I]. split.
                ** destruct Hus' as [->| ->]; [exact Hus0|constructor].
                ** cbn [nodes]. rewrite Kn, Hmem, HselfN. apply IS. apply Hch, Hd'.
             ++ unfold good_kindC, timer_okC; cbn. tauto.
      + (* the suspicion timeout of a stopped member *)
        unfold good_kindC in Gx. rewrite Kx in Gx.
        destruct i as [| | | |[T'|]|]; try contradiction. cbn in Him. subst T'.
        destruct (step_suspC cr _ _ _ _ _ _ Hs (IC N) Gx) as (C' & Nm & -> & Hp).
        destruct (inv_nodesC w cr N st' IC IS C' Nm) as [IC' IS'].
        assert (Hnw : forall A T0 f, ~ resp d A T0 f x)
          by (apply not_resp_kind; intros; rewrite Kx; discriminate).
        split; [exact IC'|]. split; [exact IS'|]. cbn [pool nodes cancelled emit cancels flat_map app].
        rewrite !app_nil_r. intros e He.
        pose proof (old_events_stay w cr N st' l1 x l2 [] (cancelled w) Hpool Hnw Nm) as Hk.
        rewrite !app_nil_r in Hk. apply Hk; auto.
        intros T0 id Hnin H. right. rewrite Hp; [exact H|]. intros ->. contradiction.
      + (* a ping is answered *)
        destruct i as [|[f'|] us'| | | |]; try contradiction. destruct Him as [<- <-].
        unfold good_kindC in Gx. rewrite Kx in Gx. destruct Gx as [Gus Gm]. fold N in Gm.
        destruct (step_pingC cr _ _ _ _ _ _ _ Hs (IC N) Gus Gm) as (C' & Nm & Hp & (us2 & Hus2 & ->)).
        destruct (inv_nodesC w cr N st' IC IS C' Nm) as [IC' IS'].
        pose proof (set_node_member (nodes w) N st' Nm) as Hmem.
        split; [exact IC'|]. split; [exact IS'|]. cbn [pool nodes cancelled emit cancels flat_map app].
        set (dl := hd 0 delays).
        assert (Hdl0 : 0 <= dl <= d) by (apply hd_bound; [lia|exact Hdl]).
        set (eack := mkPev (now + dl) f (-1) (PAck (c_self (cfgs N)) us2)).
        intros e He. apply in_split3 in He as [He|He].
        * destruct (IP e (Hold e He)) as [G T]. split; [eapply keep_goodC; [|exact G]; exact Hmem|].
          apply (keep_timerC w _ cr e T); cbn [pool nodes cancelled].
          -- auto.
          -- intros T0 _ _ H. right. unfold set_node. destruct (p_node e =? N) eqn:EN; [|exact H].
             assert (p_node e = N) as EN' by lia. rewrite EN' in H. rewrite Hp. exact H.
          -- intros T0 e' _ T2 T3. right; right; right.
             rewrite Hpool in T2. apply in_mid in T2 as [->|T2];
               [|exists e'; split; [apply in_rest_new, T2|exact T3]].
             exists eack. split; [apply in_new; now left|].
             destruct T3 as [(K1 & (us' & K2) & K3)|(_ & (us' & K) & _)]; [|rewrite Kx in K; discriminate].
             rewrite Kx in K2. injection K2 as K2 _. fold N in K1. fold now in K3.
             right. cbn. rewrite HselfN. split; [congruence|]. split; [eexists; rewrite K1; reflexivity|lia].
        * destruct He as [<-|[]].
          unfold good_kindC, timer_okC; cbn. split; [|exact I]. split; [exact Hus2|].
          rewrite Hmem, HselfN. apply IS. exact Gm.
      + (* an ack cancels the ack timeout *)
        destruct i as [| |[f'|] us'| | |]; try contradiction. destruct Him as [<- <-].
        unfold good_kindC in Gx. rewrite Kx in Gx. destruct Gx as [Gus Gm]. fold N in Gm.
        destruct (step_ackC cr _ _ _ _ _ _ _ Hs (IC N) Gus Gm) as (C' & Nm & Hp & ->).
        destruct (inv_nodesC w cr N st' IC IS C' Nm) as [IC' IS'].
        pose proof (set_node_member (nodes w) N st' Nm) as Hmem.
        split; [exact IC'|]. split; [exact IS'|]. cbn [pool nodes cancelled].
        set (outs0 := match packs_get f (packs (nodes w N)) with Some old => [OCancel old] | None => [] end).
        assert (Hemit : emit N now outs0 delays = [])
          by (unfold outs0; destruct (packs_get f (packs (nodes w N))); reflexivity).
        rewrite Hemit, !app_nil_r.
        assert (Hcan' : forall id, packs_get f (packs (nodes w N)) = Some id ->
                   in_cancelled N id (cancels N outs0 ++ cancelled w) = true).
        { intros id Hid. unfold outs0. rewrite Hid. cbn. rewrite !Z.eqb_refl. reflexivity. }
        intros e He.
        destruct (IP e (Hold e He)) as [G T]. split; [eapply keep_goodC; [|exact G]; exact Hmem|].
        apply (keep_timerC w _ cr e T); cbn [pool nodes cancelled].
        * intros n i0 H. rewrite in_cancelled_app, H. apply orb_true_r.
        * intros T0 _ _ H. unfold set_node. destruct (p_node e =? N) eqn:EN; [|now right].
          assert (p_node e = N) as EN' by lia. rewrite EN' in *.
          destruct (Z.eq_dec T0 f) as [->|Hne]; [left; apply Hcan', H|].
          right. rewrite Hp, packs_get_del_other by exact Hne. exact H.
        * intros T0 e' Ke0 T2 T3.
          rewrite Hpool in T2. apply in_mid in T2 as [->|T2]; [|right; right; right; exists e'; split; assumption].
          destruct T3 as [(_ & (us' & K) & _)|(K1 & (us' & K2) & _)]; [rewrite Kx in K; discriminate|].
          rewrite Kx in K2. injection K2 as K2 _. fold N in K1. rewrite <- K1.
          unfold timer_okC in T. rewrite Ke0, <- K1 in T.
          destruct T as [T|[T|[T|[T _]]]]; [left; rewrite in_cancelled_app, T; apply orb_true_r|tauto|tauto|].
          left. apply Hcan'. rewrite K2. exact T.
  Qed.

  Lemma init_cinv w : init_ok w -> CInv (w, []).
  Proof.
    intros (H1 & H2 & H3). split; [|split; [exact H2|]].
    - intros n. destruct (H1 n) as [A B]. split.
      + eapply Forall_impl; [|exact A]. cbn. intros m Hm Hd. contradiction.
      + eapply Forall_impl; [|exact B]. cbn. intros u Hu Hk. contradiction.
    - intros e He. unfold good_kindC, timer_okC. rewrite (H3 e He). split; exact I.
  Qed.

  Lemma creach_inv w0 c : init_ok w0 -> creach cfgs d w0 c -> CInv c.
  Proof.
    intros H0 Hr. induction Hr as [|c c' Hr IH Hs]; [apply init_cinv, H0|eapply cinv_step; eauto].
  Qed.

  (** With members stopping at arbitrary moments on an otherwise healthy network: whoever is
      DEAD in anybody's view has stopped, and every "dead" update, queued or in flight, is
      about a member that has stopped. *)
  Lemma only_stopped_members_dead w0 w cr :
    init_ok w0 -> creach cfgs d w0 (w, cr) ->
    (forall n m, In m (members (nodes w n)) -> m_state m = Dead -> In (m_name m) cr) /\
    (forall n u, In u (pend (nodes w n)) -> u_kind u = 1 -> In (u_member u) cr) /\
    (forall e, In e (pool w) ->
       match p_kind e with
       | PSusp t => In t cr
       | PPing _ us | PAck _ us => forall u, In u us -> u_kind u = 1 -> In (u_member u) cr
       | _ => True
       end).
  Proof.
    intros H0 Hr. destruct (creach_inv w0 _ H0 Hr) as (IC & _ & IP). repeat split.
    - intros n m Hm. destruct (IC n) as [H _]. unfold deadC in H. rewrite Forall_forall in H. auto.
    - intros n u Hu. destruct (IC n) as [_ H]. unfold cleanC in H. rewrite Forall_forall in H. auto.
    - intros e He. destruct (IP e He) as [G _]. unfold good_kindC in G.
      destruct (p_kind e); try tauto; destruct G as [G _]; unfold cleanC in G;
        rewrite Forall_forall in G; exact G.
  Qed.
End CrashInv.
