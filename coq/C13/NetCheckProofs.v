(** C13 — soundness of the run checker: an accepted recorded run is a path of [Net.wstep]. *)
From HS Require Import Base.Prelude C13.Model C13.Net C13.NetCheck.
Local Open Scope Z_scope.

Lemma upd_eqb_iff a b : upd_eqb a b = true <-> a = b.
Proof.
  destruct a as [m k i], b as [m' k' i']; unfold upd_eqb; cbn. split.
  - intros H. apply andb_true_iff in H as [H H3]. apply andb_true_iff in H as [H1 H2].
    f_equal; lia.
  - intros [= -> -> ->]. rewrite !Z.eqb_refl. reflexivity.
Qed.

Lemma upds_eqb_eq a b : upds_eqb a b = true -> a = b.
Proof. apply list_eqb_spec. exact upd_eqb_iff. Qed.

Lemma kind_matches_sound k i : kind_matches k i = true -> input_matches k i.
Proof.
  destruct k, i; cbn; try discriminate; try tauto;
    try (destruct target; [|discriminate]); try (destruct suspect; [|discriminate]);
    try (destruct from0; [|discriminate]); try (destruct from; [|discriminate]); intros H; try lia.
  all: apply andb_true_iff in H as [H1 H2]; split; [lia|now apply upds_eqb_eq].
Qed.

Lemma extract_spec p : forall l l1 x l2,
  extract p l = Some (l1, x, l2) -> l = l1 ++ x :: l2 /\ p x = true.
Proof.
  induction l as [|y r IH]; intros l1 x l2; cbn; [discriminate|].
  destruct (p y) eqn:E.
  - intros [= <- <- <-]. split; [reflexivity|exact E].
  - destruct (extract p r) as [[[a b] c]|]; [|discriminate].
    intros [= <- <- <-]. destruct (IH a b c eq_refl) as [-> Hp]. split; [reflexivity|exact Hp].
Qed.

Section Sound.
  Variable cfgs : Z -> cfg.
  Variable d : Z.
  Variable w0 : world.

  Lemma skip_many now nd canc : forall rest pre,
    reach cfgs d w0 (mkWorld nd (pre ++ rest) canc) ->
    reach cfgs d w0 (mkWorld nd (pre ++ filter (fun y => negb (stale (mkWorld nd [] canc) now y)) rest) canc).
  Proof.
    induction rest as [|h r IH]; intros pre Hr; cbn [filter]; [exact Hr|].
    destruct (negb (stale (mkWorld nd [] canc) now h)) eqn:E.
    - replace (pre ++ h :: filter _ r) with ((pre ++ [h]) ++ filter (fun y => negb (stale (mkWorld nd [] canc) now y)) r)
        by (rewrite <- app_assoc; reflexivity).
      apply IH. rewrite <- app_assoc. exact Hr.
    - apply IH. apply negb_false_iff in E. unfold stale in E. apply andb_true_iff in E as [_ E].
      eapply reach_step; [exact Hr|].
      apply (ws_skip cfgs d (mkWorld nd (pre ++ h :: r) canc) pre h r); [reflexivity|exact E].
  Qed.

  Lemma wcheck_step_sound w g w' :
    wcheck_step cfgs d w g = Some w' -> reach cfgs d w0 w -> reach cfgs d w0 w'.
  Proof.
    destruct g as [[[n now] i] delays]. unfold wcheck_step. intros H Hr.
    set (pool1 := filter (fun y => negb (stale w now y)) (pool w)) in *.
    assert (Hr1 : reach cfgs d w0 (mkWorld (nodes w) pool1 (cancelled w))).
    { destruct w as [nd pl canc]. cbn [pool nodes cancelled] in *.
      apply (skip_many now nd canc pl []). exact Hr. }
    destruct (extract _ pool1) as [[[l1 x] l2]|] eqn:EX; [|discriminate].
    apply extract_spec in EX as [Hp Hx].
    apply andb_true_iff in Hx as [Hx Hnc]. apply andb_true_iff in Hx as [Hx Hk].
    apply andb_true_iff in Hx as [Hn Ht].
    assert (p_node x = n) as En by lia. assert (p_time x = now) as Et by lia.
    destruct (forallb _ (l1 ++ l2) && _ && _) eqn:C; [|discriminate].
    apply andb_true_iff in C as [C Hdl]. apply andb_true_iff in C as [Hmin Hor].
    destruct (step (cfgs n) now (nodes w n) i) as [st' outs] eqn:ST.
    injection H as <-.
    eapply reach_step; [exact Hr1|].
    rewrite <- En, <- Et.
    apply (ws_deliver cfgs d (mkWorld (nodes w) pool1 (cancelled w)) l1 x l2 i delays st' outs).
    - exact Hp.
    - intros y Hy. rewrite forallb_forall in Hmin. specialize (Hmin y Hy). lia.
    - apply negb_true_iff in Hnc. exact Hnc.
    - apply kind_matches_sound, Hk.
    - cbn [nodes]. rewrite En. exact Hor.
    - apply Forall_forall. intros dl Hd. rewrite forallb_forall in Hdl. specialize (Hdl dl Hd). lia.
    - cbn [nodes]. rewrite En, Et. exact ST.
  Qed.

  Lemma wcheck_sound gs : forall w w',
    wcheck cfgs d w gs = Some w' -> reach cfgs d w0 w -> reach cfgs d w0 w'.
  Proof.
    induction gs as [|g r IH]; intros w w'; cbn; [intros [= <-]; auto|].
    destruct (wcheck_step cfgs d w g) as [w1|] eqn:E; [|discriminate].
    intros H Hr. eapply IH; [exact H|]. eapply wcheck_step_sound; eauto.
  Qed.
End Sound.

(** Every recorded run accepted by [ok_world] is a path of the cluster relation from the
    mesh start configuration. *)
Lemma ok_world_sound cl d n probe ords gs :
  ok_world (cl, d, n, probe, ords, gs) = true ->
  exists w, reach (fun i => nth (Z.to_nat i) cl (mkCfg i 0 0 0 0 true)) d
                  (mesh_world n probe (fun i => nth (Z.to_nat i) ords []))  w
            /\ wcheck (fun i => nth (Z.to_nat i) cl (mkCfg i 0 0 0 0 true)) d
                      (mesh_world n probe (fun i => nth (Z.to_nat i) ords [])) gs = Some w.
Proof.
  unfold ok_world. destruct (wcheck _ d (mesh_world n probe _) gs) as [w|] eqn:E; [|discriminate].
  intros _. exists w. split; [|reflexivity].
  eapply wcheck_sound; [exact E|apply reach_refl].
Qed.
