(** C13 — accuracy on a healthy network: for every schedule of the cluster relation
    [Net.wstep] no member is ever marked DEAD and no "dead" update is ever created. *)
From HS Require Import Base.Prelude C13.Model C13.NodeProofs C13.Net.
Local Open Scope Z_scope.

(** ** member names are static *)
Definition names (ms : list member) : list Z := map m_name ms.

Lemma names_upd n f ms :
  (forall m, m_name (f m) = m_name m) -> names (upd_member n f ms) = names ms.
Proof.
  intros Hf. unfold names, upd_member. rewrite map_map. apply map_ext.
  intros m. destruct (m_name m =? n); [apply Hf|reflexivity].
Qed.

Lemma names_apply_update ms u : names (apply_update ms u) = names ms.
Proof.
  unfold apply_update. destruct (find_member (u_member u) ms); [|reflexivity].
  repeat match goal with |- context [if ?b then _ else _] => destruct b end;
    try reflexivity; apply names_upd; reflexivity.
Qed.

Lemma names_apply_updates us : forall ms, names (apply_updates ms us) = names ms.
Proof.
  unfold apply_updates. induction us as [|u r IH]; intros ms; cbn; [reflexivity|].
  rewrite IH. apply names_apply_update.
Qed.

Lemma names_phi_pass c : forall ms avail, names (fst (phi_pass c ms avail)) = names ms.
Proof.
  induction ms as [|m r IH]; intros avail; cbn; [reflexivity|].
  specialize (IH (tl avail)). destruct (phi_pass c r (tl avail)) as [r' us]; cbn in IH.
  destruct (mstate_eqb (m_state m) Alive && _); cbn; f_equal; exact IH.
Qed.

Lemma names_suspect t ms : names (fst (suspect_member t ms)) = names ms.
Proof.
  unfold suspect_member. destruct (find_member t ms); [|reflexivity].
  destruct (mstate_eqb _ _); cbn; [apply names_upd|]; reflexivity.
Qed.

Lemma is_member_names n : forall a b, names a = names b -> is_member n a = is_member n b.
Proof.
  unfold is_member. induction a as [|x a IH]; intros [|y b]; cbn; try discriminate; [reflexivity|].
  intros [= Hn Hr]. rewrite Hn. destruct (m_name y =? n); [reflexivity|]. apply IH, Hr.
Qed.

(** ** nobody DEAD *)
Definition nodead (ms : list member) : Prop := Forall (fun m => m_state m <> Dead) ms.

Lemma nodead_upd n f ms :
  (forall m, m_state m <> Dead -> m_state (f m) <> Dead) -> nodead ms -> nodead (upd_member n f ms).
Proof.
  intros Hf H. unfold nodead, upd_member. apply Forall_map. eapply Forall_impl; [|exact H].
  intros m Hm; cbn. destruct (m_name m =? n); auto.
Qed.

Lemma nodead_apply_update ms u : u_kind u <> 1 -> nodead ms -> nodead (apply_update ms u).
Proof.
  intros Hk H. unfold apply_update. destruct (find_member (u_member u) ms); [|exact H].
  destruct (u_inc u <? m_inc m); [exact H|].
  destruct ((u_kind u =? 0) && _); [apply nodead_upd; [cbn; congruence|exact H]|].
  assert (u_kind u =? 1 = false) as -> by lia. cbn.
  destruct ((u_kind u =? 2) && _); [apply nodead_upd; [cbn; congruence|exact H]|exact H].
Qed.

Lemma nodead_apply_updates us : clean_upds us -> forall ms, nodead ms -> nodead (apply_updates ms us).
Proof.
  unfold apply_updates. induction 1 as [|u r Hu Hr IH]; intros ms H; cbn; [exact H|].
  apply IH. apply nodead_apply_update; assumption.
Qed.

Lemma nodead_heartbeat s now ms : nodead ms -> nodead (upd_member s (heartbeat now) ms).
Proof.
  apply nodead_upd. intros m Hm; cbn. destruct (mstate_eqb (m_state m) Suspect); congruence.
Qed.

Lemma phi_pass_clean c : forall ms avail,
  nodead ms -> nodead (fst (phi_pass c ms avail)) /\ clean_upds (snd (phi_pass c ms avail)).
Proof.
  induction ms as [|m r IH]; intros avail H; cbn; [split; constructor|].
  inversion H as [|x l Hm Hr]; subst.
  specialize (IH (tl avail) Hr). destruct (phi_pass c r (tl avail)) as [r' us]; cbn in IH.
  destruct IH as [I1 I2].
  destruct (mstate_eqb (m_state m) Alive && _); cbn; split; try constructor; cbn; auto; congruence.
Qed.

Lemma not_dead_member ms n : not_dead ms n = true -> is_member n ms = true.
Proof. unfold not_dead, is_member. destruct (find_member n ms); [reflexivity|discriminate]. Qed.

Lemma find_none_names n : forall a b, names a = names b -> find_member n a = None -> find_member n b = None.
Proof.
  intros a b Hn H. pose proof (is_member_names n a b Hn) as E. unfold is_member in E.
  rewrite H in E. destruct (find_member n b); [discriminate|reflexivity].
Qed.

Lemma not_dead_phi_pass c ms avail n : not_dead (fst (phi_pass c ms avail)) n = not_dead ms n.
Proof.
  unfold not_dead. destruct (find_member n ms) as [m|] eqn:F.
  - destruct (phi_pass_find c ms avail n m F) as (m' & F' & [->|[Ha ->]]); rewrite F'; [reflexivity|].
    cbn. rewrite Ha. reflexivity.
  - rewrite (find_none_names n ms _ (eq_sym (names_phi_pass c ms avail)) F). reflexivity.
Qed.

(** ** permutations given as oracles *)
Lemma count_pos_in x : forall l, (0 < count_occ_z x l)%nat -> In x l.
Proof.
  induction l as [|y r IH]; cbn; [lia|]. destruct (x =? y) eqn:E; [left; lia|].
  intros H; right; apply IH; exact H.
Qed.
Lemma in_count_pos x : forall l, In x l -> (0 < count_occ_z x l)%nat.
Proof.
  induction l as [|y r IH]; cbn; [tauto|]. intros [->|H]; [rewrite Z.eqb_refl; lia|].
  specialize (IH H). destruct (x =? y); lia.
Qed.
Lemma is_perm_in a b x : is_perm a b = true -> In x a -> In x b.
Proof.
  unfold is_perm. intros H Hx. apply andb_true_iff in H as [_ H].
  rewrite forallb_forall in H. specialize (H x Hx). apply Nat.eqb_eq in H.
  apply count_pos_in. rewrite <- H. apply in_count_pos, Hx.
Qed.
Lemma is_perm_length a b : is_perm a b = true -> length a = length b.
Proof. unfold is_perm. intros H. apply andb_true_iff in H as [H _]. now apply Nat.eqb_eq in H. Qed.

(** the probe target is a member *)
Lemma next_probe_target_member ms ms0 ord idx shuf t ord' idx' :
  (forall n, not_dead ms n = not_dead ms0 n) ->
  (let alive := filter (not_dead ms0) ord in
   if negb (match alive with [] => true | _ => false end) && (zlen alive <=? idx)
   then is_perm shuf alive else true) = true ->
  next_probe_target ms ord idx shuf = (Some t, ord', idx') ->
  is_member t ms = true.
Proof.
  intros Hnd Hor. unfold next_probe_target.
  rewrite (filter_ext _ _ Hnd ord). cbn zeta in Hor.
  set (alive := filter (not_dead ms0) ord) in *.
  assert (Hin : forall x, In x alive -> is_member x ms = true).
  { intros x Hx. apply filter_In in Hx as [_ Hx]. rewrite <- Hnd in Hx. now apply not_dead_member. }
  destruct alive as [|a0 ar] eqn:EA; [discriminate|]. cbn [negb andb] in Hor.
  destruct (zlen (a0 :: ar) <=? idx) eqn:E.
  - intros [= <- _ _]. apply Hin. apply (is_perm_in _ _ _ Hor).
    pose proof (is_perm_length _ _ Hor) as HL. destruct shuf as [|s0 sr]; [discriminate|].
    rewrite Z.mod_0_l by (unfold zlen; cbn [length]; lia). unfold znth. cbn. now left.
  - intros [= <- _ _]. apply Hin. unfold znth. apply nth_In.
    assert (0 < zlen (a0 :: ar)) by (unfold zlen; cbn [length]; lia).
    pose proof (Z.mod_pos_bound idx (zlen (a0 :: ar)) H) as B. unfold zlen in *. lia.
Qed.

(** ** what the three handlers of a healthy run do *)
Lemma step_tick c now st avail shuf st' outs :
  step c now st (ITick avail shuf) = (st', outs) ->
  oracle_ok st (ITick avail shuf) = true ->
  clean_node st ->
  clean_node st' /\ names (members st') = names (members st) /\
  ((outs = [OTimer TTick (-1) (now + c_probe c) 0] /\ packs st' = packs st) \/
   (exists t us, is_member t (members st) = true /\ clean_upds us /\
      packs st' = packs_set t (next_id st) (packs st) /\
      outs = [OSend t false (c_self c) None None (inc st) us;
              OTimer TIndirect (next_id st) (now + c_half c) t]
             ++ match packs_get t (packs st) with Some old => [OCancel old] | None => [] end
             ++ [OTimer TTick (-1) (now + c_probe c) 0])).
Proof.
  intros Hs Hor [Hnd Hcl]. cbn [step] in Hs. cbn [oracle_ok] in Hor.
  apply andb_true_iff in Hor as [_ Hor].
  pose proof (phi_pass_clean c (members st) avail Hnd) as [P1 P2].
  pose proof (names_phi_pass c (members st) avail) as PN.
  pose proof (not_dead_phi_pass c (members st) avail) as PD.
  destruct (phi_pass c (members st) avail) as [ms1 sus]; cbn [fst snd] in *.
  assert (Hc1 : clean_upds (pend st ++ sus)) by (apply Forall_app; split; assumption).
  destruct (next_probe_target ms1 (order st) (pidx st) shuf) as [[[t|] ord'] idx'] eqn:NP.
  - pose proof (next_probe_target_member _ _ _ _ _ _ _ _ PD Hor NP) as Hm.
    injection Hs as <- <-. cbn. split; [split; [assumption|constructor]|]. split; [assumption|].
    right. exists t, (pend st ++ sus). repeat split; try assumption.
    rewrite <- (is_member_names t _ _ PN). exact Hm.
  - injection Hs as <- <-. cbn. split; [split; assumption|]. split; [assumption|]. now left.
Qed.

Lemma step_ping c now st f us st' outs :
  step c now st (IPing (Some f) us) = (st', outs) ->
  clean_node st -> clean_upds us -> is_member f (members st) = true ->
  clean_node st' /\ names (members st') = names (members st) /\ packs st' = packs st /\
  exists us', clean_upds us' /\ outs = [OSend f true (c_self c) None (Some f) (inc st) us'].
Proof.
  intros Hs [Hnd Hcl] Hus Hm. cbn [step] in Hs.
  pose proof (names_apply_updates us (members st)) as AN.
  rewrite (is_member_names f _ _ AN), Hm in Hs. injection Hs as <- <-. cbn.
  split; [split; [apply nodead_heartbeat, nodead_apply_updates; assumption|constructor]|].
  split; [rewrite names_upd by reflexivity; exact AN|]. split; [reflexivity|].
  exists (pend st). split; [assumption|reflexivity].
Qed.

Lemma step_ack c now st f us st' outs :
  step c now st (IAck (Some f) us) = (st', outs) ->
  clean_node st -> clean_upds us -> is_member f (members st) = true ->
  clean_node st' /\ names (members st') = names (members st) /\
  packs st' = packs_del f (packs st) /\
  outs = match packs_get f (packs st) with Some old => [OCancel old] | None => [] end.
Proof.
  intros Hs [Hnd Hcl] Hus Hm. cbn [step] in Hs.
  pose proof (names_apply_updates us (members st)) as AN.
  rewrite (is_member_names f _ _ AN), Hm in Hs. injection Hs as <- <-. cbn.
  split; [split; [apply nodead_heartbeat, nodead_apply_updates; assumption|assumption]|].
  split; [rewrite names_upd by reflexivity; exact AN|]. split; reflexivity.
Qed.

(** ** _pending_acks *)
Lemma packs_get_set_same t v : forall p, packs_get t (packs_set t v p) = Some v.
Proof.
  induction p as [|[k w] r IH]; cbn; [now rewrite Z.eqb_refl|].
  destruct (k =? t) eqn:E; cbn; rewrite E; [reflexivity|exact IH].
Qed.
Lemma packs_get_set_other t t' v : t <> t' -> forall p, packs_get t (packs_set t' v p) = packs_get t p.
Proof.
  intros Hn. induction p as [|[k w] r IH]; cbn.
  - assert (t' =? t = false) as -> by lia. reflexivity.
  - destruct (k =? t') eqn:E; cbn.
    + assert (k =? t = false) as -> by lia. reflexivity.
    + destruct (k =? t); [reflexivity|exact IH].
Qed.
Lemma packs_get_del_other t t' : t <> t' -> forall p, packs_get t (packs_del t' p) = packs_get t p.
Proof.
  intros Hn. induction p as [|[k w] r IH]; cbn; [reflexivity|].
  destruct (k =? t') eqn:E; cbn.
  - assert (k =? t = false) as -> by lia. reflexivity.
  - destruct (k =? t); [reflexivity|exact IH].
Qed.

Lemma in_cancelled_app n i a b : in_cancelled n i (a ++ b) = in_cancelled n i a || in_cancelled n i b.
Proof. unfold in_cancelled. apply existsb_app. Qed.

Lemma in_mid {A} (y x : A) l1 l2 : In y (l1 ++ x :: l2) -> y = x \/ In y (l1 ++ l2).
Proof.
  intros H. apply in_app_or in H as [H|[H|H]]; [right; apply in_or_app; now left|now left|
  right; apply in_or_app; now right].
Qed.

Lemma hd_bound (P : Z -> Prop) l : P 0 -> Forall P l -> P (hd 0 l).
Proof. intros H0 H. destruct H; cbn; assumption. Qed.

Section Healthy.
  Variable cfgs : Z -> cfg.
  Variable d : Z.
  Hypothesis Hcfg : cfg_ok cfgs d.

  Definition good_kind (w : world) (e : pev) : Prop :=
    match p_kind e with
    | PTick | PIndirect _ => True
    | PSusp _ => False
    | PPing f us | PAck f us =>
      clean_upds us /\ is_member f (members (nodes w (p_node e))) = true
    end.

  (** [e'] is, for the ack timeout of [A]'s probe of [T] that fires at [f], the in-flight
      ping (which will be answered in time) or the in-flight ack (which will arrive in time) *)
  Definition resp (A T f : Z) (e' : pev) : Prop :=
    (p_node e' = T /\ (exists us, p_kind e' = PPing A us) /\ p_time e' + d < f) \/
    (p_node e' = A /\ (exists us, p_kind e' = PAck T us) /\ p_time e' < f).

  Definition timer_ok (w : world) (e : pev) : Prop :=
    match p_kind e with
    | PIndirect T =>
      in_cancelled (p_node e) (p_id e) (cancelled w) = true \/
      (packs_get T (packs (nodes w (p_node e))) = Some (p_id e) /\
       exists e', In e' (pool w) /\ resp (p_node e) T (p_time e) e')
    | _ => True
    end.

  Definition Inv (w : world) : Prop :=
    (forall n, clean_node (nodes w n)) /\ sym (nodes w) /\
    forall e, In e (pool w) -> good_kind w e /\ timer_ok w e.

  Lemma init_inv w : init_ok w -> Inv w.
  Proof.
    intros (H1 & H2 & H3). split; [exact H1|]. split; [exact H2|].
    intros e He. unfold good_kind, timer_ok. rewrite (H3 e He). split; exact I.
  Qed.

  Lemma set_node_member f N st' :
    names (members st') = names (members (f N)) ->
    forall n m, is_member m (members (set_node f N st' n)) = is_member m (members (f n)).
  Proof.
    intros Hn n m. unfold set_node. destruct (n =? N) eqn:E; [|reflexivity].
    assert (n = N) by lia; subst n. apply is_member_names, Hn.
  Qed.

  Lemma inv_nodes w N st' :
    (forall n, clean_node (nodes w n)) -> sym (nodes w) ->
    clean_node st' -> names (members st') = names (members (nodes w N)) ->
    (forall n, clean_node (set_node (nodes w) N st' n)) /\ sym (set_node (nodes w) N st').
  Proof.
    intros Hc Hs Hc' Hn. split.
    - intros n. unfold set_node. destruct (n =? N); [exact Hc'|apply Hc].
    - intros n m. rewrite !(set_node_member _ _ _ Hn). apply Hs.
  Qed.

  (** an event that stays in the pool keeps its invariant when: membership is unchanged, the
      cancelled set only grows, the _pending_acks entry it relies on is unchanged or its id
      was cancelled, and its witness stays in the pool or is replaced *)
  Lemma keep_good w w' e :
    (forall n m, is_member m (members (nodes w' n)) = is_member m (members (nodes w n))) ->
    good_kind w e -> good_kind w' e.
  Proof.
    intros Hm. unfold good_kind. destruct (p_kind e); try tauto; rewrite Hm; tauto.
  Qed.

  Lemma keep_timer w w' e :
    timer_ok w e ->
    (forall n i, in_cancelled n i (cancelled w) = true -> in_cancelled n i (cancelled w') = true) ->
    (forall T, p_kind e = PIndirect T ->
       packs_get T (packs (nodes w (p_node e))) = Some (p_id e) ->
       in_cancelled (p_node e) (p_id e) (cancelled w') = true \/
       packs_get T (packs (nodes w' (p_node e))) = Some (p_id e)) ->
    (forall T e', p_kind e = PIndirect T -> In e' (pool w) -> resp (p_node e) T (p_time e) e' ->
       in_cancelled (p_node e) (p_id e) (cancelled w') = true \/
       exists e'', In e'' (pool w') /\ resp (p_node e) T (p_time e) e'') ->
    timer_ok w' e.
  Proof.
    unfold timer_ok. intros T Hc Hp Hw. destruct (p_kind e) as [|T0| | |]; try exact I.
    destruct T as [T|[T1 (e' & T2 & T3)]]; [left; apply Hc, T|].
    destruct (Hp T0 eq_refl T1) as [H|H]; [now left|].
    destruct (Hw T0 e' eq_refl T2 T3) as [H'|H']; [now left|]. right. split; assumption.
  Qed.

  Lemma resp_kind A T f e' : resp A T f e' ->
    (exists us, p_kind e' = PPing A us) \/ (exists us, p_kind e' = PAck T us).
  Proof. intros [(_ & K & _)|(_ & K & _)]; [left|right]; exact K. Qed.

  Lemma in_rest_new {A} (y : A) l1 l2 new : In y (l1 ++ l2) -> In y (l1 ++ l2 ++ new).
  Proof.
    intros H. apply in_app_or in H as [H|H]; apply in_or_app; [now left|right; apply in_or_app; now left].
  Qed.

  Lemma in_new {A} (y : A) l1 l2 new : In y new -> In y (l1 ++ l2 ++ new).
  Proof. intros H. apply in_or_app; right; apply in_or_app; now right. Qed.

  Lemma in_split3 {A} (y : A) l1 l2 new : In y (l1 ++ l2 ++ new) -> In y (l1 ++ l2) \/ In y new.
  Proof.
    intros H. apply in_app_or in H as [H|H]; [left; apply in_or_app; now left|].
    apply in_app_or in H as [H|H]; [left; apply in_or_app; now right|now right].
  Qed.

  Lemma inv_step w w' : Inv w -> wstep cfgs d w w' -> Inv w'.
  Proof.
    destruct Hcfg as [Hd Hc]. intros (IC & IS & IP) Hstep.
    destruct Hstep as [w l1 x l2 Hpool Hcan | w l1 x l2 i delays st' outs Hpool Hmin Hcan Him Hor Hdl Hs].
    - (* a cancelled timer is skipped *)
      split; [exact IC|]. split; [exact IS|]. cbn [pool nodes cancelled].
      intros e He. assert (He' : In e (pool w)).
      { rewrite Hpool. apply in_app_or in He as [He|He]; apply in_or_app; [now left|right; now right]. }
      destruct (IP e He') as [G T]. split; [exact G|].
      apply (keep_timer w _ e T); cbn [pool nodes cancelled].
      + auto.
      + intros T0 _ H; now right.
      + intros T0 e' _ T2 T3. right. exists e'. split; [|exact T3].
        rewrite Hpool in T2. apply in_mid in T2 as [->|T2]; [|exact T2].
        exfalso. unfold is_cancelled in Hcan.
        destruct (resp_kind _ _ _ _ T3) as [[us K]|[us K]]; rewrite K in Hcan; discriminate.
    - set (N := p_node x) in *. set (now := p_time x) in *.
      assert (Hx : In x (pool w)) by (rewrite Hpool; apply in_or_app; right; now left).
      destruct (IP x Hx) as [Gx Tx].
      assert (Hold : forall e, In e (l1 ++ l2) -> In e (pool w)).
      { intros e He. rewrite Hpool. apply in_app_or in He as [He|He]; apply in_or_app; [now left|right; now right]. }
      destruct (Hc N) as [HselfN HhalfN].
      destruct (p_kind x) as [|T|T|f us|f us] eqn:Kx.
      + (* probe tick *)
        destruct i as [avail shuf| | | | |]; try contradiction.
        destruct (step_tick _ _ _ _ _ _ _ Hs Hor (IC N)) as (C' & Nm & Hout).
        destruct (inv_nodes w N st' IC IS C' Nm) as [IC' IS'].
        pose proof (set_node_member (nodes w) N st' Nm) as Hmem.
        split; [exact IC'|]. split; [exact IS'|]. cbn [pool nodes cancelled].
        destruct Hout as [[-> Hp]|(t & us & Ht & Hus & Hp & ->)].
        * (* nobody to probe *)
          cbn [emit cancels flat_map app]. intros e He. apply in_split3 in He as [He|He].
          -- destruct (IP e (Hold e He)) as [G T]. split; [eapply keep_good; [|exact G]; exact Hmem|].
             apply (keep_timer w _ e T); cbn [pool nodes cancelled].
             ++ auto.
             ++ intros T0 _ H. right. unfold set_node. destruct (p_node e =? N) eqn:EN; [|exact H].
                assert (p_node e = N) as EN' by lia. rewrite EN' in H. rewrite Hp. exact H.
             ++ intros T0 e' _ T2 T3. right. exists e'. split; [|exact T3].
                rewrite Hpool in T2. apply in_mid in T2 as [->|T2]; [|apply in_rest_new, T2].
                exfalso. destruct (resp_kind _ _ _ _ T3) as [[us' K]|[us' K]]; rewrite Kx in K; discriminate.
          -- destruct He as [<-|[]]. unfold good_kind, timer_ok; cbn. tauto.
        * (* ping t, arm the ack timeout *)
          set (dl := hd 0 delays).
          assert (Hdl0 : 0 <= dl <= d) by (apply hd_bound; [lia|exact Hdl]).
          set (eping := mkPev (now + dl) t (-1) (PPing (c_self (cfgs N)) us)).
          set (etimer := mkPev (now + c_half (cfgs N)) N (next_id (nodes w N)) (PIndirect t)).
          set (etick := mkPev (now + c_probe (cfgs N)) N (-1) PTick).
          set (outs0 := [OSend t false (c_self (cfgs N)) None None (inc (nodes w N)) us;
                         OTimer TIndirect (next_id (nodes w N)) (now + c_half (cfgs N)) t]
                        ++ match packs_get t (packs (nodes w N)) with Some old => [OCancel old] | None => [] end
                        ++ [OTimer TTick (-1) (now + c_probe (cfgs N)) 0]).
          assert (Hemit : emit N now outs0 delays = [eping; etimer; etick]).
          { unfold outs0. destruct (packs_get t (packs (nodes w N))); reflexivity. }
          rewrite Hemit.
          assert (Hcan' : forall id, packs_get t (packs (nodes w N)) = Some id ->
                     in_cancelled N id (cancels N outs0 ++ cancelled w) = true).
          { intros id Hid. unfold outs0. rewrite Hid. cbn. rewrite !Z.eqb_refl. reflexivity. }
          intros e He. apply in_split3 in He as [He|He].
          -- destruct (IP e (Hold e He)) as [G T]. split; [eapply keep_good; [|exact G]; exact Hmem|].
             apply (keep_timer w _ e T); cbn [pool nodes cancelled].
             ++ intros n i0 H. rewrite in_cancelled_app, H. apply orb_true_r.
             ++ intros T0 _ H. unfold set_node. destruct (p_node e =? N) eqn:EN; [|now right].
                assert (p_node e = N) as EN' by lia. rewrite EN' in *.
                destruct (Z.eq_dec T0 t) as [->|Hne]; [left; apply Hcan', H|].
                right. rewrite Hp, packs_get_set_other by exact Hne. exact H.
             ++ intros T0 e' _ T2 T3. right. exists e'. split; [|exact T3].
                rewrite Hpool in T2. apply in_mid in T2 as [->|T2]; [|apply in_rest_new, T2].
                exfalso. destruct (resp_kind _ _ _ _ T3) as [[us' K]|[us' K]]; rewrite Kx in K; discriminate.
          -- destruct He as [<-|[<-|[<-|[]]]].
             ++ (* the ping *)
                unfold good_kind, timer_ok; cbn. split; [|exact I]. split; [exact Hus|].
                rewrite Hmem, HselfN. apply IS. exact Ht.
             ++ (* the ack timeout: its witness is the ping *)
                split; [exact I|]. unfold timer_ok. cbn [p_kind p_node p_id p_time etimer pool nodes cancelled].
                right. split.
                ** unfold set_node. rewrite Z.eqb_refl, Hp. apply packs_get_set_same.
                ** exists eping. split; [apply in_new; now left|].
                   left. cbn. rewrite HselfN. split; [reflexivity|]. split; [eexists; reflexivity|]. lia.
             ++ unfold good_kind, timer_ok; cbn. tauto.
      + (* an ack timeout that fires: impossible, its ping or ack is still in flight *)
        exfalso. unfold timer_ok in Tx. rewrite Kx in Tx.
        unfold is_cancelled in Hcan. rewrite Kx in Hcan.
        destruct Tx as [Tx|[_ (e' & T2 & T3)]]; [rewrite Tx in Hcan; discriminate|].
        rewrite Hpool in T2. apply in_mid in T2 as [->|T2].
        * destruct (resp_kind _ _ _ _ T3) as [[us' K]|[us' K]]; rewrite Kx in K; discriminate.
        * specialize (Hmin e' T2). fold now in Hmin.
          destruct T3 as [(_ & _ & K)|(_ & _ & K)]; fold now in K; lia.
      + (* no suspicion timeout is ever scheduled *)
        exfalso. unfold good_kind in Gx. rewrite Kx in Gx. exact Gx.
      + (* a ping is answered *)
        destruct i as [|[f'|] us'| | | |]; try contradiction. destruct Him as [<- <-].
        unfold good_kind in Gx. rewrite Kx in Gx. destruct Gx as [Gus Gm]. fold N in Gm.
        destruct (step_ping _ _ _ _ _ _ _ Hs (IC N) Gus Gm) as (C' & Nm & Hp & (us2 & Hus2 & ->)).
        destruct (inv_nodes w N st' IC IS C' Nm) as [IC' IS'].
        pose proof (set_node_member (nodes w) N st' Nm) as Hmem.
        split; [exact IC'|]. split; [exact IS'|]. cbn [pool nodes cancelled emit cancels flat_map app].
        set (dl := hd 0 delays).
        assert (Hdl0 : 0 <= dl <= d) by (apply hd_bound; [lia|exact Hdl]).
        set (eack := mkPev (now + dl) f (-1) (PAck (c_self (cfgs N)) us2)).
        intros e He. apply in_split3 in He as [He|He].
        * destruct (IP e (Hold e He)) as [G T]. split; [eapply keep_good; [|exact G]; exact Hmem|].
          apply (keep_timer w _ e T); cbn [pool nodes cancelled].
          -- auto.
          -- intros T0 _ H. right. unfold set_node. destruct (p_node e =? N) eqn:EN; [|exact H].
             assert (p_node e = N) as EN' by lia. rewrite EN' in H. rewrite Hp. exact H.
          -- intros T0 e' _ T2 T3. right.
             rewrite Hpool in T2. apply in_mid in T2 as [->|T2];
               [|exists e'; split; [apply in_rest_new, T2|exact T3]].
             (* the delivered ping was the witness: the ack replaces it *)
             exists eack. split; [apply in_new; now left|].
             destruct T3 as [(K1 & (us' & K2) & K3)|(_ & (us' & K) & _)]; [|rewrite Kx in K; discriminate].
             rewrite Kx in K2. injection K2 as K2 _. fold N in K1. fold now in K3.
             right. cbn. rewrite HselfN. split; [congruence|]. split; [eexists; rewrite K1; reflexivity|lia].
        * destruct He as [<-|[]].
          unfold good_kind, timer_ok; cbn. split; [|exact I]. split; [exact Hus2|].
          rewrite Hmem, HselfN. apply IS. exact Gm.
      + (* an ack cancels the ack timeout *)
        destruct i as [| |[f'|] us'| | |]; try contradiction. destruct Him as [<- <-].
        unfold good_kind in Gx. rewrite Kx in Gx. destruct Gx as [Gus Gm]. fold N in Gm.
        destruct (step_ack _ _ _ _ _ _ _ Hs (IC N) Gus Gm) as (C' & Nm & Hp & ->).
        destruct (inv_nodes w N st' IC IS C' Nm) as [IC' IS'].
        pose proof (set_node_member (nodes w) N st' Nm) as Hmem.
        split; [exact IC'|]. split; [exact IS'|]. cbn [pool nodes cancelled].
        set (outs0 := match packs_get f (packs (nodes w N)) with Some old => [OCancel old] | None => [] end).
        assert (Hemit : emit N now outs0 delays = [])
          by (unfold outs0; destruct (packs_get f (packs (nodes w N))); reflexivity).
        rewrite Hemit, !app_nil_r.
        assert (Hcan' : forall id, packs_get f (packs (nodes w N)) = Some id ->
                   in_cancelled N id (cancels N outs0 ++ cancelled w) = true).
        { intros id Hid. unfold outs0. rewrite Hid. cbn. rewrite !Z.eqb_refl. reflexivity. }
        intros e He.
        destruct (IP e (Hold e He)) as [G T]. split; [eapply keep_good; [|exact G]; exact Hmem|].
        apply (keep_timer w _ e T); cbn [pool nodes cancelled].
        * intros n i0 H. rewrite in_cancelled_app, H. apply orb_true_r.
        * intros T0 _ H. unfold set_node. destruct (p_node e =? N) eqn:EN; [|now right].
          assert (p_node e = N) as EN' by lia. rewrite EN' in *.
          destruct (Z.eq_dec T0 f) as [->|Hne]; [left; apply Hcan', H|].
          right. rewrite Hp, packs_get_del_other by exact Hne. exact H.
        * intros T0 e' Ke0 T2 T3.
          rewrite Hpool in T2. apply in_mid in T2 as [->|T2]; [|right; exists e'; split; assumption].
          (* the delivered ack was the witness: then it is the ack for this very timer *)
          left. destruct T3 as [(_ & (us' & K) & _)|(K1 & (us' & K2) & _)]; [rewrite Kx in K; discriminate|].
          rewrite Kx in K2. injection K2 as K2 _. fold N in K1. rewrite <- K1.
          unfold timer_ok in T. rewrite Ke0, <- K1 in T.
          destruct T as [T|[T _]]; [rewrite in_cancelled_app, T; apply orb_true_r|].
          apply Hcan'. rewrite K2. exact T.
  Qed.

  Lemma reach_inv w0 w : init_ok w0 -> reach cfgs d w0 w -> Inv w.
  Proof.
    intros H0 Hr. induction Hr as [|w w' Hr IH Hs]; [apply init_inv, H0|eapply inv_step; eauto].
  Qed.

  (** On a healthy network (every message delivered within [d], [2 d] below the ack timeout)
      no member is ever marked DEAD, no "dead" update is queued or in flight, and no
      suspicion timeout is ever scheduled — for every probe order, phi decision and delay. *)
  Lemma no_false_dead w0 w :
    init_ok w0 -> reach cfgs d w0 w ->
    (forall n m, In m (members (nodes w n)) -> m_state m <> Dead) /\
    (forall n u, In u (pend (nodes w n)) -> u_kind u <> 1) /\
    (forall e, In e (pool w) ->
       match p_kind e with
       | PSusp _ => False
       | PPing _ us | PAck _ us => forall u, In u us -> u_kind u <> 1
       | _ => True
       end).
  Proof.
    intros H0 Hr. destruct (reach_inv w0 w H0 Hr) as (IC & _ & IP). repeat split.
    - intros n m Hm. destruct (IC n) as [H _]. unfold nodead in H. rewrite Forall_forall in H. auto.
    - intros n u Hu. destruct (IC n) as [_ H]. unfold clean_upds in H. rewrite Forall_forall in H. auto.
    - intros e He. destruct (IP e He) as [G _]. unfold good_kind in G.
      destruct (p_kind e); try tauto; destruct G as [G _]; unfold clean_upds in G;
        rewrite Forall_forall in G; exact G.
  Qed.
End Healthy.

(** ** the start configuration of a full mesh satisfies [init_ok] *)
Lemma is_member_init m names ord :
  is_member m (members (init_state names ord)) = true <-> In m names.
Proof.
  unfold is_member, init_state; cbn [members]. induction names as [|x r IH]; cbn; [split; [discriminate|tauto]|].
  destruct (x =? m) eqn:E; [split; [left; lia|reflexivity]|].
  rewrite IH. split; [tauto|]. intros [H|H]; [lia|exact H].
Qed.

Lemma mesh_member n ord i m :
  is_member m (members (mesh_nodes n ord i)) = true <-> (0 <= i < n /\ 0 <= m < n /\ m <> i).
Proof.
  unfold mesh_nodes. destruct ((0 <=? i) && (i <? n)) eqn:E.
  - rewrite is_member_init, filter_In, in_map_iff. split.
    + intros [(k & <- & Hk) Hne]. apply in_seq in Hk. lia.
    + intros (Hi & Hm & Hne). split; [|lia]. exists (Z.to_nat m). split; [lia|]. apply in_seq. lia.
  - rewrite is_member_init. cbn. split; [tauto|lia].
Qed.

Lemma mesh_init_ok n probe ord : init_ok (mesh_world n probe ord).
Proof.
  split; [|split].
  - intros i. unfold mesh_world, mesh_nodes; cbn [nodes].
    destruct ((0 <=? i) && (i <? n)); split; cbn; try constructor.
    apply Forall_map. apply Forall_forall. intros; cbn; congruence.
  - intros i m. cbn [nodes mesh_world]. rewrite !mesh_member. lia.
  - intros e He. cbn [pool mesh_world] in He. apply in_map_iff in He as (k & <- & _). reflexivity.
Qed.

Lemma no_false_dead_mesh cfgs d :
  cfg_ok cfgs d ->
  forall (n probe : Z) (ord : Z -> list Z) (w : world),
    reach cfgs d (mesh_world n probe ord) w ->
    forall i m, In m (members (nodes w i)) -> m_state m <> Dead.
Proof.
  intros Hc n probe ord w Hr.
  exact (proj1 (no_false_dead cfgs d Hc _ _ (mesh_init_ok n probe ord) Hr)).
Qed.
