(** C13 — model of [PhiAccrualDetector] (phi_accrual_detector.py) over exact rationals.

    The sliding window, the heartbeat bookkeeping, mean and variance are exact
    ([Q]); [math.erfc], [math.log10], [math.sqrt] are world assumptions
    (Section variables) — the theorems hold for every choice that satisfies the
    stated order properties of the mathematical functions.  The floating-point
    rounding of the implementation is not modelled; the tie compares the
    window/bookkeeping exactly on a dyadic time grid (where float subtraction is
    exact) and the sign of [elapsed - mean] through the value of phi. *)
From HS Require Import Base.Prelude.
From Coq Require Import QArith.
Local Open Scope Q_scope.

Record det := mkDet {
  d_max : nat;           (* max_sample_size *)
  d_min_std : Q;
  d_ivs : list Q;        (* _intervals *)
  d_last : option Q;     (* _last_heartbeat *)
  d_count : Z            (* _heartbeat_count *)
}.

(** __init__ *)
Definition det_init (max : nat) (min_std : Q) (initial : option Q) : det :=
  mkDet max min_std
        (match initial with Some i => if Qlt_le_dec 0 i then [i] else [] | None => [] end)
        None 0.

Definition heartbeat (ts : Q) (d : det) : det :=
  let ivs :=
    match d_last d with
    | Some l =>
      let iv := ts - l in
      if Qlt_le_dec 0 iv then
        let ivs1 := d_ivs d ++ [iv] in
        if (d_max d <? length ivs1)%nat then tl ivs1 else ivs1
      else d_ivs d
    | None => d_ivs d
    end in
  mkDet (d_max d) (d_min_std d) ivs (Some ts) (d_count d + 1)%Z.

Definition qsum (l : list Q) : Q := fold_right Qplus 0 l.
Definition qlen (l : list Q) : Q := inject_Z (Z.of_nat (length l)).

Definition mean (d : det) : Q :=
  match d_ivs d with [] => 0 | _ => qsum (d_ivs d) / qlen (d_ivs d) end.

Definition variance (d : det) : Q :=
  let m := mean d in
  qsum (map (fun x => (x - m) * (x - m)) (d_ivs d)) / qlen (d_ivs d).

Inductive ext := Fin (q : Q) | Inf.
Definition ext_le (a b : ext) : Prop :=
  match a, b with
  | _, Inf => True
  | Inf, Fin _ => False
  | Fin x, Fin y => x <= y
  end.

Section Phi.
  Variable erfc : Q -> Q.
  Variable log10 : Q -> Q.
  Variable sqrt : Q -> Q.
  Variable sqrt2 : Q.          (* math.sqrt(2) *)

  Definition std (d : det) : Q :=
    if (length (d_ivs d) <? 2)%nat then 0 else sqrt (variance d).

  (* max(self._std(), self._min_std): the first argument wins unless the second is larger *)
  Definition std_eff (d : det) : Q :=
    if Qlt_le_dec (std d) (d_min_std d) then d_min_std d else std d.

  Definition phi (d : det) (now : Q) : ext :=
    match d_last d with
    | None => Fin 0
    | Some l =>
      match d_ivs d with
      | [] => Fin 0
      | _ =>
        let elapsed := now - l in
        if Qlt_le_dec elapsed 0 then Fin 0
        else
          let y := (elapsed - mean d) / std_eff d in
          let p := (1 # 2) * erfc (y / sqrt2) in
          if Qlt_le_dec 0 p then Fin (- log10 p) else Inf
      end
    end.

  (** is_available: phi(now) < threshold *)
  Definition is_available (thr : Q) (d : det) (now : Q) : bool :=
    match phi d now with
    | Fin x => if Qlt_le_dec x thr then true else false
    | Inf => false
    end.
End Phi.

(** ** comparison with the implementation (no transcendental function involved)

    [phi_class]: 0 = the code returns the literal 0.0 (no data / negative elapsed)
    or elapsed < mean; 2 = elapsed = mean (phi = log10 2); 3 = elapsed > mean. *)
Definition phi_class (d : det) (now : Q) : Z :=
  match d_last d with
  | None => 0%Z
  | Some l =>
    match d_ivs d with
    | [] => 0%Z
    | _ =>
      let elapsed := now - l in
      if Qlt_le_dec elapsed 0 then 0%Z
      else match Qcompare elapsed (mean d) with Lt => 0%Z | Eq => 2%Z | Gt => 3%Z end
    end
  end.

Inductive dop := DHeartbeat (ts : Q) | DQuery (ts : Q).

Definition optQ_eqb (a b : option Q) : bool := option_eqb Qeq_bool a b.

(** observation after every op: (intervals, last, count, class); class is -1 for heartbeats *)
Definition dobs := (list Q * option Q * Z * Z)%type.

Fixpoint ok_dsteps (d : det) (ops : list (dop * dobs)) : bool :=
  match ops with
  | [] => true
  | (o, (ivs, last, cnt, cls)) :: r =>
    let d' := match o with DHeartbeat ts => heartbeat ts d | DQuery _ => d end in
    let c := match o with DHeartbeat _ => (-1)%Z | DQuery ts => phi_class d ts end in
    list_eqb Qeq_bool (d_ivs d') ivs && optQ_eqb (d_last d') last && (d_count d' =? cnt)%Z
    && (c =? cls)%Z && ok_dsteps d' r
  end.

(** case = (max_sample_size, min_std, initial_interval, ops with observations) *)
Definition ok_phi (case : nat * Q * option Q * list (dop * dobs)) : bool :=
  let '(mx, ms, ini, ops) := case in ok_dsteps (det_init mx ms ini) ops.
