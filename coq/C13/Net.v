(** C13 — a cluster of [Model.step] nodes: pending events, message delays, cancellation.

    This is the contract of the engine + Network as far as membership is concerned, written
    as a nondeterministic relation (NOT a model of the event heap): an event with the least
    timestamp is taken next (ties in any order), a cancelled timer is skipped, a timer fires at
    the time it was created for, a message sent at [now] arrives at [now + delta] for some
    [0 <= delta <= d] chosen per message, shuffles are arbitrary permutations and the phi
    decisions arbitrary booleans.  Every schedule of the real engine is one path of [wstep]. *)
From HS Require Import Base.Prelude C13.Model.
Local Open Scope Z_scope.

Inductive pkind :=
| PTick
| PIndirect (t : Z)
| PSusp (t : Z)
| PPing (from : Z) (us : list upd)
| PAck (from : Z) (us : list upd).

Record pev := mkPev { p_time : Z; p_node : Z; p_id : Z; p_kind : pkind }.

Record world := mkWorld {
  nodes : Z -> nstate;
  pool : list pev;
  cancelled : list (Z * Z)      (* (node, timer id) *)
}.

Definition in_cancelled (n id : Z) (l : list (Z * Z)) : bool :=
  existsb (fun c => (fst c =? n) && (snd c =? id)) l.

Definition is_cancelled (w : world) (e : pev) : bool :=
  match p_kind e with
  | PIndirect _ | PSusp _ => in_cancelled (p_node e) (p_id e) (cancelled w)
  | _ => false
  end.

(** the handler input an event turns into; the oracle parts are free *)
Definition input_matches (k : pkind) (i : input) : Prop :=
  match k, i with
  | PTick, ITick _ _ => True
  | PIndirect t, IIndirect (Some t') _ => t = t'
  | PSusp t, ISusp (Some t') => t = t'
  | PPing f us, IPing (Some f') us' => f = f' /\ us = us'
  | PAck f us, IAck (Some f') us' => f = f' /\ us = us'
  | _, _ => False
  end.

(** events created by a handler call at node [n], time [now]; one delay per output *)
Fixpoint emit (n now : Z) (outs : list output) (delays : list Z) : list pev :=
  match outs with
  | [] => []
  | o :: r =>
    let dl := hd 0 delays in
    match o with
    | OSend dest is_ack from _ _ _ us =>
      mkPev (now + dl) dest (-1) (if is_ack then PAck from us else PPing from us)
      :: emit n now r (tl delays)
    | OTimer TTick id t _ => mkPev t n id PTick :: emit n now r (tl delays)
    | OTimer TIndirect id t a => mkPev t n id (PIndirect a) :: emit n now r (tl delays)
    | OTimer TSusp id t a => mkPev t n id (PSusp a) :: emit n now r (tl delays)
    | OCancel _ => emit n now r (tl delays)
    end
  end.

Definition cancels (n : Z) (outs : list output) : list (Z * Z) :=
  flat_map (fun o => match o with OCancel i => [(n, i)] | _ => [] end) outs.

Definition set_node (f : Z -> nstate) (n : Z) (st : nstate) : Z -> nstate :=
  fun m => if m =? n then st else f m.

Section Cluster.
  Variable cfgs : Z -> cfg.
  Variable d : Z.                 (* bound on the one-way message delay, ns *)

  Inductive wstep : world -> world -> Prop :=
  | ws_skip : forall w l1 x l2,      (* a cancelled timer does nothing: it may be dropped at any time *)
      pool w = l1 ++ x :: l2 ->
      is_cancelled w x = true ->
      wstep w (mkWorld (nodes w) (l1 ++ l2) (cancelled w))
  | ws_deliver : forall w l1 x l2 i delays st' outs,
      pool w = l1 ++ x :: l2 ->
      (forall y, In y (l1 ++ l2) -> p_time x <= p_time y) ->
      is_cancelled w x = false ->
      input_matches (p_kind x) i ->
      oracle_ok (nodes w (p_node x)) i = true ->
      Forall (fun dl => 0 <= dl <= d) delays ->
      step (cfgs (p_node x)) (p_time x) (nodes w (p_node x)) i = (st', outs) ->
      wstep w (mkWorld (set_node (nodes w) (p_node x) st')
                       (l1 ++ l2 ++ emit (p_node x) (p_time x) outs delays)
                       (cancels (p_node x) outs ++ cancelled w)).

  Inductive reach (w0 : world) : world -> Prop :=
  | reach_refl : reach w0 w0
  | reach_step : forall w w', reach w0 w -> wstep w w' -> reach w0 w'.

  (** healthy network: twice the delay bound is below the ack timeout of every node *)
  Definition cfg_ok : Prop :=
    0 <= d /\ forall n, c_self (cfgs n) = n /\ 2 * d < c_half (cfgs n).

  Definition clean_upds (us : list upd) : Prop := Forall (fun u => u_kind u <> 1) us.
  Definition clean_node (st : nstate) : Prop :=
    Forall (fun m => m_state m <> Dead) (members st) /\ clean_upds (pend st).
  Definition sym (f : Z -> nstate) : Prop :=
    forall n m, is_member m (members (f n)) = true -> is_member n (members (f m)) = true.

  (** a start configuration: nobody DEAD, no "dead" update queued, everybody who knows
      somebody is known by them, and only probe ticks are scheduled (what start() does) *)
  Definition init_ok (w : world) : Prop :=
    (forall n, clean_node (nodes w n)) /\ sym (nodes w) /\
    (forall e, In e (pool w) -> p_kind e = PTick).
End Cluster.

(** the start configuration of an n-member full mesh (members 0..n-1; every other index is an
    inert node that knows nobody) *)
Definition mesh_nodes (n : Z) (ord : Z -> list Z) : Z -> nstate :=
  fun i => if (0 <=? i) && (i <? n)
           then init_state (filter (fun j => negb (j =? i)) (map Z.of_nat (seq 0 (Z.to_nat n)))) (ord i)
           else init_state [] [].
Definition mesh_world (n probe : Z) (ord : Z -> list Z) : world :=
  mkWorld (mesh_nodes n ord)
          (map (fun i => mkPev probe (Z.of_nat i) (-1) PTick) (seq 0 (Z.to_nat n))) [].
