(** C13 — executable model of [MembershipProtocol]
    (happysimulator/components/consensus/membership.py), one node.

    A node is a state machine [step : cfg -> now -> nstate -> input -> nstate * list output];
    one [input] per [handle_event] call.  Names are small integers; times are
    integer nanoseconds; Python dicts are association lists in insertion order.

    Oracle inputs (recorded from the implementation, universally quantified in
    the theorems): the result of every [random.shuffle], and, at a probe tick,
    the result of [detector.is_available(now)] for every member that has
    already received a heartbeat (floating-point phi; see PhiModel.v).  For a
    member whose detector never saw a heartbeat the model itself decides:
    [phi = 0.0], so it is available iff [0 < threshold] ([c_thr_pos]).

    Event objects that can be cancelled (ack timeout, suspicion timeout) are
    numbered per node in creation order ([next_id]); [OCancel id] is the side
    effect [event.cancel()] on an earlier event. *)
From HS Require Import Base.Prelude.
Local Open Scope Z_scope.

Inductive mstate := Alive | Suspect | Dead.

Definition mstate_eqb (a b : mstate) : bool :=
  match a, b with
  | Alive, Alive | Suspect, Suspect | Dead, Dead => true
  | _, _ => false
  end.

Record member := mkMember {
  m_name : Z;
  m_state : mstate;
  m_inc : Z;
  m_last : option Z;   (* detector._last_heartbeat, as ns *)
  m_hbs : Z            (* detector._heartbeat_count *)
}.

(** A piggy-backed update {member, state, incarnation}.
    [u_kind]: 0 = "suspect", 1 = "dead", 2 = "alive", anything else = unknown string. *)
Record upd := mkUpd { u_member : Z; u_kind : Z; u_inc : Z }.

Record cfg := mkCfg {
  c_self : Z;
  c_probe : Z;      (* int(probe_interval * 1e9) *)
  c_half : Z;       (* int(probe_interval * 0.5 * 1e9) *)
  c_susp : Z;       (* int(suspicion_timeout * 1e9) *)
  c_k : Z;          (* indirect_probe_count *)
  c_thr_pos : bool  (* 0.0 < phi_threshold *)
}.

Record nstate := mkNode {
  members : list member;
  inc : Z;
  pend : list upd;
  order : list Z;
  pidx : Z;
  packs : list (Z * Z);     (* _pending_acks: member -> timer id *)
  next_id : Z;
  n_probes : Z;
  n_iprobes : Z;
  n_acks : Z;
  n_dissem : Z
}.

Inductive tkind := TTick | TIndirect | TSusp.

Inductive output :=
| OSend (dest : Z) (is_ack : bool) (from : Z) (indirect_for : option Z) (ack_for : option Z)
        (o_inc : Z) (updates : list upd)
| OTimer (k : tkind) (id : Z) (time : Z) (arg : Z)   (* id = -1 for the (never cancelled) tick *)
| OCancel (id : Z).

Inductive input :=
| ITick (avail : list bool) (shuf : list Z)
| IPing (from : option Z) (updates : list upd)
| IAck (from : option Z) (updates : list upd)         (* MembershipAck and MembershipIndirectAck *)
| IIndirect (target : option Z) (shuf : list Z)
| ISusp (suspect : option Z)
| IOther.

(** ** dict helpers *)
Fixpoint find_member (n : Z) (ms : list member) : option member :=
  match ms with
  | [] => None
  | m :: r => if m_name m =? n then Some m else find_member n r
  end.

Definition is_member (n : Z) (ms : list member) : bool :=
  match find_member n ms with Some _ => true | None => false end.

Definition upd_member (n : Z) (f : member -> member) (ms : list member) : list member :=
  map (fun m => if m_name m =? n then f m else m) ms.

Definition set_state (s : mstate) (m : member) : member :=
  mkMember (m_name m) s (m_inc m) (m_last m) (m_hbs m).
Definition set_state_inc (s : mstate) (i : Z) (m : member) : member :=
  mkMember (m_name m) s i (m_last m) (m_hbs m).

Fixpoint packs_get (t : Z) (p : list (Z * Z)) : option Z :=
  match p with
  | [] => None
  | (k, v) :: r => if k =? t then Some v else packs_get t r
  end.
Fixpoint packs_del (t : Z) (p : list (Z * Z)) : list (Z * Z) :=
  match p with
  | [] => []
  | (k, v) :: r => if k =? t then r else (k, v) :: packs_del t r
  end.
(** [d[t] = v]: in place when the key exists, appended otherwise. *)
Fixpoint packs_set (t v : Z) (p : list (Z * Z)) : list (Z * Z) :=
  match p with
  | [] => [(t, v)]
  | (k, w) :: r => if k =? t then (k, v) :: r else (k, w) :: packs_set t v r
  end.

(** ** _apply_updates *)
Definition apply_update (ms : list member) (u : upd) : list member :=
  match find_member (u_member u) ms with
  | None => ms
  | Some info =>
    if u_inc u <? m_inc info then ms
    else if (u_kind u =? 0) && mstate_eqb (m_state info) Alive then
      upd_member (u_member u) (set_state_inc Suspect (Z.max (m_inc info) (u_inc u))) ms
    else if (u_kind u =? 1) && negb (mstate_eqb (m_state info) Dead) then
      upd_member (u_member u) (set_state_inc Dead (Z.max (m_inc info) (u_inc u))) ms
    else if (u_kind u =? 2) && (m_inc info <? u_inc u) then
      upd_member (u_member u) (set_state_inc Alive (u_inc u)) ms
    else ms
  end.

Definition apply_updates (ms : list member) (us : list upd) : list member :=
  fold_left apply_update us ms.

(** detector.heartbeat(now) followed by SUSPECT -> ALIVE *)
Definition heartbeat (now : Z) (m : member) : member :=
  mkMember (m_name m)
           (if mstate_eqb (m_state m) Suspect then Alive else m_state m)
           (m_inc m) (Some now) (m_hbs m + 1).

(** _suspect_member on the members dict; returns the new dict and the update to queue *)
Definition suspect_member (n : Z) (ms : list member) : list member * list upd :=
  match find_member n ms with
  | Some info =>
    if mstate_eqb (m_state info) Alive
    then (upd_member n (set_state Suspect) ms, [mkUpd n 0 (m_inc info)])
    else (ms, [])
  | None => (ms, [])
  end.

(** ** probe tick, first loop: phi check of every member, in dict order.
    [avail] is aligned with the member list. *)
Definition available (c : cfg) (m : member) (oracle : bool) : bool :=
  match m_last m with
  | None => c_thr_pos c
  | Some _ => oracle
  end.

Fixpoint phi_pass (c : cfg) (ms : list member) (avail : list bool) : list member * list upd :=
  match ms with
  | [] => ([], [])
  | m :: r =>
    let a := match avail with [] => true | a :: _ => a end in
    let (r', us) := phi_pass c r (tl avail) in
    if mstate_eqb (m_state m) Alive && negb (available c m a)
    then (set_state Suspect m :: r', mkUpd (m_name m) 0 (m_inc m) :: us)
    else (m :: r', us)
  end.

Definition not_dead (ms : list member) (n : Z) : bool :=
  match find_member n ms with
  | Some m => negb (mstate_eqb (m_state m) Dead)
  | None => false
  end.

Definition znth (l : list Z) (i : Z) : Z := nth (Z.to_nat i) l (-1).
Definition zlen {A} (l : list A) : Z := Z.of_nat (length l).

(** _next_probe_target: returns (target, order', pidx') *)
Definition next_probe_target (ms : list member) (ord : list Z) (idx : Z) (shuf : list Z)
  : option Z * list Z * Z :=
  let alive := filter (not_dead ms) ord in
  match alive with
  | [] => (None, ord, idx)
  | _ =>
    if zlen alive <=? idx
    then (Some (znth shuf (0 mod zlen shuf)), shuf, 1)
    else (Some (znth alive (idx mod zlen alive)), ord, idx + 1)
  end.

(** sends of the indirect probe: the first one drains the pending updates *)
Fixpoint indirect_sends (c : cfg) (t i : Z) (ds : list Z) (us : list upd) : list output :=
  match ds with
  | [] => []
  | d :: r => OSend d false (c_self c) (Some t) None i us :: indirect_sends c t i r []
  end.

Definition delegates (ms : list member) (t : Z) : list Z :=
  map m_name (filter (fun m => negb (m_name m =? t) && negb (mstate_eqb (m_state m) Dead)) ms).

Definition with_members (st : nstate) (ms : list member) : nstate :=
  mkNode ms (inc st) (pend st) (order st) (pidx st) (packs st) (next_id st)
         (n_probes st) (n_iprobes st) (n_acks st) (n_dissem st).

Definition step (c : cfg) (now : Z) (st : nstate) (i : input) : nstate * list output :=
  match i with
  | ITick avail shuf =>
    let (ms1, sus) := phi_pass c (members st) avail in
    let pend1 := pend st ++ sus in
    match next_probe_target ms1 (order st) (pidx st) shuf with
    | (None, ord', idx') =>
      (mkNode ms1 (inc st) pend1 ord' idx' (packs st) (next_id st)
              (n_probes st) (n_iprobes st) (n_acks st) (n_dissem st),
       [OTimer TTick (-1) (now + c_probe c) 0])
    | (Some t, ord', idx') =>
      let id := next_id st in
      (mkNode ms1 (inc st) [] ord' idx' (packs_set t id (packs st)) (id + 1)
              (n_probes st + 1) (n_iprobes st) (n_acks st) (n_dissem st + zlen pend1),
       [OSend t false (c_self c) None None (inc st) pend1;
        OTimer TIndirect id (now + c_half c) t]
       ++ match packs_get t (packs st) with Some old => [OCancel old] | None => [] end
       ++ [OTimer TTick (-1) (now + c_probe c) 0])
    end
  | IPing from us =>
    let ms1 := apply_updates (members st) us in
    match from with
    | None => (with_members st ms1, [])
    | Some s =>
      let known := is_member s ms1 in
      let ms2 := if known then upd_member s (heartbeat now) ms1 else ms1 in
      (mkNode ms2 (inc st) [] (order st) (pidx st) (packs st) (next_id st)
              (n_probes st) (n_iprobes st) (n_acks st) (n_dissem st + zlen (pend st)),
       [OSend (if known then s else c_self c) true (c_self c) None (Some s) (inc st) (pend st)])
    end
  | IAck from us =>
    let ms1 := apply_updates (members st) us in
    match from with
    | Some s =>
      if is_member s ms1 then
        (mkNode (upd_member s (heartbeat now) ms1) (inc st) (pend st) (order st) (pidx st)
                (packs_del s (packs st)) (next_id st)
                (n_probes st) (n_iprobes st) (n_acks st + 1) (n_dissem st),
         match packs_get s (packs st) with Some old => [OCancel old] | None => [] end)
      else
        (mkNode ms1 (inc st) (pend st) (order st) (pidx st) (packs st) (next_id st)
                (n_probes st) (n_iprobes st) (n_acks st + 1) (n_dissem st), [])
    | None =>
      (mkNode ms1 (inc st) (pend st) (order st) (pidx st) (packs st) (next_id st)
              (n_probes st) (n_iprobes st) (n_acks st + 1) (n_dissem st), [])
    end
  | IIndirect target shuf =>
    match target with
    | None => (st, [])
    | Some t =>
      if negb (is_member t (members st)) then (st, [])
      else match packs_get t (packs st) with
      | None => (st, [])
      | Some old =>
        (* no ack within the direct-probe timeout: suspect the member *)
        let (ms1, sus) := suspect_member t (members st) in
        let pend1 := pend st ++ sus in
        let chosen := firstn (Z.to_nat (c_k c)) shuf in
        let id := next_id st in
        (mkNode ms1 (inc st) (match chosen with [] => pend1 | _ => [] end)
                (order st) (pidx st) (packs_set t id (packs st)) (id + 1)
                (n_probes st) (n_iprobes st + zlen chosen) (n_acks st)
                (n_dissem st + match chosen with [] => 0 | _ => zlen pend1 end),
         indirect_sends c t (inc st) chosen pend1
         ++ [OTimer TSusp id (now + c_susp c) t; OCancel old])
      end
    end
  | ISusp suspect =>
    match suspect with
    | None => (st, [])
    | Some t =>
      match find_member t (members st) with
      | None => (st, [])
      | Some info =>
        let (ms1, pend1) :=
          if mstate_eqb (m_state info) Suspect
          then (upd_member t (set_state Dead) (members st), pend st ++ [mkUpd t 1 (m_inc info)])
          else (members st, pend st) in
        (mkNode ms1 (inc st) pend1 (order st) (pidx st) (packs_del t (packs st)) (next_id st)
                (n_probes st) (n_iprobes st) (n_acks st) (n_dissem st), [])
      end
    end
  | IOther => (st, [])
  end.

(** add_member for every peer, then start() (whose shuffle result is [ord]) *)
Definition init_state (names ord : list Z) : nstate :=
  mkNode (map (fun n => mkMember n Alive 0 None 0) names) 0 [] ord 0 [] 0 0 0 0 0.

Fixpoint run (c : cfg) (st : nstate) (tr : list (Z * input)) : nstate :=
  match tr with
  | [] => st
  | (now, i) :: r => run c (fst (step c now st i)) r
  end.

(** time literals of the recorded traces are written [T6 k] / [T3 k] (k ms / k us): Coq's parser
    is slow on long numerals *)
Definition T6 (x : Z) : Z := x * 1000000.
Definition T3 (x : Z) : Z := x * 1000.

(** ** comparison with the implementation's observations *)
Definition optZ_eqb := option_eqb Z.eqb.
Definition upd_eqb (a b : upd) : bool :=
  (u_member a =? u_member b) && (u_kind a =? u_kind b) && (u_inc a =? u_inc b).
Definition member_eqb (a b : member) : bool :=
  (m_name a =? m_name b) && mstate_eqb (m_state a) (m_state b) && (m_inc a =? m_inc b)
  && optZ_eqb (m_last a) (m_last b) && (m_hbs a =? m_hbs b).
Definition zz_eqb (a b : Z * Z) : bool := (fst a =? fst b) && (snd a =? snd b).
Definition nstate_eqb (a b : nstate) : bool :=
  list_eqb member_eqb (members a) (members b) && (inc a =? inc b)
  && list_eqb upd_eqb (pend a) (pend b) && list_eqb Z.eqb (order a) (order b)
  && (pidx a =? pidx b) && list_eqb zz_eqb (packs a) (packs b) && (next_id a =? next_id b)
  && (n_probes a =? n_probes b) && (n_iprobes a =? n_iprobes b) && (n_acks a =? n_acks b)
  && (n_dissem a =? n_dissem b).
Definition tkind_eqb (a b : tkind) : bool :=
  match a, b with TTick, TTick | TIndirect, TIndirect | TSusp, TSusp => true | _, _ => false end.
Definition output_eqb (a b : output) : bool :=
  match a, b with
  | OSend d k f i a' n u, OSend d2 k2 f2 i2 a2 n2 u2 =>
    (d =? d2) && Bool.eqb k k2 && (f =? f2) && optZ_eqb i i2 && optZ_eqb a' a2 && (n =? n2)
    && list_eqb upd_eqb u u2
  | OTimer k id t a', OTimer k2 id2 t2 a2 => tkind_eqb k k2 && (id =? id2) && (t =? t2) && (a' =? a2)
  | OCancel x, OCancel y => x =? y
  | _, _ => false
  end.
Definition is_cancel (o : output) : bool := match o with OCancel _ => true | _ => false end.
(** returned events in order, then the cancellations *)
Definition normalise (os : list output) : list output :=
  filter (fun o => negb (is_cancel o)) os ++ filter is_cancel os.

Fixpoint count_occ_z (x : Z) (l : list Z) : nat :=
  match l with [] => O | y :: r => ((if (x =? y)%Z then 1 else 0) + count_occ_z x r)%nat end.
Definition is_perm (a b : list Z) : bool :=
  (length a =? length b)%nat && forallb (fun x => (count_occ_z x a =? count_occ_z x b)%nat) a.

(** the shuffle results fed to the model must be permutations of what the code shuffles *)
Definition oracle_ok (st : nstate) (i : input) : bool :=
  match i with
  | ITick avail shuf =>
    (length avail =? length (members st))%nat
    (* ALIVE -> SUSPECT in the phi pass does not change the not-DEAD filter *)
    && let alive := filter (not_dead (members st)) (order st) in
       if negb (match alive with [] => true | _ => false end) && (zlen alive <=? pidx st)
       then is_perm shuf alive else true
  | IIndirect (Some t) shuf =>
    if is_member t (members st) && match packs_get t (packs st) with Some _ => true | None => false end
    then is_perm shuf (delegates (members st) t) else true
  | _ => true
  end.

Definition obs_step := (Z * input * list output * nstate)%type.

Fixpoint ok_steps (c : cfg) (st : nstate) (tr : list obs_step) : bool :=
  match tr with
  | [] => true
  | (now, i, outs, post) :: r =>
    let (st', os) := step c now st i in
    oracle_ok st i && list_eqb output_eqb (normalise os) outs && nstate_eqb st' post
    && ok_steps c st' r
  end.

(** case = (cfg, member names in add order, probe order after start(), per-handler trace) *)
Definition ok_node (case : cfg * list Z * list Z * list obs_step) : bool :=
  let '(c, names, ord, tr) := case in
  is_perm ord names && ok_steps c (init_state names ord) tr.

(** one cluster scenario = one recorded trace per node *)
Definition ok_cluster (l : list (cfg * list Z * list Z * list obs_step)) : bool := forallb ok_node l.
