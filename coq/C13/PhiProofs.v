(** C13 — the phi-accrual suspicion level never decreases while no heartbeat arrives. *)
From HS Require Import Base.Prelude C13.PhiModel.
From Coq Require Import QArith Lqa.
Local Open Scope Q_scope.

Section PhiMonotone.
  Variable erfc log10 sqrt : Q -> Q.
  Variable sqrt2 : Q.
  (** order properties of the mathematical functions *)
  Hypothesis erfc_antitone : forall x y, x <= y -> erfc y <= erfc x.
  Hypothesis log10_monotone : forall x y, 0 < x -> x <= y -> log10 x <= log10 y.
  Hypothesis sqrt2_pos : 0 < sqrt2.

  Notation phi := (phi erfc log10 sqrt sqrt2).
  Notation std_eff := (std_eff sqrt).

  Lemma std_eff_pos d : 0 < d_min_std d -> 0 < std_eff d.
  Proof.
    intros H. unfold PhiModel.std_eff. destruct (Qlt_le_dec _ _) as [L|L]; [assumption|].
    eapply Qlt_le_trans; eassumption.
  Qed.

  Lemma div_le_compat a b s : 0 < s -> a <= b -> a / s <= b / s.
  Proof.
    intros Hs Hab. unfold Qdiv. apply Qmult_le_compat_r; [assumption|].
    apply Qlt_le_weak, Qinv_lt_0_compat, Hs.
  Qed.

  (** The detector state [d] is the same at both instants (no heartbeat in between) and
      both instants are at or after the last heartbeat. *)
  Lemma phi_monotone d t1 t2 :
    0 < d_min_std d ->
    (forall l, d_last d = Some l -> l <= t1) ->
    t1 <= t2 ->
    ext_le (phi d t1) (phi d t2).
  Proof.
    intros Hms Hl Ht. unfold PhiModel.phi.
    destruct (d_last d) as [l|] eqn:EL; [|cbn; lra].
    specialize (Hl l eq_refl).
    destruct (d_ivs d) as [|iv ivs] eqn:EI; [cbn; lra|].
    destruct (Qlt_le_dec (t1 - l) 0) as [N1|N1]; [lra|].
    destruct (Qlt_le_dec (t2 - l) 0) as [N2|N2]; [lra|].
    set (s := std_eff d). assert (Hs : 0 < s) by (apply std_eff_pos; assumption).
    set (y1 := (t1 - l - mean d) / s). set (y2 := (t2 - l - mean d) / s).
    assert (Hy : y1 / sqrt2 <= y2 / sqrt2).
    { apply div_le_compat; [assumption|]. apply div_le_compat; [assumption|lra]. }
    pose proof (erfc_antitone _ _ Hy) as He.
    destruct (Qlt_le_dec 0 ((1 # 2) * erfc (y2 / sqrt2))) as [P2|P2]; [|destruct (Qlt_le_dec _ _); exact I].
    destruct (Qlt_le_dec 0 ((1 # 2) * erfc (y1 / sqrt2))) as [P1|P1]; [|lra].
    cbn. apply Qopp_le_compat. apply log10_monotone; [assumption|lra].
  Qed.

  (** the same for two arbitrary instants (also before the last heartbeat, where the code
      returns 0.0), using erfc <= 2 and log10 1 <= 0: phi is never negative *)
  Lemma phi_monotone_all d t1 t2 :
    (forall x, erfc x <= 2) -> log10 1 <= 0 ->
    0 < d_min_std d -> t1 <= t2 ->
    ext_le (phi d t1) (phi d t2).
  Proof.
    intros He2 Hl1 Hms Ht.
    destruct (d_last d) as [l|] eqn:EL; [|unfold PhiModel.phi; rewrite EL; cbn; lra].
    destruct (Qlt_le_dec (t1 - l) 0) as [N1|N1].
    - unfold PhiModel.phi. rewrite EL. destruct (d_ivs d) as [|iv ivs]; [cbn; lra|].
      destruct (Qlt_le_dec (t1 - l) 0) as [_|?]; [|lra].
      destruct (Qlt_le_dec (t2 - l) 0) as [_|N2]; [cbn; lra|].
      match goal with |- context [Qlt_le_dec 0 ?p] => destruct (Qlt_le_dec 0 p) as [P2|P2]; [|exact I];
        assert (Hp1 : p <= 1) end.
      { match goal with |- (1 # 2) * erfc ?z <= 1 => pose proof (He2 z) end. lra. }
      cbn. pose proof (log10_monotone _ _ P2 Hp1). lra.
    - apply phi_monotone; try assumption. intros l' E. rewrite EL in E. injection E as <-. lra.
  Qed.

  (** consequence for the decision: once unavailable, unavailable until the next heartbeat *)
  Lemma unavailable_stays thr d t1 t2 :
    0 < d_min_std d ->
    (forall l, d_last d = Some l -> l <= t1) ->
    t1 <= t2 ->
    is_available erfc log10 sqrt sqrt2 thr d t1 = false ->
    is_available erfc log10 sqrt sqrt2 thr d t2 = false.
  Proof.
    intros Hms Hl Ht. pose proof (phi_monotone d t1 t2 Hms Hl Ht) as H.
    unfold is_available. destruct (phi d t1) as [x|], (phi d t2) as [y|]; cbn in H; try tauto.
    destruct (Qlt_le_dec x thr); [discriminate|]. destruct (Qlt_le_dec y thr); [lra|reflexivity].
  Qed.

  (** A detector that never saw a heartbeat reports phi = 0: the member is available
      whenever the threshold is positive (this is what [c_thr_pos] stands for in Model.v). *)
  Lemma never_heard_available thr d now :
    d_last d = None -> is_available erfc log10 sqrt sqrt2 thr d now = if Qlt_le_dec 0 thr then true else false.
  Proof. intros H. unfold is_available, PhiModel.phi. rewrite H. reflexivity. Qed.
End PhiMonotone.

(** the hypotheses are satisfiable (a decreasing "erfc", an increasing "log10") *)
Example phi_hypotheses_satisfiable :
  exists (erfc log10 : Q -> Q) (sqrt2 : Q),
    (forall x y, x <= y -> erfc y <= erfc x) /\
    (forall x y, 0 < x -> x <= y -> log10 x <= log10 y) /\ 0 < sqrt2.
Proof.
  exists (fun x => 1 - x), (fun x => x), (7 # 5). repeat split; intros; lra.
Qed.
